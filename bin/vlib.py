"""Shared machinery for the /verif checks.

Every check is `python3 bin/check <ID> --tier quick|thorough [--replay <path>]` and is implemented by
a module `checks/<ID>.py` exposing `run(c: Ctx)`.  The Go side never judges: it concretises,
executes the real code and logs.  Every verdict comes from a TLA+ formula evaluated by TLC.

Exit codes: 0 held (possibly with KNOWN-FINDING lines), 1 VIOLATION, 2 infrastructure problem.
"""
import fcntl
import hashlib
import json
import os
import re
import shutil
import subprocess
import sys
import tempfile
import time

VERIF = os.path.dirname(os.path.dirname(os.path.abspath(__file__)))
REPO = os.environ.get("VERIF_REPO", "/repo")
SPEC = os.path.join(VERIF, "spec")
HARNESS = os.path.join(VERIF, "harness")
OUT = os.path.join(VERIF, "out")
TLA_CP = "/opt/veriftools/tla/tla2tools.jar:/opt/veriftools/tla/CommunityModules-deps.jar"
NCPU = os.cpu_count() or 4


class Infra(Exception):
    """Infrastructure failure: never a verdict about the code (exit 2)."""


def goenv():
    e = dict(os.environ)
    e["GOFLAGS"] = "-mod=mod"
    e["GOPROXY"] = "off"
    e.pop("GOTOOLCHAIN", None)   # the auto switch to the cached go1.26.4 must stay enabled
    e.pop("GOSUMDB", None)
    return e


def sh(cmd, cwd=None, env=None, timeout=None, check=True, stdin=None):
    p = subprocess.run(cmd, cwd=cwd, env=env, timeout=timeout, stdout=subprocess.PIPE,
                       stderr=subprocess.STDOUT, text=True, input=stdin)
    if check and p.returncode != 0:
        raise Infra("command failed (%d): %s\n%s" % (p.returncode, cmd, p.stdout[-4000:]))
    return p


class TlcResult:
    def __init__(self, out, cmd, wall):
        self.out = out
        self.cmd = cmd
        self.wall = wall
        m = re.findall(r"(\d+) states generated, (\d+) distinct states found", out)
        self.generated = int(m[-1][0]) if m else 0
        self.distinct = int(m[-1][1]) if m else 0
        m = re.search(r"The depth of the complete state graph search is (\d+)", out)
        self.depth = int(m.group(1)) if m else 0
        self.completed = "Model checking completed. No error has been found." in out
        self.inv_violated = re.findall(r"Error: Invariant (\S+) is violated", out)
        self.prop_violated = (re.search(r"Temporal propert(y|ies) .*violated", out) is not None
                              or re.findall(r"Error: Action property (\S+) is violated", out) != [])
        self.deadlock = "Error: Deadlock reached" in out
        self.post_false = re.search(r"[Pp]ostcondition .* (is false|violated)", out) is not None or \
            "Error: The postcondition" in out
        # lines printed by the specification itself
        self.bad = []      # [(line, key)]
        # TLC pretty-prints long tuples over several lines ("<< "VERIF-BAD",\n   12,\n   "key" >>")
        for m in re.finditer(r'<<\s*"VERIF-BAD",\s*(\d+),\s*"((?:[^"\\]|\\.)*)"\s*>>', out):
            self.bad.append((int(m.group(1)), m.group(2)))
        self.drift = []
        for m in re.finditer(r'<<\s*"VERIF-DRIFT",\s*(\d+),\s*"((?:[^"\\]|\\.)*)"\s*>>', out):
            self.drift.append((int(m.group(1)), m.group(2)))
        m = re.findall(r'<<\s*"VERIF-DONE",\s*(\d+)\s*>>', out)
        self.done = max(int(x) for x in m) if m else None
        self.stats = {}
        for m in re.finditer(r'<<\s*"VERIF-STAT",\s*"([^"]+)",\s*(-?\d+)\s*>>', out):
            self.stats[m.group(1)] = int(m.group(2))
        self.other_error = None
        if not self.completed and not self.inv_violated and not self.prop_violated \
                and not self.deadlock and not self.post_false:
            m = re.search(r"Error: .*", out)
            self.other_error = m.group(0) if m else "TLC did not complete"

    def coverage_zero(self):
        """Actions/branches with zero count in a -coverage run."""
        return re.findall(r"^\s*<(\w+) line .*>: 0:0$", self.out, re.M)


class Ctx:
    def __init__(self, pid, tier, seed, replay=None):
        self.pid = pid
        self.tier = tier
        self.seed = seed
        self.replay = replay
        self.t0 = time.time()
        self.scratch = tempfile.mkdtemp(prefix="verif-%s-" % pid)
        self.cov = {"states": 0, "transitions": 0, "traces_validated_against_impl": 0,
                    "evaluations": 0, "distinct_nontrivial": 0, "samples": [], "checker_cmd": "",
                    "exhaustive": False, "rule": ""}
        self.level = "model_checking"
        self.assumptions = []
        self.violations = []   # (key, replay_path, what)
        self.known_hits = []
        self.notes = []
        self._kf = None
        self.thorough = tier == "thorough"

    # ------------------------------------------------------------------ build
    def build(self, driver, race=False):
        """Build harness/cmd/<driver> against /repo's *current working tree* with -tags verif."""
        # The module file is generated next to the binaries so that the tree under test can be
        # /repo (default) or a scratch copy (VERIF_REPO=<dir>, used for mutation self-tests).
        tag = "" if REPO == "/repo" else "-" + hashlib.sha1(REPO.encode()).hexdigest()[:8]
        bindir = os.path.join(OUT, "bin" + tag)
        os.makedirs(bindir, exist_ok=True)
        # short critical section: (re)write the module file only when it changes; the build itself
        # runs under a per-driver lock only (cmd/go locks go.mod/go.sum and its cache itself)
        lock = open(os.path.join(bindir, ".lock"), "w")
        fcntl.flock(lock, fcntl.LOCK_EX)
        try:
            modfile = os.path.join(bindir, "go.mod")
            gomod = open(os.path.join(HARNESS, "go.mod")).read().replace("=> /repo", "=> " + REPO)
            if not os.path.exists(modfile) or open(modfile).read() != gomod:
                with open(modfile, "w") as f:
                    f.write(gomod)
            want = open(os.path.join(REPO, "go.sum")).read()
            sump = os.path.join(bindir, "go.sum")
            have = open(sump).read() if os.path.exists(sump) else ""
            if not set(want.splitlines()) <= set(have.splitlines()):
                with open(sump, "w") as f:
                    f.write(want)
        finally:
            fcntl.flock(lock, fcntl.LOCK_UN)
            lock.close()
        outp = os.path.join(bindir, driver + ("-race" if race else ""))
        dlock = open(outp + ".lock", "w")
        fcntl.flock(dlock, fcntl.LOCK_EX)
        try:
            cmd = ["go", "build", "-modfile=" + modfile, "-tags", "verif"] + \
                  (["-race"] if race else []) + ["-o", outp, "./cmd/" + driver]
            p = sh(cmd, cwd=HARNESS, env=goenv(), timeout=2400, check=False)
            if p.returncode != 0:
                raise Infra("build of driver %s failed:\n%s" % (driver, p.stdout[-6000:]))
            return outp
        finally:
            fcntl.flock(dlock, fcntl.LOCK_UN)
            dlock.close()

    def run_driver(self, binpath, args, timeout=900, env_extra=None, check=True):
        env = dict(os.environ)
        env["VERIF_SEED"] = str(self.seed)
        env["VERIF_TIER"] = self.tier
        if env_extra:
            env.update(env_extra)
        try:
            p = sh([binpath] + [str(a) for a in args], cwd=self.scratch, env=env, timeout=timeout,
                   check=False)
        except subprocess.TimeoutExpired:
            raise Infra("driver %s timed out after %ds" % (binpath, timeout))
        if check and p.returncode != 0:
            raise Infra("driver %s failed (%d):\n%s" % (binpath, p.returncode, p.stdout[-6000:]))
        return p

    # ------------------------------------------------------------------ TLC
    def _tlcdir(self, name, extra_files=()):
        d = tempfile.mkdtemp(prefix=name + "-", dir=self.scratch)
        for f in os.listdir(SPEC):
            if f.endswith(".tla") or f.endswith(".cfg"):
                shutil.copyfile(os.path.join(SPEC, f), os.path.join(d, f))
        for src, dst in extra_files:
            shutil.copyfile(src, os.path.join(d, dst))
        return d

    def tlc(self, module, cfg, workers=None, **kw):
        """Run TLC; an internal TLC failure ("TLC threw an unexpected exception": seen once in ~10^3 runs
        with 16 workers and PrintT-heavy generator configs) is an infrastructure flake, never a verdict:
        the run is repeated (then with fewer workers) before it is reported as an infrastructure error."""
        r = self._tlc_once(module, cfg, workers=workers, **kw)
        for attempt in (1, 2):
            if not (r.other_error and "unexpected exception" in r.out):
                break
            self.notes.append("TLC internal exception in %s/%s, retry %d" % (module, cfg, attempt))
            r = self._tlc_once(module, cfg, workers=max(1, (workers or NCPU) // (2 * attempt)), **kw)
        return r

    def _tlc_once(self, module, cfg, workers=None, timeout=1800, extra_files=(), simulate=None,
                  depth=None, coverage=False, dfs=False, xss="64m", heap=None, jvm=(), args=()):
        """Run TLC on spec/<module>.tla with spec/<cfg> in a private scratch copy."""
        d = self._tlcdir(module, extra_files)
        if not workers:
            # all cores on a quiet machine; fewer when many checks / agents run at the same time
            try:
                load = os.getloadavg()[0]
            except OSError:
                load = 0
            workers = int(os.environ.get("VERIF_WORKERS", "0")) or \
                (NCPU if load < NCPU * 0.75 else max(4, NCPU // 4))
        cmd = ["java", "-XX:+UseParallelGC", "-Xss" + xss]
        cmd.append("-Xmx" + (heap or "6g"))    # several checks / agents may run at the same time
        if dfs:
            cmd.append("-Dtlc2.tool.queue.IStateQueue=StateDeque")
        cmd += list(jvm)
        cmd += ["-cp", TLA_CP, "tlc2.TLC", "-workers", str(workers), "-metadir",
                os.path.join(d, "meta"), "-noGenerateSpecTE", "-config", cfg]
        if simulate:
            cmd += ["-simulate", simulate]
        if depth:
            cmd += ["-depth", str(depth)]
        if coverage:
            cmd += ["-coverage", "1"]
        cmd += list(args)
        cmd += [module + ".tla"]
        t = time.time()
        try:
            p = subprocess.run(cmd, cwd=d, stdout=subprocess.PIPE, stderr=subprocess.STDOUT,
                               text=True, timeout=timeout)
        except subprocess.TimeoutExpired:
            subprocess.run(["pkill", "-f", d], check=False)
            raise Infra("TLC timed out after %ds: %s %s" % (timeout, module, cfg))
        r = TlcResult(p.stdout, " ".join(cmd[cmd.index("tlc2.TLC"):]).replace(d + "/", ""),
                      time.time() - t)
        r.dir = d
        return r

    def mc(self, module, cfg, invariant_is_design=True, **kw):
        """Exhaustive design-level run.  A violation in the model alone is never a verdict about
        the code: it is an infrastructure error here (the model on the unchanged design must hold);
        modules that use model counterexamples as scenario generators call tlc() directly."""
        r = self.tlc(module, cfg, **kw)
        if not r.completed:
            raise Infra("model check %s/%s did not complete cleanly: inv=%s prop=%s deadlock=%s "
                        "err=%s\n%s" % (module, cfg, r.inv_violated, r.prop_violated, r.deadlock,
                                        r.other_error, r.out[-3000:]))
        self.cov["states"] += r.distinct
        self.cov["transitions"] += r.generated
        self._addcmd("tlc " + r.cmd)
        return r

    def _addcmd(self, s):
        if len(self.cov["checker_cmd"]) < 1500:
            self.cov["checker_cmd"] += ("; " if self.cov["checker_cmd"] else "") + s

    def validate(self, module, cfg, trace_path, trace_name="trace.ndjson", expect_lines=None,
                 deterministic=True, extra_files=(), timeout=1800, heap=None):
        """Validate a recorded ndjson trace against a trace specification.

        Trace specs are *total*: a monitor failure at line l prints <<"VERIF-BAD", l, key>> and the
        validation goes on, so the rest of the trace is still checked; the spec prints
        <<"VERIF-DONE", n>> when it consumed all n lines.  Returns the TlcResult; raises Infra if the
        trace was not consumed to the end and no BAD line explains it."""
        nlines = expect_lines
        if nlines is None:
            with open(trace_path) as f:
                nlines = sum(1 for _ in f)
        r = self.tlc(module, cfg, workers=1, extra_files=[(trace_path, trace_name)] + list(extra_files),
                     dfs=not deterministic, timeout=timeout, heap=heap)
        self._addcmd("tlc " + r.cmd)
        r.nlines = nlines
        r.stuck_at = None
        if r.done != nlines:
            # the trace spec could not consume the whole trace: rejected at depth
            if r.other_error and "VERIF" not in (r.other_error or ""):
                raise Infra("trace validation %s failed to run: %s\n%s" %
                            (module, r.other_error, r.out[-3000:]))
            r.stuck_at = r.depth
        return r

    # ------------------------------------------------------------------ verdicts
    def known_findings(self):
        if self._kf is None:
            p = os.path.join(VERIF, "known_findings.json")
            self._kf = json.load(open(p)) if os.path.exists(p) else []
            d = os.path.join(VERIF, "known_findings.d")     # per-property fragments (merged into
            if os.path.isdir(d):                            # known_findings.json by bin/mkmanifest)
                for f in sorted(os.listdir(d)):
                    if f.endswith(".json"):
                        for k in json.load(open(os.path.join(d, f))):
                            if k not in self._kf:
                                self._kf.append(k)
        return [k for k in self._kf if k.get("property") == self.pid and k.get("status") == "open"]

    def report(self, key, what, replay_src=None):
        """Report one monitor failure with its abstract key.  Listed keys become KNOWN-FINDING."""
        for k in self.known_findings():
            if re.fullmatch(k["key"], key):
                if k["key"] not in [h[0] for h in self.known_hits]:
                    self.known_hits.append((k["key"], k["what"]))
                return False
        if key in [v[0] for v in self.violations]:
            return True
        rp = ""
        if replay_src:
            rd = os.path.join(OUT, "replay")
            os.makedirs(rd, exist_ok=True)
            h = hashlib.sha1((self.pid + key).encode()).hexdigest()[:10]
            rp = os.path.join(rd, "%s-%s%s" % (self.pid, h, os.path.splitext(replay_src)[1] or ".ndjson"))
            if os.path.isdir(replay_src):
                shutil.rmtree(rp, ignore_errors=True)
                shutil.copytree(replay_src, rp)
            else:
                shutil.copyfile(replay_src, rp)
        self.violations.append((key, rp, what))
        return True

    def judge_trace(self, r, trace_path, keyfn=None, context=3):
        """Turn the BAD lines / stuck position of a validated trace into reports."""
        if not r.bad and r.stuck_at is None:
            return
        lines = open(trace_path).read().splitlines()
        for (l, key) in r.bad:
            ev = lines[l - 1] if 0 < l <= len(lines) else ""
            self.report(key, "trace line %d: %s" % (l, ev[:300]), self._slice(trace_path, lines, l))
        if r.stuck_at is not None and not r.bad:
            l = r.stuck_at
            ev = lines[l - 1] if 0 < l <= len(lines) else ""
            key = keyfn(ev) if keyfn else "rejected"
            self.report(key, "trace rejected at line %d: %s" % (l, ev[:300]),
                        self._slice(trace_path, lines, l))

    def _slice(self, trace_path, lines, l):
        """Cut the Reset-delimited trace containing line l out of a batch, for replay."""
        a = l - 1
        while a > 0 and '"ev":"reset"' not in lines[a].replace(" ", ""):
            a -= 1
        b = l
        while b < len(lines) and '"ev":"reset"' not in lines[b].replace(" ", ""):
            b += 1
        p = os.path.join(self.scratch, "replay-%d.ndjson" % l)
        with open(p, "w") as f:
            f.write("\n".join(lines[a:b]) + "\n")
        return p

    # ------------------------------------------------------------------ evidence
    def sample(self, obj, limit=3):
        if len(self.cov["samples"]) < limit:
            self.cov["samples"].append(obj)

    def sample_trace(self, trace_path, nevents=12, limit=3):
        if len(self.cov["samples"]) >= limit:
            return
        evs = []
        with open(trace_path) as f:
            for i, line in enumerate(f):
                if i >= nevents:
                    break
                try:
                    evs.append(json.loads(line))
                except Exception:
                    evs.append(line.strip())
        self.cov["samples"].append({"trace_prefix": evs})

    def finish(self):
        wall = time.time() - self.t0
        for (key, what) in self.known_hits:
            print("KNOWN-FINDING: property=%s %s [%s]" % (self.pid, what, key))
        for (key, rp, what) in self.violations:
            print("VIOLATION property=%s replay=%s" % (self.pid, rp or "-"))
            print("  key=%s %s" % (key, what))
        cov = dict(self.cov)
        if cov["distinct_nontrivial"] > cov["evaluations"]:
            cov["distinct_nontrivial"] = cov["evaluations"]
        if not cov["samples"]:
            cov["samples"] = ["(no sample recorded)"]
        cov["known_findings_seen"] = [k for (k, _) in self.known_hits]
        cov["notes"] = self.notes
        ev = {"property_id": self.pid, "tier": self.tier, "seed": self.seed, "level": self.level,
              "coverage": cov, "assumptions": self.assumptions, "wall_s": round(wall, 2),
              "violations": len(self.violations)}
        # evidence of runs against a scratch copy (mutation self-tests) must not clobber the real one
        evdir = os.path.join(VERIF, "evidence") if REPO == "/repo" else os.path.join(OUT, "evidence-scratch")
        evdir = os.environ.get("VERIF_EVIDENCE_DIR", evdir)   # e.g. a sweep that must not touch evidence/
        os.makedirs(evdir, exist_ok=True)
        with open(os.path.join(evdir, self.pid + ".json"), "w") as f:
            json.dump(ev, f, indent=1, default=str)
        shutil.rmtree(self.scratch, ignore_errors=True)
        return 1 if self.violations else 0

    def cleanup(self):
        shutil.rmtree(self.scratch, ignore_errors=True)


def count_distinct(trace_path, keyfn):
    """Number of distinct keys produced by keyfn over the events of an ndjson file (None = skip)."""
    seen = set()
    n = 0
    with open(trace_path) as f:
        for line in f:
            try:
                ev = json.loads(line)
            except Exception:
                continue
            n += 1
            k = keyfn(ev)
            if k is not None:
                seen.add(k if isinstance(k, str) else json.dumps(k, sort_keys=True))
    return n, len(seen)


def split_traces(trace_path):
    """Yield lists of events, one per reset-delimited trace."""
    cur = []
    with open(trace_path) as f:
        for line in f:
            ev = json.loads(line)
            if ev.get("ev") == "reset" and cur:
                yield cur
                cur = []
            cur.append(ev)
    if cur:
        yield cur
