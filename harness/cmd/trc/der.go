package main

// Structure-aware DER mutations of an encoded TRC payload (C33, decoder direction): elements of the
// top-level SEQUENCE and of the nested ID / validity / votes / AS / certificate sequences are dropped,
// duplicated, swapped, re-tagged, given non-minimal or indefinite lengths, or get boundary values.
// The driver only produces the byte strings and records what DecodeTRC did with them.

type tlv struct {
	tag     byte
	content []byte
}

func parseTLVs(b []byte) ([]tlv, bool) {
	var out []tlv
	for len(b) > 0 {
		if len(b) < 2 || b[0]&0x1f == 0x1f {
			return nil, false
		}
		tag, l, hdr := b[0], int(b[1]), 2
		if l&0x80 != 0 {
			n := l & 0x7f
			if n == 0 || n > 3 || len(b) < 2+n {
				return nil, false
			}
			l = 0
			for i := 0; i < n; i++ {
				l = l<<8 | int(b[2+i])
			}
			hdr = 2 + n
		}
		if len(b) < hdr+l {
			return nil, false
		}
		out = append(out, tlv{tag: tag, content: b[hdr : hdr+l]})
		b = b[hdr+l:]
	}
	return out, true
}

// lenForm: 0 minimal, 1 one length octet more than necessary, 2 indefinite (constructed only)
func encTLV(t tlv, lenForm int) []byte {
	l := len(t.content)
	var hdr []byte
	switch {
	case lenForm == 2:
		out := append([]byte{t.tag, 0x80}, t.content...)
		return append(out, 0, 0)
	case lenForm == 1 && l < 0x80:
		hdr = []byte{t.tag, 0x81, byte(l)}
	case lenForm == 1 && l < 0x100:
		hdr = []byte{t.tag, 0x82, 0, byte(l)}
	case lenForm == 1:
		hdr = []byte{t.tag, 0x83, 0, byte(l >> 8), byte(l)}
	case l < 0x80:
		hdr = []byte{t.tag, byte(l)}
	case l < 0x100:
		hdr = []byte{t.tag, 0x81, byte(l)}
	default:
		hdr = []byte{t.tag, 0x82, byte(l >> 8), byte(l)}
	}
	return append(hdr, t.content...)
}

func encAll(ts []tlv) []byte {
	var out []byte
	for _, t := range ts {
		out = append(out, encTLV(t, 0)...)
	}
	return out
}

type derMut struct {
	name string
	der  []byte
}

var fieldNames = []string{"version", "id", "validity", "grace", "noTrustReset", "votes", "quorum", "core",
	"auth", "description", "certificates"}

// seqMuts applies the element-level mutations to a constructed element and returns the re-assembled
// variants of its content.
func seqMuts(prefix string, elems []tlv, names func(int) string) []struct {
	name    string
	content []byte
} {
	type res = struct {
		name    string
		content []byte
	}
	var out []res
	cp := func() []tlv { return append([]tlv{}, elems...) }
	for i := range elems {
		d := cp()
		d = append(d[:i], d[i+1:]...)
		out = append(out, res{prefix + "drop:" + names(i), encAll(d)})
		u := cp()
		u = append(u[:i+1], u[i:]...)
		out = append(out, res{prefix + "dup:" + names(i), encAll(u)})
		if i+1 < len(elems) {
			s := cp()
			s[i], s[i+1] = s[i+1], s[i]
			out = append(out, res{prefix + "swap:" + names(i), encAll(s)})
		}
		for lf := 1; lf <= 2; lf++ {
			if lf == 2 && elems[i].tag&0x20 == 0 {
				continue
			}
			var b []byte
			for j, t := range elems {
				if j == i {
					b = append(b, encTLV(t, lf)...)
				} else {
					b = append(b, encTLV(t, 0)...)
				}
			}
			out = append(out, res{prefix + []string{"", "longlen:", "indeflen:"}[lf] + names(i), b})
		}
	}
	return out
}

func derMutations(raw []byte) []derMut {
	top, ok := parseTLVs(raw)
	if !ok || len(top) != 1 {
		return nil
	}
	fields, ok := parseTLVs(top[0].content)
	if !ok || len(fields) != len(fieldNames) {
		return nil
	}
	wrap := func(content []byte) []byte { return encTLV(tlv{tag: top[0].tag, content: content}, 0) }
	var out []derMut
	out = append(out, derMut{"identity", wrap(encAll(fields))})
	out = append(out, derMut{"top:longlen", encTLV(top[0], 1)}, derMut{"top:indeflen", encTLV(top[0], 2)},
		derMut{"top:trailing", append(append([]byte{}, raw...), 0x05, 0x00)},
		derMut{"top:set-tag", encTLV(tlv{tag: 0x31, content: top[0].content}, 0)},
		derMut{"top:inner-trailing", wrap(append(encAll(fields), 0x05, 0x00))})
	for _, m := range seqMuts("field:", fields, func(i int) string { return fieldNames[i] }) {
		out = append(out, derMut{m.name, wrap(m.content)})
	}
	// nested constructed fields
	for i, f := range fields {
		if f.tag&0x20 == 0 {
			continue
		}
		elems, ok := parseTLVs(f.content)
		if !ok {
			continue
		}
		if len(elems) > 6 { // the first six elements of long lists are enough
			elems = elems[:6]
			rest := f.content[len(encAll(elems)):]
			for _, m := range seqMuts(fieldNames[i]+":", elems, func(j int) string { return "e" }) {
				g := append([]tlv{}, fields...)
				g[i] = tlv{tag: f.tag, content: append(append([]byte{}, m.content...), rest...)}
				out = append(out, derMut{m.name, wrap(encAll(g))})
			}
			continue
		}
		for _, m := range seqMuts(fieldNames[i]+":", elems, func(j int) string { return "e" }) {
			g := append([]tlv{}, fields...)
			g[i] = tlv{tag: f.tag, content: m.content}
			out = append(out, derMut{m.name, wrap(encAll(g))})
		}
		// an empty list, and the list as SET
		g := append([]tlv{}, fields...)
		g[i] = tlv{tag: f.tag, content: nil}
		out = append(out, derMut{fieldNames[i] + ":empty", wrap(encAll(g))})
		g = append([]tlv{}, fields...)
		g[i] = tlv{tag: 0x31, content: f.content}
		out = append(out, derMut{fieldNames[i] + ":set-tag", wrap(encAll(g))})
	}
	// primitive fields: boundary values, non-minimal integers, other tags
	repl := func(i int, name string, t tlv) {
		g := append([]tlv{}, fields...)
		g[i] = t
		out = append(out, derMut{fieldNames[i] + ":" + name, wrap(encAll(g))})
	}
	for _, i := range []int{0, 3, 6} { // version, grace, quorum
		repl(i, "zero", tlv{0x02, []byte{0}})
		repl(i, "minus1", tlv{0x02, []byte{0xff}})
		repl(i, "256", tlv{0x02, []byte{1, 0}})
		repl(i, "255", tlv{0x02, []byte{0, 0xff}})
		repl(i, "nonminimal", tlv{0x02, append([]byte{0}, fields[i].content...)})
		repl(i, "empty", tlv{0x02, nil})
		repl(i, "enumerated-tag", tlv{0x0a, fields[i].content})
		repl(i, "huge", tlv{0x02, []byte{0x7f, 0xff, 0xff, 0xff, 0xff, 0xff, 0xff, 0xff, 0xff}})
	}
	repl(4, "true-01", tlv{0x01, []byte{0x01}})
	repl(4, "false-00", tlv{0x01, []byte{0x00}})
	repl(4, "true-ff", tlv{0x01, []byte{0xff}})
	repl(4, "two-octets", tlv{0x01, []byte{0xff, 0xff}})
	repl(9, "printable-tag", tlv{0x13, []byte("ISD one")})
	repl(9, "ia5-tag", tlv{0x16, []byte("ISD one")})
	repl(9, "invalid-utf8", tlv{0x0c, []byte{0xff, 0xfe}})
	repl(9, "octetstring-tag", tlv{0x04, fields[9].content})
	// validity: other time forms
	if v, ok := parseTLVs(fields[2].content); ok && len(v) == 2 {
		for _, alt := range []struct{ name, val string }{
			{"fraction", string(v[0].content[:14]) + ".5Z"}, {"offset", string(v[0].content[:14]) + "+0000"},
			{"no-seconds", string(v[0].content[:12]) + "Z"}, {"utctime", string(v[0].content[2:14]) + "Z"}} {
			tag := byte(0x18)
			if alt.name == "utctime" {
				tag = 0x17
			}
			g := append([]tlv{}, fields...)
			g[2] = tlv{tag: fields[2].tag, content: encAll([]tlv{{tag, []byte(alt.val)}, v[1]})}
			out = append(out, derMut{"validity:notBefore-" + alt.name, wrap(encAll(g))})
		}
	}
	// AS strings: other string type, non-canonical AS text
	if as, ok := parseTLVs(fields[7].content); ok && len(as) > 0 {
		for _, alt := range []struct {
			name string
			t    tlv
		}{{"utf8-tag", tlv{0x0c, as[0].content}}, {"zero", tlv{as[0].tag, []byte("0")}},
			{"leading-zero", tlv{as[0].tag, append([]byte("0"), as[0].content...)}},
			{"upper-case", tlv{as[0].tag, []byte("FF00:0:110")}}, {"empty", tlv{as[0].tag, nil}}} {
			g := append([]tlv{}, fields...)
			g[7] = tlv{tag: fields[7].tag, content: encAll(append([]tlv{alt.t}, as[1:]...))}
			out = append(out, derMut{"core:as-" + alt.name, wrap(encAll(g))})
		}
	}
	return out
}
