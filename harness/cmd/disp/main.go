// Driver for C44: concretises abstract datagram sequences into real SCION packets (slayers), feeds them
// to one real dispatcher.Server per sequence through the verif export (H5) and logs what the server
// decided: drop / forward (next hop, port) / reply (decoded reply).  Observations only; judged by
// DispatcherTrace.tla.
package main

import (
	"fmt"
	"bufio"
	"bytes"
	"encoding/json"
	"flag"
	"math/rand"
	"net/netip"
	"os"

	"github.com/gopacket/gopacket"

	"github.com/scionproto/scion/dispatcher"
	"github.com/scionproto/scion/pkg/addr"
	"github.com/scionproto/scion/pkg/slayers"
	"github.com/scionproto/scion/pkg/slayers/path"
	"github.com/scionproto/scion/pkg/slayers/path/empty"
	"github.com/scionproto/scion/pkg/slayers/path/scion"

	"verifharness/internal/vt"
)

type dgram struct {
	Mal   string `json:"mal"`
	Dt    string `json:"dt"`
	Dh    string `json:"dh"`
	Outer string `json:"outer"`
	Ext   string `json:"ext"`
	L4    string `json:"l4"`
	Port  int    `json:"port"`
	St    string `json:"st"`
	ID    int    `json:"id"`
	Q     string `json:"q"`
	Qp    int    `json:"qp"`
	Path  string `json:"path"`
}

type scenario struct {
	On  int     `json:"on"`
	Seq []dgram `json:"seq"`
	Mut int     `json:"mut"` // number of seeded byte-level mutants processed after the sequence
}

var (
	localIA  = addr.MustParseIA("1-ff00:0:110")
	remoteIA = addr.MustParseIA("2-ff00:0:220")
	hosts4   = map[string]netip.Addr{"A": netip.MustParseAddr("10.0.0.1"), "B": netip.MustParseAddr("10.0.0.2"),
		"C": netip.MustParseAddr("10.0.0.3"), "V": netip.MustParseAddr("0.2.0.0")}
	hosts6 = map[string]netip.Addr{"A": netip.MustParseAddr("fd00::1"), "B": netip.MustParseAddr("fd00::2"),
		"C": netip.MustParseAddr("fd00::3"), "V": netip.MustParseAddr("0.2.0.0")}
	remoteHost = netip.MustParseAddr("10.9.9.9")
	prevHop    = netip.MustParseAddrPort("10.0.0.254:30042")
	svcPort    = uint16(30252)
)

func mkPath(kind string) (path.Path, path.Type) {
	hf := func(in, eg uint16) path.HopField {
		return path.HopField{ConsIngress: in, ConsEgress: eg, ExpTime: 63, Mac: [path.MacLen]byte{1, 2, 3, 4, 5, 6}}
	}
	switch kind {
	case "empty":
		return empty.Path{}, empty.PathType
	case "seg1":
		p := &scion.Decoded{Base: scion.Base{PathMeta: scion.MetaHdr{CurrINF: 0, CurrHF: 1, SegLen: [3]uint8{2, 0, 0}},
			NumINF: 1, NumHops: 2},
			InfoFields: []path.InfoField{{ConsDir: true, SegID: 0x111, Timestamp: 1000}},
			HopFields:  []path.HopField{hf(0, 11), hf(22, 0)}}
		return p, scion.PathType
	case "seg2":
		p := &scion.Decoded{Base: scion.Base{PathMeta: scion.MetaHdr{CurrINF: 1, CurrHF: 3, SegLen: [3]uint8{2, 2, 0}},
			NumINF: 2, NumHops: 4},
			InfoFields: []path.InfoField{{ConsDir: true, SegID: 0x111, Timestamp: 1000},
				{ConsDir: false, SegID: 0x222, Timestamp: 1001}},
			HopFields: []path.HopField{hf(0, 11), hf(22, 0), hf(0, 33), hf(44, 0)}}
		return p, scion.PathType
	}
	vt.Fatal("unknown path kind %q", kind)
	return nil, 0
}

func serialize(ls ...gopacket.SerializableLayer) []byte {
	buf := gopacket.NewSerializeBuffer()
	if err := gopacket.SerializeLayers(buf, gopacket.SerializeOptions{FixLengths: true, ComputeChecksums: true}, ls...); err != nil {
		vt.Fatal("serialize: %v", err)
	}
	return append([]byte(nil), buf.Bytes()...)
}

// quote builds the packet an SCMP error quotes: sent by the local host (A) to the remote side.
func quote(d dgram, v6 bool) []byte {
	if d.Q == "empty" {
		return nil
	}
	hs := hosts4
	if v6 {
		hs = hosts6
	}
	sc := &slayers.SCION{Version: 0, FlowID: 7, SrcIA: localIA, DstIA: remoteIA}
	sc.Path, sc.PathType = mkPath("seg1")
	_ = sc.SetSrcAddr(addr.HostIP(hs["A"]))
	_ = sc.SetDstAddr(addr.HostIP(remoteHost))
	pay := gopacket.Payload([]byte("quoted-payload"))
	var b []byte
	switch d.Q {
	case "udp", "udp0", "truncl4":
		port := d.Qp
		if d.Q == "udp0" {
			port = 0
		}
		sc.NextHdr = slayers.L4UDP
		udp := &slayers.UDP{SrcPort: uint16(port), DstPort: 443}
		udp.SetNetworkLayerForChecksum(sc)
		b = serialize(sc, udp, pay)
		if d.Q == "truncl4" {
			b = b[:len(b)-len(pay)-4] // half of the UDP header is missing
		}
	case "echoreq", "trreq", "echorep", "trrep", "err":
		sc.NextHdr = slayers.L4SCMP
		var tc slayers.SCMPTypeCode
		var msg gopacket.SerializableLayer
		switch d.Q {
		case "echoreq":
			tc, msg = slayers.CreateSCMPTypeCode(slayers.SCMPTypeEchoRequest, 0), &slayers.SCMPEcho{Identifier: uint16(d.Qp), SeqNumber: 3}
		case "echorep":
			tc, msg = slayers.CreateSCMPTypeCode(slayers.SCMPTypeEchoReply, 0), &slayers.SCMPEcho{Identifier: uint16(d.Qp), SeqNumber: 3}
		case "trreq":
			tc, msg = slayers.CreateSCMPTypeCode(slayers.SCMPTypeTracerouteRequest, 0), &slayers.SCMPTraceroute{Identifier: uint16(d.Qp), Sequence: 3}
		case "trrep":
			tc, msg = slayers.CreateSCMPTypeCode(slayers.SCMPTypeTracerouteReply, 0), &slayers.SCMPTraceroute{Identifier: uint16(d.Qp), Sequence: 3, IA: remoteIA, Interface: 7}
		default:
			tc, msg = slayers.CreateSCMPTypeCode(slayers.SCMPTypeDestinationUnreachable, 1), &slayers.SCMPDestinationUnreachable{}
		}
		scmp := &slayers.SCMP{TypeCode: tc}
		scmp.SetNetworkLayerForChecksum(sc)
		b = serialize(sc, scmp, msg, pay)
	case "tcp":
		sc.NextHdr = slayers.L4TCP
		b = serialize(sc, gopacket.Payload(bytes.Repeat([]byte{0xc3, 0x50}, 12)))
	case "truncscion":
		sc.NextHdr = slayers.L4UDP
		udp := &slayers.UDP{SrcPort: uint16(d.Qp), DstPort: 443}
		udp.SetNetworkLayerForChecksum(sc)
		b = serialize(sc, udp, pay)[:30]
	default:
		vt.Fatal("unknown quote kind %q", d.Q)
	}
	return b
}

type built struct {
	raw     []byte
	outer   netip.Addr
	v6      bool
	srcHost addr.Host
	dstHost addr.Host // zero for the bad address type
}

func build(d dgram, r *rand.Rand) built {
	v6 := r.Intn(3) == 0 && d.Dt != "bad"
	hs := hosts4
	if v6 {
		hs = hosts6
	}
	res := built{outer: hs[d.Outer], v6: v6}
	sc := &slayers.SCION{Version: 0, TrafficClass: 0, FlowID: 0x12345, SrcIA: remoteIA, DstIA: localIA}
	sc.Path, sc.PathType = mkPath(d.Path)
	res.srcHost = addr.HostIP(remoteHost)
	_ = sc.SetSrcAddr(res.srcHost)
	switch d.Dt {
	case "ip":
		res.dstHost = addr.HostIP(hs[d.Dh])
		_ = sc.SetDstAddr(res.dstHost)
	case "svc":
		svc := addr.SvcCS
		if d.Dh == "DS" {
			svc = addr.SvcDS
		}
		res.dstHost = addr.HostSVC(svc)
		_ = sc.SetDstAddr(res.dstHost)
	case "bad":
		// an address type the SCION layer does not know (type 2, 4 bytes); the raw bytes are those of host Dh
		sc.DstAddrType = slayers.AddrType(0b1000)
		sc.RawDstAddr = hosts4[d.Dh].AsSlice()
	}
	var ls []gopacket.SerializableLayer
	ls = append(ls, sc)
	l4 := map[string]slayers.L4ProtocolType{"udp": slayers.L4UDP, "scmp": slayers.L4SCMP, "tcp": slayers.L4TCP,
		"none": slayers.L4ProtocolType(253)}[d.L4]
	var hbh *slayers.HopByHopExtn
	var e2e *slayers.EndToEndExtn
	if d.Ext == "hbh" || d.Ext == "both" {
		hbh = &slayers.HopByHopExtn{Options: []*slayers.HopByHopOption{{OptType: 0xfd, OptData: []byte{1, 2, 3, 4}}}}
		ls = append(ls, hbh)
	}
	if d.Ext == "e2e" || d.Ext == "both" {
		e2e = &slayers.EndToEndExtn{Options: []*slayers.EndToEndOption{{OptType: 0xfd, OptData: []byte{5, 6, 7, 8, 9, 10}}}}
		ls = append(ls, e2e)
	}
	switch {
	case hbh != nil && e2e != nil:
		sc.NextHdr, hbh.NextHdr, e2e.NextHdr = slayers.HopByHopClass, slayers.End2EndClass, l4
	case hbh != nil:
		sc.NextHdr, hbh.NextHdr = slayers.HopByHopClass, l4
	case e2e != nil:
		sc.NextHdr, e2e.NextHdr = slayers.End2EndClass, l4
	default:
		sc.NextHdr = l4
	}
	pay := gopacket.Payload([]byte("application-data"))
	switch d.L4 {
	case "udp":
		udp := &slayers.UDP{SrcPort: 5000, DstPort: uint16(d.Port)}
		udp.SetNetworkLayerForChecksum(sc)
		ls = append(ls, udp, pay)
	case "scmp":
		scmp := &slayers.SCMP{}
		scmp.SetNetworkLayerForChecksum(sc)
		ls = append(ls, scmp)
		switch d.St {
		case "echoreq":
			scmp.TypeCode = slayers.CreateSCMPTypeCode(slayers.SCMPTypeEchoRequest, 0)
			ls = append(ls, &slayers.SCMPEcho{Identifier: uint16(d.ID), SeqNumber: 9}, pay)
		case "echorep":
			scmp.TypeCode = slayers.CreateSCMPTypeCode(slayers.SCMPTypeEchoReply, 0)
			ls = append(ls, &slayers.SCMPEcho{Identifier: uint16(d.ID), SeqNumber: 9}, pay)
		case "trreq":
			scmp.TypeCode = slayers.CreateSCMPTypeCode(slayers.SCMPTypeTracerouteRequest, 0)
			ls = append(ls, &slayers.SCMPTraceroute{Identifier: uint16(d.ID), Sequence: 9})
		case "trrep":
			scmp.TypeCode = slayers.CreateSCMPTypeCode(slayers.SCMPTypeTracerouteReply, 0)
			ls = append(ls, &slayers.SCMPTraceroute{Identifier: uint16(d.ID), Sequence: 9, IA: remoteIA, Interface: 5})
		case "err":
			q := quote(d, v6)
			switch r.Intn(3) {
			case 0:
				scmp.TypeCode = slayers.CreateSCMPTypeCode(slayers.SCMPTypeDestinationUnreachable, 4)
				ls = append(ls, &slayers.SCMPDestinationUnreachable{})
			case 1:
				scmp.TypeCode = slayers.CreateSCMPTypeCode(slayers.SCMPTypeExternalInterfaceDown, 0)
				ls = append(ls, &slayers.SCMPExternalInterfaceDown{IA: remoteIA, IfID: 5})
			default:
				scmp.TypeCode = slayers.CreateSCMPTypeCode(slayers.SCMPTypeParameterProblem, 0x10)
				ls = append(ls, &slayers.SCMPParameterProblem{Pointer: 8})
			}
			if q != nil {
				ls = append(ls, gopacket.Payload(q))
			}
		case "unkerr":
			scmp.TypeCode = slayers.CreateSCMPTypeCode(99, 0)
			ls = append(ls, gopacket.Payload(append([]byte{0, 0, 0, 0}, quote(dgram{Q: "udp", Qp: d.ID}, v6)...)))
		case "unkinfo":
			scmp.TypeCode = slayers.CreateSCMPTypeCode(200, 0)
			ls = append(ls, gopacket.Payload([]byte{byte(d.ID >> 8), byte(d.ID), 0, 1, 2, 3}))
		default:
			vt.Fatal("unknown scmp type %q", d.St)
		}
	case "tcp":
		ls = append(ls, gopacket.Payload(bytes.Repeat([]byte{0x9c, 0x41}, 12)))
	case "none":
	}
	res.raw = serialize(ls...)
	switch d.Mal {
	case "trunc":
		res.raw = res.raw[:20]
	case "garbage":
		g := make([]byte, 64)
		r.Read(g)
		g[0] = 0x70 | g[0]&0x0f // SCION version 7
		res.raw = g
	}
	return res
}

// sciondst reads the destination host of a (possibly malformed) SCION packet straight from the address header:
// byte 9 holds DT/DL/ST/SL, the destination host follows the two ISD-AS fields at offset 28.
func sciondst(raw []byte) (netip.Addr, bool) {
	if len(raw) < 28 {
		return netip.Addr{}, false
	}
	dt, dl := raw[9]>>6&3, raw[9]>>4&3
	n := (int(dl) + 1) * 4
	if len(raw) < 28+n {
		return netip.Addr{}, false
	}
	// whatever the address type says, the code may read 4 or 16 raw bytes as an IP address
	if n == 4 || n == 16 {
		a, _ := netip.AddrFromSlice(raw[28 : 28+n])
		return a, dt == 1 && dl == 0
	}
	return netip.Addr{}, false
}

// prevHopProbe re-processes datagram b with previous hops taken from the datagram's own destination fields and
// returns a description of the first decision that differs from the one recorded in ev ("" if none).
func prevHopProbe(srv *dispatcher.Server, b built, d dgram, ev vt.M) (diff string) {
	defer func() {
		if e := recover(); e != nil {
			diff = "panic"
		}
	}()
	hs := hosts4
	if b.v6 {
		hs = hosts6
	}
	var hostsAlt []netip.Addr
	if sd, _ := sciondst(b.raw); sd.IsValid() {
		hostsAlt = append(hostsAlt, sd)
	}
	hostsAlt = append(hostsAlt, hs["A"]) // services are registered at A
	ports := []uint16{svcPort, 30041}
	for _, p := range []int{d.Port, d.ID, d.Qp} {
		if p > 0 && p < 65536 {
			ports = append(ports, uint16(p))
		}
	}
	for _, h := range hostsAlt {
		for _, p := range ports {
			alt := netip.AddrPortFrom(h, p)
			out, nh, _ := srv.VerifProcessMsgNextHop(append([]byte(nil), b.raw...), b.outer, alt)
			k, host, port := "drop", "-", 0
			if nh.IsValid() {
				host, port = hostID(nh.Addr(), b.v6), int(nh.Port())
				k = "reply"
				if bytes.Equal(out, b.raw) {
					k = "fwd"
				}
			}
			switch {
			case k != ev["k"]:
				return fmt.Sprintf("prev=%v: %s instead of %s", alt, k, ev["k"])
			case k == "fwd" && (host != ev["host"] || port != ev["port"]):
				return fmt.Sprintf("prev=%v: forwarded to %s:%d instead of %s:%d", alt, host, port, ev["host"], ev["port"])
			case k == "reply" && nh != alt:
				return fmt.Sprintf("prev=%v: answered to %v", alt, nh)
			}
		}
	}
	return ""
}

// mutate derives a structure-aware mutant from a valid datagram (other: a second datagram to splice with).
func mutate(orig, other []byte, r *rand.Rand) ([]byte, string) {
	raw := append([]byte(nil), orig...)
	if len(raw) < 40 {
		g := make([]byte, r.Intn(120))
		r.Read(g)
		return g, "random"
	}
	hl := int(raw[5]) * 4 // header length claimed by the common header
	switch r.Intn(10) {
	case 0:
		return raw[:r.Intn(len(raw)+1)], "truncate"
	case 1: // cut at / next to a layer boundary
		cuts := []int{12, 24, 28, 32, 36, 44, 60, hl, hl + 4, hl + 8, hl + 12, len(raw) - 1, len(raw) - 4, len(raw) - 8, len(raw) - 16}
		c := cuts[r.Intn(len(cuts))]
		if c < 0 || c > len(raw) {
			c = len(raw) / 2
		}
		return raw[:c], "cut-at-boundary"
	case 2:
		for k := 0; k < 1+r.Intn(3); k++ {
			raw[r.Intn(12)] ^= byte(1 << r.Intn(8))
		}
		return raw, "common-header-bits"
	case 3: // NextHdr, HdrLen, PayloadLen, PathType, address types/lengths
		vals := []byte{0, 1, 6, 17, 200, 201, 202, 253, 255, byte(r.Intn(256))}
		switch r.Intn(5) {
		case 0:
			raw[4] = vals[r.Intn(len(vals))]
		case 1:
			raw[5] = byte(int(raw[5]) + r.Intn(7) - 3)
		case 2:
			raw[6], raw[7] = byte(r.Intn(256)), byte(r.Intn(256))
		case 3:
			raw[8] = byte(r.Intn(5))
		default:
			raw[9] = byte(r.Intn(256))
		}
		return raw, "length-and-type-fields"
	case 4: // addresses
		for k := 0; k < 1+r.Intn(4); k++ {
			raw[12+r.Intn(min(len(raw)-12, 40))] = byte(r.Intn(256))
		}
		return raw, "address-header"
	case 5: // path meta header and hop fields
		if hl > 40 && hl <= len(raw) {
			for k := 0; k < 1+r.Intn(4); k++ {
				raw[36+r.Intn(hl-36)] = byte(r.Intn(256))
			}
		}
		return raw, "path"
	case 6: // first bytes after the SCION header: extension / L4 type, code, ports
		if hl+8 <= len(raw) {
			types := []byte{0, 1, 2, 4, 5, 6, 99, 128, 129, 130, 131, 200, byte(r.Intn(256))}
			raw[hl+r.Intn(8)] = types[r.Intn(len(types))]
		}
		return raw, "l4-header"
	case 7: // head of one datagram, tail of another
		c1, c2 := r.Intn(len(raw)), r.Intn(len(other)+1)
		return append(raw[:c1], other[c2:]...), "splice"
	case 8:
		for k := 0; k < 1+r.Intn(6); k++ {
			raw[r.Intn(len(raw))] = byte(r.Intn(256))
		}
		return raw, "random-bytes"
	default:
		g := make([]byte, r.Intn(200))
		r.Read(g)
		if len(g) > 0 && r.Intn(2) == 0 {
			g[0] &= 0x0f // SCION version 0
		}
		return g, "random"
	}
}

func hostID(a netip.Addr, v6 bool) string {
	a = a.Unmap()
	for _, m := range []map[string]netip.Addr{hosts4, hosts6} {
		for k, v := range m {
			if v == a {
				return k
			}
		}
	}
	if a == prevHop.Addr() {
		return "P"
	}
	return "other"
}

// describeReply decodes the reply the server produced.
func describeReply(out []byte, in built, d dgram) vt.M {
	res := vt.M{"ok": 0, "type": "", "rid": 0, "ia": 0, "hosts": 0,
		"path": vt.M{"t": "none", "inf": 0, "hf": 0, "segs": []int{}, "cons": []int{}, "hops": [][]int{}}}
	pkt := gopacket.NewPacket(out, slayers.LayerTypeSCION, gopacket.DecodeOptions{NoCopy: true})
	scl, _ := pkt.Layer(slayers.LayerTypeSCION).(*slayers.SCION)
	if scl == nil {
		return res
	}
	res["ok"] = 1
	if scl.SrcIA == localIA && scl.DstIA == remoteIA {
		res["ia"] = 1
	}
	src, err1 := scl.SrcAddr()
	dst, err2 := scl.DstAddr()
	if err1 == nil && err2 == nil && src == in.dstHost && dst == in.srcHost {
		res["hosts"] = 1
	}
	switch p := scl.Path.(type) {
	case empty.Path:
		res["path"] = vt.M{"t": "empty", "inf": 0, "hf": 0, "segs": []int{}, "cons": []int{}, "hops": [][]int{}}
	case *scion.Raw:
		dec, err := p.ToDecoded()
		if err == nil {
			segs, cons, hops := []int{}, []int{}, [][]int{}
			for i := 0; i < dec.NumINF; i++ {
				segs = append(segs, int(dec.PathMeta.SegLen[i]))
				c := 0
				if dec.InfoFields[i].ConsDir {
					c = 1
				}
				cons = append(cons, c)
			}
			for _, h := range dec.HopFields {
				hops = append(hops, []int{int(h.ConsIngress), int(h.ConsEgress)})
			}
			res["path"] = vt.M{"t": "scion", "inf": int(dec.PathMeta.CurrINF), "hf": int(dec.PathMeta.CurrHF),
				"segs": segs, "cons": cons, "hops": hops}
		}
	}
	if sl, _ := pkt.Layer(slayers.LayerTypeSCMP).(*slayers.SCMP); sl != nil {
		switch sl.TypeCode.Type() {
		case slayers.SCMPTypeEchoReply:
			res["type"] = "echorep"
		case slayers.SCMPTypeTracerouteReply:
			res["type"] = "trrep"
		default:
			res["type"] = "other"
		}
		if e, _ := pkt.Layer(slayers.LayerTypeSCMPEcho).(*slayers.SCMPEcho); e != nil {
			res["rid"] = int(e.Identifier)
		}
		if t, _ := pkt.Layer(slayers.LayerTypeSCMPTraceroute).(*slayers.SCMPTraceroute); t != nil {
			res["rid"] = int(t.Identifier)
		}
	}
	return res
}

func main() {
	in := flag.String("in", "", "scenario ndjson")
	outp := flag.String("out", "", "trace ndjson")
	flag.Parse()
	f, err := os.Open(*in)
	if err != nil {
		vt.Fatal("open: %v", err)
	}
	defer f.Close()
	w := vt.NewWriter(*outp)
	defer w.Close()
	r := vt.Rand(44)
	scan := bufio.NewScanner(f)
	scan.Buffer(make([]byte, 1<<20), 1<<26)
	noReply := describeReply(nil, built{}, dgram{})
	for scan.Scan() {
		var sc scenario
		if err := json.Unmarshal(scan.Bytes(), &sc); err != nil {
			vt.Fatal("scenario line: %v", err)
		}
		svc := map[addr.Addr]netip.AddrPort{}
		srv4 := map[addr.Addr]netip.AddrPort{{IA: localIA, Host: addr.HostSVC(addr.SvcCS)}: netip.AddrPortFrom(hosts4["A"], svcPort)}
		for k, v := range srv4 {
			svc[k] = v
		}
		srv := dispatcher.VerifNewServer(sc.On == 1, svc)
		w.Emit(vt.M{"ev": "reset", "on": sc.On})
		for _, d := range sc.Seq {
			b := build(d, r)
			if d.Dt == "svc" {
				// the service is registered at host A of the family under test
				hs := hosts4
				if b.v6 {
					hs = hosts6
				}
				svc[addr.Addr{IA: localIA, Host: addr.HostSVC(addr.SvcCS)}] = netip.AddrPortFrom(hs["A"], svcPort)
			}
			ev := vt.M{"ev": "dg", "d": d, "v6": 0, "k": "drop", "host": "-", "port": 0, "same": 0, "err": 0,
				"panic": 0, "reply": noReply, "pv": 0}
			if b.v6 {
				ev["v6"] = 1
			}
			func() {
				defer func() {
					if e := recover(); e != nil {
						ev["panic"] = 1
					}
				}()
				inCopy := append([]byte(nil), b.raw...)
				out, nh, err := srv.VerifProcessMsgNextHop(inCopy, b.outer, prevHop)
				if err != nil {
					ev["err"] = 1
				}
				if !nh.IsValid() {
					return
				}
				if bytes.Equal(out, b.raw) {
					ev["same"] = 1
				}
				ev["host"] = hostID(nh.Addr(), b.v6)
				ev["port"] = int(nh.Port())
				// a forwarded packet is the received byte string; anything else was rebuilt by the server
				if ev["same"] == 1 {
					ev["k"] = "fwd"
				} else {
					ev["k"] = "reply"
					ev["reply"] = describeReply(out, b, d)
				}
			}()
			// previous-hop independence: what is done with a datagram is a function of the datagram (and the
			// dispatcher flag) only; the previous hop is nothing but the address requests are answered to.
			// The same bytes are processed again with the previous hop set to every host:port the datagram
			// itself names as a destination (SCION destination host x UDP port / SCMP identifier / quoted
			// port): a drop or forward must be repeated unchanged, a reply must go to that previous hop.
			if ev["panic"] == 0 {
				if alt := prevHopProbe(srv, b, d, ev); alt != "" {
					ev["pv"] = 1
					ev["pvd"] = alt
				}
			}
			w.Emit(ev)
		}
		// byte-level mutants of the sequence's datagrams on the same server: the abstract class of a mutant is
		// unknown; the next hop, the destination host written in the mutant's own SCION address header and
		// panics are observed
		for i := 0; i < sc.Mut && len(sc.Seq) > 0; i++ {
			d := sc.Seq[r.Intn(len(sc.Seq))]
			b := build(d, r)
			other := build(sc.Seq[r.Intn(len(sc.Seq))], r)
			raw, op := mutate(b.raw, other.raw, r)
			ev := vt.M{"ev": "mut", "op": op, "outer": d.Outer, "k": "drop", "host": "-", "port": 0, "panic": 0,
				"sdst": "-", "dsvc": 0}
			sd, svc := sciondst(raw)
			if sd.IsValid() {
				ev["sdst"] = hostID(sd, b.v6)
				if sd.Unmap() == b.outer.Unmap() {
					ev["sdst"] = d.Outer
				}
			}
			if svc {
				ev["dsvc"] = 1
			}
			func() {
				defer func() {
					if e := recover(); e != nil {
						ev["panic"] = 1
					}
				}()
				in := append([]byte(nil), raw...)
				out, nh, _ := srv.VerifProcessMsgNextHop(in, b.outer, prevHop)
				if !nh.IsValid() {
					return
				}
				ev["host"] = hostID(nh.Addr(), b.v6)
				if nh.Addr().Unmap() == b.outer.Unmap() {
					ev["host"] = d.Outer
				}
				ev["port"] = int(nh.Port())
				if bytes.Equal(out, raw) {
					ev["k"] = "fwd"
				} else {
					ev["k"] = "reply"
				}
			}()
			w.Emit(ev)
		}
	}
	if err := scan.Err(); err != nil {
		vt.Fatal("read: %v", err)
	}
}
