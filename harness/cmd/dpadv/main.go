// dpadv drives ONE real border router (router.VerifNewDP) with adversarial packets and logs what it
// did, as ndjson for the trace specification spec/RouterStepTrace.tla.  It never judges.
//
// Input (-scn): ndjson lines
//
//	{"cfg": {ifs:[...], fix:{...}}, "auth": bool}   build a router (emits a "reset" record)
//	{"p": {abstract packet}}                        concretise, run, abstract, log ("pkt" record)
//	{"rand": n, "maxhops": h, "kinds": [...]}       n seeded random assemblies on the current router
//	{"ohp": n}                                      one-hop-path journeys to a neighbour router and back
//	{"bfd": n}                                      BFD session histories interleaved with packets
//
// -variants k: every {"p"} line is concretised k times (different MAC-corruption flavours, payload
// sizes, extension headers).  -c09: packets that reach the slow path are repeated over the packet
// sizes / extension headers / SCMP payload kinds of DESIGN.md C09.
package main

import (
	"bufio"
	"encoding/json"
	"flag"
	"math/rand"
	"os"
	"time"

	"verifharness/internal/dpadv"
	"verifharness/internal/vt"
)

type line struct {
	Cfg     *dpadv.Cfg  `json:"cfg"`
	Auth    bool        `json:"auth"`
	P       *dpadv.APkt `json:"p"`
	Rand    int         `json:"rand"`
	MaxHops int         `json:"maxhops"`
	Kinds   []string    `json:"kinds"`
	Ohp     int         `json:"ohp"`
	Bfd     int         `json:"bfd"`
}

type twin struct {
	Disp string `json:"disp"`
	Eg   int    `json:"eg"`
	St   int    `json:"st"`
	Code int    `json:"code"`
	Phf  int    `json:"phf"`
	Osc  string `json:"osc"`
}

var (
	out      *vt.Writer
	variants = flag.Int("variants", 1, "concretisations per abstract packet")
	c09      = flag.Bool("c09", false, "repeat slow-path packets over sizes, extensions, payload kinds")
	nPkt     int
)

func emitPkt(e *dpadv.Env, res *dpadv.Result, tw twin) {
	nPkt++
	out.Emit(vt.M{"ev": "pkt", "id": nPkt, "p": res.A, "g": res.G, "o": res.O, "s": res.S, "tw": tw})
}

func emitPlain(e *dpadv.Env, res *dpadv.Result) {
	emitPkt(e, res, twin{Disp: "none", Osc: "none", Phf: -1})
}

// runOne concretises a, runs it and logs it; for EPIC packets the embedded SCION path is run as well.
func runOne(e *dpadv.Env, a *dpadv.APkt, o dpadv.BuildOpts) *dpadv.Result {
	now := time.Now()
	raw, err := e.Build(a, o, now)
	if err != nil {
		vt.Fatal("build: %v", err)
	}
	res, ok := e.Run(raw, a.Via, now)
	if !ok {
		return nil
	}
	tw := twin{Disp: "none", Osc: "none", Phf: -1}
	if res.A.Kind == "epic" {
		if t, ok := e.Run(dpadv.ScionTwin(raw), a.Via, now); ok {
			tw = twin{t.O.Disp, t.O.Eg, t.O.St, t.O.Code, t.O.Phf, t.O.Osc}
		}
	}
	emitPkt(e, res, tw)
	return res
}

func doPacket(e *dpadv.Env, a *dpadv.APkt, r *rand.Rand) {
	v0 := r.Intn(4) // payload size / extension headers / staleness flavour of the first concretisation
	for v := 0; v < *variants; v++ {
		w := v0 + v
		o := dpadv.BuildOpts{Payload: []int{16, 0, 100, 700}[w%4], HBH: w%4 == 2, E2E: w%4 >= 2, Stale: (w + r.Intn(5)) % 5, Rng: r}
		res := runOne(e, a, o)
		if res == nil || !*c09 || res.O.Disp != "slow" || v > 0 {
			continue
		}
		// C09: the same cause over sizes around the 1232-byte bound, extension headers, and
		// payload kinds (SCMP errors must not be answered)
		for _, n := range []int{0, 400, 1000, 1150, 1180, 1200, 1232, 1300, 4000, 8200} {
			for _, ext := range []int{0, 3} {
				runOne(e, a, dpadv.BuildOpts{Payload: n, HBH: ext&1 != 0, E2E: ext&2 != 0, Rng: r})
			}
		}
		if a.Kind != "ohp" {
			for _, total := range []int{20, 40, 64} {
				for _, n := range []int{60, 1200} {
					runOne(e, dpadv.Extend(a, total), dpadv.BuildOpts{Payload: n, Rng: r})
				}
			}
		}
		for _, l4 := range []string{"udp", "tcp", "scmperr", "scmpinfo", "trreq"} {
			for _, ext := range []int{0, 1, 2, 3} { // the L4 header also behind HBH and / or E2E extension headers
				b := *a
				b.L4 = l4
				runOne(e, &b, dpadv.BuildOpts{Payload: 40, HBH: ext&1 != 0, E2E: ext&2 != 0, Rng: r})
			}
		}
	}
}

func main() {
	scn := flag.String("scn", "", "scenario file (ndjson)")
	outp := flag.String("out", "trace.ndjson", "trace file")
	flag.Parse()
	out = vt.NewWriter(*outp)
	defer out.Close()
	f, err := os.Open(*scn)
	if err != nil {
		vt.Fatal("open: %v", err)
	}
	sc := bufio.NewScanner(f)
	sc.Buffer(make([]byte, 1<<20), 1<<24)
	var e *dpadv.Env
	r := vt.Rand(17)
	var deferred []*dpadv.APkt
	flush := func() {
		if e == nil {
			return
		}
		if d := 3100*time.Millisecond - time.Since(e.T0); d > 0 {
			time.Sleep(d)
		}
		for _, a := range deferred {
			doPacket(e, a, r)
		}
		deferred = nil
	}
	for sc.Scan() {
		var l line
		if err := json.Unmarshal(sc.Bytes(), &l); err != nil {
			vt.Fatal("scenario line: %v", err)
		}
		switch {
		case l.Cfg != nil:
			flush()
			e, err = dpadv.NewEnv(*l.Cfg, l.Auth, false)
			if err != nil {
				vt.Fatal("router: %v", err)
			}
			out.Emit(vt.M{"ev": "reset", "c": l.Cfg, "auth": l.Auth})
		case l.P != nil:
			// Packets with a to-be-expired hop field are run after the others of their router, once the
			// router is certainly 3 s old: only then can Build make hop fields that expired AFTER the
			// router handled its first packet (and at least 1.5 s ago).
			expired := false
			for _, h := range l.P.Hops {
				expired = expired || h.Exp
			}
			if expired {
				deferred = append(deferred, l.P)
			} else {
				doPacket(e, l.P, r)
			}
		case l.Rand > 0:
			flush()
			for i := 0; i < l.Rand; i++ {
				a := dpadv.RandomPacket(e, r, l.MaxHops, l.Kinds)
				doPacket(e, a, r)
			}
		case l.Ohp > 0:
			flush()
			dpadv.OhpJourneys(e, r, l.Ohp, out, emitPlain)
		case l.Bfd > 0:
			flush()
			dpadv.BfdHistories(e.Cfg, r, l.Bfd, out, emitPlain)
		}
	}
	flush()
}
