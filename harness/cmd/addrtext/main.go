// Driver for C46: formats values of every pkg/addr type with every formatting entry point and option
// combination, hands the produced text (and grammar-aware mutants / random strings) to every parsing
// entry point, and logs what the real code returned. It never judges: texts are logged as byte lists,
// values in the limb encoding of spec/AddrTextOps.tla, and TLC evaluates the denotation.
package main

import (
	"flag"
	"fmt"
	"math/rand"
	"net"
	"net/netip"
	"strings"

	"github.com/scionproto/scion/pkg/addr"
	"github.com/scionproto/scion/pkg/snet"

	"verifharness/internal/vt"
)

type opt struct {
	prefix   bool
	sepGiven bool
	sep      string
}

func (o opt) opts() []addr.FormatOption {
	var r []addr.FormatOption
	if o.prefix {
		r = append(r, addr.WithDefaultPrefix())
	}
	if o.sepGiven {
		r = append(r, addr.WithSeparator(o.sep))
	}
	return r
}

// plain: the option-less entry points (ParseAS, String, ...) take the same arguments.
func (o opt) plain() bool { return !o.prefix && (!o.sepGiven || o.sep == ":") }

type pres struct {
	API string `json:"api"`
	OK  bool   `json:"ok"`
	V   []int  `json:"v"`
}

var w *vt.Writer

func codes(s string) []int {
	r := make([]int, len(s))
	for i := 0; i < len(s); i++ {
		r[i] = int(s[i])
	}
	return r
}

func encISD(i addr.ISD) []int { return []int{int(i)} }
func encAS(a addr.AS) []int {
	return []int{int(a>>32) & 0xffff, int(a>>16) & 0xffff, int(a) & 0xffff}
}
func encIA(ia addr.IA) []int  { return append(encISD(ia.ISD()), encAS(ia.AS())...) }
func encSVC(s addr.SVC) []int { return []int{int(s)} }
func encHost(h addr.Host) []int {
	switch h.Type() {
	case addr.HostTypeSVC:
		return []int{1, int(h.SVC())}
	case addr.HostTypeIP:
		ip := h.IP()
		if ip.Is4() {
			b := ip.As4()
			return append([]int{4}, vt.Ints(b[:])...)
		}
		b := ip.As16()
		return append(append([]int{6}, vt.Ints(b[:])...), codes(ip.Zone())...)
	}
	return []int{0}
}
func encAddr(a addr.Addr) []int { return append(encIA(a.IA), encHost(a.Host)...) }

// encUDPAddr: the host of an snet.UDPAddr is a net.IP, for which an IPv4-mapped IPv6 address is the IPv4
// address (net.IP.Equal, To4); the value is logged in that normal form.
func encUDPAddr(u *snet.UDPAddr) []int {
	if u == nil || u.Host == nil {
		return []int{}
	}
	r := append([]int{u.Host.Port}, encIA(u.IA)...)
	if v4 := u.Host.IP.To4(); v4 != nil {
		return append(append(r, 4), vt.Ints(v4)...)
	}
	return append(append(append(r, 6), vt.Ints(u.Host.IP.To16())...), codes(u.Host.Zone)...)
}

// call runs one parsing entry point of the real code; a panic is recorded as an event of its own.
func call(kind, api, text string, f func() ([]int, error)) (r pres) {
	r = pres{API: api, V: []int{}}
	defer func() {
		if e := recover(); e != nil {
			w.Emit(vt.M{"ev": "panic", "kind": kind, "api": api, "text": codes(text), "q": fmt.Sprintf("%q", text)})
			r = pres{API: api, V: []int{}}
		}
	}()
	v, err := f()
	if err == nil {
		r.OK, r.V = true, v
	}
	return r
}

func parseAll(kind, text string, o opt) []pres {
	var p []pres
	fo := o.opts()
	switch kind {
	case "isd":
		p = append(p, call(kind, "ParseFormattedISD", text, func() ([]int, error) {
			v, err := addr.ParseFormattedISD(text, fo...)
			return encISD(v), err
		}))
		if o.plain() {
			p = append(p, call(kind, "ParseISD", text, func() ([]int, error) {
				v, err := addr.ParseISD(text)
				return encISD(v), err
			}))
		}
	case "as":
		p = append(p, call(kind, "ParseFormattedAS", text, func() ([]int, error) {
			v, err := addr.ParseFormattedAS(text, fo...)
			return encAS(v), err
		}))
		if o.plain() {
			p = append(p, call(kind, "ParseAS", text, func() ([]int, error) {
				v, err := addr.ParseAS(text)
				return encAS(v), err
			}))
			p = append(p, call(kind, "AS.UnmarshalText", text, func() ([]int, error) {
				var v addr.AS
				err := v.UnmarshalText([]byte(text))
				return encAS(v), err
			}))
		}
	case "ia":
		p = append(p, call(kind, "ParseFormattedIA", text, func() ([]int, error) {
			v, err := addr.ParseFormattedIA(text, fo...)
			return encIA(v), err
		}))
		if o.plain() {
			p = append(p, call(kind, "ParseIA", text, func() ([]int, error) {
				v, err := addr.ParseIA(text)
				return encIA(v), err
			}))
			p = append(p, call(kind, "IA.UnmarshalText", text, func() ([]int, error) {
				var v addr.IA
				err := v.UnmarshalText([]byte(text))
				return encIA(v), err
			}))
			p = append(p, call(kind, "IA.Set", text, func() ([]int, error) {
				var v addr.IA
				err := v.Set(text)
				return encIA(v), err
			}))
		}
	case "svc":
		p = append(p, call(kind, "ParseSVC", text, func() ([]int, error) {
			v, err := addr.ParseSVC(text)
			return encSVC(v), err
		}))
	case "host":
		p = append(p, call(kind, "ParseHost", text, func() ([]int, error) {
			v, err := addr.ParseHost(text)
			return encHost(v), err
		}))
		p = append(p, call(kind, "Host.Set", text, func() ([]int, error) {
			var v addr.Host
			err := v.Set(text)
			return encHost(v), err
		}))
	case "addr":
		p = append(p, call(kind, "ParseAddr", text, func() ([]int, error) {
			v, err := addr.ParseAddr(text)
			return encAddr(v), err
		}))
		p = append(p, call(kind, "Addr.Set", text, func() ([]int, error) {
			var v addr.Addr
			err := v.Set(text)
			return encAddr(v), err
		}))
		p = append(p, call(kind, "Addr.UnmarshalText", text, func() ([]int, error) {
			var v addr.Addr
			err := v.UnmarshalText([]byte(text))
			return encAddr(v), err
		}))
	case "udpaddr":
		p = append(p, call(kind, "ParseUDPAddr", text, func() ([]int, error) {
			v, err := snet.ParseUDPAddr(text)
			return encUDPAddr(v), err
		}))
		p = append(p, call(kind, "UDPAddr.Set", text, func() ([]int, error) {
			v := &snet.UDPAddr{}
			err := v.Set(text)
			return encUDPAddr(v), err
		}))
	case "addrport":
		p = append(p, call(kind, "ParseAddrPort", text, func() ([]int, error) {
			v, port, err := addr.ParseAddrPort(text)
			return append([]int{int(port)}, encAddr(v)...), err
		}))
	}
	return p
}

func emitFmt(kind, fapi string, v []int, o opt, text string) {
	w.Emit(vt.M{"ev": "fmt", "kind": kind, "fapi": fapi, "v": v, "prefix": o.prefix, "sepgiven": o.sepGiven,
		"sep": codes(o.sep), "text": codes(text), "q": fmt.Sprintf("%q", text), "p": parseAll(kind, text, o)})
}

func emitParse(kind, mut string, o opt, text string) {
	w.Emit(vt.M{"ev": "parse", "kind": kind, "mut": mut, "prefix": o.prefix, "sepgiven": o.sepGiven,
		"sep": codes(o.sep), "text": codes(text), "q": fmt.Sprintf("%q", text), "p": parseAll(kind, text, o)})
}

// safeFmt runs a formatting entry point; a panic is recorded.
func safeFmt(kind, fapi string, f func() string) (s string, ok bool) {
	defer func() {
		if e := recover(); e != nil {
			w.Emit(vt.M{"ev": "panic", "kind": kind, "api": fapi, "text": []int{}, "q": fmt.Sprint(e)})
			ok = false
		}
	}()
	return f(), true
}

// ---------------------------------------------------------------------------------- value spaces

var limbs = []uint64{0, 1, 9, 10, 15, 16, 0xff, 0x100, 0xfff, 0x1000, 9999, 10000, 0x7fff, 0x8000, 0xfffe, 0xffff}

func asValues(rng *rand.Rand, nrand int) []addr.AS {
	set := map[addr.AS]bool{}
	var out []addr.AS
	add := func(a uint64) {
		v := addr.AS(a & 0xffffffffffff)
		if !set[v] {
			set[v] = true
			out = append(out, v)
		}
	}
	for _, a := range []uint64{0, 1, 9, 10, 65535, 65536, 1<<31 - 1, 1 << 31, 1<<32 - 2, 1<<32 - 1, 1 << 32, 1<<32 + 1,
		0xff0000000110, 0xff00000001ff, 0x2_0000_0000, 0x1_0000_ffff, 0x1_ffff_0000, 0xffff_0000_0000, 1<<48 - 2, 1<<48 - 1,
		4294967295, 4294967296, 999999999, 1000000000, 0xa_000b_000c, 0xabcd_ef01_2345} {
		add(a)
	}
	for i := 0; i < nrand; i++ {
		var g [3]uint64
		for k := range g {
			if rng.Intn(2) == 0 {
				g[k] = limbs[rng.Intn(len(limbs))]
			} else {
				g[k] = uint64(rng.Intn(65536))
			}
		}
		if rng.Intn(3) == 0 {
			g[0] = 0
		}
		add(g[0]<<32 | g[1]<<16 | g[2])
	}
	return out
}

func isdValues(rng *rand.Rand, nrand int) []addr.ISD {
	out := []addr.ISD{0, 1, 9, 10, 99, 100, 255, 256, 9999, 10000, 65534, 65535}
	for i := 0; i < nrand; i++ {
		out = append(out, addr.ISD(rng.Intn(65536)))
	}
	return out
}

const sepChars = " !\"#$%&'()*+,./:;<=>?@GHIJKLMNOPQRSTUVWXYZ[\\]^_`ghijklmnopqrstuvwxyz{|}~"

func options(rng *rand.Rand, nrand int) []opt {
	var out []opt
	seps := []string{":", "_", ".", "/", "::", "", " ", "S", "__", ";;;"}
	for i := 0; i < nrand; i++ {
		n := 1 + rng.Intn(3)
		b := make([]byte, n)
		for k := range b {
			b[k] = sepChars[rng.Intn(len(sepChars))]
		}
		seps = append(seps, string(b))
	}
	for _, p := range []bool{false, true} {
		out = append(out, opt{prefix: p})
		for _, s := range seps {
			out = append(out, opt{prefix: p, sepGiven: true, sep: s})
		}
	}
	return out
}

func ipValues(rng *rand.Rand, nrand int) []netip.Addr {
	var out []netip.Addr
	for _, s := range []string{"0.0.0.0", "0.0.0.1", "1.2.3.4", "10.0.0.255", "100.99.9.0", "127.0.0.1", "192.0.2.1",
		"255.255.255.255", "199.200.249.250",
		"::", "::1", "1::", "ff00::110", "2001:db8::1", "fe80::1%eth0", "fe80::1%1", "1:2:3:4:5:6:7:8",
		"1:0:0:2:0:0:0:3", "1:0:0:0:2:0:0:3", "0:1:2:3:4:5:6:7", "1:2:3:4:5:6:7:0", "1:0:2:0:3:0:4:0", "0:0:1:0:0:1:0:0",
		"ffff:ffff:ffff:ffff:ffff:ffff:ffff:ffff", "::ffff:1.2.3.4", "::ffff:255.255.255.255", "::1.2.3.4", "64:ff9b::192.0.2.33",
		"::ffff:0:0", "0:0:0:0:0:ffff::", "a:b:c:d:e:f:0:0", "abcd:ef01:2345:6789:abcd:ef01:2345:6789", "::ffff:1.2.3.4%zone9"} {
		out = append(out, netip.MustParseAddr(s))
	}
	for i := 0; i < nrand; i++ {
		if rng.Intn(3) == 0 {
			var b [4]byte
			rng.Read(b[:])
			out = append(out, netip.AddrFrom4(b))
			continue
		}
		var b [16]byte
		rng.Read(b[:])
		// zero runs at random positions exercise the '::' compression
		for k := 0; k < 8; k++ {
			switch rng.Intn(4) {
			case 0:
				b[2*k], b[2*k+1] = 0, 0
			case 1:
				b[2*k] = 0
			}
		}
		if rng.Intn(8) == 0 {
			copy(b[:12], []byte{0, 0, 0, 0, 0, 0, 0, 0, 0, 0, 0xff, 0xff})
		}
		a := netip.AddrFrom16(b)
		if rng.Intn(4) == 0 {
			const zc = "abcdefghijklmnopqrstuvwxyzABCDEFGHIJKLMNOPQRSTUVWXYZ0123456789._-"
			z := make([]byte, 1+rng.Intn(6))
			for k := range z {
				z[k] = zc[rng.Intn(len(zc))]
			}
			a = a.WithZone(string(z))
		}
		out = append(out, a)
	}
	return out
}

func svcValues(rng *rand.Rand, nrand int) []addr.SVC {
	out := []addr.SVC{addr.SvcDS, addr.SvcCS, addr.SvcWildcard, addr.SvcDS.Multicast(), addr.SvcCS.Multicast(),
		addr.SvcWildcard.Multicast(), addr.SvcNone, 0, 3, 0x8000, 0x7fff, 0x11, 0x8003}
	for i := 0; i < nrand; i++ {
		out = append(out, addr.SVC(rng.Intn(65536)))
	}
	return out
}

// ---------------------------------------------------------------------------------- mutants

type mutant struct{ class, text string }

const randAlphabet = "0123456789abcdefABCDEFgGxX:-_ ,.+%[]ISDAScsdwM\x00\xd9\xa1"

func randText(rng *rand.Rand, alphabet string, maxLen int) string {
	n := rng.Intn(maxLen + 1)
	b := make([]byte, n)
	for i := range b {
		b[i] = alphabet[rng.Intn(len(alphabet))]
	}
	return string(b)
}

// numberMutants: grammar-aware mutants of a formatted ISD / AS / ISD-AS text (class labels only name
// the mutation that was applied; what the text means is decided by the specification).
func numberMutants(rng *rand.Rand, kind, text string, o opt) []mutant {
	sep := o.sep
	if !o.sepGiven || sep == "" {
		sep = ":"
	}
	var m []mutant
	add := func(c, t string) { m = append(m, mutant{c, t}) }
	add("extra-group", text+sep+"0")
	add("extra-group", text+sep+"0"+sep+"0")
	add("trailing-sep", text+sep)
	add("leading-sep", sep+text)
	if i := strings.LastIndex(text, sep); i >= 0 {
		add("missing-group", text[:i])
		add("empty-group", text[:i+len(sep)])
		add("big-group", text[:i+len(sep)]+"10000")
		add("big-group", text[:i+len(sep)]+"fffff")
		add("lead-zeros", text[:i+len(sep)]+"0000"+text[i+len(sep):])
		add("lead-zeros", text[:i+len(sep)]+"0"+text[i+len(sep):])
		add("double-sep", text[:i]+sep+sep+text[i+len(sep):])
		add("other-sep", strings.ReplaceAll(text, sep, ";"))
		add("other-sep", strings.ReplaceAll(text, sep, ":"))
		add("0x", text[:i+len(sep)]+"0x"+text[i+len(sep):])
		add("underscore", text[:i+len(sep)]+"1_0")
	} else {
		add("overflow", "4294967296")
		add("overflow", "65536")
		add("overflow", "14294967295")
		add("overflow", "99999999999999999999")
	}
	add("upper", strings.ToUpper(text))
	add("lower", strings.ToLower(text))
	add("sign", "+"+text)
	add("sign", "-"+text)
	add("blank", " "+text)
	add("blank", text+" ")
	add("blank", text+"\n")
	add("nul", text+"\x00")
	add("lead-zeros", "0"+text)
	add("prefix-as", "AS"+text)
	add("prefix-isd", "ISD"+text)
	add("prefix-lower", strings.Replace(strings.Replace(text, "ISD", "isd", 1), "AS", "as", 1))
	add("prefix-dropped", strings.Replace(strings.Replace(text, "ISD", "", 1), "AS", "", 1))
	add("prefix-doubled", strings.Replace(strings.Replace(text, "ISD", "ISDISD", 1), "AS", "ASAS", 1))
	if len(text) > 0 {
		i := rng.Intn(len(text))
		add("drop-byte", text[:i]+text[i+1:])
		add("dup-byte", text[:i]+text[i:i+1]+text[i:])
		add("swap-byte", text[:i]+string(randAlphabet[rng.Intn(len(randAlphabet))])+text[i+1:])
		add("unicode-digit", text[:i]+"\xd9\xa1"+text[i:]) // ARABIC-INDIC DIGIT ONE
	}
	if kind == "ia" {
		add("no-dash", strings.Replace(text, "-", "", 1))
		add("two-dashes", strings.Replace(text, "-", "--", 1))
		add("extra-part", text+"-1")
		add("dash-other", strings.Replace(text, "-", "_", 1))
		add("isd-overflow", "65536"+text[strings.Index(text, "-"):])
		add("isd-empty", text[strings.Index(text, "-"):])
		add("as-empty", text[:strings.Index(text, "-")+1])
		add("isd-hex", "f"+text)
	}
	add("empty", "")
	return m
}

var svcTexts = []string{"DS", "CS", "Wildcard", "DS_A", "CS_A", "Wildcard_A", "DS_M", "CS_M", "Wildcard_M", "cs", "ds", "Cs", "CS_a",
	"CS_m", "CS_A_A", "CS_M_M", "CS_A_M", "CS_M_A", "CS_", "_A", "_M", "", "CS ", " CS", "WILDCARD", "wildcard", "Wildcard_",
	"BS", "SIG", "CS_B", "<SVC:0x0003>", "<SVC:0xffff>_M", "0x0002", "2", "CS\x00", "CSCS", "CS_A ", "C", "S", "CS_AM", "None"}

var ipTexts = []string{"1.2.3", "1.2.3.4.5", "256.1.1.1", "1.2.3.256", "01.2.3.4", "1.2.3.04", "1.2.3.4 ", " 1.2.3.4", "1..3.4", "1.2.3.",
	".1.2.3", "1.2.3.4%eth0", "0x1.2.3.4", "1.2.3.-4", "+1.2.3.4", "1.2.3.4/8", "1,2,3,4", "0.0.0.00", "000.0.0.0", "1.2.3.1000", "4294967295",
	":::", ":", "::", ":::1", "1:2:3:4:5:6:7:8:9", "1:2:3:4:5:6:7", "12345::", "::12345", "::g", "1::2::3", "fe80::1%", "fe80::1%%", "%eth0",
	"::ffff:1.2.3.256", "::ffff:1.2.3", "::1.2.3.4.5", "1.2.3.4::", "::1.2.3.4:1", "1:2:3:4:5:6:7::8", "1:2:3:4:5:6:7:8::", "::1:2:3:4:5:6:7:8",
	"1:2:3:4:5:6:1.2.3.4", "1:2:3:4:5:6:7:1.2.3.4", "1:2:3:4:5:1.2.3.4", "::ffff:01.2.3.4", "[::1]", "::1 ", " ::1", "::00001", "::0001",
	"0:0:0:0:0:0:0:0", "FE80::ABCD", "fe80::AbCd%Eth0", "::ffff:1.2.3.4%z", "1::%z%y", "-1::", "0x1::", "1:2:3:4:5:6:7:", ":1:2:3:4:5:6:7",
	"1:2:3:4::5:6:7:8", "1:2:3::4:5:6:7:8", "::.1.2.3", "::1.2.3.", "::1.2..3"}

func hostMutants(rng *rand.Rand, text string) []mutant {
	var m []mutant
	add := func(c, t string) { m = append(m, mutant{c, t}) }
	add("blank", text+" ")
	add("blank", " "+text)
	add("upper", strings.ToUpper(text))
	add("lower", strings.ToLower(text))
	add("extra-group", text+":0")
	add("extra-group", text+".0")
	add("lead-zeros", "0"+text)
	add("zone-empty", text+"%")
	add("zone-added", text+"%z")
	if len(text) > 0 {
		i := rng.Intn(len(text))
		add("drop-byte", text[:i]+text[i+1:])
		add("dup-byte", text[:i]+text[i:i+1]+text[i:])
		add("swap-byte", text[:i]+string(randAlphabet[rng.Intn(len(randAlphabet))])+text[i+1:])
	}
	return m
}

func addrMutants(rng *rand.Rand, text string) []mutant {
	var m []mutant
	add := func(c, t string) { m = append(m, mutant{c, t}) }
	c := strings.IndexByte(text, ',')
	if c < 0 {
		return nil
	}
	ia, h := text[:c], text[c+1:]
	add("no-comma", ia+h)
	add("two-commas", ia+",,"+h)
	add("host-empty", ia+",")
	add("ia-empty", ","+h)
	add("blank", ia+", "+h)
	add("blank", ia+" ,"+h)
	add("swapped", h+","+ia)
	add("semicolon", ia+";"+h)
	add("brackets", "["+text+"]")
	nm := numberMutants(rng, "ia", ia, opt{})
	if len(nm) > 24 {
		nm = nm[:24]
	}
	for _, x := range nm {
		add("ia-"+x.class, x.text+","+h)
	}
	for _, x := range hostMutants(rng, h) {
		add("host-"+x.class, ia+","+x.text)
	}
	return m
}

func portMutants(rng *rand.Rand, text string) []mutant {
	var m []mutant
	add := func(c, t string) { m = append(m, mutant{c, t}) }
	i := strings.LastIndexByte(text, ':')
	inner, port := text[1:i-1], text[i+1:]
	add("no-brackets", inner+":"+port)
	add("no-port", "["+inner+"]")
	add("port-empty", "["+inner+"]:")
	add("port-overflow", "["+inner+"]:65536")
	add("port-sign", "["+inner+"]:+"+port)
	add("port-neg", "["+inner+"]:-1")
	add("port-lead-zeros", "["+inner+"]:00"+port)
	add("port-hex", "["+inner+"]:0x50")
	add("two-ports", text+":1")
	add("open-only", "["+inner+":"+port)
	add("close-only", inner+"]:"+port)
	add("double-brackets", "[["+inner+"]]:"+port)
	add("blank", "["+inner+"] :"+port)
	add("blank", text+" ")
	add("no-comma", "["+strings.Replace(inner, ",", "", 1)+"]:"+port)
	return m
}

// ---------------------------------------------------------------------------------- main

func main() {
	out := flag.String("out", "trace.ndjson", "output")
	scale := flag.Int("scale", 1, "size multiplier for the seeded part")
	mutEveryF := flag.Int("mutevery", 7, "derive mutants from every n-th formatted text (seeded choice)")
	flag.Parse()
	w = vt.NewWriter(*out)
	rng := vt.Rand(46)
	n := *scale

	opts := options(rng, 3*n)
	isds := isdValues(rng, 6*n)
	ases := asValues(rng, 30*n)
	mutEvery := *mutEveryF

	// ISD
	for _, o := range opts {
		if o.sepGiven && o.sep != "" && o.sep != "_" {
			continue // the separator plays no role for an ISD
		}
		for _, i := range isds {
			i := i
			if s, ok := safeFmt("isd", "FormatISD", func() string { return addr.FormatISD(i, o.opts()...) }); ok {
				emitFmt("isd", "FormatISD", encISD(i), o, s)
				if rng.Intn(mutEvery) == 0 {
					for _, m := range numberMutants(rng, "isd", s, o) {
						emitParse("isd", m.class, o, m.text)
					}
				}
			}
			if o.plain() {
				if s, ok := safeFmt("isd", "ISD.String", func() string { return i.String() }); ok {
					emitFmt("isd", "ISD.String", encISD(i), o, s)
				}
			}
		}
	}
	// AS
	for _, o := range opts {
		for _, a := range ases {
			a := a
			if s, ok := safeFmt("as", "FormatAS", func() string { return addr.FormatAS(a, o.opts()...) }); ok {
				emitFmt("as", "FormatAS", encAS(a), o, s)
				if rng.Intn(mutEvery) == 0 {
					for _, m := range numberMutants(rng, "as", s, o) {
						emitParse("as", m.class, o, m.text)
					}
				}
			}
			if o.plain() {
				if s, ok := safeFmt("as", "AS.String", func() string { return a.String() }); ok {
					emitFmt("as", "AS.String", encAS(a), o, s)
				}
				if s, ok := safeFmt("as", "AS.MarshalText", func() string {
					b, err := a.MarshalText()
					if err != nil {
						panic(err)
					}
					return string(b)
				}); ok {
					emitFmt("as", "AS.MarshalText", encAS(a), o, s)
				}
			}
		}
	}
	// ISD-AS: every option x a seeded sample of ISD x AS (boundary values first)
	for _, o := range opts {
		for k := 0; k < 10*n+len(ases); k++ {
			var ia addr.IA
			if k < len(ases) {
				ia = addr.MustIAFrom(isds[k%len(isds)], ases[k])
			} else {
				ia = addr.MustIAFrom(isds[rng.Intn(len(isds))], ases[rng.Intn(len(ases))])
			}
			if s, ok := safeFmt("ia", "FormatIA", func() string { return addr.FormatIA(ia, o.opts()...) }); ok {
				emitFmt("ia", "FormatIA", encIA(ia), o, s)
				if rng.Intn(mutEvery) == 0 {
					for _, m := range numberMutants(rng, "ia", s, o) {
						emitParse("ia", m.class, o, m.text)
					}
				}
			}
			if o.plain() {
				if s, ok := safeFmt("ia", "IA.String", func() string { return ia.String() }); ok {
					emitFmt("ia", "IA.String", encIA(ia), o, s)
				}
				if s, ok := safeFmt("ia", "IA.MarshalText", func() string {
					b, err := ia.MarshalText()
					if err != nil {
						panic(err)
					}
					return string(b)
				}); ok {
					emitFmt("ia", "IA.MarshalText", encIA(ia), o, s)
				}
			}
		}
	}
	// random strings for the three numeric kinds
	for k := 0; k < 600*n; k++ {
		o := opts[rng.Intn(len(opts))]
		kind := []string{"isd", "as", "ia"}[rng.Intn(3)]
		alpha := randAlphabet
		if rng.Intn(2) == 0 {
			alpha = "0123456789abcdefF:-" + o.sep
		}
		emitParse(kind, "random", o, randText(rng, alpha, 14))
	}

	// SVC
	none := opt{}
	svcs := svcValues(rng, 10*n)
	for _, s := range svcs {
		s := s
		if t, ok := safeFmt("svc", "SVC.String", func() string { return s.String() }); ok {
			emitFmt("svc", "SVC.String", encSVC(s), none, t)
		}
	}
	for _, t := range svcTexts {
		emitParse("svc", "table", none, t)
	}
	for k := 0; k < 200*n; k++ {
		emitParse("svc", "random", none, randText(rng, "CDSWildcar_AM cs", 11))
	}

	// hosts
	var hosts []addr.Host
	hosts = append(hosts, addr.Host{})
	for _, s := range svcs {
		hosts = append(hosts, addr.HostSVC(s))
	}
	for _, ip := range ipValues(rng, 60*n) {
		hosts = append(hosts, addr.HostIP(ip))
	}
	for _, h := range hosts {
		h := h
		if t, ok := safeFmt("host", "Host.String", func() string { return h.String() }); ok {
			emitFmt("host", "Host.String", encHost(h), none, t)
			if rng.Intn(mutEvery) == 0 {
				for _, m := range hostMutants(rng, t) {
					emitParse("host", m.class, none, m.text)
				}
			}
		}
	}
	for _, t := range append(append([]string{}, ipTexts...), svcTexts...) {
		emitParse("host", "table", none, t)
	}
	for k := 0; k < 300*n; k++ {
		emitParse("host", "random", none, randText(rng, "0123456789abcdefF:.%z", 20))
		emitParse("host", "random", none, randText(rng, "01:.", 12))
	}

	// full addresses, with and without port
	for k := 0; k < 150*n+len(hosts); k++ {
		var a addr.Addr
		if k < len(hosts) {
			a = addr.Addr{IA: addr.MustIAFrom(isds[k%len(isds)], ases[k%len(ases)]), Host: hosts[k]}
		} else {
			a = addr.Addr{IA: addr.MustIAFrom(isds[rng.Intn(len(isds))], ases[rng.Intn(len(ases))]), Host: hosts[rng.Intn(len(hosts))]}
		}
		if t, ok := safeFmt("addr", "Addr.String", func() string { return a.String() }); ok {
			emitFmt("addr", "Addr.String", encAddr(a), none, t)
			if rng.Intn(mutEvery) == 0 {
				for _, m := range addrMutants(rng, t) {
					emitParse("addr", m.class, none, m.text)
				}
			}
		}
		if t, ok := safeFmt("addr", "Addr.MarshalText", func() string {
			b, err := a.MarshalText()
			if err != nil {
				panic(err)
			}
			return string(b)
		}); ok {
			emitFmt("addr", "Addr.MarshalText", encAddr(a), none, t)
		}
		port := []uint16{0, 1, 80, 30041, 65535, uint16(rng.Intn(65536))}[rng.Intn(6)]
		if t, ok := safeFmt("addrport", "FormatAddrPort", func() string { return addr.FormatAddrPort(a, port) }); ok {
			emitFmt("addrport", "FormatAddrPort", append([]int{int(port)}, encAddr(a)...), none, t)
			if rng.Intn(mutEvery) == 0 {
				for _, m := range portMutants(rng, t) {
					emitParse("addrport", m.class, none, m.text)
				}
			}
		}
	}
	// snet.UDPAddr: String / ParseUDPAddr / Set, the legacy input forms, and service hosts (which have no
	// UDP address). Only texts whose host part is an IP literal or that start with '[' are used, so that the
	// legacy parser never reaches the DNS resolver.
	for k, h := range hosts {
		if h.Type() != addr.HostTypeIP || (h.IP().Is4In6() && h.IP().Zone() != "") {
			continue
		}
		ia := addr.MustIAFrom(isds[k%len(isds)], ases[(k*7)%len(ases)])
		port := []int{0, 1, 80, 30041, 65535, rng.Intn(65536)}[k%6]
		u := &snet.UDPAddr{IA: ia, Host: &net.UDPAddr{IP: h.IP().AsSlice(), Zone: h.IP().Zone(), Port: port}}
		t, ok := safeFmt("udpaddr", "UDPAddr.String", func() string { return u.String() })
		if !ok {
			continue
		}
		emitFmt("udpaddr", "UDPAddr.String", encUDPAddr(u), none, t)
		ip := h.IP().String()
		for _, l := range []string{ia.String() + ",[" + ip + "]:" + fmt.Sprint(port), ia.String() + "," + ip, ia.String() + ",[" + ip + "]"} {
			emitParse("udpaddr", "legacy", none, l)
		}
		if h.IP().Is4() {
			emitParse("udpaddr", "legacy", none, ia.String()+","+ip+":"+fmt.Sprint(port))
		}
		if strings.HasPrefix(t, "[") && rng.Intn(mutEvery/3+1) == 0 {
			for _, m := range portMutants(rng, t) {
				emitParse("udpaddr", m.class, none, m.text)
			}
		}
	}
	for _, svc := range []string{"CS", "DS", "Wildcard", "CS_M", "DS_A", "Wildcard_M"} {
		for _, ia := range []string{"1-ff00:0:110", "1-64512", "65535-ffff:ffff:ffff", "0-0"} {
			emitParse("udpaddr", "svc-host", none, "["+ia+","+svc+"]:80")
			emitParse("udpaddr", "svc-host", none, "["+ia+","+svc+"]:0")
		}
	}
	for k := 0; k < 200*n; k++ {
		ia := []string{"1-ff00:0:110", "0-0", "65535-ffff:ffff:ffff", "1-1", "1-4294967295"}[rng.Intn(5)]
		emitParse("addr", "random-host", none, ia+","+randText(rng, "0123456789abcdefF:.%zCS_AM", 16))
		emitParse("addr", "random", none, randText(rng, "0123456789af:.-,CS_", 18))
		emitParse("addrport", "random", none, "["+ia+","+randText(rng, "0123456789af:.%z[]", 10)+"]:"+randText(rng, "0123456789 +-", 6))
	}
	w.Close()
	fmt.Printf("records=%d\n", w.N)
}
