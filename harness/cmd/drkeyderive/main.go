// Driver for C39: derives DRKey keys with the real code along every route (service engine of the
// source AS, service engine of the destination AS fetching the level-1 key, a host holding a secret
// value, a host holding a level-1 key) and logs the symbolic description of each derivation with an
// identity of the resulting key; and evaluates the real FakeProvider.GetKeyWithinAcceptanceWindow on
// a grid around epoch and window boundaries. It never judges: DRKeyDeriveTrace.tla does.
package main

import (
	"context"
	"crypto/sha256"
	"encoding/hex"
	"flag"
	"fmt"
	"math/rand"
	"net/netip"
	"strings"
	"time"

	cdrkey "github.com/scionproto/scion/control/drkey"
	"github.com/scionproto/scion/pkg/addr"
	"github.com/scionproto/scion/pkg/drkey"
	"github.com/scionproto/scion/pkg/drkey/generic"
	"github.com/scionproto/scion/pkg/drkey/specific"
	"github.com/scionproto/scion/private/drkey/drkeyutil"
	"github.com/scionproto/scion/private/storage/db"
	l1sqlite "github.com/scionproto/scion/private/storage/drkey/level1/sqlite"
	svsqlite "github.com/scionproto/scion/private/storage/drkey/secret/sqlite"

	"verifharness/internal/vt"
)

// ------------------------------------------------------------------ derivation part

type as struct {
	ia     addr.IA
	secret []byte
	name   string // symbolic name of the AS secret
	eng    *cdrkey.ServiceEngine
}

type fetcher struct{ ases map[addr.IA]*as }

// Level1 is the fake level-1 fetcher: the remote control service derives the key from its secret
// (real DeriveLevel1 of the source AS's engine).
func (f *fetcher) Level1(ctx context.Context, m drkey.Level1Meta) (drkey.Level1Key, error) {
	a, ok := f.ases[m.SrcIA]
	if !ok {
		return drkey.Level1Key{}, fmt.Errorf("unknown AS %s", m.SrcIA)
	}
	return a.eng.DeriveLevel1(ctx, m)
}

type batch struct {
	w     *vt.Writer
	rng   *rand.Rand
	keys  map[drkey.Key]int
	ases  []*as
	byIA  map[addr.IA]*as
	nkeys int
}

func (b *batch) kid(k drkey.Key) int {
	if v, ok := b.keys[k]; ok {
		return v
	}
	v := len(b.keys) + 1
	b.keys[k] = v
	return v
}

// canonical host identity, computed without the code under test: the address a SCION header
// carries (IPv4-mapped IPv6 is IPv4), or the service number.
func canonHost(s string) string {
	if ip, err := netip.ParseAddr(s); err == nil {
		return "ip:" + ip.Unmap().WithZone("").String()
	}
	switch s {
	case "CS", "CS_A":
		return "svc:2"
	case "DS", "DS_A":
		return "svc:1"
	case "Wildcard", "Wildcard_A":
		return "svc:16"
	case "CS_M":
		return "svc:32770"
	case "DS_M":
		return "svc:32769"
	case "Wildcard_M":
		return "svc:32784"
	}
	return "invalid:" + s
}

type ev struct {
	who, kt          string
	secret           string
	proto            int
	l1proto          int    // protocol of the secret value / level-1 key used (-1: as documented)
	mode             string // "specific" | "generic" | "doc" (service: as documented)
	eb, ee           int
	dst              string
	srcHost, dstHost string
	key              drkey.Key
}

func (b *batch) emit(e ev) {
	b.nkeys++
	b.w.Emit(vt.M{"ev": "key", "who": e.who, "kt": e.kt, "secret": e.secret, "proto": e.proto, "l1proto": e.l1proto,
		"mode": e.mode, "eb": e.eb, "ee": e.ee, "dst": e.dst, "srcHost": e.srcHost, "dstHost": e.dstHost,
		"key": b.kid(e.key), "und": strings.HasPrefix(e.who, "undoc")})
}

// secretName is the symbolic name of an AS secret: equal bytes <=> equal name.
func secretName(s []byte) string {
	h := sha256.Sum256(s)
	return "secret-" + hex.EncodeToString(h[:6])
}

func secs(t time.Time) int { return int(t.Unix()) }

var hostPool = []string{"10.0.0.1", "10.0.0.2", "1.2.3.4", "0.2.0.0", "0.1.0.0", "4.0.0.2", "3.0.0.0", "5.0.1.2", "1.2.0.0",
	"2001:db8::1", "2001:db8::2", "102:304::", "::1", "::", "0.0.0.0", "::ffff:10.0.0.1", "300::", "3:300::",
	"CS", "DS", "Wildcard", "CS_A", "CS_M", "DS_M", "fd00::3:0:0", "2.0.0.0", "0:200::"}

func (b *batch) host() string { return hostPool[b.rng.Intn(len(hostPool))] }

func (b *batch) proto() drkey.Protocol {
	switch b.rng.Intn(6) {
	case 0, 1:
		return drkey.SCMP
	case 2: // small numbers: look like address types / key types inside a derivation input
		return drkey.Protocol(2 + b.rng.Intn(6))
	case 3:
		return drkey.Protocol([]int{256, 512, 768, 0x0300, 0x0400, 0x0003, 0x0004, 257, 65535}[b.rng.Intn(9)])
	}
	return drkey.Protocol(2 + b.rng.Intn(65534))
}

// level2 derives the AS-host, host-AS and host-host keys for one (protocol, src, dst, hosts, time)
// along all routes.
func (b *batch) level2(ctx context.Context, p drkey.Protocol, src, dst *as, sh, dh string, t time.Time) {
	l1p := drkey.Generic
	mode := "generic"
	if p.IsPredefined() {
		l1p, mode = p, "specific"
	}
	type l2 interface {
		DeriveASHost(string, drkey.Key) (drkey.Key, error)
		DeriveHostAS(string, drkey.Key) (drkey.Key, error)
		DeriveHostHost(string, drkey.Key) (drkey.Key, error)
	}
	var der l2 = generic.Deriver{Proto: p}
	if p.IsPredefined() {
		der = specific.Deriver{}
	}
	csh, cdh := canonHost(sh), canonHost(dh)
	// --- the control services of the source and of the destination AS
	for _, cs := range []struct {
		who string
		e   *cdrkey.ServiceEngine
	}{{"cs-src", src.eng}, {"cs-dst", dst.eng}, {"cs-dst-again", dst.eng}} {
		if k, err := cs.e.DeriveASHost(ctx, drkey.ASHostMeta{ProtoId: p, Validity: t, SrcIA: src.ia, DstIA: dst.ia, DstHost: dh}); err == nil {
			b.emit(ev{who: cs.who, kt: "ashost", secret: src.name, proto: int(p), l1proto: -1, mode: "doc", eb: secs(k.Epoch.NotBefore),
				ee: secs(k.Epoch.NotAfter), dst: dst.ia.String(), srcHost: "-", dstHost: cdh, key: k.Key})
		} else {
			b.w.Emit(vt.M{"ev": "err", "who": cs.who, "kt": "ashost", "host": cdh})
		}
		if k, err := cs.e.DeriveHostAS(ctx, drkey.HostASMeta{ProtoId: p, Validity: t, SrcIA: src.ia, DstIA: dst.ia, SrcHost: sh}); err == nil {
			b.emit(ev{who: cs.who, kt: "hostas", secret: src.name, proto: int(p), l1proto: -1, mode: "doc", eb: secs(k.Epoch.NotBefore),
				ee: secs(k.Epoch.NotAfter), dst: dst.ia.String(), srcHost: csh, dstHost: "-", key: k.Key})
		} else {
			b.w.Emit(vt.M{"ev": "err", "who": cs.who, "kt": "hostas", "host": csh})
		}
		if k, err := cs.e.DeriveHostHost(ctx, drkey.HostHostMeta{ProtoId: p, Validity: t, SrcIA: src.ia, DstIA: dst.ia, SrcHost: sh, DstHost: dh}); err == nil {
			b.emit(ev{who: cs.who, kt: "hosthost", secret: src.name, proto: int(p), l1proto: -1, mode: "doc", eb: secs(k.Epoch.NotBefore),
				ee: secs(k.Epoch.NotAfter), dst: dst.ia.String(), srcHost: csh, dstHost: cdh, key: k.Key})
		} else {
			b.w.Emit(vt.M{"ev": "err", "who": cs.who, "kt": "hosthost", "host": cdh})
		}
	}
	// --- a host of the source AS holding the secret value of the protocol (delegated secret)
	sv, err := src.eng.GetSecretValue(ctx, drkey.SecretValueMeta{ProtoId: l1p, Validity: t})
	if err != nil {
		vt.Fatal("GetSecretValue: %v", err)
	}
	eb, ee := secs(sv.Epoch.NotBefore), secs(sv.Epoch.NotAfter)
	b.emit(ev{who: "cs-src", kt: "sv", secret: src.name, proto: int(l1p), l1proto: int(l1p), mode: "-", eb: eb, ee: ee, dst: "-",
		srcHost: "-", dstHost: "-", key: sv.Key})
	if own, err := drkey.DeriveSV(l1p, sv.Epoch, src.secret); err == nil {
		b.emit(ev{who: "host-secret", kt: "sv", secret: src.name, proto: int(l1p), l1proto: int(l1p), mode: "-", eb: eb, ee: ee,
			dst: "-", srcHost: "-", dstHost: "-", key: own.Key})
	}
	l1, err := specific.Deriver{}.DeriveLevel1(dst.ia, sv.Key)
	if err != nil {
		vt.Fatal("DeriveLevel1: %v", err)
	}
	b.emit(ev{who: "host-sv", kt: "l1", secret: src.name, proto: int(l1p), l1proto: int(l1p), mode: "-", eb: eb, ee: ee,
		dst: dst.ia.String(), srcHost: "-", dstHost: "-", key: l1})
	// --- the level-1 key as the services hand it out
	for _, cs := range []struct {
		who string
		e   *cdrkey.ServiceEngine
	}{{"cs-src", src.eng}, {"cs-dst", dst.eng}} {
		if k, err := cs.e.GetLevel1Key(ctx, drkey.Level1Meta{ProtoId: l1p, Validity: t, SrcIA: src.ia, DstIA: dst.ia}); err == nil {
			b.emit(ev{who: cs.who, kt: "l1", secret: src.name, proto: int(l1p), l1proto: int(l1p), mode: "-", eb: secs(k.Epoch.NotBefore),
				ee: secs(k.Epoch.NotAfter), dst: dst.ia.String(), srcHost: "-", dstHost: "-", key: k.Key})
		}
	}
	if k, err := src.eng.DeriveLevel1(ctx, drkey.Level1Meta{ProtoId: l1p, Validity: t, SrcIA: src.ia, DstIA: dst.ia}); err == nil {
		b.emit(ev{who: "cs-src-derive", kt: "l1", secret: src.name, proto: int(l1p), l1proto: int(l1p), mode: "-", eb: secs(k.Epoch.NotBefore),
			ee: secs(k.Epoch.NotAfter), dst: dst.ia.String(), srcHost: "-", dstHost: "-", key: k.Key})
	}
	// --- hosts deriving level 2 / 3 from the level-1 key with the protocol's documented derivation
	hostDerive := func(who string, d l2, l1p drkey.Protocol, mode string, pin int, l1k drkey.Key) {
		if k, err := d.DeriveASHost(dh, l1k); err == nil {
			b.emit(ev{who: who, kt: "ashost", secret: src.name, proto: pin, l1proto: int(l1p), mode: mode, eb: eb, ee: ee,
				dst: dst.ia.String(), srcHost: "-", dstHost: cdh, key: k})
		}
		if k, err := d.DeriveHostAS(sh, l1k); err == nil {
			b.emit(ev{who: who, kt: "hostas", secret: src.name, proto: pin, l1proto: int(l1p), mode: mode, eb: eb, ee: ee,
				dst: dst.ia.String(), srcHost: csh, dstHost: "-", key: k})
			if hh, err := d.DeriveHostHost(dh, k); err == nil {
				b.emit(ev{who: who, kt: "hosthost", secret: src.name, proto: pin, l1proto: int(l1p), mode: mode, eb: eb, ee: ee,
					dst: dst.ia.String(), srcHost: csh, dstHost: cdh, key: hh})
			}
		}
	}
	hostDerive("host-l1", der, l1p, mode, int(p), l1)
	// --- not documented: the other derivation on the same level-1 key (must give other keys),
	// except specific derivation under the generic level-1 key, which is outside the scheme
	if p.IsPredefined() && p != drkey.Generic {
		hostDerive("host-other-mode", generic.Deriver{Proto: p}, l1p, "generic", int(p), l1)
	}
	if !p.IsPredefined() {
		hostDerive("undoc-specific-on-generic-l1", specific.Deriver{}, l1p, "specific", 0, l1)
	}
}

func (b *batch) run(id int, n int) {
	ctx := context.Background()
	b.w.Emit(vt.M{"ev": "reset", "part": "derive", "id": id, "d": 0, "w": 0, "g": 0})
	b.keys = map[drkey.Key]int{}
	b.ases = nil
	b.byIA = map[addr.IA]*as{}
	f := &fetcher{ases: b.byIA}
	ias := []string{"1-ff00:0:110", "1-ff00:0:111", "2-ff00:0:110", "1-ff00:0:10", "1-64512"}
	b.rng.Shuffle(len(ias), func(i, j int) { ias[i], ias[j] = ias[j], ias[i] })
	dur := []time.Duration{time.Hour, 24 * time.Hour, 10 * time.Minute, 7 * time.Second}[b.rng.Intn(4)]
	for i := 0; i < 3; i++ {
		a := &as{ia: addr.MustParseIA(ias[i])}
		a.secret = make([]byte, 1+b.rng.Intn(40))
		b.rng.Read(a.secret)
		if i == 2 && b.rng.Intn(2) == 0 { // near miss: the secret of AS 0 with one more byte
			a.secret = append(append([]byte{}, b.ases[0].secret...), 0)
		}
		a.name = secretName(a.secret)
		svdb, err := svsqlite.NewBackend(fmt.Sprintf("sv-%d-%d", id, i), &db.SqliteConfig{InMemory: true})
		if err != nil {
			vt.Fatal("sv db: %v", err)
		}
		l1db, err := l1sqlite.NewBackend(fmt.Sprintf("l1-%d-%d", id, i), &db.SqliteConfig{InMemory: true})
		if err != nil {
			vt.Fatal("l1 db: %v", err)
		}
		defer svdb.Close()
		defer l1db.Close()
		arc, err := cdrkey.NewLevel1ARC(20)
		if err != nil {
			vt.Fatal("arc: %v", err)
		}
		a.eng = &cdrkey.ServiceEngine{SecretBackend: cdrkey.NewSecretValueBackend(svdb, a.secret, dur), LocalIA: a.ia,
			DB: l1db, Fetcher: f, PrefetchKeeper: arc}
		b.ases = append(b.ases, a)
		b.byIA[a.ia] = a
	}
	base := time.Unix(int64(1_600_000_000+b.rng.Intn(100_000_000)), 0)
	for i := 0; i < n; i++ {
		s := b.rng.Intn(3)
		d := (s + 1 + b.rng.Intn(2)) % 3
		t := base
		switch b.rng.Intn(4) {
		case 0: // another epoch
			t = base.Add(time.Duration(1+b.rng.Intn(3)) * dur)
		case 1: // epoch boundary
			t = time.Unix((base.Unix()/int64(dur/time.Second)+1)*int64(dur/time.Second), 0).Add(time.Duration(b.rng.Intn(3)-1) * time.Second)
		}
		b.level2(ctx, b.proto(), b.ases[s], b.ases[d], b.host(), b.host(), t)
	}
	// directed: secret values straight from drkey.DeriveSV for neighbouring epochs, protocols and
	// secrets (epochs that share only their begin or only their end, a secret that is a prefix of
	// another one): all different terms, so all different keys
	{
		a := b.ases[0]
		b0 := uint32(base.Unix())
		long := &as{secret: append(append([]byte{}, a.secret...), 0)}
		long.name = secretName(long.secret)
		for _, x := range []struct {
			who    *as
			p      drkey.Protocol
			eb, ee uint32
		}{{a, 1, b0, b0 + 3600}, {a, 1, b0, b0 + 3601}, {a, 1, b0 - 1, b0 + 3600}, {a, 1, b0 + 3600, b0 + 7200},
			{a, 0, b0, b0 + 3600}, {a, 256, b0, b0 + 3600}, {a, 257, b0, b0 + 3600}, {long, 1, b0, b0 + 3600},
			{a, 1, b0, b0 + 3600}} {
			if sv, err := drkey.DeriveSV(x.p, drkey.NewEpoch(x.eb, x.ee), x.who.secret); err == nil {
				b.emit(ev{who: "host-secret", kt: "sv", secret: x.who.name, proto: int(x.p), l1proto: int(x.p), mode: "-",
					eb: int(x.eb), ee: int(x.ee), dst: "-", srcHost: "-", dstHost: "-", key: sv.Key})
			}
		}
	}
	// directed: the derivation inputs that would coincide if the specific derivation were run for
	// the generic protocol (outside the documented scheme; judged as drift only)
	src, dst := b.ases[0], b.ases[1]
	// directed: hosts of different address types with the same address bytes, under one level-1 key
	for _, p := range []drkey.Protocol{drkey.SCMP, 9} {
		for _, h := range [][2]string{{"CS", "0.2.0.0"}, {"0.2.0.0", "CS"}, {"DS", "0.1.0.0"}, {"0.1.0.0", "DS"},
			{"Wildcard", "0.16.0.0"}, {"128.2.0.0", "CS_M"},
			// neighbouring addresses (last / first byte differs), both ways round
			{"2001:db8::1", "2001:db8::2"}, {"2001:db8::2", "2001:db8::1"}, {"fd00::1:ff00", "fd00::1:ff"},
			{"fd00::1:ff", "fd00::1:ff00"}, {"2001:db8::1", "2101:db8::1"}, {"2101:db8::1", "2001:db8::1"},
			{"10.0.0.1", "10.0.0.2"}, {"10.0.0.2", "10.0.0.1"}, {"10.0.0.1", "11.0.0.1"}, {"11.0.0.1", "10.0.0.1"}} {
			b.level2(ctx, p, src, dst, h[0], h[1], base)
		}
	}
	b.level2(ctx, 5, src, dst, "1.2.0.0", "1.2.0.0", base)  // generic, proto 5, 1.2.0.0
	b.level2(ctx, 77, src, dst, "5.0.1.2", "5.0.1.2", base) // undoc: specific on generic L1, host 5.0.1.2
}

// ------------------------------------------------------------------ epochs and rotation part
// Two real service engines (source AS A, destination AS B with a level-1 fetcher into A) are asked
// for level-1 keys at explicit validity times that walk across epoch boundaries; the prefetcher's
// request (now + epoch length) and the cleaners (DeleteExpired* with an explicit cut-off) are
// interleaved. No sleeps, no wall clock. Times are whole seconds relative to an epoch start.

type countingFetcher struct {
	f *fetcher
	n int
}

func (c *countingFetcher) Level1(ctx context.Context, m drkey.Level1Meta) (drkey.Level1Key, error) {
	c.n++
	return c.f.Level1(ctx, m)
}

func epochs(w *vt.Writer, rng *rand.Rand, n int, keys map[drkey.Key]int) int {
	ctx := context.Background()
	cnt := 0
	kid := func(k drkey.Key) int {
		if v, ok := keys[k]; ok {
			return v
		}
		keys[k] = len(keys) + 1
		return keys[k]
	}
	for i := 0; i < n; i++ {
		dsec := []int{7, 10, 60, 3600}[rng.Intn(4)]
		D := time.Duration(dsec) * time.Second
		base := time.Unix(int64((1_650_000_000/dsec+rng.Intn(100000))*dsec), 0)
		byIA := map[addr.IA]*as{}
		cf := &countingFetcher{f: &fetcher{ases: byIA}}
		mk := func(ia string, tag string) (*as, *svsqlite.Backend, *l1sqlite.Backend) {
			a := &as{ia: addr.MustParseIA(ia), secret: make([]byte, 16)}
			rng.Read(a.secret)
			a.name = secretName(a.secret)
			svdb, err := svsqlite.NewBackend(fmt.Sprintf("esv-%d-%s", i, tag), &db.SqliteConfig{InMemory: true})
			if err != nil {
				vt.Fatal("sv db: %v", err)
			}
			l1db, err := l1sqlite.NewBackend(fmt.Sprintf("el1-%d-%s", i, tag), &db.SqliteConfig{InMemory: true})
			if err != nil {
				vt.Fatal("l1 db: %v", err)
			}
			arc, _ := cdrkey.NewLevel1ARC(20)
			a.eng = &cdrkey.ServiceEngine{SecretBackend: cdrkey.NewSecretValueBackend(svdb, a.secret, D), LocalIA: a.ia,
				DB: l1db, Fetcher: cf, PrefetchKeeper: arc}
			byIA[a.ia] = a
			return a, svdb, l1db
		}
		A, svA, _ := mk("1-ff00:0:110", "a")
		B, _, l1B := mk("1-ff00:0:111", "b")
		p := []drkey.Protocol{drkey.SCMP, drkey.Generic}[rng.Intn(2)]
		w.Emit(vt.M{"ev": "reset", "part": "epoch", "id": i, "d": dsec, "w": 0, "g": 0})
		now := 0 // seconds since base
		rel := func(t time.Time) int { return int(t.Unix() - base.Unix()) }
		get := func(who string, e *cdrkey.ServiceEngine, t int) {
			before := cf.n
			k, err := e.GetLevel1Key(ctx, drkey.Level1Meta{ProtoId: p, Validity: base.Add(time.Duration(t) * time.Second),
				SrcIA: A.ia, DstIA: B.ia})
			ev := vt.M{"ev": "l1", "who": who, "now": now, "t": t, "ok": err == nil, "eb": 0, "ee": 0, "key": 0,
				"fetched": cf.n > before}
			if err == nil {
				ev["eb"], ev["ee"], ev["key"] = rel(k.Epoch.NotBefore), rel(k.Epoch.NotAfter), kid(k.Key)
			}
			w.Emit(ev)
			cnt++
		}
		for step := 0; step < 40; step++ {
			switch rng.Intn(8) {
			case 0, 1: // time passes: to just before / exactly at / just after the next boundary, or a bit
				nb := (now/dsec + 1) * dsec
				now = []int{nb - 1, nb, nb + 1, now + 1, now + dsec/2}[rng.Intn(5)]
			case 2:
				get("src", A.eng, now+rng.Intn(2))
			case 3, 4:
				get("dst", B.eng, now)
			case 5: // the prefetcher: the key for now + epoch length
				get("dst", B.eng, now+dsec)
			case 6: // a request for an instant around the next boundary
				nb := (now/dsec + 1) * dsec
				get("dst", B.eng, nb+rng.Intn(3)-1)
			case 7: // the cleaners with cut-off now
				cut := base.Add(time.Duration(now) * time.Second)
				n1, err1 := l1B.DeleteExpiredLevel1Keys(ctx, cut)
				n2, err2 := svA.DeleteExpiredValues(ctx, cut)
				if err1 != nil || err2 != nil {
					vt.Fatal("clean: %v %v", err1, err2)
				}
				w.Emit(vt.M{"ev": "clean", "now": now, "l1": n1, "sv": n2})
			}
		}
		svA.Close()
		l1B.Close()
	}
	return cnt
}

// ------------------------------------------------------------------ acceptance window part

func window(w *vt.Writer, rng *rand.Rand, n int) int {
	cnt := 0
	us := func(d time.Duration) int { return int(d / time.Microsecond) }
	for i := 0; i < n; i++ {
		dsec := []int{10, 7, 60, 3}[rng.Intn(4)]
		D := time.Duration(dsec) * time.Second
		W := []time.Duration{2 * time.Second, 6 * time.Second, 30 * time.Second, time.Second, 500 * time.Millisecond,
			4 * time.Microsecond, 0, 5 * time.Minute}[rng.Intn(8)]
		base := time.Unix(int64((1_700_000_000/dsec+rng.Intn(1000))*dsec), 0) // start of an epoch
		p := &drkeyutil.FakeProvider{EpochDuration: D, AcceptanceWindow: W}
		w.Emit(vt.M{"ev": "reset", "part": "window", "id": i, "d": us(D), "w": us(W), "g": us(drkey.GRACE_PERIOD)})
		// interesting instants relative to base (= begin of epoch 1; epoch 0 precedes it)
		marks := []time.Duration{0, D, 2 * D, W / 2, D - W/2, D + W/2, drkey.GRACE_PERIOD, D + drkey.GRACE_PERIOD,
			2*D + drkey.GRACE_PERIOD, D / 2}
		pick := func() time.Duration {
			m := marks[rng.Intn(len(marks))]
			switch rng.Intn(4) {
			case 0:
				return m
			case 1:
				return m + time.Duration(rng.Intn(5)-2)*time.Microsecond
			case 2:
				return m + time.Duration(rng.Intn(2001)-1000)*time.Millisecond
			}
			return time.Duration(rng.Int63n(int64(3*D/time.Microsecond))) * time.Microsecond
		}
		for j := 0; j < 60; j++ {
			now := D + pick() // never before epoch 1 so that a previous epoch exists
			if now < D {
				now = D
			}
			ts := pick()
			if rng.Intn(3) == 0 { // a timestamp close to "now" in the current epoch
				ts = now%D + time.Duration(rng.Intn(2001)-1000)*time.Millisecond
			}
			if ts < 0 {
				ts = 0
			}
			// the trace carries whole microseconds: everything handed to the code must be exact
			if now%time.Microsecond != 0 || ts%time.Microsecond != 0 || (W/2)%time.Microsecond != 0 {
				vt.Fatal("window grid is not in whole microseconds: now=%v ts=%v w=%v", now, ts, W)
			}
			k, err := p.GetKeyWithinAcceptanceWindow(base.Add(now), uint64(ts), addr.MustParseIA("1-ff00:0:110"),
				addr.MustParseHost("10.0.0.1"))
			e := vt.M{"ev": "select", "now": us(now), "ts": us(ts), "ok": err == nil, "eb": 0, "ee": 0}
			if err == nil {
				e["eb"] = us(k.Epoch.NotBefore.Sub(base))
				e["ee"] = us(k.Epoch.NotAfter.Sub(base))
			}
			w.Emit(e)
			cnt++
		}
	}
	return cnt
}

func main() {
	out := flag.String("out", "derive.ndjson", "output trace (derivations)")
	nb := flag.Int("batches", 6, "derivation batches")
	n := flag.Int("n", 12, "derivation rounds per batch")
	nw := flag.Int("windows", 40, "acceptance-window configurations")
	nep := flag.Int("epochs", 30, "epoch-rotation histories")
	flag.Parse()
	b := &batch{w: vt.NewWriter(*out), rng: vt.Rand(39)}
	for i := 0; i < *nb; i++ {
		b.run(i, *n)
	}
	ne := epochs(b.w, vt.Rand(393939), *nep, map[drkey.Key]int{})
	c := window(b.w, vt.Rand(3939), *nw)
	b.w.Close()
	fmt.Printf("keys=%d selections=%d rotations=%d\n", b.nkeys, c, ne)
}
