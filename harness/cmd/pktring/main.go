// Driver for the pktRing part of C48: several writers and the single reader of the gateway's
// pktRing (gateway/dataplane/pktring.go) on top of the real ring buffer. The ringbuf verif hook
// gives the linearization order of the inner ring; the callers' own observations are merged in.
package main

import (
	"encoding/binary"
	"flag"
	"fmt"
	"math/rand"
	"runtime"
	"sync"
	"sync/atomic"
	"time"

	"github.com/scionproto/scion/gateway/dataplane"
	"github.com/scionproto/scion/private/ringbuf"

	"verifharness/internal/vt"
)

type ev struct {
	m      vt.M
	writer int // for rwrite: the writer, to attach its observed return value
}

type run struct {
	mu  sync.Mutex
	log []ev
}

var cur *run
var curRing *ringbuf.Ring
var progress atomic.Int64 // entries actually transferred (or close): what the watchdog looks at
var abort atomic.Bool     // set by the watchdog: the polling reader gives up

func pktID(b []byte) int { return int(binary.BigEndian.Uint32(b)) }

func hook(r *ringbuf.Ring, e ringbuf.VerifEvent) {
	if r != curRing {
		return
	}
	ru := cur
	ru.mu.Lock()
	defer ru.mu.Unlock()
	if e.Ret > 0 || e.Op == "close" {
		progress.Add(1)
	}
	switch e.Op {
	case "write":
		id := pktID(e.Entries[0].([]byte))
		ru.log = append(ru.log, ev{writer: id / 100000, m: vt.M{"ev": "rwrite", "pkt": id, "block": e.Block,
			"hret": e.Ret, "ret": e.Ret}})
	case "read":
		vals := []int{}
		for i := 0; i < e.Ret; i++ {
			if b, ok := e.Entries[i].([]byte); ok {
				vals = append(vals, pktID(b))
			} else {
				vals = append(vals, -7)
			}
		}
		ru.log = append(ru.log, ev{writer: -1, m: vt.M{"ev": "rread", "len": len(e.Entries), "block": e.Block,
			"hret": e.Ret, "vals": vals}})
	case "waitw", "waitr":
		ru.log = append(ru.log, ev{writer: -1, m: vt.M{"ev": e.Op}})
	case "close":
		ru.log = append(ru.log, ev{writer: -1, m: vt.M{"ev": "close"}})
	}
}

func oneTrace(w *vt.Writer, rng *rand.Rand, id int) {
	pr := dataplane.VerifNewPktRing()
	ru := &run{}
	cur, curRing = ru, pr.Ring()
	nw := 1 + rng.Intn(4)
	// families: bursts larger than the ring (64) and the batch (32), trickles, non-blocking floods
	per := []int{3, 20, 40, 70, 130}[rng.Intn(5)]
	blockW := rng.Intn(3) != 0
	blockR := rng.Intn(2) == 0
	obs := make([][]int, nw+1) // writer id (1-based) -> observed returns in call order
	var wg sync.WaitGroup
	for c := 1; c <= nw; c++ {
		wg.Add(1)
		go func(c int, seed int64) {
			defer wg.Done()
			lr := rand.New(rand.NewSource(seed))
			for k := 1; k <= per; k++ {
				b := make([]byte, 4+lr.Intn(8))
				binary.BigEndian.PutUint32(b, uint32(c*100000+k))
				if lr.Intn(4) == 0 {
					runtime.Gosched()
				}
				obs[c] = append(obs[c], pr.Write(b, blockW))
			}
		}(c, rng.Int63())
	}
	done := make(chan struct{})
	go func() {
		// single reader: drains until the ring reports closure
		empty := 0
		for {
			b, n := pr.Read(blockR)
			m := vt.M{"ev": "pread", "ret": n, "pkt": -1, "block": blockR}
			if n == 1 {
				m["pkt"] = pktID(b)
			}
			ru.mu.Lock()
			ru.log = append(ru.log, ev{writer: -1, m: m})
			ru.mu.Unlock()
			if n == -1 {
				break
			}
			if n == 0 {
				empty++
				if abort.Load() {
					break
				}
				time.Sleep(time.Millisecond) // polling reader: do not flood the trace
			}
		}
		close(done)
	}()
	// A lost wake-up in the ring would park a writer (or the reader) forever: wait with a watchdog on
	// the hook's event counter; no event for 10 s while callers are still inside = stuck (an event
	// for which the specification has no action), and no further traces are produced.
	stuck := false
	waitOrStuck := func(ch <-chan struct{}) bool {
		last, lastT := int64(-1), time.Now()
		for {
			select {
			case <-ch:
				return true
			case <-time.After(50 * time.Millisecond):
			}
			n := progress.Load()
			if n != last {
				last, lastT = n, time.Now()
			} else if time.Since(lastT) > 10*time.Second {
				return false
			}
		}
	}
	wdone := make(chan struct{})
	go func() { wg.Wait(); close(wdone) }()
	abort.Store(false)
	if !waitOrStuck(wdone) {
		stuck = true
		abort.Store(true)
		time.Sleep(20 * time.Millisecond)
	} else {
		pr.Close()
		if !waitOrStuck(done) {
			stuck = true
		}
	}
	ru.mu.Lock()
	defer ru.mu.Unlock()
	if stuck {
		stuckFlag = true
	}
	w.Emit(vt.M{"ev": "reset", "cap": dataplane.VerifPktRingSize, "batch": dataplane.VerifPktRingBatch, "id": id,
		"writers": nw, "per": per})
	idx := make([]int, nw+1)
	for _, e := range ru.log {
		if e.m["ev"] == "rwrite" {
			c := e.writer
			if c >= 1 && c <= nw && idx[c] < len(obs[c]) {
				e.m["ret"] = obs[c][idx[c]]
				idx[c]++
			}
		}
		w.Emit(e.m)
	}
	if stuck {
		w.Emit(vt.M{"ev": "stuck"})
		return
	}
	w.Emit(vt.M{"ev": "end"})
}

var stuckFlag bool

func main() {
	out := flag.String("out", "trace.ndjson", "output trace")
	n := flag.Int("n", 100, "number of traces")
	flag.Parse()
	ringbuf.VerifTracer = hook
	w := vt.NewWriter(*out)
	rng := vt.Rand(4801)
	procs := []int{1, 2, 4, 16}
	for i := 0; i < *n; i++ {
		runtime.GOMAXPROCS(procs[i%len(procs)])
		oneTrace(w, rng, i)
		if stuckFlag {
			break // goroutines of the stuck trace are still parked inside the ring
		}
	}
	w.Close()
	fmt.Printf("traces=%d events=%d\n", *n, w.N)
}
