// Driver for C19: tabulates the real path meta header arithmetic of pkg/slayers/path/scion over the
// complete space of meta headers and writes ndjson tables for PathMetaTrace.tla. It never judges:
// every record holds what the real code returned for abstractly described inputs.
//
//	ev=acc  one record per (s0, s1): for every s2 in 0..63 how many of the enumerated (CurrINF, CurrHF,
//	        reserved-bit sample) headers Raw/Decoded.DecodeFromBytes accepted, and NumINF/NumHops.
//	ev=tri  one record per accepted segment-length triple: one encoded cell per in-range pointer
//	        pair (flags, IncPath outcome), Reverse outcomes (Raw, Decoded, twice), byte-level
//	        agreement counters, the hop/info permutation done by Reverse, panics for all 256 pointer
//	        pairs.
package main

import (
	"bytes"
	"encoding/binary"
	"flag"
	"fmt"
	"math/rand"
	"sort"
	"strconv"
	"strings"
	"sync"

	"github.com/scionproto/scion/pkg/slayers/path"
	"github.com/scionproto/scion/pkg/slayers/path/scion"

	"verifharness/internal/vt"
)

const bufLen = scion.MetaLen + 3*path.InfoLen + 189*path.HopLen

func line(ci, h, a, b, c, resv int) uint32 {
	return uint32(ci)<<30 | uint32(h)<<24 | uint32(resv&0x3f)<<18 | uint32(a)<<12 | uint32(b)<<6 | uint32(c)
}

func encMeta(m scion.MetaHdr) int {
	return (((int(m.SegLen[0])*65+int(m.SegLen[1]))*65+int(m.SegLen[2]))*4+int(m.CurrINF))*64 + int(m.CurrHF)
}

func b2i(b bool) int {
	if b {
		return 1
	}
	return 0
}

// guard runs f and records a panic of the real code as an observation.
type guard struct {
	panics int
	first  string
}

func (g *guard) run(op string, f func()) {
	defer func() {
		if r := recover(); r != nil {
			g.panics++
			if g.first == "" {
				g.first = op
			}
		}
	}()
	f()
}

// ---------------------------------------------------------------------------------- acceptance

type accRow struct {
	raw, dec, ni, nh [64]int
	tried, triedDec  int
	fieldMismatch    int // decoded MetaHdr fields differ from the bit fields put into the header
	serMismatch      int // MetaHdr.SerializeTo(decoded) differs from the header (reserved bits cleared)
	shapeMixed       int // NumINF/NumHops not the same for all pointer pairs of one triple
	panics           int
	pop              string
}

func acceptance(a, b int, rng *rand.Rand, ptrStride, decStride int) *accRow {
	r := &accRow{}
	buf := make([]byte, bufLen)
	rng.Read(buf)
	var g guard
	off := rng.Intn(decStride)
	poff := rng.Intn(ptrStride)
	for c := 0; c < 64; c++ {
		r.ni[c], r.nh[c] = -1, -1
		for p := 0; p < 256; p++ {
			if (p+poff+c)%ptrStride != 0 {
				continue
			}
			ci, h := p>>6, p&63
			resv := rng.Intn(64)
			l := line(ci, h, a, b, c, resv)
			binary.BigEndian.PutUint32(buf, l)
			g.run("Raw.DecodeFromBytes", func() {
				var rp scion.Raw
				err := rp.DecodeFromBytes(buf)
				if c == 0 {
					r.tried++
				}
				if err != nil {
					return
				}
				r.raw[c]++
				m := rp.PathMeta
				if int(m.CurrINF) != ci || int(m.CurrHF) != h || int(m.SegLen[0]) != a ||
					int(m.SegLen[1]) != b || int(m.SegLen[2]) != c {
					r.fieldMismatch++
				}
				var out [4]byte
				if err := m.SerializeTo(out[:]); err != nil || binary.BigEndian.Uint32(out[:]) != line(ci, h, a, b, c, 0) {
					r.serMismatch++
				}
				if r.ni[c] == -1 {
					r.ni[c], r.nh[c] = rp.NumINF, rp.NumHops
				} else if r.ni[c] != rp.NumINF || r.nh[c] != rp.NumHops {
					r.shapeMixed++
				}
			})
			if (p/ptrStride+off)%decStride == 0 {
				g.run("Decoded.DecodeFromBytes", func() {
					var dp scion.Decoded
					err := dp.DecodeFromBytes(buf)
					if c == 0 {
						r.triedDec++
					}
					if err != nil {
						return
					}
					r.dec[c]++
					if len(dp.InfoFields) != dp.NumINF || len(dp.HopFields) != dp.NumHops ||
						(r.ni[c] != -1 && (r.ni[c] != dp.NumINF || r.nh[c] != dp.NumHops)) {
						r.shapeMixed++
					}
				})
			}
		}
	}
	r.panics, r.pop = g.panics, g.first
	return r
}

// ---------------------------------------------------------------------------------- per-triple tables

// buildPath writes a path with recognisable hop / info fields: hop i has ConsIngress = i+1 and
// ConsEgress = 1000+i, info j has SegID = j+1; everything else is seeded noise.
func buildPath(buf []byte, ni, nh int, rng *rand.Rand) (cons []int) {
	off := scion.MetaLen
	for j := 0; j < ni; j++ {
		inf := path.InfoField{Peer: rng.Intn(2) == 0, ConsDir: rng.Intn(2) == 0, SegID: uint16(j + 1), Timestamp: rng.Uint32()}
		cons = append(cons, b2i(inf.ConsDir))
		_ = inf.SerializeTo(buf[off : off+path.InfoLen])
		off += path.InfoLen
	}
	for i := 0; i < nh; i++ {
		hf := path.HopField{IngressRouterAlert: rng.Intn(2) == 0, EgressRouterAlert: rng.Intn(2) == 0,
			ExpTime: uint8(rng.Intn(256)), ConsIngress: uint16(i + 1), ConsEgress: uint16(1000 + i)}
		rng.Read(hf.Mac[:])
		_ = hf.SerializeTo(buf[off : off+path.HopLen])
		off += path.HopLen
	}
	return cons
}

func hopIDs(d *scion.Decoded) []int {
	out := make([]int, len(d.HopFields))
	for i, hf := range d.HopFields {
		if int(hf.ConsEgress) == 1000+int(hf.ConsIngress)-1 {
			out[i] = int(hf.ConsIngress) - 1
		} else {
			out[i] = -1 // torn hop field
		}
	}
	return out
}

func infIDs(d *scion.Decoded) (ids, cons []int) {
	ids, cons = make([]int, len(d.InfoFields)), make([]int, len(d.InfoFields))
	for i, inf := range d.InfoFields {
		ids[i] = int(inf.SegID) - 1
		cons[i] = b2i(inf.ConsDir)
	}
	return
}

func triple(a, b, c int, rng *rand.Rand) vt.M {
	seg := [3]int{a, b, c}
	base := make([]byte, bufLen)
	rng.Read(base)
	binary.BigEndian.PutUint32(base, line(0, 0, a, b, c, 0))
	var probe scion.Raw
	if err := probe.DecodeFromBytes(base); err != nil {
		return nil
	}
	ni, nh := probe.NumINF, probe.NumHops
	plen := probe.Len()
	cons0 := buildPath(base, ni, nh, rng)
	var g guard
	fresh := func(ci, h int) (*scion.Raw, []byte) {
		buf := make([]byte, plen)
		copy(buf, base[:plen])
		binary.BigEndian.PutUint32(buf, line(ci, h, a, b, c, rng.Intn(64)))
		r := &scion.Raw{}
		if err := r.DecodeFromBytes(buf); err != nil {
			vt.Fatal("decode of an accepted triple failed: %v", err)
		}
		return r, buf
	}
	canon := func(ci, h int) []byte { // the input bytes with the reserved bits cleared
		buf := make([]byte, plen)
		copy(buf, base[:plen])
		binary.BigEndian.PutUint32(buf, line(ci, h, a, b, c, 0))
		return buf
	}

	// one cell per in-range pointer pair
	cells := make([][]int, ni)
	for ci := 0; ci < ni; ci++ {
		cells[ci] = make([]int, nh)
		for h := 0; h < nh; h++ {
			r, _ := fresh(ci, h)
			v := -1
			g.run("flags/IncPath", func() {
				m := r.CurrINFMatchesCurrHF()
				x := r.IsXover()
				f := r.IsFirstHopAfterXover()
				first, last, pen := r.IsFirstHop(), r.IsLastHop(), r.IsPenultimateHop()
				err := r.IncPath()
				// the pointers must also have been written to the raw bytes
				var back scion.MetaHdr
				_ = back.DecodeFromBytes(r.Raw)
				if err == nil && back != r.PathMeta {
					v = -2 // IncPath did not update the raw representation
					return
				}
				v = b2i(m) + 2*b2i(x) + 4*b2i(f) + 8*b2i(first) + 16*b2i(last) + 32*b2i(pen) +
					64*b2i(err != nil) + 128*int(r.PathMeta.CurrINF) + 512*int(r.PathMeta.CurrHF)
			})
			cells[ci][h] = v
		}
	}

	// Reverse at every hop (segment i, offset k): pointers (ci = i, h = start_i + k)
	rr, rd, r2 := make([]int, nh), make([]int, nh), make([]int, nh)
	agree, restored, tdr := 0, 0, 0
	sampleH := rng.Intn(nh)
	var hops1, infs1, cons1 []int
	h := 0
	for i := 0; i < ni; i++ {
		for k := 0; k < seg[i]; k++ {
			ci := i
			rr[h], rd[h], r2[h] = -1, -1, -1
			var rawBytes, decBytes []byte
			g.run("Raw.Reverse", func() {
				r, _ := fresh(ci, h)
				p, err := r.Reverse()
				if err != nil {
					return
				}
				rv := p.(*scion.Raw)
				rr[h] = encMeta(rv.PathMeta)
				rawBytes = append([]byte{}, rv.Raw...)
				if h == sampleH {
					if d, err := rv.ToDecoded(); err == nil {
						hops1 = hopIDs(d)
						infs1, cons1 = infIDs(d)
					}
				}
				p2, err := rv.Reverse()
				if err != nil {
					return
				}
				rv2 := p2.(*scion.Raw)
				r2[h] = encMeta(rv2.PathMeta)
				if bytes.Equal(rv2.Raw, canon(ci, h)) {
					restored++
				}
			})
			g.run("Decoded.Reverse", func() {
				r, _ := fresh(ci, h)
				d, err := r.ToDecoded()
				if err != nil {
					return
				}
				p, err := d.Reverse()
				if err != nil {
					return
				}
				dv := p.(*scion.Decoded)
				rd[h] = encMeta(dv.PathMeta)
				decBytes = make([]byte, dv.Len())
				if err := dv.SerializeTo(decBytes); err != nil {
					decBytes = nil
				}
			})
			if rawBytes != nil && decBytes != nil && bytes.Equal(rawBytes, decBytes) {
				agree++
			}
			g.run("ToDecoded/ToRaw", func() {
				r, _ := fresh(ci, h)
				d, err := r.ToDecoded()
				if err != nil {
					return
				}
				back, err := d.ToRaw()
				if err != nil {
					return
				}
				if bytes.Equal(back.Raw, canon(ci, h)) && back.PathMeta == d.PathMeta &&
					back.NumINF == ni && back.NumHops == nh {
					tdr++
				}
			})
			h++
		}
	}

	// Reverse twice for EVERY in-range pointer pair (also those whose info pointer is not the segment of the
	// hop pointer): the meta header and the bytes must be back
	r2all := make([][]int, ni)
	restoredAll := 0
	for ci := 0; ci < ni; ci++ {
		r2all[ci] = make([]int, nh)
		for hh := 0; hh < nh; hh++ {
			r2all[ci][hh] = -1
			g.run("Raw.Reverse twice", func() {
				r, _ := fresh(ci, hh)
				p1, err := r.Reverse()
				if err != nil {
					return
				}
				p2, err := p1.(*scion.Raw).Reverse()
				if err != nil {
					return
				}
				rv := p2.(*scion.Raw)
				r2all[ci][hh] = encMeta(rv.PathMeta)
				if bytes.Equal(rv.Raw, canon(ci, hh)) {
					restoredAll++
				}
			})
		}
	}

	// field accessors at every index: Raw.GetHopField / GetInfoField against the decoded representation,
	// Raw.SetHopField / SetInfoField must change exactly that field (seen through a full decode)
	gh, gi, sh, si := make([]int, nh), make([]int, ni), make([]int, nh), make([]int, ni)
	ghd, gid, oobErr, oobChanged := 0, 0, 0, 0
	var orig *scion.Decoded
	g.run("ToDecoded(reference)", func() {
		r, _ := fresh(0, 0)
		orig, _ = r.ToDecoded()
	})
	markHop := path.HopField{ExpTime: 77, ConsIngress: 60000, ConsEgress: 60001, Mac: [6]byte{9, 8, 7, 6, 5, 4}}
	markInf := path.InfoField{ConsDir: true, SegID: 60000, Timestamp: 123456}
	changedHops := func(d *scion.Decoded) (idx, n int) { // which hop fields differ from the reference
		idx = -1
		for i := range d.HopFields {
			if d.HopFields[i] != orig.HopFields[i] {
				idx = i
				n++
			}
		}
		return
	}
	changedInfs := func(d *scion.Decoded) (idx, n int) {
		idx = -1
		for i := range d.InfoFields {
			if d.InfoFields[i] != orig.InfoFields[i] {
				idx = i
				n++
			}
		}
		return
	}
	if orig != nil {
		for i := 0; i < nh; i++ {
			gh[i], sh[i] = -2, -2
			g.run("Raw.GetHopField", func() {
				r, _ := fresh(0, 0)
				hf, err := r.GetHopField(i)
				gh[i] = -1
				if err == nil {
					gh[i] = int(hf.ConsIngress) - 1
					if hf == orig.HopFields[i] {
						ghd++
					}
				}
			})
			g.run("Raw.SetHopField", func() {
				r, _ := fresh(0, 0)
				sh[i] = -1
				if err := r.SetHopField(markHop, i); err != nil {
					return
				}
				d, err := r.ToDecoded()
				if err != nil {
					return
				}
				hi, hn := changedHops(d)
				_, in := changedInfs(d)
				if hn == 1 && in == 0 && d.HopFields[hi] == markHop && d.PathMeta == orig.PathMeta {
					sh[i] = hi
				}
			})
		}
		for j := 0; j < ni; j++ {
			gi[j], si[j] = -2, -2
			g.run("Raw.GetInfoField", func() {
				r, _ := fresh(0, 0)
				inf, err := r.GetInfoField(j)
				gi[j] = -1
				if err == nil {
					gi[j] = int(inf.SegID) - 1
					if inf == orig.InfoFields[j] {
						gid++
					}
				}
			})
			g.run("Raw.SetInfoField", func() {
				r, _ := fresh(0, 0)
				si[j] = -1
				if err := r.SetInfoField(markInf, j); err != nil {
					return
				}
				d, err := r.ToDecoded()
				if err != nil {
					return
				}
				_, hn := changedHops(d)
				ii, in := changedInfs(d)
				if in == 1 && hn == 0 && d.InfoFields[ii] == markInf && d.PathMeta == orig.PathMeta {
					si[j] = ii
				}
			})
		}
		// one past the end: refused, nothing written
		oob := func(op string, f func(r *scion.Raw) error) {
			g.run(op, func() {
				r, buf := fresh(0, 0)
				before := append([]byte{}, buf...)
				if f(r) != nil {
					oobErr++
				}
				if !bytes.Equal(before, buf) {
					oobChanged++
				}
			})
		}
		oob("GetHopField(NumHops)", func(r *scion.Raw) error { _, err := r.GetHopField(nh); return err })
		oob("SetHopField(NumHops)", func(r *scion.Raw) error { return r.SetHopField(markHop, nh) })
		oob("GetInfoField(NumINF)", func(r *scion.Raw) error { _, err := r.GetInfoField(ni); return err })
		oob("SetInfoField(NumINF)", func(r *scion.Raw) error { return r.SetInfoField(markInf, ni) })
	}

	// all 256 pointer pairs (in and out of range): nothing may panic
	pastInc, incRawDiff := 0, 0
	for p := 0; p < 256; p++ {
		ci, hh := p>>6, p&63
		r, _ := fresh(ci, hh)
		g.run("flags(any pointers)", func() {
			r.CurrINFMatchesCurrHF()
			r.IsXover()
			r.IsFirstHopAfterXover()
			r.IsFirstHop()
			r.IsLastHop()
			r.IsPenultimateHop()
		})
		g.run("IncPath(any pointers)", func() {
			err := r.IncPath()
			if hh >= nh && err == nil {
				pastInc++ // a hop pointer beyond the last hop was advanced
			}
			var back scion.MetaHdr
			_ = back.DecodeFromBytes(r.Raw)
			if err == nil && back != r.PathMeta {
				incRawDiff++ // after a successful IncPath the raw bytes and the struct disagree
			}
		})
		g.run("Reverse(any pointers)", func() { _, _ = r.Reverse() })
		g.run("ToDecoded(any pointers)", func() {
			if d, err := r.ToDecoded(); err == nil {
				_, _ = d.Reverse()
				_, _ = d.ToRaw()
			}
		})
	}
	if hops1 == nil {
		hops1, infs1, cons1 = []int{}, []int{}, []int{}
	}
	return vt.M{"ev": "tri", "s": seg[:], "ni": ni, "nh": nh, "cells": cells, "rr": rr, "rd": rd, "r2": r2,
		"agree": agree, "restored": restored, "tdr": tdr, "hops1": hops1, "infs1": infs1,
		"cons0": cons0, "cons1": cons1, "gh": gh, "ghd": ghd, "gi": gi, "gid": gid, "sh": sh, "si": si,
		"r2all": r2all, "restoredall": restoredAll, "pastinc": pastInc, "incrawdiff": incRawDiff, "ooberr": oobErr, "oobchanged": oobChanged, "panics": g.panics, "pop": g.first}
}

func emptyPath(rng *rand.Rand) vt.M {
	// the all-zero triple is accepted as the empty path: nothing to tabulate, but nothing may panic
	var g guard
	errs := 0
	for p := 0; p < 256; p++ {
		buf := make([]byte, 64)
		binary.BigEndian.PutUint32(buf, line(p>>6, p&63, 0, 0, 0, rng.Intn(64)))
		r := &scion.Raw{}
		if err := r.DecodeFromBytes(buf); err != nil {
			continue
		}
		g.run("flags(empty)", func() {
			r.CurrINFMatchesCurrHF()
			r.IsXover()
			r.IsFirstHopAfterXover()
			r.IsFirstHop()
			r.IsLastHop()
			r.IsPenultimateHop()
		})
		g.run("IncPath(empty)", func() {
			if r.IncPath() != nil {
				errs++
			}
		})
		g.run("Reverse(empty)", func() {
			if _, err := r.Reverse(); err != nil {
				errs++
			}
		})
	}
	return vt.M{"ev": "empty", "errs": errs, "panics": g.panics, "pop": g.first}
}

// ---------------------------------------------------------------------------------- main

func parseTotals(s string) map[int]bool {
	out := map[int]bool{}
	for _, part := range strings.Split(s, ",") {
		if part == "" {
			continue
		}
		lo, hi, ok := strings.Cut(part, "-")
		a, err := strconv.Atoi(lo)
		if err != nil {
			vt.Fatal("bad -totals %q", s)
		}
		b := a
		if ok {
			if b, err = strconv.Atoi(hi); err != nil {
				vt.Fatal("bad -totals %q", s)
			}
		}
		for i := a; i <= b; i++ {
			out[i] = true
		}
	}
	return out
}

func main() {
	out := flag.String("out", "pathmeta", "output prefix: <out>.<shard>.ndjson")
	shards := flag.Int("shards", 1, "number of output files")
	totals := flag.String("totals", "1-64", "totals (s0+s1+s2) whose accepted triples are tabulated completely")
	sample := flag.Int("sample", 0, "additionally tabulate this many seeded accepted triples outside -totals")
	ptrStride := flag.Int("ptrstride", 1, "acceptance: every n-th of the 256 pointer pairs per triple (1 = all 2^26 headers)")
	decStride := flag.Int("decstride", 16, "Decoded.DecodeFromBytes is run on every n-th enumerated pointer pair")
	workers := flag.Int("workers", 4, "goroutines")
	thin := flag.Int("thin", 1, "of the -totals triples with more than 32 hops keep every n-th (seeded offset)")
	only := flag.String("only", "", "replay: tabulate only this triple a,b,c")
	flag.Parse()

	ws := make([]*vt.Writer, *shards)
	for i := range ws {
		ws[i] = vt.NewWriter(fmt.Sprintf("%s.%d.ndjson", *out, i))
	}
	nrec := 0
	emit := func(m vt.M) {
		ws[nrec%len(ws)].Emit(m)
		nrec++
	}
	if *only != "" {
		var a, b, c int
		if _, err := fmt.Sscanf(*only, "%d,%d,%d", &a, &b, &c); err != nil {
			vt.Fatal("bad -only")
		}
		if m := triple(a, b, c, vt.Rand(int64(a*4096+b*64+c))); m != nil {
			emit(m)
		}
		r := acceptance(a, b, vt.Rand(int64(1<<20+a*64+b)), 1, 1)
		emit(accRec(a, b, r))
		for _, w := range ws {
			w.Close()
		}
		return
	}

	// 1. acceptance over all 2^26 projections
	rows := make([]*accRow, 4096)
	par(*workers, 4096, func(i int) {
		rows[i] = acceptance(i>>6, i&63, vt.Rand(int64(1<<20+i)), *ptrStride, *decStride)
	})
	for i, r := range rows {
		emit(accRec(i>>6, i&63, r))
	}
	emit(emptyPath(vt.Rand(7)))

	// 2. tables for the chosen accepted triples (acceptance as observed from the real decoder)
	tot := parseTotals(*totals)
	var chosen, rest [][3]int
	for i, r := range rows {
		for c := 0; c < 64; c++ {
			if r.raw[c] == 0 || (i>>6)+(i&63)+c == 0 {
				continue
			}
			t := [3]int{i >> 6, i & 63, c}
			if tot[t[0]+t[1]+t[2]] && (t[0]+t[1]+t[2] <= 32 || (t[0]*64+t[1]+int(vt.Seed()))%*thin == 0) {
				chosen = append(chosen, t)
			} else {
				rest = append(rest, t)
			}
		}
	}
	rng := vt.Rand(19)
	rng.Shuffle(len(rest), func(i, j int) { rest[i], rest[j] = rest[j], rest[i] })
	if *sample < len(rest) {
		rest = rest[:*sample]
	}
	chosen = append(chosen, rest...)
	sort.Slice(chosen, func(i, j int) bool {
		a, b := chosen[i], chosen[j]
		return a[0]*4096+a[1]*64+a[2] < b[0]*4096+b[1]*64+b[2]
	})
	recs := make([]vt.M, len(chosen))
	par(*workers, len(chosen), func(i int) {
		t := chosen[i]
		recs[i] = triple(t[0], t[1], t[2], vt.Rand(int64(t[0]*4096+t[1]*64+t[2])))
	})
	ncells := 0
	for _, m := range recs {
		if m != nil {
			emit(m)
			ncells += m["nh"].(int) * m["ni"].(int)
		}
	}
	for _, w := range ws {
		w.Close()
	}
	fmt.Printf("records=%d triples=%d cells=%d\n", nrec, len(chosen), ncells)
}

func accRec(a, b int, r *accRow) vt.M {
	return vt.M{"ev": "acc", "a": a, "b": b, "tried": r.tried, "triedDec": r.triedDec, "raw": r.raw[:], "dec": r.dec[:],
		"ni": r.ni[:], "nh": r.nh[:], "fieldMismatch": r.fieldMismatch, "serMismatch": r.serMismatch,
		"shapeMixed": r.shapeMixed, "panics": r.panics, "pop": r.pop}
}

func par(workers, n int, f func(i int)) {
	var wg sync.WaitGroup
	ch := make(chan int, 64)
	for w := 0; w < workers; w++ {
		wg.Add(1)
		go func() {
			defer wg.Done()
			for i := range ch {
				f(i)
			}
		}()
	}
	for i := 0; i < n; i++ {
		ch <- i
	}
	close(ch)
	wg.Wait()
}
