// Driver for C25: feeds beacon cases (TLC-generated table from -scn, plus seeded random ones) to the
// REAL control/beaconing.Handler backed by the real control/beacon.Store / CoreStore on the real
// sqlite beacon DB (in memory), then runs the REAL control/beaconing.Propagator with a recording
// sender factory. Logs, per case, whether the database holds the beacon before / after the call and
// with which usage, and every (egress interface, beacon) pair handed to a sender.
// Signatures are real ECDSA signatures; "bad" entries are signed with a different key.
// The driver never judges.
package main

import (
	"bufio"
	"context"
	"encoding/json"
	"flag"
	"fmt"
	"math/rand"
	"net"
	"net/netip"
	"os"
	"sort"
	"sync"
	"time"

	"github.com/scionproto/scion/control/beacon"
	"github.com/scionproto/scion/control/beaconing"
	"github.com/scionproto/scion/control/ifstate"
	"github.com/scionproto/scion/control/segreg"
	"github.com/scionproto/scion/pkg/addr"
	"github.com/scionproto/scion/pkg/private/ptr"
	"github.com/scionproto/scion/pkg/scrypto/cppki"
	seg "github.com/scionproto/scion/pkg/segment"
	"github.com/scionproto/scion/pkg/snet"
	"github.com/scionproto/scion/pkg/snet/path"
	"github.com/scionproto/scion/private/segment/seghandler"
	infra "github.com/scionproto/scion/private/segment/verifier"
	storagebeacon "github.com/scionproto/scion/private/storage/beacon"
	beaconsqlite "github.com/scionproto/scion/private/storage/beacon/sqlite"
	"github.com/scionproto/scion/private/storage/db"
	"github.com/scionproto/scion/private/topology"

	"verifharness/internal/segpool"
	"verifharness/internal/vt"
)

type polCfg struct {
	U        int   `json:"u"`
	Max      int   `json:"max"`
	AsBlack  []int `json:"asBlack"`
	IsdBlack []int `json:"isdBlack"`
	IsdLoop  bool  `json:"isdLoop"`
}

type ifCfg struct {
	ID  int `json:"id"`
	Nbr int `json:"nbr"`
	LT  int `json:"lt"`
}

type cfg struct {
	Local    int      `json:"local"`
	Core     bool     `json:"core"`
	Ifs      []ifCfg  `json:"ifs"`
	PIsdLoop bool     `json:"pIsdLoop"`
	Pols     []polCfg `json:"pols"`
}

type bcase struct {
	Cfg  int   `json:"cfg"`
	Hops []int `json:"hops"`
	Next int   `json:"next"`
	Bad  []int `json:"bad"`
	InIf int   `json:"inIf"`
}

// verifier: real signature verification with the pool's public key
type verifier struct{ segpool.Verifier }

func (v verifier) WithServer(net.Addr) infra.Verifier        { return v }
func (v verifier) WithIA(addr.IA) infra.Verifier             { return v }
func (v verifier) WithValidity(cppki.Validity) infra.Verifier { return v }

// recording sender factory / no-op extender
type sendRec struct {
	eg int
	s  *seg.PathSegment
}

type factory struct {
	mu    sync.Mutex
	sends []sendRec
}

type sender struct {
	f  *factory
	eg int
}

func (f *factory) NewSender(ctx context.Context, dst addr.IA, egress uint16,
	nexthop *net.UDPAddr) (beaconing.Sender, error) {
	return &sender{f: f, eg: int(egress)}, nil
}

func (s *sender) Send(ctx context.Context, b *seg.PathSegment) error {
	s.f.mu.Lock()
	defer s.f.mu.Unlock()
	s.f.sends = append(s.f.sends, sendRec{eg: s.eg, s: b})
	return nil
}
func (s *sender) Close() error { return nil }

type noExtender struct{}

func (noExtender) Extend(ctx context.Context, s *seg.PathSegment, in, eg uint16, peers []uint16) error {
	return nil
}

func filterOf(p polCfg) beacon.Filter {
	f := beacon.Filter{MaxHopsLength: p.Max, AllowIsdLoop: ptr.To(p.IsdLoop)}
	for _, a := range p.AsBlack {
		f.AsBlackList = append(f.AsBlackList, segpool.IA(10+a).AS())
	}
	for _, i := range p.IsdBlack {
		f.IsdBlackList = append(f.IsdBlackList, addr.ISD(i))
	}
	return f
}

func policy(c cfg, u int) beacon.Policy {
	for _, p := range c.Pols {
		if p.U == u {
			return beacon.Policy{BestSetSize: 100000, CandidateSetSize: 100000, Filter: filterOf(p)}
		}
	}
	vt.Fatal("configuration lacks policy for usage %d", u)
	return beacon.Policy{}
}

var dbSeq int

// one trace: a fresh store, the cases, a dump, one propagation run
func runTrace(w *vt.Writer, c cfg, cases []bcase, id int, src string) {
	ctx := context.Background()
	dbSeq++
	bdb, err := beaconsqlite.New(fmt.Sprintf("verif_bstore_%d_%d", os.Getpid(), dbSeq),
		segpool.IA(c.Local), &db.SqliteConfig{InMemory: true})
	if err != nil {
		vt.Fatal("open db: %v", err)
	}
	defer bdb.Close()
	var inserter beaconing.BeaconInserter
	var provider beaconing.BeaconProvider
	var segProvider beaconing.SegmentProvider
	if c.Core {
		st, err := beacon.NewCoreBeaconStore(beacon.CorePolicies{Prop: policy(c, 8), CoreReg: policy(c, 4)}, bdb)
		if err != nil {
			vt.Fatal("core store: %v", err)
		}
		inserter, provider, segProvider = st, st, st
	} else {
		st, err := beacon.NewBeaconStore(beacon.Policies{Prop: policy(c, 8), UpReg: policy(c, 1),
			DownReg: policy(c, 2)}, bdb)
		if err != nil {
			vt.Fatal("store: %v", err)
		}
		inserter, provider, segProvider = st, st, st
	}
	infos := map[uint16]ifstate.InterfaceInfo{}
	for _, i := range c.Ifs {
		infos[uint16(i.ID)] = ifstate.InterfaceInfo{ID: uint16(i.ID), IA: segpool.IA(i.Nbr),
			LinkType: topology.LinkType(i.LT), InternalAddr: netip.MustParseAddrPort("127.0.0.1:30042"),
			RemoteID: uint16(100 + i.ID), MTU: 1400}
	}
	intfs := ifstate.NewInterfaces(infos, ifstate.Config{})
	h := beaconing.Handler{LocalIA: segpool.IA(c.Local), Inserter: inserter, Verifier: verifier{},
		Interfaces: intfs}
	w.Emit(vt.M{"ev": "reset", "id": id, "src": src, "cfg": c})

	serialOf := map[string]int{}
	hopsOf := map[int][]int{}
	lookup := func(id []byte) (bool, []int, int) {
		res, err := bdb.GetBeacons(ctx, &storagebeacon.QueryParams{SegIDs: [][]byte{id}})
		if err != nil {
			vt.Fatal("GetBeacons: %v", err)
		}
		if len(res) == 0 {
			return false, []int{}, 0
		}
		bits := []int{}
		for b := 1; b <= 8; b <<= 1 {
			if int(res[0].Usage)&b != 0 {
				bits = append(bits, b)
			}
		}
		return true, bits, int(res[0].Beacon.InIfID)
	}
	for k, bc := range cases {
		serial := k + 1
		d := segpool.Desc{TS: 0, SV: 1, TTL: 2, Next: bc.Next, Bad: bc.Bad, Peers: [][2]int{}}
		for j, ia := range bc.Hops {
			hp := segpool.Hop{IA: ia, In: 100 + j, Eg: 200 + j}
			if j == 0 {
				hp.In, hp.Eg = 0, serial // unique segment id per case
			}
			d.Hops = append(d.Hops, hp)
		}
		ps := segpool.Build(&d)
		serialOf[string(ps.ID())] = serial
		hopsOf[serial] = bc.Hops
		before, _, _ := lookup(ps.ID())
		peer := &snet.UDPAddr{IA: segpool.IA(bc.Hops[len(bc.Hops)-1]), Path: path.Empty{},
			Host: &net.UDPAddr{IP: net.IPv4(127, 0, 0, 2), Port: 30252}}
		ev := vt.M{"ev": "handle", "k": serial, "hops": bc.Hops, "next": bc.Next, "bad": nonNil(bc.Bad),
			"inIf": bc.InIf, "before": before}
		func() {
			defer func() {
				if r := recover(); r != nil {
					w.Emit(vt.M{"ev": "panic", "k": serial, "what": fmt.Sprint(r)})
				}
			}()
			err := h.HandleBeacon(ctx, beacon.Beacon{Segment: ps, InIfID: uint16(bc.InIf)}, peer)
			ev["err"] = 0
			if err != nil {
				ev["err"] = 1
			}
		}()
		if _, ok := ev["err"]; !ok {
			ev["err"] = 2
		}
		after, usage, sinIf := lookup(ps.ID())
		ev["after"], ev["usage"], ev["sinIf"] = after, usage, sinIf
		w.Emit(ev)
	}
	// everything the database holds
	all, err := bdb.GetBeacons(ctx, nil)
	if err != nil {
		vt.Fatal("GetBeacons: %v", err)
	}
	ks := []int{}
	for _, b := range all {
		ks = append(ks, serialOf[string(b.Beacon.Segment.ID())])
	}
	sort.Ints(ks)
	w.Emit(vt.M{"ev": "dump", "ks": ks})

	// one propagation run over the propagation interfaces (child links / core links as in cmd/control)
	f := &factory{}
	want := topology.Child
	if c.Core {
		want = topology.Core
	}
	p := beaconing.Propagator{
		Extender:      noExtender{},
		SenderFactory: f,
		Provider:      provider,
		IA:            segpool.IA(c.Local),
		AllInterfaces: intfs,
		PropagationInterfaces: func() []*ifstate.Interface {
			return intfs.Filtered(func(i *ifstate.Interface) bool { return i.TopoInfo().LinkType == want })
		},
		AllowIsdLoop: c.PIsdLoop,
		Tick:         beaconing.NewTick(time.Hour),
	}
	func() {
		defer func() {
			if r := recover(); r != nil {
				w.Emit(vt.M{"ev": "panic", "k": 0, "what": fmt.Sprint(r)})
			}
		}()
		p.Run(ctx)
	}()
	sends := []vt.M{}
	f.mu.Lock()
	sort.Slice(f.sends, func(i, j int) bool {
		if f.sends[i].eg != f.sends[j].eg {
			return f.sends[i].eg < f.sends[j].eg
		}
		return serialOf[string(f.sends[i].s.ID())] < serialOf[string(f.sends[j].s.ID())]
	})
	for _, s := range f.sends {
		k := serialOf[string(s.s.ID())]
		hops := hopsOf[k]
		if hops == nil {
			hops = []int{}
		}
		sends = append(sends, vt.M{"eg": s.eg, "k": k, "hops": hops})
	}
	f.mu.Unlock()
	w.Emit(vt.M{"ev": "prop", "sends": sends})

	// registration side: one WriteScheduler.Run per segment type through the real GroupWriter and
	// LocalWriter; the recording segment store sees what would be registered
	for _, t := range []seg.Type{seg.TypeUp, seg.TypeDown, seg.TypeCore} {
		pt := map[seg.Type]beacon.RegPolicyType{seg.TypeUp: beacon.RegPolicyTypeUp,
			seg.TypeDown: beacon.RegPolicyTypeDown, seg.TypeCore: beacon.RegPolicyTypeCore}[t]
		rec := &recStore{}
		lw, err := (&beaconing.LocalSegmentRegistrationPlugin{Store: rec}).New(ctx, pt, nil)
		if err != nil {
			vt.Fatal("local writer: %v", err)
		}
		regs := segreg.SegmentRegistrars{}
		if err := regs.RegisterDefaultSegmentRegistrar(pt, lw); err != nil {
			vt.Fatal("registrar: %v", err)
		}
		ws := &beaconing.WriteScheduler{
			Provider: segProvider,
			Intfs:    intfs,
			Type:     t,
			Writer: &beaconing.GroupWriter{PolicyType: pt, Registrars: regs, Intfs: intfs,
				Extender: noExtender{}},
			Tick: beaconing.NewTick(time.Hour),
		}
		func() {
			defer func() {
				if r := recover(); r != nil {
					w.Emit(vt.M{"ev": "panic", "k": 0, "what": fmt.Sprint(r)})
				}
			}()
			ws.Run(ctx)
		}()
		segs := []vt.M{}
		for _, m := range rec.metas {
			segs = append(segs, vt.M{"k": serialOf[string(m.Segment.ID())], "type": int(m.Type)})
		}
		sort.Slice(segs, func(i, j int) bool { return segs[i]["k"].(int) < segs[j]["k"].(int) })
		w.Emit(vt.M{"ev": "regrun", "type": int(t), "segs": segs})
	}
}

// recStore records what the LocalWriter hands to the segment store.
type recStore struct {
	mu    sync.Mutex
	metas []*seg.Meta
}

func (s *recStore) StoreSegs(ctx context.Context, metas []*seg.Meta) (seghandler.SegStats, error) {
	s.mu.Lock()
	defer s.mu.Unlock()
	s.metas = append(s.metas, metas...)
	return seghandler.SegStats{}, nil
}

func nonNil(x []int) []int {
	if x == nil {
		return []int{}
	}
	return x
}

// seeded random configurations and beacons (longer beacons, more ASes, random block lists)
func randomCfg(r *rand.Rand) cfg {
	ias := []int{11, 12, 14, 15, 21, 22, 23, 31}
	c := cfg{Local: 13, Core: r.Intn(2) == 0, PIsdLoop: r.Intn(2) == 0}
	n := 4 + r.Intn(5)
	for i := 1; i <= n; i++ {
		c.Ifs = append(c.Ifs, ifCfg{ID: i, Nbr: ias[r.Intn(len(ias))], LT: r.Intn(5)})
	}
	us := []int{8, 1, 2}
	if c.Core {
		us = []int{8, 4}
	}
	for _, u := range us {
		p := polCfg{U: u, Max: 1 + r.Intn(6), IsdLoop: r.Intn(2) == 0, AsBlack: []int{}, IsdBlack: []int{}}
		if r.Intn(3) == 0 {
			p.AsBlack = append(p.AsBlack, 1+r.Intn(5))
		}
		if r.Intn(4) == 0 {
			p.IsdBlack = append(p.IsdBlack, 1+r.Intn(3))
		}
		c.Pols = append(c.Pols, p)
	}
	return c
}

func randomCase(r *rand.Rand, c cfg) bcase {
	ias := []int{11, 12, 13, 14, 15, 21, 22, 23, 31}
	n := 1 + r.Intn(6)
	b := bcase{Next: c.Local, Bad: []int{}}
	for i := 0; i < n; i++ {
		ia := ias[r.Intn(len(ias))]
		if r.Intn(3) > 0 {
			// mostly loop-free beacons, otherwise nothing is ever accepted
			for tries := 0; tries < 5; tries++ {
				dup := false
				for _, h := range b.Hops {
					dup = dup || h == ia
				}
				if !dup {
					break
				}
				ia = ias[r.Intn(len(ias))]
			}
		}
		b.Hops = append(b.Hops, ia)
	}
	it := c.Ifs[r.Intn(len(c.Ifs))]
	b.InIf = it.ID
	if r.Intn(4) > 0 {
		b.Hops[n-1] = it.Nbr // arrives from the interface's neighbour
	}
	switch r.Intn(12) {
	case 0:
		b.Next = ias[r.Intn(len(ias))]
	case 1:
		b.Bad = []int{1 + r.Intn(n)}
	case 2:
		b.InIf = 99
	}
	return b
}

func main() {
	out := flag.String("out", "trace.ndjson", "output trace")
	scn := flag.String("scn", "", "scenario file (TLC-generated cases)")
	nrand := flag.Int("n", 20, "number of seeded random traces")
	per := flag.Int("per", 400, "cases per trace (one store)")
	flag.Parse()
	w := vt.NewWriter(*out)
	ntr, ncases := 0, 0
	if *scn != "" {
		f, err := os.Open(*scn)
		if err != nil {
			vt.Fatal("open %s: %v", *scn, err)
		}
		sc := bufio.NewScanner(f)
		sc.Buffer(make([]byte, 1<<20), 1<<26)
		var cfgs []cfg
		byCfg := map[int][]bcase{}
		for sc.Scan() {
			var rec struct {
				Cfgs []cfg `json:"cfgs"`
				bcase
			}
			if err := json.Unmarshal(sc.Bytes(), &rec); err != nil {
				vt.Fatal("scenario: %v", err)
			}
			if rec.Cfgs != nil {
				cfgs = rec.Cfgs
				continue
			}
			byCfg[rec.Cfg] = append(byCfg[rec.Cfg], rec.bcase)
		}
		f.Close()
		for ci := 1; ci <= len(cfgs); ci++ {
			cases := byCfg[ci]
			for a := 0; a < len(cases); a += *per {
				b := a + *per
				if b > len(cases) {
					b = len(cases)
				}
				ntr++
				runTrace(w, cfgs[ci-1], cases[a:b], ntr, "tlc")
				ncases += b - a
			}
		}
	}
	r := vt.Rand(2501)
	for i := 0; i < *nrand; i++ {
		c := randomCfg(r)
		cases := []bcase{}
		for k := 0; k < 50+r.Intn(*per); k++ {
			cases = append(cases, randomCase(r, c))
		}
		ntr++
		runTrace(w, c, cases, ntr, "rand")
		ncases += len(cases)
	}
	w.Close()
	fmt.Printf("traces=%d cases=%d events=%d\n", ntr, ncases, w.N)
}
