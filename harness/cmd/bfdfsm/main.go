// Driver for C16: runs the real router/bfd code and records what it did, as reset-delimited ndjson
// traces for BFDTrace.tla. It never judges.
//
//	kind=table    the real transition function on every (state, event) pair
//	kind=session  one real Session fed a history of control packets through ReceiveMessage (complete
//	              enumeration of short histories + seeded long ones); the verif hook in Session.Run
//	              records every step (recv / timer / send) after it was applied
//	kind=pair     two real Sessions wired through a seeded lossy / delaying / injecting in-memory link;
//	              after the chaos stops the link is lossless and the driver records whether the
//	              sessions came Up
//
// Discriminators are logged abstractly: 0 = zero, 1 = the session's own, 2 = its peer's, 3 = other.
package main

import (
	"context"
	"flag"
	"fmt"
	"math/rand"
	"sync"
	"time"

	"github.com/gopacket/gopacket/layers"

	"github.com/scionproto/scion/router/bfd"

	"verifharness/internal/vt"
)

const (
	discOther = 0x3333
	never     = 4_000_000_000 // microseconds: a detection time that never expires during a run
)

// ---------------------------------------------------------------------------------- per-session log

type sessLog struct {
	mu        sync.Mutex
	evs       []vt.M
	own, peer uint32
	lastLocal int
	nrecv     int
	ntimer    int
	cond      *sync.Cond
}

func newLog(own, peer uint32) *sessLog {
	l := &sessLog{own: own, peer: peer, lastLocal: 1}
	l.cond = sync.NewCond(&l.mu)
	return l
}

func (l *sessLog) abs(d uint32) int {
	switch d {
	case 0:
		return 0
	case l.own:
		return 1
	case l.peer:
		return 2
	}
	return 3
}

var logs sync.Map // *bfd.Session -> *sessLog

func tracer(s *bfd.Session, ev bfd.VerifEvent) {
	v, ok := logs.Load(s)
	if !ok {
		return
	}
	l := v.(*sessLog)
	l.mu.Lock()
	defer l.mu.Unlock()
	switch ev.Kind {
	case "recv":
		l.evs = append(l.evs, vt.M{"ev": "recv", "state": ev.MsgState, "my": l.abs(ev.MsgMyDisc),
			"your": l.abs(ev.MsgYourDisc), "local": ev.Local, "remote": ev.Remote, "rdisc": l.abs(ev.RemoteDisc)})
		l.nrecv++
	case "timer":
		l.evs = append(l.evs, vt.M{"ev": "timer", "local": ev.Local, "remote": ev.Remote, "rdisc": l.abs(ev.RemoteDisc)})
		l.ntimer++
	case "send":
		l.evs = append(l.evs, vt.M{"ev": "send", "state": ev.MsgState, "my": l.abs(ev.MsgMyDisc),
			"your": l.abs(ev.MsgYourDisc), "local": ev.Local, "rdisc": l.abs(ev.RemoteDisc)})
	}
	l.lastLocal = ev.Local
	l.cond.Broadcast()
}

// waitFor blocks until pred holds (evaluated under the log mutex) or the timeout passes.
func (l *sessLog) waitFor(pred func() bool, d time.Duration) bool {
	deadline := time.Now().Add(d)
	stop := time.AfterFunc(d, func() { l.mu.Lock(); l.cond.Broadcast(); l.mu.Unlock() })
	defer stop.Stop()
	l.mu.Lock()
	defer l.mu.Unlock()
	for !pred() {
		if time.Now().After(deadline) {
			return false
		}
		l.cond.Wait()
	}
	return true
}

// logPkt records a packet about to be given to ReceiveMessage together with the real admission
// decision; must be called with l.mu held by the caller's critical section helper below.
func pktRecord(l *sessLog, p *layers.BFD) vt.M {
	return vt.M{"ev": "pkt", "ver": int(p.Version), "mult": int(p.DetectMultiplier), "multipoint": p.Multipoint,
		"my": l.abs(uint32(p.MyDiscriminator)), "your": l.abs(uint32(p.YourDiscriminator)), "state": int(p.State),
		"auth": p.AuthPresent, "poll": p.Poll, "final": p.Final, "echo": p.RequiredMinEchoRxInterval != 0,
		"demand": p.Demand, "discard": bfd.VerifShouldDiscard(p)}
}

type nullSender struct{}

func (nullSender) Send(*layers.BFD) error { return nil }

// ---------------------------------------------------------------------------------- table

func table(w *vt.Writer) {
	w.Emit(vt.M{"ev": "reset", "kind": "table", "id": 0})
	for st := 0; st <= 4; st++ {
		for e := 0; e <= 6; e++ {
			next, panicked := -1, false
			func() {
				defer func() {
					if recover() != nil {
						panicked = true
					}
				}()
				next = bfd.VerifTransition(st, e)
			}()
			w.Emit(vt.M{"ev": "tr", "st": st, "e": e, "next": next, "panic": panicked})
		}
	}
}

// ---------------------------------------------------------------------------------- single session

// sym is one step of a history.
type sym struct {
	state      int
	your       int // abstract: 0 or 1 (own) or 3
	my         int // abstract: 2 (peer), 0, 3
	mult       int
	ver        int
	multipoint bool
	poll       bool
	expire     bool // short detection time, then wait for the expiry
}

func alphabet() []sym {
	var a []sym
	for st := 0; st <= 3; st++ {
		a = append(a, sym{state: st, your: 1, my: 2, mult: 3, ver: 1})
		a = append(a, sym{state: st, your: 0, my: 2, mult: 3, ver: 1})
		a = append(a, sym{state: st, your: 1, my: 2, mult: 1, ver: 1, expire: true})
	}
	a = append(a, sym{state: 3, your: 1, my: 0, mult: 3, ver: 1})                   // My Discriminator zero
	a = append(a, sym{state: 1, your: 1, my: 2, mult: 0, ver: 1})                   // Detect Mult zero
	a = append(a, sym{state: 2, your: 1, my: 2, mult: 3, ver: 1, multipoint: true}) // Multipoint
	a = append(a, sym{state: 3, your: 1, my: 2, mult: 3, ver: 0})                   // bad version
	a = append(a, sym{state: 1, your: 1, my: 2, mult: 3, ver: 1, poll: true})       // unsupported feature
	return a
}

func concrete(abs int, own, peer uint32) layers.BFDDiscriminator {
	switch abs {
	case 0:
		return 0
	case 1:
		return layers.BFDDiscriminator(own)
	case 2:
		return layers.BFDDiscriminator(peer)
	}
	return discOther
}

func runHistory(id int, h []sym) []vt.M {
	const own, peer = 0x1111, 0x2222
	l := newLog(own, peer)
	s := &bfd.Session{Sender: nullSender{}, LocalDiscriminator: own, DetectMult: 3,
		DesiredMinTxInterval: 3 * time.Millisecond, RequiredMinRxInterval: 2 * time.Millisecond}
	logs.Store(s, l)
	defer logs.Delete(s)
	done := make(chan error, 1)
	go func() { done <- s.Run(context.Background()) }()
	for _, x := range h {
		p := &layers.BFD{Version: layers.BFDVersion(x.ver), State: layers.BFDState(x.state),
			DetectMultiplier: layers.BFDDetectMultiplier(x.mult), Multipoint: x.multipoint, Poll: x.poll,
			MyDiscriminator: concrete(x.my, own, peer), YourDiscriminator: concrete(x.your, own, peer),
			DesiredMinTxInterval: never, RequiredMinRxInterval: 1000}
		if x.expire {
			p.DesiredMinTxInterval = 1000 // detection time = 1 x max(2 ms, 1 ms)
		}
		l.mu.Lock()
		rec := pktRecord(l, p)
		l.evs = append(l.evs, rec)
		want := l.nrecv + 1
		timers := l.ntimer
		l.mu.Unlock()
		s.ReceiveMessage(p)
		if rec["discard"].(bool) {
			continue
		}
		if !l.waitFor(func() bool { return l.nrecv >= want }, 20*time.Second) {
			l.mu.Lock()
			l.evs = append(l.evs, vt.M{"ev": "stuck", "what": "accepted-packet-not-processed"})
			l.mu.Unlock()
			break
		}
		if x.expire {
			// nothing is sent to the session until its detection time (2 ms) has expired; the margin is 10 s
			if !l.waitFor(func() bool { return l.ntimer > timers }, 10*time.Second) {
				l.mu.Lock()
				l.evs = append(l.evs, vt.M{"ev": "notimer"})
				l.mu.Unlock()
			}
		}
	}
	_ = s.Close()
	<-done
	l.mu.Lock()
	defer l.mu.Unlock()
	out := []vt.M{{"ev": "reset", "kind": "session", "id": id}}
	return append(out, l.evs...)
}

// ---------------------------------------------------------------------------------- pair

type link struct {
	ch   chan *layers.BFD
	dst  *bfd.Session
	dlog *sessLog
	rng  *rand.Rand
	mu   sync.Mutex
	mode int // 0 chaos, 1 quiet (lossless), 2 stopped
	wg   sync.WaitGroup
	loss float64
	// scenario knobs
	injectAdminDown bool
}

func (k *link) Send(p *layers.BFD) error {
	c := *p
	select {
	case k.ch <- &c:
	default: // queue overflow = loss
	}
	return nil
}

func (k *link) deliver(p *layers.BFD) {
	k.dlog.mu.Lock()
	k.dlog.evs = append(k.dlog.evs, pktRecord(k.dlog, p))
	k.dlog.mu.Unlock()
	k.dst.ReceiveMessage(p)
}

func (k *link) run() {
	defer k.wg.Done()
	var held []*layers.BFD
	for p := range k.ch {
		k.mu.Lock()
		mode := k.mode
		k.mu.Unlock()
		if mode == 2 {
			return
		}
		if mode == 1 {
			held = nil // stale packets are not delivered once the link is declared healthy
			k.deliver(p)
			continue
		}
		r := k.rng.Float64()
		switch {
		case r < k.loss: // lost
		case r < k.loss+0.10: // delayed: delivered after some later packet (reordering)
			held = append(held, p)
		case r < k.loss+0.20: // an arbitrary control packet arrives instead / in addition
			st := k.rng.Intn(4)
			if st == 0 && !k.injectAdminDown {
				st = 1
			}
			inj := &layers.BFD{Version: 1, State: layers.BFDState(st), DetectMultiplier: layers.BFDDetectMultiplier(1 + k.rng.Intn(5)),
				MyDiscriminator:      []layers.BFDDiscriminator{p.MyDiscriminator, discOther, 0}[k.rng.Intn(3)],
				YourDiscriminator:    []layers.BFDDiscriminator{p.YourDiscriminator, 0, discOther}[k.rng.Intn(3)],
				DesiredMinTxInterval: p.DesiredMinTxInterval, RequiredMinRxInterval: p.RequiredMinRxInterval}
			k.deliver(inj)
			if k.rng.Intn(2) == 0 {
				k.deliver(p)
			}
		default:
			k.deliver(p)
			if len(held) > 0 && k.rng.Intn(2) == 0 {
				k.deliver(held[0])
				held = held[1:]
			}
		}
	}
}

func runPair(id int, rng *rand.Rand, chaos time.Duration) [][]vt.M {
	const da, db = 0xaaaa, 0xbbbb
	la, lb := newLog(da, db), newLog(db, da)
	mk := func(d uint32) *bfd.Session {
		// detection time 8 x 50 ms = 400 ms: scheduling stalls on a loaded machine do not expire it
		return &bfd.Session{LocalDiscriminator: layers.BFDDiscriminator(d), DetectMult: 8, ReceiveQueueSize: 10,
			DesiredMinTxInterval: 50 * time.Millisecond, RequiredMinRxInterval: 50 * time.Millisecond}
	}
	a, b := mk(da), mk(db)
	admin := rng.Intn(2) == 0
	loss := []float64{0.1, 0.3, 0.6, 0.9}[rng.Intn(4)]
	ab := &link{ch: make(chan *layers.BFD, 64), dst: b, dlog: lb, rng: rand.New(rand.NewSource(rng.Int63())), loss: loss, injectAdminDown: admin}
	ba := &link{ch: make(chan *layers.BFD, 64), dst: a, dlog: la, rng: rand.New(rand.NewSource(rng.Int63())), loss: loss, injectAdminDown: admin}
	a.Sender, b.Sender = ab, ba
	logs.Store(a, la)
	logs.Store(b, lb)
	defer logs.Delete(a)
	defer logs.Delete(b)
	ab.wg.Add(1)
	ba.wg.Add(1)
	go ab.run()
	go ba.run()
	da1, db1 := make(chan error, 1), make(chan error, 1)
	go func() { da1 <- a.Run(context.Background()) }()
	go func() { db1 <- b.Run(context.Background()) }()

	time.Sleep(chaos)
	for _, k := range []*link{ab, ba} {
		k.mu.Lock()
		k.mode = 1
		k.mu.Unlock()
	}
	mark := func(l *sessLog) {
		l.mu.Lock()
		l.evs = append(l.evs, vt.M{"ev": "quiet"})
		l.mu.Unlock()
	}
	mark(la)
	mark(lb)
	// The link is lossless from here on. Wait (up to 30 s; the protocol needs about 2 s because a Down
	// session sends once per second) until the hooks of both sessions have reported Up.
	up := func(l *sessLog) bool { l.mu.Lock(); defer l.mu.Unlock(); return l.lastLocal == 3 }
	deadline := time.Now().Add(30 * time.Second)
	for time.Now().Before(deadline) && !(up(la) && up(lb)) {
		time.Sleep(5 * time.Millisecond)
	}
	settle := func(l *sessLog, s *bfd.Session) {
		l.mu.Lock()
		l.evs = append(l.evs, vt.M{"ev": "settle", "up": l.lastLocal == 3, "local": l.lastLocal, "isup": s.IsUp()})
		l.mu.Unlock()
	}
	settle(la, a)
	settle(lb, b)
	for _, k := range []*link{ab, ba} {
		k.mu.Lock()
		k.mode = 2
		k.mu.Unlock()
	}
	// the forwarders return on the next packet they see (a session sends at least once per second);
	// only then the sessions are closed (ReceiveMessage on a closed session would panic)
	ab.wg.Wait()
	ba.wg.Wait()
	_ = a.Close()
	_ = b.Close()
	<-da1
	<-db1
	dump := func(l *sessLog, sub int) []vt.M {
		l.mu.Lock()
		defer l.mu.Unlock()
		out := []vt.M{{"ev": "reset", "kind": "pair", "id": id*2 + sub}}
		return append(out, l.evs...)
	}
	return [][]vt.M{dump(la, 0), dump(lb, 1)}
}

// ---------------------------------------------------------------------------------- main

func main() {
	out := flag.String("out", "bfd.ndjson", "output trace")
	maxLen := flag.Int("len", 2, "complete enumeration of histories up to this length")
	nrand := flag.Int("rand", 200, "seeded random histories")
	npairs := flag.Int("pairs", 6, "pairs of real sessions over a lossy link")
	chaosMs := flag.Int("chaos", 2500, "duration of the lossy phase of a pair in ms")
	workers := flag.Int("workers", 8, "concurrent histories")
	flag.Parse()
	bfd.VerifTracer = tracer
	w := vt.NewWriter(*out)
	table(w)

	// histories: complete up to maxLen, then seeded long ones
	alpha := alphabet()
	var hs [][]sym
	var gen func(prefix []sym, n int)
	gen = func(prefix []sym, n int) {
		if len(prefix) > 0 {
			hs = append(hs, append([]sym{}, prefix...))
		}
		if n == 0 {
			return
		}
		for _, x := range alpha {
			gen(append(prefix, x), n-1)
		}
	}
	gen(nil, *maxLen)
	rng := vt.Rand(16)
	for i := 0; i < *nrand; i++ {
		n := 5 + rng.Intn(25)
		h := make([]sym, n)
		for j := range h {
			h[j] = alpha[rng.Intn(len(alpha))]
			if h[j].expire && rng.Intn(3) != 0 { // keep most long histories fast
				h[j].expire = false
				h[j].mult = 3
			}
		}
		hs = append(hs, h)
	}
	res := make([][]vt.M, len(hs))
	var wg sync.WaitGroup
	ch := make(chan int)
	for k := 0; k < *workers; k++ {
		wg.Add(1)
		go func() {
			defer wg.Done()
			for i := range ch {
				res[i] = runHistory(i, hs[i])
			}
		}()
	}
	// pairs run concurrently with the histories
	pres := make([][][]vt.M, *npairs)
	var pwg sync.WaitGroup
	prng := vt.Rand(17)
	for i := 0; i < *npairs; i++ {
		pwg.Add(1)
		r := rand.New(rand.NewSource(prng.Int63()))
		go func(i int) {
			defer pwg.Done()
			pres[i] = runPair(i, r, time.Duration(*chaosMs)*time.Millisecond)
		}(i)
	}
	for i := range hs {
		ch <- i
	}
	close(ch)
	wg.Wait()
	pwg.Wait()
	for _, t := range res {
		for _, e := range t {
			w.Emit(e)
		}
	}
	for _, p := range pres {
		for _, t := range p {
			for _, e := range t {
				w.Emit(e)
			}
		}
	}
	w.Close()
	fmt.Printf("histories=%d pairs=%d events=%d\n", len(hs), *npairs, w.N)
}
