// Driver for C16: runs the real router/bfd code and records what it did, as reset-delimited ndjson
// traces for BFDTrace.tla. It never judges.
//
//	kind=table    the real transition function on every (state, event) pair
//	kind=session  one real Session fed a history of control packets through ReceiveMessage (complete
//	              enumeration of short histories + seeded long ones); the verif hook in Session.Run
//	              records every step (recv / timer / send) after it was applied
//	kind=pair     two real Sessions wired through a seeded lossy / delaying / injecting in-memory link;
//	              after the chaos stops the link is lossless and the driver records whether the
//	              sessions came Up
//
// Discriminators are logged abstractly: 0 = zero, 1 = the session's own, 2 = its peer's, 3 = other.
package main

import (
	"context"
	"encoding/json"
	"flag"
	"fmt"
	"math/rand"
	"os"
	"sync"
	"time"

	"github.com/gopacket/gopacket/layers"

	"github.com/scionproto/scion/router/bfd"

	"verifharness/internal/vt"
)

const (
	discOther = 0x3333
	never     = 4_000_000_000 // microseconds: a detection time that never expires during a run
)

// ---------------------------------------------------------------------------------- per-session log

type sessLog struct {
	mu        sync.Mutex
	evs       []vt.M
	own, peer uint32
	lastLocal int
	nrecv     int
	ntimer    int
	lastIn    time.Time // when the last accepted packet was handed to ReceiveMessage (zero = not tracked)
	cond      *sync.Cond
}

func newLog(own, peer uint32) *sessLog {
	l := &sessLog{own: own, peer: peer, lastLocal: 1}
	l.cond = sync.NewCond(&l.mu)
	return l
}

func (l *sessLog) abs(d uint32) int {
	switch d {
	case 0:
		return 0
	case l.own:
		return 1
	case l.peer:
		return 2
	}
	return 3
}

var logs sync.Map // *bfd.Session -> *sessLog

func tracer(s *bfd.Session, ev bfd.VerifEvent) {
	v, ok := logs.Load(s)
	if !ok {
		return
	}
	l := v.(*sessLog)
	l.mu.Lock()
	defer l.mu.Unlock()
	switch ev.Kind {
	case "recv":
		l.evs = append(l.evs, vt.M{"ev": "recv", "state": ev.MsgState, "my": l.abs(ev.MsgMyDisc),
			"your": l.abs(ev.MsgYourDisc), "local": ev.Local, "remote": ev.Remote, "rdisc": l.abs(ev.RemoteDisc)})
		l.nrecv++
	case "timer":
		// el: ms between handing the last accepted packet to ReceiveMessage (taken before the call, i.e.
		// before the detection timer was re-armed) and this expiry; -1 where the driver does not track it
		el := -1
		if !l.lastIn.IsZero() {
			el = int(time.Since(l.lastIn) / time.Millisecond)
		}
		l.evs = append(l.evs, vt.M{"ev": "timer", "local": ev.Local, "remote": ev.Remote, "rdisc": l.abs(ev.RemoteDisc), "el": el})
		l.ntimer++
	case "send":
		l.evs = append(l.evs, vt.M{"ev": "send", "state": ev.MsgState, "my": l.abs(ev.MsgMyDisc),
			"your": l.abs(ev.MsgYourDisc), "local": ev.Local, "rdisc": l.abs(ev.RemoteDisc)})
	}
	l.lastLocal = ev.Local
	l.cond.Broadcast()
}

// waitFor blocks until pred holds (evaluated under the log mutex) or the timeout passes.
func (l *sessLog) waitFor(pred func() bool, d time.Duration) bool {
	deadline := time.Now().Add(d)
	stop := time.AfterFunc(d, func() { l.mu.Lock(); l.cond.Broadcast(); l.mu.Unlock() })
	defer stop.Stop()
	l.mu.Lock()
	defer l.mu.Unlock()
	for !pred() {
		if time.Now().After(deadline) {
			return false
		}
		l.cond.Wait()
	}
	return true
}

// logPkt records a packet about to be given to ReceiveMessage together with the real admission
// decision; must be called with l.mu held by the caller's critical section helper below.
func pktRecord(l *sessLog, p *layers.BFD) vt.M {
	return vt.M{"ev": "pkt", "ver": int(p.Version), "mult": int(p.DetectMultiplier), "multipoint": p.Multipoint,
		"my": l.abs(uint32(p.MyDiscriminator)), "your": l.abs(uint32(p.YourDiscriminator)), "state": int(p.State),
		"dtxms": int(p.DesiredMinTxInterval / 1000), "auth": p.AuthPresent, "poll": p.Poll, "final": p.Final, "echo": p.RequiredMinEchoRxInterval != 0,
		"demand": p.Demand, "discard": bfd.VerifShouldDiscard(p)}
}

type nullSender struct{}

func (nullSender) Send(*layers.BFD) error { return nil }

// ---------------------------------------------------------------------------------- table

func table(w *vt.Writer) {
	w.Emit(vt.M{"ev": "reset", "kind": "table", "id": 0, "rxms": 0, "lmult": 0})
	for st := 0; st <= 4; st++ {
		for e := 0; e <= 6; e++ {
			next, panicked := -1, false
			func() {
				defer func() {
					if recover() != nil {
						panicked = true
					}
				}()
				next = bfd.VerifTransition(st, e)
			}()
			w.Emit(vt.M{"ev": "tr", "st": st, "e": e, "next": next, "panic": panicked})
		}
	}
}

// ---------------------------------------------------------------------------------- single session

// sym is one step of a history.
type sym struct {
	state      int
	your       int // abstract: 0 or 1 (own) or 3
	my         int // abstract: 2 (peer), 0, 3
	mult       int
	ver        int
	multipoint bool
	poll       bool
	expire     bool // short detection time, then wait for the expiry
	dtxms      int  // expire: Desired Min TX Interval of the packet in ms (0 = 1 ms)
	idle       int  // not a packet: the driver sends nothing for this many ms (markers idle-begin / idle-end)
}

// scfg is the configuration of the session under test in a history.
type scfg struct {
	lmult int // local Detect Mult
	rxms  int // local Required Min RX Interval
	txms  int // local Desired Min TX Interval (0 = 3 ms)
}

func alphabet() []sym {
	var a []sym
	for st := 0; st <= 3; st++ {
		a = append(a, sym{state: st, your: 1, my: 2, mult: 3, ver: 1})
		a = append(a, sym{state: st, your: 0, my: 2, mult: 3, ver: 1})
		a = append(a, sym{state: st, your: 1, my: 2, mult: 1, ver: 1, expire: true})
	}
	a = append(a, sym{state: 3, your: 1, my: 0, mult: 3, ver: 1})                   // My Discriminator zero
	a = append(a, sym{state: 1, your: 1, my: 2, mult: 0, ver: 1})                   // Detect Mult zero
	a = append(a, sym{state: 2, your: 1, my: 2, mult: 3, ver: 1, multipoint: true}) // Multipoint
	a = append(a, sym{state: 3, your: 1, my: 2, mult: 3, ver: 0})                   // bad version
	a = append(a, sym{state: 1, your: 1, my: 2, mult: 3, ver: 1, poll: true})       // unsupported feature
	return a
}

func bfdDur(x layers.BFDTimeInterval) time.Duration { return time.Duration(x) * time.Microsecond }

// timed histories: the session is brought Up, then one packet announces a detection time
// (its Detect Mult x max(local Required Min RX, its Desired Min TX)) that differs by a factor >= 2
// from what other combinations of the local and remote parameters would give; then silence.
func timedHistories() (hs [][]sym, cfgs []scfg) {
	up := []sym{{state: 1, your: 0, my: 2, mult: 3, ver: 1}, {state: 3, your: 1, my: 2, mult: 3, ver: 1}}
	add := func(c scfg, last sym) {
		hs = append(hs, append(append([]sym{}, up...), last))
		cfgs = append(cfgs, c)
	}
	// remote mult 3 > local mult 1, 300 ms: 900 ms (a local-mult reading gives 300 ms)
	add(scfg{lmult: 1, rxms: 2}, sym{state: 3, your: 1, my: 2, mult: 3, ver: 1, expire: true, dtxms: 300})
	// remote mult 1 < local mult 3, 3 s: 3 s (a local-mult reading gives 9 s)
	add(scfg{lmult: 3, rxms: 2}, sym{state: 3, your: 1, my: 2, mult: 1, ver: 1, expire: true, dtxms: 3000})
	// the local Required Min RX dominates: 2 x 400 ms (ignoring it gives 2 ms)
	add(scfg{lmult: 5, rxms: 400}, sym{state: 3, your: 1, my: 2, mult: 2, ver: 1, expire: true, dtxms: 1})
	// the remote Desired Min TX dominates: 2 x 250 ms (ignoring it gives 40 ms)
	add(scfg{lmult: 2, rxms: 20}, sym{state: 2, your: 1, my: 2, mult: 2, ver: 1, expire: true, dtxms: 250})
	return
}

// idleHistories: the session is brought to Down / Init / Up and then left alone for 5 s (no packet, no
// expiry: the last packet announces a detection time of hours); RFC 5880 6.8.7: it has to keep
// transmitting periodically in every state (a Down session at least once per second or so).
func idleHistories() (hs [][]sym, cfgs []scfg) {
	down := sym{state: 1, your: 0, my: 2, mult: 3, ver: 1}
	upp := sym{state: 3, your: 1, my: 2, mult: 3, ver: 1}
	idle := sym{idle: 5000}
	hs = [][]sym{{idle}, {down, idle}, {down, upp, idle}, {down, upp, down, idle}}
	for range hs {
		cfgs = append(cfgs, scfg{lmult: 3, rxms: 2, txms: 200})
	}
	return
}

func concrete(abs int, own, peer uint32) layers.BFDDiscriminator {
	switch abs {
	case 0:
		return 0
	case 1:
		return layers.BFDDiscriminator(own)
	case 2:
		return layers.BFDDiscriminator(peer)
	}
	return discOther
}

func runHistory(id int, h []sym, cfg scfg) []vt.M {
	const own, peer = 0x1111, 0x2222
	l := newLog(own, peer)
	if cfg.txms == 0 {
		cfg.txms = 3
	}
	s := &bfd.Session{Sender: nullSender{}, LocalDiscriminator: own, DetectMult: layers.BFDDetectMultiplier(cfg.lmult),
		DesiredMinTxInterval: time.Duration(cfg.txms) * time.Millisecond, RequiredMinRxInterval: time.Duration(cfg.rxms) * time.Millisecond}
	logs.Store(s, l)
	defer logs.Delete(s)
	done := make(chan error, 1)
	go func() { done <- s.Run(context.Background()) }()
	for _, x := range h {
		if x.idle > 0 {
			// the session is left alone: what it sends in the meantime is recorded by the hook
			l.mu.Lock()
			l.evs = append(l.evs, vt.M{"ev": "idle-begin"})
			l.mu.Unlock()
			time.Sleep(time.Duration(x.idle) * time.Millisecond)
			l.mu.Lock()
			l.evs = append(l.evs, vt.M{"ev": "idle-end", "ms": x.idle})
			l.mu.Unlock()
			continue
		}
		p := &layers.BFD{Version: layers.BFDVersion(x.ver), State: layers.BFDState(x.state),
			DetectMultiplier: layers.BFDDetectMultiplier(x.mult), Multipoint: x.multipoint, Poll: x.poll,
			MyDiscriminator: concrete(x.my, own, peer), YourDiscriminator: concrete(x.your, own, peer),
			DesiredMinTxInterval: never, RequiredMinRxInterval: 1000}
		if x.expire {
			p.DesiredMinTxInterval = 1000 // 1 ms: with mult 1 and a local 2 ms the detection time is 2 ms
			if x.dtxms > 0 {
				p.DesiredMinTxInterval = layers.BFDTimeInterval(1000 * x.dtxms)
			}
		}
		l.mu.Lock()
		rec := pktRecord(l, p)
		l.evs = append(l.evs, rec)
		want := l.nrecv + 1
		timers := l.ntimer
		if !rec["discard"].(bool) {
			l.lastIn = time.Now()
		}
		l.mu.Unlock()
		s.ReceiveMessage(p)
		if rec["discard"].(bool) {
			continue
		}
		if !l.waitFor(func() bool { return l.nrecv >= want }, 20*time.Second) {
			l.mu.Lock()
			l.evs = append(l.evs, vt.M{"ev": "stuck", "what": "accepted-packet-not-processed"})
			l.mu.Unlock()
			break
		}
		if x.expire {
			// nothing is sent to the session until its detection time has expired; the driver waits for
			// the detection time announced by the packet plus 10 s
			det := time.Duration(x.mult) * max(time.Duration(cfg.rxms)*time.Millisecond, bfdDur(p.DesiredMinTxInterval))
			if !l.waitFor(func() bool { return l.ntimer > timers }, det+10*time.Second) {
				l.mu.Lock()
				l.evs = append(l.evs, vt.M{"ev": "notimer"})
				l.mu.Unlock()
			}
		}
	}
	_ = s.Close()
	<-done
	l.mu.Lock()
	defer l.mu.Unlock()
	out := []vt.M{{"ev": "reset", "kind": "session", "id": id, "rxms": cfg.rxms, "lmult": cfg.lmult}}
	return append(out, l.evs...)
}

// ---------------------------------------------------------------------------------- pair

type link struct {
	ch   chan *layers.BFD
	dst  *bfd.Session
	dlog *sessLog
	rng  *rand.Rand
	mu   sync.Mutex
	mode int // 0 chaos, 1 quiet (lossless), 2 stopped
	wg   sync.WaitGroup
	loss float64
	// scenario knobs
	injectAdminDown bool
}

func (k *link) Send(p *layers.BFD) error {
	c := *p
	select {
	case k.ch <- &c:
	default: // queue overflow = loss
	}
	return nil
}

func (k *link) deliver(p *layers.BFD) {
	k.dlog.mu.Lock()
	k.dlog.evs = append(k.dlog.evs, pktRecord(k.dlog, p))
	k.dlog.mu.Unlock()
	k.dst.ReceiveMessage(p)
}

func (k *link) run() {
	defer k.wg.Done()
	var held []*layers.BFD
	for p := range k.ch {
		k.mu.Lock()
		mode := k.mode
		k.mu.Unlock()
		if mode == 2 {
			return
		}
		if mode == 1 {
			held = nil // stale packets are not delivered once the link is declared healthy
			k.deliver(p)
			continue
		}
		r := k.rng.Float64()
		switch {
		case r < k.loss: // lost
		case r < k.loss+0.10: // delayed: delivered after some later packet (reordering)
			held = append(held, p)
		case r < k.loss+0.20: // an arbitrary control packet arrives instead / in addition
			st := k.rng.Intn(4)
			if st == 0 && !k.injectAdminDown {
				st = 1
			}
			inj := &layers.BFD{Version: 1, State: layers.BFDState(st), DetectMultiplier: layers.BFDDetectMultiplier(1 + k.rng.Intn(5)),
				MyDiscriminator:      []layers.BFDDiscriminator{p.MyDiscriminator, discOther, 0}[k.rng.Intn(3)],
				YourDiscriminator:    []layers.BFDDiscriminator{p.YourDiscriminator, 0, discOther}[k.rng.Intn(3)],
				DesiredMinTxInterval: p.DesiredMinTxInterval, RequiredMinRxInterval: p.RequiredMinRxInterval}
			k.deliver(inj)
			if k.rng.Intn(2) == 0 {
				k.deliver(p)
			}
		default:
			k.deliver(p)
			if len(held) > 0 && k.rng.Intn(2) == 0 {
				k.deliver(held[0])
				held = held[1:]
			}
		}
	}
}

func runPair(id int, rng *rand.Rand, chaos time.Duration) [][]vt.M {
	const da, db = 0xaaaa, 0xbbbb
	la, lb := newLog(da, db), newLog(db, da)
	// Every other pair is asymmetric: each side has its own intervals and Detect Mult. The detection time a
	// side applies to its peer's packets is peer.mult x max(own rx, peer tx); the multipliers are raised until
	// it is at least 400 ms on both sides, so that scheduling stalls on a loaded machine do not expire it.
	type side struct{ tx, rx, mult int }
	ca, cb := side{50, 50, 8}, side{50, 50, 8}
	if id%2 == 1 {
		pick := func() side {
			return side{[]int{40, 60, 100, 150}[rng.Intn(4)], []int{20, 50, 120}[rng.Intn(3)], 1 + rng.Intn(4)}
		}
		ca, cb = pick(), pick()
		for cb.mult*max(ca.rx, cb.tx) < 400 {
			cb.mult++
		}
		for ca.mult*max(cb.rx, ca.tx) < 400 {
			ca.mult++
		}
	}
	mk := func(d uint32, c side) *bfd.Session {
		return &bfd.Session{LocalDiscriminator: layers.BFDDiscriminator(d), DetectMult: layers.BFDDetectMultiplier(c.mult),
			ReceiveQueueSize: 10, DesiredMinTxInterval: time.Duration(c.tx) * time.Millisecond,
			RequiredMinRxInterval: time.Duration(c.rx) * time.Millisecond}
	}
	a, b := mk(da, ca), mk(db, cb)
	admin := rng.Intn(2) == 0
	loss := []float64{0.1, 0.3, 0.6, 0.9}[rng.Intn(4)]
	ab := &link{ch: make(chan *layers.BFD, 64), dst: b, dlog: lb, rng: rand.New(rand.NewSource(rng.Int63())), loss: loss, injectAdminDown: admin}
	ba := &link{ch: make(chan *layers.BFD, 64), dst: a, dlog: la, rng: rand.New(rand.NewSource(rng.Int63())), loss: loss, injectAdminDown: admin}
	a.Sender, b.Sender = ab, ba
	logs.Store(a, la)
	logs.Store(b, lb)
	defer logs.Delete(a)
	defer logs.Delete(b)
	ab.wg.Add(1)
	ba.wg.Add(1)
	go ab.run()
	go ba.run()
	da1, db1 := make(chan error, 1), make(chan error, 1)
	go func() { da1 <- a.Run(context.Background()) }()
	go func() { db1 <- b.Run(context.Background()) }()

	time.Sleep(chaos)
	for _, k := range []*link{ab, ba} {
		k.mu.Lock()
		k.mode = 1
		k.mu.Unlock()
	}
	mark := func(l *sessLog) {
		l.mu.Lock()
		l.evs = append(l.evs, vt.M{"ev": "quiet"})
		l.mu.Unlock()
	}
	mark(la)
	mark(lb)
	// The link is lossless from here on. Wait (up to 20 s; the protocol needs about 2 s because a Down
	// session sends once per second) until the hooks of both sessions have reported Up.
	up := func(l *sessLog) bool { l.mu.Lock(); defer l.mu.Unlock(); return l.lastLocal == 3 }
	deadline := time.Now().Add(20 * time.Second)
	for time.Now().Before(deadline) && !(up(la) && up(lb)) {
		time.Sleep(5 * time.Millisecond)
	}
	settle := func(l *sessLog, s *bfd.Session) {
		l.mu.Lock()
		l.evs = append(l.evs, vt.M{"ev": "settle", "up": l.lastLocal == 3, "local": l.lastLocal, "isup": s.IsUp()})
		l.mu.Unlock()
	}
	settle(la, a)
	settle(lb, b)
	for _, k := range []*link{ab, ba} {
		k.mu.Lock()
		k.mode = 2
		k.mu.Unlock()
	}
	// the forwarders return on the next packet they see (a session sends at least once per second);
	// only then the sessions are closed (ReceiveMessage on a closed session would panic)
	ab.wg.Wait()
	ba.wg.Wait()
	_ = a.Close()
	_ = b.Close()
	<-da1
	<-db1
	dump := func(l *sessLog, sub int, c side) []vt.M {
		l.mu.Lock()
		defer l.mu.Unlock()
		out := []vt.M{{"ev": "reset", "kind": "pair", "id": id*2 + sub, "rxms": c.rx, "lmult": c.mult}}
		return append(out, l.evs...)
	}
	return [][]vt.M{dump(la, 0, ca), dump(lb, 1, cb)}
}

// ---------------------------------------------------------------------------------- RFC peer

// rfcPeer is the environment of a real Session in the "rfcpeer" scenarios: a well-behaved RFC 5880
// implementation written from section 6.8.6 (not from router/bfd): it selects its session by a non-zero
// Your Discriminator (packets carrying another one are discarded), learns bfd.RemoteDiscr from every
// accepted packet, sends once per second while not Up and every 100 ms while Up.
type rfcPeer struct {
	mu     sync.Mutex
	state  int
	disc   uint32
	rd     uint32
	lastRx time.Time
	det    time.Duration
	dst    *bfd.Session
	dlog   *sessLog
	stop   chan struct{}
	done   chan struct{}
	// passive (RFC 5880 6.1): sends nothing until it has accepted a packet for its session
	passive, started bool
	// forceDown: the peer is going away - it reports Down (Detect Mult 1) whatever it receives
	forceDown bool
}

// Send is the link from the session under test to the peer.
func (p *rfcPeer) Send(pkt *layers.BFD) error {
	p.mu.Lock()
	defer p.mu.Unlock()
	my, your, st := uint32(pkt.MyDiscriminator), uint32(pkt.YourDiscriminator), int(pkt.State)
	if pkt.Version != 1 || pkt.DetectMultiplier == 0 || pkt.Multipoint || my == 0 {
		return nil
	}
	if your != 0 && your != p.disc { // no session with that discriminator
		return nil
	}
	if your == 0 && st != 1 && st != 0 {
		return nil
	}
	p.started = true
	if p.forceDown {
		return nil
	}
	p.rd = my
	p.lastRx = time.Now()
	p.det = time.Duration(pkt.DetectMultiplier) * max(100*time.Millisecond, bfdDur(pkt.DesiredMinTxInterval))
	switch {
	case st == 0: // AdminDown
		if p.state != 1 {
			p.state = 1
		}
	case p.state == 1 && st == 1:
		p.state = 2
	case p.state == 1 && st == 2:
		p.state = 3
	case p.state == 2 && (st == 2 || st == 3):
		p.state = 3
	case p.state == 3 && st == 1:
		p.state = 1
	}
	return nil
}

func (p *rfcPeer) run() {
	defer close(p.done)
	next := time.Now()
	for {
		select {
		case <-p.stop:
			return
		case <-time.After(10 * time.Millisecond):
		}
		p.mu.Lock()
		if p.state >= 2 && !p.lastRx.IsZero() && time.Since(p.lastRx) > p.det {
			p.state, p.rd = 1, 0
		}
		if time.Now().Before(next) || (p.passive && !p.started) {
			p.mu.Unlock()
			continue
		}
		mult := layers.BFDDetectMultiplier(5)
		if p.forceDown {
			p.state, mult = 1, 1
		}
		tx := layers.BFDTimeInterval(1_000_000)
		if p.state == 3 {
			tx = 100_000
		}
		next = time.Now().Add(bfdDur(tx) * 9 / 10)
		pkt := &layers.BFD{Version: 1, State: layers.BFDState(p.state), DetectMultiplier: mult,
			MyDiscriminator: layers.BFDDiscriminator(p.disc), YourDiscriminator: layers.BFDDiscriminator(p.rd),
			DesiredMinTxInterval: tx, RequiredMinRxInterval: 100_000}
		p.mu.Unlock()
		p.dlog.mu.Lock()
		p.dlog.evs = append(p.dlog.evs, pktRecord(p.dlog, pkt))
		p.dlog.mu.Unlock()
		p.dst.ReceiveMessage(pkt)
	}
}

func (p *rfcPeer) halt() { close(p.stop); <-p.done }

// swapSender lets a scenario replace the peer behind the session's Sender.
type swapSender struct {
	mu sync.Mutex
	to bfd.Sender
}

func (w *swapSender) Send(p *layers.BFD) error {
	w.mu.Lock()
	to := w.to
	w.mu.Unlock()
	if to == nil {
		return nil
	}
	return to.Send(p)
}

// runRfcPeer: scenario 0 = undisturbed; 1 = before the peer appears the session receives one packet
// with a My Discriminator nobody owns; 2 = the session comes Up with a first peer, which is then
// replaced by a freshly started one with a new discriminator (a restart); 3 = see below.
func runRfcPeer(id, scenario int) []vt.M {
	const own, d1, d2 = 0x5151, 0x6161, 0x7171
	l := newLog(own, d1)
	sw := &swapSender{}
	s := &bfd.Session{Sender: sw, LocalDiscriminator: own, DetectMult: 8, ReceiveQueueSize: 10,
		DesiredMinTxInterval: 50 * time.Millisecond, RequiredMinRxInterval: 50 * time.Millisecond}
	logs.Store(s, l)
	defer logs.Delete(s)
	done := make(chan error, 1)
	go func() { done <- s.Run(context.Background()) }()
	mkPeerP := func(d uint32, passive bool) *rfcPeer {
		p := &rfcPeer{state: 1, disc: d, dst: s, dlog: l, stop: make(chan struct{}), done: make(chan struct{}), passive: passive}
		sw.mu.Lock()
		sw.to = p
		sw.mu.Unlock()
		go p.run()
		return p
	}
	mkPeer := func(d uint32) *rfcPeer { return mkPeerP(d, false) }
	up := func() bool { l.mu.Lock(); defer l.mu.Unlock(); return l.lastLocal == 3 }
	waitUp := func(d time.Duration) {
		deadline := time.Now().Add(d)
		for time.Now().Before(deadline) && !up() {
			time.Sleep(5 * time.Millisecond)
		}
	}
	var peer *rfcPeer
	switch scenario {
	case 1:
		spoof := &layers.BFD{Version: 1, State: 1, DetectMultiplier: 3, MyDiscriminator: discOther,
			DesiredMinTxInterval: 1_000_000, RequiredMinRxInterval: 100_000}
		l.mu.Lock()
		l.evs = append(l.evs, pktRecord(l, spoof))
		want := l.nrecv + 1
		l.mu.Unlock()
		s.ReceiveMessage(spoof)
		l.waitFor(func() bool { return l.nrecv >= want }, 20*time.Second)
		peer = mkPeer(d1)
	case 2:
		first := mkPeer(d1)
		waitUp(30 * time.Second)
		first.halt()
		peer = mkPeer(d2)
		// the restarted peer reports Down: wait until the session has noticed (left Up)
		deadline := time.Now().Add(30 * time.Second)
		for time.Now().Before(deadline) && up() {
			time.Sleep(5 * time.Millisecond)
		}
	case 3:
		// the first peer goes away in an orderly fashion: it reports Down (the session follows without any
		// timer) and falls silent; after the session's detection time has expired a freshly started
		// PASSIVE peer with a new discriminator appears: it answers only packets it can accept, i.e. with
		// Your Discriminator zero or its own
		first := mkPeer(d1)
		waitUp(30 * time.Second)
		first.mu.Lock()
		first.forceDown = true
		first.mu.Unlock()
		deadline := time.Now().Add(30 * time.Second)
		for time.Now().Before(deadline) && up() {
			time.Sleep(5 * time.Millisecond)
		}
		first.halt()
		l.mu.Lock()
		timers := l.ntimer
		l.mu.Unlock()
		l.waitFor(func() bool { return l.ntimer > timers }, 30*time.Second)
		peer = mkPeerP(d2, true)
	default:
		peer = mkPeer(d1)
	}
	l.mu.Lock()
	l.evs = append(l.evs, vt.M{"ev": "quiet"})
	l.mu.Unlock()
	// the peer is well-behaved and the link lossless from here on; the protocol needs a few seconds
	// (sessions that are not Up send once per second); the driver waits up to 30 s
	waitUp(30 * time.Second)
	l.mu.Lock()
	l.evs = append(l.evs, vt.M{"ev": "settle", "up": l.lastLocal == 3, "local": l.lastLocal, "isup": s.IsUp()})
	l.mu.Unlock()
	peer.halt()
	_ = s.Close()
	<-done
	l.mu.Lock()
	defer l.mu.Unlock()
	out := []vt.M{{"ev": "reset", "kind": "rfcpeer", "id": id, "rxms": 50, "lmult": 8}}
	return append(out, l.evs...)
}

// ---------------------------------------------------------------------------------- main

func main() {
	out := flag.String("out", "bfd.ndjson", "output trace")
	maxLen := flag.Int("len", 2, "complete enumeration of histories up to this length")
	nrand := flag.Int("rand", 200, "seeded random histories")
	npairs := flag.Int("pairs", 6, "pairs of real sessions over a lossy link")
	chaosMs := flag.Int("chaos", 2500, "duration of the lossy phase of a pair in ms")
	workers := flag.Int("workers", 8, "concurrent histories")
	scn := flag.String("scn", "", "histories generated by TLC (BFDGen.tla): ndjson {steps: [[state,your,my,mult,ver,multipoint,poll,expire]...], rand: bool}; replaces -len / -rand")
	flag.Parse()
	bfd.VerifTracer = tracer
	w := vt.NewWriter(*out)
	table(w)

	// histories: complete up to maxLen, then seeded long ones
	alpha := alphabet()
	var hs [][]sym
	var cfgs []scfg
	var gen func(prefix []sym, n int)
	gen = func(prefix []sym, n int) {
		if len(prefix) > 0 {
			hs = append(hs, append([]sym{}, prefix...))
		}
		if n == 0 {
			return
		}
		for _, x := range alpha {
			gen(append(prefix, x), n-1)
		}
	}
	rng := vt.Rand(16)
	if *scn == "" {
		gen(nil, *maxLen)
	} else {
		f, err := os.Open(*scn)
		if err != nil {
			vt.Fatal("open %s: %v", *scn, err)
		}
		dec := json.NewDecoder(f)
		for dec.More() {
			var rec struct {
				Steps [][]int `json:"steps"`
				Rand  bool    `json:"rand"`
			}
			if err := dec.Decode(&rec); err != nil {
				vt.Fatal("scenario file: %v", err)
			}
			h := make([]sym, len(rec.Steps))
			for j, a := range rec.Steps {
				if len(a) != 8 {
					vt.Fatal("scenario symbol needs 8 fields")
				}
				h[j] = sym{state: a[0], your: a[1], my: a[2], mult: a[3], ver: a[4], multipoint: a[5] == 1, poll: a[6] == 1, expire: a[7] == 1}
				// seeded variation of the announced detection time in the random histories: 20 .. 600 ms
				if rec.Rand && h[j].expire && rng.Intn(4) == 0 {
					h[j].mult = 1 + rng.Intn(4)
					h[j].dtxms = []int{20, 50, 150}[rng.Intn(3)]
				}
			}
			hs = append(hs, h)
			if rec.Rand {
				cfgs = append(cfgs, scfg{lmult: []int{1, 2, 3, 5}[rng.Intn(4)], rxms: 2})
			} else {
				cfgs = append(cfgs, scfg{lmult: 3, rxms: 2})
			}
		}
		f.Close()
		*nrand = 0
	}
	for len(cfgs) < len(hs) {
		cfgs = append(cfgs, scfg{lmult: 3, rxms: 2})
	}
	th, tc := timedHistories()
	hs = append(hs, th...)
	cfgs = append(cfgs, tc...)
	ih, ic := idleHistories()
	hs = append(hs, ih...)
	cfgs = append(cfgs, ic...)
	for i := 0; i < *nrand; i++ {
		n := 5 + rng.Intn(25)
		h := make([]sym, n)
		for j := range h {
			h[j] = alpha[rng.Intn(len(alpha))]
			if h[j].expire && rng.Intn(3) != 0 { // keep most long histories fast
				h[j].expire = false
				h[j].mult = 3
			} else if h[j].expire && rng.Intn(3) == 0 { // detection times of 20 .. 600 ms
				h[j].mult = 1 + rng.Intn(4)
				h[j].dtxms = []int{20, 50, 150}[rng.Intn(3)]
			}
		}
		hs = append(hs, h)
		cfgs = append(cfgs, scfg{lmult: []int{1, 2, 3, 5}[rng.Intn(4)], rxms: 2})
	}
	res := make([][]vt.M, len(hs))
	var wg sync.WaitGroup
	ch := make(chan int)
	for k := 0; k < *workers; k++ {
		wg.Add(1)
		go func() {
			defer wg.Done()
			for i := range ch {
				res[i] = runHistory(i, hs[i], cfgs[i])
			}
		}()
	}
	// pairs run concurrently with the histories
	pres := make([][][]vt.M, *npairs)
	var pwg sync.WaitGroup
	prng := vt.Rand(17)
	for i := 0; i < *npairs; i++ {
		pwg.Add(1)
		r := rand.New(rand.NewSource(prng.Int63()))
		go func(i int) {
			defer pwg.Done()
			pres[i] = runPair(i, r, time.Duration(*chaosMs)*time.Millisecond)
		}(i)
	}
	// a real session against a well-behaved RFC peer (three scenarios, concurrently)
	rres := make([][]vt.M, 4)
	for sc := 0; sc < 4; sc++ {
		pwg.Add(1)
		go func(sc int) {
			defer pwg.Done()
			rres[sc] = runRfcPeer(sc, sc)
		}(sc)
	}
	for i := range hs {
		ch <- i
	}
	close(ch)
	wg.Wait()
	pwg.Wait()
	for _, t := range res {
		for _, e := range t {
			w.Emit(e)
		}
	}
	for _, p := range pres {
		for _, t := range p {
			for _, e := range t {
				w.Emit(e)
			}
		}
	}
	for _, t := range rres {
		for _, e := range t {
			w.Emit(e)
		}
	}
	w.Close()
	fmt.Printf("histories=%d pairs=%d events=%d\n", len(hs), *npairs, w.N)
}
