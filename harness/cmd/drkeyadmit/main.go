// Driver for C40: executes abstract DRKey requests (the lattice points enumerated by TLC from
// DRKeyAdmit.tla) against the real control/drkey/grpc.Server handlers, in-process, with a peer in
// the context, a recording Engine and a fake ClientCertificateVerifier. It logs what the handlers
// did; it never judges (DRKeyAdmitTrace.tla does).
package main

import (
	"bufio"
	"bytes"
	"context"
	"crypto/sha256"
	"crypto/tls"
	"crypto/x509"
	"errors"
	"flag"
	"fmt"
	"math/rand"
	"net"
	"net/http"
	"net/http/httptest"
	"net/netip"
	"os"
	"strings"
	"time"

	"connectrpc.com/connect"
	"github.com/quic-go/quic-go/http3"
	"google.golang.org/grpc/credentials"
	"google.golang.org/grpc/peer"
	"google.golang.org/protobuf/types/known/timestamppb"

	"github.com/scionproto/scion/control/config"
	dkconnect "github.com/scionproto/scion/control/drkey/connect"
	dkgrpc "github.com/scionproto/scion/control/drkey/grpc"
	"github.com/scionproto/scion/pkg/addr"
	libconnect "github.com/scionproto/scion/pkg/connect"
	"github.com/scionproto/scion/pkg/drkey"
	cppb "github.com/scionproto/scion/pkg/proto/control_plane"
	"github.com/scionproto/scion/pkg/proto/control_plane/v1/control_planeconnect"
	drkeypb "github.com/scionproto/scion/pkg/proto/drkey"

	"verifharness/internal/vt"
)

// ---------------------------------------------------------------- recording engine

type call struct {
	m                string
	proto            drkey.Protocol
	src, dst         addr.IA
	hasIA            bool
	srcHost, dstHost string // "-" when the operation has no such field
	key              drkey.Key
}

type engine struct{ calls []call }

func (e *engine) rec(c call) drkey.Key {
	h := sha256.Sum256([]byte(fmt.Sprintf("%s|%d|%d|%d|%q|%q|%d", c.m, c.proto, c.src, c.dst,
		c.srcHost, c.dstHost, len(e.calls))))
	copy(c.key[:], h[:16])
	e.calls = append(e.calls, c)
	return c.key
}

var epoch = drkey.NewEpoch(1700000000, 1700086400)

func (e *engine) GetSecretValue(_ context.Context, m drkey.SecretValueMeta) (drkey.SecretValue, error) {
	k := e.rec(call{m: "GetSecretValue", proto: m.ProtoId, srcHost: "-", dstHost: "-"})
	return drkey.SecretValue{Epoch: epoch, ProtoId: m.ProtoId, Key: k}, nil
}
func (e *engine) GetLevel1Key(_ context.Context, m drkey.Level1Meta) (drkey.Level1Key, error) {
	k := e.rec(call{m: "GetLevel1Key", proto: m.ProtoId, src: m.SrcIA, dst: m.DstIA, hasIA: true,
		srcHost: "-", dstHost: "-"})
	return drkey.Level1Key{Epoch: epoch, ProtoId: m.ProtoId, SrcIA: m.SrcIA, DstIA: m.DstIA, Key: k}, nil
}
func (e *engine) DeriveLevel1(_ context.Context, m drkey.Level1Meta) (drkey.Level1Key, error) {
	k := e.rec(call{m: "DeriveLevel1", proto: m.ProtoId, src: m.SrcIA, dst: m.DstIA, hasIA: true,
		srcHost: "-", dstHost: "-"})
	return drkey.Level1Key{Epoch: epoch, ProtoId: m.ProtoId, SrcIA: m.SrcIA, DstIA: m.DstIA, Key: k}, nil
}
func (e *engine) DeriveASHost(_ context.Context, m drkey.ASHostMeta) (drkey.ASHostKey, error) {
	k := e.rec(call{m: "DeriveASHost", proto: m.ProtoId, src: m.SrcIA, dst: m.DstIA, hasIA: true,
		srcHost: "-", dstHost: "h:" + m.DstHost})
	return drkey.ASHostKey{Epoch: epoch, ProtoId: m.ProtoId, SrcIA: m.SrcIA, DstIA: m.DstIA,
		DstHost: m.DstHost, Key: k}, nil
}
func (e *engine) DeriveHostAS(_ context.Context, m drkey.HostASMeta) (drkey.HostASKey, error) {
	k := e.rec(call{m: "DeriveHostAS", proto: m.ProtoId, src: m.SrcIA, dst: m.DstIA, hasIA: true,
		srcHost: "h:" + m.SrcHost, dstHost: "-"})
	return drkey.HostASKey{Epoch: epoch, ProtoId: m.ProtoId, SrcIA: m.SrcIA, DstIA: m.DstIA,
		SrcHost: m.SrcHost, Key: k}, nil
}
func (e *engine) DeriveHostHost(_ context.Context, m drkey.HostHostMeta) (drkey.HostHostKey, error) {
	k := e.rec(call{m: "DeriveHostHost", proto: m.ProtoId, src: m.SrcIA, dst: m.DstIA, hasIA: true,
		srcHost: "h:" + m.SrcHost, dstHost: "h:" + m.DstHost})
	return drkey.HostHostKey{Epoch: epoch, ProtoId: m.ProtoId, SrcIA: m.SrcIA, DstIA: m.DstIA,
		SrcHost: m.SrcHost, DstHost: m.DstHost, Key: k}, nil
}

// ---------------------------------------------------------------- fake certificate verifier

type verifier struct {
	ias map[*x509.Certificate]addr.IA // leaf certificate -> authenticated AS; absent = invalid chain
}

func (v *verifier) VerifyParsedClientCertificate(chain []*x509.Certificate) (addr.IA, error) {
	if len(chain) == 0 {
		return 0, errors.New("empty chain")
	}
	ia, ok := v.ias[chain[0]]
	if !ok {
		return 0, errors.New("chain does not verify")
	}
	return ia, nil
}

type otherAuth struct{}

func (otherAuth) AuthType() string { return "verif-not-tls" }

// ---------------------------------------------------------------- concretisation

var iaPool = []string{"1-ff00:0:111", "1-ff00:0:112", "2-ff00:0:111", "1-ff00:0:110", "1-64512",
	"3-ff00:0:333", "1-ff00:1:111", "65535-ffff:ffff:ffff"}

var ipPool = []string{"10.1.2.3", "127.0.0.1", "192.168.0.254", "172.16.5.9", "2001:db8::1", "fd00::7",
	"fe80::1234:5678", "10.1.2.4", "2001:db8::2", "1.1.1.1"}

var badHosts = []string{"", "host.example", "10.1.2", "10.1.2.3:80", "[2001:db8::1]", "CS", "10.1.2.3/32"}

type conc struct {
	local, other      addr.IA
	peerIP, otherIP   netip.Addr
	peer16            bool // represent an IPv4 requester as a 16-byte net.IP
	peerStr, otherStr string
	badStr            string
	proto, otherProto drkey.Protocol
	badTS             bool
}

func altForm(rng *rand.Rand, a netip.Addr) string {
	if a.Is4() {
		switch rng.Intn(3) {
		case 0:
			return "::ffff:" + a.String() // the same host, IPv4-mapped spelling
		}
		return a.String()
	}
	switch rng.Intn(3) {
	case 0:
		return strings.ToUpper(a.String())
	case 1:
		return a.StringExpanded()
	}
	return a.String()
}

func concretise(rng *rand.Rand, k int, protoClass string) conc {
	var c conc
	if k == 0 {
		// canonical concretisation (the one the repository's own tests use)
		c.local, c.other = addr.MustParseIA(iaPool[0]), addr.MustParseIA(iaPool[1])
		c.peerIP, c.otherIP = netip.MustParseAddr("127.0.0.1"), netip.MustParseAddr("127.0.0.2")
		c.peerStr, c.otherStr, c.badStr = c.peerIP.String(), c.otherIP.String(), ""
	} else {
		i := rng.Intn(len(iaPool))
		j := (i + 1 + rng.Intn(len(iaPool)-1)) % len(iaPool)
		c.local, c.other = addr.MustParseIA(iaPool[i]), addr.MustParseIA(iaPool[j])
		p := rng.Intn(len(ipPool))
		o := (p + 1 + rng.Intn(len(ipPool)-1)) % len(ipPool)
		c.peerIP, c.otherIP = netip.MustParseAddr(ipPool[p]), netip.MustParseAddr(ipPool[o])
		if rng.Intn(3) == 0 { // near miss: neighbouring address
			b := c.peerIP.AsSlice()
			b[len(b)-1] ^= byte(1 << uint(rng.Intn(8)))
			c.otherIP, _ = netip.AddrFromSlice(b)
		}
		c.peer16 = rng.Intn(2) == 0
		c.peerStr, c.otherStr = altForm(rng, c.peerIP), altForm(rng, c.otherIP)
		c.badStr = badHosts[rng.Intn(len(badHosts))]
		c.badTS = k >= 2 && rng.Intn(16) == 0 // never in the only concretisation of the quick tier
	}
	switch protoClass {
	case "generic":
		c.proto = drkey.Generic
		c.otherProto = drkey.SCMP
	case "scmp":
		c.proto = drkey.SCMP
		c.otherProto = drkey.Generic
		if k > 0 && rng.Intn(2) == 0 {
			c.otherProto = drkey.Protocol(2 + rng.Intn(65534))
		}
	default:
		c.proto = drkey.Protocol(2 + rng.Intn(65534))
		if k == 0 {
			c.proto = 1000
		}
		c.otherProto = drkey.SCMP
		if k > 0 && rng.Intn(2) == 0 {
			c.otherProto = c.proto ^ 1
			if c.otherProto < 2 {
				c.otherProto = c.proto + 2
			}
		}
	}
	return c
}

func (c conc) host(abs string) string {
	switch abs {
	case "peer":
		return c.peerStr
	case "other":
		return c.otherStr
	}
	return c.badStr
}

func (c conc) ia(abs string) addr.IA {
	if abs == "local" {
		return c.local
	}
	return c.other
}

func (c conc) absIA(ia addr.IA) string {
	switch ia {
	case c.local:
		return "local"
	case c.other:
		return "other"
	}
	return "unknown"
}

func (c conc) absHost(s string, reqSrc, reqDst string, q []string) string {
	if s == "-" {
		return "-"
	}
	s = strings.TrimPrefix(s, "h:")
	// the abstract class of the string is the class of the request field it was copied from
	switch {
	case s == c.host(q[4]) && reqSrc == "src":
		return q[4]
	case s == c.host(q[5]) && reqDst == "dst":
		return q[5]
	}
	return "unknown"
}

func (c conc) absProto(p drkey.Protocol) string {
	switch {
	case p == drkey.Generic:
		return "generic"
	case p == drkey.SCMP:
		return "scmp"
	case p == c.proto:
		return "niche"
	}
	return "unknown"
}

// ---------------------------------------------------------------- the connect-RPC path, in process
// The request is sent by the generated connect client through an http.RoundTripper that hands it
// straight to the handler chain the control service registers:
//   libconnect.AttachPeer( mux{ NewDRKeyInterServiceHandler(dkconnect.Server), NewDRKeyIntraServiceHandler(...) } )
// so peer extraction (http.Request.RemoteAddr / the HTTP3 remote-address context value, and
// http.Request.TLS -> credentials.TLSInfo) and the connect wrapper are the real code. No socket.

type inproc struct {
	h          http.Handler
	remoteAddr string               // http.Request.RemoteAddr as net/http sets it for TCP ("ip:port")
	h3addr     net.Addr             // value of http3.RemoteAddrContextKey (HTTP3 requests)
	tls        *tls.ConnectionState // http.Request.TLS
}

func (t *inproc) RoundTrip(r *http.Request) (*http.Response, error) {
	r2 := r.Clone(r.Context())
	r2.RemoteAddr = t.remoteAddr
	r2.TLS = t.tls
	r2.RequestURI = r.URL.RequestURI()
	if t.h3addr != nil {
		r2 = r2.WithContext(context.WithValue(r2.Context(), http3.RemoteAddrContextKey, t.h3addr))
	}
	rec := httptest.NewRecorder()
	t.h.ServeHTTP(rec, r2)
	return rec.Result(), nil
}

func connectHandler(srv *dkgrpc.Server) http.Handler {
	mux := http.NewServeMux()
	mux.Handle(control_planeconnect.NewDRKeyInterServiceHandler(dkconnect.Server{Server: srv}))
	mux.Handle(control_planeconnect.NewDRKeyIntraServiceHandler(dkconnect.Server{Server: srv}))
	return libconnect.AttachPeer(mux)
}

// ---------------------------------------------------------------- one case

func runCase(w, cw *vt.Writer, rng *rand.Rand, id, k int, q []string, via string) {
	// q: rpc proto src dst srcHost dstHost peer allow cert model why
	rpc, protoC, src, dst, srcHost, dstHost, peerC, allowC, certC := q[0], q[1], q[2], q[3], q[4], q[5], q[6], q[7], q[8]
	c := concretise(rng, k, protoC)

	ctx := context.Background()
	ver := &verifier{ias: map[*x509.Certificate]addr.IA{}}
	tr := &inproc{}
	if peerC != "none" {
		ip := net.IP(c.peerIP.AsSlice())
		if c.peerIP.Is4() && c.peer16 {
			ip = ip.To16()
		}
		port := 1024 + rng.Intn(60000)
		p := &peer.Peer{}
		if peerC == "tcp" {
			p.Addr = &net.TCPAddr{IP: ip, Port: port}
			tr.remoteAddr = netip.AddrPortFrom(c.peerIP, uint16(port)).String()
		} else {
			p.Addr = &net.UDPAddr{IP: ip, Port: port}
			tr.h3addr = p.Addr
		}
		leaf := &x509.Certificate{}
		switch certC {
		case "noauth":
		case "nontls": // connect path: a TLS connection without client certificates gives no auth info
			p.AuthInfo = otherAuth{}
			tr.tls = &tls.ConnectionState{}
		case "nochain":
			p.AuthInfo = credentials.TLSInfo{State: tls.ConnectionState{}}
			tr.tls = &tls.ConnectionState{PeerCertificates: []*x509.Certificate{}}
		case "invalid":
			p.AuthInfo = credentials.TLSInfo{State: tls.ConnectionState{PeerCertificates: []*x509.Certificate{leaf}}}
			tr.tls = &tls.ConnectionState{PeerCertificates: []*x509.Certificate{leaf}}
		case "local", "other":
			ver.ias[leaf] = c.ia(certC)
			p.AuthInfo = credentials.TLSInfo{State: tls.ConnectionState{PeerCertificates: []*x509.Certificate{leaf, {}}}}
			tr.tls = &tls.ConnectionState{PeerCertificates: []*x509.Certificate{leaf, {}}}
		}
		ctx = peer.NewContext(ctx, p)
	}
	allow := map[config.HostProto]struct{}{}
	switch allowC {
	case "hp":
		allow[config.HostProto{Host: c.peerIP, Proto: c.proto}] = struct{}{}
		if k > 0 && rng.Intn(2) == 0 {
			allow[config.HostProto{Host: c.otherIP, Proto: c.otherProto}] = struct{}{}
		}
	case "hq":
		allow[config.HostProto{Host: c.peerIP, Proto: c.otherProto}] = struct{}{}
	case "op":
		allow[config.HostProto{Host: c.otherIP, Proto: c.proto}] = struct{}{}
		if k > 0 && rng.Intn(2) == 0 {
			allow[config.HostProto{Host: c.peerIP, Proto: c.otherProto}] = struct{}{}
		}
	case "empty":
		if k > 0 && rng.Intn(2) == 0 {
			allow = nil
		}
	}
	eng := &engine{}
	srv := &dkgrpc.Server{LocalIA: c.local, ClientCertificateVerifier: ver, Engine: eng, AllowedSVHostProto: allow}

	ts := timestamppb.New(time.Unix(1700000100, 0))
	if c.badTS {
		ts = nil
	}
	pid := drkeypb.Protocol(c.proto)
	var key []byte
	var err error
	panicked := ""
	func() {
		defer func() {
			if r := recover(); r != nil {
				panicked = fmt.Sprint(r)
			}
		}()
		if via == "connect" {
			tr.h = connectHandler(srv)
			inter := control_planeconnect.NewDRKeyInterServiceClient(&http.Client{Transport: tr}, "http://cs.invalid")
			intra := control_planeconnect.NewDRKeyIntraServiceClient(&http.Client{Transport: tr}, "http://cs.invalid")
			bg := context.Background()
			switch rpc {
			case "lvl1":
				var r *connect.Response[cppb.DRKeyLevel1Response]
				r, err = inter.DRKeyLevel1(bg, connect.NewRequest(&cppb.DRKeyLevel1Request{ValTime: ts, ProtocolId: pid}))
				if r != nil {
					key = r.Msg.Key
				}
			case "intra":
				var r *connect.Response[cppb.DRKeyIntraLevel1Response]
				r, err = intra.DRKeyIntraLevel1(bg, connect.NewRequest(&cppb.DRKeyIntraLevel1Request{ValTime: ts, ProtocolId: pid,
					SrcIa: uint64(c.ia(src)), DstIa: uint64(c.ia(dst))}))
				if r != nil {
					key = r.Msg.Key
				}
			case "ashost":
				var r *connect.Response[cppb.DRKeyASHostResponse]
				r, err = intra.DRKeyASHost(bg, connect.NewRequest(&cppb.DRKeyASHostRequest{ValTime: ts, ProtocolId: pid,
					SrcIa: uint64(c.ia(src)), DstIa: uint64(c.ia(dst)), DstHost: c.host(dstHost)}))
				if r != nil {
					key = r.Msg.Key
				}
			case "hostas":
				var r *connect.Response[cppb.DRKeyHostASResponse]
				r, err = intra.DRKeyHostAS(bg, connect.NewRequest(&cppb.DRKeyHostASRequest{ValTime: ts, ProtocolId: pid,
					SrcIa: uint64(c.ia(src)), DstIa: uint64(c.ia(dst)), SrcHost: c.host(srcHost)}))
				if r != nil {
					key = r.Msg.Key
				}
			case "hosthost":
				var r *connect.Response[cppb.DRKeyHostHostResponse]
				r, err = intra.DRKeyHostHost(bg, connect.NewRequest(&cppb.DRKeyHostHostRequest{ValTime: ts, ProtocolId: pid,
					SrcIa: uint64(c.ia(src)), DstIa: uint64(c.ia(dst)), SrcHost: c.host(srcHost), DstHost: c.host(dstHost)}))
				if r != nil {
					key = r.Msg.Key
				}
			case "sv":
				var r *connect.Response[cppb.DRKeySecretValueResponse]
				r, err = intra.DRKeySecretValue(bg, connect.NewRequest(&cppb.DRKeySecretValueRequest{ValTime: ts, ProtocolId: pid}))
				if r != nil {
					key = r.Msg.Key
				}
			default:
				vt.Fatal("unknown rpc %q", rpc)
			}
			return
		}
		switch rpc {
		case "lvl1":
			var r *cppb.DRKeyLevel1Response
			r, err = srv.DRKeyLevel1(ctx, &cppb.DRKeyLevel1Request{ValTime: ts, ProtocolId: pid})
			if r != nil {
				key = r.Key
			}
		case "intra":
			var r *cppb.DRKeyIntraLevel1Response
			r, err = srv.DRKeyIntraLevel1(ctx, &cppb.DRKeyIntraLevel1Request{ValTime: ts, ProtocolId: pid,
				SrcIa: uint64(c.ia(src)), DstIa: uint64(c.ia(dst))})
			if r != nil {
				key = r.Key
			}
		case "ashost":
			var r *cppb.DRKeyASHostResponse
			r, err = srv.DRKeyASHost(ctx, &cppb.DRKeyASHostRequest{ValTime: ts, ProtocolId: pid,
				SrcIa: uint64(c.ia(src)), DstIa: uint64(c.ia(dst)), DstHost: c.host(dstHost)})
			if r != nil {
				key = r.Key
			}
		case "hostas":
			var r *cppb.DRKeyHostASResponse
			r, err = srv.DRKeyHostAS(ctx, &cppb.DRKeyHostASRequest{ValTime: ts, ProtocolId: pid,
				SrcIa: uint64(c.ia(src)), DstIa: uint64(c.ia(dst)), SrcHost: c.host(srcHost)})
			if r != nil {
				key = r.Key
			}
		case "hosthost":
			var r *cppb.DRKeyHostHostResponse
			r, err = srv.DRKeyHostHost(ctx, &cppb.DRKeyHostHostRequest{ValTime: ts, ProtocolId: pid,
				SrcIa: uint64(c.ia(src)), DstIa: uint64(c.ia(dst)), SrcHost: c.host(srcHost), DstHost: c.host(dstHost)})
			if r != nil {
				key = r.Key
			}
		case "sv":
			var r *cppb.DRKeySecretValueResponse
			r, err = srv.DRKeySecretValue(ctx, &cppb.DRKeySecretValueRequest{ValTime: ts, ProtocolId: pid})
			if r != nil {
				key = r.Key
			}
		default:
			vt.Fatal("unknown rpc %q", rpc)
		}
	}()
	if panicked != "" {
		w.Emit(vt.M{"ev": "panic", "id": id, "k": k, "rpc": rpc, "via": via})
		cw.Emit(vt.M{"id": id, "k": k, "panic": panicked})
		return
	}
	served := err == nil && key != nil
	asked := vt.M{"m": "-", "proto": "-", "src": "-", "dst": "-", "srcHost": "-", "dstHost": "-"}
	keyfrom := "none"
	if n := len(eng.calls); n > 0 {
		cl := eng.calls[n-1]
		asked["m"] = cl.m
		asked["proto"] = c.absProto(cl.proto)
		if cl.hasIA {
			asked["src"], asked["dst"] = c.absIA(cl.src), c.absIA(cl.dst)
		}
		asked["srcHost"] = c.absHost(cl.srcHost, "src", "", q)
		asked["dstHost"] = c.absHost(cl.dstHost, "", "dst", q)
		if key != nil {
			keyfrom = "foreign"
			if bytes.Equal(key, cl.key[:]) {
				keyfrom = "engine"
			}
		}
	} else if key != nil {
		keyfrom = "foreign"
	}
	w.Emit(vt.M{"ev": "req", "id": id, "k": k, "rpc": rpc, "proto": protoC, "src": src, "dst": dst,
		"srcHost": srcHost, "dstHost": dstHost, "peer": peerC, "allow": allowC, "cert": certC,
		"via": via, "model": q[9], "served": served, "ncalls": len(eng.calls), "asked": asked, "keyfrom": keyfrom})
	// the concrete values go to a line-aligned side file (for humans; TLC does not need them)
	cw.Emit(vt.M{"id": id, "k": k, "via": via, "err": fmt.Sprint(err),
		"conc": fmt.Sprintf("local=%s other=%s peer=%s/%v other=%s proto=%d hosts=%q,%q,%q badts=%v",
			c.local, c.other, c.peerIP, c.peer16, c.otherIP, c.proto, c.peerStr, c.otherStr, c.badStr, c.badTS)})
}

func main() {
	scn := flag.String("scn", "scenarios.txt", "abstract requests, one per line: rpc|proto|src|dst|srcHost|dstHost|peer|allow|cert|model|why")
	out := flag.String("out", "trace.ndjson", "output trace")
	kmax := flag.Int("k", 1, "seeded concretisations per abstract request")
	viaF := flag.String("via", "split", "direct | connect | both | split (each request through one of the two, by id and seed)")
	canon := flag.Bool("canon", false, "also run the canonical concretisation (the addresses of the repository's tests)")
	flag.Parse()
	f, err := os.Open(*scn)
	if err != nil {
		vt.Fatal("open: %v", err)
	}
	defer f.Close()
	w := vt.NewWriter(*out)
	cw := vt.NewWriter(*out + ".conc")
	rng := vt.Rand(40)
	sc := bufio.NewScanner(f)
	id := 0
	for sc.Scan() {
		line := strings.TrimSpace(sc.Text())
		if line == "" {
			continue
		}
		q := strings.Split(line, "|")
		if len(q) != 11 {
			vt.Fatal("bad scenario line %q", line)
		}
		vias := []string{"direct", "connect"}
		switch *viaF {
		case "direct", "connect":
			vias = []string{*viaF}
		case "split":
			// a mix of the point's index, so that the choice does not follow the lattice's regular order
			h := (uint32(id)*0x9E3779B1)>>15 + uint32(vt.Seed())
			vias = vias[h%2 : h%2+1]
		}
		for _, via := range vias {
			if *canon {
				runCase(w, cw, rng, id, 0, q, via)
			}
			for k := 1; k <= *kmax; k++ {
				runCase(w, cw, rng, id, k, q, via)
			}
		}
		id++
	}
	w.Close()
	cw.Close()
	fmt.Printf("requests=%d events=%d\n", id, w.N)
}
