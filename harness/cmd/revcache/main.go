// Driver for C31: runs seeded and directed histories of Insert / Get / DeleteExpired on real
// memrevcache instances and records what they returned, as reset-delimited ndjson traces for
// RevCacheTrace.tla. It never judges.
//
// The cache reads the wall clock. Abstract time t (whole seconds) is mapped to T0 + t where T0 is a
// whole second; all histories run in lockstep, the calls of abstract time t are made around
// T0 + t + 0.5 s. Revocations have whole-second timestamps and lifetimes, so expiry instants are
// whole seconds. Every call is logged with the window [lo, hi] of abstract seconds it can have
// observed (its real start minus 250 ms .. its real end plus 250 ms, floored); the trace
// specification accepts the outcome of any second in the window, so no verdict depends on timing.
package main

import (
	"context"
	"flag"
	"fmt"
	"math/rand"
	"sync"
	"time"

	"github.com/scionproto/scion/pkg/addr"
	"github.com/scionproto/scion/pkg/private/ctrl/path_mgmt"
	"github.com/scionproto/scion/pkg/private/ctrl/path_mgmt/proto"
	"github.com/scionproto/scion/pkg/segment/iface"
	"github.com/scionproto/scion/private/revcache"
	"github.com/scionproto/scion/private/revcache/memrevcache"

	"verifharness/internal/vt"
)

type op struct {
	kind    string // ins | get | del
	key     int
	ts, ttl int
}

type history struct {
	id    int
	ticks [][]op // ops per abstract second
	cache revcache.RevCache
	evs   []vt.M
}

const margin = 250 * time.Millisecond

var ias = []addr.IA{addr.MustParseIA("1-ff00:0:110"), addr.MustParseIA("1-ff00:0:111"), addr.MustParseIA("2-ff00:0:210")}

func keyOf(k int) (addr.IA, iface.ID) { return ias[k%len(ias)], iface.ID(10 + k/len(ias)) }

func window(t0 time.Time, before, after time.Time) (int, int) {
	fl := func(d time.Duration) int {
		s := d / time.Second
		if d < 0 && d%time.Second != 0 {
			s--
		}
		return int(s)
	}
	return fl(before.Add(-margin).Sub(t0)), fl(after.Add(margin).Sub(t0))
}

func (h *history) exec(t0 time.Time, o op) {
	ctx := context.Background()
	switch o.kind {
	case "ins":
		ia, ifID := keyOf(o.key)
		rev := &path_mgmt.RevInfo{IfID: ifID, RawIsdas: ia, LinkType: proto.LinkType_core,
			RawTimestamp: uint32(t0.Unix() + int64(o.ts)), RawTTL: uint32(o.ttl)}
		b := time.Now()
		ok, err := h.cache.Insert(ctx, rev)
		a := time.Now()
		lo, hi := window(t0, b, a)
		h.evs = append(h.evs, vt.M{"ev": "ins", "k": o.key, "ts": o.ts, "ttl": o.ttl, "lo": lo, "hi": hi, "ok": ok, "err": err != nil})
	case "get":
		ia, ifID := keyOf(o.key)
		b := time.Now()
		r, err := h.cache.Get(ctx, revcache.NewKey(ia, ifID))
		a := time.Now()
		lo, hi := window(t0, b, a)
		ev := vt.M{"ev": "get", "k": o.key, "lo": lo, "hi": hi, "found": r != nil, "ts": -99, "ttl": -99, "samekey": true, "err": err != nil}
		if r != nil {
			ev["ts"] = int(int64(r.RawTimestamp) - t0.Unix())
			ev["ttl"] = int(r.RawTTL)
			ev["samekey"] = r.IA() == ia && r.IfID == ifID
		}
		h.evs = append(h.evs, ev)
	case "del":
		b := time.Now()
		n, err := h.cache.DeleteExpired(ctx)
		a := time.Now()
		lo, hi := window(t0, b, a)
		h.evs = append(h.evs, vt.M{"ev": "del", "lo": lo, "hi": hi, "n": int(n), "err": err != nil})
	}
}

// ---------------------------------------------------------------------------------- histories

func randomHistory(rng *rand.Rand, id, tmax int) *history {
	h := &history{id: id, ticks: make([][]op, tmax+1)}
	nkeys := 1 + rng.Intn(3)
	for t := 0; t <= tmax; t++ {
		n := rng.Intn(5)
		for i := 0; i < n; i++ {
			k := rng.Intn(nkeys)
			switch r := rng.Intn(10); {
			case r < 5:
				// timestamps around the current second (also in the past and in the future), short lifetimes
				h.ticks[t] = append(h.ticks[t], op{kind: "ins", key: k, ts: t - 3 + rng.Intn(6), ttl: rng.Intn(5)})
			case r < 9:
				h.ticks[t] = append(h.ticks[t], op{kind: "get", key: k})
			default:
				h.ticks[t] = append(h.ticks[t], op{kind: "del"})
			}
		}
	}
	return h
}

// directed families: equal timestamps, older after newer, older-but-live after the stored one expired,
// zero lifetime, lookup right before / after expiry, clean-up between
func directed(id, fam, tmax int) *history {
	h := &history{id: id, ticks: make([][]op, tmax+1)}
	at := func(t int, o ...op) {
		if t <= tmax {
			h.ticks[t] = append(h.ticks[t], o...)
		}
	}
	g := op{kind: "get", key: 0}
	switch fam {
	case 0: // equal timestamp, longer lifetime: must not replace
		at(0, op{"ins", 0, 0, 2}, op{"ins", 0, 0, 4}, g)
		at(2, g)
		at(3, g)
	case 1: // older after newer (both live): rejected; newer after older: accepted
		at(0, op{"ins", 0, 0, 3}, op{"ins", 0, -1, 6}, g, op{"ins", 0, 1, 1}, g)
		at(2, g)
		at(3, g)
	case 2: // stored one expired, then an older but live revocation: accepted
		at(0, op{"ins", 0, 0, 1}, g)
		at(1, g, op{"ins", 0, -2, 5}, g)
		at(2, g, op{kind: "del"}, g)
		at(3, g)
	case 3: // expired on arrival, zero lifetime
		at(1, op{"ins", 0, -3, 2}, op{"ins", 0, 1, 0}, op{"ins", 0, -1, 2}, g)
		at(2, g)
	case 4: // newer with a shorter lifetime replaces, then expires first
		at(0, op{"ins", 0, -1, 6}, op{"ins", 0, 0, 1}, g)
		at(1, g, op{"ins", 0, -1, 6}, g)
		at(2, g)
	case 5: // clean-up of several keys, re-insert after clean-up
		at(0, op{"ins", 0, 0, 1}, op{"ins", 1, 0, 2}, op{"ins", 2, 0, 3})
		at(1, op{kind: "del"}, g, op{"get", 1, 0, 0}, op{"get", 2, 0, 0}, op{"ins", 0, -1, 3}, g)
		at(2, op{kind: "del"}, g, op{"get", 1, 0, 0}, op{"get", 2, 0, 0})
		at(3, op{kind: "del"}, op{kind: "del"}, g, op{"get", 2, 0, 0})
	}
	return h
}

func main() {
	out := flag.String("out", "revcache.ndjson", "output trace")
	n := flag.Int("n", 300, "seeded random histories per round")
	rounds := flag.Int("rounds", 1, "rounds (each takes tmax+1 seconds)")
	tmax := flag.Int("tmax", 5, "abstract seconds per history")
	flag.Parse()
	w := vt.NewWriter(*out)
	rng := vt.Rand(31)
	total := 0
	for r := 0; r < *rounds; r++ {
		var hs []*history
		for i := 0; i < *n; i++ {
			hs = append(hs, randomHistory(rng, total+i, *tmax))
		}
		for f := 0; f < 6; f++ {
			hs = append(hs, directed(total+*n+f, f, *tmax))
		}
		total += len(hs)
		for _, h := range hs {
			h.cache = memrevcache.New()
		}
		t0 := time.Now().Truncate(time.Second).Add(time.Second)
		for t := 0; t <= *tmax; t++ {
			time.Sleep(time.Until(t0.Add(time.Duration(t)*time.Second + 500*time.Millisecond)))
			var wg sync.WaitGroup
			for c := 0; c < 4; c++ {
				wg.Add(1)
				go func(c int) {
					defer wg.Done()
					for i := c; i < len(hs); i += 4 {
						for _, o := range hs[i].ticks[t] {
							hs[i].exec(t0, o)
						}
					}
				}(c)
			}
			wg.Wait()
		}
		for _, h := range hs {
			w.Emit(vt.M{"ev": "reset", "id": h.id})
			for _, e := range h.evs {
				w.Emit(e)
			}
		}
	}
	w.Close()
	fmt.Printf("histories=%d events=%d\n", total, w.N)
}
