// Driver for C31: runs seeded and directed histories of Insert / Get / DeleteExpired on real
// memrevcache instances and records what they returned, as reset-delimited ndjson traces for
// RevCacheTrace.tla. It never judges.
//
// The cache reads the wall clock. Abstract time t (whole seconds) is mapped to T0 + t where T0 is a
// whole second; all histories run in lockstep, the calls of abstract time t are made from
// T0 + t + 0.28 s on. Revocations have whole-second timestamps and lifetimes, so expiry instants are
// whole seconds. Every call is logged with the window [lo, hi] of abstract seconds it can have
// observed (its real start minus 250 ms .. its real end plus 250 ms, floored); the trace
// specification accepts the outcome of any second in the window, so no verdict depends on timing.
package main

import (
	"context"
	"flag"
	"fmt"
	"math/rand"
	"sort"
	"sync"
	"sync/atomic"
	"time"

	"github.com/scionproto/scion/pkg/addr"
	"github.com/scionproto/scion/pkg/private/ctrl/path_mgmt"
	"github.com/scionproto/scion/pkg/private/ctrl/path_mgmt/proto"
	"github.com/scionproto/scion/pkg/segment/iface"
	"github.com/scionproto/scion/private/revcache"
	"github.com/scionproto/scion/private/revcache/memrevcache"

	"verifharness/internal/vt"
)

type op struct {
	kind    string // ins | get | del | all | burst
	key     int
	ts, ttl int
	burst   [][]op // kind = burst: the ops of each concurrent caller
	nkeys   int    // kind = burst: the keys looked up afterwards
}

type history struct {
	id    int
	ticks [][]op // ops per abstract second
	cache revcache.RevCache
	evs   []vt.M
}

const margin = 250 * time.Millisecond

var ias = []addr.IA{addr.MustParseIA("1-ff00:0:110"), addr.MustParseIA("1-ff00:0:111"), addr.MustParseIA("2-ff00:0:210")}

func keyOf(k int) (addr.IA, iface.ID) { return ias[k%len(ias)], iface.ID(10 + k/len(ias)) }

// absKey is the inverse of keyOf (-1: not a key of the harness).
func absKey(ia addr.IA, ifID iface.ID) int {
	for i, x := range ias {
		if x == ia && ifID >= 10 {
			return (int(ifID)-10)*len(ias) + i
		}
	}
	return -1
}

func getAll(c revcache.RevCache, t0 time.Time) (items [][]int, failed bool) {
	items = [][]int{}
	ch, err := c.GetAll(context.Background())
	if err != nil {
		return items, true
	}
	for r := range ch {
		if r.Err != nil || r.Rev == nil {
			failed = true
			continue
		}
		items = append(items, []int{absKey(r.Rev.IA(), r.Rev.IfID), int(int64(r.Rev.RawTimestamp) - t0.Unix()), int(r.Rev.RawTTL)})
	}
	sort.Slice(items, func(a, b int) bool { return items[a][0] < items[b][0] })
	return
}

func window(t0 time.Time, before, after time.Time) (int, int) {
	fl := func(d time.Duration) int {
		s := d / time.Second
		if d < 0 && d%time.Second != 0 {
			s--
		}
		return int(s)
	}
	return fl(before.Add(-margin).Sub(t0)), fl(after.Add(margin).Sub(t0))
}

func (h *history) exec(t0 time.Time, o op) {
	ctx := context.Background()
	switch o.kind {
	case "ins":
		ia, ifID := keyOf(o.key)
		rev := &path_mgmt.RevInfo{IfID: ifID, RawIsdas: ia, LinkType: proto.LinkType_core,
			RawTimestamp: uint32(t0.Unix() + int64(o.ts)), RawTTL: uint32(o.ttl)}
		b := time.Now()
		ok, err := h.cache.Insert(ctx, rev)
		a := time.Now()
		lo, hi := window(t0, b, a)
		h.evs = append(h.evs, vt.M{"ev": "ins", "k": o.key, "ts": o.ts, "ttl": o.ttl, "lo": lo, "hi": hi, "ok": ok, "err": err != nil})
	case "get":
		ia, ifID := keyOf(o.key)
		b := time.Now()
		r, err := h.cache.Get(ctx, revcache.NewKey(ia, ifID))
		a := time.Now()
		lo, hi := window(t0, b, a)
		ev := vt.M{"ev": "get", "k": o.key, "lo": lo, "hi": hi, "found": r != nil, "ts": -99, "ttl": -99, "samekey": true, "err": err != nil}
		if r != nil {
			ev["ts"] = int(int64(r.RawTimestamp) - t0.Unix())
			ev["ttl"] = int(r.RawTTL)
			ev["samekey"] = r.IA() == ia && r.IfID == ifID
		}
		h.evs = append(h.evs, ev)
	case "all":
		b := time.Now()
		items, failed := getAll(h.cache, t0)
		a := time.Now()
		lo, hi := window(t0, b, a)
		h.evs = append(h.evs, vt.M{"ev": "all", "lo": lo, "hi": hi, "items": items, "err": failed})
	case "burst":
		h.burst(t0, o)
	case "del":
		b := time.Now()
		n, err := h.cache.DeleteExpired(ctx)
		a := time.Now()
		lo, hi := window(t0, b, a)
		h.evs = append(h.evs, vt.M{"ev": "del", "lo": lo, "hi": hi, "n": int(n), "err": err != nil})
	}
}

// burst runs the ops of several callers concurrently on the cache and afterwards looks at every key and
// at GetAll. Each op is stamped with an invocation and a response number from one atomic counter: op a
// precedes op b in real time iff a.res < b.inv. One record holds the whole burst; the trace
// specification looks for a linearization.
func (h *history) burst(t0 time.Time, o op) {
	ctx := context.Background()
	var stamp atomic.Int64
	var mu sync.Mutex
	recs := []vt.M{}
	run := func(c int, x op) {
		rec := vt.M{"c": c, "kind": x.kind, "k": x.key, "ts": x.ts, "ttl": x.ttl, "ok": false, "found": false,
			"rts": -99, "rttl": -99, "items": [][]int{}, "err": false}
		ia, ifID := keyOf(x.key)
		rec["inv"] = int(stamp.Add(1))
		switch x.kind {
		case "ins":
			ok, err := h.cache.Insert(ctx, &path_mgmt.RevInfo{IfID: ifID, RawIsdas: ia, LinkType: proto.LinkType_core,
				RawTimestamp: uint32(t0.Unix() + int64(x.ts)), RawTTL: uint32(x.ttl)})
			rec["ok"], rec["err"] = ok, err != nil
		case "get":
			r, err := h.cache.Get(ctx, revcache.NewKey(ia, ifID))
			rec["err"] = err != nil
			if r != nil {
				rec["found"], rec["rts"], rec["rttl"] = true, int(int64(r.RawTimestamp)-t0.Unix()), int(r.RawTTL)
				if r.IA() != ia || r.IfID != ifID {
					rec["err"] = true
				}
			}
		case "del":
			_, err := h.cache.DeleteExpired(ctx)
			rec["err"] = err != nil
		case "all":
			items, failed := getAll(h.cache, t0)
			rec["items"], rec["err"] = items, failed
		}
		rec["res"] = int(stamp.Add(1))
		mu.Lock()
		recs = append(recs, rec)
		mu.Unlock()
	}
	b := time.Now()
	start := make(chan struct{})
	var wg sync.WaitGroup
	for c, ops := range o.burst {
		wg.Add(1)
		go func(c int, ops []op) {
			defer wg.Done()
			<-start
			for _, x := range ops {
				run(c, x)
			}
		}(c, ops)
	}
	close(start)
	wg.Wait()
	for k := 0; k < o.nkeys; k++ {
		run(len(o.burst), op{kind: "get", key: k})
	}
	run(len(o.burst), op{kind: "all"})
	a := time.Now()
	lo, hi := window(t0, b, a)
	sort.Slice(recs, func(i, j int) bool { return recs[i]["inv"].(int) < recs[j]["inv"].(int) })
	h.evs = append(h.evs, vt.M{"ev": "burst", "lo": lo, "hi": hi, "ops": recs})
}

// concHistory: a sequential set-up, then (as the last thing) one burst of 2-4 concurrent callers with
// 1-3 calls each on one or two contended keys: competing inserts of older / newer / equal timestamps,
// lookups, GetAll and clean-ups.
func concHistory(rng *rand.Rand, id, tmax int) *history {
	h := &history{id: id, ticks: make([][]op, tmax+1)}
	nkeys := 1 + rng.Intn(2)
	tb := 1 + rng.Intn(tmax) // second of the burst
	for k := 0; k < nkeys; k++ {
		if rng.Intn(3) > 0 {
			t := rng.Intn(tb)
			h.ticks[t] = append(h.ticks[t], op{kind: "ins", key: k, ts: -1 + rng.Intn(2), ttl: 1 + rng.Intn(4)})
		}
	}
	ncall := 2 + rng.Intn(3)
	b := op{kind: "burst", nkeys: nkeys}
	for c := 0; c < ncall; c++ {
		var ops []op
		for i := 0; i < 1+rng.Intn(3); i++ {
			k := rng.Intn(nkeys)
			switch r := rng.Intn(10); {
			case r < 6:
				ops = append(ops, op{kind: "ins", key: k, ts: tb - 2 + rng.Intn(5), ttl: 1 + rng.Intn(4)})
			case r < 8:
				ops = append(ops, op{kind: "get", key: k})
			case r < 9:
				ops = append(ops, op{kind: "all"})
			default:
				ops = append(ops, op{kind: "del"})
			}
		}
		b.burst = append(b.burst, ops)
	}
	h.ticks[tb] = append(h.ticks[tb], b)
	return h
}

// ---------------------------------------------------------------------------------- histories

func randomHistory(rng *rand.Rand, id, tmax int) *history {
	h := &history{id: id, ticks: make([][]op, tmax+1)}
	nkeys := 1 + rng.Intn(6) // up to 3 ASes x 2 interfaces
	for t := 0; t <= tmax; t++ {
		n := rng.Intn(5)
		for i := 0; i < n; i++ {
			k := rng.Intn(nkeys)
			switch r := rng.Intn(11); {
			case r == 10:
				h.ticks[t] = append(h.ticks[t], op{kind: "all"})
			case r < 5:
				// timestamps around the current second (also in the past and in the future), short lifetimes
				h.ticks[t] = append(h.ticks[t], op{kind: "ins", key: k, ts: t - 3 + rng.Intn(6), ttl: rng.Intn(5)})
			case r < 9:
				h.ticks[t] = append(h.ticks[t], op{kind: "get", key: k})
			default:
				h.ticks[t] = append(h.ticks[t], op{kind: "del"})
			}
		}
	}
	return h
}

// directed families: equal timestamps, older after newer, older-but-live after the stored one expired,
// zero lifetime, lookup right before / after expiry, clean-up between
func ins(k, ts, ttl int) op { return op{kind: "ins", key: k, ts: ts, ttl: ttl} }
func get(k int) op          { return op{kind: "get", key: k} }

func directed(id, fam, tmax int) *history {
	h := &history{id: id, ticks: make([][]op, tmax+1)}
	at := func(t int, o ...op) {
		if t <= tmax {
			h.ticks[t] = append(h.ticks[t], o...)
		}
	}
	g := op{kind: "get", key: 0}
	all := op{kind: "all"}
	switch fam {
	case 0: // equal timestamp, longer lifetime: must not replace
		at(0, ins(0, 0, 2), ins(0, 0, 4), g)
		at(2, g)
		at(3, g)
	case 1: // older after newer (both live): rejected; newer after older: accepted
		at(0, ins(0, 0, 3), ins(0, -1, 6), g, ins(0, 1, 1), g)
		at(2, g)
		at(3, g)
	case 2: // stored one expired, then an older but live revocation: accepted
		at(0, ins(0, 0, 1), g)
		at(1, g, ins(0, -2, 5), g)
		at(2, g, op{kind: "del"}, g)
		at(3, g)
	case 3: // expired on arrival, zero lifetime
		at(1, ins(0, -3, 2), ins(0, 1, 0), ins(0, -1, 2), g)
		at(2, g)
	case 4: // newer with a shorter lifetime replaces, then expires first
		at(0, ins(0, -1, 6), ins(0, 0, 1), g)
		at(1, g, ins(0, -1, 6), g)
		at(2, g)
	case 5: // clean-up of several keys, re-insert after clean-up, GetAll before and after each clean-up
		at(0, ins(0, 0, 1), ins(1, 0, 2), ins(2, 0, 3), ins(3, 0, 1), ins(4, 0, 2), all)
		at(1, all, op{kind: "del"}, all, g, get(1), get(2), ins(0, -1, 3), g, all)
		at(2, all, op{kind: "del"}, g, get(1), get(2), get(3), get(4), all)
		at(3, op{kind: "del"}, op{kind: "del"}, g, get(2), all)
	}
	return h
}

func main() {
	out := flag.String("out", "revcache.ndjson", "output trace")
	n := flag.Int("n", 300, "seeded random histories per round")
	nconc := flag.Int("conc", 150, "histories with a concurrent burst per round")
	rounds := flag.Int("rounds", 1, "rounds (each takes tmax+1 seconds)")
	tmax := flag.Int("tmax", 5, "abstract seconds per history")
	flag.Parse()
	w := vt.NewWriter(*out)
	rng := vt.Rand(31)
	total := 0
	for r := 0; r < *rounds; r++ {
		var hs []*history
		for i := 0; i < *n; i++ {
			hs = append(hs, randomHistory(rng, total+i, *tmax))
		}
		for f := 0; f < 6; f++ {
			hs = append(hs, directed(total+*n+f, f, *tmax))
		}
		for i := 0; i < *nconc; i++ {
			hs = append(hs, concHistory(rng, total+*n+6+i, *tmax))
		}
		total += len(hs)
		for _, h := range hs {
			h.cache = memrevcache.New()
		}
		t0 := time.Now().Truncate(time.Second).Add(time.Second)
		for t := 0; t <= *tmax; t++ {
			// a call is judged against one second only if it runs inside [t+0.25 s, t+0.75 s]: start right
			// after the guard band so that a loaded machine has the whole half second
			time.Sleep(time.Until(t0.Add(time.Duration(t)*time.Second + 280*time.Millisecond)))
			var wg sync.WaitGroup
			for c := 0; c < 8; c++ {
				wg.Add(1)
				go func(c int) {
					defer wg.Done()
					for i := c; i < len(hs); i += 8 {
						for _, o := range hs[i].ticks[t] {
							hs[i].exec(t0, o)
						}
					}
				}(c)
			}
			wg.Wait()
		}
		for _, h := range hs {
			w.Emit(vt.M{"ev": "reset", "id": h.id})
			for _, e := range h.evs {
				w.Emit(e)
			}
		}
	}
	w.Close()
	fmt.Printf("histories=%d events=%d\n", total, w.N)
}
