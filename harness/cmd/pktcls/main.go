// Driver for C43: renders TLC-generated traffic-class ASTs to the documented text syntax, parses them
// with the real pktcls.BuildClassTree, evaluates the real Cond on real layers.IPv4 packets, prints it
// with String(), parses the printed text again and evaluates again.  Observations only: the values are
// judged by TrafficClassTrace.tla.
package main

import (
	"bufio"
	"encoding/json"
	"flag"
	"fmt"
	"math/rand"
	"net"
	"os"
	"strings"

	"github.com/gopacket/gopacket"
	"github.com/gopacket/gopacket/layers"

	"github.com/scionproto/scion/gateway/pktcls"

	"verifharness/internal/vt"
)

type ast struct {
	T   string `json:"t"`
	Ch  []*ast `json:"ch,omitempty"`
	V   *int   `json:"v,omitempty"`
	A   []int  `json:"a,omitempty"`
	Len *int   `json:"len,omitempty"`
	Lo  *int   `json:"lo,omitempty"`
	Hi  *int   `json:"hi,omitempty"`
}

type pkt struct {
	Src   []int `json:"src"`
	Dst   []int `json:"dst"`
	TOS   int   `json:"tos"`
	Proto int   `json:"proto"`
	Ports int   `json:"ports"`
	Sport int   `json:"sport"`
	Dport int   `json:"dport"`
}

type rec struct {
	Ev   string `json:"ev"`
	Pkts []pkt  `json:"pkts,omitempty"`
	AST  *ast   `json:"ast,omitempty"`
}

var protoNames = map[int][]string{6: {"TCP", "tcp", "Tcp"}, 17: {"UDP", "udp"}, 132: {"SCTP", "sctp"},
	47: {"GRE"}, 51: {"AH", "ah"}}

func pick(r *rand.Rand, xs ...string) string { return xs[r.Intn(len(xs))] }

func render(a *ast, r *rand.Rand) string {
	ws := func() string {
		if r.Intn(5) == 0 {
			return " "
		}
		return ""
	}
	switch a.T {
	case "all", "any", "not":
		kw := pick(r, a.T, strings.ToUpper(a.T))
		parts := make([]string, len(a.Ch))
		for i, c := range a.Ch {
			parts[i] = render(c, r)
		}
		return kw + ws() + "(" + ws() + strings.Join(parts, ws()+","+ws()) + ws() + ")"
	case "bool":
		return pick(r, "bool", "BOOL") + "=" + map[int]string{0: "false", 1: "true"}[*a.V]
	case "src", "dst":
		return fmt.Sprintf("%s=%d.%d.%d.%d/%d", pick(r, a.T, strings.ToUpper(a.T)), a.A[0], a.A[1], a.A[2], a.A[3], *a.Len)
	case "dscp", "tos":
		f := pick(r, "%x", "%X", "%02x")
		return pick(r, a.T, strings.ToUpper(a.T)) + "=0x" + fmt.Sprintf(f, *a.V)
	case "proto":
		names, ok := protoNames[*a.V]
		if !ok {
			vt.Fatal("no text name for protocol %d", *a.V)
		}
		return pick(r, "protocol", "PROTOCOL") + "=" + names[r.Intn(len(names))]
	case "sport", "dport":
		kw := map[string]string{"sport": "srcport", "dport": "dstport"}[a.T]
		kw = pick(r, kw, strings.ToUpper(kw))
		if *a.Lo == *a.Hi && r.Intn(2) == 0 {
			return fmt.Sprintf("%s=%d", kw, *a.Lo)
		}
		return fmt.Sprintf("%s=%d-%d", kw, *a.Lo, *a.Hi)
	}
	vt.Fatal("unknown node %q", a.T)
	return ""
}

func ip(o []int) net.IP { return net.IPv4(byte(o[0]), byte(o[1]), byte(o[2]), byte(o[3])).To4() }

// mkPacket serialises a real IPv4 packet and decodes it again, as the gateway does with packets read
// from the tunnel device.
func mkPacket(p pkt) *layers.IPv4 {
	ip4 := &layers.IPv4{Version: 4, IHL: 5, TTL: 64, TOS: uint8(p.TOS), Protocol: layers.IPProtocol(p.Proto),
		SrcIP: ip(p.Src), DstIP: ip(p.Dst)}
	buf := gopacket.NewSerializeBuffer()
	opts := gopacket.SerializeOptions{FixLengths: true, ComputeChecksums: true}
	var ls []gopacket.SerializableLayer
	ls = append(ls, ip4)
	switch {
	case p.Ports == 1 && p.Proto == 6:
		tcp := &layers.TCP{SrcPort: layers.TCPPort(p.Sport), DstPort: layers.TCPPort(p.Dport), Seq: 1, SYN: true, Window: 100}
		_ = tcp.SetNetworkLayerForChecksum(ip4)
		ls = append(ls, tcp, gopacket.Payload([]byte("payload")))
	case p.Ports == 1 && p.Proto == 17:
		udp := &layers.UDP{SrcPort: layers.UDPPort(p.Sport), DstPort: layers.UDPPort(p.Dport)}
		_ = udp.SetNetworkLayerForChecksum(ip4)
		ls = append(ls, udp, gopacket.Payload([]byte("payload")))
	case p.Ports == 1:
		vt.Fatal("ports on protocol %d", p.Proto)
	case p.Proto == 6 || p.Proto == 17:
		// a TCP/UDP packet whose transport header is cut short: no ports can be read
		ls = append(ls, gopacket.Payload([]byte{0, 80, 0}))
	default:
		ls = append(ls, gopacket.Payload([]byte{8, 0, 0, 0, 0, 80, 0, 80}))
	}
	if err := gopacket.SerializeLayers(buf, opts, ls...); err != nil {
		vt.Fatal("serialize: %v", err)
	}
	out := &layers.IPv4{}
	if err := out.DecodeFromBytes(buf.Bytes(), gopacket.NilDecodeFeedback); err != nil {
		vt.Fatal("decode: %v", err)
	}
	return out
}

func evalAll(c interface{ Eval(gopacket.Layer) bool }, pkts []*layers.IPv4) []int {
	res := []int{}
	for i, p := range pkts {
		if c.Eval(p) {
			res = append(res, i+1)
		}
	}
	return res
}

func main() {
	in := flag.String("in", "", "scenario ndjson")
	outp := flag.String("out", "", "trace ndjson")
	flag.Parse()
	f, err := os.Open(*in)
	if err != nil {
		vt.Fatal("open: %v", err)
	}
	defer f.Close()
	w := vt.NewWriter(*outp)
	defer w.Close()
	r := vt.Rand(43)
	sc := bufio.NewScanner(f)
	sc.Buffer(make([]byte, 1<<20), 1<<28)
	var pkts []*layers.IPv4
	for sc.Scan() {
		var rc rec
		if err := json.Unmarshal(sc.Bytes(), &rc); err != nil {
			vt.Fatal("scenario line: %v", err)
		}
		switch rc.Ev {
		case "reset":
			pkts = pkts[:0]
			for _, p := range rc.Pkts {
				pkts = append(pkts, mkPacket(p))
			}
			w.Emit(vt.M{"ev": "reset", "pkts": rc.Pkts})
		case "cls":
			out := vt.M{"ev": "cls", "ast": rc.AST, "text": "", "err1": 0, "true1": []int{}, "printed": "",
				"err2": 0, "true2": []int{}, "err3": 0, "true3": []int{}, "panic": 0}
			func() {
				defer func() {
					if e := recover(); e != nil {
						out["panic"] = 1
					}
				}()
				text := render(rc.AST, r)
				out["text"] = text
				c1, err := pktcls.BuildClassTree(text)
				if err != nil {
					out["err1"] = 1
					return
				}
				out["true1"] = evalAll(c1, pkts)
				printed := c1.String()
				out["printed"] = printed
				c2, err := pktcls.BuildClassTree(printed)
				if err != nil {
					out["err2"] = 1
					return
				}
				out["true2"] = evalAll(c2, pkts)
				// configuration form: the class inside a ClassMap, marshalled to JSON and loaded again
				cm := pktcls.ClassMap{"cls": pktcls.NewClass("cls", c1)}
				js, err := json.Marshal(cm)
				if err != nil {
					out["err3"] = 1
					return
				}
				var cm2 pktcls.ClassMap
				if err := json.Unmarshal(js, &cm2); err != nil || cm2["cls"] == nil || cm2["cls"].Cond == nil {
					out["err3"] = 1
					return
				}
				out["true3"] = evalAll(cm2["cls"], pkts)
			}()
			w.Emit(out)
		default:
			vt.Fatal("unknown scenario record %q", rc.Ev)
		}
	}
	if err := sc.Err(); err != nil {
		vt.Fatal("read: %v", err)
	}
}
