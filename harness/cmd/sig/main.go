// Driver for C41: runs the real SIG frame encoder and the real ingress worker (reassembly) of
// gateway/dataplane through the verif export (H4) on scenarios made of packet lists, write/read
// plans and frame delivery schedules.  It logs observations only (what was written, the frames the
// encoder returned, what the worker wrote to the tunnel device, the reassembly list metadata);
// SigFramingTrace.tla judges.
//
// Scenario (one JSON object per line):
//
//	{"mode":"lossless"|"faulty","streams":[{"mtu":57,"pkts":[{"len":45,"ver":4,"bad":""}..],
//	  "plan":[{"w":2},{"r":1},{"w":1},{"r":-1},{"close":1},{"drain":1}]}..],
//	 "sched":[[stream,frameNo]..]}      (lossless: sched absent = every frame once, in order)
package main

import (
	"bufio"
	"bytes"
	"context"
	"crypto/sha256"
	"encoding/binary"
	"encoding/json"
	"flag"
	"io"
	"net"
	"os"
	"sync"
	"time"

	"github.com/scionproto/scion/gateway/control"
	"github.com/scionproto/scion/gateway/dataplane"
	"github.com/scionproto/scion/pkg/addr"
	"github.com/scionproto/scion/pkg/snet"

	"verifharness/internal/vt"
)

type pktSpec struct {
	Len int    `json:"len"`
	Ver int    `json:"ver"`
	Bad string `json:"bad"`
}

type step struct {
	W     int `json:"w"`
	R     int `json:"r"`
	Close int `json:"close"`
	Drain int `json:"drain"`
}

type streamSpec struct {
	Src  int       `json:"src"`  // ingress mode: index of the remote gateway (ISD-AS, host) the frames come from
	Sess int       `json:"sess"` // ingress mode: session id (0: stream number)
	MTU  int       `json:"mtu"`
	Pkts []pktSpec `json:"pkts"`
	Plan []step    `json:"plan"`
}

type scenario struct {
	IDBit   *int         `json:"idbit"`  // stream ids of streams 1, 2, .. differ from a base id only in this bit (+ stream number - 2)
	SameID  int          `json:"sameid"` // all streams use one stream id: a restarted sender (sequence numbers start again)
	Mode    string       `json:"mode"`
	Streams []streamSpec `json:"streams"`
	Sched   [][]int      `json:"sched"`
}

type pktID struct{ s, id int }

// fill gives every byte of a packet a value depending on (stream, id, offset) so that a splice of two
// packets cannot be byte-identical to a packet that was sent.
func fill(b []byte, s, id int) {
	for o := range b {
		b[o] = byte(s*97 + id*131 + o*7 + (o>>8)*13 + (o*o)>>5)
	}
}

// mkPacket builds packet id of stream s: a valid IPv4 / IPv6 packet of the given length, or an
// invalid one of the requested kind.
func mkPacket(s, id int, p pktSpec) []byte {
	b := make([]byte, p.Len)
	fill(b, s, id)
	switch {
	case p.Ver == 4 && p.Len >= 20:
		b[0] = 0x45
		binary.BigEndian.PutUint16(b[2:4], uint16(p.Len))
		binary.BigEndian.PutUint16(b[4:6], uint16(id))
		b[6], b[7] = 0, 0
		b[9] = 253
		copy(b[12:16], []byte{10, byte(s), byte(id >> 8), byte(id)})
	case p.Ver == 6 && p.Len >= 40:
		b[0] = 0x60
		binary.BigEndian.PutUint16(b[4:6], uint16(p.Len-40))
		b[6] = 59
		binary.BigEndian.PutUint16(b[8:10], 0x2001)
		b[22], b[23] = byte(id>>8), byte(id)
		b[21] = byte(s)
	case p.Len > 0:
		b[0] = byte(p.Ver<<4) | 5
	}
	switch p.Bad {
	case "":
	case "ver": // unknown IP version
		b[0] = 0x55
	case "len": // length field disagrees with the packet size
		if p.Ver == 4 {
			binary.BigEndian.PutUint16(b[2:4], uint16(p.Len+1))
		} else {
			binary.BigEndian.PutUint16(b[4:6], uint16(p.Len-40+1))
		}
	case "short", "empty": // shorter than the minimal header (the length says so)
	default:
		vt.Fatal("unknown invalid-packet kind %q", p.Bad)
	}
	return b
}

type sink struct{ pkts [][]byte }

func (s *sink) Write(b []byte) (int, error) {
	s.pkts = append(s.pkts, append([]byte(nil), b...))
	return len(b), nil
}
func (s *sink) Close() error { return nil }

type frameRec struct {
	raw []byte
}

func readFrame(enc *dataplane.VerifEncoder) (f []byte, stuck bool) {
	ch := make(chan []byte, 1)
	go func() {
		fr := enc.Read()
		if fr == nil {
			ch <- nil
			return
		}
		ch <- append([]byte{}, fr...)
	}()
	select {
	case fr := <-ch:
		return fr, false
	case <-time.After(20 * time.Second):
		return nil, true
	}
}

func run(w *vt.Writer, sc *scenario, scn int) {
	nstreams := len(sc.Streams)
	caps := make([]int, nstreams)
	for i, st := range sc.Streams {
		caps[i] = st.MTU - 16
	}
	devOf := make([]int, nstreams)
	for i, st := range sc.Streams {
		if st.Src == 3 {
			devOf[i] = 2
		} else {
			devOf[i] = 1
		}
	}
	w.Emit(vt.M{"ev": "reset", "scn": scn, "mode": sc.Mode, "cap": dataplane.VerifReassemblyListCap, "F": caps,
		"dev": devOf})
	byHash := map[[32]byte]pktID{}
	frames := make([][]frameRec, nstreams)
	epochs := make([]int, nstreams)
	sessIDs := make([]int, nstreams)
	panicked := false
	func() {
		defer func() {
			if e := recover(); e != nil {
				panicked = true
				w.Emit(vt.M{"ev": "panic", "where": "sender"})
			}
		}()
		for si, st := range sc.Streams {
			s := si + 1
			streamID := uint32(0x1000*s + 7)
			if sc.IDBit != nil {
				// 20-bit stream ids that differ in a single bit position
				streamID = 0x25a5b
				if s > 1 {
					streamID ^= 1 << uint((*sc.IDBit+s-2)%20)
				}
			}
			if sc.SameID == 1 {
				streamID = 0x1007
			}
			epochs[si] = int(streamID & 0xfffff)
			sess := uint8(s)
			if st.Sess != 0 {
				sess = uint8(st.Sess)
			}
			sessIDs[si] = int(sess)
			enc := dataplane.VerifNewEncoder(sess, streamID, uint16(st.MTU))
			var stream []byte // the valid packets, concatenated
			framed := 0
			next := 0
			closed := false
			emitFrame := func(fr []byte) {
				pay := fr[16:]
				pos := -1
				if framed+len(pay) <= len(stream) && bytes.Equal(stream[framed:framed+len(pay)], pay) {
					pos = framed
				} else if k := bytes.Index(stream, pay); k >= 0 {
					pos = k
				}
				hdrok := 0
				if fr[0] == 0 && int(fr[1]) == sessIDs[si] && int(binary.BigEndian.Uint32(fr[4:8])) == epochs[si] {
					hdrok = 1
				}
				w.Emit(vt.M{"ev": "frame", "s": s, "seq": int(binary.BigEndian.Uint64(fr[8:16])),
					"index": int(binary.BigEndian.Uint16(fr[2:4])), "n": len(pay), "pos": pos, "hdrok": hdrok})
				frames[si] = append(frames[si], frameRec{raw: fr})
				framed += len(pay)
			}
			for _, stp := range st.Plan {
				switch {
				case stp.W > 0:
					for k := 0; k < stp.W && next < len(st.Pkts); k++ {
						p := st.Pkts[next]
						next++
						b := mkPacket(s, next, p)
						valid := 0
						if p.Bad == "" {
							valid = 1
							stream = append(stream, b...)
						}
						byHash[sha256.Sum256(b)] = pktID{s, next}
						w.Emit(vt.M{"ev": "write", "s": s, "id": next, "len": len(b), "ver": p.Ver, "valid": valid})
						enc.Write(b)
					}
				case stp.R != 0:
					// r > 0: that many frames (never more than there is data for); r = -1: until
					// everything written so far is framed.  Read is only called while data is pending,
					// so it cannot block on an honest encoder.
					for k := 0; (stp.R < 0 || k < stp.R) && framed < len(stream); k++ {
						fr, stuck := readFrame(enc)
						if stuck {
							w.Emit(vt.M{"ev": "stuck", "s": s})
							return
						}
						if fr == nil {
							w.Emit(vt.M{"ev": "eof", "s": s, "early": 1})
							return
						}
						emitFrame(fr)
					}
				case stp.Close == 1:
					enc.Close()
					closed = true
				case stp.Drain == 1:
					if !closed {
						vt.Fatal("drain before close")
					}
					for {
						fr, stuck := readFrame(enc)
						if stuck {
							w.Emit(vt.M{"ev": "stuck", "s": s})
							return
						}
						if fr == nil {
							w.Emit(vt.M{"ev": "eof", "s": s, "early": 0})
							break
						}
						emitFrame(fr)
					}
				}
			}
			if !closed {
				enc.Close()
			}
		}
	}()
	if panicked {
		w.Emit(vt.M{"ev": "end"})
		return
	}
	if sc.Mode == "ingress" {
		runIngress(w, sc, frames, byHash)
		w.Emit(vt.M{"ev": "end"})
		return
	}
	// network + receiver
	snk := &sink{}
	wk := dataplane.VerifNewWorker(snk)
	sched := sc.Sched
	if sched == nil {
		idx := make([]int, nstreams)
		for more := true; more; {
			more = false
			for si := range frames {
				if idx[si] < len(frames[si]) {
					idx[si]++
					sched = append(sched, []int{si + 1, idx[si]})
					more = true
				}
			}
		}
	}
	func() {
		defer func() {
			if e := recover(); e != nil {
				w.Emit(vt.M{"ev": "panic", "where": "receiver"})
			}
		}()
		for _, d := range sched {
			s, k := d[0], d[1]
			if s < 1 || s > nstreams || k < 1 || k > len(frames[s-1]) {
				continue // the schedule names a frame the sender did not produce (judged on the sender side)
			}
			raw := frames[s-1][k-1].raw
			tamper := 0
			if len(d) >= 4 && d[2] != 0 {
				// adversarial frame: a header field is rewritten / the frame is cut (not something the sender or
				// the network of the fault model does)
				tamper = d[2]
				raw = append([]byte(nil), raw...)
				switch d[2] {
				case 1:
					binary.BigEndian.PutUint16(raw[2:4], uint16(d[3]))
				case 2:
					binary.BigEndian.PutUint64(raw[8:16], uint64(int(binary.BigEndian.Uint64(raw[8:16]))+d[3]))
				case 3:
					binary.BigEndian.PutUint32(raw[4:8], uint32(d[3])&0xfffff)
				case 4:
					if n := 16 + d[3]; n < len(raw) {
						raw = raw[:n]
					}
				}
			}
			w.Emit(vt.M{"ev": "deliver", "s": s, "k": k, "tamper": tamper})
			snk.pkts = snk.pkts[:0]
			wk.ProcessFrame(raw)
			for _, p := range snk.pkts {
				id := byHash[sha256.Sum256(p)]
				w.Emit(vt.M{"ev": "emit", "s": id.s, "id": id.id, "len": len(p)})
			}
			st := [][]int{}
			for _, f := range wk.ReassemblyState(epochs[s-1]) {
				st = append(st, []int{int(f.SeqNr), f.Index, f.FrameLen, f.Frag0Start, f.PktLen})
			}
			w.Emit(vt.M{"ev": "st", "s": s, "list": st})
		}
	}()
	w.Emit(vt.M{"ev": "end"})
}

// ---------------------------------------------------------------------------- ingress server

var remotes = []*snet.UDPAddr{
	{IA: addr.MustParseIA("1-ff00:0:110"), Host: &net.UDPAddr{IP: net.IPv4(10, 1, 0, 1), Port: 30256}},
	{IA: addr.MustParseIA("1-ff00:0:110"), Host: &net.UDPAddr{IP: net.IPv4(10, 1, 0, 2), Port: 30256}},
	{IA: addr.MustParseIA("2-ff00:0:220"), Host: &net.UDPAddr{IP: net.IPv4(10, 1, 0, 1), Port: 30256}},
}

type emitted struct {
	dev int
	pkt []byte
}

type devices struct {
	mu  sync.Mutex
	out []emitted
}

type device struct {
	d   *devices
	dev int
}

func (h *device) Write(b []byte) (int, error) {
	h.d.mu.Lock()
	h.d.out = append(h.d.out, emitted{dev: h.dev, pkt: append([]byte(nil), b...)})
	h.d.mu.Unlock()
	return len(b), nil
}
func (h *device) Read([]byte) (int, error)                          { return 0, io.EOF }
func (h *device) Close() error                                      { return nil }
func (h *device) AddRoute(context.Context, *control.Route) error    { return nil }
func (h *device) DeleteRoute(context.Context, *control.Route) error { return nil }

// Get hands out the tunnel device of a remote ISD-AS: device 1 for the first, 2 for the second ISD-AS.
func (d *devices) Get(_ context.Context, ia addr.IA) (control.DeviceHandle, error) {
	dev := 1
	if ia == remotes[2].IA {
		dev = 2
	}
	return &device{d: d, dev: dev}, nil
}

type feedConn struct {
	items  []feedItem
	next   int
	finish chan struct{}
}

type feedItem struct {
	raw []byte
	src *snet.UDPAddr
}

func (c *feedConn) ReadFrom(b []byte) (int, net.Addr, error) {
	if c.next >= len(c.items) {
		<-c.finish
		return 0, &net.UDPAddr{}, nil // not an snet address: ends IngressServer.Run
	}
	it := c.items[c.next]
	c.next++
	return copy(b, it.raw), it.src, nil
}

// runIngress feeds the frames of all streams, interleaved but each stream in order and complete, to a real
// IngressServer (worker selection by remote ISD-AS / host / session id, one goroutine per worker) and logs what
// the workers write to the tunnel devices.  The last packet of every stream tells that its worker is done.
func runIngress(w *vt.Writer, sc *scenario, frames [][]frameRec, byHash map[[32]byte]pktID) {
	devs := &devices{}
	conn := &feedConn{finish: make(chan struct{})}
	idx := make([]int, len(frames))
	for more := true; more; {
		more = false
		for si := range frames {
			if idx[si] < len(frames[si]) {
				conn.items = append(conn.items, feedItem{raw: frames[si][idx[si]].raw, src: remotes[sc.Streams[si].Src-1]})
				idx[si]++
				more = true
			}
		}
	}
	last := map[pktID]bool{}
	for si, st := range sc.Streams {
		for k := len(st.Pkts) - 1; k >= 0; k-- {
			if st.Pkts[k].Bad == "" {
				last[pktID{si + 1, k + 1}] = true
				break
			}
		}
	}
	srv := &dataplane.IngressServer{Conn: conn, DeviceManager: devs}
	done := make(chan struct{})
	go func() {
		defer close(done)
		defer func() { _ = recover() }()
		_ = srv.Run(context.Background())
	}()
	deadline := time.Now().Add(90 * time.Second)
	complete := false
	for !complete && time.Now().Before(deadline) {
		time.Sleep(5 * time.Millisecond)
		devs.mu.Lock()
		seen := 0
		for _, e := range devs.out {
			if last[byHash[sha256.Sum256(e.pkt)]] {
				seen++
			}
		}
		devs.mu.Unlock()
		complete = seen >= len(last)
	}
	close(conn.finish)
	<-done
	devs.mu.Lock()
	defer devs.mu.Unlock()
	for _, e := range devs.out {
		id := byHash[sha256.Sum256(e.pkt)]
		w.Emit(vt.M{"ev": "emit", "s": id.s, "id": id.id, "len": len(e.pkt), "dev": e.dev})
	}
	if !complete {
		w.Emit(vt.M{"ev": "timeout"})
	}
}

func main() {
	in := flag.String("in", "", "scenario ndjson")
	outp := flag.String("out", "", "trace ndjson")
	flag.Parse()
	f, err := os.Open(*in)
	if err != nil {
		vt.Fatal("open: %v", err)
	}
	defer f.Close()
	w := vt.NewWriter(*outp)
	defer w.Close()
	scan := bufio.NewScanner(f)
	scan.Buffer(make([]byte, 1<<20), 1<<28)
	n := 0
	for scan.Scan() {
		var sc scenario
		if err := json.Unmarshal(scan.Bytes(), &sc); err != nil {
			vt.Fatal("scenario line: %v", err)
		}
		n++
		run(w, &sc, n)
	}
	if err := scan.Err(); err != nil {
		vt.Fatal("read: %v", err)
	}
}
