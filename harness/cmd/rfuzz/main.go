// Driver for C08: feeds byte strings (structure-aware mutations of valid packets, random bytes,
// STUN messages) to the REAL router packet processing on every kind of ingress link -- receive-side
// demultiplexing parse (computeProcID), fast path (processPkt), slow path (SCMP generation) and the
// internal link's STUN processing -- each call under recover. It logs what the router would put on
// the wire (first bytes as integers, for RouterWireTrace.tla) and reproduced panics. It never
// judges.
package main

import (
	"crypto/sha256"
	"encoding/hex"
	"flag"
	"fmt"
	"math/rand"
	"os"
	"regexp"
	"runtime/debug"
	"strings"

	"github.com/scionproto/scion/router"
	"github.com/scionproto/scion/router/underlayproviders/udpip"

	"verifharness/internal/rtpkt"
	"verifharness/internal/vt"
)

// needed mirrors RouterWireOps!Needed: the number of leading bytes on which the well-formedness of a
// packet of length n depends (common + address + path header, the first two extension headers).
// Only this prefix is logged, and outputs that agree on (kind, length, prefix) are logged once.
func needed(b []byte) int {
	n := len(b)
	if n < 12 {
		return n
	}
	h := int(b[5]) * 4
	if h > n {
		return 12
	}
	isExt := func(x byte) bool { return x == 200 || x == 201 }
	if h < 12 {
		return 12
	}
	if !isExt(b[4]) {
		return h
	}
	if n < h+2 {
		return n
	}
	e1 := h + (int(b[h+1])+1)*4
	if !isExt(b[h]) || e1 > n {
		return h + 2
	}
	if e1+2 > n {
		return n
	}
	return e1 + 2
}

// wfKey is the abstract projection of an output on which RouterWireOps!WhyNot depends: the bytes
// the predicate reads (lengths, path type, address types, path meta header, extension header
// lengths). Outputs with equal projections get the same verdict and are logged once.
func wfKey(kind string, b []byte) string {
	n := len(b)
	at := func(o int) int {
		if o < 0 || o >= n {
			return -1
		}
		return int(b[o])
	}
	if kind == "stun" {
		return fmt.Sprint(kind, n, at(0), at(1), at(2), at(3), at(4), at(5), at(6), at(7))
	}
	if n < 12 {
		return fmt.Sprint(kind, n)
	}
	h := int(b[5]) * 4
	po := 12 + 16 + (int(b[9]>>4)&3+1)*4 + (int(b[9])&3+1)*4
	mo := po
	if b[8] == 3 {
		mo = po + 16
	}
	k := fmt.Sprint(kind, n, b[4], b[5], b[6], b[7], b[8], b[9], at(mo), at(mo+1), at(mo+2), at(mo+3))
	if h <= n && (b[4] == 200 || b[4] == 201) {
		e1 := h + (at(h+1)+1)*4
		k += fmt.Sprint(" ", at(h), at(h+1), at(e1), at(e1+1))
	}
	return k
}

type input struct {
	raw  []byte
	via  uint16
	auth bool // which router (SCMP authentication on / off)
	desc string
}

type outcome struct {
	kind  string // "drop" | "fwd" | "scmp" | "stun"
	out   []byte
	panic string // "" or normalized location
	msg   string
}

type fuzzer struct {
	dps   [2]*router.VerifDP
	w     *vt.Writer
	seen  map[[32]byte]bool
	hist  []input
	stats map[string]int
	pan   map[string]int
	nin   int
}

func newDP(auth bool) *router.VerifDP {
	v, err := router.VerifNewDP(rtpkt.Config(nil, 4, true, false, auth))
	if err != nil {
		vt.Fatal("VerifNewDP: %v", err)
	}
	return v
}

func idx(b bool) int {
	if b {
		return 1
	}
	return 0
}

var frameRe = regexp.MustCompile(`(?m)^(github\.com/scionproto/scion/[^\s(]+(?:\([^)]*\))?[^\s(]*)\(`)

// where returns the innermost function of /repo on the panicking stack.
func where(stack string) string {
	// skip the frames of the panic machinery: the first scion frame after "panic(" is the culprit
	i := strings.Index(stack, "panic(")
	if i >= 0 {
		stack = stack[i:]
	}
	for _, m := range frameRe.FindAllStringSubmatch(stack, -1) {
		f := strings.TrimPrefix(m[1], "github.com/scionproto/scion/")
		if strings.Contains(f, "Verif") {
			continue
		}
		return f
	}
	return "unknown"
}

var numRe = regexp.MustCompile(`[0-9]+`)

// process runs one input through the router code of v.
func process(v *router.VerifDP, in input) (o outcome) {
	defer func() {
		if r := recover(); r != nil {
			o = outcome{kind: "drop", panic: where(string(debug.Stack())),
				msg: numRe.ReplaceAllString(fmt.Sprint(r), "N")}
		}
	}()
	p := v.NewPacket(in.raw, in.via, rtpkt.SrcOf(in.via))
	// receive side: every datagram is parsed by computeProcID first
	_, ok := udpip.VerifComputeProcID(p.RawPacket, 3, 0x811c9dc5)
	if !ok {
		if in.via != 0 {
			return outcome{kind: "drop"}
		}
		_, err := udpip.VerifInternalProcess(v.Link(0), p)
		if err != nil || p.Link == nil {
			return outcome{kind: "drop"}
		}
		return outcome{kind: "stun", out: append([]byte(nil), p.RawPacket...)}
	}
	r := v.Process(p)
	switch r.Disp {
	case router.VerifForward:
		if r.OutLink == nil {
			return outcome{kind: "drop"}
		}
		return outcome{kind: "fwd", out: append([]byte(nil), r.Raw...)}
	case router.VerifSlowPath:
		r2, err := v.ProcessSlow(p)
		if err != nil || r2.OutLink == nil {
			return outcome{kind: "drop"}
		}
		return outcome{kind: "scmp", out: append([]byte(nil), r2.Raw...)}
	}
	return outcome{kind: "drop"}
}

func (f *fuzzer) feed(in input) {
	f.nin++
	v := f.dps[idx(in.auth)]
	o := process(v, in)
	if o.panic != "" {
		// the processors may be in an inconsistent state: fresh router, then reproduce
		f.dps[idx(in.auth)] = newDP(in.auth)
		single := 0
		for k := 0; k < 3; k++ {
			if r := process(newDP(in.auth), in); r.panic == o.panic {
				single++
			}
		}
		withHist := 0
		if single < 3 {
			for k := 0; k < 3; k++ {
				d := newDP(in.auth)
				for _, h := range f.hist {
					if h.auth == in.auth {
						process(d, h)
					}
				}
				if r := process(d, in); r.panic == o.panic {
					withHist++
				}
			}
		}
		key := o.panic + "|" + o.msg
		f.pan[key]++
		if f.pan[key] <= 3 {
			ev := vt.M{"ev": "panic", "where": o.panic, "msg": o.msg, "via": int(in.via), "auth": in.auth,
				"desc": in.desc, "in": hex.EncodeToString(in.raw), "hist": []string{}}
			if single < 3 && withHist == 3 {
				hs := []string{}
				for _, h := range f.hist {
					if h.auth == in.auth {
						hs = append(hs, fmt.Sprintf("%d:%s", h.via, hex.EncodeToString(h.raw)))
					}
				}
				ev["hist"] = hs
			} else if single < 3 {
				ev["ev"] = "panic-unreproduced"
			}
			f.w.Emit(ev)
		}
		f.stats["panic"]++
	} else {
		f.stats[o.kind]++
		if o.kind != "drop" {
			n := len(o.out)
			logged := o.out
			if o.kind != "stun" {
				logged = logged[:needed(o.out)]
			}
			h := sha256.Sum256([]byte(wfKey(o.kind, o.out)))
			if f.seen[h] {
				f.stats["dedup"]++
			} else {
				f.seen[h] = true
				f.w.Emit(vt.M{"ev": "out", "kind": o.kind, "via": int(in.via), "auth": in.auth, "len": n,
					"b": vt.Ints(logged), "desc": in.desc, "in": hex.EncodeToString(in.raw)})
			}
		}
	}
	f.hist = append(f.hist, in)
	if len(f.hist) > 8 {
		f.hist = f.hist[1:]
	}
	if f.nin%2000 == 0 {
		f.flush()
	}
}

func (f *fuzzer) flush() {
	ev := vt.M{"ev": "batch", "n": f.nin}
	for _, k := range []string{"drop", "fwd", "scmp", "stun", "dedup", "panic"} {
		ev[k] = f.stats[k]
	}
	f.w.Emit(ev)
}

// ------------------------------------------------------------------------------------ mutation

// fields returns the offsets of the structural fields of a (valid) packet: common header, address
// type byte, path meta header, info / hop field flag and interface bytes, first bytes after the
// SCION header (extension / L4 header).
func fields(raw []byte) []int {
	offs := []int{0, 1, 4, 5, 6, 7, 8, 9, 10, 11}
	if len(raw) < 12 {
		return offs
	}
	dl := (int(raw[9]>>4)&3 + 1) * 4
	sl := (int(raw[9])&3 + 1) * 4
	po := 12 + 16 + dl + sl
	hl := int(raw[5]) * 4
	for o := po; o < hl && o < len(raw) && o < po+4; o++ {
		offs = append(offs, o)
	}
	if raw[8] == 1 && po+4 <= len(raw) {
		s0 := int(raw[po+1]&3)<<4 | int(raw[po+2]>>4)
		s1 := int(raw[po+2]&15)<<2 | int(raw[po+3]>>6)
		s2 := int(raw[po+3] & 63)
		ninf := 0
		for _, s := range []int{s0, s1, s2} {
			if s > 0 {
				ninf++
			}
		}
		o := po + 4
		for i := 0; i < ninf; i++ {
			offs = append(offs, o, o+2, o+3) // flags, SegID
			o += 8
		}
		for i := 0; i < s0+s1+s2 && o+12 <= len(raw); i++ {
			offs = append(offs, o, o+1, o+2, o+3, o+4, o+5, o+6) // flags, exp, ingress, egress, mac[0]
			o += 12
		}
	}
	for o := hl; o < hl+12 && o < len(raw); o++ {
		offs = append(offs, o)
	}
	return offs
}

var vals = []int{0, 1, 2, 3, 4, 0x10, 0x3f, 0x40, 0x7f, 0x80, 0xc0, 0xfe, 0xff}

func mutate(rng *rand.Rand, raw []byte, corpus []rtpkt.Named) ([]byte, string) {
	b := append([]byte(nil), raw...)
	n := 1 + rng.Intn(3)
	desc := ""
	for k := 0; k < n; k++ {
		switch op := rng.Intn(10); {
		case op < 5 && len(b) > 0: // structural field to an interesting value
			fs := fields(b)
			o := fs[rng.Intn(len(fs))]
			if o >= len(b) || op == 4 { // op 4: any byte (L4 headers, SCMP quotes and their inner headers)
				o = rng.Intn(len(b))
			}
			v := vals[rng.Intn(len(vals))]
			switch rng.Intn(4) {
			case 0:
				v = int(b[o]) + 1
			case 1:
				v = int(b[o]) - 1
			case 2:
				v = rng.Intn(256)
			}
			b[o] = byte(v)
			desc += fmt.Sprintf("set@%d ", o)
		case op == 5 && len(b) > 1: // truncate
			b = b[:rng.Intn(len(b))]
			desc += "trunc "
		case op == 6: // extend
			ext := make([]byte, 1+rng.Intn(64))
			rng.Read(ext)
			b = append(b, ext...)
			desc += "extend "
		case op == 7 && len(b) > 0: // bit flip anywhere
			o := rng.Intn(len(b))
			b[o] ^= 1 << uint(rng.Intn(8))
			desc += fmt.Sprintf("flip@%d ", o)
		case op == 8 && len(b) > 12: // make the length fields consistent with the actual length
			hl := int(b[5]) * 4
			if hl <= len(b) {
				pl := len(b) - hl
				b[6], b[7] = byte(pl>>8), byte(pl)
			}
			desc += "fixlen "
		case op == 9: // splice with another packet
			o := corpus[rng.Intn(len(corpus))].Raw
			if len(o) > 0 && len(b) > 0 {
				cut := rng.Intn(len(b))
				cut2 := rng.Intn(len(o))
				b = append(append([]byte(nil), b[:cut]...), o[cut2:]...)
			}
			desc += "splice "
		}
	}
	return b, desc
}

func randomPkt(rng *rand.Rand) []byte {
	b := make([]byte, 12+rng.Intn(200))
	rng.Read(b)
	b[0] &= 0x0f
	b[4] = []byte{17, 6, 202, 203, 200, 201, 253, 254}[rng.Intn(8)]
	b[8] = byte(rng.Intn(5))
	if rng.Intn(2) == 0 {
		b[9] = []byte{0x00, 0x33, 0x03, 0x30, 0x44}[rng.Intn(5)]
	}
	if rng.Intn(2) == 0 {
		b[5] = byte(len(b) / 4)
	}
	if rng.Intn(2) == 0 && int(b[5])*4 <= len(b) {
		pl := len(b) - int(b[5])*4
		b[6], b[7] = byte(pl>>8), byte(pl)
	}
	return b
}

func stunMut(rng *rand.Rand) ([]byte, string) {
	b := rtpkt.Stun()
	switch rng.Intn(6) {
	case 0:
		return b, "stun-valid"
	case 1:
		return b[:rng.Intn(len(b)+1)], "stun-trunc"
	case 2: // attribute length / message length corruption
		o := 2 + rng.Intn(2)
		if rng.Intn(2) == 0 && len(b) > 23 {
			o = 20 + rng.Intn(4)
		}
		b[o] = byte(vals[rng.Intn(len(vals))])
		return b, fmt.Sprintf("stun-set@%d", o)
	case 3: // bad fingerprint / random tail
		if len(b) > 20 {
			b[len(b)-1] ^= 0xff
		}
		return b, "stun-fingerprint"
	case 4:
		ext := make([]byte, rng.Intn(40))
		rng.Read(ext)
		return append(b, ext...), "stun-extended"
	default:
		o := rng.Intn(len(b))
		b[o] = byte(rng.Intn(256))
		return b, fmt.Sprintf("stun-rand@%d", o)
	}
}

func main() {
	out := flag.String("out", "trace.ndjson", "output trace")
	n := flag.Int("n", 20000, "number of random inputs (on top of the exhaustive single-field families)")
	one := flag.String("hex", "", "process this single input (hex) and print what the router emits")
	oneVia := flag.Int("via", 0, "ingress for -hex")
	oneAuth := flag.Bool("auth", false, "SCMP authentication for -hex")
	flag.Parse()
	if *one != "" {
		raw, err := hex.DecodeString(*one)
		if err != nil {
			vt.Fatal("bad hex: %v", err)
		}
		o := process(newDP(*oneAuth), input{raw, uint16(*oneVia), *oneAuth, "cli"})
		fmt.Printf("kind=%s len=%d needed=%d panic=%q msg=%q\nout=%s\n", o.kind, len(o.out), needed(o.out), o.panic, o.msg,
			hex.EncodeToString(o.out))
		return
	}
	rng := vt.Rand(8)
	f := &fuzzer{w: vt.NewWriter(*out), seen: map[[32]byte]bool{}, stats: map[string]int{}, pan: map[string]int{}}
	f.dps[0], f.dps[1] = newDP(false), newDP(true)
	f.w.Emit(vt.M{"ev": "reset", "id": 0})
	corpus := rtpkt.Corpus([]byte("verif-C08-payload"), true)
	vias := []uint16{0, 1, 2, 3}
	k := 0

	// 0. the corpus itself, on every ingress
	for _, c := range corpus {
		for _, via := range vias {
			for _, auth := range []bool{false, true} {
				f.feed(input{c.Raw, via, auth, c.Name})
			}
		}
	}
	// 0b. the corpus with large payloads (SCMP quotes must be truncated to fit; buffers are 9000 bytes
	//     with 512 bytes of headroom), intact, with a bad first path byte, and truncated by one byte
	for _, size := range []int{900, 1100, 1232, 1233, 1300, 1500, 2000, 4000, 8000, 8300} {
		big := make([]byte, size)
		for i := range big {
			big[i] = byte(i)
		}
		for _, c := range rtpkt.Corpus(big, true) {
			if len(c.Raw) > 8400 {
				continue
			}
			k++
			f.feed(input{c.Raw, c.Via, k%2 == 0, fmt.Sprintf("%s payload=%d", c.Name, size)})
			if len(c.Raw) > 40 {
				b := append([]byte(nil), c.Raw...)
				b[37] ^= 0x41 // inside the path meta header / first info field for 4-byte host addresses
				f.feed(input{b, c.Via, k%2 == 1, fmt.Sprintf("%s payload=%d flip@37", c.Name, size)})
				f.feed(input{c.Raw[:len(c.Raw)-1], c.Via, k%2 == 0, fmt.Sprintf("%s payload=%d trunc-1", c.Name, size)})
			}
		}
	}
	// 0c. long paths: every path length from 4 to 64 hop fields, 1-3 segments, local hop near the
	//     start / middle / end, IPv4 and IPv6 hosts, outcomes that make the router build an SCMP reply
	//     (reply header lengths cross every headroom / maximum-size boundary of prepareSCMP), SCMP
	//     authentication on and off, small and large payload
	var longSample []rtpkt.Named
	for n := 4; n <= 64; n++ {
		for pi, pl := range [][]byte{[]byte("verif-C08-payload"), make([]byte, 1100)} {
			if pi == 1 && n%4 != 0 && !vt.Thorough() {
				continue
			}
			for i, c := range rtpkt.LongPaths(n, pl, vt.Thorough()) {
				for _, auth := range []bool{false, true} {
					f.feed(input{c.Raw, c.Via, auth, c.Name})
				}
				if pi == 0 && (i+n)%9 == 0 {
					longSample = append(longSample, c)
				}
			}
		}
	}
	// 1. exhaustive single-field families on every corpus packet (own ingress; both routers
	//    alternately): header bytes to every value, truncation at every length
	for _, c := range corpus {
		if len(c.Raw) < 12 {
			continue
		}
		dl := (int(c.Raw[9]>>4)&3 + 1) * 4
		sl := (int(c.Raw[9])&3 + 1) * 4
		po := 12 + 16 + dl + sl
		offs := []int{4, 5, 8, 9}
		if c.Raw[8] == 1 {
			offs = append(offs, po, po+1, po+2, po+3)
		}
		step := 1
		if !vt.Thorough() {
			step = 3
		}
		for _, o := range offs {
			if o >= len(c.Raw) {
				continue
			}
			for v := k % step; v < 256; v += step {
				b := append([]byte(nil), c.Raw...)
				b[o] = byte(v)
				k++
				f.feed(input{b, c.Via, k%2 == 0, fmt.Sprintf("%s set@%d=%d", c.Name, o, v)})
			}
		}
		for l := 0; l < len(c.Raw); l += step {
			k++
			f.feed(input{c.Raw[:l], c.Via, k%2 == 0, fmt.Sprintf("%s trunc=%d", c.Name, l)})
			// truncated, but with length fields that agree with the truncation
			b := append([]byte(nil), c.Raw[:l]...)
			if l > 12 && int(b[5])*4 <= l {
				pl := l - int(b[5])*4
				b[6], b[7] = byte(pl>>8), byte(pl)
				f.feed(input{b, c.Via, k%2 == 1, fmt.Sprintf("%s trunc=%d fixlen", c.Name, l)})
			}
		}
	}
	// 1b. STUN on the internal link: every truncation x small values of the message length and of
	//     the attribute length (padding / boundary arithmetic of the attribute walk), also with one
	//     more attribute in front of the fingerprint
	for variant := 0; variant < 2; variant++ {
		base := rtpkt.Stun()
		if variant == 1 && len(base) >= 28 {
			// SOFTWARE attribute (0x8022) of length 5 + 3 bytes padding before the fingerprint
			attr := []byte{0x80, 0x22, 0, 5, 'v', 'e', 'r', 'i', 'f', 0, 0, 0}
			base = append(append(append([]byte(nil), base[:20]...), attr...), base[20:]...)
			base[3] += byte(len(attr))
		}
		for l := 0; l <= len(base); l++ {
			for _, o := range []int{3, 23, 22, 2} {
				for v := 0; v <= 13; v++ {
					b := append([]byte(nil), base[:l]...)
					if o < len(b) {
						b[o] = byte(v)
					}
					k++
					f.feed(input{b, 0, k%2 == 0, fmt.Sprintf("stun v%d trunc=%d set@%d=%d", variant, l, o, v)})
				}
			}
		}
	}
	// 2. seeded random stacks of mutations, random packets, STUN messages
	for i := 0; i < *n; i++ {
		var in input
		switch x := rng.Intn(20); {
		case x < 14:
			c := corpus[rng.Intn(len(corpus))]
			if rng.Intn(4) == 0 && len(longSample) > 0 {
				c = longSample[rng.Intn(len(longSample))]
			}
			b, d := mutate(rng, c.Raw, corpus)
			via := c.Via
			if rng.Intn(4) == 0 {
				via = vias[rng.Intn(4)]
			}
			in = input{b, via, rng.Intn(2) == 0, c.Name + " " + d}
		case x < 17:
			in = input{randomPkt(rng), vias[rng.Intn(4)], rng.Intn(2) == 0, "random"}
		default:
			b, d := stunMut(rng)
			if rng.Intn(2) == 0 && len(b) > 0 { // a second mutation on top
				if rng.Intn(2) == 0 {
					b = b[:rng.Intn(len(b)+1)]
					d += " trunc"
				} else {
					o := rng.Intn(len(b))
					b[o] = byte(vals[rng.Intn(len(vals))])
					d += fmt.Sprintf(" set@%d", o)
				}
			}
			via := uint16(0)
			if rng.Intn(6) == 0 {
				via = vias[rng.Intn(4)]
			}
			in = input{b, via, rng.Intn(2) == 0, d}
		}
		f.feed(in)
	}
	f.flush()
	f.w.Close()
	fmt.Fprintf(os.Stdout, "inputs=%d fwd=%d scmp=%d stun=%d drop=%d dedup=%d panics=%d distinct_panics=%d\n",
		f.nin, f.stats["fwd"], f.stats["scmp"], f.stats["stun"], f.stats["drop"], f.stats["dedup"],
		f.stats["panic"], len(f.pan))
}
