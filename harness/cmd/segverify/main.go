// Driver for C24: builds REAL path segments of 1..10 AS entries signed entry by entry
// (PathSegment.AddASEntry) with REAL trust.Signers over x509 chains, manipulates them on the wire
// form (protobuf fields SegmentInfo / HeaderAndBody / Signature: bit flips, boundary shifts, swap,
// remove, insert replayed or duplicated entries, drop the tail) or at signing time (key certified
// for another AS, another AS's key under the right name, certificate not covering the hop
// lifetime), and runs the REAL decoder + segverifier.VerifySegment with the REAL trust.Verifier
// over a real in-memory trust DB. It logs provenance tags of what was manipulated and the verdict of
// the real code; SegVerifyTrace.tla decides what the verdict has to be.
package main

import (
	"context"
	"crypto/elliptic"
	"encoding/asn1"
	"flag"
	"fmt"
	"math/big"
	"math/rand"
	"net"
	"time"

	"google.golang.org/protobuf/proto"

	"github.com/scionproto/scion/pkg/addr"
	cppb "github.com/scionproto/scion/pkg/proto/control_plane"
	cryptopb "github.com/scionproto/scion/pkg/proto/crypto"
	"github.com/scionproto/scion/pkg/scrypto/cppki"
	"github.com/scionproto/scion/pkg/scrypto/signed"
	seg "github.com/scionproto/scion/pkg/segment"
	"github.com/scionproto/scion/private/segment/segverifier"
	infra "github.com/scionproto/scion/private/segment/verifier"
	"github.com/scionproto/scion/private/trust/compat"

	"verifharness/internal/segs"
	"verifharness/internal/vt"
)

// tag is the provenance of one AS entry of a (manipulated) segment.
type tag struct {
	id      int
	hb, sg  int
	ctxinfo int
	ctx     []int
	local   addr.IA
	claimed addr.IA
	exp     int
	certIA  string
	nb, na  int // seconds relative to t0
	pb      *cppb.ASEntry
}

func (t tag) json() vt.M {
	ctx := append([]int{}, t.ctx...)
	return vt.M{"id": t.id, "hb": t.hb, "sg": t.sg, "ctxinfo": t.ctxinfo, "ctx": ctx,
		"local": segs.IAStr(t.local), "claimed": segs.IAStr(t.claimed), "exp": t.exp,
		"cert": vt.M{"ia": t.certIA, "nb": t.nb * 1000, "na": t.na * 1000}}
}

func clonePB(e *cppb.ASEntry) *cppb.ASEntry {
	return &cppb.ASEntry{
		Signed: &cryptopb.SignedMessage{
			HeaderAndBody: append([]byte{}, e.Signed.HeaderAndBody...),
			Signature:     append([]byte{}, e.Signed.Signature...),
		},
		Unsigned: e.Unsigned,
	}
}

type builder struct {
	w    *segs.World
	rng  *rand.Rand
	off  int // t0 - world.Base in seconds
	tsRe int // ts relative to t0 (seconds)
}

// how entry i is to be signed
const (
	signGood = iota
	signOtherIAHonest
	signOtherKeyRightName
	signCertLate
	signCertEarly
	signCertExact
)

// build signs a segment of n entries over ASes 1..n; idBase separates the ids of different segments;
// special[i] selects a non-standard signer for entry i.
func (b *builder) build(n int, exps []int, ctxinfo, idBase int, special map[int]int) (*seg.PathSegment, []tag) {
	t0 := b.w.T(b.off)
	ts := t0.Add(time.Duration(b.tsRe) * time.Second)
	ps, err := seg.CreateSegment(ts, uint16(b.rng.Intn(1<<16)))
	if err != nil {
		vt.Fatal("create: %v", err)
	}
	return b.extend(ps, nil, n, exps, ctxinfo, idBase, special)
}

// extend continues segment ps (whose entries have the given tags) up to n entries.
func (b *builder) extend(ps *seg.PathSegment, tags []tag, n int, exps []int, ctxinfo, idBase int,
	special map[int]int) (*seg.PathSegment, []tag) {
	ctx := context.Background()
	tags = append([]tag{}, tags...)
	for i := len(tags); i < n; i++ {
		a := i + 1
		local := b.w.IA(a)
		var next addr.IA
		if i < n-1 {
			next = b.w.IA(a + 1)
		}
		hf := seg.HopField{ExpTime: uint8(exps[i])}
		b.rng.Read(hf.MAC[:])
		if i > 0 {
			hf.ConsIngress = uint16(1 + b.rng.Intn(50))
		}
		if i < n-1 {
			hf.ConsEgress = uint16(1 + b.rng.Intn(50))
		}
		ent := seg.ASEntry{Local: local, Next: next, MTU: 1400,
			HopEntry: seg.HopEntry{IngressMTU: 1300, HopField: hf}}
		durMs := (exps[i] + 1) * 337500
		nb, na := b.tsRe-7200, b.tsRe+86400+3600
		claimed, certA := local, a
		t := tag{id: idBase + i + 1, ctxinfo: ctxinfo, local: local, exp: exps[i]}
		switch special[i] {
		case signOtherIAHonest:
			certA, claimed = 10, b.w.IA(10)
		case signOtherKeyRightName:
			certA = 10
		case signCertLate:
			nb = b.tsRe + 60
		case signCertEarly:
			na = b.tsRe + durMs/1000 - 60
		case signCertExact:
			na = b.tsRe + (durMs+999)/1000
		}
		c := b.w.ASCert(certA, b.off+nb, b.off+na, 0)
		signer := b.w.SignerFor(claimed, c)
		if err := ps.AddASEntry(ctx, ent, signer); err != nil {
			vt.Fatal("AddASEntry: %v", err)
		}
		t.claimed, t.nb, t.na = claimed, nb, na
		t.certIA = segs.IAStr(b.w.IA(certA))
		if special[i] == signOtherKeyRightName {
			t.certIA = "" // no chain for (claimed ISD-AS, this key) exists
		}
		for _, p := range tags {
			t.ctx = append(t.ctx, p.id)
		}
		tags = append(tags, t)
	}
	pb := seg.PathSegmentToPB(ps)
	for i := range tags {
		if tags[i].pb == nil {
			tags[i].pb = clonePB(pb.AsEntries[i])
		}
	}
	return ps, tags
}

// malleate returns the other valid ECDSA signature (r, n-s) for the same message and key: an
// alteration of the signature bytes that needs no key and keeps the signature itself valid.
func malleate(der []byte) ([]byte, bool) {
	var sig struct{ R, S *big.Int }
	if rest, err := asn1.Unmarshal(der, &sig); err != nil || len(rest) != 0 {
		return nil, false
	}
	sig.S = new(big.Int).Sub(elliptic.P256().Params().N, sig.S)
	out, err := asn1.Marshal(sig)
	return out, err == nil
}

// cancelVerifier delegates to the real verifier and cancels the request context after the k-th
// successful call of Verify (a request that is abandoned half way through a segment).
type cancelVerifier struct {
	inner  infra.Verifier
	n      *int
	k      int
	cancel func()
}

func (c *cancelVerifier) Verify(ctx context.Context, m *cryptopb.SignedMessage, ad ...[]byte) (*signed.Message, error) {
	r, err := c.inner.Verify(ctx, m, ad...)
	if err == nil {
		*c.n++
		if *c.n == c.k {
			c.cancel()
		}
	}
	return r, err
}

func (c *cancelVerifier) with(v infra.Verifier) infra.Verifier {
	return &cancelVerifier{inner: v, n: c.n, k: c.k, cancel: c.cancel}
}
func (c *cancelVerifier) WithServer(s net.Addr) infra.Verifier { return c.with(c.inner.WithServer(s)) }
func (c *cancelVerifier) WithIA(ia addr.IA) infra.Verifier     { return c.with(c.inner.WithIA(ia)) }
func (c *cancelVerifier) WithValidity(v cppki.Validity) infra.Verifier {
	return c.with(c.inner.WithValidity(v))
}

func flipBit(b []byte, pos int) {
	b[pos/8] ^= 1 << uint(pos%8)
}

func main() {
	out := flag.String("out", "segverify.ndjson", "trace file")
	n := flag.Int("n", 300, "number of segments")
	flips := flag.Int("flips", 24, "bit-flip probes per segment of the flip family")
	exhaustive := flag.Int("exhaustive", 0, "number of 1- and 2-entry segments on which EVERY single bit is flipped")
	flag.Parse()
	wr := vt.NewWriter(*out)
	defer wr.Close()
	ctx := context.Background()
	world := segs.NewWorld(time.Now())
	defer world.Close()
	ver := compat.Verifier{Verifier: world.Verifier()}
	nev := 0

	// verify runs the real code on (info, entries) and logs the case
	verify := func(mut string, t0 time.Time, tsRe int, infoRaw []byte, infoTag int, ents []tag) {
		pb := &cppb.PathSegment{SegmentInfo: infoRaw}
		for _, e := range ents {
			pb.AsEntries = append(pb.AsEntries, e.pb)
		}
		// wire path: the decoder (segment or beacon flavour) + VerifySegment
		wire, decoded := false, false
		if raw, err := proto.Marshal(pb); err == nil {
			var back cppb.PathSegment
			if proto.Unmarshal(raw, &back) == nil {
				ps, err := seg.SegmentFromPB(&back)
				if err != nil {
					ps, err = seg.BeaconFromPB(&back)
				}
				if err == nil {
					decoded = true
					wire = segverifier.VerifySegment(ctx, ver, nil, ps) == nil
				}
			}
		}
		// struct path: no structural validation, only signature verification
		accepted, parsed := false, false
		var sinfo cppb.SegmentInformation
		if proto.Unmarshal(infoRaw, &sinfo) == nil && len(ents) > 0 {
			ps := &seg.PathSegment{Info: seg.Info{Raw: infoRaw, Timestamp: time.Unix(sinfo.Timestamp, 0),
				SegmentID: uint16(sinfo.SegmentId)}}
			ok := true
			for _, e := range ents {
				ae, err := seg.ASEntryFromPB(e.pb)
				if err != nil {
					ok = false
					break
				}
				ps.ASEntries = append(ps.ASEntries, ae)
			}
			if ok {
				parsed = true
				accepted = segverifier.VerifySegment(ctx, ver, nil, ps) == nil
			}
		}
		tj := make([]vt.M, 0, len(ents))
		for _, e := range ents {
			tj = append(tj, e.json())
		}
		nev++
		wr.Emit(vt.M{"ev": "reset", "case": nev})
		wr.Emit(vt.M{"ev": "verify", "mut": mut, "ts": tsRe * 1000, "info": infoTag, "ents": tj,
			"decoded": decoded, "wire": wire, "parsed": parsed, "accepted": accepted, "ctx": "live",
			"now": int(time.Since(t0) / time.Millisecond)})
		// the same segment verified for a request that is abandoned: the context is cancelled before the
		// call (k = 0) or right after the k-th AS entry was verified. Whatever happens, a segment
		// that does not verify must not be reported as verified.
		if parsed && nev%3 == 0 {
			k := nev / 3 % (len(ents) + 1)
			if k == len(ents) {
				k = 0
			}
			cctx, cancel := context.WithCancel(ctx)
			n := 0
			cv := &cancelVerifier{inner: ver, n: &n, k: k, cancel: cancel}
			if k == 0 {
				cancel()
			}
			ps := &seg.PathSegment{Info: seg.Info{Raw: infoRaw, Timestamp: time.Unix(sinfo.Timestamp, 0),
				SegmentID: uint16(sinfo.SegmentId)}}
			for _, e := range ents {
				ae, _ := seg.ASEntryFromPB(e.pb)
				ps.ASEntries = append(ps.ASEntries, ae)
			}
			acc := segverifier.VerifySegment(cctx, cv, nil, ps) == nil
			cancel()
			nev++
			wr.Emit(vt.M{"ev": "reset", "case": nev})
			wr.Emit(vt.M{"ev": "verify", "mut": mut + "@cancel", "ts": tsRe * 1000, "info": infoTag, "ents": tj,
				"decoded": decoded, "wire": acc, "parsed": parsed, "accepted": acc, "ctx": fmt.Sprintf("cancelled-after-%d", k),
				"now": int(time.Since(t0) / time.Millisecond)})
		}
	}

	for i := 0; i < *n; i++ {
		rng := vt.Rand(int64(i))
		t0 := time.Now().Truncate(time.Second)
		b := &builder{w: world, rng: rng, off: int(t0.Sub(world.Base) / time.Second),
			tsRe: -[]int{0, 30, 100}[rng.Intn(3)]}
		ne := 1 + rng.Intn(4)
		if rng.Intn(5) == 0 {
			ne = 1 + rng.Intn(10)
		}
		expSet := []int{0, 5, 63, 255}
		exps := make([]int, ne)
		for k := range exps {
			exps[k] = expSet[rng.Intn(len(expSet))]
		}
		special := map[int]int{}
		family := i % 4
		mut := "none"
		names := []string{"", "key-of-other-as(honest-id)", "key-of-other-as(right-name)",
			"cert-starts-after-ts", "cert-ends-before-hop-expiry", "cert-ends-at-hop-expiry"}
		if family == 1 { // signer problems at signing time
			k := rng.Intn(ne)
			kind := 1 + rng.Intn(5)
			special[k] = kind
			mut = names[kind]
			// the certificate-window variants once for EVERY position of the segment (the bound must be the
			// entry's own hop lifetime, whatever the other entries' lifetimes are)
			for kk := 0; kk < ne; kk++ {
				for _, kd := range []int{signCertLate, signCertEarly, signCertExact} {
					wps, wt := b.build(ne, exps, 0, 0, map[int]int{kk: kd})
					verify(names[kd], t0, b.tsRe, append([]byte{}, wps.Info.Raw...), 0, wt)
				}
			}
		}
		ps, tags := b.build(ne, exps, 0, 0, special)
		info := append([]byte{}, ps.Info.Raw...)
		cp := func() []tag {
			out := make([]tag, len(tags))
			for k, t := range tags {
				out[k] = t
				out[k].pb = clonePB(t.pb)
			}
			return out
		}
		switch family {
		case 0, 1:
			verify(mut, t0, b.tsRe, info, 0, cp())
			// every proper prefix is a verifiable beacon
			if ne > 1 {
				k := 1 + rng.Intn(ne-1)
				verify(mut+"+drop-tail", t0, b.tsRe, info, 0, cp()[:k])
			}
		case 2: // structural manipulations
			_, ftags := b.build(ne, exps, 2, 100, nil) // same ASes, other segment info
			for rep := 0; rep < 4; rep++ {
				e := cp()
				x, y := rng.Intn(ne), rng.Intn(ne)
				switch rng.Intn(8) {
				case 7: // splice: the beacon was extended twice after entry x-1; take the other branch's entry x
					if ne < 2 || x == 0 || x == ne-1 {
						continue
					}
					pre := &seg.PathSegment{Info: ps.Info, ASEntries: append([]seg.ASEntry{}, ps.ASEntries[:x]...)}
					_, btags := b.extend(pre, e[:x], ne, exps, 0, 200, nil)
					sp := append(append(append([]tag{}, e[:x]...), btags[x]), e[x+1:]...)
					verify("splice-sibling-branch-entry", t0, b.tsRe, info, 0, sp)
					verify("sibling-branch-itself", t0, b.tsRe, info, 0, btags)
				case 0:
					if x == y {
						continue
					}
					e[x], e[y] = e[y], e[x]
					verify("swap", t0, b.tsRe, info, 0, e)
				case 1:
					if ne == 1 {
						continue
					}
					m := "remove-middle"
					if x == 0 {
						m = "remove-first"
					} else if x == ne-1 {
						continue
					}
					verify(m, t0, b.tsRe, info, 0, append(e[:x:x], e[x+1:]...))
				case 2:
					f := ftags[y]
					f.pb = clonePB(f.pb)
					verify("insert-foreign-entry", t0, b.tsRe, info, 0,
						append(e[:x:x], append([]tag{f}, e[x:]...)...))
				case 3:
					d := e[y]
					d.pb = clonePB(d.pb)
					verify("insert-duplicate", t0, b.tsRe, info, 0, append(e[:x:x], append([]tag{d}, e[x:]...)...))
				case 4:
					f := ftags[x]
					f.pb = clonePB(f.pb)
					e[x] = f
					verify("replace-by-foreign-entry", t0, b.tsRe, info, 0, e)
				case 5: // the whole other segment under this info
					fe := make([]tag, len(ftags))
					copy(fe, ftags)
					verify("other-segment-under-this-info", t0, b.tsRe, info, 0, fe)
				case 6: // boundary shift between a signature and the next entry's body
					if ne == 1 || x == ne-1 {
						continue
					}
					s := e[x].pb.Signed.Signature
					last := s[len(s)-1]
					e[x].pb.Signed.Signature = s[:len(s)-1]
					e[x+1].pb.Signed.HeaderAndBody = append([]byte{last}, e[x+1].pb.Signed.HeaderAndBody...)
					e[x].sg, e[x+1].hb = 1, 1
					verify("shift-sig-byte-into-next-body", t0, b.tsRe, info, 0, e)
				}
			}
		case 3: // bit flips on the wire form
			for rep := 0; rep < *flips; rep++ {
				e := cp()
				inf := append([]byte{}, info...)
				x := rng.Intn(ne)
				keep := ne
				if rng.Intn(3) == 0 { // flips combined with a dropped tail
					keep = 1 + rng.Intn(ne)
					if x >= keep {
						x = rng.Intn(keep)
					}
				}
				switch rng.Intn(4) {
				case 3: // a signature replaced by ANOTHER VALID signature over the same input (a new signing act)
					m, ok := malleate(e[x].pb.Signed.Signature)
					if !ok {
						continue
					}
					e[x].pb.Signed.Signature = m
					e[x].id += 1000
					verify(fmt.Sprintf("other-valid-signature(last=%v)", x == keep-1), t0, b.tsRe, inf, 0, e[:keep])
				case 0:
					flipBit(inf, rng.Intn(len(inf)*8))
					verify("flip-info", t0, b.tsRe, inf, 1, e[:keep])
				case 1:
					hb := e[x].pb.Signed.HeaderAndBody
					flipBit(hb, rng.Intn(len(hb)*8))
					e[x].hb = 1
					verify(fmt.Sprintf("flip-body(last=%v)", x == keep-1), t0, b.tsRe, inf, 0, e[:keep])
				case 2:
					sg := e[x].pb.Signed.Signature
					flipBit(sg, rng.Intn(len(sg)*8))
					e[x].sg = 1
					verify(fmt.Sprintf("flip-signature(last=%v)", x == keep-1), t0, b.tsRe, inf, 0, e[:keep])
				}
			}
		}
	}
	// exhaustive single-bit flips of every signed byte string of short segments
	for x := 0; x < *exhaustive; x++ {
		rng := vt.Rand(int64(500000 + x))
		t0 := time.Now().Truncate(time.Second)
		b := &builder{w: world, rng: rng, off: int(t0.Sub(world.Base) / time.Second), tsRe: -30}
		ne := 1 + x%2
		exps := []int{63, 5}[:ne]
		ps, tags := b.build(ne, exps, 0, 0, nil)
		info := append([]byte{}, ps.Info.Raw...)
		fresh := func() []tag {
			out := make([]tag, len(tags))
			for k, t := range tags {
				out[k] = t
				out[k].pb = clonePB(t.pb)
			}
			return out
		}
		for bit := 0; bit < len(info)*8; bit++ {
			inf := append([]byte{}, info...)
			flipBit(inf, bit)
			verify("xflip-info", t0, b.tsRe, inf, 1, fresh())
		}
		for k := 0; k < ne; k++ {
			for bit := 0; bit < len(tags[k].pb.Signed.HeaderAndBody)*8; bit++ {
				e := fresh()
				flipBit(e[k].pb.Signed.HeaderAndBody, bit)
				e[k].hb = 1
				verify(fmt.Sprintf("xflip-body(last=%v)", k == ne-1), t0, b.tsRe, info, 0, e)
			}
			for bit := 0; bit < len(tags[k].pb.Signed.Signature)*8; bit++ {
				e := fresh()
				flipBit(e[k].pb.Signed.Signature, bit)
				e[k].sg = 1
				verify(fmt.Sprintf("xflip-signature(last=%v)", k == ne-1), t0, b.tsRe, info, 0, e)
			}
		}
	}
	fmt.Printf("verify events=%d\n", nev)
}
