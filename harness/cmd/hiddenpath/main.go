// Driver for C45: executes registration / request histories (TLC-generated from -scn, plus seeded
// random ones) on the REAL hiddenpath.RegistryServer and hiddenpath.AuthoritativeServer sharing the
// real hiddenpath.Storer over the real sqlite path DB (in memory). Segments are real signed segments,
// verified by the real hiddenpath.VerifierAdapter / segverifier with the pool's public key.
// After every registration the complete DB content is logged; every request logs its answer.
// The driver never judges.
package main

import (
	"bufio"
	"context"
	"encoding/json"
	"flag"
	"fmt"
	"math/rand"
	"net"
	"os"
	"reflect"
	"sort"

	"gopkg.in/yaml.v3"

	"github.com/scionproto/scion/pkg/addr"
	"github.com/scionproto/scion/pkg/experimental/hiddenpath"
	"github.com/scionproto/scion/pkg/scrypto/cppki"
	seg "github.com/scionproto/scion/pkg/segment"
	"github.com/scionproto/scion/pkg/snet"
	infra "github.com/scionproto/scion/private/segment/verifier"
	"github.com/scionproto/scion/private/storage/db"
	pathsqlite "github.com/scionproto/scion/private/storage/path/sqlite"

	"verifharness/internal/segpool"
	"verifharness/internal/vt"
)

type groupCfg struct {
	G       int   `json:"g"`
	Owner   int   `json:"owner"`
	Writers []int `json:"writers"`
	Readers []int `json:"readers"`
	Regs    []int `json:"regs"`
}

type cfg struct {
	Local  int        `json:"local"`
	Groups []groupCfg `json:"groups"`
}

type segRef struct {
	P    int `json:"p"`
	Type int `json:"type"`
}

type op struct {
	Op   string   `json:"op"`
	Peer int      `json:"peer"`
	G    int      `json:"g"`
	Segs []segRef `json:"segs"`
	Gs   []int    `json:"gs"`
	Dst  int      `json:"dst"`
}

type verifier struct{ segpool.Verifier }

func (v verifier) WithServer(net.Addr) infra.Verifier        { return v }
func (v verifier) WithIA(addr.IA) infra.Verifier             { return v }
func (v verifier) WithValidity(cppki.Validity) infra.Verifier { return v }

func iaSet(xs []int) map[addr.IA]struct{} {
	m := map[addr.IA]struct{}{}
	for _, x := range xs {
		m[segpool.IA(x)] = struct{}{}
	}
	return m
}

var dbSeq int

type env struct {
	w    *vt.Writer
	pool *segpool.Pool
	pdb  *pathsqlite.Backend
	uses int
}

func (e *env) freshDB() {
	e.uses++
	if e.pdb != nil && e.uses%200 != 0 {
		for _, t := range []string{"Segments", "IntfToSeg", "SegTypes", "HPGroupIDs", "NextQuery"} {
			if _, err := e.pdb.DB().Full.Exec("DELETE FROM " + t); err != nil {
				vt.Fatal("clearing %s: %v", t, err)
			}
		}
		return
	}
	if e.pdb != nil {
		e.pdb.Close()
	}
	dbSeq++
	var err error
	e.pdb, err = pathsqlite.New(fmt.Sprintf("verif_hp_%d_%d", os.Getpid(), dbSeq),
		&db.SqliteConfig{InMemory: true})
	if err != nil {
		vt.Fatal("open db: %v", err)
	}
}

func (e *env) runTrace(c cfg, steps []op, battery []op, id int, src string) {
	ctx := context.Background()
	e.freshDB()
	groups := map[hiddenpath.GroupID]*hiddenpath.Group{}
	gid := func(g int) hiddenpath.GroupID {
		for _, x := range c.Groups {
			if x.G == g {
				return hiddenpath.GroupID{OwnerAS: segpool.IA(x.Owner).AS(), Suffix: uint16(g)}
			}
		}
		return hiddenpath.GroupID{OwnerAS: segpool.IA(19).AS(), Suffix: uint16(g)}
	}
	absG := map[uint64]int{}
	for g := 0; g <= 9; g++ {
		absG[gid(g).ToUint64()] = g
	}
	for _, x := range c.Groups {
		groups[gid(x.G)] = &hiddenpath.Group{ID: gid(x.G), Owner: segpool.IA(x.Owner),
			Writers: iaSet(x.Writers), Readers: iaSet(x.Readers), Registries: iaSet(x.Regs)}
	}
	store := &hiddenpath.Storer{DB: e.pdb}
	reg := hiddenpath.RegistryServer{Groups: groups, DB: store, LocalIA: segpool.IA(c.Local),
		Verifier: hiddenpath.VerifierAdapter{Verifier: verifier{}}}
	srv := hiddenpath.AuthoritativeServer{Groups: groups, DB: store, LocalIA: segpool.IA(c.Local)}
	e.w.Emit(vt.M{"ev": "reset", "id": id, "src": src, "cfg": c, "pool": e.pool.JSON()})

	exec := func(o op) {
		switch o.Op {
		case "reg":
			metas := []*seg.Meta{}
			for _, s := range o.Segs {
				metas = append(metas, &seg.Meta{Segment: e.pool.Segs[s.P-1], Type: seg.Type(s.Type)})
			}
			err := reg.Register(ctx, hiddenpath.Registration{Segments: metas, GroupID: gid(o.G),
				Peer: &snet.SVCAddr{IA: segpool.IA(o.Peer), SVC: addr.SvcCS}})
			all, gerr := e.pdb.GetAll(ctx)
			if gerr != nil {
				vt.Fatal("GetAll: %v", gerr)
			}
			type agg struct{ types, groups map[int]bool }
			byP := map[int]*agg{}
			for _, r := range all {
				p := e.pool.Index(r.Seg)
				a := byP[p]
				if a == nil {
					a = &agg{map[int]bool{}, map[int]bool{}}
					byP[p] = a
				}
				a.types[int(r.Type)] = true
				for _, g := range r.HPGroupIDs {
					ag, ok := absG[g]
					if !ok {
						ag = -1
					}
					a.groups[ag] = true
				}
			}
			dump := []vt.M{}
			ps := []int{}
			for p := range byP {
				ps = append(ps, p)
			}
			sort.Ints(ps)
			for _, p := range ps {
				dump = append(dump, vt.M{"p": p, "types": keys(byP[p].types), "groups": keys(byP[p].groups)})
			}
			e.w.Emit(vt.M{"ev": "reg", "peer": o.Peer, "g": o.G, "segs": o.Segs, "err": b2i(err != nil),
				"dump": dump})
		case "req":
			gids := []hiddenpath.GroupID{}
			for _, g := range o.Gs {
				gids = append(gids, gid(g))
			}
			res, err := srv.Segments(ctx, hiddenpath.SegmentRequest{GroupIDs: gids, DstIA: segpool.IA(o.Dst),
				Peer: segpool.IA(o.Peer)})
			out := []vt.M{}
			for _, m := range res {
				out = append(out, vt.M{"p": e.pool.Index(m.Segment), "type": int(m.Type)})
			}
			gs := o.Gs
			if gs == nil {
				gs = []int{}
			}
			e.w.Emit(vt.M{"ev": "req", "peer": o.Peer, "gs": gs, "dst": o.Dst, "err": b2i(err != nil), "res": out})
		default:
			vt.Fatal("unknown op %q", o.Op)
		}
	}
	for _, o := range steps {
		exec(o)
	}
	for _, o := range battery {
		exec(o)
	}
}

func keys(m map[int]bool) []int {
	out := []int{}
	for k := range m {
		out = append(out, k)
	}
	sort.Ints(out)
	return out
}

func b2i(b bool) int {
	if b {
		return 1
	}
	return 0
}

// built-in pool / random generation for the seeded histories
func bigPool() []segpool.Desc {
	mk := func(sv int, bad []int, hops ...segpool.Hop) segpool.Desc {
		return segpool.Desc{TS: 0, SV: sv, TTL: 2, Hops: hops, Peers: [][2]int{}, Bad: bad}
	}
	h := func(ia, in, eg int) segpool.Hop { return segpool.Hop{IA: ia, In: in, Eg: eg} }
	return []segpool.Desc{
		mk(3, nil, h(11, 0, 1), h(13, 2, 0)),
		mk(5, nil, h(11, 0, 1), h(13, 2, 0)),
		mk(7, nil, h(11, 0, 1), h(13, 2, 0)),
		mk(3, nil, h(11, 0, 3), h(12, 4, 5), h(13, 6, 0)),
		mk(4, nil, h(11, 0, 3), h(12, 4, 5), h(13, 6, 0)),
		mk(3, nil, h(11, 0, 7), h(12, 8, 0)),
		mk(6, nil, h(11, 0, 7), h(12, 8, 0)),
		mk(3, []int{2}, h(21, 0, 1), h(13, 9, 0)),
		mk(3, nil, h(21, 0, 2), h(22, 3, 4), h(12, 5, 0)),
		mk(3, []int{1}, h(21, 0, 2), h(14, 3, 0)),
		mk(3, nil, h(11, 0, 9), h(14, 3, 0)),
	}
}

func randomCfg(r *rand.Rand) cfg {
	ases := []int{11, 12, 14, 15, 16}
	sub := func(p int) []int {
		out := []int{}
		for _, a := range ases {
			if r.Intn(100) < p {
				out = append(out, a)
			}
		}
		return out
	}
	c := cfg{Local: 15}
	for g := 1; g <= 1+r.Intn(3); g++ {
		c.Groups = append(c.Groups, groupCfg{G: g, Owner: ases[r.Intn(len(ases))], Writers: sub(45),
			Readers: sub(30), Regs: sub(55)})
	}
	return c
}

func randomOps(r *rand.Rand, npool int) []op {
	peers := []int{11, 12, 14, 15, 16, 21}
	out := []op{}
	n := 4 + r.Intn(20)
	for i := 0; i < n; i++ {
		if r.Intn(5) < 2 {
			o := op{Op: "reg", Peer: peers[r.Intn(len(peers))], G: 1 + r.Intn(4)}
			for k := 0; k <= r.Intn(3); k++ {
				t := 2
				if r.Intn(10) == 0 {
					t = 1 + 2*r.Intn(2)
				}
				o.Segs = append(o.Segs, segRef{P: 1 + r.Intn(npool), Type: t})
			}
			out = append(out, o)
		} else {
			o := op{Op: "req", Peer: peers[r.Intn(len(peers))], Dst: []int{13, 12, 14, 11}[r.Intn(4)], Gs: []int{}}
			for k := 0; k < r.Intn(4); k++ {
				o.Gs = append(o.Gs, 1+r.Intn(4))
			}
			out = append(out, o)
		}
	}
	return out
}

// groupTable: the finite table of group configurations through Group.Validate, Groups.Roles and the
// YAML marshal / unmarshal round trip (judged, drift only, by HiddenPathTrace.tla).
func groupTable(w *vt.Writer) int {
	n := 0
	subsets := func(xs []int) [][]int {
		out := [][]int{}
		for m := 0; m < 1<<len(xs); m++ {
			s := []int{}
			for i, x := range xs {
				if m&(1<<i) != 0 {
					s = append(s, x)
				}
			}
			out = append(out, s)
		}
		return out
	}
	w.Emit(vt.M{"ev": "reset", "id": 0, "src": "table", "cfg": cfg{Local: 15, Groups: []groupCfg{}}, "pool": []vt.M{}})
	for _, owner := range []int{0, 11, 12, 21} {
		for _, ido := range []int{0, 1, 2} {
			for _, suf := range []int{0, 1} {
				for _, ws := range subsets([]int{11, 12}) {
					for _, rs := range subsets([]int{14}) {
						for _, gs := range subsets([]int{12, 15}) {
							id := hiddenpath.GroupID{Suffix: uint16(suf)}
							if ido != 0 {
								id.OwnerAS = segpool.IA(10 + ido).AS()
							}
							g := &hiddenpath.Group{ID: id, Owner: segpool.IA(owner), Writers: iaSet(ws),
								Readers: iaSet(rs), Registries: iaSet(gs)}
							valid := g.Validate() == nil
							groups := hiddenpath.Groups{id: g}
							roles := []vt.M{}
							for _, ia := range []int{11, 12, 14, 15, 21} {
								r := groups.Roles(segpool.IA(ia))
								roles = append(roles, vt.M{"ia": ia, "o": r.Owner, "g": r.Registry, "r": r.Reader, "w": r.Writer})
							}
							rt := false
							if raw, err := yaml.Marshal(groups); err == nil {
								back := hiddenpath.Groups{}
								if err := yaml.Unmarshal(raw, &back); err == nil {
									rt = reflect.DeepEqual(groups, back)
								}
							}
							w.Emit(vt.M{"ev": "gcfg", "owner": owner, "ido": ido, "suf": suf, "writers": ws,
								"readers": rs, "regs": gs, "valid": valid, "rt": rt, "roles": roles})
							n++
						}
					}
				}
			}
		}
	}
	return n
}

func main() {
	out := flag.String("out", "trace.ndjson", "output trace")
	scn := flag.String("scn", "", "scenario file (TLC-generated histories)")
	nrand := flag.Int("n", 100, "number of seeded random histories")
	flag.Parse()
	w := vt.NewWriter(*out)
	ntr := 0
	if *scn != "" {
		f, err := os.Open(*scn)
		if err != nil {
			vt.Fatal("open %s: %v", *scn, err)
		}
		sc := bufio.NewScanner(f)
		sc.Buffer(make([]byte, 1<<20), 1<<26)
		var cfgs []cfg
		var battery []op
		var e *env
		for sc.Scan() {
			var rec struct {
				Cfgs  []cfg          `json:"cfgs"`
				Pool  []segpool.Desc `json:"pool"`
				Reqs  []op           `json:"reqs"`
				Cfg   int            `json:"cfg"`
				Steps []op           `json:"steps"`
			}
			if err := json.Unmarshal(sc.Bytes(), &rec); err != nil {
				vt.Fatal("scenario: %v", err)
			}
			switch {
			case rec.Cfgs != nil:
				cfgs = rec.Cfgs
			case rec.Pool != nil:
				for i := range rec.Pool {
					d := &rec.Pool[i]
					d.TTL = (d.Exp - d.TS) / segpool.Unit
					if d.Peers == nil {
						d.Peers = [][2]int{}
					}
				}
				e = &env{w: w, pool: segpool.NewPool(rec.Pool)}
			case rec.Reqs != nil:
				battery = rec.Reqs
				sort.Slice(battery, func(i, j int) bool {
					return fmt.Sprint(battery[i]) < fmt.Sprint(battery[j])
				})
			default:
				if e == nil || cfgs == nil {
					vt.Fatal("scenario before cfgs/pool")
				}
				ntr++
				e.runTrace(cfgs[rec.Cfg-1], rec.Steps, battery, ntr, "tlc")
			}
		}
		f.Close()
	}
	groupTable(w)
	ntr++
	if *nrand > 0 {
		e := &env{w: w, pool: segpool.NewPool(bigPool())}
		r := vt.Rand(4501)
		for i := 0; i < *nrand; i++ {
			ntr++
			e.runTrace(randomCfg(r), randomOps(r, len(e.pool.Descs)), nil, ntr, "rand")
		}
	}
	w.Close()
	fmt.Printf("traces=%d events=%d\n", ntr, w.N)
}
