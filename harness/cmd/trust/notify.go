package main

import (
	"bytes"
	"context"
	"crypto/x509"
	"encoding/json"
	"encoding/pem"
	"errors"
	"fmt"
	"net"
	"os"
	"path/filepath"
	"sync"
	"sync/atomic"
	"time"

	"github.com/scionproto/scion/pkg/addr"
	"github.com/scionproto/scion/pkg/scrypto"
	"github.com/scionproto/scion/pkg/scrypto/cppki"
	"github.com/scionproto/scion/private/storage/db"
	"github.com/scionproto/scion/private/storage/trust/sqlite"
	"github.com/scionproto/scion/private/trust"

	"verifharness/internal/pki"
	"verifharness/internal/vt"
)

// ---- the TRC universe of C35 -------------------------------------------------------------------

func c35Pool() []pki.ACert {
	mk := func(cls string, subj, sn, isd, ver int) pki.ACert {
		return pki.ACert{Cls: cls, Subj: subj, Iss: subj, SN: sn, ISD: isd, NB: -100, NA: 400, Ver: ver}
	}
	return []pki.ACert{
		mk("sens", 1, 1, 1, 1), mk("sens", 2, 2, 1, 1), mk("reg", 3, 3, 1, 1), mk("reg", 4, 4, 1, 1), mk("root", 5, 5, 1, 1),
		// the same subjects with other keys (a chain the store does not know)
		mk("sens", 1, 21, 1, 3), mk("sens", 2, 22, 1, 3), mk("reg", 3, 23, 1, 3), mk("reg", 4, 24, 1, 3), mk("root", 5, 25, 1, 3),
		// ISD 2
		mk("sens", 31, 31, 2, 1), mk("sens", 32, 32, 2, 1), mk("reg", 33, 33, 2, 1), mk("reg", 34, 34, 2, 1), mk("root", 35, 35, 2, 1),
	}
}

type universe struct {
	mu    sync.Mutex // the scripted remotes of simultaneous calls share the universe
	w     *pki.World
	cache map[string]cppki.SignedTRC
}

// trc returns the TRC of the given kind for serial k.
//
//	a, b    the two genuine chains (b differs in the description only)
//	af, bf  the same with a validity starting two days from now
func (u *universe) trc(kind string, k int) cppki.SignedTRC {
	u.mu.Lock()
	defer u.mu.Unlock()
	key := fmt.Sprintf("%s/%d", kind, k)
	if t, ok := u.cache[key]; ok {
		return t
	}
	p := pki.APayload{Ver: 1, ISD: 1, Base: 1, Serial: k, NB: -50, NA: 300, Grace: 0, Reset: true,
		Votes: []int{2, 3}, Quorum: 2, Core: []int{1, 2}, Auth: []int{1}, Desc: 1, Certs: []int{1, 2, 3, 4, 5}}
	signers := []int{3, 4}
	if k == 1 {
		p.Votes, signers = []int{}, []int{1, 2, 3, 4}
	}
	switch kind {
	case "a":
	case "b":
		p.Desc = 2
	case "af":
		p.NB = 2
	case "bf":
		p.NB, p.Desc = 2, 2
	case "badsig": // a quorum of 2 is required, one vote is signed
		p.Desc, signers = 0, []int{3}
	case "wrongpred":
		p.Certs, signers = []int{6, 7, 8, 9, 10}, []int{8, 9}
	case "otherbase":
		p.Base = 2
		if k == 2 {
			p.Votes, signers = []int{}, []int{1, 2, 3, 4}
		}
	case "otherisd", "o", "of":
		p.ISD, p.Certs, signers = 2, []int{11, 12, 13, 14, 15}, []int{13, 14}
		if k == 1 { // the base TRC of that ISD
			signers = []int{11, 12, 13, 14}
		}
		if kind == "of" {
			p.NB = 2
		}
	default:
		vt.Fatal("unknown TRC kind %q", kind)
	}
	t := u.w.SignedTRC(p, signers)
	u.cache[key] = t
	return t
}

// content names the stored TRC ("x" if it is none of the genuine ones).
func (u *universe) content(t cppki.SignedTRC) string {
	for _, kind := range []string{"a", "b", "af", "bf"} {
		// TRC equality is payload equality (doc/cryptography/trc.rst)
		if bytes.Equal(u.trc(kind, int(t.TRC.ID.Serial)).TRC.Raw, t.TRC.Raw) {
			return kind
		}
	}
	return "x"
}

// ---- scripted remote, fault injecting DB ---------------------------------------------------------

type scriptFetcher struct {
	u     *universe
	outc  []string // per serial (index serial-1)
	asked []int
}

func (f *scriptFetcher) Chains(context.Context, trust.ChainQuery, net.Addr) ([][]*x509.Certificate, error) {
	return nil, errors.New("no chains served")
}

func (f *scriptFetcher) TRC(_ context.Context, id cppki.TRCID, _ net.Addr) (cppki.SignedTRC, error) {
	k := int(id.Serial)
	f.asked = append(f.asked, k)
	if k < 1 || k > len(f.outc) {
		return cppki.SignedTRC{}, errors.New("not found")
	}
	switch o := f.outc[k-1]; o {
	case "ok", "inserterr":
		return f.u.trc("a", k), nil
	case "okb":
		return f.u.trc("b", k), nil
	case "fetcherr":
		return cppki.SignedTRC{}, errors.New("remote unreachable")
	case "wrongserial":
		return f.u.trc("a", k+1), nil
	case "stale":
		return f.u.trc("a", k-1), nil
	default:
		return f.u.trc(o, k), nil
	}
}

type faultDB struct {
	trust.DB
	failSerial int
	failRead   bool
}

func (d faultDB) SignedTRC(ctx context.Context, id cppki.TRCID) (cppki.SignedTRC, error) {
	if d.failRead {
		return cppki.SignedTRC{}, errors.New("injected read failure")
	}
	return d.DB.SignedTRC(ctx, id)
}

func (d faultDB) InsertTRC(ctx context.Context, t cppki.SignedTRC) (bool, error) {
	if int(t.TRC.ID.Serial) == d.failSerial {
		return false, errors.New("injected insert failure")
	}
	return d.DB.InsertTRC(ctx, t)
}

type fixedRouter struct{}

func (fixedRouter) ChooseServer(context.Context, addr.ISD) (net.Addr, error) {
	return &net.UDPAddr{IP: net.IPv4(127, 0, 0, 1), Port: 30252}, nil
}

var dbSeq int64

func newTrustDB() sqlite.DB {
	name := fmt.Sprintf("file:veriftrust%d_%d", os.Getpid(), atomic.AddInt64(&dbSeq, 1))
	d, err := sqlite.New(name, &db.SqliteConfig{InMemory: true})
	if err != nil {
		vt.Fatal("sqlite: %v", err)
	}
	return d
}

// stored lists the TRCs in the store: ISD 1 / base 1 as [serial, content] pairs, everything else counted.
func stored(ctx context.Context, u *universe, d trust.DB, maxSerial int) ([][]any, [][]int, int) {
	own, foreign := [][]any{}, [][]int{}
	for isd := 1; isd <= 3; isd++ { // abstract ISD numbers
		for base := 1; base <= 3; base++ {
			for s := base; s <= maxSerial+2; s++ {
				t, err := d.SignedTRC(ctx, cppki.TRCID{ISD: pki.ISD(isd), Base: scrypto.Version(base), Serial: scrypto.Version(s)})
				if err != nil {
					vt.Fatal("db read: %v", err)
				}
				if t.IsZero() {
					continue
				}
				if isd == 1 && base == 1 {
					own = append(own, []any{s, u.content(t)})
				} else {
					// [abstract ISD, base, serial, validity starts in the future]
					foreign = append(foreign, []int{isd, base, s, b2i(t.TRC.Validity.NotBefore.After(time.Now()))})
				}
			}
		}
	}
	latest := 0
	t, err := d.SignedTRC(ctx, cppki.TRCID{ISD: pki.ISD(1), Base: scrypto.LatestVer, Serial: scrypto.LatestVer})
	if err != nil {
		vt.Fatal("db read: %v", err)
	}
	if !t.IsZero() && t.TRC.ID.Base == 1 {
		latest = int(t.TRC.ID.Serial)
	}
	return own, foreign, latest
}

type c35Step struct {
	Op     string   `json:"op"`
	ISD    int      `json:"isd"`
	Base   int      `json:"base"`
	Serial int      `json:"serial"`
	Outc   []string `json:"outc"`
	Files  []struct {
		Serial  int    `json:"serial"`
		Content string `json:"content"`
		Future  bool   `json:"future"`
		ISD     int    `json:"isd"`
		Junk    bool   `json:"junk"`
	} `json:"files"`
}

// concurrentHistories runs seeded histories of 2-3 simultaneous NotifyTRC calls (each with its own
// scripted remote) against one database and records what every call returned and the final store.
func concurrentHistories(ctx context.Context, w *vt.Writer, u *universe, n int) {
	rng := vt.Rand(35)
	kinds := []string{"fetcherr", "badsig", "wrongpred", "wrongserial", "stale", "otherbase", "otherisd"}
	const maxSerial = 5
	for h := 0; h < n; h++ {
		init := 1 + rng.Intn(2)
		ncalls := 2 + rng.Intn(2)
		sq := newTrustDB()
		for k := 1; k <= init; k++ {
			if _, err := sq.InsertTRC(ctx, u.trc("a", k)); err != nil {
				vt.Fatal("initial insert: %v", err)
			}
		}
		type call struct {
			serial  int
			outc    []string
			f       *scriptFetcher
			errnil  int
			fetched []int
		}
		calls := make([]*call, ncalls)
		for i := range calls {
			c := &call{serial: init + 1 + rng.Intn(maxSerial-init), outc: make([]string, maxSerial)}
			variant := []string{"ok", "okb"}[rng.Intn(2)]
			for k := range c.outc {
				c.outc[k] = variant
			}
			if rng.Intn(3) == 0 {
				c.outc[init+rng.Intn(maxSerial-init)] = kinds[rng.Intn(len(kinds))]
			}
			c.f = &scriptFetcher{u: u, outc: c.outc}
			calls[i] = c
		}
		var wg sync.WaitGroup
		start := make(chan struct{})
		for _, c := range calls {
			wg.Add(1)
			go func(c *call) {
				defer wg.Done()
				prov := trust.FetchingProvider{DB: sq, Recurser: trust.LocalOnlyRecurser{}, Fetcher: c.f, Router: fixedRouter{}}
				<-start
				err := prov.NotifyTRC(ctx, cppki.TRCID{ISD: pki.ISD(1), Base: 1, Serial: scrypto.Version(c.serial)})
				c.errnil = b2i(err == nil)
			}(c)
		}
		close(start)
		wg.Wait()
		own, foreign, latest := stored(ctx, u, sq, maxSerial)
		cs := []vt.M{}
		for _, c := range calls {
			cs = append(cs, vt.M{"serial": c.serial, "outc": c.outc, "errnil": c.errnil, "fetched": vt.Ints(c.f.asked)})
		}
		w.Emit(vt.M{"ev": "reset", "init": init, "maxserial": maxSerial, "id": -1 - h})
		w.Emit(vt.M{"ev": "concurrent", "calls": cs, "stored": own, "foreign": foreign, "latest": latest})
		sq.Close()
	}
}

func notifyMode(scn, out string, nconc int) {
	w := vt.NewWriter(out)
	ctx := context.Background()
	clk := pki.NewClock(24 * time.Hour)
	u := &universe{w: pki.NewWorld(pki.New(), clk, c35Pool()), cache: map[string]cppki.SignedTRC{}}
	tmp, err := os.MkdirTemp("", "verif-trust-")
	if err != nil {
		vt.Fatal("tmp: %v", err)
	}
	defer os.RemoveAll(tmp)
	nh := 0
	readLines(scn, func(n int, line []byte) {
		var h struct {
			Init  int       `json:"init"`
			Steps []c35Step `json:"steps"`
		}
		if err := json.Unmarshal(line, &h); err != nil {
			vt.Fatal("scenario line %d: %v", n, err)
		}
		nh++
		maxSerial := 0
		for _, s := range h.Steps {
			if len(s.Outc) > maxSerial {
				maxSerial = len(s.Outc)
			}
		}
		sq := newTrustDB()
		for k := 1; k <= h.Init; k++ {
			if _, err := sq.InsertTRC(ctx, u.trc("a", k)); err != nil {
				vt.Fatal("initial insert: %v", err)
			}
		}
		w.Emit(vt.M{"ev": "reset", "init": h.Init, "maxserial": maxSerial, "id": n})
		for si, s := range h.Steps {
			switch s.Op {
			case "notify":
				f := &scriptFetcher{u: u, outc: s.Outc}
				fdb := faultDB{DB: sq}
				for k, o := range s.Outc {
					if o == "inserterr" {
						fdb.failSerial = k + 1
					}
					if o == "dbreaderr" {
						fdb.failRead = true
					}
				}
				prov := trust.FetchingProvider{DB: fdb, Recurser: trust.LocalOnlyRecurser{}, Fetcher: f, Router: fixedRouter{}}
				id := cppki.TRCID{ISD: pki.ISD(s.ISD), Base: scrypto.Version(s.Base), Serial: scrypto.Version(s.Serial)}
				err := prov.NotifyTRC(ctx, id)
				own, foreign, latest := stored(ctx, u, sq, maxSerial)
				w.Emit(vt.M{"ev": "notify", "isd": s.ISD, "base": s.Base, "serial": s.Serial, "outc": s.Outc,
					"errnil": b2i(err == nil), "fetched": vt.Ints(f.asked), "stored": own, "foreign": foreign, "latest": latest})
			case "load":
				dir := filepath.Join(tmp, fmt.Sprintf("h%d_s%d", n, si))
				if err := os.MkdirAll(dir, 0o755); err != nil {
					vt.Fatal("mkdir: %v", err)
				}
				files := []vt.M{}
				for i, fl := range s.Files {
					kind := fl.Content
					if fl.ISD == 2 {
						kind = "o"
					}
					if fl.Future {
						kind += "f"
					}
					var raw []byte
					if fl.Junk { // not a TRC at all (every second one a truncated genuine TRC)
						raw = []byte("this is not a TRC")
						if i%2 == 0 {
							g := u.trc("a", 1).Raw
							raw = g[:len(g)/2]
						}
					} else {
						raw = u.trc(kind, fl.Serial).Raw
					}
					if i%2 == 1 { // both accepted file formats
						raw = pem.EncodeToMemory(&pem.Block{Type: "TRC", Bytes: raw})
					}
					if err := os.WriteFile(filepath.Join(dir, fmt.Sprintf("%02d.trc", i)), raw, 0o644); err != nil {
						vt.Fatal("write: %v", err)
					}
					files = append(files, vt.M{"serial": fl.Serial, "content": fl.Content, "future": fl.Future,
						"isd": fl.ISD, "junk": fl.Junk})
				}
				res, err := trust.LoadTRCs(ctx, dir, sq)
				os.RemoveAll(dir)
				own, foreign, latest := stored(ctx, u, sq, maxSerial)
				w.Emit(vt.M{"ev": "load", "files": files, "errnil": b2i(err == nil), "loaded": len(res.Loaded),
					"ignored": len(res.Ignored), "stored": own, "foreign": foreign, "latest": latest})
			default:
				vt.Fatal("unknown step %q", s.Op)
			}
		}
		sq.Close()
	})
	concurrentHistories(ctx, w, u, nconc)
	w.Close()
	fmt.Printf("histories=%d concurrent=%d events=%d\n", nh, nconc, w.N)
}
