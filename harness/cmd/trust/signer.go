package main

import (
	"context"
	"crypto"
	"crypto/ecdsa"
	"encoding/json"
	"fmt"
	"time"

	"github.com/patrickmn/go-cache"

	"github.com/scionproto/scion/pkg/scrypto/cppki"
	"github.com/scionproto/scion/private/trust"

	"verifharness/internal/pki"
	"verifharness/internal/vt"
)

type ring []crypto.Signer

func (r ring) PrivateKeys(context.Context) ([]crypto.Signer, error) { return r, nil }

func signerMode(scn, out string) {
	w := vt.NewWriter(out)
	ctx := context.Background()
	p := pki.New()
	clk := pki.NewClock(24 * time.Hour)
	var cw *pki.ChainWorld
	tlCache := map[timeline][]cppki.SignedTRC{}
	nscn, nsig, directDone := 0, 0, false
	absTime := func(t time.Time) int {
		if k, ok := clk.Abs(t); ok {
			return k
		}
		return -99999
	}
	readLines(scn, func(n int, line []byte) {
		if n == 0 {
			var hdr struct {
				Pool []pki.AChainCert `json:"pool"`
			}
			if err := json.Unmarshal(line, &hdr); err != nil || len(hdr.Pool) == 0 {
				vt.Fatal("scenario header: %v", err)
			}
			cw = pki.NewChainWorld(p, clk, hdr.Pool, "S")
			w.Emit(vt.M{"ev": "pool", "pool": hdr.Pool})
			return
		}
		var c struct {
			TL     timeline `json:"tl"`
			Keys   []int    `json:"keys"`
			Chains [][]int  `json:"chains"`
		}
		if err := json.Unmarshal(line, &c); err != nil {
			vt.Fatal("scenario line %d: %v", n, err)
		}
		nscn++
		if c.Chains == nil {
			c.Chains = [][]int{}
		}
		sq := newTrustDB()
		for _, t := range trcsOf(cw, tlCache, c.TL) {
			if _, err := sq.InsertTRC(ctx, t); err != nil {
				vt.Fatal("insert TRC: %v", err)
			}
		}
		for _, ch := range c.Chains {
			if _, err := sq.InsertChain(ctx, cw.Chain(ch)); err != nil {
				vt.Fatal("insert chain: %v", err)
			}
		}
		var kr ring
		for _, k := range c.Keys {
			kr = append(kr, p.Key(cw.RingKeyName(k)))
		}
		w.Emit(vt.M{"ev": "reset", "tl": c.TL, "keys": c.Keys, "chains": c.Chains})
		gen := trust.SignerGen{IA: pki.ChainIA(2), KeyRing: kr, DB: sq}
		signers, err := gen.Generate(ctx)
		w.Emit(vt.M{"ev": "generate", "n": len(signers), "errnil": b2i(err == nil)})
		prov := trust.FetchingProvider{DB: sq, Recurser: trust.LocalOnlyRecurser{}, Fetcher: &chainFetcher{}, Router: fixedRouter{}}
		for _, s := range signers {
			nsig++
			key := 0
			for i, k := range kr {
				if k.Public().(*ecdsa.PublicKey).Equal(s.PrivateKey.Public()) {
					key = c.Keys[i]
				}
			}
			msg := []byte("verification message")
			sm, serr := s.Sign(ctx, msg, []byte("associated"))
			vok, vother := 0, 0
			if serr == nil {
				if m, err := (trust.Verifier{BoundIA: pki.ChainIA(2), Engine: prov}).Verify(ctx, sm, []byte("associated")); err == nil && string(m.Body) == string(msg) {
					vok = 1
				}
				if _, err := (trust.Verifier{BoundIA: pki.ChainIA(3), Engine: prov}).Verify(ctx, sm, []byte("associated")); err == nil {
					vother = 1
				}
			}
			// a verifier with its (real) cache meets the signer before the chain is available to its trust
			// engine, then the chain arrives: the next message must verify
			vlate := -1
			if serr == nil && vok == 1 && (nsig <= 40 || (int64(nsig)+vt.Seed())%23 == 0) {
				sq2 := newTrustDB()
				for _, t := range trcsOf(cw, tlCache, c.TL) {
					if _, err := sq2.InsertTRC(ctx, t); err != nil {
						vt.Fatal("insert TRC: %v", err)
					}
				}
				prov2 := trust.FetchingProvider{DB: sq2, Recurser: trust.LocalOnlyRecurser{}, Fetcher: &chainFetcher{}, Router: fixedRouter{}}
				late := trust.Verifier{BoundIA: pki.ChainIA(2), Engine: prov2, Cache: cache.New(time.Minute, time.Minute)}
				if _, err := late.Verify(ctx, sm, []byte("associated")); err == nil {
					vlate = 2 // verified without a chain in the store
				} else {
					if _, err := sq2.InsertChain(ctx, s.Chain); err != nil {
						vt.Fatal("insert chain: %v", err)
					}
					_, err := late.Verify(ctx, sm, []byte("associated"))
					vlate = b2i(err == nil)
				}
				sq2.Close()
			}
			w.Emit(vt.M{"ev": "signer", "vlate": vlate, "key": key, "chain": cw.Ident(s.Chain), "ingrace": s.InGrace,
				"exp": absTime(s.Expiration), "trcserial": int(s.TRCID.Serial), "signok": b2i(serr == nil),
				"verifyok": vok, "verifyother": vother, "subjectok": b2i(s.IA == pki.ChainIA(2))})
			if !directDone && serr == nil {
				// the same signer with explicit expiration times either side of now
				directDone = true
				for _, k := range []int{-300, -1, 1, 300} {
					d := s
					d.Expiration = clk.T(k)
					_, err := d.Sign(ctx, msg)
					w.Emit(vt.M{"ev": "direct", "exp": k, "signok": b2i(err == nil)})
				}
			}
		}
		sq.Close()
	})
	w.Close()
	fmt.Printf("scenarios=%d signers=%d\n", nscn, nsig)
}
