package main

import (
	"context"
	"crypto/x509"
	"encoding/json"
	"fmt"
	"net"
	"time"

	"github.com/patrickmn/go-cache"

	cryptopb "github.com/scionproto/scion/pkg/proto/crypto"
	"github.com/scionproto/scion/pkg/scrypto"
	"github.com/scionproto/scion/pkg/scrypto/cppki"
	"github.com/scionproto/scion/pkg/scrypto/signed"
	"github.com/scionproto/scion/private/trust"

	"verifharness/internal/pki"
	"verifharness/internal/vt"
)

type chainFetcher struct {
	chains [][]*x509.Certificate
	asked  int
}

func (f *chainFetcher) Chains(context.Context, trust.ChainQuery, net.Addr) ([][]*x509.Certificate, error) {
	f.asked++
	return f.chains, nil
}

func (f *chainFetcher) TRC(context.Context, cppki.TRCID, net.Addr) (cppki.SignedTRC, error) {
	return cppki.SignedTRC{}, fmt.Errorf("no TRCs served")
}

// updateFetcher serves the TRC update S2.
type updateFetcher struct{ s2 cppki.SignedTRC }

func (f *updateFetcher) Chains(context.Context, trust.ChainQuery, net.Addr) ([][]*x509.Certificate, error) {
	return nil, nil
}

func (f *updateFetcher) TRC(_ context.Context, id cppki.TRCID, _ net.Addr) (cppki.SignedTRC, error) {
	if id == f.s2.TRC.ID {
		return f.s2, nil
	}
	return cppki.SignedTRC{}, fmt.Errorf("not found")
}

type timeline struct {
	NB1   int  `json:"nb1"`
	NA1   int  `json:"na1"`
	NB2   int  `json:"nb2"`
	NA2   int  `json:"na2"`
	Grace int  `json:"grace"`
	Two   bool `json:"two"`
	Keep  bool `json:"keep"` // the update keeps the root certificate of S1 (default: rotated)
}

// trcsOf builds (cached) the TRC history of a time line: S1 with root 1, S2 with root 2.
func trcsOf(cw *pki.ChainWorld, cache map[timeline][]cppki.SignedTRC, tl timeline) []cppki.SignedTRC {
	if t, ok := cache[tl]; ok {
		return t
	}
	s1 := cw.TRC(pki.ATRC{Serial: 1, Base: 1, NB: tl.NB1, NA: tl.NA1, Roots: []int{1}})
	if err := s1.Verify(nil); err != nil {
		vt.Fatal("generated base TRC does not verify: %v", err)
	}
	res := []cppki.SignedTRC{s1}
	if tl.Two {
		s2roots := []int{2}
		if tl.Keep {
			s2roots = []int{1}
		}
		s2 := cw.TRC(pki.ATRC{Serial: 2, Base: 1, NB: tl.NB2, NA: tl.NA2, Grace: tl.Grace, Roots: s2roots})
		if err := s2.Verify(&s1.TRC); err != nil {
			vt.Fatal("generated TRC update does not verify: %v", err)
		}
		res = append(res, s2)
	}
	cache[tl] = res
	return res
}

func chainsMode(scn, out string) {
	w := vt.NewWriter(out)
	ctx := context.Background()
	p := pki.New()
	var cwA, cwB *pki.ChainWorld
	var trcsA []cppki.SignedTRC
	tlCache := map[timeline][]cppki.SignedTRC{}
	nver, nprov, nhist := 0, 0, 0
	lastPart := ""
	var poolA, poolB []pki.AChainCert
	var atrcs []pki.ATRC
	readLines(scn, func(n int, line []byte) {
		if n == 0 {
			var hdr struct {
				PoolA []pki.AChainCert `json:"poola"`
				PoolB []pki.AChainCert `json:"poolb"`
				TRCsA []pki.ATRC       `json:"trcsa"`
			}
			if err := json.Unmarshal(line, &hdr); err != nil || len(hdr.PoolA) == 0 {
				vt.Fatal("scenario header: %v", err)
			}
			poolA, poolB, atrcs = hdr.PoolA, hdr.PoolB, hdr.TRCsA
			// part A: explicit verification times, one second per unit; part B: wall clock, one day per unit
			cwA = pki.NewChainWorld(p, pki.NewClock(time.Second), poolA, "A")
			cwB = pki.NewChainWorld(p, pki.NewClock(24*time.Hour), poolB, "B")
			for _, a := range atrcs {
				trcsA = append(trcsA, cwA.TRC(a))
			}
			return
		}
		var c struct {
			Kind   string   `json:"kind"`
			Chain  []int    `json:"chain"`
			TRC    int      `json:"trc"`
			T      int      `json:"t"`
			TL     timeline `json:"tl"`
			DB     [][]int  `json:"db"`
			Remote [][]int  `json:"remote"`
			QV     int      `json:"qv"`
		}
		if err := json.Unmarshal(line, &c); err != nil {
			vt.Fatal("scenario line %d: %v", n, err)
		}
		if c.Kind != lastPart {
			lastWasB := lastPart == "provider"
			lastPart = c.Kind
			if c.Kind == "history" && lastWasB {
				// same pool as the provider cases
			} else if c.Kind == "verify" {
				w.Emit(vt.M{"ev": "reset", "pool": poolA, "trcs": atrcs})
			} else {
				w.Emit(vt.M{"ev": "reset", "pool": poolB, "trcs": []pki.ATRC{}})
			}
		}
		switch c.Kind {
		case "verify":
			nver++
			err := cppki.VerifyChain(cwA.Chain(c.Chain), cppki.VerifyOptions{
				TRC: []*cppki.TRC{&trcsA[c.TRC-1].TRC}, CurrentTime: cwA.Clk.T(c.T)})
			w.Emit(vt.M{"ev": "verify", "chain": c.Chain, "trc": c.TRC, "t": c.T, "ok": b2i(err == nil)})
		case "provider":
			nprov++
			sq := newTrustDB()
			for _, t := range trcsOf(cwB, tlCache, c.TL) {
				if _, err := sq.InsertTRC(ctx, t); err != nil {
					vt.Fatal("insert TRC: %v", err)
				}
			}
			for _, ch := range c.DB {
				if _, err := sq.InsertChain(ctx, cwB.Chain(ch)); err != nil {
					vt.Fatal("insert chain: %v", err)
				}
			}
			f := &chainFetcher{}
			for _, ch := range c.Remote {
				f.chains = append(f.chains, cwB.Chain(ch))
			}
			prov := trust.FetchingProvider{DB: sq, Recurser: trust.LocalOnlyRecurser{}, Fetcher: f, Router: fixedRouter{}}
			q := trust.ChainQuery{IA: pki.ChainIA(2)}
			if c.QV != 0 { // chains valid at another instant are asked for
				q.Validity = cppki.Validity{NotBefore: cwB.Clk.T(c.QV), NotAfter: cwB.Clk.T(c.QV)}
			}
			got, err := prov.GetChains(ctx, q)
			ret := [][]int{}
			for _, ch := range got {
				ret = append(ret, cwB.Ident(ch))
			}
			if c.DB == nil {
				c.DB = [][]int{}
			}
			if c.Remote == nil {
				c.Remote = [][]int{}
			}
			w.Emit(vt.M{"ev": "provider", "tl": c.TL, "db": c.DB, "remote": c.Remote, "qv": c.QV, "ret": ret,
				"errnil": b2i(err == nil), "asked": f.asked})
			sq.Close()
		case "history":
			nhist++
			sq := newTrustDB()
			trcs := trcsOf(cwB, tlCache, c.TL) // S1, S2
			if len(trcs) != 2 {
				vt.Fatal("history case without TRC update")
			}
			if _, err := sq.InsertTRC(ctx, trcs[0]); err != nil {
				vt.Fatal("insert TRC: %v", err)
			}
			hasOld := false
			for _, ch := range c.DB {
				if _, err := sq.InsertChain(ctx, cwB.Chain(ch)); err != nil {
					vt.Fatal("insert chain: %v", err)
				}
				hasOld = hasOld || (len(ch) == 2 && ch[0] == 7 && ch[1] == 4)
			}
			f := &updateFetcher{s2: trcs[1]}
			prov := trust.FetchingProvider{DB: sq, Recurser: trust.LocalOnlyRecurser{}, Fetcher: f, Router: fixedRouter{}}
			ident := func(got [][]*x509.Certificate) [][]int {
				ret := [][]int{}
				for _, ch := range got {
					ret = append(ret, cwB.Ident(ch))
				}
				return ret
			}
			// a verifier with its real cache, and a message signed with the chain under the old root
			cached := trust.Verifier{BoundIA: pki.ChainIA(2), Engine: prov, Cache: cache.New(time.Minute, time.Minute),
				MaxCacheExpiration: time.Hour}
			var msg *cryptopb.SignedMessage
			v1, v2, v3 := -1, -1, -1
			if hasOld {
				as := cwB.Cert(7)
				signer := trust.Signer{PrivateKey: as.Key, Algorithm: signed.ECDSAWithSHA256, IA: pki.ChainIA(2),
					TRCID: trcs[0].TRC.ID, SubjectKeyID: as.X.SubjectKeyId, Expiration: time.Now().Add(time.Hour),
					Chain: cwB.Chain([]int{7, 4})}
				m, err := signer.Sign(ctx, []byte("message"))
				if err != nil {
					vt.Fatal("sign: %v", err)
				}
				msg = m
				_, err = cached.Verify(ctx, msg)
				v1 = b2i(err == nil)
			}
			got1, _ := prov.GetChains(ctx, trust.ChainQuery{IA: pki.ChainIA(2)})
			nerr := prov.NotifyTRC(ctx, trcs[1].TRC.ID)
			latest, err := sq.SignedTRC(ctx, cppki.TRCID{ISD: 1, Base: scrypto.LatestVer, Serial: scrypto.LatestVer})
			if err != nil {
				vt.Fatal("db read: %v", err)
			}
			got2, _ := prov.GetChains(ctx, trust.ChainQuery{IA: pki.ChainIA(2)})
			if hasOld {
				_, err := cached.Verify(ctx, msg)
				v2 = b2i(err == nil)
				_, err = (trust.Verifier{BoundIA: pki.ChainIA(2), Engine: prov}).Verify(ctx, msg)
				v3 = b2i(err == nil)
			}
			if c.DB == nil {
				c.DB = [][]int{}
			}
			w.Emit(vt.M{"ev": "history", "tl": c.TL, "db": c.DB, "get1": ident(got1), "s2ok": b2i(nerr == nil),
				"latest": int(latest.TRC.ID.Serial), "get2": ident(got2), "v1": v1, "v2": v2, "v3": v3})
			sq.Close()
		default:
			vt.Fatal("unknown case kind %q", c.Kind)
		}
	})
	w.Close()
	fmt.Printf("verify=%d provider=%d history=%d\n", nver, nprov, nhist)
}
