package main

import (
	"context"
	"crypto/x509"
	"encoding/json"
	"fmt"
	"net"
	"time"

	"github.com/scionproto/scion/pkg/scrypto/cppki"
	"github.com/scionproto/scion/private/trust"

	"verifharness/internal/pki"
	"verifharness/internal/vt"
)

type chainFetcher struct {
	chains [][]*x509.Certificate
	asked  int
}

func (f *chainFetcher) Chains(context.Context, trust.ChainQuery, net.Addr) ([][]*x509.Certificate, error) {
	f.asked++
	return f.chains, nil
}

func (f *chainFetcher) TRC(context.Context, cppki.TRCID, net.Addr) (cppki.SignedTRC, error) {
	return cppki.SignedTRC{}, fmt.Errorf("no TRCs served")
}

type timeline struct {
	NB1   int  `json:"nb1"`
	NA1   int  `json:"na1"`
	NB2   int  `json:"nb2"`
	NA2   int  `json:"na2"`
	Grace int  `json:"grace"`
	Two   bool `json:"two"`
}

// trcsOf builds (cached) the TRC history of a time line: S1 with root 1, S2 with root 2.
func trcsOf(cw *pki.ChainWorld, cache map[timeline][]cppki.SignedTRC, tl timeline) []cppki.SignedTRC {
	if t, ok := cache[tl]; ok {
		return t
	}
	s1 := cw.TRC(pki.ATRC{Serial: 1, Base: 1, NB: tl.NB1, NA: tl.NA1, Roots: []int{1}})
	if err := s1.Verify(nil); err != nil {
		vt.Fatal("generated base TRC does not verify: %v", err)
	}
	res := []cppki.SignedTRC{s1}
	if tl.Two {
		s2 := cw.TRC(pki.ATRC{Serial: 2, Base: 1, NB: tl.NB2, NA: tl.NA2, Grace: tl.Grace, Roots: []int{2}})
		if err := s2.Verify(&s1.TRC); err != nil {
			vt.Fatal("generated TRC update does not verify: %v", err)
		}
		res = append(res, s2)
	}
	cache[tl] = res
	return res
}

func chainsMode(scn, out string) {
	w := vt.NewWriter(out)
	ctx := context.Background()
	p := pki.New()
	var cwA, cwB *pki.ChainWorld
	var trcsA []cppki.SignedTRC
	tlCache := map[timeline][]cppki.SignedTRC{}
	nver, nprov := 0, 0
	lastPart := ""
	var poolA, poolB []pki.AChainCert
	var atrcs []pki.ATRC
	readLines(scn, func(n int, line []byte) {
		if n == 0 {
			var hdr struct {
				PoolA []pki.AChainCert `json:"poola"`
				PoolB []pki.AChainCert `json:"poolb"`
				TRCsA []pki.ATRC       `json:"trcsa"`
			}
			if err := json.Unmarshal(line, &hdr); err != nil || len(hdr.PoolA) == 0 {
				vt.Fatal("scenario header: %v", err)
			}
			poolA, poolB, atrcs = hdr.PoolA, hdr.PoolB, hdr.TRCsA
			// part A: explicit verification times, one second per unit; part B: wall clock, one day per unit
			cwA = pki.NewChainWorld(p, pki.NewClock(time.Second), poolA, "A")
			cwB = pki.NewChainWorld(p, pki.NewClock(24*time.Hour), poolB, "B")
			for _, a := range atrcs {
				trcsA = append(trcsA, cwA.TRC(a))
			}
			return
		}
		var c struct {
			Kind   string   `json:"kind"`
			Chain  []int    `json:"chain"`
			TRC    int      `json:"trc"`
			T      int      `json:"t"`
			TL     timeline `json:"tl"`
			DB     [][]int  `json:"db"`
			Remote [][]int  `json:"remote"`
		}
		if err := json.Unmarshal(line, &c); err != nil {
			vt.Fatal("scenario line %d: %v", n, err)
		}
		if c.Kind != lastPart {
			lastPart = c.Kind
			if c.Kind == "verify" {
				w.Emit(vt.M{"ev": "reset", "pool": poolA, "trcs": atrcs})
			} else {
				w.Emit(vt.M{"ev": "reset", "pool": poolB, "trcs": []pki.ATRC{}})
			}
		}
		switch c.Kind {
		case "verify":
			nver++
			err := cppki.VerifyChain(cwA.Chain(c.Chain), cppki.VerifyOptions{
				TRC: []*cppki.TRC{&trcsA[c.TRC-1].TRC}, CurrentTime: cwA.Clk.T(c.T)})
			w.Emit(vt.M{"ev": "verify", "chain": c.Chain, "trc": c.TRC, "t": c.T, "ok": b2i(err == nil)})
		case "provider":
			nprov++
			sq := newTrustDB()
			for _, t := range trcsOf(cwB, tlCache, c.TL) {
				if _, err := sq.InsertTRC(ctx, t); err != nil {
					vt.Fatal("insert TRC: %v", err)
				}
			}
			for _, ch := range c.DB {
				if _, err := sq.InsertChain(ctx, cwB.Chain(ch)); err != nil {
					vt.Fatal("insert chain: %v", err)
				}
			}
			f := &chainFetcher{}
			for _, ch := range c.Remote {
				f.chains = append(f.chains, cwB.Chain(ch))
			}
			prov := trust.FetchingProvider{DB: sq, Recurser: trust.LocalOnlyRecurser{}, Fetcher: f, Router: fixedRouter{}}
			got, err := prov.GetChains(ctx, trust.ChainQuery{IA: pki.ChainIA(2)})
			ret := [][]int{}
			for _, ch := range got {
				ret = append(ret, cwB.Ident(ch))
			}
			if c.DB == nil {
				c.DB = [][]int{}
			}
			if c.Remote == nil {
				c.Remote = [][]int{}
			}
			w.Emit(vt.M{"ev": "provider", "tl": c.TL, "db": c.DB, "remote": c.Remote, "ret": ret,
				"errnil": b2i(err == nil), "asked": f.asked})
			sq.Close()
		default:
			vt.Fatal("unknown case kind %q", c.Kind)
		}
	})
	w.Close()
	fmt.Printf("verify=%d provider=%d\n", nver, nprov)
}
