// Driver for C28 / C29: builds REAL path segments with the real beaconing extender over small
// generated topologies (several beaconing runs with perturbed expiry / MTU settings and newer
// timestamps), calls the REAL combinator.Combine and logs inputs (abstract projection of the
// segments) and outputs (decoded forwarding path + metadata of every returned path).
// The driver never judges: CombinatorTrace.tla recomputes the allowed result.
package main

import (
	"encoding/hex"
	"flag"
	"fmt"
	"math/rand"
	"time"

	"github.com/scionproto/scion/pkg/addr"
	seg "github.com/scionproto/scion/pkg/segment"
	"github.com/scionproto/scion/pkg/slayers/path/scion"
	"github.com/scionproto/scion/private/path/combinator"
	"github.com/scionproto/scion/private/topology"

	"verifharness/internal/segs"
	"verifharness/internal/vt"
)

var base = time.Unix(1_700_000_000, 0)

func pathJSON(p combinator.Path) vt.M {
	var d scion.Decoded
	m := vt.M{"decode": "ok"}
	if err := d.DecodeFromBytes(p.SCIONPath.Raw); err != nil {
		m["decode"] = "error"
	}
	seglen := []int{int(d.PathMeta.SegLen[0]), int(d.PathMeta.SegLen[1]), int(d.PathMeta.SegLen[2])}
	infos := make([]vt.M, 0, 3)
	for _, inf := range d.InfoFields {
		infos = append(infos, vt.M{"cd": inf.ConsDir, "peer": inf.Peer, "segid": int(inf.SegID),
			"ts": int(int64(inf.Timestamp) - base.Unix())})
	}
	hops := make([]vt.M, 0, 8)
	for _, h := range d.HopFields {
		hops = append(hops, vt.M{"in": int(h.ConsIngress), "eg": int(h.ConsEgress), "exp": int(h.ExpTime),
			"mac": hex.EncodeToString(h.Mac[:]), "alert": h.IngressRouterAlert || h.EgressRouterAlert})
	}
	intfs := make([]vt.M, 0, 8)
	for _, i := range p.Metadata.Interfaces {
		intfs = append(intfs, vt.M{"ia": segs.IAStr(i.IA), "id": int(i.ID)})
	}
	m["curr"] = []int{int(d.PathMeta.CurrINF), int(d.PathMeta.CurrHF)}
	m["seglen"] = seglen
	m["infos"] = infos
	m["hops"] = hops
	m["intfs"] = intfs
	m["mtu"] = int(p.Metadata.MTU)
	m["exp"] = int(p.Metadata.Expiry.Sub(base) / time.Millisecond)
	m["expfrac"] = int(p.Metadata.Expiry.Sub(base) % time.Millisecond)
	m["w"] = p.Weight
	return m
}

func perturb(rng *rand.Rand, t *segs.Topo) {
	mt := []uint16{1200, 1280, 1350, 1400, 1472, 1500}
	for _, ia := range t.Order {
		a := t.ASes[ia]
		if rng.Intn(3) == 0 {
			a.MaxExp = uint8(rng.Intn(256))
		}
		if rng.Intn(4) == 0 {
			a.MTU = mt[rng.Intn(len(mt))]
		}
	}
	for i := range t.Links {
		if rng.Intn(4) == 0 {
			l := &t.Links[i]
			l.MTU = mt[rng.Intn(len(mt))]
			t.ASes[l.A].Ifs[l.AIf].MTU = l.MTU
			t.ASes[l.B].Ifs[l.BIf].MTU = l.MTU
		}
	}
}

// distinctPeerHops returns a copy of the segment in which every peer entry's hop field differs from
// the regular hop field of its AS entry in every field a combinator could mix up (expiry, MAC) -
// the real extender gives both the same expiry, other implementations need not.
func distinctPeerHops(rng *rand.Rand, ps *seg.PathSegment) *seg.PathSegment {
	c := ps.ShallowCopy()
	for i := range c.ASEntries {
		e := c.ASEntries[i]
		if len(e.PeerEntries) == 0 {
			continue
		}
		pe := append([]seg.PeerEntry{}, e.PeerEntries...)
		for j := range pe {
			x := uint8(rng.Intn(256))
			for x == e.HopEntry.HopField.ExpTime {
				x = uint8(rng.Intn(256))
			}
			pe[j].HopField.ExpTime = x
			rng.Read(pe[j].HopField.MAC[:])
		}
		c.ASEntries[i].PeerEntries = pe
	}
	return c
}

func cap9(l []*seg.PathSegment) []*seg.PathSegment {
	if len(l) > 6 {
		return l[:6]
	}
	return l
}

func subset(rng *rand.Rand, l []*seg.PathSegment, maxN int) []*seg.PathSegment {
	out := append([]*seg.PathSegment{}, l...)
	rng.Shuffle(len(out), func(i, j int) { out[i], out[j] = out[j], out[i] })
	if rng.Intn(3) == 0 {
		keep := out[:0]
		for _, s := range out {
			if rng.Intn(3) != 0 {
				keep = append(keep, s)
			}
		}
		out = keep
	}
	if len(out) > maxN {
		out = out[:maxN]
	}
	return out
}

func main() {
	out := flag.String("out", "combine.ndjson", "trace file")
	n := flag.Int("n", 100, "number of topologies")
	pairs := flag.Int("pairs", 4, "src/dst pairs per topology")
	maxSegs := flag.Int("maxsegs", 6, "max up / down segments per call")
	maxCores := flag.Int("maxcores", 8, "max core segments per call")
	dupPairs := flag.Int("duppairs", 2, "pairs of the re-beaconed-duplicates family per hand-shaped topology")
	withTopo := flag.Bool("topo", false, "log the topology description with every case (debugging)")
	flag.Parse()
	w := vt.NewWriter(*out)
	defer w.Close()
	caseNo := 0
	emit := func(i int, t *segs.Topo, src, dst addr.IA, ups, cs, downs []*seg.PathSegment, all bool) {
		caseNo++
		rs := vt.M{"ev": "reset", "case": caseNo, "topology": i}
		if *withTopo {
			rs["topo"] = t.Describe()
		}
		w.Emit(rs)
		ev := vt.M{"ev": "combine", "src": segs.IAStr(src), "dst": segs.IAStr(dst), "all": all,
			"ups": segs.SegsJSON(ups, base), "cores": segs.SegsJSON(cs, base),
			"downs": segs.SegsJSON(downs, base)}
		func() {
			defer func() {
				if r := recover(); r != nil {
					ev["ev"] = "panic"
					ev["what"] = fmt.Sprint(r)
				}
			}()
			res := combinator.Combine(src, dst, ups, cs, downs, all)
			ps := make([]vt.M, 0, len(res))
			for _, p := range res {
				ps = append(ps, pathJSON(p))
			}
			ev["paths"] = ps
		}()
		w.Emit(ev)
	}
	for i := 0; i < *n; i++ {
		rng := vt.Rand(int64(i))
		o := segs.DefaultOpts()
		o.SameASNumbers = i%2 == 1
		if i%5 == 4 {
			o.MaxLevel = 3
			o.MaxNonCore = 5
		}
		t := segs.Gen(rng, o)
		if i%6 == 5 { // hand-shaped families random generation rarely hits
			t = segs.Directed(rng, i/6)
		}
		down := map[addr.IA][]*seg.PathSegment{}
		var cores []*seg.PathSegment
		runs := 1 + rng.Intn(3)
		if i%6 == 5 {
			runs = 3
		}
		for r := 0; r < runs; r++ {
			if r > 0 && (rng.Intn(3) != 0 || i%6 == 5) {
				perturb(rng, t)
			}
			// peering links come and go between beaconing runs: the same hop sequence is registered with
			// different sets of peer entries
			t.PeerOff = map[int]bool{}
			for li, l := range t.Links {
				if l.Type == "peer" && runs > 1 && rng.Intn(3) == 0 {
					t.PeerOff[li] = true
				}
			}
			ts := base.Add(-time.Duration(rng.Intn(7200)) * time.Second)
			ss, err := t.Run(ts, rng, 5, nil)
			if err != nil {
				vt.Fatal("beaconing run failed: %v", err)
			}
			for ia, l := range ss.Down {
				if i%3 == 1 {
					for k := range l {
						l[k] = distinctPeerHops(rng, l[k])
					}
				}
				down[ia] = append(down[ia], l...)
			}
			cores = append(cores, ss.Core...)
		}
		for p := 0; p < *pairs; p++ {
			var src, dst addr.IA
			for src == dst {
				src, dst = t.Order[rng.Intn(len(t.Order))], t.Order[rng.Intn(len(t.Order))]
				if len(t.Order) < 2 {
					break
				}
			}
			if src == dst {
				continue
			}
			ups := subset(rng, down[src], *maxSegs)
			downs := subset(rng, down[dst], *maxSegs)
			cs := subset(rng, cores, *maxCores)
			if rng.Intn(8) == 0 && len(t.Order) > 2 { // noise: segments of some other AS
				other := t.Order[rng.Intn(len(t.Order))]
				ups = append(ups, subset(rng, down[other], 2)...)
				downs = append(downs, subset(rng, down[other], 2)...)
			}
			if rng.Intn(10) == 0 && len(ups) > 0 { // exact duplicate of an input segment
				ups = append(ups, ups[rng.Intn(len(ups))])
			}
			if rng.Intn(10) == 0 && len(downs) > 0 {
				downs = append(downs, downs[rng.Intn(len(downs))])
			}
			emit(i, t, src, dst, ups, cs, downs, rng.Intn(4) == 0)
		}
		// directed family: re-beaconed duplicates (same interface sequences, other timestamps / expiries /
		// MTUs) between ASes that BOTH have peering links, with and without findAllIdentical
		if i%6 == 5 {
			hasPeer := func(ia addr.IA) bool { return len(t.ASes[ia].SortedIfs(topology.Peer)) > 0 }
			done := 0
			for _, src := range t.Order {
				for _, dst := range t.Order {
					if src == dst || !hasPeer(src) || !hasPeer(dst) || done >= *dupPairs {
						continue
					}
					done++
					for _, all := range []bool{false, true} {
						emit(i, t, src, dst, cap9(down[src]), cap9(cores), cap9(down[dst]), all)
					}
				}
			}
		}
	}
	// directed family: segments close to the SCION limits (<= 64 hop fields per path, <= 63 per segment)
	type long struct{ nCore, la, lb int }
	for li, l := range []long{{1, 62, 1}, {1, 61, 1}, {1, 31, 33}, {3, 60, 1}, {40, 0, 26},
		{1, 63, 0}, {64, 0, 0}} {
		rng := vt.Rand(int64(100000 + li))
		t, a, b := segs.Lines(rng, l.nCore, l.la, l.lb)
		ss, err := t.Run(base.Add(-time.Minute), rng, 70, nil)
		if err != nil {
			vt.Fatal("beaconing run (long lines) failed: %v", err)
		}
		src, dst := a, b
		var cs []*seg.PathSegment
		for _, c := range ss.Core { // only the core segments between the two ends of the core line
			if c.FirstIA() == t.Order[l.nCore-1] && c.LastIA() == t.Order[0] {
				cs = append(cs, c)
			}
		}
		for _, all := range []bool{li%2 == 1} {
			caseNo++
			w.Emit(vt.M{"ev": "reset", "case": caseNo, "topology": 100000 + li})
			ev := vt.M{"ev": "combine", "src": segs.IAStr(src), "dst": segs.IAStr(dst), "all": all,
				"ups": segs.SegsJSON(ss.Down[src], base), "cores": segs.SegsJSON(cs, base),
				"downs": segs.SegsJSON(ss.Down[dst], base)}
			func() {
				defer func() {
					if r := recover(); r != nil {
						ev["ev"] = "panic"
						ev["what"] = fmt.Sprint(r)
					}
				}()
				res := combinator.Combine(src, dst, ss.Down[src], cs, ss.Down[dst], all)
				ps := make([]vt.M, 0, len(res))
				for _, p := range res {
					ps = append(ps, pathJSON(p))
				}
				ev["paths"] = ps
			}()
			w.Emit(ev)
		}
	}
	fmt.Printf("cases=%d\n", caseNo)
}
