// Driver for C27: executes operation histories (TLC-generated ones from -scn, plus seeded random
// ones) on the REAL sqlite-backed beacon DB (private/storage/beacon/sqlite) and path-segment DB
// (private/storage/path/sqlite), both in memory, and logs every operation with its full result in
// abstract form (pool indices, types, groups, usages, counts) for SegDBTrace.tla.
// The driver never judges.
package main

import (
	"bufio"
	"context"
	"encoding/json"
	"flag"
	"fmt"
	"math/rand"
	"os"
	"sort"
	"sync"
	"sync/atomic"
	"time"

	"github.com/scionproto/scion/control/beacon"
	seg "github.com/scionproto/scion/pkg/segment"
	"github.com/scionproto/scion/pkg/segment/iface"
	"github.com/scionproto/scion/private/pathdb"
	"github.com/scionproto/scion/private/pathdb/query"
	storagebeacon "github.com/scionproto/scion/private/storage/beacon"
	beaconsqlite "github.com/scionproto/scion/private/storage/beacon/sqlite"
	"github.com/scionproto/scion/private/storage/db"
	pathsqlite "github.com/scionproto/scion/private/storage/path/sqlite"

	"verifharness/internal/segpool"
	"verifharness/internal/vt"
)

const idN = 10 // hex digits of a segment id kept in the abstract trace

// abstract hidden-path group -> real id
var groupTab = []uint64{0, 1, 0xffffffffffffffff, 0xff00_0000_0110<<16 | 7}

func absGroup(g uint64) int {
	for i, x := range groupTab {
		if x == g {
			return i
		}
	}
	return -1
}

func usageMask(bits []int) beacon.Usage {
	u := 0
	for _, b := range bits {
		u |= b
	}
	return beacon.Usage(u)
}

func usageBits(u beacon.Usage) []int {
	out := []int{}
	for b := 1; b <= 1<<20; b <<= 1 {
		if int(u)&b != 0 {
			out = append(out, b)
		}
	}
	return out
}

func cut(nib []int) []int {
	if len(nib) > idN {
		return nib[:idN]
	}
	return nib
}

func at(t int) time.Time { return segpool.Base.Add(time.Duration(t) * time.Second) }

// ---------------------------------------------------------------------------------------------

type step = map[string]any

func geti(s step, k string) int {
	switch v := s[k].(type) {
	case float64:
		return int(v)
	case int:
		return v
	case bool:
		if v {
			return 1
		}
		return 0
	}
	return 0
}

func getl(s step, k string) []int {
	out := []int{}
	switch v := s[k].(type) {
	case []any:
		for _, x := range v {
			if f, ok := x.(float64); ok {
				out = append(out, int(f))
			}
		}
	case []int:
		return append(out, v...)
	}
	return out
}

func getll(s step, k string) [][]int {
	out := [][]int{}
	switch v := s[k].(type) {
	case []any:
		for _, x := range v {
			in := []int{}
			if l, ok := x.([]any); ok {
				for _, y := range l {
					if f, ok := y.(float64); ok {
						in = append(in, int(f))
					}
				}
			}
			out = append(out, in)
		}
	case [][]int:
		return v
	}
	return out
}

func getm(s step, k string) step {
	if m, ok := s[k].(map[string]any); ok {
		return m
	}
	return step{}
}

// ---------------------------------------------------------------------------------------------

type runner struct {
	w    *vt.Writer
	pool *segpool.Pool
	kind string
	pdb  *pathsqlite.Backend
	bdb  *beaconsqlite.Backend
	n    int
	uses int
	tx   pathdb.Transaction // open path-DB transaction (all operations go through it)
	emit func(vt.M)         // nil: write to w
}

func (r *runner) out(ev vt.M) {
	if r.emit != nil {
		r.emit(ev)
		return
	}
	r.w.Emit(ev)
}

// rw is what path-DB operations are executed on: the open transaction, else the backend.
func (r *runner) rw() pathdb.ReadWrite {
	if r.tx != nil {
		return r.tx
	}
	return r.pdb
}

// endTx commits a transaction a history left open (logged like any other operation).
func (r *runner) endTx() {
	if r.tx != nil {
		r.exec(step{"op": "txc"})
	}
}

var dbSeq int

// open starts a new trace on an empty database. Opening an in-memory sqlite database costs ~50 ms,
// so one database serves reopenEvery traces and is emptied in between with plain SQL by the harness
// (not through the code under test).
const reopenEvery = 200

func (r *runner) open(id int, src string) {
	r.uses++
	if r.uses > reopenEvery {
		r.reallyClose()
	}
	var err error
	if r.pdb == nil && r.bdb == nil {
		dbSeq++
		r.uses = 1
		name := fmt.Sprintf("verif_segdb_%d_%d", os.Getpid(), dbSeq)
		if r.kind == "p" {
			r.pdb, err = pathsqlite.New(name, &db.SqliteConfig{InMemory: true})
		} else {
			r.bdb, err = beaconsqlite.New(name, segpool.IA(13), &db.SqliteConfig{InMemory: true})
		}
		if err != nil {
			vt.Fatal("open db: %v", err)
		}
	} else if r.kind == "p" {
		for _, t := range []string{"Segments", "IntfToSeg", "SegTypes", "HPGroupIDs", "NextQuery"} {
			if _, err := r.pdb.DB().Full.Exec("DELETE FROM " + t); err != nil {
				vt.Fatal("clearing %s: %v", t, err)
			}
		}
	} else {
		if _, err := r.bdb.DB().Full.Exec("DELETE FROM Beacons"); err != nil {
			vt.Fatal("clearing Beacons: %v", err)
		}
	}
	r.w.Emit(vt.M{"ev": "reset", "kind": r.kind, "id": id, "src": src, "pool": r.poolJSON()})
}

func (r *runner) poolJSON() []vt.M {
	js := r.pool.JSON()
	for i := range js {
		js[i]["id"] = cut(r.pool.Descs[i].ID)
	}
	return js
}

func (r *runner) close() {}

func (r *runner) reallyClose() {
	if r.pdb != nil {
		r.pdb.Close()
		r.pdb = nil
	}
	if r.bdb != nil {
		r.bdb.Close()
		r.bdb = nil
	}
}

// prefix of pool element `of` with `n` hex digits: the string handed to the code and its abstraction
func (r *runner) prefix(of, n int) (string, []int) {
	id := r.pool.Descs[of-1].ID
	if n > len(id) {
		n = len(id)
	}
	return segpool.HexOf(id[:n]), cut(id[:n])
}

func errStr(err error) int {
	if err != nil {
		return 1
	}
	return 0
}

func (r *runner) exec(s step) {
	ctx := context.Background()
	op, _ := s["op"].(string)
	switch op {
	case "pins":
		p := geti(s, "p")
		groups := getl(s, "groups")
		typ := geti(s, "type")
		meta := &seg.Meta{Segment: r.pool.Segs[p-1], Type: seg.Type(typ)}
		var st pathdb.InsertStats
		var err error
		if geti(s, "plain") == 1 {
			st, err = r.rw().Insert(ctx, meta)
			groups = []int{0}
		} else {
			real := make([]uint64, 0, len(groups))
			for _, g := range groups {
				real = append(real, groupTab[g])
			}
			st, err = r.rw().InsertWithHPGroupIDs(ctx, meta, real)
		}
		r.out(vt.M{"ev": "pins", "p": p, "type": typ, "groups": groups, "ins": st.Inserted,
			"upd": st.Updated, "err": errStr(err)})
	case "pget":
		f := getm(s, "f")
		var params *query.Params
		absIDs := [][]int{}
		if geti(s, "all") == 1 {
			params = nil
		} else {
			params = &query.Params{}
			for _, idr := range getll(f, "ids") { // [pool index, hex digits (even)] ; 0 digits = full id
				full := r.pool.Segs[idr[0]-1].ID()
				if idr[1] > 0 && idr[1]/2 < len(full) {
					full = full[:idr[1]/2]
				}
				params.SegIDs = append(params.SegIDs, full)
				absIDs = append(absIDs, cut(segpool.Nibbles(full)))
			}
			for _, t := range getl(f, "types") {
				params.SegTypes = append(params.SegTypes, seg.Type(t))
			}
			for _, g := range getl(f, "groups") {
				params.HPGroupIDs = append(params.HPGroupIDs, groupTab[g])
			}
			for _, x := range getll(f, "intfs") {
				params.Intfs = append(params.Intfs, &query.IntfSpec{IA: segpool.IA(x[0]), IfID: iface.ID(x[1])})
			}
			for _, x := range getl(f, "starts") {
				params.StartsAt = append(params.StartsAt, segpool.IA(x))
			}
			for _, x := range getl(f, "ends") {
				params.EndsAt = append(params.EndsAt, segpool.IA(x))
			}
		}
		var res query.Results
		var err error
		if params == nil && geti(s, "getall") == 1 {
			res, err = r.rw().GetAll(ctx)
		} else {
			res, err = r.rw().Get(ctx, params)
		}
		out := []vt.M{}
		for _, x := range res {
			gs := []int{}
			for _, g := range x.HPGroupIDs {
				gs = append(gs, absGroup(g))
			}
			out = append(out, vt.M{"p": r.pool.Index(x.Seg), "type": int(x.Type), "groups": gs})
		}
		r.out(vt.M{"ev": "pget", "f": vt.M{"ids": absIDs, "types": getl(f, "types"),
			"groups": getl(f, "groups"), "intfs": getll(f, "intfs"), "starts": getl(f, "starts"),
			"ends": getl(f, "ends")}, "res": out, "err": errStr(err)})
	case "pdel":
		hexs, abs := r.prefix(geti(s, "of"), geti(s, "len"))
		err := r.rw().DeleteSegment(ctx, hexs)
		r.out(vt.M{"ev": "pdel", "pre": abs, "err": errStr(err)})
	case "pexp":
		n, err := r.rw().DeleteExpired(ctx, at(geti(s, "now")))
		r.out(vt.M{"ev": "pexp", "now": geti(s, "now"), "ret": n, "err": errStr(err)})
	case "nqins":
		t := segpool.Base.Add(time.Duration(geti(s, "t")) * time.Millisecond)
		ok, err := r.rw().InsertNextQuery(ctx, segpool.IA(geti(s, "src")), segpool.IA(geti(s, "dst")), t)
		r.out(vt.M{"ev": "nqins", "src": geti(s, "src"), "dst": geti(s, "dst"), "t": geti(s, "t"),
			"ret": ok, "err": errStr(err)})
	case "nqget":
		t, err := r.rw().GetNextQuery(ctx, segpool.IA(geti(s, "src")), segpool.IA(geti(s, "dst")))
		has, abs := !t.IsZero(), 0
		if has {
			d := t.Sub(segpool.Base)
			abs = int(d / time.Millisecond)
			if d%time.Millisecond != 0 || d < 0 || d > time.Hour*1000 {
				abs = -1 // not a value this driver ever stored
			}
		}
		r.out(vt.M{"ev": "nqget", "src": geti(s, "src"), "dst": geti(s, "dst"), "has": has, "t": abs,
			"err": errStr(err)})

	case "txb":
		tx, err := r.pdb.BeginTransaction(ctx, nil)
		if err == nil {
			r.tx = tx
		}
		r.out(vt.M{"ev": "txb", "err": errStr(err)})
	case "txc", "txr":
		var err error
		if r.tx == nil {
			vt.Fatal("%s without open transaction", op)
		}
		if op == "txc" {
			err = r.tx.Commit()
		} else {
			err = r.tx.Rollback()
		}
		r.tx = nil
		r.out(vt.M{"ev": op, "err": errStr(err)})

	case "bins":
		p := geti(s, "p")
		st, err := r.bdb.InsertBeacon(ctx, beacon.Beacon{Segment: r.pool.Segs[p-1],
			InIfID: uint16(geti(s, "inIf"))}, usageMask(getl(s, "usage")))
		r.out(vt.M{"ev": "bins", "p": p, "inIf": geti(s, "inIf"), "usage": getl(s, "usage"),
			"ins": st.Inserted, "upd": st.Updated, "flt": st.Filtered, "err": errStr(err)})
	case "bcand":
		res, err := r.bdb.CandidateBeacons(ctx, geti(s, "n"), usageMask(getl(s, "usage")),
			segpool.IA(geti(s, "src")))
		out := []vt.M{}
		for _, b := range res {
			out = append(out, vt.M{"p": r.pool.Index(b.Segment), "inIf": int(b.InIfID)})
		}
		r.out(vt.M{"ev": "bcand", "n": geti(s, "n"), "usage": getl(s, "usage"), "src": geti(s, "src"),
			"res": out, "err": errStr(err)})
	case "bget":
		f := getm(s, "f")
		var params *storagebeacon.QueryParams
		absIDs := [][]int{}
		if geti(s, "all") != 1 {
			params = &storagebeacon.QueryParams{}
			for _, idr := range getll(f, "ids") { // [pool index, hex digits (even)]
				full := r.pool.Segs[idr[0]-1].ID()
				if idr[1]/2 < len(full) {
					full = full[:idr[1]/2]
				}
				params.SegIDs = append(params.SegIDs, full)
				absIDs = append(absIDs, cut(segpool.Nibbles(full)))
			}
			for _, x := range getl(f, "starts") {
				params.StartsAt = append(params.StartsAt, segpool.IA(x))
			}
			for _, x := range getl(f, "inIfs") {
				params.IngressInterfaces = append(params.IngressInterfaces, uint16(x))
			}
			for _, u := range getll(f, "usages") {
				params.Usages = append(params.Usages, usageMask(u))
			}
			if geti(f, "hasValid") == 1 {
				params.ValidAt = at(geti(f, "valid"))
			}
		}
		res, err := r.bdb.GetBeacons(ctx, params)
		out := []vt.M{}
		for _, b := range res {
			out = append(out, vt.M{"p": r.pool.Index(b.Beacon.Segment), "inIf": int(b.Beacon.InIfID),
				"usage": usageBits(b.Usage)})
		}
		r.out(vt.M{"ev": "bget", "f": vt.M{"ids": absIDs, "starts": getl(f, "starts"),
			"inIfs": getl(f, "inIfs"), "usages": getll(f, "usages"), "hasValid": geti(f, "hasValid") == 1,
			"valid": geti(f, "valid")}, "res": out, "err": errStr(err)})
	case "bsrc":
		res, err := r.bdb.BeaconSources(ctx)
		out := []int{}
		for _, ia := range res {
			out = append(out, segpool.AbsIA(ia))
		}
		r.out(vt.M{"ev": "bsrc", "res": out, "err": errStr(err)})
	case "bdel":
		hexs, abs := r.prefix(geti(s, "of"), geti(s, "len"))
		err := r.bdb.DeleteBeacon(ctx, hexs)
		r.out(vt.M{"ev": "bdel", "pre": abs, "err": errStr(err)})
	case "bexp":
		n, err := r.bdb.DeleteExpiredBeacons(ctx, at(geti(s, "now")))
		r.out(vt.M{"ev": "bexp", "now": geti(s, "now"), "ret": n, "err": errStr(err)})
	default:
		vt.Fatal("unknown op %q", op)
	}
}

// ---------------------------------------------------------------------------------------------
// query generation (seeded): filters over the values that occur in the pool (plus a few that do not)

type gen struct {
	rng  *rand.Rand
	pool *segpool.Pool
}

func (g *gen) pickSome(vals []int, pmore int) []int {
	out := []int{}
	for len(vals) > 0 && (len(out) == 0 || g.rng.Intn(100) < pmore) && len(out) < 3 {
		out = append(out, vals[g.rng.Intn(len(vals))])
	}
	return out
}

func (g *gen) ias(start bool) []int {
	vals := []int{}
	for _, d := range g.pool.Descs {
		ia := d.Hops[len(d.Hops)-1].IA
		if start {
			ia = d.Hops[0].IA
		}
		vals = append(vals, ia, ia/10*10)
	}
	vals = append(vals, 31, 30)
	return vals
}

func (g *gen) pquery() step {
	r := g.rng
	if r.Intn(6) == 0 {
		return step{"op": "pget", "all": 1, "getall": r.Intn(2)}
	}
	f := step{}
	np := len(g.pool.Descs)
	if r.Intn(4) == 0 {
		ids := [][]int{}
		for k := 0; k <= r.Intn(2); k++ {
			l := 0
			if r.Intn(5) == 0 {
				l = 2 * (1 + r.Intn(3)) // a truncated id never matches in the path DB
			}
			ids = append(ids, []int{1 + r.Intn(np), l})
		}
		f["ids"] = ids
	}
	if r.Intn(2) == 0 {
		f["types"] = g.pickSome([]int{1, 2, 3, 1, 2, 3, 0, 4}, 35)
	}
	if r.Intn(2) == 0 {
		f["groups"] = g.pickSome([]int{0, 1, 2, 3}, 35)
	}
	if r.Intn(3) == 0 {
		all := [][]int{}
		for _, d := range g.pool.Descs {
			for _, h := range d.Hops {
				all = append(all, []int{h.IA, h.In}, []int{h.IA, h.Eg})
			}
			for _, p := range d.Peers {
				all = append(all, []int{d.Hops[p[0]-1].IA, p[1]})
			}
		}
		all = append(all, []int{31, 1}, []int{11, 99})
		x := [][]int{all[r.Intn(len(all))]}
		if r.Intn(3) == 0 {
			x = append(x, all[r.Intn(len(all))])
		}
		f["intfs"] = x
	}
	if r.Intn(3) == 0 {
		f["starts"] = g.pickSome(g.ias(true), 30)
	}
	if r.Intn(3) == 0 {
		f["ends"] = g.pickSome(g.ias(false), 30)
	}
	return step{"op": "pget", "f": f}
}

// next-query keys differing in exactly one component (same as NQPairs in SegDB.tla, plus one unused key)
var nqPairs = [][2]int{{11, 12}, {11, 13}, {11, 22}, {21, 12}, {12, 11}}

var usageChoices = [][]int{{1}, {2}, {4}, {8}, {1, 2}, {1, 8}, {1, 2, 8}, {4, 8}, {1, 2, 4, 8}}

func (g *gen) bquery() step {
	r := g.rng
	np := len(g.pool.Descs)
	switch r.Intn(10) {
	case 0:
		return step{"op": "bsrc"}
	case 1, 2, 3, 4:
		src := 0
		if r.Intn(3) == 0 {
			src = g.pool.Descs[r.Intn(np)].Hops[0].IA
		}
		u := usageChoices[r.Intn(len(usageChoices))]
		if r.Intn(8) == 0 {
			u = []int{}
		}
		return step{"op": "bcand", "n": r.Intn(np + 2), "usage": u, "src": src}
	case 5:
		return step{"op": "bget", "all": 1}
	}
	f := step{}
	if r.Intn(3) == 0 {
		ids := [][]int{}
		for k := 0; k <= r.Intn(2); k++ {
			ids = append(ids, []int{1 + r.Intn(np), []int{0, 2, 2, 4, 6, 64}[r.Intn(6)]})
		}
		f["ids"] = ids
	}
	if r.Intn(3) == 0 {
		vals := append(g.ias(true), 0, 1, 2) // 0 = skipped entry, 1/2 = ISD wildcard with AS 1/2
		f["starts"] = g.pickSome(vals, 30)
	}
	if r.Intn(3) == 0 {
		f["inIfs"] = g.pickSome([]int{1, 2, 3, 0}, 30)
	}
	if r.Intn(2) == 0 {
		us := [][]int{}
		for k := 0; k <= r.Intn(2); k++ {
			if r.Intn(6) == 0 {
				us = append(us, []int{})
			} else {
				us = append(us, usageChoices[r.Intn(len(usageChoices))])
			}
		}
		f["usages"] = us
	}
	if r.Intn(2) == 0 {
		f["hasValid"] = 1
		f["valid"] = g.timePoint()
	}
	return step{"op": "bget", "f": f}
}

// a time around one of the pool's timestamps / expiries (boundaries included)
func (g *gen) timePoint() int {
	d := g.pool.Descs[g.rng.Intn(len(g.pool.Descs))]
	t := d.Exp
	if g.rng.Intn(3) == 0 {
		t = d.TS
	}
	t += []int{-1, 0, 0, 1, -segpool.Unit, segpool.Unit}[g.rng.Intn(6)]
	if t < 0 {
		t = 0
	}
	return t
}

func (g *gen) mutator(kind string) step {
	r := g.rng
	np := len(g.pool.Descs)
	k := r.Intn(100)
	if kind == "p" {
		switch {
		case k < 62:
			s := step{"op": "pins", "p": 1 + r.Intn(np), "type": 1 + r.Intn(3)}
			if r.Intn(5) == 0 {
				s["plain"] = 1
				s["groups"] = []int{0}
			} else {
				s["groups"] = g.pickSome([]int{0, 1, 2, 3}, 30)
				if r.Intn(12) == 0 {
					s["groups"] = []int{}
				}
			}
			return s
		case k < 72:
			return step{"op": "pdel", "of": 1 + r.Intn(np), "len": []int{64, 64, 1, 2, 3, 0, 8}[r.Intn(7)]}
		case k < 84:
			return step{"op": "pexp", "now": g.timePoint()}
		default:
			pr := nqPairs[r.Intn(len(nqPairs))]
			return step{"op": "nqins", "src": pr[0], "dst": pr[1], "t": 1 + r.Intn(6)}
		}
	}
	switch {
	case k < 70:
		u := usageChoices[r.Intn(len(usageChoices))]
		if r.Intn(15) == 0 {
			u = []int{}
		}
		return step{"op": "bins", "p": 1 + r.Intn(np), "inIf": 1 + r.Intn(3), "usage": u}
	case k < 82:
		return step{"op": "bdel", "of": 1 + r.Intn(np), "len": []int{64, 64, 1, 2, 3, 0, 8}[r.Intn(7)]}
	default:
		return step{"op": "bexp", "now": g.timePoint()}
	}
}

func (g *gen) query(kind string) step {
	if kind == "p" {
		if g.rng.Intn(8) == 0 {
			pr := nqPairs[g.rng.Intn(len(nqPairs))]
			return step{"op": "nqget", "src": pr[0], "dst": pr[1]}
		}
		return g.pquery()
	}
	return g.bquery()
}

func fullObs(kind string) []step {
	if kind == "p" {
		return []step{{"op": "pget", "all": 1}}
	}
	return []step{{"op": "bget", "all": 1}}
}

// ---------------------------------------------------------------------------------------------
// built-in pools for the random histories (richer than the model's)

func bigPool(kind string) []segpool.Desc {
	U := segpool.Unit
	var structs [][]segpool.Hop
	next := 0
	if kind == "p" {
		structs = pathStructs
	} else {
		structs = beaconStructs
		next = 13
	}
	out := []segpool.Desc{}
	for si, hops := range structs {
		vers := [][3]int{{0, 3, 2}, {U, 5, 1}, {U, 5, 2}, {2 * U, 4, 1}, {0, 7, 3}} // ts, sv, ttl
		for vi, v := range vers {
			if (si+vi)%5 == 4 {
				continue
			}
			d := segpool.Desc{TS: v[0], SV: v[1], TTL: v[2], Hops: hops, Next: next, Peers: [][2]int{}}
			if kind == "b" {
				// beacons: the info timestamp is the version; make sv follow it for readability
				d.SV = v[0]/U + vi
			}
			if vi == 2 || vi == 4 {
				d.Peers = [][2]int{{1 + vi%len(hops), 40 + vi}}
			}
			out = append(out, d)
		}
	}
	return out
}

// Hop structures. The interface numbers marked (*) were found with -find so that the real segment ids
// of the first two structures share their first two hex digits and the third shares the first digit
// with them (prefix deletions / prefix queries then hit several ids).
var pathStructs = [][]segpool.Hop{
	{{IA: 11, In: 0, Eg: 1}, {IA: 12, In: 2, Eg: 0}},
	{{IA: 11, In: 0, Eg: 1}, {IA: 12, In: 2, Eg: 6}, {IA: 13, In: 41, Eg: 0}}, // (*)
	{{IA: 21, In: 0, Eg: 3}, {IA: 13, In: 13, Eg: 0}}, // (*)
	{{IA: 11, In: 0, Eg: 5}, {IA: 13, In: 6, Eg: 0}},
	{{IA: 22, In: 0, Eg: 3}, {IA: 21, In: 4, Eg: 5}, {IA: 12, In: 6, Eg: 0}},
}

var beaconStructs = [][]segpool.Hop{
	{{IA: 11, In: 0, Eg: 1}, {IA: 12, In: 2, Eg: 3}},
	{{IA: 11, In: 0, Eg: 1}, {IA: 12, In: 2, Eg: 3}, {IA: 14, In: 111, Eg: 7}}, // (*)
	{{IA: 21, In: 0, Eg: 3}, {IA: 12, In: 17, Eg: 4}}, // (*)
	{{IA: 12, In: 0, Eg: 9}},
	{{IA: 21, In: 0, Eg: 2}, {IA: 22, In: 3, Eg: 4}, {IA: 14, In: 5, Eg: 6}, {IA: 12, In: 8, Eg: 9}},
}

// find searches interface numbers giving the wanted id-prefix relations (development aid).
func find() {
	for _, kind := range []string{"p", "b"} {
		structs := pathStructs
		next := 0
		if kind == "b" {
			structs, next = beaconStructs, 13
		}
		id := func(h []segpool.Hop) []int {
			d := segpool.Desc{TTL: 1, Hops: h, Next: next}
			segpool.Build(&d)
			return d.ID
		}
		base := id(structs[0])
		fmt.Println(kind, "struct0", base[:6])
		s1 := append([]segpool.Hop{}, structs[1]...)
		s2 := append([]segpool.Hop{}, structs[2]...)
		done1, done2 := false, false
		for x := 3; x < 250 && !(done1 && done2); x++ {
			for y := 3; y < 250; y++ {
				if !done1 {
					s1[1].Eg, s1[2].In = x, y
					if i := id(s1); i[0] == base[0] && i[1] == base[1] && i[2] != base[2] {
						fmt.Println(kind, "struct1: hop2.eg", x, "hop3.in", y, i[:6])
						done1 = true
					}
				}
				if !done2 && y < 40 {
					s2[0].Eg, s2[1].In = x, y
					if i := id(s2); i[0] == base[0] && i[1] != base[1] {
						fmt.Println(kind, "struct2: hop1.eg", x, "hop2.in", y, i[:6])
						done2 = true
					}
				}
			}
		}
	}
}

// ---------------------------------------------------------------------------------------------
// concurrent callers: 2-3 goroutines issue calls on one file-based database; every completed call is
// logged with invocation / response stamps from a global atomic counter

func concurrent(w *vt.Writer, kind string, n int, seed int64) int {
	ctx := context.Background()
	_ = ctx
	pool := segpool.NewPool(bigPool(kind)[:10])
	rng := vt.Rand(seed)
	for h := 0; h < n; h++ {
		dbSeq++
		file := fmt.Sprintf("conc_%d_%d.sqlite", os.Getpid(), dbSeq)
		base := &runner{w: w, kind: kind, pool: pool}
		var err error
		if kind == "p" {
			base.pdb, err = pathsqlite.New(file, nil)
		} else {
			base.bdb, err = beaconsqlite.New(file, segpool.IA(13), nil)
		}
		if err != nil {
			vt.Fatal("open file db: %v", err)
		}
		var clock int64
		var mu sync.Mutex
		calls := []vt.M{}
		ng := 2 + rng.Intn(2)
		if h%3 != 0 {
			ng = 3 + rng.Intn(2)
		}
		plans := make([][]step, ng)
		// two of three histories are contended: all callers insert versions of ONE segment id (equal,
		// older and newer ones) and look at the result - the read-check-write of an insert is the
		// critical section of both databases
		contended := h%3 != 0
		g0 := &gen{rng: rng, pool: pool}
		sameID := []int{}
		if contended {
			id := fmt.Sprint(pool.Descs[rng.Intn(len(pool.Descs))].ID)
			for i, d := range pool.Descs {
				if fmt.Sprint(d.ID) == id {
					sameID = append(sameID, i+1)
				}
			}
		}
		for c := range plans {
			for k := 0; k < 2+rng.Intn(3); k++ {
				var st step
				g := &gen{rng: rng, pool: pool}
				if contended {
					st = g.mutator(kind)
					for st["op"] != kind+"ins" {
						st = g.mutator(kind)
					}
					st["p"] = sameID[rng.Intn(len(sameID))]
					if k > 0 && rng.Intn(4) == 0 {
						st = fullObs(kind)[0]
					}
					plans[c] = append(plans[c], st)
					continue
				}
				switch rng.Intn(4) {
				case 0:
					st = fullObs(kind)[0]
				case 1:
					st = step{"op": kind + "del", "of": 1 + rng.Intn(len(pool.Descs)), "len": 64}
					if rng.Intn(3) == 0 {
						st = step{"op": kind + "exp", "now": g.timePoint()}
					}
				default:
					st = g.mutator(kind)
					for st["op"] == "nqins" {
						st = g.mutator(kind)
					}
				}
				plans[c] = append(plans[c], st)
			}
		}
		if contended {
			// preamble (sequential): the oldest version is stored before the callers start
			r := &runner{w: w, kind: kind, pool: pool, pdb: base.pdb, bdb: base.bdb}
			inv := atomic.AddInt64(&clock, 1)
			r.emit = func(ev vt.M) {
				ev["c"], ev["ti"], ev["tr"] = 8, int(inv), int(atomic.AddInt64(&clock, 1))
				calls = append(calls, ev)
			}
			st := g0.mutator(kind)
			for st["op"] != kind+"ins" {
				st = g0.mutator(kind)
			}
			st["p"] = sameID[0]
			r.exec(st)
		}
		var wg sync.WaitGroup
		start := make(chan struct{})
		for c := range plans {
			wg.Add(1)
			go func(c int) {
				defer wg.Done()
				r := &runner{w: w, kind: kind, pool: pool, pdb: base.pdb, bdb: base.bdb}
				<-start
				for _, st := range plans[c] {
					var inv int64
					r.emit = func(ev vt.M) {
						ret := atomic.AddInt64(&clock, 1)
						ev["c"], ev["ti"], ev["tr"] = c, int(inv), int(ret)
						mu.Lock()
						calls = append(calls, ev)
						mu.Unlock()
					}
					inv = atomic.AddInt64(&clock, 1)
					r.exec(st)
				}
			}(c)
		}
		close(start)
		wg.Wait()
		{
			// final state, after all callers are done
			r := &runner{w: w, kind: kind, pool: pool, pdb: base.pdb, bdb: base.bdb}
			inv := atomic.AddInt64(&clock, 1)
			r.emit = func(ev vt.M) {
				ev["c"], ev["ti"], ev["tr"] = 9, int(inv), int(atomic.AddInt64(&clock, 1))
				calls = append(calls, ev)
			}
			r.exec(fullObs(kind)[0])
		}
		base.reallyClose()
		for _, suf := range []string{"", "-wal", "-shm", "-journal"} {
			os.Remove(file + suf)
		}
		sort.Slice(calls, func(i, j int) bool { return calls[i]["ti"].(int) < calls[j]["ti"].(int) })
		js := pool.JSON()
		for i := range js {
			js[i]["id"] = cut(pool.Descs[i].ID)
		}
		w.Emit(vt.M{"ev": "reset", "kind": kind, "id": h, "src": "conc", "n": len(calls), "pool": js})
		for _, c := range calls {
			// every call record carries the same fields (TLC needs uniform records per event kind only)
			w.Emit(c)
		}
	}
	return n
}

func main() {
	out := flag.String("out", "trace.ndjson", "output trace")
	scn := flag.String("scn", "", "scenario file (TLC-generated histories)")
	nrand := flag.Int("n", 100, "number of seeded random histories per DB kind")
	maxLen := flag.Int("len", 40, "maximum number of mutating operations of a random history")
	nq := flag.Int("q", 3, "seeded queries appended to every TLC-generated history")
	onlyKind := flag.String("kind", "", "restrict the random histories to one DB kind (p or b)")
	obsAll := flag.Bool("obsall", false, "full query after every step of a TLC-generated history")
	nconc := flag.Int("conc", 0, "concurrent mode: number of concurrent histories per DB kind (nothing else is run)")
	doFind := flag.Bool("find", false, "search interface numbers for id-prefix relations and exit")
	flag.Parse()
	if *doFind {
		find()
		return
	}
	w := vt.NewWriter(*out)
	ntr := 0
	if *nconc > 0 {
		for ki, kind := range []string{"p", "b"} {
			ntr += concurrent(w, kind, *nconc, int64(2750+ki))
		}
		w.Close()
		fmt.Printf("concurrent histories=%d events=%d\n", ntr, w.N)
		return
	}

	// 1. TLC-generated histories
	if *scn != "" {
		f, err := os.Open(*scn)
		if err != nil {
			vt.Fatal("open %s: %v", *scn, err)
		}
		sc := bufio.NewScanner(f)
		sc.Buffer(make([]byte, 1<<20), 1<<26)
		var r *runner
		var g *gen
		for sc.Scan() {
			var rec struct {
				Kind  string         `json:"kind"`
				Pool  []segpool.Desc `json:"pool"`
				Steps []step         `json:"steps"`
			}
			if err := json.Unmarshal(sc.Bytes(), &rec); err != nil {
				vt.Fatal("scenario: %v", err)
			}
			if rec.Pool != nil {
				for i := range rec.Pool {
					d := &rec.Pool[i]
					if d.TTL == 0 {
						if (d.Exp-d.TS)%segpool.Unit != 0 || d.Exp <= d.TS {
							vt.Fatal("scenario pool: exp-ts must be a positive multiple of %d", segpool.Unit)
						}
						d.TTL = (d.Exp - d.TS) / segpool.Unit
					}
					if d.Peers == nil {
						d.Peers = [][2]int{}
					}
				}
				r = &runner{w: w, kind: rec.Kind, pool: segpool.NewPool(rec.Pool)}
				g = &gen{rng: vt.Rand(2701), pool: r.pool}
				continue
			}
			if r == nil {
				vt.Fatal("scenario without pool header")
			}
			ntr++
			r.open(ntr, "tlc")
			for i, s := range rec.Steps {
				r.exec(s)
				if *obsAll && i+1 < len(rec.Steps) {
					for _, o := range fullObs(r.kind) {
						r.exec(o)
					}
				}
			}
			for _, o := range fullObs(r.kind) {
				r.exec(o)
			}
			for k := 0; k < *nq; k++ {
				r.exec(g.query(r.kind))
			}
			// histories with next-query inserts: read every key back
			hasNQ := false
			for _, s := range rec.Steps {
				hasNQ = hasNQ || s["op"] == "nqins"
			}
			if hasNQ {
				for _, pr := range nqPairs {
					r.exec(step{"op": "nqget", "src": pr[0], "dst": pr[1]})
				}
			}
			r.endTx()
			for _, o := range fullObs(r.kind) {
				r.exec(o)
			}
			r.close()
		}
		f.Close()
	}

	// 1b. directed history: two segments with different ids whose "full ids" (hash over hops and
	// peer entries, concatenated without separators) coincide
	if *onlyKind == "" || *onlyKind == "p" {
		h := func(ia, in, eg int) segpool.Hop { return segpool.Hop{IA: ia, In: in, Eg: eg} }
		pool := segpool.NewPool([]segpool.Desc{
			{TS: 0, SV: 3, TTL: 2, Hops: []segpool.Hop{h(11, 0, 1), h(13, 2, 0)}, Peers: [][2]int{{1, 5}}, PeerIA: 12},
			{TS: 0, SV: 3, TTL: 2, Hops: []segpool.Hop{h(11, 0, 1), h(12, 5, 1), h(13, 2, 0)}, Peers: [][2]int{}},
		})
		r := &runner{w: w, kind: "p", pool: pool}
		ntr++
		r.open(ntr, "directed")
		for _, s := range []step{
			{"op": "pins", "p": 1, "type": 2, "groups": []int{0}},
			{"op": "pins", "p": 2, "type": 2, "groups": []int{0}},
			{"op": "pget", "all": 1},
		} {
			r.exec(s)
		}
		r.reallyClose()
	}
	if *onlyKind == "" || *onlyKind == "b" {
		h := func(ia, in, eg int) segpool.Hop { return segpool.Hop{IA: ia, In: in, Eg: eg} }
		pool := segpool.NewPool([]segpool.Desc{
			{TS: 0, SV: 3, TTL: 2, Hops: []segpool.Hop{h(11, 0, 1), h(12, 2, 3)}, Peers: [][2]int{{1, 5}}, PeerIA: 14, Next: 13},
			{TS: 0, SV: 3, TTL: 2, Hops: []segpool.Hop{h(11, 0, 1), h(14, 5, 1), h(12, 2, 3)}, Peers: [][2]int{}, Next: 13},
		})
		r := &runner{w: w, kind: "b", pool: pool}
		ntr++
		r.open(ntr, "directed")
		for _, s := range []step{
			{"op": "bins", "p": 1, "inIf": 1, "usage": []int{1, 8}},
			{"op": "bins", "p": 2, "inIf": 2, "usage": []int{2}},
			{"op": "bget", "all": 1},
		} {
			r.exec(s)
		}
		r.reallyClose()
	}

	// 2. seeded random histories on the built-in pools
	for ki, kind := range []string{"p", "b"} {
		if *nrand == 0 {
			break
		}
		if *onlyKind != "" && *onlyKind != kind {
			continue
		}
		pool := segpool.NewPool(bigPool(kind))
		seen := map[string]bool{}
		for _, d := range pool.Descs {
			seen[fmt.Sprint(cut(d.ID))] = true
		}
		r := &runner{w: w, kind: kind, pool: pool}
		g := &gen{rng: vt.Rand(int64(2710 + ki)), pool: pool}
		for i := 0; i < *nrand; i++ {
			ntr++
			r.open(ntr, "rand")
			n := 3 + g.rng.Intn(*maxLen-2)
			for k := 0; k < n; k++ {
				if kind == "p" && g.rng.Intn(8) == 0 {
					switch {
					case r.tx == nil:
						r.exec(step{"op": "txb"})
					case g.rng.Intn(2) == 0:
						r.exec(step{"op": "txr"})
						r.exec(step{"op": "pget", "all": 1})
					default:
						r.exec(step{"op": "txc"})
					}
				}
				r.exec(g.mutator(kind))
				switch g.rng.Intn(3) {
				case 0:
					for _, o := range fullObs(kind) {
						r.exec(o)
					}
				case 1:
					r.exec(g.query(kind))
				}
			}
			for _, o := range fullObs(kind) {
				r.exec(o)
			}
			for k := 0; k < 4; k++ {
				r.exec(g.query(kind))
			}
			if r.tx != nil {
				if g.rng.Intn(2) == 0 {
					r.exec(step{"op": "txr"})
				} else {
					r.exec(step{"op": "txc"})
				}
				for _, o := range fullObs(kind) {
					r.exec(o)
				}
			}
			r.close()
		}
	}
	w.Close()
	fmt.Printf("traces=%d events=%d\n", ntr, w.N)
}
