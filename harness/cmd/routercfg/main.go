// Driver for C17 and C11: builds routers through the production constructor router.NewConnector
// and the production configuration path (control.LoadConfig + control.ConfigDataplane from a
// generated topology.json), or through the Connector's exported configuration methods in a given
// order, with a recording udpip.ConnOpener, and logs
//
//	-mode buf   : every Open (local, remote, conn.Config) and every provider-factory call   (C17)
//	-mode port  : the underlay destination of locally delivered packets                      (C11)
//
// It never judges: RouterConfigTrace.tla / LocalDeliveryTrace.tla do.
package main

import (
	"bufio"
	"context"
	"encoding/base64"
	"flag"
	"fmt"
	"math/rand"
	"net"
	"net/netip"
	"os"
	"path/filepath"
	"strconv"
	"strings"
	"syscall"
	"time"

	"github.com/gopacket/gopacket"

	"github.com/scionproto/scion/pkg/addr"
	"github.com/scionproto/scion/pkg/private/util"
	"github.com/scionproto/scion/pkg/scrypto"
	"github.com/scionproto/scion/pkg/slayers"
	"github.com/scionproto/scion/pkg/slayers/path"
	"github.com/scionproto/scion/pkg/slayers/path/scion"
	"github.com/scionproto/scion/private/env"
	"github.com/scionproto/scion/private/topology"
	"github.com/scionproto/scion/private/underlay/conn"
	"github.com/scionproto/scion/router"
	"github.com/scionproto/scion/router/bfd"
	"github.com/scionproto/scion/router/config"
	"github.com/scionproto/scion/router/control"
	"github.com/scionproto/scion/router/underlayproviders/udpip"

	"verifharness/internal/vt"
)

// ------------------------------------------------------------------ recording conn opener

type openRec struct {
	local, remote netip.AddrPort
	rcv, snd      int
}

type recOpener struct {
	reuse bool
	opens []openRec
}

type fakeConn struct{ closed chan struct{} }

func (c *fakeConn) ReadBatch(conn.Messages) (int, error) { <-c.closed; return 0, net.ErrClosed }
func (c *fakeConn) WriteBatch(m conn.Messages, _ int) (int, error) {
	return len(m), nil
}
func (c *fakeConn) Close() error { return nil }

func (o *recOpener) Open(l, r netip.AddrPort, c *conn.Config) (router.BatchConn, error) {
	rec := openRec{local: l, remote: r, rcv: -1, snd: -1}
	if c != nil {
		rec.rcv, rec.snd = c.ReceiveBufferSize, c.SendBufferSize
	}
	o.opens = append(o.opens, rec)
	return &fakeConn{closed: make(chan struct{})}, nil
}
func (o *recOpener) UDPCanReuseLocal() bool { return o.reuse }

var _ udpip.ConnOpener = (*recOpener)(nil)

// ------------------------------------------------------------------ recording provider ("verifrec")
// A second underlay provider registered through the exported router.AddUnderlay: its factory is
// what dataPlane.AddExternalInterface / AddNextHop call when a link names a provider that has not
// been instantiated yet. It records the factory arguments; its links do nothing.

type factoryRec struct{ batch, rcv, snd int }

var factoryCalls []factoryRec

type recProvider struct{ n int }
type recLink struct{ scope router.LinkScope }

func (l recLink) IsUp() bool                                      { return true }
func (l recLink) IfID() uint16                                    { return 0 }
func (l recLink) Metrics() *router.InterfaceMetrics               { return nil }
func (l recLink) Scope() router.LinkScope                         { return l.scope }
func (l recLink) BFDSession() *bfd.Session                        { return nil }
func (l recLink) Resolve(*router.Packet, addr.Host, uint16) error { return nil }
func (l recLink) Send(*router.Packet) bool                        { return false }
func (l recLink) SendBlocking(*router.Packet)                     {}

func (p *recProvider) SetConnOpener(any)                                               {}
func (p *recProvider) NumConnections() int                                             { return p.n }
func (p *recProvider) Headroom() int                                                   { return 0 }
func (p *recProvider) SetDispatchPorts(uint16, uint16, uint16)                         {}
func (p *recProvider) AddSvc(addr.SVC, addr.Host, uint16) error                        { return nil }
func (p *recProvider) DelSvc(addr.SVC, addr.Host, uint16) error                        { return nil }
func (p *recProvider) Start(context.Context, router.PacketPool, []chan *router.Packet) {}
func (p *recProvider) Stop()                                                           {}
func (p *recProvider) NewExternalLink(int, *bfd.Session, string, string, uint16, *router.InterfaceMetrics) (router.Link, error) {
	p.n++
	return recLink{scope: router.External}, nil
}
func (p *recProvider) NewSiblingLink(int, *bfd.Session, string, string, *router.InterfaceMetrics) (router.Link, error) {
	p.n++
	return recLink{scope: router.Sibling}, nil
}
func (p *recProvider) NewInternalLink(string, int, *router.InterfaceMetrics) (router.Link, error) {
	p.n++
	return recLink{scope: router.Internal}, nil
}

func init() {
	router.AddUnderlay("verifrec", func(batch, rcv, snd int) router.UnderlayProvider {
		factoryCalls = append(factoryCalls, factoryRec{batch, rcv, snd})
		return &recProvider{}
	})
}

// ------------------------------------------------------------------ the router under configuration

const localIA = "1-ff00:0:110"

// underlay addresses of the router under configuration (variables: the socket mode uses loopback)
var (
	intAddr   = "10.0.0.1:30042"
	sibAddr   = "10.0.0.2:30042"
	ext1Local = "192.168.1.1:50000"
	ext1Rem   = "192.168.1.2:50000"
	ext2Local = "192.168.2.1:50000"
	ext2Rem   = "192.168.2.2:50000"
)

const (
	csAddr  = "10.0.0.9:30252"
	cs2Addr = "10.0.0.10:31000"
	cs3Addr = "10.0.0.9:31001"  // same host as cs-1, other port
	cs4Addr = "10.0.0.12:30252" // other host, same port as cs-1
	dsAddr  = "10.0.0.11:30254"
)

var masterKey = []byte("verif-master-key-0123456789abcdef")

type caseCfg struct {
	rcv, snd, batch int
	reuse           bool
	rangeKind       string // "empty" | "all" | "range"
	lo, hi          int    // topology range for kind "range"
	ovLo, ovHi      int    // router-config override, -1 = none
	otherProv       string // "" | "ext" | "hop" | "both": which links name the provider "verifrec"
}

func (c caseCfg) rangeString() string {
	switch c.rangeKind {
	case "empty":
		return "-"
	case "all":
		return "all"
	}
	return fmt.Sprintf("%d-%d", c.lo, c.hi)
}

func (c caseCfg) topoRange() (uint16, uint16) {
	switch c.rangeKind {
	case "empty":
		return 0, 0
	case "all":
		return 1, 65535
	}
	return uint16(c.lo), uint16(c.hi)
}

func (c caseCfg) routerConfig() config.RouterConfig {
	rc := config.RouterConfig{ReceiveBufferSize: c.rcv, SendBufferSize: c.snd, NumProcessors: 1,
		NumSlowPathProcessors: 1, BatchSize: c.batch, BFD: config.BFD{Disable: true}}
	if c.ovLo >= 0 {
		v := c.ovLo
		rc.DispatchedPortStart = &v
	}
	if c.ovHi >= 0 {
		v := c.ovHi
		rc.DispatchedPortEnd = &v
	}
	return rc
}

func (c caseCfg) topologyJSON() string {
	prov := func(which string) string {
		if c.otherProv == which || c.otherProv == "both" {
			return `"provider": "verifrec", `
		}
		return ""
	}
	return fmt.Sprintf(`{
  "timestamp": 168570123, "timestamp_human": "x", "isd_as": %q, "mtu": 1472,
  "dispatched_ports": %q,
  "attributes": [],
  "border_routers": {
    "br-1": {"internal_addr": %q, "interfaces": {
      "1": {"underlay": {%s"local": %q, "remote": %q}, "isd_as": "1-ff00:0:1", "link_to": "PARENT", "mtu": 1472},
      "2": {"underlay": {"local": %q, "remote": %q}, "isd_as": "1-ff00:0:111", "link_to": "CHILD", "mtu": 1472}}},
    "br-2": {"internal_addr": %q, "interfaces": {
      "3": {"underlay": {%s"local": "192.168.3.1:50000", "remote": "192.168.3.2:50000"}, "isd_as": "1-ff00:0:112", "link_to": "CHILD", "mtu": 1472}}}
  },
  "control_service": {"cs-1": {"addr": %q}, "cs-2": {"addr": %q}, "cs-3": {"addr": %q}, "cs-4": {"addr": %q}},
  "discovery_service": {"ds-1": {"addr": %q}}
}`, localIA, c.rangeString(), intAddr, prov("ext"), ext1Local, ext1Rem, ext2Local, ext2Rem, sibAddr, prov("hop"),
		csAddr, cs2Addr, cs3Addr, cs4Addr, dsAddr)
}

// production builds the router exactly as cmd/router does: LoadConfig from a directory,
// NewConnector, IACtx.Configure (= ConfigDataplane).
func production(c caseCfg, dir string, op *recOpener) (*router.Connector, error) {
	if err := os.MkdirAll(filepath.Join(dir, "keys"), 0o755); err != nil {
		return nil, err
	}
	if err := os.WriteFile(filepath.Join(dir, "topology.json"), []byte(c.topologyJSON()), 0o644); err != nil {
		return nil, err
	}
	k := []byte(base64.StdEncoding.EncodeToString(masterKey))
	for _, n := range []string{"master0.key", "master1.key"} {
		if err := os.WriteFile(filepath.Join(dir, "keys", n), k, 0o600); err != nil {
			return nil, err
		}
	}
	cfg, err := control.LoadConfig("br-1", dir)
	if err != nil {
		return nil, fmt.Errorf("LoadConfig: %w", err)
	}
	dp := router.NewConnector(c.routerConfig(), env.Features{})
	if op != nil { // nil: the provider's own opener (conn.New, real sockets)
		router.VerifCfgUnderlay(dp, "udpip").SetConnOpener(op)
	}
	iaCtx := &control.IACtx{Config: cfg, DP: dp}
	if err := iaCtx.Configure(); err != nil {
		return nil, fmt.Errorf("Configure: %w", err)
	}
	return dp, nil
}

// hopBeforeInternal reports whether the order adds the sibling link before the internal interface.
// Without SO_REUSEPORT-like socket sharing (ConnOpener.UDPCanReuseLocal() == false) the udpip
// provider requires the internal link first (it panics otherwise: an API precondition, outside
// the properties), so such orders are only run with a reusing opener.
func hopBeforeInternal(order []string) bool {
	for _, s := range order {
		if s == "internal" {
			return false
		}
		if s == "hop" {
			return true
		}
	}
	return false
}

// direct applies the same configuration calls ConfigDataplane makes, in the given order.
func direct(c caseCfg, order []string, op *recOpener) (dpc *router.Connector, err error) {
	defer func() {
		if r := recover(); r != nil {
			dpc, err = nil, fmt.Errorf("panic: %v", r)
		}
	}()
	return directSteps(c, order, op)
}

func directSteps(c caseCfg, order []string, op *recOpener) (*router.Connector, error) {
	ia := addr.MustParseIA(localIA)
	dp := router.NewConnector(c.routerConfig(), env.Features{})
	router.VerifCfgUnderlay(dp, "udpip").SetConnOpener(op)
	ih := addr.HostIP(netip.MustParseAddrPort(intAddr).Addr())
	off := true
	link := func(prov, local, remote, nb string, lt topology.LinkType) control.LinkInfo {
		return control.LinkInfo{Provider: prov, Local: control.LinkEnd{IA: ia, Addr: local},
			Remote: control.LinkEnd{IA: addr.MustParseIA(nb), Addr: remote}, LinkTo: lt, BFD: control.BFD{Disable: &off}, MTU: 1472}
	}
	pv := func(which string) string {
		if c.otherProv == which || c.otherProv == "both" {
			return "verifrec"
		}
		return "udpip"
	}
	for _, st := range order {
		var err error
		switch st {
		case "ia":
			err = dp.CreateIACtx(ia)
		case "key":
			err = dp.SetKey(ia, 0, control.DeriveHFMacKey(masterKey))
		case "internal":
			err = dp.AddInternalInterface(ia, ih, "udpip", intAddr)
		case "ext":
			err = dp.AddExternalInterface(1, link(pv("ext"), ext1Local, ext1Rem, "1-ff00:0:1", topology.Parent),
				addr.HostIP(netip.MustParseAddrPort(ext1Local).Addr()), addr.HostIP(netip.MustParseAddrPort(ext1Rem).Addr()), true)
			if err == nil {
				err = dp.AddExternalInterface(2, link("udpip", ext2Local, ext2Rem, "1-ff00:0:111", topology.Child),
					addr.HostIP(netip.MustParseAddrPort(ext2Local).Addr()), addr.HostIP(netip.MustParseAddrPort(ext2Rem).Addr()), true)
			}
		case "hop":
			err = dp.AddExternalInterface(3, link(pv("hop"), intAddr, sibAddr, "1-ff00:0:112", topology.Child),
				ih, addr.HostIP(netip.MustParseAddrPort(sibAddr).Addr()), false)
		case "svc":
			for _, s := range []struct {
				svc addr.SVC
				a   string
			}{{addr.SvcCS, csAddr}, {addr.SvcCS, cs2Addr}, {addr.SvcCS, cs3Addr}, {addr.SvcCS, cs4Addr}, {addr.SvcDS, dsAddr}} {
				ap := netip.MustParseAddrPort(s.a)
				if e := dp.AddSvc(ia, s.svc, addr.HostIP(ap.Addr()), ap.Port()); e != nil {
					err = e
				}
			}
		case "range":
			lo, hi := c.topoRange()
			dp.SetPortRange(lo, hi)
		default:
			vt.Fatal("unknown step %q", st)
		}
		if err != nil {
			return nil, fmt.Errorf("step %s: %w", st, err)
		}
	}
	return dp, nil
}

func kindOf(o openRec) string {
	switch {
	case !o.remote.IsValid():
		return "internal"
	case o.remote.String() == sibAddr:
		return "sibling"
	}
	return "external"
}

// ------------------------------------------------------------------ C17

func runBuf(w *vt.Writer, rng *rand.Rand, orders [][]string, n int) {
	sizes := [][2]int{{111, 222}, {222, 111}, {0, 65536}, {4096, 0}, {1, 2}, {7, 7}, {0, 0}, {1 << 20, 1 << 21}, {2147483647, 1}}
	id := 0
	emit := func(c caseCfg, how string, order []string, op *recOpener, err error) {
		w.Emit(vt.M{"ev": "reset", "id": id, "how": how, "order": strings.Join(order, ","), "rcv": c.rcv, "snd": c.snd,
			"batch": c.batch, "reuse": c.reuse, "other": c.otherProv, "ok": err == nil, "rmax": 0, "wmax": 0, "rdef": 0, "wdef": 0})
		id++
		for _, o := range op.opens {
			w.Emit(vt.M{"ev": "open", "kind": kindOf(o), "rcv": o.rcv, "snd": o.snd})
		}
		for _, f := range factoryCalls {
			w.Emit(vt.M{"ev": "factory", "batch": f.batch, "rcv": f.rcv, "snd": f.snd})
		}
		if err != nil {
			w.Emit(vt.M{"ev": "builderr", "err": err.Error()})
		}
	}
	for i := 0; i < n; i++ {
		sz := sizes[i%len(sizes)]
		if i >= len(sizes) && rng.Intn(2) == 0 {
			sz = [2]int{rng.Intn(1 << 24), rng.Intn(1 << 24)}
		}
		c := caseCfg{rcv: sz[0], snd: sz[1], batch: []int{8, 256, 64}[i%3], reuse: i%2 == 0, rangeKind: "range", lo: 1024, hi: 65535,
			ovLo: -1, ovHi: -1, otherProv: []string{"", "ext", "hop", "both"}[(i/2)%4]}
		// production path
		factoryCalls = nil
		op := &recOpener{reuse: c.reuse}
		_, err := production(c, fmt.Sprintf("buf-%d", i), op)
		emit(c, "production", nil, op, err)
		// the same calls in another order
		factoryCalls = nil
		order := orders[rng.Intn(len(orders))]
		if hopBeforeInternal(order) {
			c.reuse = true
		}
		op = &recOpener{reuse: c.reuse}
		_, err = direct(c, order, op)
		emit(c, "direct", order, op, err)
	}
}

// ------------------------------------------------------------------ C17, down to the kernel
// The router is built through the production path WITHOUT a test opener: the udpip provider calls
// conn.New, which opens real UDP sockets on loopback addresses and applies conn.Config with
// setsockopt. The driver then reads SO_RCVBUF / SO_SNDBUF back from every UDP socket of the
// process (found through /proc/self/fd, identified by local / peer address). No privileges needed.

type sockRec struct {
	local, peer string
	rcv, snd    int
}

func udpSockets() map[int]sockRec {
	out := map[int]sockRec{}
	ents, err := os.ReadDir("/proc/self/fd")
	if err != nil {
		vt.Fatal("reading /proc/self/fd: %v", err)
	}
	for _, e := range ents {
		fd, err := strconv.Atoi(e.Name())
		if err != nil {
			continue
		}
		typ, err := syscall.GetsockoptInt(fd, syscall.SOL_SOCKET, syscall.SO_TYPE)
		if err != nil || typ != syscall.SOCK_DGRAM {
			continue
		}
		sa, err := syscall.Getsockname(fd)
		if err != nil {
			continue
		}
		in4, ok := sa.(*syscall.SockaddrInet4)
		if !ok {
			continue
		}
		r := sockRec{local: netip.AddrPortFrom(netip.AddrFrom4(in4.Addr), uint16(in4.Port)).String(), peer: "-"}
		if pa, err := syscall.Getpeername(fd); err == nil {
			if p4, ok := pa.(*syscall.SockaddrInet4); ok {
				r.peer = netip.AddrPortFrom(netip.AddrFrom4(p4.Addr), uint16(p4.Port)).String()
			}
		}
		r.rcv, _ = syscall.GetsockoptInt(fd, syscall.SOL_SOCKET, syscall.SO_RCVBUF)
		r.snd, _ = syscall.GetsockoptInt(fd, syscall.SOL_SOCKET, syscall.SO_SNDBUF)
		out[fd] = r
	}
	return out
}

func sysctlInt(p string) int {
	b, err := os.ReadFile(p)
	if err != nil {
		return -1
	}
	v, _ := strconv.Atoi(strings.TrimSpace(string(b)))
	return v
}

func runSock(w *vt.Writer, rng *rand.Rand, n int) {
	rmax, wmax := sysctlInt("/proc/sys/net/core/rmem_max"), sysctlInt("/proc/sys/net/core/wmem_max")
	rdef, wdef := sysctlInt("/proc/sys/net/core/rmem_default"), sysctlInt("/proc/sys/net/core/wmem_default")
	// clearly distinct sizes: the kernel reports between the requested value and twice that value
	sizes := [][2]int{{300000, 700000}, {700000, 300000}, {65536, 262144}, {262144, 65536}, {0, 500000}, {500000, 0}}
	for i := 0; i < n; i++ {
		sz := sizes[i%len(sizes)]
		base := 20000 + rng.Intn(20000) + 16*i
		intAddr = fmt.Sprintf("127.0.0.1:%d", base)
		sibAddr = fmt.Sprintf("127.0.0.3:%d", base+1)
		ext1Local, ext1Rem = fmt.Sprintf("127.0.0.1:%d", base+2), fmt.Sprintf("127.0.0.2:%d", base+3)
		ext2Local, ext2Rem = fmt.Sprintf("127.0.0.1:%d", base+4), fmt.Sprintf("127.0.0.2:%d", base+5)
		c := caseCfg{rcv: sz[0], snd: sz[1], batch: 8, reuse: true, rangeKind: "range", lo: 1024, hi: 65535, ovLo: -1, ovHi: -1}
		before := udpSockets()
		_, err := production(c, fmt.Sprintf("sock-%d", i), nil)
		w.Emit(vt.M{"ev": "reset", "id": i, "how": "production-real-sockets", "order": "", "rcv": c.rcv, "snd": c.snd,
			"batch": c.batch, "reuse": true, "other": "", "ok": err == nil, "rmax": rmax, "wmax": wmax, "rdef": rdef, "wdef": wdef})
		if err != nil {
			w.Emit(vt.M{"ev": "builderr", "err": err.Error()})
			continue
		}
		for fd, r := range udpSockets() {
			if _, old := before[fd]; old {
				continue
			}
			kind := "unknown"
			switch {
			case r.local == intAddr && r.peer == "-":
				kind = "internal"
			case r.peer == sibAddr:
				kind = "sibling"
			case r.peer == ext1Rem || r.peer == ext2Rem:
				kind = "external"
			}
			w.Emit(vt.M{"ev": "sock", "kind": kind, "rcv": r.rcv, "snd": r.snd})
		}
	}
}

// ------------------------------------------------------------------ C11

type pkt struct {
	kind  string // udp tcp echo-reply tr-reply echo-request tr-request err-udp err-echo err-tr other-l4 err-cut err-tcp
	field int    // the port / identifier the packet carries
	dst   string // "ip" | "svc-cs" | "svc-ds" | "svc-cs-mcast" | "svc-wildcard"
	cut   int    // err-cut: number of bytes of the quoted packet that are kept
	ext   string // extension headers between the SCION header and L4: "" | "hbh" | "e2e" | "hbh+e2e"
}

// offset of the L4 header in the quoted packet: common header 12, address header 2*8+2*4, path
// 4 (meta) + 8 (one info field) + 3*12 (hop fields)
const quoteL4 = 12 + 24 + 4 + 8 + 36

// quoteCuts lists the truncation points: inside and at the end of every layer of the quoted
// packet, around the UDP source port and the UDP header.
func quoteCuts() []int {
	return []int{0, 1, 4, 12, 13, 36, 40, 48, quoteL4 - 1, quoteL4, quoteL4 + 1, quoteL4 + 2, quoteL4 + 3,
		quoteL4 + 4, quoteL4 + 7, quoteL4 + 8, quoteL4 + 9}
}

func hostAddr() netip.Addr { return netip.MustParseAddr("10.0.100.100") }

// build serialises a packet that arrives on interface 1 for the local AS (last hop of a 3-hop
// segment in construction direction, MAC of the last hop computed with the AS key).
func build(p pkt) []byte {
	now := time.Now()
	spkt := &slayers.SCION{Version: 0, TrafficClass: 0xb8, FlowID: 0xdead, NextHdr: slayers.L4UDP, PathType: scion.PathType,
		DstIA: addr.MustParseIA(localIA), SrcIA: addr.MustParseIA("2-ff00:0:222")}
	dp := &scion.Decoded{Base: scion.Base{PathMeta: scion.MetaHdr{CurrHF: 2, SegLen: [3]uint8{3, 0, 0}}, NumINF: 1, NumHops: 3},
		InfoFields: []path.InfoField{{SegID: 0x111, ConsDir: true, Timestamp: util.TimeToSecs(now)}},
		HopFields: []path.HopField{{ConsIngress: 41, ConsEgress: 40, ExpTime: 63}, {ConsIngress: 31, ConsEgress: 30, ExpTime: 63},
			{ConsIngress: 1, ConsEgress: 0, ExpTime: 63}}}
	mac, err := scrypto.InitMac(control.DeriveHFMacKey(masterKey))
	if err != nil {
		vt.Fatal("mac: %v", err)
	}
	dp.HopFields[2].Mac = path.MAC(mac, dp.InfoFields[0], dp.HopFields[2], nil)
	spkt.Path = dp
	switch p.dst {
	case "ip":
		_ = spkt.SetDstAddr(addr.HostIP(hostAddr()))
	case "svc-cs":
		_ = spkt.SetDstAddr(addr.HostSVC(addr.SvcCS))
	case "svc-ds":
		_ = spkt.SetDstAddr(addr.HostSVC(addr.SvcDS))
	case "svc-cs-mcast":
		_ = spkt.SetDstAddr(addr.HostSVC(addr.SvcCS.Multicast()))
	case "svc-wildcard": // no instance registered
		_ = spkt.SetDstAddr(addr.HostSVC(addr.SvcWildcard))
	}
	_ = spkt.SetSrcAddr(addr.HostIP(netip.MustParseAddr("172.16.4.4")))
	f := uint16(p.field)
	opts := gopacket.SerializeOptions{FixLengths: true, ComputeChecksums: true}
	ser := func(ls ...gopacket.SerializableLayer) []byte {
		if len(ls) > 0 && ls[0] == gopacket.SerializableLayer(spkt) && p.ext != "" {
			// hop-by-hop and / or end-to-end extension headers in front of the layer-4 header
			l4 := spkt.NextHdr
			var extra []gopacket.SerializableLayer
			if strings.Contains(p.ext, "e2e") {
				e := &slayers.EndToEndExtn{Options: []*slayers.EndToEndOption{{OptType: 0xfd, OptData: []byte{1, 2, 3, 4, 5, 6}}}}
				e.NextHdr = l4
				extra = append(extra, e)
				l4 = slayers.End2EndClass
			}
			if strings.Contains(p.ext, "hbh") {
				h := &slayers.HopByHopExtn{Options: []*slayers.HopByHopOption{{OptType: 0xfd, OptData: []byte{9, 8, 7, 6, 5, 4, 3, 2, 1, 0}}}}
				h.NextHdr = l4
				extra = append([]gopacket.SerializableLayer{h}, extra...)
				l4 = slayers.HopByHopClass
			}
			spkt.NextHdr = l4
			ls = append(append([]gopacket.SerializableLayer{spkt}, extra...), ls[1:]...)
		}
		b := gopacket.NewSerializeBuffer()
		if err := gopacket.SerializeLayers(b, opts, ls...); err != nil {
			vt.Fatal("serialize %v: %v", p, err)
		}
		return append([]byte{}, b.Bytes()...)
	}
	quoted := func(inner gopacket.SerializableLayer, more ...gopacket.SerializableLayer) []byte {
		// the offending packet: sent by our host towards the remote AS
		q := &slayers.SCION{Version: 0, FlowID: 1, PathType: scion.PathType, DstIA: addr.MustParseIA("2-ff00:0:222"),
			SrcIA: addr.MustParseIA(localIA), Path: dp}
		_ = q.SetDstAddr(addr.HostIP(netip.MustParseAddr("172.16.4.4")))
		_ = q.SetSrcAddr(addr.HostIP(hostAddr()))
		switch l := inner.(type) {
		case *slayers.UDP:
			q.NextHdr = slayers.L4UDP
			l.SetNetworkLayerForChecksum(q)
		case *slayers.SCMP:
			q.NextHdr = slayers.L4SCMP
			l.SetNetworkLayerForChecksum(q)
		}
		return ser(append([]gopacket.SerializableLayer{q, inner}, more...)...)
	}
	quotedRaw := func(l4 slayers.L4ProtocolType, raw []byte) []byte {
		q := &slayers.SCION{Version: 0, FlowID: 1, PathType: scion.PathType, DstIA: addr.MustParseIA("2-ff00:0:222"),
			SrcIA: addr.MustParseIA(localIA), Path: dp, NextHdr: l4}
		_ = q.SetDstAddr(addr.HostIP(netip.MustParseAddr("172.16.4.4")))
		_ = q.SetSrcAddr(addr.HostIP(hostAddr()))
		return ser(q, gopacket.Payload(raw))
	}
	scmp := func(t slayers.SCMPType, code slayers.SCMPCode) *slayers.SCMP {
		s := &slayers.SCMP{TypeCode: slayers.CreateSCMPTypeCode(t, code)}
		s.SetNetworkLayerForChecksum(spkt)
		return s
	}
	switch p.kind {
	case "udp":
		u := &slayers.UDP{SrcPort: 40111, DstPort: f}
		u.SetNetworkLayerForChecksum(spkt)
		return ser(spkt, u, gopacket.Payload([]byte("actualpayloadbytes")))
	case "tcp":
		spkt.NextHdr = slayers.L4TCP
		tcp := make([]byte, 24)
		tcp[0], tcp[1] = 0x9c, 0xaf
		tcp[2], tcp[3] = byte(f>>8), byte(f)
		tcp[12] = 0x50
		return ser(spkt, gopacket.Payload(tcp))
	case "other-l4":
		spkt.NextHdr = slayers.L4ProtocolType(253)
		raw := make([]byte, 24)
		raw[2], raw[3] = byte(f>>8), byte(f)
		return ser(spkt, gopacket.Payload(raw))
	case "echo-reply":
		spkt.NextHdr = slayers.L4SCMP
		return ser(spkt, scmp(slayers.SCMPTypeEchoReply, 0), &slayers.SCMPEcho{Identifier: f, SeqNumber: 7}, gopacket.Payload([]byte("ping")))
	case "echo-request":
		spkt.NextHdr = slayers.L4SCMP
		return ser(spkt, scmp(slayers.SCMPTypeEchoRequest, 0), &slayers.SCMPEcho{Identifier: f, SeqNumber: 7}, gopacket.Payload([]byte("ping")))
	case "tr-reply":
		spkt.NextHdr = slayers.L4SCMP
		return ser(spkt, scmp(slayers.SCMPTypeTracerouteReply, 0), &slayers.SCMPTraceroute{Identifier: f, Sequence: 3,
			IA: addr.MustParseIA("1-ff00:0:1"), Interface: 5})
	case "tr-request":
		spkt.NextHdr = slayers.L4SCMP
		return ser(spkt, scmp(slayers.SCMPTypeTracerouteRequest, 0), &slayers.SCMPTraceroute{Identifier: f, Sequence: 3})
	case "err-udp":
		spkt.NextHdr = slayers.L4SCMP
		q := quoted(&slayers.UDP{SrcPort: f, DstPort: 443}, gopacket.Payload([]byte("offending")))
		return ser(spkt, scmp(slayers.SCMPTypeDestinationUnreachable, slayers.SCMPCodeNoRoute),
			&slayers.SCMPDestinationUnreachable{}, gopacket.Payload(q))
	case "err-cut":
		spkt.NextHdr = slayers.L4SCMP
		q := quoted(&slayers.UDP{SrcPort: f, DstPort: 443}, gopacket.Payload([]byte("offending")))
		if p.cut < len(q) {
			q = q[:p.cut]
		}
		return ser(spkt, scmp(slayers.SCMPTypeDestinationUnreachable, slayers.SCMPCodeNoRoute),
			&slayers.SCMPDestinationUnreachable{}, gopacket.Payload(q))
	case "err-tcp":
		spkt.NextHdr = slayers.L4SCMP
		tcp := make([]byte, 24)
		tcp[0], tcp[1] = byte(f>>8), byte(f) // source port of the offending TCP segment
		tcp[2], tcp[3] = 0x01, 0xbb
		tcp[12] = 0x50
		q := quotedRaw(slayers.L4TCP, tcp)
		return ser(spkt, scmp(slayers.SCMPTypeDestinationUnreachable, slayers.SCMPCodeNoRoute),
			&slayers.SCMPDestinationUnreachable{}, gopacket.Payload(q))
	case "err-echo":
		spkt.NextHdr = slayers.L4SCMP
		q := quoted(&slayers.SCMP{TypeCode: slayers.CreateSCMPTypeCode(slayers.SCMPTypeEchoRequest, 0)},
			&slayers.SCMPEcho{Identifier: f, SeqNumber: 1}, gopacket.Payload([]byte("ping")))
		return ser(spkt, scmp(slayers.SCMPTypeExternalInterfaceDown, 0),
			&slayers.SCMPExternalInterfaceDown{IA: addr.MustParseIA("1-ff00:0:1"), IfID: 5}, gopacket.Payload(q))
	case "err-tr":
		spkt.NextHdr = slayers.L4SCMP
		q := quoted(&slayers.SCMP{TypeCode: slayers.CreateSCMPTypeCode(slayers.SCMPTypeTracerouteRequest, 0)},
			&slayers.SCMPTraceroute{Identifier: f, Sequence: 1})
		return ser(spkt, scmp(slayers.SCMPTypeParameterProblem, slayers.SCMPCodeInvalidHopFieldMAC),
			&slayers.SCMPParameterProblem{Pointer: 40}, gopacket.Payload(q))
	}
	vt.Fatal("unknown packet kind %q", p.kind)
	return nil
}

var kinds = []string{"udp", "tcp", "echo-reply", "tr-reply", "echo-request", "tr-request", "err-udp", "err-echo", "err-tr", "other-l4"}

func effRange(c caseCfg) (int, int) {
	lo, hi := c.topoRange()
	l, h := int(lo), int(hi)
	if c.ovLo >= 0 {
		l = c.ovLo
	}
	if c.ovHi >= 0 {
		h = c.ovHi
	}
	return l, h
}

func portsFor(c caseCfg, rng *rand.Rand, full bool) []int {
	lo, hi := effRange(c)
	set := map[int]bool{}
	for _, p := range []int{0, 1, lo - 1, lo, (lo + hi) / 2, hi, hi + 1, 30041, 65535, 80, 50002} {
		if p >= 0 && p <= 65535 {
			set[p] = true
		}
	}
	var out []int
	for p := range set {
		out = append(out, p)
	}
	// deterministic order
	for i := 0; i < len(out); i++ {
		for j := i + 1; j < len(out); j++ {
			if out[j] < out[i] {
				out[i], out[j] = out[j], out[i]
			}
		}
	}
	if !full {
		rng.Shuffle(len(out), func(i, j int) { out[i], out[j] = out[j], out[i] })
		if len(out) > 4 {
			out = out[:4]
		}
	}
	for i := 0; i < 2; i++ {
		out = append(out, rng.Intn(65536))
	}
	return out
}

var svcInst = map[string][]string{"svc-cs": {csAddr, cs2Addr, cs3Addr, cs4Addr}, "svc-ds": {dsAddr},
	"svc-cs-mcast": {csAddr, cs2Addr, cs3Addr, cs4Addr}, "svc-wildcard": {}}

func deliverAll(w *vt.Writer, rng *rand.Rand, dp *router.Connector, c caseCfg, full bool) int {
	proc := router.VerifCfgNewProc(dp)
	n := 0
	one := func(p pkt) {
		raw := build(p)
		var disp int
		var egress uint16
		var dst *net.UDPAddr
		pan := ""
		func() {
			defer func() {
				if r := recover(); r != nil {
					pan = fmt.Sprint(r)
				}
			}()
			disp, egress, dst = proc.Deliver(raw, 1)
		}()
		if pan != "" {
			w.Emit(vt.M{"ev": "panic", "kind": p.kind, "cut": p.cut})
			return
		}
		kind := p.kind
		if kind == "err-cut" { // abstraction: are the two bytes of the quoted source port there?
			switch {
			case p.cut < quoteL4+2:
				kind = "err-cut-noport"
			case p.cut < quoteL4+8:
				kind = "err-cut-port"
			default:
				kind = "err-udp" // complete UDP header: the ordinary case
			}
		}
		ext := p.ext
		if ext == "" {
			ext = "none"
		}
		e := vt.M{"ev": "deliver", "kind": kind, "ext": ext, "cut": p.cut, "field": p.field, "dst": p.dst, "disp": []string{"discard", "forward", "slow", "done"}[disp],
			"egress": int(egress), "port": -1, "addr": "-", "want": hostAddr().String(), "inst": []string{}}
		if p.dst != "ip" {
			e["want"] = "-"
			e["inst"] = svcInst[p.dst]
		}
		if dst != nil {
			e["port"] = dst.Port
			e["addr"] = dst.IP.String()
		}
		w.Emit(e)
		n++
	}
	ks := kinds
	for _, k := range ks {
		ports := portsFor(c, rng, full)
		if !full && k != "udp" {
			ports = ports[:2]
		}
		for _, f := range ports {
			one(pkt{kind: k, field: f, dst: "ip"})
		}
	}
	for _, d := range []string{"svc-cs", "svc-ds", "svc-cs-mcast", "svc-wildcard"} {
		fs := []int{0, 30041, 31000, 443}
		if full { // the instance is chosen at random: many packets reach every registered instance
			fs = append(fs, 30252, 31001, 1, 65535, 50002, 80, 1024, 40000)
		}
		for _, f := range fs {
			one(pkt{kind: "udp", field: f, dst: d})
		}
	}
	// the same packets behind hop-by-hop / end-to-end extension headers (e.g. authenticated packets)
	exts := []string{"hbh", "e2e", "hbh+e2e"}
	if full {
		lo, hi := effRange(c)
		for _, k := range kinds {
			for _, x := range exts {
				for _, f := range []int{(lo + hi) / 2, hi, 80} {
					if f >= 0 && f <= 65535 {
						one(pkt{kind: k, field: f, dst: "ip", ext: x})
					}
				}
			}
		}
		for _, x := range exts {
			one(pkt{kind: "udp", field: 443, dst: "svc-cs", ext: x})
		}
	} else {
		lo, hi := effRange(c)
		for i := 0; i < 3; i++ {
			one(pkt{kind: kinds[rng.Intn(len(kinds))], field: []int{(lo + hi) / 2, lo, 80}[rng.Intn(3)] & 0xffff, dst: "ip",
				ext: exts[rng.Intn(len(exts))]})
		}
	}
	// SCMP errors whose quote is cut at every layer boundary of the offending packet (cut = number
	// of quoted bytes kept), and an SCMP error quoting a TCP packet
	if full {
		for _, f := range []int{40001, 80} {
			for _, cut := range quoteCuts() {
				one(pkt{kind: "err-cut", field: f, dst: "ip", cut: cut})
			}
			one(pkt{kind: "err-tcp", field: f, dst: "ip"})
		}
	} else {
		cuts := quoteCuts()
		one(pkt{kind: "err-cut", field: 40001, dst: "ip", cut: cuts[rng.Intn(len(cuts))]})
		one(pkt{kind: "err-tcp", field: 40001, dst: "ip"})
	}
	return n
}

func runPort(w *vt.Writer, rng *rand.Rand, orders [][]string, n int) {
	ranges := []caseCfg{
		{rangeKind: "range", lo: 1024, hi: 65535, ovLo: -1, ovHi: -1},
		{rangeKind: "range", lo: 31000, hi: 32767, ovLo: -1, ovHi: -1},
		{rangeKind: "empty", ovLo: -1, ovHi: -1},
		{rangeKind: "all", ovLo: -1, ovHi: -1},
		{rangeKind: "range", lo: 40000, hi: 40000, ovLo: -1, ovHi: -1},
		{rangeKind: "range", lo: 1024, hi: 65535, ovLo: 31000, ovHi: 32767}, // router config overrides the topology
		{rangeKind: "empty", ovLo: 2000, ovHi: 3000},
		{rangeKind: "all", ovLo: -1, ovHi: 1023},
		{rangeKind: "range", lo: 30000, hi: 30100, ovLo: 30041, ovHi: -1},
		{rangeKind: "range", lo: 1, hi: 30040, ovLo: -1, ovHi: -1},
	}
	id := 0
	reset := func(c caseCfg, how string, order []string, err error) {
		rel := "none"
		ii, ri := -1, -1
		for i, s := range order {
			if s == "internal" {
				ii = i
			}
			if s == "range" {
				ri = i
			}
		}
		if how == "production" {
			rel = "after" // ConfigDataplane sets the range last
		} else if ii >= 0 && ri >= 0 {
			rel = map[bool]string{true: "after", false: "before"}[ri > ii]
		}
		w.Emit(vt.M{"ev": "reset", "id": id, "how": how, "order": strings.Join(order, ","), "rangeVsInternal": rel,
			"rangeKind": c.rangeKind, "lo": c.lo, "hi": c.hi, "ovLo": c.ovLo, "ovHi": c.ovHi, "ok": err == nil})
		id++
		if err != nil {
			w.Emit(vt.M{"ev": "builderr", "err": err.Error()})
		}
	}
	// (1) the production path with the full table
	for i, c := range ranges {
		c.batch, c.reuse = 8, true
		op := &recOpener{reuse: true}
		dp, err := production(c, fmt.Sprintf("port-%d", i), op)
		reset(c, "production", nil, err)
		if err == nil {
			deliverAll(w, rng, dp, c, true)
		}
	}
	// (2) every configuration order TLC generated, with a rotating range and a reduced table
	for i, order := range orders {
		if n > 0 && i >= n {
			break
		}
		c := ranges[(i+int(vt.Seed()))%len(ranges)]
		c.batch, c.reuse = 8, i%2 == 0 || hopBeforeInternal(order)
		op := &recOpener{reuse: c.reuse}
		dp, err := direct(c, order, op)
		reset(c, "direct", order, err)
		if err == nil {
			deliverAll(w, rng, dp, c, false)
		}
	}
}

func readOrders(p string) [][]string {
	f, err := os.Open(p)
	if err != nil {
		vt.Fatal("open %s: %v", p, err)
	}
	defer f.Close()
	var out [][]string
	sc := bufio.NewScanner(f)
	for sc.Scan() {
		l := strings.TrimSpace(sc.Text())
		if l != "" {
			out = append(out, strings.Split(l, ","))
		}
	}
	if len(out) == 0 {
		vt.Fatal("no configuration orders in %s", p)
	}
	return out
}

func main() {
	mode := flag.String("mode", "buf", "buf (C17) | sock (C17, real sockets) | port (C11)")
	out := flag.String("out", "trace.ndjson", "output trace")
	ord := flag.String("orders", "orders.txt", "configuration orders, one per line: comma-separated steps")
	n := flag.Int("n", 0, "buf: number of size pairs; port: number of orders to run (0 = all)")
	flag.Parse()
	orders := readOrders(*ord)
	w := vt.NewWriter(*out)
	switch *mode {
	case "buf":
		if *n == 0 {
			*n = 12
		}
		runBuf(w, vt.Rand(17), orders, *n)
	case "port":
		runPort(w, vt.Rand(11), orders, *n)
	case "sock":
		if *n == 0 {
			*n = 6
		}
		runSock(w, vt.Rand(1717), *n)
	default:
		vt.Fatal("unknown mode %q", *mode)
	}
	w.Close()
	fmt.Printf("events=%d\n", w.N)
}
