// Driver for C38: signs messages with the real pkg/scrypto/signed.Sign, presents untouched and
// touched variants to the real signed.Verify and logs, for every attempt, a symbolic description
// (identities of the byte strings involved, interned as small integers) and the outcome. It never
// judges: SymCryptoTrace.tla recomputes which attempts may verify.
package main

import (
	"bytes"
	"crypto"
	"crypto/ecdsa"
	"crypto/ed25519"
	"crypto/elliptic"
	crand "crypto/rand"
	"crypto/rsa"
	"crypto/sha256"
	"crypto/sha512"
	"encoding/binary"
	"flag"
	"fmt"
	"math/rand"
	"runtime"
	"sync"
	"time"

	"google.golang.org/protobuf/proto"
	"google.golang.org/protobuf/types/known/timestamppb"

	cryptopb "github.com/scionproto/scion/pkg/proto/crypto"
	"github.com/scionproto/scion/pkg/scrypto/signed"

	"verifharness/internal/vt"
)

// ------------------------------------------------------------------ interning (abstraction function)

type interner struct{ m map[[32]byte]int }

func (in *interner) id(parts ...[]byte) int {
	h := sha256.New()
	for _, p := range parts {
		var l [8]byte
		binary.BigEndian.PutUint64(l[:], uint64(len(p)))
		h.Write(l[:])
		h.Write(p)
	}
	var k [32]byte
	copy(k[:], h.Sum(nil))
	if v, ok := in.m[k]; ok {
		return v
	}
	v := len(in.m) + 1
	in.m[k] = v
	return v
}

func hdrID(in *interner, h signed.Header) int {
	var ts [8]byte
	if !h.Timestamp.IsZero() {
		binary.BigEndian.PutUint64(ts[:], uint64(h.Timestamp.UnixNano()))
	}
	var a [8]byte
	binary.BigEndian.PutUint64(a[:], uint64(int64(h.SignatureAlgorithm)))
	var l [8]byte
	binary.BigEndian.PutUint64(l[:], uint64(int64(h.AssociatedDataLength)))
	z := byte(0)
	if h.Timestamp.IsZero() {
		z = 1
	}
	// empty and nil byte strings are the same value
	return in.id([]byte("hdr"), a[:], h.VerificationKeyID, ts[:], []byte{z}, h.Metadata, l[:])
}

func concat(ad [][]byte) []byte {
	var out []byte
	for _, d := range ad {
		out = append(out, d...)
	}
	return out
}

// ------------------------------------------------------------------ keys

type keyT struct {
	id     int
	kind   string // p256 p384 p521 rsa ed25519 nil
	signer crypto.Signer
	pub    crypto.PublicKey
}

func algoName(a signed.SignatureAlgorithm) string {
	switch a {
	case signed.ECDSAWithSHA256:
		return "ecdsa-sha256"
	case signed.ECDSAWithSHA384:
		return "ecdsa-sha384"
	case signed.ECDSAWithSHA512:
		return "ecdsa-sha512"
	}
	return "unknown"
}

func mkKeys() []keyT {
	var ks []keyT
	add := func(kind string, s crypto.Signer) {
		ks = append(ks, keyT{id: len(ks) + 1, kind: kind, signer: s, pub: s.Public()})
	}
	for _, c := range []struct {
		n string
		c elliptic.Curve
	}{{"p256", elliptic.P256()}, {"p384", elliptic.P384()}, {"p521", elliptic.P521()}} {
		for i := 0; i < 2; i++ {
			k, err := ecdsa.GenerateKey(c.c, crand.Reader)
			if err != nil {
				vt.Fatal("keygen: %v", err)
			}
			add(c.n, k)
		}
	}
	r, err := rsa.GenerateKey(crand.Reader, 2048)
	if err != nil {
		vt.Fatal("rsa keygen: %v", err)
	}
	add("rsa", r)
	_, e, err := ed25519.GenerateKey(crand.Reader)
	if err != nil {
		vt.Fatal("ed25519 keygen: %v", err)
	}
	add("ed25519", e)
	return ks
}

// ------------------------------------------------------------------ one trace

type signedRec struct {
	msg  *cryptopb.SignedMessage
	hdr  signed.Header
	body []byte
	ad   [][]byte
	key  keyT
}

type tracer struct {
	w    *vt.Writer
	in   *interner
	rng  *rand.Rand
	keys []keyT
	nver int
}

func randBytes(rng *rand.Rand, n int) []byte {
	b := make([]byte, n)
	rng.Read(b)
	return b
}

func (t *tracer) genHeader(k keyT, adLen int) signed.Header {
	rng := t.rng
	h := signed.Header{AssociatedDataLength: adLen}
	algos := []signed.SignatureAlgorithm{signed.ECDSAWithSHA256, signed.ECDSAWithSHA384, signed.ECDSAWithSHA512}
	switch k.kind {
	case "p256":
		h.SignatureAlgorithm = algos[0]
	case "p384":
		h.SignatureAlgorithm = algos[1]
	default:
		h.SignatureAlgorithm = algos[2]
	}
	if rng.Intn(4) == 0 { // any ECDSA algorithm goes with any ECDSA key
		h.SignatureAlgorithm = algos[rng.Intn(3)]
	}
	switch rng.Intn(3) {
	case 0:
		h.VerificationKeyID = randBytes(rng, 1+rng.Intn(40))
	case 1:
		h.VerificationKeyID = []byte{}
	}
	switch rng.Intn(3) {
	case 0:
		h.Timestamp = time.Unix(int64(rng.Intn(4102444800)), int64(rng.Intn(1e9))).UTC()
	case 1:
		h.Timestamp = time.Unix(int64(1600000000+rng.Intn(1e8)), 0)
	}
	switch rng.Intn(3) {
	case 0:
		h.Metadata = randBytes(rng, 1+rng.Intn(64))
	case 1:
		h.Metadata = []byte{}
	}
	return h
}

func (t *tracer) genBody() []byte {
	switch t.rng.Intn(6) {
	case 0:
		return nil
	case 1:
		return []byte{}
	case 2:
		return randBytes(t.rng, 1+t.rng.Intn(8))
	case 3:
		return randBytes(t.rng, 1024+t.rng.Intn(3073))
	}
	return randBytes(t.rng, 1+t.rng.Intn(200))
}

func (t *tracer) genAD() [][]byte {
	n := t.rng.Intn(5)
	var ad [][]byte
	for i := 0; i < n; i++ {
		switch t.rng.Intn(5) {
		case 0:
			ad = append(ad, nil)
		case 1:
			ad = append(ad, randBytes(t.rng, 1))
		default:
			ad = append(ad, randBytes(t.rng, 1+t.rng.Intn(100)))
		}
	}
	return ad
}

// sign calls the real Sign and logs the event.
func (t *tracer) sign(h signed.Header, body []byte, k keyT, ad [][]byte) *signedRec {
	var msg *cryptopb.SignedMessage
	var err error
	pan := t.guard(func() { msg, err = signed.Sign(h, body, k.signer, ad...) })
	if pan != "" {
		t.w.Emit(vt.M{"ev": "panic", "in": "sign"})
		return nil
	}
	if err != nil || msg == nil {
		t.w.Emit(vt.M{"ev": "sign", "ok": false, "key": k.id, "raw": 0, "ad": 0, "hdr": 0, "body": 0, "sig": 0,
			"keyKind": k.kind, "algo": algoName(h.SignatureAlgorithm)})
		return nil
	}
	t.w.Emit(vt.M{"ev": "sign", "ok": true, "key": k.id, "raw": t.in.id([]byte("raw"), msg.HeaderAndBody),
		"ad": t.in.id([]byte("ad"), concat(ad)), "hdr": hdrID(t.in, h), "body": t.in.id([]byte("body"), body),
		"sig": t.in.id([]byte("sig"), msg.Signature), "keyKind": k.kind, "algo": algoName(h.SignatureAlgorithm)})
	return &signedRec{msg: msg, hdr: h, body: body, ad: ad, key: k}
}

func (t *tracer) guard(f func()) (p string) {
	defer func() {
		if r := recover(); r != nil {
			p = fmt.Sprint(r)
		}
	}()
	f()
	return ""
}

// verify calls the real Verify on the presented message and logs the attempt.
func (t *tracer) verify(mut string, raw, sig []byte, k keyT, ad [][]byte) {
	t.emitVerify(callVerify(mut, raw, sig, k, ad))
}

// vres is one Verify call and what it returned (no interning: safe to produce concurrently).
type vres struct {
	mut      string
	raw, sig []byte
	k        keyT
	ad       [][]byte
	m        *signed.Message
	err      error
	pan      string
}

func callVerify(mut string, raw, sig []byte, k keyT, ad [][]byte) (r vres) {
	r = vres{mut: mut, raw: raw, sig: sig, k: k, ad: ad}
	defer func() {
		if p := recover(); p != nil {
			r.pan = fmt.Sprint(p)
		}
	}()
	msg := &cryptopb.SignedMessage{HeaderAndBody: raw, Signature: sig}
	r.m, r.err = signed.Verify(msg, k.pub, ad...)
	return r
}

func (t *tracer) emitVerify(r vres) {
	t.nver++
	mut, raw, sig, k, ad, m, err := r.mut, r.raw, r.sig, r.k, r.ad, r.m, r.err
	if r.pan != "" {
		t.w.Emit(vt.M{"ev": "panic", "in": "verify:" + mut})
		return
	}
	// what the presented message claims as algorithm, read with the protobuf library directly
	algo := "unparsable"
	var hb cryptopb.HeaderAndBody
	if proto.Unmarshal(raw, &hb) == nil {
		var ph cryptopb.Header
		if proto.Unmarshal(hb.Header, &ph) == nil {
			switch ph.SignatureAlgorithm {
			case cryptopb.SignatureAlgorithm_SIGNATURE_ALGORITHM_ECDSA_WITH_SHA256:
				algo = "ecdsa-sha256"
			case cryptopb.SignatureAlgorithm_SIGNATURE_ALGORITHM_ECDSA_WITH_SHA384:
				algo = "ecdsa-sha384"
			case cryptopb.SignatureAlgorithm_SIGNATURE_ALGORITHM_ECDSA_WITH_SHA512:
				algo = "ecdsa-sha512"
			default:
				algo = "unknown"
			}
		}
	}
	ev := vt.M{"ev": "verify", "mut": mut, "raw": t.in.id([]byte("raw"), raw), "sig": t.in.id([]byte("sig"), sig),
		"ad": t.in.id([]byte("ad"), concat(ad)), "key": k.id, "keyKind": k.kind, "algo": algo,
		"accepted": err == nil && m != nil, "retHdr": 0, "retBody": 0}
	if err == nil && m != nil {
		ev["retHdr"] = hdrID(t.in, m.Header)
		ev["retBody"] = t.in.id([]byte("body"), m.Body)
	}
	t.w.Emit(ev)
}

// concurrentTrace: several goroutines sign different messages at the same time, then several
// goroutines verify them (untouched and touched) at the same time, as the segment verifier and
// the beacon extender do. Results are collected per goroutine and logged after the join; every
// outcome is judged exactly like a sequential one. Large associated data makes the hashing phases
// of the calls overlap.
func (t *tracer) concurrentTrace(id int, thorough bool) {
	rng := t.rng
	t.w.Emit(vt.M{"ev": "reset", "id": id})
	const G = 8
	k := t.ecKey()
	other := t.otherKey(k, true)
	shared := [][]byte{randBytes(rng, 32<<10+rng.Intn(96<<10)), randBytes(rng, 1+rng.Intn(64<<10))}
	type signJob struct {
		h    signed.Header
		body []byte
		ad   [][]byte
		msg  *cryptopb.SignedMessage
		err  error
		pan  string
	}
	jobs := make([]*signJob, G)
	for g := range jobs {
		ad := shared
		if g%2 == 1 { // own associated data
			ad = [][]byte{randBytes(rng, 16<<10+rng.Intn(64<<10))}
		}
		jobs[g] = &signJob{h: t.genHeader(k, len(concat(ad))), body: t.genBody(), ad: ad}
		jobs[g].h.SignatureAlgorithm = jobs[0].h.SignatureAlgorithm // one hash function for all
	}
	var wg sync.WaitGroup
	start := make(chan struct{})
	for _, j := range jobs {
		wg.Add(1)
		go func(j *signJob) {
			defer wg.Done()
			defer func() {
				if p := recover(); p != nil {
					j.pan = fmt.Sprint(p)
				}
			}()
			<-start
			j.msg, j.err = signed.Sign(j.h, j.body, k.signer, j.ad...)
		}(j)
	}
	close(start)
	wg.Wait()
	var ok []*signJob
	for _, j := range jobs {
		if j.pan != "" {
			t.w.Emit(vt.M{"ev": "panic", "in": "sign:concurrent"})
			continue
		}
		if j.err != nil || j.msg == nil {
			t.w.Emit(vt.M{"ev": "sign", "ok": false, "key": k.id, "raw": 0, "ad": 0, "hdr": 0, "body": 0, "sig": 0,
				"keyKind": k.kind, "algo": algoName(j.h.SignatureAlgorithm)})
			continue
		}
		t.w.Emit(vt.M{"ev": "sign", "ok": true, "key": k.id, "raw": t.in.id([]byte("raw"), j.msg.HeaderAndBody),
			"ad": t.in.id([]byte("ad"), concat(j.ad)), "hdr": hdrID(t.in, j.h), "body": t.in.id([]byte("body"), j.body),
			"sig": t.in.id([]byte("sig"), j.msg.Signature), "keyKind": k.kind, "algo": algoName(j.h.SignatureAlgorithm)})
		ok = append(ok, j)
	}
	if len(ok) == 0 {
		return
	}
	// verification plans are drawn before the goroutines start (the PRNG is not shared)
	n := 24
	if thorough {
		n = 60
	}
	type plan struct {
		mut string
		j   *signJob
		ad  [][]byte
		k   keyT
	}
	plans := make([][]plan, G)
	for g := range plans {
		for i := 0; i < n; i++ {
			j := ok[rng.Intn(len(ok))]
			p := plan{mut: "concurrent-none", j: j, ad: j.ad, k: k}
			switch rng.Intn(8) {
			case 0:
				c := concat(j.ad)
				p.mut, p.ad = "concurrent-flip-ad-bit", [][]byte{flip(c, rng.Intn(len(c)*8))}
			case 1:
				p.mut, p.k = "concurrent-other-key", other
			case 2:
				p.mut, p.ad = "concurrent-ad-resplit", t.resplit(j.ad)
			}
			plans[g] = append(plans[g], p)
		}
	}
	results := make([][]vres, G)
	start = make(chan struct{})
	for g := 0; g < G; g++ {
		wg.Add(1)
		go func(g int) {
			defer wg.Done()
			<-start
			for _, p := range plans[g] {
				results[g] = append(results[g], callVerify(p.mut, p.j.msg.HeaderAndBody, p.j.msg.Signature, p.k, p.ad))
			}
		}(g)
	}
	close(start)
	wg.Wait()
	for g := range results {
		for _, r := range results[g] {
			t.emitVerify(r)
		}
	}
	// and once more sequentially: what was signed concurrently must verify
	for _, j := range ok {
		t.verify("none", j.msg.HeaderAndBody, j.msg.Signature, k, j.ad)
	}
}

func flip(b []byte, bit int) []byte {
	o := append([]byte{}, b...)
	o[bit/8] ^= 1 << uint(bit%8)
	return o
}

func (t *tracer) otherKey(k keyT, sameKind bool) keyT {
	for {
		o := t.keys[t.rng.Intn(len(t.keys))]
		if o.id != k.id && (o.kind == k.kind) == sameKind {
			return o
		}
	}
}

func (t *tracer) ecKey() keyT { return t.keys[t.rng.Intn(6)] }

func (t *tracer) resplit(ad [][]byte) [][]byte {
	c := concat(ad)
	var out [][]byte
	for len(c) > 0 {
		n := 1 + t.rng.Intn(len(c))
		out = append(out, c[:n])
		c = c[n:]
		if t.rng.Intn(4) == 0 {
			out = append(out, nil)
		}
	}
	if t.rng.Intn(3) == 0 {
		out = append([][]byte{{}}, out...)
	}
	return out
}

func remarshal(h signed.Header, body []byte) []byte {
	var ts *timestamppb.Timestamp
	if !h.Timestamp.IsZero() {
		ts = timestamppb.New(h.Timestamp)
	}
	var a cryptopb.SignatureAlgorithm
	switch h.SignatureAlgorithm {
	case signed.ECDSAWithSHA256:
		a = cryptopb.SignatureAlgorithm_SIGNATURE_ALGORITHM_ECDSA_WITH_SHA256
	case signed.ECDSAWithSHA384:
		a = cryptopb.SignatureAlgorithm_SIGNATURE_ALGORITHM_ECDSA_WITH_SHA384
	case signed.ECDSAWithSHA512:
		a = cryptopb.SignatureAlgorithm_SIGNATURE_ALGORITHM_ECDSA_WITH_SHA512
	default:
		a = cryptopb.SignatureAlgorithm(int32(h.SignatureAlgorithm))
	}
	rh, err := proto.Marshal(&cryptopb.Header{SignatureAlgorithm: a, VerificationKeyId: h.VerificationKeyID,
		Timestamp: ts, Metadata: h.Metadata, AssociatedDataLength: int32(h.AssociatedDataLength)})
	if err != nil {
		vt.Fatal("marshal: %v", err)
	}
	raw, err := proto.Marshal(&cryptopb.HeaderAndBody{Header: rh, Body: body})
	if err != nil {
		vt.Fatal("marshal: %v", err)
	}
	return raw
}

func (t *tracer) oneTrace(id int, thorough bool) {
	rng := t.rng
	t.w.Emit(vt.M{"ev": "reset", "id": id})
	k := t.ecKey()
	ad := t.genAD()
	body := t.genBody()
	small := id%3 == 0
	if small { // small message: every bit is flipped
		body = randBytes(rng, rng.Intn(6))
		ad = [][]byte{randBytes(rng, rng.Intn(4)), randBytes(rng, rng.Intn(3))}
	}
	h := t.genHeader(k, len(concat(ad)))
	if small {
		h.Metadata, h.VerificationKeyID = randBytes(rng, rng.Intn(3)), nil
	}
	s := t.sign(h, body, k, ad)
	if s == nil {
		return
	}
	raw, sig := s.msg.HeaderAndBody, s.msg.Signature
	// (a) untouched, (b) associated data re-split, (c) a second signature over the same content
	t.verify("none", raw, sig, k, ad)
	for i := 0; i < 3; i++ {
		t.verify("ad-resplit", raw, sig, k, t.resplit(ad))
	}
	t.verify("ad-single-chunk", raw, sig, k, [][]byte{concat(ad)})
	if s2 := t.sign(h, body, k, t.resplit(ad)); s2 != nil {
		t.verify("sig-of-2nd-signing", raw, s2.msg.Signature, k, ad)
		t.verify("sig-of-1st-signing", s2.msg.HeaderAndBody, sig, k, ad)
	}
	// (d) HeaderAndBody bits
	nb := len(raw) * 8
	bits := []int{}
	if small || nb <= 256 {
		for i := 0; i < nb; i++ {
			bits = append(bits, i)
		}
	} else {
		n := 64
		if thorough {
			n = 256
		}
		for i := 0; i < n; i++ {
			bits = append(bits, rng.Intn(nb))
		}
	}
	for _, b := range bits {
		t.verify("flip-msg-bit", flip(raw, b), sig, k, ad)
	}
	// (e) signature bits (all of them)
	for b := 0; b < len(sig)*8; b++ {
		if small || thorough || rng.Intn(4) == 0 {
			t.verify("flip-sig-bit", raw, flip(sig, b), k, ad)
		}
	}
	// (f) truncation / extension
	for _, n := range []int{0, 1, len(raw) / 2, len(raw) - 1} {
		if n >= 0 && n < len(raw) {
			t.verify("truncate-msg", raw[:n], sig, k, ad)
		}
	}
	t.verify("extend-msg", append(append([]byte{}, raw...), randBytes(rng, 1+rng.Intn(4))...), sig, k, ad)
	t.verify("extend-msg-zero", append(append([]byte{}, raw...), 0), sig, k, ad)
	for _, n := range []int{0, 1, len(sig) / 2, len(sig) - 1} {
		t.verify("truncate-sig", raw, sig[:n], k, ad)
	}
	t.verify("extend-sig", raw, append(append([]byte{}, sig...), byte(rng.Intn(256))), k, ad)
	t.verify("extend-sig-zero", raw, append(append([]byte{}, sig...), 0), k, ad)
	t.verify("nil-sig", raw, nil, k, ad)
	// (g) associated data content
	cad := concat(ad)
	if len(cad) > 0 {
		for i := 0; i < 8; i++ {
			t.verify("flip-ad-bit", raw, sig, k, [][]byte{flip(cad, rng.Intn(len(cad)*8))})
		}
		t.verify("drop-ad-last-byte", raw, sig, k, [][]byte{cad[:len(cad)-1]})
		t.verify("drop-ad-first-byte", raw, sig, k, [][]byte{cad[1:]})
		t.verify("no-ad", raw, sig, k, nil)
		rot := append(append([]byte{}, cad[1:]...), cad[0])
		t.verify("rotate-ad", raw, sig, k, [][]byte{rot})
	}
	t.verify("append-ad-byte", raw, sig, k, append(append([][]byte{}, ad...), []byte{byte(rng.Intn(256))}))
	if len(ad) >= 2 {
		sw := append([][]byte{}, ad...)
		i := rng.Intn(len(sw) - 1)
		sw[i], sw[i+1] = sw[i+1], sw[i]
		t.verify("swap-ad-chunks", raw, sig, k, sw)
		t.verify("drop-ad-chunk", raw, sig, k, ad[1:])
	}
	// (h) other keys
	t.verify("other-key-same-curve", raw, sig, t.otherKey(k, true), ad)
	for i := 0; i < 3; i++ {
		t.verify("other-key-other-kind", raw, sig, t.otherKey(k, false), ad)
	}
	t.verify("nil-key", raw, sig, keyT{id: 99, kind: "nil"}, ad)
	// (i) header / body changed and re-encoded, signature kept
	{
		h2 := h
		h2.SignatureAlgorithm = []signed.SignatureAlgorithm{signed.ECDSAWithSHA256, signed.ECDSAWithSHA384,
			signed.ECDSAWithSHA512, signed.UnknownSignatureAlgorithm}[rng.Intn(4)]
		t.verify("reencode-algo", remarshal(h2, body), sig, k, ad)
		h2 = h
		h2.VerificationKeyID = append(append([]byte{}, h.VerificationKeyID...), 1)
		t.verify("reencode-key-id", remarshal(h2, body), sig, k, ad)
		h2 = h
		h2.Timestamp = h.Timestamp.Add(time.Duration(1+rng.Intn(1000)) * time.Nanosecond)
		if h.Timestamp.IsZero() {
			h2.Timestamp = time.Unix(1, 0)
		}
		t.verify("reencode-timestamp", remarshal(h2, body), sig, k, ad)
		h2 = h
		h2.Timestamp = time.Time{}
		t.verify("reencode-no-timestamp", remarshal(h2, body), sig, k, ad)
		h2 = h
		h2.Metadata = append(append([]byte{}, h.Metadata...), 0)
		t.verify("reencode-metadata", remarshal(h2, body), sig, k, ad)
		t.verify("reencode-body", remarshal(h, append(append([]byte{}, body...), 0)), sig, k, ad)
		t.verify("reencode-same", remarshal(h, body), sig, k, ad)
		// the header claims one byte less / more of associated data, and gets it
		if len(cad) > 0 {
			h2 = h
			h2.AssociatedDataLength = len(cad) - 1
			t.verify("adlen-1-and-shorter-ad", remarshal(h2, body), sig, k, [][]byte{cad[:len(cad)-1]})
		}
		h2 = h
		h2.AssociatedDataLength = len(cad) + 1
		t.verify("adlen+1-and-longer-ad", remarshal(h2, body), sig, k, [][]byte{cad, {7}})
	}
	// (j) signature of another message by the same key
	if s3 := t.sign(t.genHeader(k, len(cad)), t.genBody(), k, ad); s3 != nil {
		t.verify("sig-of-other-msg", raw, s3.msg.Signature, k, ad)
		t.verify("other-msg-this-sig", s3.msg.HeaderAndBody, sig, k, ad)
		t.verify("none", s3.msg.HeaderAndBody, s3.msg.Signature, k, ad)
	}
	// (k) the boundary between message and associated data is moved: the signer signs associated
	// data that begins with bytes x; the presented message is HeaderAndBody||x with the rest as
	// associated data (same concatenation overall, different header, body and associated data).
	{
		rest := randBytes(rng, rng.Intn(20))
		h2 := t.genHeader(k, len(rest))
		h2.SignatureAlgorithm = h.SignatureAlgorithm
		x := remarshal(h2, t.genBody())
		if rng.Intn(2) == 0 { // only a replacement header: the body stays
			var hb cryptopb.HeaderAndBody
			_ = proto.Unmarshal(x, &hb)
			hb.Body = nil
			x, _ = proto.Marshal(&hb)
		}
		ad4 := [][]byte{x, rest}
		h4 := h
		h4.AssociatedDataLength = len(x) + len(rest)
		if s4 := t.sign(h4, body, k, ad4); s4 != nil {
			r4 := s4.msg.HeaderAndBody
			t.verify("none", r4, s4.msg.Signature, k, ad4)
			t.verify("move-boundary-ad-into-msg", append(append([]byte{}, r4...), x...), s4.msg.Signature, k, [][]byte{rest})
			// and the other direction: the tail of the message becomes associated data
			for _, n := range []int{1, 2, len(r4) / 2} {
				if n < len(r4) {
					t.verify("move-boundary-msg-into-ad", r4[:len(r4)-n], s4.msg.Signature, k,
						[][]byte{r4[len(r4)-n:], x, rest})
				}
			}
		}
	}
	// (l) forged by the holder of the matching private key, but with an algorithm that is not
	// consistent with the key: unknown algorithm (signature over the raw input / over a digest)
	if ek, ok := k.signer.(*ecdsa.PrivateKey); ok {
		h5 := h
		h5.SignatureAlgorithm = signed.UnknownSignatureAlgorithm
		r5 := remarshal(h5, body)
		input := append(append([]byte{}, r5...), cad...)
		d := sha512.Sum512(input)
		for i, in := range [][]byte{input, d[:]} {
			fs, err := ecdsa.SignASN1(crand.Reader, ek, in)
			if err != nil {
				vt.Fatal("forge: %v", err)
			}
			t.w.Emit(vt.M{"ev": "forge", "how": []string{"raw-input", "sha512-digest"}[i], "key": k.id,
				"raw": t.in.id([]byte("raw"), r5), "ad": t.in.id([]byte("ad"), cad), "sig": t.in.id([]byte("sig"), fs)})
			t.verify("forged-unknown-algo", r5, fs, k, ad)
		}
	}
	// a key of another public-key algorithm signs the same input itself
	for _, ok := range t.keys[6:] {
		d := sha256.Sum256(append(append([]byte{}, raw...), cad...))
		var fs []byte
		var err error
		if ok.kind == "rsa" {
			fs, err = ok.signer.Sign(crand.Reader, d[:], crypto.SHA256)
		} else {
			fs, err = ok.signer.Sign(crand.Reader, append(append([]byte{}, raw...), cad...), crypto.Hash(0))
		}
		if err != nil {
			vt.Fatal("forge: %v", err)
		}
		t.w.Emit(vt.M{"ev": "forge", "how": ok.kind, "key": ok.id, "raw": t.in.id([]byte("raw"), raw),
			"ad": t.in.id([]byte("ad"), cad), "sig": t.in.id([]byte("sig"), fs)})
		t.verify("forged-non-ecdsa-key", raw, fs, ok, ad)
	}
	// (m) degenerate inputs
	t.verify("empty-message", nil, sig, k, ad)
	t.verify("garbage-message", randBytes(rng, 1+rng.Intn(30)), sig, k, ad)
	_ = bytes.Equal
}

func main() {
	out := flag.String("out", "trace.ndjson", "output trace")
	n := flag.Int("n", 30, "number of traces")
	nc := flag.Int("concurrent", 4, "number of traces with concurrent Sign / Verify calls")
	flag.Parse()
	if runtime.GOMAXPROCS(0) < 8 {
		runtime.GOMAXPROCS(8)
	}
	t := &tracer{w: vt.NewWriter(*out), in: &interner{m: map[[32]byte]int{}}, rng: vt.Rand(38), keys: mkKeys()}
	for i := 0; i < *n; i++ {
		t.oneTrace(i, vt.Thorough())
	}
	for i := 0; i < *nc; i++ {
		t.concurrentTrace(*n+i, vt.Thorough())
	}
	t.w.Close()
	fmt.Printf("traces=%d verifications=%d events=%d\n", *n, t.nver, t.w.N)
}
