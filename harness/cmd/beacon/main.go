// Driver for C23: runs the REAL beaconing.DefaultExtender with REAL trust.Signers (P-256 keys,
// x509 chains whose validity windows are placed on a timeline around the segment timestamp and the
// current time, margins >= 60 s) on beacons of 0..3 entries built by real extenders of the
// upstream ASes, for consistent and inconsistent (ingress, egress) requests, peer lists with unknown
// and half-configured interfaces, and logs what happened:
// error or the new AS entry, the signer that signed it, whether the whole segment passes the REAL
// segverifier.VerifySegment over a real trust DB, whether verification of the new entry fails after
// altering the segment info / each earlier entry / each earlier signature (signature coverage), and
// whether hop and peer MACs equal an independent AES-CMAC re-computation (abstraction function).
// The driver never judges; BeaconingTrace.tla does.
package main

import (
	"bytes"
	"context"
	"encoding/binary"
	"flag"
	"fmt"
	"math/rand"
	"time"

	"google.golang.org/protobuf/proto"

	"github.com/scionproto/scion/control/beaconing"
	"github.com/scionproto/scion/pkg/addr"
	cppb "github.com/scionproto/scion/pkg/proto/control_plane"
	cryptopb "github.com/scionproto/scion/pkg/proto/crypto"
	"github.com/scionproto/scion/pkg/scrypto/signed"
	seg "github.com/scionproto/scion/pkg/segment"
	"github.com/scionproto/scion/private/segment/segverifier"
	"github.com/scionproto/scion/private/topology"
	"github.com/scionproto/scion/private/trust"
	"github.com/scionproto/scion/private/trust/compat"

	"verifharness/internal/segs"
	"verifharness/internal/vt"
)

type window struct{ nb, na int } // seconds relative to the case's t0

func mkAS(w *segs.World, rng *rand.Rand, a int) *segs.AS {
	key := make([]byte, 16)
	rng.Read(key)
	return &segs.AS{IA: w.IA(a), MTU: uint16(1200 + rng.Intn(300)), MaxExp: 63, Key: key,
		Ifs: map[uint16]*segs.Intf{}}
}

func link(rng *rand.Rand, a, b *segs.AS, ta, tb topology.LinkType, ridKnown bool) (uint16, uint16) {
	free := func(x *segs.AS) uint16 {
		for {
			id := uint16(1 + rng.Intn(20))
			if _, ok := x.Ifs[id]; !ok && id != 99 && id != 98 {
				return id
			}
		}
	}
	ia, ib := free(a), free(b)
	mtu := uint16(1200 + rng.Intn(300))
	rb := ib
	if !ridKnown {
		rb = 0
	}
	a.Ifs[ia] = &segs.Intf{ID: ia, Remote: b.IA, RemoteID: rb, Type: ta, MTU: mtu}
	b.Ifs[ib] = &segs.Intf{ID: ib, Remote: a.IA, RemoteID: ia, Type: tb, MTU: mtu}
	return ia, ib
}

func flip(b []byte, rng *rand.Rand) []byte {
	c := append([]byte{}, b...)
	if len(c) == 0 {
		return []byte{1}
	}
	c[rng.Intn(len(c))] ^= 1 << uint(rng.Intn(8))
	return c
}

// clone copies the segment deep enough for signature-coverage mutations.
func clone(ps *seg.PathSegment) *seg.PathSegment {
	c := ps.ShallowCopy()
	c.Info.Raw = append([]byte{}, ps.Info.Raw...)
	for i := range c.ASEntries {
		s := ps.ASEntries[i].Signed
		c.ASEntries[i].Signed = &cryptopb.SignedMessage{
			HeaderAndBody: append([]byte{}, s.HeaderAndBody...),
			Signature:     append([]byte{}, s.Signature...),
		}
	}
	return c
}

func main() {
	out := flag.String("out", "beacon.ndjson", "trace file")
	n := flag.Int("n", 300, "number of Extend calls")
	conc := flag.Int("conc", 0, "rounds of the concurrent Originator / Propagator mode")
	flag.Parse()
	wr := vt.NewWriter(*out)
	defer wr.Close()
	ctx := context.Background()
	world := segs.NewWorld(time.Now())
	defer world.Close()
	ver := compat.Verifier{Verifier: world.Verifier()}
	maxExps := []uint8{0, 1, 2, 5, 63, 200, 255}
	nerr, nok := 0, 0
	for i := 0; i < *n; i++ {
		rng := vt.Rand(int64(i))
		pre := rng.Intn(4) // entries already in the beacon
		// chain 1 -> 2 -> ... -> pre+2, the AS under test is number pre+1; ASes 7, 8 are peers
		ases := map[int]*segs.AS{}
		for a := 1; a <= pre+2; a++ {
			ases[a] = mkAS(world, rng, a)
		}
		ases[7], ases[8] = mkAS(world, rng, 7), mkAS(world, rng, 8)
		inIf := map[int]uint16{}
		egIf := map[int]uint16{}
		for a := 1; a <= pre+1; a++ {
			egIf[a], inIf[a+1] = link(rng, ases[a], ases[a+1], topology.Child, topology.Parent, true)
		}
		me := pre + 1
		self := ases[me]
		peerOK, _ := link(rng, self, ases[7], topology.Peer, topology.Peer, true)
		peerNoRid, _ := link(rng, self, ases[8], topology.Peer, topology.Peer, false)

		t0 := time.Now().Truncate(time.Second)
		off := int(t0.Sub(world.Base) / time.Second)
		tsOffs := []int{0, 30, 600, 3600, 20000}
		tsRel := -tsOffs[rng.Intn(len(tsOffs))]
		ts := t0.Add(time.Duration(tsRel) * time.Second)

		// upstream entries by the real extenders of ASes 1..pre (always-valid real signers)
		ps, err := seg.CreateSegment(ts, uint16(rng.Intn(1<<16)))
		if err != nil {
			vt.Fatal("create segment: %v", err)
		}
		// (built directly with AddASEntry and the independent CMAC, so that the upstream entries do
		// not depend on the extender under test)
		beta0 := ps.Info.SegmentID
		for a := 1; a <= pre; a++ {
			mac := segs.HopMAC(ases[a].Key, beta0, uint32(ts.Unix()), 63, inIf[a], egIf[a])
			ent := seg.ASEntry{Local: ases[a].IA, Next: ases[a+1].IA, MTU: int(ases[a].MTU),
				HopEntry: seg.HopEntry{HopField: seg.HopField{ExpTime: 63, ConsIngress: inIf[a], ConsEgress: egIf[a], MAC: mac}}}
			if a > 1 {
				ent.HopEntry.IngressMTU = int(ases[a].Ifs[inIf[a]].MTU)
			}
			if err := ps.AddASEntry(ctx, ent, world.Signer(a, -100000, 300000, 0)); err != nil {
				vt.Fatal("building prefix: %v", err)
			}
			beta0 ^= binary.BigEndian.Uint16(mac[:2])
		}

		// the request
		in, eg := inIf[me], egIf[me]
		switch rng.Intn(12) {
		case 0:
			in = 0 // zero ingress (inconsistent unless first)
		case 1:
			if pre == 0 {
				in = peerOK // non-zero ingress in the first entry
			} else {
				eg = 0 // terminate
			}
		case 2:
			in, eg = 0, 0
		case 3:
			eg = 0
		case 4:
			if pre > 0 {
				in = 99 // not configured
			}
		case 5:
			eg = 98 // not configured
		}
		var peers []uint16
		for _, p := range []uint16{peerOK, peerNoRid, 97} {
			if rng.Intn(2) == 0 {
				peers = append(peers, p)
			}
		}
		rng.Shuffle(len(peers), func(a, b int) { peers[a], peers[b] = peers[b], peers[a] })
		if rng.Intn(14) == 0 {
			self.MTU = 0
		}
		self.MaxExp = maxExps[rng.Intn(len(maxExps))]

		// signer windows: boundaries at least 60 s away from ts and from now
		unit := func(k int, d int) int { return tsRel + (k*3375)/10 + d }
		nbs := []int{tsRel - 7200, tsRel - 60, tsRel, tsRel + 60, tsRel - 86400, tsRel - 3600, tsRel - 600}
		nas := []int{-120, 90, unit(1, -20), unit(1, 25), unit(2, 70), unit(3, -5), unit(6, 1), unit(64, 0),
			unit(201, -100), tsRel + 86400 + 100, 1500000}
		nsig := 1 + rng.Intn(3)
		var wins []window
		var certs []trust.Signer
		var gen segs.SignerGen
		for k := 0; k < nsig; k++ {
			w := window{nbs[rng.Intn(len(nbs))], nas[rng.Intn(len(nas))]}
			for w.na > -60 && w.na < 60 { // keep the margin around now
				w.na += 150
			}
			if w.na <= w.nb {
				w.na = w.nb + 100000
			}
			wins = append(wins, w)
			s := world.Signer(me, off+w.nb, off+w.na, k+1)
			certs = append(certs, s)
			gen = append(gen, beaconing.Signer(s))
		}
		ext := self.Extender(gen)

		before := len(ps.ASEntries)
		now0 := time.Now()
		xerr := ext.Extend(ctx, ps, in, eg, peers)
		now1 := time.Now()

		ifs := []vt.M{}
		for id, f := range self.Ifs {
			ifs = append(ifs, vt.M{"id": int(id), "ia": segs.IAStr(f.Remote), "rid": int(f.RemoteID), "mtu": int(f.MTU)})
		}
		sw := []vt.M{}
		for _, w := range wins {
			sw = append(sw, vt.M{"nb": w.nb * 1000, "na": w.na * 1000})
		}
		ev := vt.M{"ev": "extend", "n": pre, "ia": segs.IAStr(self.IA), "in": int(in), "eg": int(eg),
			"peers": vt.Ints(append([]uint16{}, peers...)), "mtu": int(self.MTU), "maxexp": int(self.MaxExp),
			"ts": tsRel * 1000, "now0": int(now0.Sub(t0) / time.Millisecond), "now1": int(now1.Sub(t0)/time.Millisecond) + 1,
			"signers": sw, "ifs": ifs, "err": xerr != nil, "msg": "", "grown": len(ps.ASEntries) > before}
		if xerr != nil {
			ev["msg"] = fmt.Sprint(xerr)
			if len(ev["msg"].(string)) > 160 {
				ev["msg"] = ev["msg"].(string)[:160]
			}
			nerr++
		} else {
			nok++
		}
		entry := vt.M{"local": "", "next": "", "mtu": 0, "inmtu": 0, "in": 0, "eg": 0, "exp": 0, "peers": []vt.M{},
			"hopmac": false, "signer": 0, "verified": false, "cover": []vt.M{}}
		if xerr == nil && len(ps.ASEntries) == before+1 {
			entry = observe(ctx, ver, ps, before, self, certs, rng, false)
		}
		ev["entry"] = entry
		wr.Emit(vt.M{"ev": "reset", "case": i})
		wr.Emit(ev)
	}
	no, np := runConcurrent(ctx, wr, world, ver, *conc)
	fmt.Printf("extend calls=%d ok=%d err=%d originated=%d propagated=%d\n", *n, nok, nerr, no, np)
}

// observe collects the observations about the AS entry at index `before` of ps (the entry the AS
// `self` has just added): MAC validity by independent re-computation, the signer that signed, the
// verdict of the real segment verifier and the signature-coverage probes.
func observe(ctx context.Context, ver compat.Verifier, ps *seg.PathSegment, before int, self *segs.AS,
	certs []trust.Signer, rng *rand.Rand, light bool) vt.M {
	e := ps.ASEntries[before]
	// MAC validity by independent re-computation
	beta := ps.Info.SegmentID
	for _, p := range ps.ASEntries[:before] {
		beta ^= binary.BigEndian.Uint16(p.HopEntry.HopField.MAC[:2])
	}
	tsec := uint32(ps.Info.Timestamp.Unix())
	h := e.HopEntry.HopField
	want := segs.HopMAC(self.Key, beta, tsec, h.ExpTime, h.ConsIngress, h.ConsEgress)
	pbeta := beta ^ binary.BigEndian.Uint16(h.MAC[:2])
	ps2 := []vt.M{}
	for _, p := range e.PeerEntries {
		pw := segs.HopMAC(self.Key, pbeta, tsec, p.HopField.ExpTime, p.HopField.ConsIngress, p.HopField.ConsEgress)
		ps2 = append(ps2, vt.M{"ia": segs.IAStr(p.Peer), "rif": int(p.PeerInterface), "mtu": p.PeerMTU,
			"in": int(p.HopField.ConsIngress), "eg": int(p.HopField.ConsEgress), "exp": int(p.HopField.ExpTime),
			"macok": bytes.Equal(pw[:], p.HopField.MAC[:])})
	}
	// which signer signed
	sidx := 0
	if hdr, err := signed.ExtractUnverifiedHeader(e.Signed); err == nil {
		var kid cppb.VerificationKeyID
		if proto.Unmarshal(hdr.VerificationKeyID, &kid) == nil {
			for k, c := range certs {
				if bytes.Equal(c.SubjectKeyID, kid.SubjectKeyId) && addr.IA(kid.IsdAs) == self.IA {
					sidx = k + 1
				}
			}
		}
	}
	verr := segverifier.VerifySegment(ctx, ver, nil, ps)
	// signature coverage: altering anything earlier must make the new entry's verification fail
	bound := ver.WithIA(self.IA)
	cover := []vt.M{}
	try := func(what string, idx int, mut func(c *seg.PathSegment)) {
		c := clone(ps)
		mut(c)
		cover = append(cover, vt.M{"what": what, "idx": idx,
			"rejected": c.VerifyASEntry(ctx, bound, before) != nil})
	}
	try("none", 0, func(c *seg.PathSegment) {})
	try("info", 0, func(c *seg.PathSegment) { c.Info.Raw = flip(c.Info.Raw, rng) })
	try("own-body", before, func(c *seg.PathSegment) {
		c.ASEntries[before].Signed.HeaderAndBody = flip(c.ASEntries[before].Signed.HeaderAndBody, rng)
	})
	for j := 0; j < before && !light; j++ {
		j := j
		try("earlier-body", j, func(c *seg.PathSegment) {
			c.ASEntries[j].Signed.HeaderAndBody = flip(c.ASEntries[j].Signed.HeaderAndBody, rng)
		})
		try("earlier-signature", j, func(c *seg.PathSegment) {
			c.ASEntries[j].Signed.Signature = flip(c.ASEntries[j].Signed.Signature, rng)
		})
	}
	if before > 0 && !light {
		c := clone(ps)
		c.ASEntries = c.ASEntries[1:] // the entry under test moves down by one
		cover = append(cover, vt.M{"what": "earlier-entry-removed", "idx": 0,
			"rejected": c.VerifyASEntry(ctx, bound, before-1) != nil})
	}
	return vt.M{"local": segs.IAStr(e.Local), "next": segs.IAStr(e.Next), "mtu": e.MTU,
		"inmtu": e.HopEntry.IngressMTU, "in": int(h.ConsIngress), "eg": int(h.ConsEgress),
		"exp": int(h.ExpTime), "peers": ps2, "hopmac": bytes.Equal(want[:], h.MAC[:]), "signer": sidx,
		"verified": verr == nil, "cover": cover}
}
