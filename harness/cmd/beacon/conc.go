package main

// Concurrent mode for C23: the REAL beaconing.Originator and beaconing.Propagator Run() with a
// recording sender: as in production every interface (and, in the propagator, every beacon of an
// interface) is handled by its own goroutine, all sharing ONE DefaultExtender. Every beacon handed
// to a sender is logged as an "extend" event and judged by the same monitor as sequential calls.

import (
	"context"
	"encoding/binary"
	"hash"
	"math/rand"
	"net"
	"net/netip"
	"runtime"
	"sync"
	"time"

	"github.com/scionproto/scion/control/beacon"
	"github.com/scionproto/scion/control/beaconing"
	"github.com/scionproto/scion/control/ifstate"
	"github.com/scionproto/scion/pkg/addr"
	seg "github.com/scionproto/scion/pkg/segment"
	"github.com/scionproto/scion/private/topology"
	"github.com/scionproto/scion/private/trust"
	"github.com/scionproto/scion/private/trust/compat"

	"verifharness/internal/segs"
	"verifharness/internal/vt"
)

type sent struct {
	egress uint16
	seg    *seg.PathSegment
}

type recFactory struct {
	mu  sync.Mutex
	out []sent
}

type recSender struct {
	f      *recFactory
	egress uint16
}

func (f *recFactory) NewSender(_ context.Context, _ addr.IA, egress uint16, _ *net.UDPAddr) (beaconing.Sender, error) {
	return &recSender{f: f, egress: egress}, nil
}

func (s *recSender) Send(_ context.Context, b *seg.PathSegment) error {
	runtime.Gosched()
	s.f.mu.Lock()
	defer s.f.mu.Unlock()
	s.f.out = append(s.f.out, sent{egress: s.egress, seg: b})
	return nil
}

func (s *recSender) Close() error { return nil }

// yieldHash wraps the real MAC instance and yields the processor in the middle of Write and before
// Sum. Code that gives every Extend call its own instance is unaffected; code that shares one
// instance between concurrent calls gets its inputs interleaved with near certainty instead of once
// in a thousand runs.
type yieldHash struct{ hash.Hash }

func (y yieldHash) Write(p []byte) (int, error) {
	h := len(p) / 2
	y.Hash.Write(p[:h])
	runtime.Gosched()
	time.Sleep(20 * time.Microsecond)
	y.Hash.Write(p[h:])
	return len(p), nil
}

func (y yieldHash) Sum(b []byte) []byte {
	runtime.Gosched()
	return y.Hash.Sum(b)
}

func yielding(f func() hash.Hash) func() hash.Hash {
	return func() hash.Hash { return yieldHash{f()} }
}

type fixedProvider []beacon.Beacon

func (p fixedProvider) BeaconsToPropagate(context.Context) ([]beacon.Beacon, error) { return p, nil }

// interfacesOf builds the ifstate.Interfaces of an AS with internal addresses set.
func interfacesOf(a *segs.AS) *ifstate.Interfaces {
	m := map[uint16]ifstate.InterfaceInfo{}
	for id, i := range a.Ifs {
		m[id] = ifstate.InterfaceInfo{ID: id, IA: i.Remote, LinkType: i.Type, RemoteID: i.RemoteID, MTU: i.MTU,
			InternalAddr: netip.MustParseAddrPort("127.0.0.1:30042")}
	}
	return ifstate.NewInterfaces(m, ifstate.Config{})
}

func runConcurrent(ctx context.Context, wr *vt.Writer, world *segs.World, ver compat.Verifier, rounds int) (int, int) {
	nOrig, nProp := 0, 0
	caseNo := 1000000
	for r := 0; r < rounds; r++ {
		rng := vt.Rand(int64(700000 + r))
		runtime.GOMAXPROCS(2 + rng.Intn(15))
		// AS 1 (core) -> AS 2 over two parallel links; AS 2 has children 3, 4, 6; 5 and 9 are core
		// neighbours of 1; 7 and 8 are peers (8 without a known remote interface id)
		ases := map[int]*segs.AS{}
		for _, a := range []int{1, 2, 3, 4, 5, 6, 7, 8, 9} {
			ases[a] = mkAS(world, rng, a)
		}
		t0 := time.Now().Truncate(time.Second)
		off := int(t0.Sub(world.Base) / time.Second)
		emit := func(self *segs.AS, selfNo int, wins []window, certs []trust.Signer, s sent, in uint16,
			peers []uint16, now0, now1 time.Time) {
			ps := s.seg
			before := len(ps.ASEntries) - 1
			ifs := []vt.M{}
			for id, f := range self.Ifs {
				ifs = append(ifs, vt.M{"id": int(id), "ia": segs.IAStr(f.Remote), "rid": int(f.RemoteID), "mtu": int(f.MTU)})
			}
			sw := []vt.M{}
			for _, w := range wins {
				sw = append(sw, vt.M{"nb": w.nb * 1000, "na": w.na * 1000})
			}
			caseNo++
			wr.Emit(vt.M{"ev": "reset", "case": caseNo})
			wr.Emit(vt.M{"ev": "extend", "n": before, "ia": segs.IAStr(self.IA), "in": int(in), "eg": int(s.egress),
				"peers": vt.Ints(append([]uint16{}, peers...)), "mtu": int(self.MTU), "maxexp": int(self.MaxExp),
				"ts":   int(ps.Info.Timestamp.Unix()-t0.Unix()) * 1000,
				"now0": int(now0.Sub(t0) / time.Millisecond), "now1": int(now1.Sub(t0)/time.Millisecond) + 1,
				"signers": sw, "ifs": ifs, "err": false, "msg": "concurrent", "grown": true,
				"entry": observe(ctx, ver, ps, before, self, certs, rng, true)})
		}
		signersFor := func(a int, tsRel int) ([]window, []trust.Signer, segs.SignerGen) {
			var wins []window
			var certs []trust.Signer
			var gen segs.SignerGen
			for k := 0; k < 1+rng.Intn(2); k++ {
				w := window{tsRel - 7200, []int{tsRel + (3*3375)/10 + 70, tsRel + 64*3375/10, 1500000}[rng.Intn(3)]}
				wins = append(wins, w)
				s := world.Signer(a, off+w.nb, off+w.na, k+1)
				certs = append(certs, s)
				gen = append(gen, beaconing.Signer(s))
			}
			return wins, certs, gen
		}

		// ---------------- originator at AS 1
		core := ases[1]
		var egs []uint16
		for _, nb := range []int{2, 2, 5, 9, 3, 4, 6, 5, 9, 3, 4, 6} {
			typ, rtyp := topology.Child, topology.Parent
			if nb == 5 || nb == 9 {
				typ, rtyp = topology.Core, topology.Core
			}
			e, _ := link(rng, core, ases[nb], typ, rtyp, true)
			egs = append(egs, e)
		}
		link(rng, core, ases[7], topology.Peer, topology.Peer, true)
		link(rng, core, ases[8], topology.Peer, topology.Peer, false)
		core.MaxExp = []uint8{0, 2, 5, 63, 255}[rng.Intn(5)]
		wins, certs, gen := signersFor(1, 0)
		intfs := interfacesOf(core)
		ext := core.Extender(gen)
		ext.Intfs = intfs
		ext.MAC = yielding(ext.MAC)
		f := &recFactory{}
		o := &beaconing.Originator{Extender: ext, SenderFactory: f, IA: core.IA, AllInterfaces: intfs,
			OriginationInterfaces: func() []*ifstate.Interface {
				var l []*ifstate.Interface
				for _, e := range egs {
					l = append(l, intfs.Get(e))
				}
				return l
			}, Tick: beaconing.NewTick(time.Hour)}
		now0 := time.Now()
		o.Run(ctx)
		now1 := time.Now()
		peers := core.SortedIfs(topology.Peer)
		for _, s := range f.out {
			emit(core, 1, wins, certs, s, 0, peers, now0, now1)
			nOrig++
		}

		// ---------------- propagator at AS 2
		me := ases[2]
		var ins []uint16
		for id, i := range me.Ifs {
			if i.Remote == core.IA {
				ins = append(ins, id)
			}
		}
		var outs []uint16
		for _, nb := range []int{3, 4, 6, 4, 3, 6} {
			e, _ := link(rng, me, ases[nb], topology.Child, topology.Parent, true)
			outs = append(outs, e)
		}
		link(rng, me, ases[7], topology.Peer, topology.Peer, true)
		link(rng, me, ases[8], topology.Peer, topology.Peer, false)
		me.MaxExp = []uint8{0, 2, 5, 63, 255}[rng.Intn(5)]
		tsRel := -[]int{0, 30, 600}[rng.Intn(3)]
		ts := t0.Add(time.Duration(tsRel) * time.Second)
		// beacons to propagate: [1] and [5, 1] prefixes, built independently of the code under test
		var prov fixedProvider
		inOf := map[*seg.PathSegment]uint16{}
		for k := 0; k < 8+rng.Intn(5); k++ {
			ps, err := seg.CreateSegment(ts, uint16(rng.Intn(1<<16)))
			if err != nil {
				vt.Fatal("create: %v", err)
			}
			in := ins[rng.Intn(len(ins))]
			egCore := me.Ifs[in].RemoteID
			chain := []int{1}
			if rng.Intn(2) == 0 {
				chain = []int{5, 1}
			}
			beta := ps.Info.SegmentID
			for ci, a := range chain {
				var cin, ceg uint16
				next := core.IA
				if ci > 0 || len(chain) == 1 {
					ceg = egCore
					next = me.IA
				} else {
					ceg = uint16(30 + rng.Intn(20))
				}
				if ci > 0 {
					cin = uint16(60 + rng.Intn(20))
				}
				mac := segs.HopMAC(ases[a].Key, beta, uint32(ts.Unix()), 63, cin, ceg)
				ent := seg.ASEntry{Local: ases[a].IA, Next: next, MTU: 1400,
					HopEntry: seg.HopEntry{HopField: seg.HopField{ExpTime: 63, ConsIngress: cin, ConsEgress: ceg, MAC: mac}}}
				if ci > 0 {
					ent.HopEntry.IngressMTU = 1350
				}
				if err := ps.AddASEntry(ctx, ent, world.Signer(a, -100000, 300000, 0)); err != nil {
					vt.Fatal("prefix: %v", err)
				}
				beta ^= binary.BigEndian.Uint16(mac[:2])
			}
			prov = append(prov, beacon.Beacon{Segment: ps, InIfID: in})
			inOf[ps] = in
		}
		wins, certs, gen = signersFor(2, tsRel)
		mintfs := interfacesOf(me)
		mext := me.Extender(gen)
		mext.Intfs = mintfs
		mext.MAC = yielding(mext.MAC)
		pf := &recFactory{}
		p := &beaconing.Propagator{Extender: mext, SenderFactory: pf, Provider: prov, IA: me.IA, AllInterfaces: mintfs,
			PropagationInterfaces: func() []*ifstate.Interface {
				var l []*ifstate.Interface
				for _, e := range outs {
					l = append(l, mintfs.Get(e))
				}
				return l
			}, Tick: beaconing.NewTick(time.Hour)}
		now0 = time.Now()
		p.Run(ctx)
		now1 = time.Now()
		mpeers := me.SortedIfs(topology.Peer)
		for _, s := range pf.out {
			in := s.seg.ASEntries[len(s.seg.ASEntries)-1].HopEntry.HopField.ConsIngress
			// the ingress the beacon was received on: identified through the upstream egress interface
			up := s.seg.ASEntries[len(s.seg.ASEntries)-2].HopEntry.HopField.ConsEgress
			for _, cand := range ins {
				if me.Ifs[cand].RemoteID == up {
					in = cand
				}
			}
			emit(me, 2, wins, certs, s, in, mpeers, now0, now1)
			nProp++
		}
	}
	runtime.GOMAXPROCS(runtime.NumCPU())
	return nOrig, nProp
}

var _ = rand.Int
