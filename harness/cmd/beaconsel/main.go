// Driver for C26: calls the real beacon.DefaultSelectionAlgorithm().SelectBeacons on candidate lists
// (complete enumeration of small lists + seeded larger ones, ordered by length) and records which
// candidates came back, one ndjson record per case, for BeaconSelTrace.tla. It never judges.
//
// A candidate is described abstractly by its links (one small integer per AS entry); link l stands
// for (ISD-AS, egress interface) = (ias[l % 3], 1 + l / 3).
package main

import (
	"context"
	"flag"
	"fmt"
	"sort"
	"strings"

	"github.com/scionproto/scion/control/beacon"
	"github.com/scionproto/scion/pkg/addr"
	seg "github.com/scionproto/scion/pkg/segment"

	"verifharness/internal/vt"
)

var ias = []addr.IA{addr.MustParseIA("1-ff00:0:110"), addr.MustParseIA("1-ff00:0:111"), addr.MustParseIA("2-ff00:0:210")}

func mkBeacon(links []int, idx int) beacon.Beacon {
	ps := &seg.PathSegment{}
	for _, l := range links {
		e := seg.ASEntry{Local: ias[l%3]}
		e.HopEntry.HopField.ConsEgress = uint16(1 + l/3)
		ps.ASEntries = append(ps.ASEntries, e)
	}
	return beacon.Beacon{Segment: ps, InIfID: uint16(idx)}
}

func one(w *vt.Writer, cands [][]int, k int) {
	bs := make([]beacon.Beacon, len(cands))
	for i, c := range cands {
		bs[i] = mkBeacon(c, i+1)
	}
	res := []int{}
	panicked := false
	func() {
		defer func() {
			if recover() != nil {
				panicked = true
			}
		}()
		out := beacon.DefaultSelectionAlgorithm().SelectBeacons(context.Background(), bs, k)
		for _, b := range out {
			idx := 0 // a beacon that is none of the candidates
			for i := range bs {
				if b.Segment == bs[i].Segment && b.InIfID == bs[i].InIfID {
					idx = i + 1
				}
			}
			res = append(res, idx)
		}
	}()
	w.Emit(vt.M{"ev": "sel", "c": cands, "k": k, "panic": panicked, "res": res})
}

func main() {
	out := flag.String("out", "beaconsel.ndjson", "output")
	complete := flag.String("complete", "3:2:3,4:2:2", "complete enumerations n:len:links (candidates, links per candidate, link values)")
	nrand := flag.Int("rand", 1500, "seeded larger cases")
	flag.Parse()
	w := vt.NewWriter(*out)

	for _, spec := range strings.Split(*complete, ",") {
		var maxN, maxLen, nlinks int
		if _, err := fmt.Sscanf(spec, "%d:%d:%d", &maxN, &maxLen, &nlinks); err != nil {
			vt.Fatal("bad -complete %q", spec)
		}
		// all beacons over the alphabet, ordered by length
		var shapes [][]int
		var gen func(prefix []int, n int)
		gen = func(prefix []int, n int) {
			if n == 0 {
				shapes = append(shapes, append([]int{}, prefix...))
				return
			}
			for l := 0; l < nlinks; l++ {
				gen(append(prefix, l), n-1)
			}
		}
		for n := 1; n <= maxLen; n++ {
			gen(nil, n)
		}
		// all lists of up to maxN beacons in non-decreasing length order, every k in 1..n+1
		var lists func(prefix [][]int)
		lists = func(prefix [][]int) {
			if len(prefix) > 0 {
				for k := 1; k <= len(prefix)+1; k++ {
					one(w, prefix, k)
				}
			}
			if len(prefix) == maxN {
				return
			}
			for _, s := range shapes {
				if len(prefix) > 0 && len(prefix[len(prefix)-1]) > len(s) {
					continue
				}
				lists(append(prefix, s))
			}
		}
		lists(nil)
	}
	ncomplete := w.N

	rng := vt.Rand(26)
	for i := 0; i < *nrand; i++ {
		n := 2 + rng.Intn(8)
		alpha := 2 + rng.Intn(7)
		cands := make([][]int, n)
		for j := range cands {
			l := 1 + rng.Intn(5)
			cands[j] = make([]int, l)
			for x := range cands[j] {
				cands[j][x] = rng.Intn(alpha)
			}
		}
		sort.SliceStable(cands, func(a, b int) bool { return len(cands[a]) < len(cands[b]) })
		k := 1 + rng.Intn(n+1)
		if i%5 == 0 {
			k = 1 + rng.Intn(2)
		}
		one(w, cands, k)
	}
	w.Close()
	fmt.Printf("cases=%d complete=%d random=%d\n", w.N, ncomplete, *nrand)
}
