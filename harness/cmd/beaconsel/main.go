// Driver for C26: calls the real beacon.DefaultSelectionAlgorithm().SelectBeacons on candidate lists
// (complete enumeration of small lists + seeded larger ones, ordered by length) and records which
// candidates came back, one ndjson record per case, for BeaconSelTrace.tla. It never judges.
//
// A candidate is described abstractly by its links (one small integer per AS entry); link l stands
// for (ISD-AS, egress interface) = (ias[l % 3], 1 + l / 3).
package main

import (
	"context"
	"flag"
	"fmt"
	"math/rand"
	"sort"
	"strings"

	"github.com/scionproto/scion/control/beacon"
	"github.com/scionproto/scion/pkg/addr"
	seg "github.com/scionproto/scion/pkg/segment"

	"verifharness/internal/vt"
)

var ias = []addr.IA{addr.MustParseIA("1-ff00:0:110"), addr.MustParseIA("1-ff00:0:111"), addr.MustParseIA("2-ff00:0:210")}

func mkBeacon(links []int, idx int) beacon.Beacon {
	ps := &seg.PathSegment{}
	for _, l := range links {
		e := seg.ASEntry{Local: ias[l%3]}
		e.HopEntry.HopField.ConsEgress = uint16(1 + l/3)
		ps.ASEntries = append(ps.ASEntries, e)
	}
	return beacon.Beacon{Segment: ps, InIfID: uint16(idx)}
}

func one(w *vt.Writer, cands [][]int, k int) {
	bs := make([]beacon.Beacon, len(cands))
	for i, c := range cands {
		bs[i] = mkBeacon(c, i+1)
	}
	res := []int{}
	panicked := false
	func() {
		defer func() {
			if recover() != nil {
				panicked = true
			}
		}()
		out := beacon.DefaultSelectionAlgorithm().SelectBeacons(context.Background(), bs, k)
		for _, b := range out {
			idx := 0 // a beacon that is none of the candidates
			for i := range bs {
				if b.Segment == bs[i].Segment && b.InIfID == bs[i].InIfID {
					idx = i + 1
				}
			}
			res = append(res, idx)
		}
	}()
	w.Emit(vt.M{"ev": "sel", "via": "direct", "c": cands, "k": k, "panic": panicked, "res": res})
}

// ---------------------------------------------------------------------------------- store wrappers

// fakeDB serves one candidate list per (usage, source); every beacon is tagged (InIfID) with
// 100 x list number + position so that the driver can tell which list a returned beacon came from.
type fakeDB struct {
	lists map[beacon.Usage]map[addr.IA][]beacon.Beacon
	srcs  []addr.IA
}

func (d *fakeDB) CandidateBeacons(_ context.Context, setSize int, usage beacon.Usage, src addr.IA) ([]beacon.Beacon, error) {
	l := d.lists[usage][src]
	if setSize < len(l) {
		l = l[:setSize]
	}
	return append([]beacon.Beacon{}, l...), nil
}
func (d *fakeDB) BeaconSources(context.Context) ([]addr.IA, error) { return d.srcs, nil }
func (d *fakeDB) InsertBeacon(context.Context, beacon.Beacon, beacon.Usage) (beacon.InsertStats, error) {
	return beacon.InsertStats{}, nil
}

type listSpec struct {
	cands [][]int
	no    int
}

func randList(rng *rand.Rand) [][]int {
	n := 1 + rng.Intn(7)
	alpha := 2 + rng.Intn(5)
	cands := make([][]int, n)
	for j := range cands {
		cands[j] = make([]int, 1+rng.Intn(4))
		for x := range cands[j] {
			cands[j][x] = rng.Intn(alpha)
		}
	}
	sort.SliceStable(cands, func(a, b int) bool { return len(cands[a]) < len(cands[b]) })
	return cands
}

// stores exercises the wrappers that call the selection with a policy's BestSetSize: every policy gets
// its own BestSetSize and every (usage, source) its own candidate list, so a mixed-up policy, usage or
// size shows up as a result that is not the specified selection of the right list with the right k.
func stores(w *vt.Writer, rng *rand.Rand, n int) {
	ctx := context.Background()
	for it := 0; it < n; it++ {
		no := 0
		db := &fakeDB{lists: map[beacon.Usage]map[addr.IA][]beacon.Beacon{}}
		specs := map[beacon.Usage]map[addr.IA]listSpec{}
		add := func(u beacon.Usage, src addr.IA) {
			no++
			c := randList(rng)
			bs := make([]beacon.Beacon, len(c))
			for i := range c {
				bs[i] = mkBeacon(c[i], no*100+i+1)
			}
			if db.lists[u] == nil {
				db.lists[u], specs[u] = map[addr.IA][]beacon.Beacon{}, map[addr.IA]listSpec{}
			}
			db.lists[u][src] = bs
			specs[u][src] = listSpec{c, no}
		}
		core := it%2 == 1
		ks := rng.Perm(7) // distinct BestSetSize values 1..7
		k := func(i int) int { return ks[i] + 1 }
		emit := func(via string, out []beacon.Beacon, panicked bool, u beacon.Usage, kk int, srcs []addr.IA) {
			for _, src := range srcs {
				ls := specs[u][src]
				res := []int{}
				for _, b := range out {
					ln, idx := int(b.InIfID)/100, int(b.InIfID)%100
					if ln == ls.no {
						res = append(res, idx)
					} else if len(srcs) == 1 {
						res = append(res, 0) // a beacon of another list
					}
				}
				w.Emit(vt.M{"ev": "sel", "via": via, "c": ls.cands, "k": kk, "panic": panicked, "res": res})
			}
		}
		call := func(f func() []beacon.Beacon) (out []beacon.Beacon, panicked bool) {
			defer func() {
				if recover() != nil {
					panicked = true
				}
			}()
			return f(), false
		}
		if !core {
			for _, u := range []beacon.Usage{beacon.UsageProp, beacon.UsageUpReg, beacon.UsageDownReg} {
				add(u, 0)
			}
			st, err := beacon.NewBeaconStore(beacon.Policies{
				Prop:    beacon.Policy{BestSetSize: k(0), Type: beacon.PropPolicy},
				UpReg:   beacon.Policy{BestSetSize: k(1), Type: beacon.UpRegPolicy},
				DownReg: beacon.Policy{BestSetSize: k(2), Type: beacon.DownRegPolicy}}, db)
			if err != nil {
				vt.Fatal("NewBeaconStore: %v", err)
			}
			out, p := call(func() []beacon.Beacon { b, _ := st.BeaconsToPropagate(ctx); return b })
			emit("Store.BeaconsToPropagate", out, p, beacon.UsageProp, k(0), []addr.IA{0})
			out, p = call(func() []beacon.Beacon { b, _, _ := st.SegmentsToRegister(ctx, seg.TypeUp); return b })
			emit("Store.SegmentsToRegister(up)", out, p, beacon.UsageUpReg, k(1), []addr.IA{0})
			out, p = call(func() []beacon.Beacon { b, _, _ := st.SegmentsToRegister(ctx, seg.TypeDown); return b })
			emit("Store.SegmentsToRegister(down)", out, p, beacon.UsageDownReg, k(2), []addr.IA{0})
		} else {
			db.srcs = ias[:1+rng.Intn(3)]
			for _, u := range []beacon.Usage{beacon.UsageProp, beacon.UsageCoreReg} {
				for _, src := range db.srcs {
					add(u, src)
				}
			}
			st, err := beacon.NewCoreBeaconStore(beacon.CorePolicies{
				Prop:    beacon.Policy{BestSetSize: k(0), Type: beacon.PropPolicy},
				CoreReg: beacon.Policy{BestSetSize: k(1), Type: beacon.CoreRegPolicy}}, db)
			if err != nil {
				vt.Fatal("NewCoreBeaconStore: %v", err)
			}
			out, p := call(func() []beacon.Beacon { b, _ := st.BeaconsToPropagate(ctx); return b })
			emit("CoreStore.BeaconsToPropagate", out, p, beacon.UsageProp, k(0), db.srcs)
			out, p = call(func() []beacon.Beacon { b, _, _ := st.SegmentsToRegister(ctx, seg.TypeCore); return b })
			emit("CoreStore.SegmentsToRegister(core)", out, p, beacon.UsageCoreReg, k(1), db.srcs)
		}
	}
}

func main() {
	out := flag.String("out", "beaconsel.ndjson", "output")
	complete := flag.String("complete", "3:2:3,4:2:2", "complete enumerations n:len:links (candidates, links per candidate, link values)")
	nrand := flag.Int("rand", 1500, "seeded larger cases")
	nstores := flag.Int("stores", 300, "seeded Store / CoreStore set-ups (each: every wrapper once)")
	flag.Parse()
	w := vt.NewWriter(*out)

	for _, spec := range strings.Split(*complete, ",") {
		var maxN, maxLen, nlinks int
		if _, err := fmt.Sscanf(spec, "%d:%d:%d", &maxN, &maxLen, &nlinks); err != nil {
			vt.Fatal("bad -complete %q", spec)
		}
		// all beacons over the alphabet, ordered by length
		var shapes [][]int
		var gen func(prefix []int, n int)
		gen = func(prefix []int, n int) {
			if n == 0 {
				shapes = append(shapes, append([]int{}, prefix...))
				return
			}
			for l := 0; l < nlinks; l++ {
				gen(append(prefix, l), n-1)
			}
		}
		for n := 1; n <= maxLen; n++ {
			gen(nil, n)
		}
		// all lists of up to maxN beacons in non-decreasing length order, every k in 1..n+1
		var lists func(prefix [][]int)
		lists = func(prefix [][]int) {
			if len(prefix) > 0 {
				for k := 1; k <= len(prefix)+1; k++ {
					one(w, prefix, k)
				}
			}
			if len(prefix) == maxN {
				return
			}
			for _, s := range shapes {
				if len(prefix) > 0 && len(prefix[len(prefix)-1]) > len(s) {
					continue
				}
				lists(append(prefix, s))
			}
		}
		lists(nil)
	}
	ncomplete := w.N

	rng := vt.Rand(26)
	for i := 0; i < *nrand; i++ {
		n := 2 + rng.Intn(8)
		alpha := 2 + rng.Intn(7)
		cands := make([][]int, n)
		for j := range cands {
			l := 1 + rng.Intn(5)
			cands[j] = make([]int, l)
			for x := range cands[j] {
				cands[j][x] = rng.Intn(alpha)
			}
		}
		sort.SliceStable(cands, func(a, b int) bool { return len(cands[a]) < len(cands[b]) })
		k := 1 + rng.Intn(n+1)
		if i%5 == 0 {
			k = 1 + rng.Intn(2)
		}
		one(w, cands, k)
	}
	stores(w, vt.Rand(27), *nstores)
	w.Close()
	fmt.Printf("cases=%d complete=%d random=%d\n", w.N, ncomplete, *nrand)
}
