// Driver for C48: runs seeded concurrent histories on the real private/ringbuf.Ring, records the
// linearization through the verif hook (under the ring's mutex) merged with what each caller
// observed, and writes reset-delimited ndjson traces for RingBufTrace.tla.
package main

import (
	"flag"
	"fmt"
	"math/rand"
	"runtime"
	"sync"
	"sync/atomic"
	"time"
	"unsafe"

	"github.com/scionproto/scion/private/ringbuf"

	"verifharness/internal/vt"
)

type hookEv struct {
	op       string
	caller   int
	length   int
	block    bool
	ret      int
	r, w     int
	closed   bool
	explicit vt.M // quiescent / stuck markers inserted by the driver
}

type callRec struct {
	op      string
	length  int
	block   bool
	ret     int
	blocked bool
	vals    []int
}

type run struct {
	ring    *ringbuf.Ring
	mu      sync.Mutex // protects log and status (taken inside the ring mutex by the hook)
	log     []hookEv
	bufs    map[unsafe.Pointer]int
	status  []int32 // per caller: 0 running, 1 waiting (asleep on cond), 2 done
	lastR   int
	lastW   int
	closed  bool
	nevents int64
}

var runs sync.Map // *ringbuf.Ring -> *run

func hook(r *ringbuf.Ring, ev ringbuf.VerifEvent) {
	v, ok := runs.Load(r)
	if !ok {
		return
	}
	ru := v.(*run)
	ru.mu.Lock()
	defer ru.mu.Unlock()
	c := -1
	if ev.Op != "close" {
		c = ru.bufs[unsafe.Pointer(unsafe.SliceData(ev.Entries))]
	}
	ru.log = append(ru.log, hookEv{op: ev.Op, caller: c, length: len(ev.Entries), block: ev.Block,
		ret: ev.Ret, r: ev.Readable, w: ev.Writable, closed: ev.Closed})
	ru.lastR, ru.lastW, ru.closed = ev.Readable, ev.Writable, ev.Closed
	if c >= 0 {
		if ev.Op == "waitw" || ev.Op == "waitr" {
			atomic.StoreInt32(&ru.status[c], 1)
		} else {
			atomic.StoreInt32(&ru.status[c], 0)
		}
	}
	atomic.AddInt64(&ru.nevents, 1)
}

type plan struct {
	op     string
	length int
	block  bool
}

func oneTrace(w *vt.Writer, rng *rand.Rand, id int) {
	capacity := 1 + rng.Intn(8)
	if rng.Intn(4) == 0 {
		capacity = 1 + rng.Intn(16)
	}
	ncallers := 2 + rng.Intn(5)
	maxBatch := 1 + rng.Intn(capacity+3)
	ncalls := 2 + rng.Intn(10)
	closer := rng.Intn(3) == 0 // one caller closes somewhere in the middle
	ru := &run{bufs: map[unsafe.Pointer]int{}, status: make([]int32, ncallers)}
	ru.ring = ringbuf.New(capacity, nil, fmt.Sprintf("verif%d", id))
	runs.Store(ru.ring, ru)
	defer runs.Delete(ru.ring)

	plans := make([][]plan, ncallers)
	bufsl := make([]ringbuf.EntryList, ncallers)
	recs := make([][]callRec, ncallers)
	// roles: mostly dedicated readers / writers so that blocking calls make progress
	for c := 0; c < ncallers; c++ {
		bufsl[c] = make(ringbuf.EntryList, maxBatch+1)
		ru.bufs[unsafe.Pointer(unsafe.SliceData(bufsl[c]))] = c
		role := rng.Intn(3) // 0 writer, 1 reader, 2 mixed
		if c == 0 {
			role = 0
		} else if c == 1 {
			role = 1
		}
		for k := 0; k < ncalls; k++ {
			p := plan{length: rng.Intn(maxBatch + 1), block: rng.Intn(3) != 0}
			switch role {
			case 0:
				p.op = "write"
			case 1:
				p.op = "read"
			default:
				p.op = []string{"write", "read"}[rng.Intn(2)]
			}
			plans[c] = append(plans[c], p)
		}
		if closer && c == ncallers-1 {
			plans[c][rng.Intn(len(plans[c]))] = plan{op: "close"}
		}
	}
	// directed families (the model's NoLostWakeup counterexamples for Signal-instead-of-Broadcast
	// have this shape): several sleepers on one condition variable, released by ONE batch call.
	switch id % 4 {
	case 1: // k blocking single-entry readers, one writer that writes one batch of >= k entries
		for c := 0; c < ncallers; c++ {
			plans[c] = nil
			if c == 0 {
				for k := 0; k < 1+rng.Intn(3); k++ {
					plans[c] = append(plans[c], plan{op: "write", length: maxBatch, block: true})
				}
			} else {
				for k := 0; k < 1+rng.Intn(2); k++ {
					plans[c] = append(plans[c], plan{op: "read", length: 1, block: true})
				}
			}
		}
	case 2: // ring filled, k blocking single-entry writers, one reader draining in one batch
		for c := 0; c < ncallers; c++ {
			plans[c] = nil
			if c == 1 {
				for k := 0; k < 1+rng.Intn(3); k++ {
					plans[c] = append(plans[c], plan{op: "read", length: maxBatch, block: true})
				}
			} else {
				for k := 0; k < 1+rng.Intn(3); k++ {
					plans[c] = append(plans[c], plan{op: "write", length: 1, block: true})
				}
			}
		}
	}
	yield := rng.Intn(3)
	var wg sync.WaitGroup
	for c := 0; c < ncallers; c++ {
		wg.Add(1)
		go func(c int, seed int64) {
			defer wg.Done()
			lr := rand.New(rand.NewSource(seed))
			next := 0
			for _, p := range plans[c] {
				if yield > 0 && lr.Intn(yield+1) == 0 {
					runtime.Gosched()
				}
				buf := bufsl[c][:p.length]
				switch p.op {
				case "write":
					vals := make([]int, p.length)
					for i := range buf {
						next++
						v := (c+1)*100000 + next
						buf[i] = v
						vals[i] = v
					}
					n, b := ru.ring.Write(buf, p.block)
					recs[c] = append(recs[c], callRec{op: "write", length: p.length, block: p.block, ret: n, blocked: b, vals: vals})
				case "read":
					for i := range buf {
						buf[i] = nil
					}
					n, b := ru.ring.Read(buf, p.block)
					vals := []int{}
					for i := 0; i < n && i < len(buf); i++ {
						if v, ok := buf[i].(int); ok {
							vals = append(vals, v)
						} else {
							vals = append(vals, -7) // nil or foreign entry handed out
						}
					}
					recs[c] = append(recs[c], callRec{op: "read", length: p.length, block: p.block, ret: n, blocked: b, vals: vals})
				case "close":
					ru.ring.Close()
				}
			}
			atomic.StoreInt32(&ru.status[c], 2)
		}(c, rng.Int63())
	}
	finished := make(chan struct{})
	go func() { wg.Wait(); close(finished) }()

	// Quiescence detection without timing assumptions for the verdict: when every caller is done
	// or asleep, and the implementation's own counters say no sleeper is runnable, the system
	// is quiescent. If a sleeper *is* runnable by those counters we give it up to 5 s to move.
	// (status is only changed by the hook under ru.mu, or to "done" by the caller itself)
	quiesce := func() (blocked []int, all bool) {
		for c := range ru.status {
			switch atomic.LoadInt32(&ru.status[c]) {
			case 0:
				return nil, false
			case 1:
				blocked = append(blocked, c)
			}
		}
		return blocked, true
	}
	closedByDriver := false
	deadline := time.Now().Add(5 * time.Second)
	lastN := int64(-1)
	for {
		select {
		case <-finished:
			goto done
		default:
		}
		n := atomic.LoadInt64(&ru.nevents)
		if n != lastN {
			lastN = n
			deadline = time.Now().Add(5 * time.Second)
		}
		ru.mu.Lock() // one critical section: status, counters and the log are consistent
		blocked, all := quiesce()
		if all && len(blocked) > 0 {
			// are any of the sleepers runnable according to the implementation's counters?
			runnable := false
			for _, c := range blocked {
				// find the kind of wait
				kind := ""
				for i := len(ru.log) - 1; i >= 0; i-- {
					if ru.log[i].caller == c {
						kind = ru.log[i].op
						break
					}
				}
				if ru.closed || (kind == "waitw" && ru.lastW > 0) || (kind == "waitr" && ru.lastR > 0) {
					runnable = true
				}
			}
			if !runnable || time.Now().After(deadline) {
				if closedByDriver {
					ru.log = append(ru.log, hookEv{explicit: vt.M{"ev": "stuck", "blocked": vt.Ints(blocked)}})
					ru.mu.Unlock()
					goto done // goroutines leak; the trace records it
				}
				ru.log = append(ru.log, hookEv{explicit: vt.M{"ev": "quiescent", "blocked": vt.Ints(blocked)}})
				ru.mu.Unlock()
				closedByDriver = true
				ru.ring.Close() // releases the sleepers; their returns are validated too
				deadline = time.Now().Add(5 * time.Second)
				continue
			}
		}
		ru.mu.Unlock()
		time.Sleep(20 * time.Microsecond)
	}
done:
	// merge: k-th return event of caller c <-> k-th call record of caller c
	ru.mu.Lock()
	defer ru.mu.Unlock()
	w.Emit(vt.M{"ev": "reset", "cap": capacity, "id": id, "callers": ncallers})
	idx := make([]int, ncallers)
	for _, e := range ru.log {
		if e.explicit != nil {
			w.Emit(e.explicit)
			continue
		}
		switch e.op {
		case "close":
			w.Emit(vt.M{"ev": "close"})
		case "waitw", "waitr":
			w.Emit(vt.M{"ev": e.op, "c": e.caller, "len": e.length})
		default:
			c := e.caller
			if c < 0 || idx[c] >= len(recs[c]) {
				// the call has not returned to its caller (leaked goroutine after "stuck")
				w.Emit(vt.M{"ev": e.op, "c": c, "len": e.length, "block": e.block, "ret": e.ret, "hret": e.ret,
					"vals": []int{}, "st": vt.M{"r": e.r, "w": e.w, "closed": e.closed}, "unreturned": true})
				continue
			}
			rec := recs[c][idx[c]]
			idx[c]++
			w.Emit(vt.M{"ev": e.op, "c": c, "len": rec.length, "block": rec.block, "ret": rec.ret, "hret": e.ret,
				"blocked": rec.blocked, "vals": rec.vals, "st": vt.M{"r": e.r, "w": e.w, "closed": e.closed}})
		}
	}
}

func main() {
	out := flag.String("out", "trace.ndjson", "output trace")
	n := flag.Int("n", 200, "number of traces")
	flag.Parse()
	ringbuf.VerifTracer = hook
	w := vt.NewWriter(*out)
	rng := vt.Rand(48)
	procs := []int{1, 2, 4, 16}
	for i := 0; i < *n; i++ {
		runtime.GOMAXPROCS(procs[i%len(procs)])
		oneTrace(w, rng, i)
	}
	w.Close()
	fmt.Printf("traces=%d events=%d\n", *n, w.N)
}
