// Driver for C47: concretises the TLC-generated scenarios (sequence expressions as ASTs, ACLs,
// policies, path sets) against the real private/path/pathpol code and logs what the real code kept.
// It never judges: SeqPolicyTrace.tla recomputes the language membership and compares.
//
// Input  (-in):  ndjson  {"ev":"reset","fam":..,"paths":[[hop..]..]} followed by
//
//	{"ev":"seq","ast":{..}} | {"ev":"acl","acl":[..]} | {"ev":"pol","acl":[..],"seq":{..},"opts":[..]}
//
// Output (-out): the same records + "expr"/"text" (what was handed to the real parser), "err",
//
//	"inp" (the input list as indices into the path set) and "kept" (positions of the returned
//	path objects in the input list, in output order; 0 = an object that was not in the input).
package main

import (
	"bufio"
	"encoding/json"
	"flag"
	"fmt"
	"math/rand"
	"net"
	"os"

	"github.com/scionproto/scion/pkg/addr"
	"github.com/scionproto/scion/pkg/segment/iface"
	"github.com/scionproto/scion/pkg/snet"
	"github.com/scionproto/scion/private/path/pathpol"

	"verifharness/internal/vt"
)

type hop struct {
	ISD int   `json:"isd"`
	AS  []int `json:"as"`
	In  int   `json:"in"`
	Out int   `json:"out"`
}

type pred struct {
	ISD  int    `json:"isd"`
	AS   []int  `json:"as"`
	Sp   string `json:"sp"`
	Form int    `json:"form"`
	I1   int    `json:"i1"`
	I2   int    `json:"i2"`
}

type ast struct {
	T string `json:"t"`
	P *pred  `json:"p,omitempty"`
	A *ast   `json:"a,omitempty"`
	B *ast   `json:"b,omitempty"`
}

type aclEntry struct {
	Allow bool `json:"allow"`
	P     pred `json:"p"`
}

type opt struct {
	W   int        `json:"w"`
	ACL []aclEntry `json:"acl"`
	Seq *ast       `json:"seq"`
}

type iaSpec struct {
	ISD int   `json:"isd"`
	AS  []int `json:"as"`
	Rej int   `json:"rej"`
}

type polDef struct {
	ACL    []aclEntry `json:"acl"`
	Seq    *ast       `json:"seq"`
	Opts   []opt      `json:"opts"`
	Local  []iaSpec   `json:"local"`
	Remote []iaSpec   `json:"remote"`
	Ext    []int      `json:"ext"`
}

type rec struct {
	Top   *polDef         `json:"top,omitempty"`
	Pool  []polDef        `json:"pool,omitempty"`
	Ev    string          `json:"ev"`
	Fam   string          `json:"fam,omitempty"`
	Paths [][]hop         `json:"paths,omitempty"`
	AST   *ast            `json:"ast,omitempty"`
	ACL   json.RawMessage `json:"acl,omitempty"`
	Seq   *ast            `json:"seq,omitempty"`
	Opts  []opt           `json:"opts,omitempty"`
}

// fakePath is an snet.Path carrying only the metadata the policy code looks at.
type fakePath struct {
	pos  int // position in the input list (1-based)
	meta *snet.PathMetadata
	src  addr.IA
	dst  addr.IA
}

func (p *fakePath) UnderlayNextHop() *net.UDPAddr { return nil }
func (p *fakePath) Dataplane() snet.DataplanePath { return nil }
func (p *fakePath) Source() addr.IA               { return p.src }
func (p *fakePath) Destination() addr.IA          { return p.dst }
func (p *fakePath) Metadata() *snet.PathMetadata  { return p.meta }
func (p *fakePath) String() string                { return fmt.Sprintf("path#%d", p.pos) }

func asVal(g []int) uint64 { return uint64(g[0])<<32 | uint64(g[1])<<16 | uint64(g[2]) }

func mkIA(isd int, as []int) addr.IA {
	ia, err := addr.IAFrom(addr.ISD(isd), addr.AS(asVal(as)))
	if err != nil {
		vt.Fatal("bad IA in scenario: %v", err)
	}
	return ia
}

func mkPath(hops []hop, pos int) *fakePath {
	p := &fakePath{pos: pos, meta: &snet.PathMetadata{}}
	if len(hops) == 0 {
		return p
	}
	n := len(hops)
	ifs := make([]snet.PathInterface, 0, 2*(n-1))
	for i, h := range hops {
		ia := mkIA(h.ISD, h.AS)
		if i > 0 {
			ifs = append(ifs, snet.PathInterface{IA: ia, ID: iface.ID(h.In)})
		}
		if i < n-1 {
			ifs = append(ifs, snet.PathInterface{IA: ia, ID: iface.ID(h.Out)})
		}
	}
	p.meta.Interfaces = ifs
	p.src = ifs[0].IA
	p.dst = ifs[len(ifs)-1].IA
	return p
}

// asText renders the AS of a predicate in the requested spelling.
func asText(g []int, sp string) string {
	if g[0] == 0 && g[1] == 0 && g[2] == 0 {
		return "0"
	}
	switch sp {
	case "dec":
		return fmt.Sprintf("%d", asVal(g))
	case "hexl":
		return fmt.Sprintf("%x:%x:%x", g[0], g[1], g[2])
	case "hexu":
		return fmt.Sprintf("%X:%X:%X", g[0], g[1], g[2])
	case "hexm":
		s := []byte(fmt.Sprintf("%x:%x:%x", g[0], g[1], g[2]))
		up := true
		for i, c := range s {
			if c >= 'a' && c <= 'f' {
				if up {
					s[i] = c - 'a' + 'A'
				}
				up = !up
			}
		}
		return string(s)
	}
	vt.Fatal("unknown spelling %q", sp)
	return ""
}

func predText(p *pred) string {
	switch p.Form {
	case 0:
		return fmt.Sprintf("%d", p.ISD)
	case 1:
		return fmt.Sprintf("%d-%s", p.ISD, asText(p.AS, p.Sp))
	case 2:
		return fmt.Sprintf("%d-%s#%d", p.ISD, asText(p.AS, p.Sp), p.I1)
	default:
		return fmt.Sprintf("%d-%s#%d,%d", p.ISD, asText(p.AS, p.Sp), p.I1, p.I2)
	}
}

// render prints the AST fully parenthesised (binary nodes always in parentheses), so that the result
// does not depend on the relative priority of '|' and juxtaposition.  The seeded generator only
// varies what the grammar treats as insignificant: blanks and redundant parentheses.
func render(a *ast, r *rand.Rand) string {
	sp := func() string {
		if r.Intn(4) == 0 {
			return "  "
		}
		return " "
	}
	switch a.T {
	case "hop":
		s := predText(a.P)
		if r.Intn(6) == 0 {
			return "(" + s + ")"
		}
		return s
	case "cat":
		return "(" + render(a.A, r) + sp() + render(a.B, r) + ")"
	case "or":
		bar := "|"
		if r.Intn(2) == 0 {
			bar = " | "
		}
		return "(" + render(a.A, r) + bar + render(a.B, r) + ")"
	case "opt", "plus", "star":
		op := map[string]string{"opt": "?", "plus": "+", "star": "*"}[a.T]
		in := render(a.A, r)
		if a.A.T == "opt" || a.A.T == "plus" || a.A.T == "star" {
			in = "(" + in + ")"
		}
		if r.Intn(5) == 0 {
			return in + " " + op
		}
		return in + op
	}
	vt.Fatal("unknown AST node %q", a.T)
	return ""
}

func aclText(es []aclEntry) []string {
	out := make([]string, len(es))
	for i, e := range es {
		sym := "-"
		if e.Allow {
			sym = "+"
		}
		p := e.P
		if p.Form == 0 && p.ISD == 0 && i == len(es)-1 && i%2 == 1 {
			out[i] = sym // bare catch-all
		} else {
			out[i] = sym + " " + predText(&p)
		}
	}
	return out
}

func buildACL(es []aclEntry) (*pathpol.ACL, []string, error) {
	if len(es) == 0 {
		return nil, []string{}, nil
	}
	txt := aclText(es)
	entries := make([]*pathpol.ACLEntry, len(es))
	for i, t := range txt {
		entries[i] = &pathpol.ACLEntry{}
		if err := entries[i].LoadFromString(t); err != nil {
			return nil, txt, err
		}
	}
	acl, err := pathpol.NewACL(entries...)
	return acl, txt, err
}

func buildSeq(a *ast, r *rand.Rand) (*pathpol.Sequence, string, error) {
	if a == nil || a.T == "none" {
		return nil, "", nil
	}
	expr := render(a, r)
	s, err := pathpol.NewSequence(expr)
	return s, expr, err
}

// positions maps the returned path objects to their positions in the input list.
func positions(out []snet.Path) []int {
	res := make([]int, len(out))
	for i, p := range out {
		if fp, ok := p.(*fakePath); ok {
			res[i] = fp.pos
		}
	}
	return res
}

func errInt(err error) int {
	if err != nil {
		return 1
	}
	return 0
}

func safely(w *vt.Writer, out vt.M, f func()) {
	defer func() {
		if e := recover(); e != nil {
			out["panic"] = 1
			out["kept"] = []int{}
			w.Emit(out)
		}
	}()
	f()
}

func main() {
	in := flag.String("in", "", "scenario ndjson")
	outp := flag.String("out", "", "trace ndjson")
	flag.Parse()
	f, err := os.Open(*in)
	if err != nil {
		vt.Fatal("open: %v", err)
	}
	defer f.Close()
	w := vt.NewWriter(*outp)
	defer w.Close()
	r := vt.Rand(47)
	sc := bufio.NewScanner(f)
	sc.Buffer(make([]byte, 1<<20), 1<<28)
	var paths [][]hop
	// input list for the order-sensitive families: the path set in order, or a seeded shuffle with
	// repetitions (the same abstract path as distinct objects)
	mkInput := func(shuffled bool) ([]int, []snet.Path) {
		n := len(paths)
		idx := make([]int, 0, n)
		if !shuffled {
			for i := 1; i <= n; i++ {
				idx = append(idx, i)
			}
		} else {
			m := 12 + r.Intn(24)
			for i := 0; i < m; i++ {
				idx = append(idx, 1+r.Intn(n))
			}
		}
		ps := make([]snet.Path, len(idx))
		for i, k := range idx {
			ps[i] = mkPath(paths[k-1], i+1)
		}
		return idx, ps
	}
	for sc.Scan() {
		var rc rec
		if err := json.Unmarshal(sc.Bytes(), &rc); err != nil {
			vt.Fatal("scenario line: %v", err)
		}
		switch rc.Ev {
		case "reset":
			paths = rc.Paths
			w.Emit(vt.M{"ev": "reset", "fam": rc.Fam, "paths": rc.Paths})
		case "seq":
			out := vt.M{"ev": "seq", "ast": rc.AST, "panic": 0, "expr": "", "err": 0, "kept": []int{}}
			safely(w, out, func() {
				s, expr, err := buildSeq(rc.AST, r)
				out["expr"] = expr
				out["err"] = errInt(err)
				out["kept"] = []int{}
				if err == nil {
					_, ps := mkInput(false)
					out["kept"] = positions(s.Eval(ps))
				}
				w.Emit(out)
			})
		case "acl":
			var es []aclEntry
			if err := json.Unmarshal(rc.ACL, &es); err != nil {
				vt.Fatal("acl: %v", err)
			}
			for _, shuffled := range []bool{false, true} {
				out := vt.M{"ev": "acl", "acl": es, "panic": 0, "text": []string{}, "err": 0,
					"inp": []int{}, "kept": []int{}}
				safely(w, out, func() {
					acl, txt, err := buildACL(es)
					out["text"] = txt
					out["err"] = errInt(err)
					idx, ps := mkInput(shuffled)
					out["inp"] = idx
					out["kept"] = []int{}
					if err == nil {
						out["kept"] = positions(acl.Eval(ps))
					}
					w.Emit(out)
				})
			}
		case "pol":
			var es []aclEntry
			if err := json.Unmarshal(rc.ACL, &es); err != nil {
				vt.Fatal("acl: %v", err)
			}
			out := vt.M{"ev": "pol", "acl": es, "seq": rc.Seq, "opts": rc.Opts, "panic": 0, "err": 0,
				"inp": []int{}, "kept": []int{}}
			if rc.Opts == nil {
				out["opts"] = []opt{}
			}
			safely(w, out, func() {
				var firstErr error
				note := func(err error) {
					if err != nil && firstErr == nil {
						firstErr = err
					}
				}
				acl, _, err := buildACL(es)
				note(err)
				seq, _, err := buildSeq(rc.Seq, r)
				note(err)
				var options []pathpol.Option
				for _, o := range rc.Opts {
					oacl, _, err := buildACL(o.ACL)
					note(err)
					oseq, _, err := buildSeq(o.Seq, r)
					note(err)
					options = append(options, pathpol.Option{Weight: o.W,
						Policy: &pathpol.ExtPolicy{Policy: &pathpol.Policy{ACL: oacl, Sequence: oseq}}})
				}
				out["err"] = errInt(firstErr)
				idx, ps := mkInput(r.Intn(2) == 0)
				out["inp"] = idx
				out["kept"] = []int{}
				if firstErr == nil {
					pol := pathpol.NewPolicy("p", acl, seq, options)
					out["kept"] = positions(pol.Filter(ps))
				}
				w.Emit(out)
			})
		case "ext":
			out := vt.M{"ev": "ext", "top": rc.Top, "pool": rc.Pool, "panic": 0, "err": 0, "inp": []int{}, "kept": []int{}}
			safely(w, out, func() {
				var firstErr error
				mk := func(name string, d *polDef) *pathpol.ExtPolicy {
					acl, _, err := buildACL(d.ACL)
					if err != nil && firstErr == nil {
						firstErr = err
					}
					seq, _, err := buildSeq(d.Seq, r)
					if err != nil && firstErr == nil {
						firstErr = err
					}
					var options []pathpol.Option
					for _, o := range d.Opts {
						oacl, _, err := buildACL(o.ACL)
						if err != nil && firstErr == nil {
							firstErr = err
						}
						oseq, _, err := buildSeq(o.Seq, r)
						if err != nil && firstErr == nil {
							firstErr = err
						}
						options = append(options, pathpol.Option{Weight: o.W,
							Policy: &pathpol.ExtPolicy{Policy: &pathpol.Policy{ACL: oacl, Sequence: oseq}}})
					}
					p := pathpol.NewPolicy(name, acl, seq, options)
					if len(d.Local) > 0 {
						li := &pathpol.LocalISDAS{}
						for _, x := range d.Local {
							li.AllowedIAs = append(li.AllowedIAs, mkIA(x.ISD, x.AS))
						}
						p.LocalISDAS = li
					}
					if len(d.Remote) > 0 {
						ri := &pathpol.RemoteISDAS{}
						for _, x := range d.Remote {
							ri.Rules = append(ri.Rules, pathpol.ISDASRule{IA: mkIA(x.ISD, x.AS), Reject: x.Rej == 1})
						}
						p.RemoteISDAS = ri
					}
					ext := []string{}
					for _, k := range d.Ext {
						ext = append(ext, fmt.Sprintf("p%d", k))
					}
					return &pathpol.ExtPolicy{Extends: ext, Policy: p}
				}
				var pool []*pathpol.ExtPolicy
				for i := range rc.Pool {
					pool = append(pool, mk(fmt.Sprintf("p%d", i+1), &rc.Pool[i]))
				}
				top := mk("top", rc.Top)
				idx, ps := mkInput(r.Intn(2) == 0)
				out["inp"] = idx
				if firstErr != nil {
					out["err"] = 1
					w.Emit(out)
					return
				}
				pol, err := pathpol.PolicyFromExtPolicy(top, pool)
				if err != nil {
					out["err"] = 1
					w.Emit(out)
					return
				}
				out["kept"] = positions(pol.Filter(ps))
				w.Emit(out)
			})
		default:
			vt.Fatal("unknown scenario record %q", rc.Ev)
		}
	}
	if err := sc.Err(); err != nil {
		vt.Fatal("read: %v", err)
	}
}
