// Driver for C14: starts the REAL dataPlane.Run on in-memory BatchConns whose ReadBatch/WriteBatch
// follow a seeded fault script (bursts, partial writes, write errors, slow writers => full queues),
// with driver-owned goroutines hammering real bfdSend senders, under the race detector. The verif
// hook in PacketPool.Get/Put reports every pool operation; the driver merges them with what the
// fake sockets saw (which buffer was filled / written) into reset-delimited ndjson traces for
// PacketPoolTrace.tla. It never judges: quiescence is detected to know when to stop, the verdict
// about ownership is TLC's.
package main

import (
	"bufio"
	"context"
	"encoding/binary"
	"encoding/json"
	"errors"
	"flag"
	"fmt"
	"math/rand"
	"net"
	"net/netip"
	"os"
	"runtime"
	"strings"
	"sync"
	"sync/atomic"
	"time"
	"unsafe"

	"github.com/gopacket/gopacket/layers"

	"github.com/scionproto/scion/pkg/addr"
	"github.com/scionproto/scion/pkg/log"
	"github.com/scionproto/scion/private/underlay/conn"
	"github.com/scionproto/scion/router"
	"github.com/scionproto/scion/router/bfd"

	"verifharness/internal/rtpkt"
	"verifharness/internal/vt"
)

// ---------------------------------------------------------------------------------- trace log

type bufInfo struct {
	id     int
	start  uintptr
	length int
	state  int // 0 free, 1 prefetched by a receiver, 2 in flight (filled or taken by a BFD sender)
}

type run struct {
	mu       sync.Mutex
	evs      []vt.M
	bufs     []*bufInfo // sorted by insertion; lookups are linear (pools are small)
	byPkt    map[*router.Packet]*bufInfo
	pool     uintptr
	lastEv   atomic.Int64 // unix nano of the last event
	nEvents  atomic.Int64
	inflight int
	ndeliver int
	sites    map[string]int
}

var cur atomic.Pointer[run]

func shortFunc(f string) string {
	if i := strings.LastIndex(f, "/"); i >= 0 {
		f = f[i+1:]
	}
	// closures: udpip.(*udpConnection).start.func1 -> keep
	return f
}

func (r *run) add(ev vt.M) {
	r.evs = append(r.evs, ev)
	r.lastEv.Store(time.Now().UnixNano())
	r.nEvents.Add(1)
}

func (r *run) lookup(p unsafe.Pointer) *bufInfo {
	a := uintptr(p)
	for _, b := range r.bufs {
		if a >= b.start && a < b.start+uintptr(b.length) {
			return b
		}
	}
	return nil
}

func hook(ev router.VerifPoolEvent) {
	r := cur.Load()
	if r == nil {
		return
	}
	r.mu.Lock()
	defer r.mu.Unlock()
	if r.pool == 0 {
		r.pool = ev.Pool
	}
	if ev.Pool != r.pool {
		return // a pool of an earlier trace (its goroutines are gone; cannot happen)
	}
	b := r.byPkt[ev.Pkt]
	if b == nil {
		b = &bufInfo{id: len(r.bufs), start: ev.Buf, length: ev.BufLen}
		r.bufs = append(r.bufs, b)
		r.byPkt[ev.Pkt] = b
	}
	fn := shortFunc(ev.Func)
	site := fmt.Sprintf("%s:%d", fn, ev.Line)
	r.sites[ev.Op+"@"+site]++
	switch ev.Op {
	case "get":
		if strings.Contains(fn, "bfdSend") {
			b.state = 2
			r.inflight++
		} else {
			b.state = 1
		}
	case "put":
		if b.state == 2 {
			r.inflight--
		}
		b.state = 0
	}
	r.add(vt.M{"ev": ev.Op, "b": b.id, "fn": fn, "line": ev.Line, "seq": int(ev.Seq)})
}

// ---------------------------------------------------------------------------------- fake sockets

type inPkt struct {
	raw  []byte
	src  *net.UDPAddr
	kind string
}

type burst struct {
	pkts []inPkt
	err  bool // ReadBatch returns an error instead
}

type wOutcome struct {
	kind string // "all" | "partial" | "err" | "zero"
	k    int    // partial: number written (< n)
	slow time.Duration
}

type fakeConn struct {
	r        *run
	name     string
	idx      int
	in       chan burst
	closed   chan struct{}
	once     sync.Once
	rng      *rand.Rand // used by the single receiver goroutine only
	wrng     *rand.Rand // used by the single sender goroutine only
	op       *opener
	yield    int
	nread    atomic.Int64 // ReadBatch calls
	pending  []inPkt      // rest of a burst larger than the batch (receiver goroutine only)
	npending atomic.Int64
}

var errClosed = errors.New("verif: connection closed")
var errInjected = errors.New("verif: injected socket error")

func (c *fakeConn) ReadBatch(msgs conn.Messages) (int, error) {
	c.nread.Add(1)
	if c.yield > 0 && c.rng.Intn(c.yield+1) == 0 {
		runtime.Gosched()
	}
	var pk []inPkt
	if len(c.pending) > 0 {
		pk = c.pending
		c.pending = nil
	} else {
		select {
		case <-c.closed:
			return 0, errClosed
		case b := <-c.in:
			if b.err {
				c.r.mu.Lock()
				c.r.add(vt.M{"ev": "rerr", "conn": c.idx})
				c.r.mu.Unlock()
				return 0, errInjected
			}
			pk = b.pkts
		}
	}
	n := len(pk)
	if n > len(msgs) {
		c.pending = pk[len(msgs):]
		n = len(msgs)
	}
	c.npending.Store(int64(len(c.pending)))
	c.r.mu.Lock()
	for i := 0; i < n; i++ {
		buf := msgs[i].Buffers[0]
		m := copy(buf, pk[i].raw)
		msgs[i].N = m
		msgs[i].Addr = pk[i].src
		b := c.r.lookup(unsafe.Pointer(unsafe.SliceData(buf)))
		id := -1
		if b != nil {
			id = b.id
			if b.state != 2 {
				c.r.inflight++
			}
			b.state = 2
		}
		c.r.ndeliver++
		c.r.add(vt.M{"ev": "deliver", "conn": c.idx, "b": id, "len": m, "kind": pk[i].kind})
	}
	c.r.mu.Unlock()
	return n, nil
}

func poisoned(b []byte) bool {
	if len(b) == 0 {
		return true
	}
	n := len(b)
	if n > 32 {
		n = 32
	}
	for _, x := range b[:n] {
		if x != 0xDB {
			return false
		}
	}
	return n >= 8
}

func (c *fakeConn) WriteBatch(msgs conn.Messages, _ int) (int, error) {
	o := wOutcome{kind: "all"}
	if len(msgs) > 0 {
		o = c.op.outcome(c.wrng, int(c.op.family.Load()), int(c.op.faulty.Load()))
	}
	if c.yield > 0 && c.wrng.Intn(c.yield+1) == 0 {
		runtime.Gosched()
	}
	if o.slow > 0 {
		// a slow NIC: influences scheduling only (lets the egress queue fill up), never a verdict
		select {
		case <-time.After(o.slow):
		case <-c.closed:
		}
	}
	select {
	case <-c.closed:
		o = wOutcome{kind: "err"}
	default:
	}
	n := len(msgs)
	written := n
	var err error
	switch o.kind {
	case "partial":
		if n > 1 {
			written = o.k % n
		}
	case "zero":
		if n > 0 {
			written = 0
		}
	case "err":
		written, err = -1, errInjected
	}
	c.r.mu.Lock()
	ids := make([]int, 0, n)
	pois := 0
	for i := 0; i < n; i++ {
		id := -1
		if len(msgs[i].Buffers[0]) > 0 {
			if b := c.r.lookup(unsafe.Pointer(unsafe.SliceData(msgs[i].Buffers[0]))); b != nil {
				id = b.id
			}
		}
		ids = append(ids, id)
		if poisoned(msgs[i].Buffers[0]) {
			pois++
		}
	}
	c.r.add(vt.M{"ev": "write", "conn": c.idx, "bs": ids, "n": n, "ret": written, "poisoned": pois})
	c.r.mu.Unlock()
	return written, err
}

func (c *fakeConn) Close() error {
	c.once.Do(func() { close(c.closed) })
	return nil
}

type opener struct {
	r       *run
	reuse   bool
	mu      sync.Mutex
	conns   map[string]*fakeConn
	order   []*fakeConn
	seed    int64
	yield   int
	outcome func(rng *rand.Rand, fam, faulty int) wOutcome
	family  atomic.Int64
	faulty  atomic.Int64
}

func (o *opener) Open(l, r netip.AddrPort, _ *conn.Config) (router.BatchConn, error) {
	name := "internal"
	if r.IsValid() {
		name = r.String()
	}
	o.mu.Lock()
	defer o.mu.Unlock()
	c := &fakeConn{r: o.r, name: name, idx: len(o.order), in: make(chan burst, 1024),
		closed: make(chan struct{}), yield: o.yield,
		rng:  rand.New(rand.NewSource(o.seed + int64(len(o.order))*7919)),
		wrng: rand.New(rand.NewSource(o.seed + int64(len(o.order))*104729 + 1))}
	c.op = o
	o.conns[name] = c
	o.order = append(o.order, c)
	return c, nil
}

func (o *opener) UDPCanReuseLocal() bool { return o.reuse }

// ---------------------------------------------------------------------------------- one trace

type stats struct {
	traces, events int
	sites          map[string]int
}

func tagged(kind string, id int) []byte {
	p := make([]byte, 12)
	copy(p, "VRF!")
	binary.BigEndian.PutUint32(p[4:], uint32(id))
	return p
}

func oneTrace(w *traceWriter, rng *rand.Rand, id int, st *stats) {
	batch := 1 + rng.Intn(4)
	np := 1 + rng.Intn(3)
	ns := 1 + rng.Intn(2)
	withSibling := rng.Intn(3) != 0
	detached := withSibling && rng.Intn(2) == 0
	procs := []int{1, 2, 4, 16}[rng.Intn(4)]
	runtime.GOMAXPROCS(procs)
	if id%4 == 3 {
		np, ns = 1, 1
	}
	if id%6 == 4 {
		// slow-path pressure: many processors feeding one slow-path processor through short queues
		// (queue size = max(links*batch/processors, batch))
		np, ns, batch = 3, 1, 1+rng.Intn(2)
	}

	r := &run{byPkt: map[*router.Packet]*bufInfo{}, sites: map[string]int{}}
	r.lastEv.Store(time.Now().UnixNano())
	op := &opener{r: r, reuse: !detached, conns: map[string]*fakeConn{}, seed: rng.Int63(), yield: rng.Intn(4)}
	op.outcome = func(wr *rand.Rand, fam int, faulty int) wOutcome {
		o := wOutcome{kind: "all"}
		if wr.Intn(100) < faulty {
			switch wr.Intn(4) {
			case 0:
				o = wOutcome{kind: "partial", k: wr.Intn(8)}
			case 1:
				o = wOutcome{kind: "err"}
			case 2:
				o = wOutcome{kind: "zero"}
			}
			if fam == 2 || fam >= 4 || wr.Intn(3) == 0 {
				o.slow = time.Duration(50+wr.Intn(1500)) * time.Microsecond
			}
		}
		return o
	}
	t0 := time.Now()
	var tl []string
	lap := func(n string) {
		tl = append(tl, fmt.Sprintf("%s=%dms", n, time.Since(t0).Milliseconds()))
		t0 = time.Now()
	}
	cur.Store(r)
	v, err := router.VerifNewDP(rtpkt.Config(op, batch, withSibling, detached, rng.Intn(2) == 0))
	if err != nil {
		vt.Fatal("VerifNewDP: %v", err)
	}
	lap("newdp")
	v.D.RunConfig.NumProcessors = np
	v.D.RunConfig.NumSlowPathProcessors = ns
	ctx, cancel := context.WithCancel(context.Background())
	runDone := make(chan struct{})
	go func() { v.D.Run(ctx); close(runDone) }()
	// started: every receiver has called ReadBatch at least once (so the pool exists)
	waitUntil(30*time.Second, "receivers started", func() bool {
		op.mu.Lock()
		defer op.mu.Unlock()
		for _, c := range op.order {
			if c.nread.Load() == 0 {
				return false
			}
		}
		return len(op.order) > 0
	})
	nconn := len(op.order)
	lap("start")
	nif := 3
	if withSibling {
		nif = 4
	}

	// traffic
	pid := 0
	corpus := func() []rtpkt.Named {
		pid++
		return rtpkt.Corpus(tagged("", pid), withSibling)
	}
	connOf := func(via uint16) *fakeConn {
		switch via {
		case 0:
			return op.conns["internal"]
		case 1:
			return op.conns[rtpkt.If1Remote]
		case 2:
			return op.conns[rtpkt.If2Remote]
		default:
			if detached {
				return op.conns["internal"]
			}
			return op.conns[rtpkt.SiblingAddr]
		}
	}
	garbage := func(n int, okHdr bool) []byte {
		b := make([]byte, n)
		rng.Read(b)
		if okHdr && n > 12 {
			b[0] = 0
			b[4] = 17  // NextHdr UDP
			b[9] = 0   // IPv4 host addresses
			b[5] = 255 // header length: far beyond the packet
		} else if n > 4 {
			b[4] = 0x21 // not an L4 protocol the router knows
		}
		return b
	}
	// BFD senders driven by driver goroutines (one goroutine per sender)
	var senders []bfd.Sender
	mk := func(ifID uint16, ia addr.IA, raddr string, lh, rh string, intra bool) {
		s, err := v.VerifNewBFDSender(ifID, ia, raddr, addr.MustParseHost(lh), addr.MustParseHost(rh), intra)
		if err != nil {
			vt.Fatal("bfd sender: %v", err)
		}
		senders = append(senders, s)
	}
	mk(1, rtpkt.ParentIA, rtpkt.If1Remote, "192.168.1.1", "192.168.1.2", false)
	mk(2, rtpkt.ChildIA, rtpkt.If2Remote, "192.168.2.1", "192.168.2.2", false)
	if withSibling {
		mk(3, rtpkt.LocalIA, rtpkt.SiblingAddr, "10.0.0.1", "10.0.0.2", true)
	}
	rounds := 2 + rng.Intn(4)
	timedOut := false
	total := 0
	families := []int{}
	for round := 0; round < rounds; round++ {
		// 0,1: mixed traffic  2: egress pressure (slow / failing writers)  3: long bursts
		// 4: slow-path pressure (only packets answered by SCMP, long bursts, slow writers)
		// 5: STUN pressure on the internal link
		family := rng.Intn(6)
		if round == 0 || (id%6 == 4 && rng.Intn(10) < 7) {
			family = id % 6
		}
		families = append(families, family)
		faulty := 10 + rng.Intn(40) // percent of WriteBatch calls with a fault
		if family == 2 {
			faulty = 70
		}
		if family >= 4 {
			faulty = 50
		}
		op.family.Store(int64(family))
		op.faulty.Store(int64(faulty))
		nbursts := 3 + rng.Intn(10)
		if family >= 3 {
			nbursts = 6 + rng.Intn(10)
		}
		type feed struct {
			c *fakeConn
			b burst
		}
		var feeds []feed
		for i := 0; i < nbursts; i++ {
			c := corpus()
			k := 1 + rng.Intn(2*batch+1)
			if family >= 3 {
				k = batch + rng.Intn(3*batch+1)
			}
			if family == 4 {
				k = 4 + rng.Intn(12)
			}
			// all packets of a burst arrive on one socket
			via := uint16(rng.Intn(4))
			if via == 3 && !withSibling {
				via = 1
			}
			if family == 5 {
				via = 0
			}
			var cand []rtpkt.Named
			for _, n := range c {
				if n.Via == via {
					cand = append(cand, n)
				}
			}
			fc := connOf(via)
			if rng.Intn(12) == 0 {
				feeds = append(feeds, feed{fc, burst{err: true}})
			}
			var b burst
			for j := 0; j < k; j++ {
				var p inPkt
				switch x := rng.Intn(10); {
				case x == 0:
					p = inPkt{raw: garbage(20+rng.Intn(80), true), kind: "garbage-hdr"}
				case x == 1:
					p = inPkt{raw: garbage(1+rng.Intn(40), false), kind: "garbage"}
				case family == 4 && x < 9:
					var slow []rtpkt.Named
					for _, n := range cand {
						for _, pre := range []string{"badmac", "expired", "wrong-ingress", "traceroute", "scmperr-badmac", "xover-2-1", "unknown-egress"} {
							if strings.HasPrefix(n.Name, pre) {
								slow = append(slow, n)
							}
						}
					}
					if len(slow) == 0 {
						slow = cand
					}
					n := slow[rng.Intn(len(slow))]
					p = inPkt{raw: n.Raw, kind: n.Name}
				case family == 5 && x < 9:
					for _, n := range cand {
						if n.Name == "stun-0" && x < 7 || n.Name == "stun-badfp-0" && x >= 7 {
							p = inPkt{raw: n.Raw, kind: n.Name}
						}
					}
				case family == 2 && x < 8:
					// egress pressure: everything towards one egress
					for _, n := range cand {
						if strings.HasPrefix(n.Name, "transit") || strings.HasPrefix(n.Name, "outbound-2") || strings.HasPrefix(n.Name, "inbound") {
							p = inPkt{raw: n.Raw, kind: n.Name}
						}
					}
					if p.raw == nil {
						n := cand[rng.Intn(len(cand))]
						p = inPkt{raw: n.Raw, kind: n.Name}
					}
				default:
					n := cand[rng.Intn(len(cand))]
					p = inPkt{raw: n.Raw, kind: n.Name}
				}
				p.src = rtpkt.SrcOf(via)
				b.pkts = append(b.pkts, p)
			}
			total += len(b.pkts)
			feeds = append(feeds, feed{fc, b})
			if rng.Intn(4) == 0 {
				// a socket read error right after a non-empty batch (the receiver holds a partly used
				// pre-fetch at that moment)
				feeds = append(feeds, feed{fc, burst{err: true}})
				if rng.Intn(3) == 0 {
					feeds = append(feeds, feed{fc, burst{err: true}})
				}
			}
		}
		nbfd := rng.Intn(6)
		if family == 2 {
			nbfd = 4 + rng.Intn(8)
		}
		var wg sync.WaitGroup
		for i, s := range senders {
			wg.Add(1)
			go func(s bfd.Sender, seed int64) {
				defer wg.Done()
				lr := rand.New(rand.NewSource(seed))
				for k := 0; k < nbfd; k++ {
					for y := lr.Intn(20); y > 0; y-- {
						runtime.Gosched()
					}
					pkt := &layers.BFD{Version: 1, State: layers.BFDStateDown, DetectMultiplier: 3,
						MyDiscriminator: layers.BFDDiscriminator(5 + k), DesiredMinTxInterval: 1000000,
						RequiredMinRxInterval: 1000000}
					if err := s.Send(pkt); err != nil {
						r.mu.Lock()
						r.add(vt.M{"ev": "bfderr"})
						r.mu.Unlock()
					}
				}
			}(s, rng.Int63()+int64(i))
		}
		// feeder
		wg.Add(1)
		go func(seed int64) {
			defer wg.Done()
			lr := rand.New(rand.NewSource(seed))
			for _, f := range feeds {
				f.c.in <- f.b
				switch lr.Intn(4) {
				case 0:
					runtime.Gosched()
				case 1:
					time.Sleep(time.Duration(lr.Intn(300)) * time.Microsecond)
				}
			}
		}(rng.Int63())
		lap("build")
		trafficDone := make(chan struct{})
		go func() { wg.Wait(); close(trafficDone) }()
		select {
		case <-trafficDone:
		case <-time.After(30 * time.Second):
			// a BFD sender blocked in Get on an exhausted pool (leaked buffers): record and stop
			r.mu.Lock()
			r.add(vt.M{"ev": "stuck", "phase": "traffic"})
			r.mu.Unlock()
			timedOut = true
		}
		lap("traffic")
		if timedOut {
			break
		}

		// quiescence: every delivered packet's buffer and every BFD buffer went back to the pool, and
		// all input was consumed. Fallback: no event for 10 s (a leak would otherwise hang the driver);
		// the trace records which it was and TLC judges what is still held.
		consumed := func() bool {
			for _, c := range op.order {
				if len(c.in) > 0 {
					return false
				}
			}
			return true
		}
		for {
			r.mu.Lock()
			infl := r.inflight
			pend := 0
			for _, c := range op.order {
				pend += int(c.npending.Load())
			}
			r.mu.Unlock()
			if infl == 0 && pend == 0 && consumed() {
				// input channels empty and nothing in flight: but a receiver may have taken a burst off
				// its channel without having logged the deliveries yet; deliveries are logged under
				// r.mu together with the in-flight count, and a burst is taken and logged by the same
				// ReadBatch call, so check once more that all packets were delivered.
				r.mu.Lock()
				ok := r.ndeliver == total && r.inflight == 0
				if ok {
					r.add(vt.M{"ev": "quiescent", "timeout": false, "round": round})
				}
				r.mu.Unlock()
				if ok {
					break
				}
			}
			if time.Since(time.Unix(0, r.lastEv.Load())) > 10*time.Second {
				r.mu.Lock()
				r.add(vt.M{"ev": "quiescent", "timeout": true, "round": round})
				r.mu.Unlock()
				timedOut = true
				break
			}
			time.Sleep(200 * time.Microsecond)
		}
		if timedOut {
			break
		}
	} // rounds
	// shutdown: provider.Stop closes the sockets and queues and waits for receivers and senders
	lap("quiesce")
	// (a router whose buffer accounting is broken can block forever in Put / Get: give up after
	// 20 s and record it; the event has no specification action)
	// Shutdown under harmless traffic (two traces out of three): datagrams that are no SCION packets
	// keep arriving while the sockets are being closed. They are returned to the pool by the link's
	// receive (external, sibling) or by the internal link's processor / its drain at stop, never
	// sent anywhere, so the unchanged design cannot hit a closed queue; receivers then also leave
	// their loop after a successful read (pre-fetch partly used).
	if !timedOut && id%3 != 0 {
		for _, c := range op.order {
			for k := 0; k < 3+rng.Intn(4); k++ {
				var b burst
				for j := 0; j < 1+rng.Intn(2*batch); j++ {
					via := uint16(1)
					if c.name == "internal" {
						via = 0
					}
					b.pkts = append(b.pkts, inPkt{raw: garbage(1+rng.Intn(40), false), kind: "garbage", src: rtpkt.SrcOf(via)})
				}
				select {
				case c.in <- b:
				default:
				}
			}
		}
		for y := rng.Intn(40); y > 0; y-- {
			runtime.Gosched()
		}
		if rng.Intn(3) == 0 {
			time.Sleep(time.Duration(rng.Intn(200)) * time.Microsecond)
		}
	}
	shut := make(chan struct{})
	go func() { v.D.Shutdown(); cancel(); <-runDone; close(shut) }()
	select {
	case <-shut:
	case <-time.After(20 * time.Second):
		r.mu.Lock()
		r.add(vt.M{"ev": "stuck", "phase": "shutdown"})
		r.mu.Unlock()
		cancel()
	}
	lap("shutdown")
	if os.Getenv("POOL_DEBUG") != "" {
		fmt.Fprintln(os.Stderr, id, procs, tl)
	}
	r.mu.Lock()
	r.add(vt.M{"ev": "final", "poollen": router.VerifPoolLen(v.VerifPool())})
	cur.Store(nil)
	evs := r.evs
	nb := len(r.bufs)
	r.mu.Unlock()

	w.Emit(vt.M{"ev": "reset", "id": id, "families": families, "rounds": rounds, "nbuf": nb, "batch": batch, "np": np, "ns": ns,
		"nconn": nconn, "nif": nif, "gomaxprocs": procs, "pkts": total})
	for _, e := range evs {
		w.Emit(e)
	}
	w.Flush() // complete traces survive a crash of the router in a later trace
	st.traces++
	st.events += len(evs)
	for k, n := range r.sites {
		st.sites[k] += n
	}
}

// traceWriter writes one JSON object per line and can be flushed after every trace.
type traceWriter struct {
	f *os.File
	w *bufio.Writer
}

func newTraceWriter(path string) *traceWriter {
	f, err := os.Create(path)
	if err != nil {
		vt.Fatal("create %s: %v", path, err)
	}
	return &traceWriter{f: f, w: bufio.NewWriterSize(f, 1<<20)}
}

func (t *traceWriter) Emit(ev any) {
	b, err := json.Marshal(ev)
	if err != nil {
		vt.Fatal("marshal: %v", err)
	}
	t.w.Write(b)
	t.w.WriteByte('\n')
}

func (t *traceWriter) Flush() { t.w.Flush() }

func (t *traceWriter) Close() {
	t.w.Flush()
	t.f.Close()
}

func waitUntil(d time.Duration, what string, f func() bool) {
	t0 := time.Now()
	for !f() {
		if time.Since(t0) > d {
			vt.Fatal("timeout waiting for %s", what)
		}
		time.Sleep(200 * time.Microsecond)
	}
}

func main() {
	out := flag.String("out", "trace.ndjson", "output trace")
	n := flag.Int("n", 50, "number of traces")
	first := flag.Int("first", 0, "index of the first trace (seeds the stream)")
	sitesOut := flag.String("sites", "", "write call-site statistics (json lines) here")
	selftest := flag.Bool("selftest", false, "print the disposition of every corpus packet and exit")
	flag.Parse()
	if *selftest {
		v, err := router.VerifNewDP(rtpkt.Config(nil, 4, true, false, false))
		if err != nil {
			vt.Fatal("VerifNewDP: %v", err)
		}
		for _, n := range rtpkt.Corpus([]byte("payload!"), true) {
			p := v.NewPacket(n.Raw, n.Via, rtpkt.SrcOf(n.Via))
			res := v.Process(p)
			fmt.Printf("%-18s via=%d len=%d disp=%s egress=%d slow=%d/%d\n", n.Name, n.Via, len(n.Raw), res.Disp, res.Egress, res.SlowType, res.SlowCode)
		}
		return
	}
	// A panic in a router goroutine ends in log.HandlePanic: logged at error level, exit status 255.
	// Make that visible on stderr (checks/C14.py turns it into a `crash` event).
	if err := log.Setup(log.Config{Console: log.ConsoleConfig{Level: "error", Format: "human"}}); err != nil {
		vt.Fatal("log setup: %v", err)
	}
	f := hook
	router.VerifPoolTracer.Store(&f)
	w := newTraceWriter(*out)
	st := &stats{sites: map[string]int{}}
	for i := *first; i < *first+*n; i++ {
		rng := vt.Rand(1400000 + int64(i))
		oneTrace(w, rng, i, st)
	}
	w.Close()
	if *sitesOut != "" {
		sw := vt.NewWriter(*sitesOut)
		for k, c := range st.sites {
			sw.Emit(vt.M{"site": k, "n": c})
		}
		sw.Close()
	}
	fmt.Fprintf(os.Stdout, "traces=%d events=%d sites=%d\n", st.traces, st.events, len(st.sites))
}
