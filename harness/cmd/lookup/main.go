// Driver for C30: runs the REAL segfetcher.Pather with the REAL MultiSegmentSplitter (inspector data
// from the generated topology), the REAL DefaultResolver over a REAL in-memory sqlite path DB filled
// with real segments (built by the real extender; expiries on both sides of "now" with margins of
// minutes) and the REAL in-memory revocation cache holding running and run-out revocations for
// interfaces of the topology. Destinations: non-core / core ASes of the own and of another ISD, ISD
// wildcards, the local AS, ISD 0. The driver logs the requests the splitter issued, the segments the
// resolver delivered, the revocations, and the returned paths. It never judges.
package main

import (
	"context"
	"flag"
	"fmt"
	"math/rand"
	"net"
	"os"
	"sync/atomic"
	"time"

	"github.com/scionproto/scion/control/beaconing"
	"github.com/scionproto/scion/pkg/addr"
	"github.com/scionproto/scion/pkg/private/ctrl/path_mgmt"
	"github.com/scionproto/scion/pkg/private/ctrl/path_mgmt/proto"
	seg "github.com/scionproto/scion/pkg/segment"
	"github.com/scionproto/scion/pkg/segment/iface"
	"github.com/scionproto/scion/pkg/snet"
	"github.com/scionproto/scion/private/revcache/memrevcache"
	"github.com/scionproto/scion/private/segment/segfetcher"
	"github.com/scionproto/scion/private/storage/db"
	pathsqlite "github.com/scionproto/scion/private/storage/path/sqlite"
	"github.com/scionproto/scion/private/trust"

	"verifharness/internal/segs"
	"verifharness/internal/vt"
)

type inspector struct{ t *segs.Topo }

func (i inspector) ByAttributes(_ context.Context, isd addr.ISD, _ trust.Attribute) ([]addr.IA, error) {
	var out []addr.IA
	for _, c := range i.t.Cores() {
		if c.ISD() == isd {
			out = append(out, c)
		}
	}
	return out, nil
}

func (i inspector) HasAttributes(_ context.Context, ia addr.IA, _ trust.Attribute) (bool, error) {
	a, ok := i.t.ASes[ia]
	return ok && a.Core, nil
}

type recSplitter struct {
	inner segfetcher.Splitter
	reqs  segfetcher.Requests
}

func (r *recSplitter) Split(ctx context.Context, dst addr.IA) (segfetcher.Requests, error) {
	reqs, err := r.inner.Split(ctx, dst)
	r.reqs = append(segfetcher.Requests{}, reqs...)
	return reqs, err
}

type recResolver struct {
	inner segfetcher.Resolver
	segs  segfetcher.Segments
}

func (r *recResolver) Resolve(ctx context.Context, reqs segfetcher.Requests, refresh bool) (
	segfetcher.Segments, segfetcher.Requests, error) {
	s, _, err := r.inner.Resolve(ctx, reqs, refresh)
	r.segs = append(segfetcher.Segments{}, s...)
	return s, nil, err // nothing is ever fetched remotely
}

type allLocal struct{}

func (allLocal) IsSegLocal(segfetcher.Request) bool { return true }

type hopper struct{}

func (hopper) UnderlayNextHop(uint16) *net.UDPAddr {
	return &net.UDPAddr{IP: net.IPv4(127, 0, 0, 9), Port: 30042}
}

func iaRec(ia addr.IA) vt.M {
	as := "0"
	if ia.AS() != 0 {
		as = ia.AS().String()
	}
	return vt.M{"isd": int(ia.ISD()), "as": as, "s": ia.String()}
}

var dbSeq int64

func main() {
	out := flag.String("out", "lookup.ndjson", "trace file")
	n := flag.Int("n", 60, "number of topologies")
	per := flag.Int("lookups", 5, "lookups per topology")
	remote := flag.Int("remote", 0, "topologies of the remote-fetch mode")
	slowEvery := flag.Int("slowevery", 4, "every n-th remote topology starts with a slow-server lookup (about 5 s each)")
	flag.Parse()
	w := vt.NewWriter(*out)
	defer w.Close()
	ctx := context.Background()
	signer := segs.NewKeySigner()
	caseNo := 0
	for i := 0; i < *n; i++ {
		rng := vt.Rand(int64(i))
		o := segs.DefaultOpts()
		var t *segs.Topo
		if i%5 == 4 {
			t = segs.Directed(rng, i/5)
		} else {
			t = segs.Gen(rng, o)
			for try := 0; try < 5 && len(t.Order) < 4; try++ {
				t = segs.Gen(rng, o)
			}
		}
		t0 := time.Now().Truncate(time.Second)
		// expiry settings: small maxima so that some segments have run out
		for _, ia := range t.Order {
			t.ASes[ia].MaxExp = uint8(rng.Intn(7))
			if rng.Intn(3) == 0 || i%3 == 0 {
				t.ASes[ia].MaxExp = uint8(20 + rng.Intn(200))
			}
		}
		// beaconing runs: creation time j units + 150 s ago, so that every hop expiry is >= 150 s away from now
		var sets []*segs.SegSet
		runs := 1 + rng.Intn(2)
		for r := 0; r < runs; r++ {
			j := rng.Intn(4)
			ts := t0.Add(-time.Duration(j*3375/10+150) * time.Second)
			ss, err := t.Run(ts, rng, 5, func(addr.IA) beaconing.SignerGen { return segs.SignerGen{signer} })
			if err != nil {
				vt.Fatal("beaconing: %v", err)
			}
			sets = append(sets, ss)
		}
		// one path DB per local AS: segments ending at the local AS are its up segments, all others
		// down segments (the path DB ignores a second insert of the same segment under another type)
		dbs := map[addr.IA]*pathsqlite.Backend{}
		dbFor := func(local addr.IA) *pathsqlite.Backend {
			if d, ok := dbs[local]; ok {
				return d
			}
			name := fmt.Sprintf("file:veriflookup%d_%d", os.Getpid(), atomic.AddInt64(&dbSeq, 1))
			pdb, err := pathsqlite.New(name, &db.SqliteConfig{InMemory: true})
			if err != nil {
				vt.Fatal("pathdb: %v", err)
			}
			ins := func(s *seg.PathSegment, typ seg.Type) {
				if _, err := pdb.Insert(ctx, &seg.Meta{Segment: s, Type: typ}); err != nil {
					vt.Fatal("insert: %v", err)
				}
			}
			for _, ss := range sets {
				for ia, l := range ss.Down {
					for _, s := range l {
						if ia == local {
							ins(s, seg.TypeUp)
						} else {
							ins(s, seg.TypeDown)
						}
					}
				}
				for _, s := range ss.Core {
					ins(s, seg.TypeCore)
				}
			}
			dbs[local] = pdb
			return pdb
		}
		for k := 0; k < *per; k++ {
			local := t.Order[rng.Intn(len(t.Order))]
			pdb := dbFor(local)
			var dst addr.IA
			switch rng.Intn(16) {
			case 0:
				dst = local
			case 1, 2:
				dst = addr.MustIAFrom(local.ISD(), 0)
			case 3, 4, 5: // wildcard of another ISD if there is one
				dst = addr.MustIAFrom(t.Order[rng.Intn(len(t.Order))].ISD(), 0)
				for _, ia := range t.Order {
					if ia.ISD() != local.ISD() {
						dst = addr.MustIAFrom(ia.ISD(), 0)
					}
				}
			case 6:
				dst = addr.MustIAFrom(0, t.Order[rng.Intn(len(t.Order))].AS())
			default:
				dst = t.Order[rng.Intn(len(t.Order))]
			}
			rc := memrevcache.New()
			revs := []vt.M{}
			nrev := 1 + rng.Intn(3)
			if rng.Intn(3) == 0 {
				nrev = 0
			}
			for r := 0; r < nrev && len(t.Links) > 0; r++ {
				l := t.Links[rng.Intn(len(t.Links))]
				ia, id := l.A, l.AIf
				if rng.Intn(2) == 0 {
					ia, id = l.B, l.BIf
				}
				// running: issued 30 s ago for 300 s; run out: issued 100 s ago for 40 s (never enters the cache)
				tsr, ttl := -30, 300
				if rng.Intn(3) == 0 {
					tsr, ttl = -100, 40
				}
				ri := &path_mgmt.RevInfo{IfID: iface.ID(id), RawIsdas: ia, LinkType: proto.LinkType_core,
					RawTimestamp: uint32(t0.Unix() + int64(tsr)), RawTTL: uint32(ttl)}
				if _, err := rc.Insert(ctx, ri); err != nil {
					vt.Fatal("revcache insert: %v", err)
				}
				revs = append(revs, vt.M{"ia": ia.String(), "id": int(id), "ts": tsr * 1000, "ttl": ttl * 1000})
			}
			sp := &recSplitter{inner: &segfetcher.MultiSegmentSplitter{LocalIA: local, Core: t.ASes[local].Core,
				Inspector: inspector{t}}}
			rr := &recResolver{inner: segfetcher.NewResolver(pdb, rc, allLocal{})}
			p := &segfetcher.Pather{IA: local, MTU: 1400, NextHopper: hopper{}, RevCache: rc,
				Fetcher: &segfetcher.Fetcher{Resolver: rr, PathDB: pdb, QueryInterval: time.Minute,
					Metrics: segfetcher.NewFetcherMetrics(fmt.Sprintf("v%d_%d", i, k))},
				Splitter: sp}
			ev := vt.M{"ev": "lookup"}
			func() {
				defer func() {
					if r := recover(); r != nil {
						ev["ev"] = "panic"
						ev["what"] = fmt.Sprint(r)
					}
				}()
				now0 := time.Now()
				paths, err := p.GetPaths(ctx, dst, false)
				now1 := time.Now()
				ps := pathsJSON(paths, t0)
				ev["paths"] = ps
				ev["err"] = err != nil
				ev["now0"] = int(now0.Sub(t0) / time.Millisecond)
				ev["now1"] = int(now1.Sub(t0)/time.Millisecond) + 1
				ev["tfetch"] = ev["now0"]
			}()
			var ups, cores, downs []*seg.PathSegment
			seen := map[string]bool{}
			for _, s := range rr.segs {
				key := fmt.Sprintf("%v/%x", s.Type, s.Segment.FullID())
				if seen[key] {
					continue
				}
				seen[key] = true
				switch s.Type {
				case seg.TypeUp:
					ups = append(ups, s.Segment)
				case seg.TypeCore:
					cores = append(cores, s.Segment)
				case seg.TypeDown:
					downs = append(downs, s.Segment)
				}
			}
			fillCommon(ev, t, local, dst, sp.reqs, revs)
			ev["mode"] = "local"
			ev["rpc1"] = []vt.M{}
			ev["rpc2"] = []vt.M{}
			ev["ups"] = segs.SegsJSON(ups, t0)
			ev["cores_"] = segs.SegsJSON(cores, t0)
			ev["downs"] = segs.SegsJSON(downs, t0)
			caseNo++
			w.Emit(vt.M{"ev": "reset", "case": caseNo})
			w.Emit(ev)
		}
		for _, d := range dbs {
			d.Close()
		}
	}
	runRemote(ctx, w, *remote, *per, *slowEvery, &caseNo)
	fmt.Printf("lookups=%d\n", caseNo)
}

var _ = rand.Int

func b2i(b bool) int {
	if b {
		return 1
	}
	return 0
}

func pathsJSON(paths []snet.Path, t0 time.Time) []vt.M {
	ps := []vt.M{}
	for _, sp := range paths {
		md := sp.Metadata()
		intfs := []vt.M{}
		exp := 0
		if md != nil {
			for _, x := range md.Interfaces {
				intfs = append(intfs, vt.M{"ia": segs.IAStr(x.IA), "id": int(x.ID)})
			}
			d := md.Expiry.Sub(t0)
			if d > 500*time.Hour {
				d = 500 * time.Hour
			}
			exp = int(d / time.Millisecond)
		}
		ps = append(ps, vt.M{"src": sp.Source().String(), "dst": sp.Destination().String(),
			"intfs": intfs, "exp": exp})
	}
	return ps
}

func fillCommon(ev vt.M, t *segs.Topo, local, dst addr.IA, issued segfetcher.Requests, revs []vt.M) {
	reqs := []vt.M{}
	for _, r := range issued {
		reqs = append(reqs, vt.M{"t": r.SegType.String(), "src": iaRec(r.Src), "dst": iaRec(r.Dst)})
	}
	coreL, asL := []vt.M{}, []vt.M{}
	for _, ia := range t.Order {
		asL = append(asL, iaRec(ia))
		if t.ASes[ia].Core {
			coreL = append(coreL, iaRec(ia))
		}
	}
	dstCore := dst.IsWildcard() || (t.ASes[dst] != nil && t.ASes[dst].Core)
	ev["cls"] = fmt.Sprintf("lc=%v,dc=%v,si=%v,wc=%v", b2i(t.ASes[local].Core),
		b2i(dstCore), b2i(local.ISD() == dst.ISD()), b2i(dst.IsWildcard()))
	ev["local"] = iaRec(local)
	ev["localcore"] = t.ASes[local].Core
	ev["dst"] = iaRec(dst)
	ev["cores"] = coreL
	ev["ases"] = asL
	ev["reqs"] = reqs
	ev["revs"] = revs
}
