package main

// Remote mode for C30: only the up segments of the local AS are in the path DB; core and down
// segments are fetched through the REAL segfetcher.Fetcher: real DefaultResolver (decides what to
// fetch, next-query bookkeeping), real DefaultRequester, a scripted RPC (answers with matching
// segments, plus segments for other destinations, expired ones and unverifiable ones), the REAL
// seghandler.Handler with the real segment verifier / trust.Verifier (real chains in a real trust
// DB) and DefaultStorage into the real path DB. Every lookup is made twice to observe the
// next-query bookkeeping. Single-ISD topologies (the PKI of segs.World has one ISD).

import (
	"context"
	"fmt"
	"net"
	"os"
	"sync"
	"sync/atomic"
	"time"

	"github.com/scionproto/scion/control/beaconing"
	"github.com/scionproto/scion/pkg/addr"
	"github.com/scionproto/scion/pkg/private/ctrl/path_mgmt"
	"github.com/scionproto/scion/pkg/private/ctrl/path_mgmt/proto"
	seg "github.com/scionproto/scion/pkg/segment"
	"github.com/scionproto/scion/pkg/segment/iface"
	"github.com/scionproto/scion/private/revcache/memrevcache"
	"github.com/scionproto/scion/private/segment/segfetcher"
	"github.com/scionproto/scion/private/segment/seghandler"
	"github.com/scionproto/scion/private/storage/db"
	pathsqlite "github.com/scionproto/scion/private/storage/path/sqlite"
	"github.com/scionproto/scion/private/trust/compat"

	"verifharness/internal/segs"
	"verifharness/internal/vt"
)

type upLocal struct{}

func (upLocal) IsSegLocal(r segfetcher.Request) bool { return r.SegType == seg.TypeUp }

type passResolver struct {
	inner segfetcher.Resolver
	segs  segfetcher.Segments
}

func (r *passResolver) Resolve(ctx context.Context, reqs segfetcher.Requests, refresh bool) (
	segfetcher.Segments, segfetcher.Requests, error) {
	s, f, err := r.inner.Resolve(ctx, reqs, refresh)
	r.segs = append(segfetcher.Segments{}, s...)
	return s, f, err
}

type dstProv struct{}

func (dstProv) Dst(context.Context, segfetcher.Request) (net.Addr, error) {
	return &net.UDPAddr{IP: net.IPv4(127, 0, 0, 7), Port: 30252}, nil
}

// scriptedRPC is the remote path server.
type scriptedRPC struct {
	mu    sync.Mutex
	calls []vt.M
	good  map[seg.Type][]*seg.PathSegment // verifiable segments the server knows
	bad   map[seg.Type][]*seg.PathSegment // same shape, signed by a key nobody certified
	extra int                             // how many non-matching segments to add to a reply
	until time.Time                       // a slow server: replies are not sent before this instant
	last  time.Time                       // when the last reply was handed back
	sent  map[string]*seg.Meta            // verifiable segments handed out, by type/id
}

func match(pat, ia addr.IA) bool {
	if pat.AS() == 0 {
		return pat.ISD() == ia.ISD()
	}
	return pat == ia
}

func fits(r segfetcher.Request, s *seg.PathSegment) bool {
	switch r.SegType {
	case seg.TypeDown:
		return match(r.Src, s.FirstIA()) && match(r.Dst, s.LastIA())
	default: // up and core segments are requested against construction direction
		return match(r.Src, s.LastIA()) && match(r.Dst, s.FirstIA())
	}
}

func (s *scriptedRPC) Segments(_ context.Context, r segfetcher.Request, _ net.Addr) (segfetcher.SegmentsReply, error) {
	s.mu.Lock()
	defer s.mu.Unlock()
	var out []*seg.Meta
	add := func(ps *seg.PathSegment, verifiable bool) {
		m := &seg.Meta{Segment: ps, Type: r.SegType}
		out = append(out, m)
		if verifiable {
			s.sent[fmt.Sprintf("%v/%x/%d", r.SegType, ps.FullID(), ps.Info.Timestamp.Unix())] = m
		}
	}
	others := 0
	for _, ps := range s.good[r.SegType] {
		if fits(r, ps) {
			add(ps, true)
		} else if others < s.extra { // a segment for another destination
			others++
			add(ps, true)
		}
	}
	nbad := 0
	if len(out) > 0 { // unverifiable ones only next to verifiable ones (a reply that fails as a whole aborts the fetch)
		for _, ps := range s.bad[r.SegType] {
			if fits(r, ps) && nbad < s.extra {
				nbad++
				add(ps, false)
			}
		}
	}
	if d := time.Until(s.until); d > 0 { // slow server (the lock serialises the replies, which is fine)
		time.Sleep(d)
	}
	s.last = time.Now()
	s.calls = append(s.calls, vt.M{"t": r.SegType.String(), "src": iaRec(r.Src), "dst": iaRec(r.Dst), "n": len(out),
		"unverifiable": nbad, "others": others})
	return segfetcher.SegmentsReply{Segments: out, Peer: &net.UDPAddr{IP: net.IPv4(127, 0, 0, 7), Port: 30252}}, nil
}

func runRemote(ctx context.Context, w *vt.Writer, n, per, slowEvery int, caseNo *int) {
	world := segs.NewWorld(time.Now())
	defer world.Close()
	ver := compat.Verifier{Verifier: world.Verifier()}
	rogue := segs.NewKeySigner()
	for i := 0; i < n; i++ {
		rng := vt.Rand(int64(300000 + i))
		o := segs.DefaultOpts()
		o.MaxISD = 1
		o.MaxCore = 3
		var t *segs.Topo
		if i%4 == 3 {
			t = segs.Directed(rng, i%2) // the two single-ISD families
		} else {
			t = segs.Gen(rng, o)
			for try := 0; try < 6 && len(t.Order) < 4; try++ {
				t = segs.Gen(rng, o)
			}
		}
		t0 := time.Now().Truncate(time.Second)
		off := int(t0.Sub(world.Base) / time.Second)
		for _, ia := range t.Order {
			t.ASes[ia].MaxExp = uint8(rng.Intn(7))
			if rng.Intn(2) == 0 {
				t.ASes[ia].MaxExp = uint8(20 + rng.Intn(200))
			}
		}
		good := func(ia addr.IA) beaconing.SignerGen {
			return segs.SignerGen{world.SignerIA(ia, off-100000, off+300000)}
		}
		var sets, badSets []*segs.SegSet
		for r := 0; r < 1+rng.Intn(2); r++ {
			j := rng.Intn(4)
			ts := t0.Add(-time.Duration(j*3375/10+150) * time.Second)
			ss, err := t.Run(ts, rng, 5, good)
			if err != nil {
				vt.Fatal("beaconing: %v", err)
			}
			sets = append(sets, ss)
		}
		bs, err := t.Run(t0.Add(-100*time.Second), rng, 5, func(addr.IA) beaconing.SignerGen { return segs.SignerGen{rogue} })
		if err != nil {
			vt.Fatal("beaconing: %v", err)
		}
		badSets = append(badSets, bs)
		for k := 0; k < per; k++ {
			local := t.Order[rng.Intn(len(t.Order))]
			dst := t.Order[rng.Intn(len(t.Order))]
			if rng.Intn(6) == 0 {
				dst = addr.MustIAFrom(local.ISD(), 0)
			}
			if dst == local {
				continue
			}
			// slow-server family: segments that run out WHILE the segments are being fetched (the server
			// answers one second after they expired): they must not yield a path
			slow := k == 0 && i%slowEvery == 0
			var shortSet *segs.SegSet
			var runOut time.Time
			if slow {
				saved := map[addr.IA]uint8{}
				for _, ia := range t.Order {
					saved[ia] = t.ASes[ia].MaxExp
					t.ASes[ia].MaxExp = 2
				}
				// expiry = ts + 3 units = ts + 1012.5 s, placed about 4 s from now
				tsShort := time.Now().Add(4 * time.Second).Add(-1012500 * time.Millisecond).Truncate(time.Second)
				runOut = tsShort.Add(1012500 * time.Millisecond)
				ss, err := t.Run(tsShort, rng, 5, good)
				if err != nil {
					vt.Fatal("beaconing: %v", err)
				}
				shortSet = ss
				for _, ia := range t.Order {
					t.ASes[ia].MaxExp = saved[ia]
				}
			}
			name := fmt.Sprintf("file:veriflookupr%d_%d", os.Getpid(), atomic.AddInt64(&dbSeq, 1))
			pdb, err := pathsqlite.New(name, &db.SqliteConfig{InMemory: true})
			if err != nil {
				vt.Fatal("pathdb: %v", err)
			}
			rpc := &scriptedRPC{good: map[seg.Type][]*seg.PathSegment{}, bad: map[seg.Type][]*seg.PathSegment{},
				extra: rng.Intn(3), sent: map[string]*seg.Meta{}}
			useSets := sets
			if slow { // only the short-lived segments: every path of this lookup runs out during the fetch
				useSets = []*segs.SegSet{shortSet}
				rpc.until = runOut.Add(time.Second)
			}
			for _, ss := range useSets {
				for ia, l := range ss.Down {
					for _, s := range l {
						if ia == local {
							if _, err := pdb.Insert(ctx, &seg.Meta{Segment: s, Type: seg.TypeUp}); err != nil {
								vt.Fatal("insert: %v", err)
							}
						} else {
							rpc.good[seg.TypeDown] = append(rpc.good[seg.TypeDown], s)
						}
					}
				}
				rpc.good[seg.TypeCore] = append(rpc.good[seg.TypeCore], ss.Core...)
			}
			for _, ss := range badSets {
				for ia, l := range ss.Down {
					if ia != local {
						rpc.bad[seg.TypeDown] = append(rpc.bad[seg.TypeDown], l...)
					}
				}
				rpc.bad[seg.TypeCore] = append(rpc.bad[seg.TypeCore], ss.Core...)
			}
			rc := memrevcache.New()
			revs := []vt.M{}
			if rng.Intn(3) == 0 && len(t.Links) > 0 {
				l := t.Links[rng.Intn(len(t.Links))]
				ri := &path_mgmt.RevInfo{IfID: iface.ID(l.AIf), RawIsdas: l.A, LinkType: proto.LinkType_core,
					RawTimestamp: uint32(t0.Unix() - 30), RawTTL: 300}
				if _, err := rc.Insert(ctx, ri); err != nil {
					vt.Fatal("revcache insert: %v", err)
				}
				revs = append(revs, vt.M{"ia": l.A.String(), "id": int(l.AIf), "ts": -30000, "ttl": 300000})
			}
			sp := &recSplitter{inner: &segfetcher.MultiSegmentSplitter{LocalIA: local, Core: t.ASes[local].Core,
				Inspector: inspector{t}}}
			rr := &passResolver{inner: segfetcher.NewResolver(pdb, rc, upLocal{})}
			p := &segfetcher.Pather{IA: local, MTU: 1400, NextHopper: hopper{}, RevCache: rc,
				Fetcher: &segfetcher.Fetcher{Resolver: rr,
					Requester: &segfetcher.DefaultRequester{RPC: rpc, DstProvider: dstProv{}, MaxRetries: 1},
					ReplyHandler: &seghandler.Handler{Verifier: &seghandler.DefaultVerifier{Verifier: ver},
						Storage: &seghandler.DefaultStorage{PathDB: pdb, RevCache: rc}},
					PathDB: pdb, QueryInterval: time.Minute,
					Metrics: segfetcher.NewFetcherMetrics(fmt.Sprintf("r%d_%d", i, k))},
				Splitter: sp}
			ev := vt.M{"ev": "lookup", "mode": "remote"}
			var rpc1 []vt.M
			func() {
				defer func() {
					if r := recover(); r != nil {
						ev["ev"] = "panic"
						ev["what"] = fmt.Sprint(r)
					}
				}()
				now0 := time.Now()
				paths, err := p.GetPaths(ctx, dst, false)
				now1 := time.Now()
				ev["paths"] = pathsJSON(paths, t0)
				ev["err"] = err != nil
				ev["now0"] = int(now0.Sub(t0) / time.Millisecond)
				ev["now1"] = int(now1.Sub(t0)/time.Millisecond) + 1
				ev["tfetch"] = ev["now0"]
				if !rpc.last.IsZero() {
					ev["tfetch"] = int(rpc.last.Sub(t0) / time.Millisecond)
				}
				rpc.until = time.Time{}
				rpc1 = append([]vt.M{}, rpc.calls...)
				// the segments the first lookup worked with: resolved locally + verifiable replies
				var ups, cores, downs []*seg.PathSegment
				seen := map[string]bool{}
				put := func(typ seg.Type, s *seg.PathSegment) {
					key := fmt.Sprintf("%v/%x/%d", typ, s.FullID(), s.Info.Timestamp.Unix())
					if seen[key] {
						return
					}
					seen[key] = true
					switch typ {
					case seg.TypeUp:
						ups = append(ups, s)
					case seg.TypeCore:
						cores = append(cores, s)
					case seg.TypeDown:
						downs = append(downs, s)
					}
				}
				for _, s := range rr.segs {
					put(s.Type, s.Segment)
				}
				for _, m := range rpc.sent {
					put(m.Type, m.Segment)
				}
				ev["ups"] = segs.SegsJSON(ups, t0)
				ev["cores_"] = segs.SegsJSON(cores, t0)
				ev["downs"] = segs.SegsJSON(downs, t0)
				// second lookup: what is asked again?
				rpc.calls = nil
				if _, err := p.GetPaths(ctx, dst, false); err != nil {
					_ = err
				}
			}()
			if ev["ev"] == "panic" {
				*caseNo++
				w.Emit(vt.M{"ev": "reset", "case": *caseNo})
				w.Emit(ev)
				pdb.Close()
				continue
			}
			rpc2 := append([]vt.M{}, rpc.calls...)
			fillCommon(ev, t, local, dst, sp.reqs, revs)
			ev["rpc1"] = orEmpty(rpc1)
			ev["rpc2"] = orEmpty(rpc2)
			*caseNo++
			w.Emit(vt.M{"ev": "reset", "case": *caseNo})
			w.Emit(ev)
			pdb.Close()
		}
	}
}

func orEmpty(l []vt.M) []vt.M {
	if l == nil {
		return []vt.M{}
	}
	return l
}
