package main

import (
	"encoding/binary"
	"fmt"
	"math/rand"

	"github.com/gopacket/gopacket"

	"github.com/scionproto/scion/pkg/addr"
	"github.com/scionproto/scion/pkg/slayers"

	"verifharness/internal/vt"
)

// ---- C20: checksums ------------------------------------------------------------------------------

type csumCase struct {
	kind           string
	proto          int
	ckoff          int
	srcIA, dstIA   addr.IA
	src, dst       []byte
	srcT, dstT     slayers.AddrType
	upper          []byte // as serialized by the real code (base case)
	serializeError string
}

func addrTypeFor(n int, svc bool) slayers.AddrType {
	switch n {
	case 4:
		if svc {
			return slayers.T4Svc
		}
		return slayers.T4Ip
	case 16:
		return slayers.T16Ip
	}
	return slayers.AddrType(n/4 - 1) // 8 and 12 byte addresses: type 0, length code 1 / 2
}

func scionHdr(c *csumCase) *slayers.SCION {
	return &slayers.SCION{SrcIA: c.srcIA, DstIA: c.dstIA, RawSrcAddr: c.src, RawDstAddr: c.dst,
		SrcAddrType: c.srcT, DstAddrType: c.dstT}
}

var scmpKinds = []string{"scmp-echo-request", "scmp-echo-reply", "scmp-traceroute-request", "scmp-traceroute-reply",
	"scmp-dest-unreachable", "scmp-packet-too-big", "scmp-parameter-problem", "scmp-ext-if-down", "scmp-int-conn-down"}

// dirtyBuffer returns a serialize buffer as a long-running sender has it: used before, Clear()ed, its
// memory still holding the non-zero bytes of earlier packets (a fresh all-zero buffer is only the special
// case). Every second call returns a fresh buffer so that both situations are exercised.
var (
	reused     = gopacket.NewSerializeBuffer()
	dirtyCalls int
)

func dirtyBuffer(need int) gopacket.SerializeBuffer {
	dirtyCalls++
	if dirtyCalls%2 == 0 {
		return gopacket.NewSerializeBuffer()
	}
	_ = reused.Clear()
	junk, err := reused.PrependBytes(need + 64)
	if err != nil {
		return gopacket.NewSerializeBuffer()
	}
	for i := range junk {
		junk[i] = byte(0xa5 + 31*i + dirtyCalls)
		if junk[i] == 0 {
			junk[i] = 0xff
		}
	}
	_ = reused.Clear()
	return reused
}

// serializeBase builds the upper layer with the real message layers (FixLengths + ComputeChecksums).
func serializeBase(c *csumCase, rng *rand.Rand, payload []byte) (b []byte, err error) {
	defer func() {
		if e := recover(); e != nil {
			err = fmt.Errorf("panic: %v", e)
		}
	}()
	scn := scionHdr(c)
	buf := dirtyBuffer(len(payload) + 64)
	opts := gopacket.SerializeOptions{FixLengths: true, ComputeChecksums: true}
	var layers []gopacket.SerializableLayer
	if c.kind == "udp" {
		u := &slayers.UDP{SrcPort: uint16(rng.Intn(65536)), DstPort: uint16(rng.Intn(65536))}
		u.SetNetworkLayerForChecksum(scn)
		layers = append(layers, u)
	} else {
		s := &slayers.SCMP{}
		s.SetNetworkLayerForChecksum(scn)
		var msg gopacket.SerializableLayer
		code := slayers.SCMPCode(rng.Intn(4))
		ia := addr.IA(rng.Uint64())
		switch c.kind {
		case "scmp-echo-request":
			s.TypeCode = slayers.CreateSCMPTypeCode(slayers.SCMPTypeEchoRequest, 0)
			msg = &slayers.SCMPEcho{Identifier: uint16(rng.Intn(65536)), SeqNumber: uint16(rng.Intn(65536))}
		case "scmp-echo-reply":
			s.TypeCode = slayers.CreateSCMPTypeCode(slayers.SCMPTypeEchoReply, 0)
			msg = &slayers.SCMPEcho{Identifier: uint16(rng.Intn(65536)), SeqNumber: uint16(rng.Intn(65536))}
		case "scmp-traceroute-request":
			s.TypeCode = slayers.CreateSCMPTypeCode(slayers.SCMPTypeTracerouteRequest, 0)
			msg = &slayers.SCMPTraceroute{Identifier: uint16(rng.Intn(65536)), Sequence: uint16(rng.Intn(65536))}
		case "scmp-traceroute-reply":
			s.TypeCode = slayers.CreateSCMPTypeCode(slayers.SCMPTypeTracerouteReply, 0)
			msg = &slayers.SCMPTraceroute{Identifier: uint16(rng.Intn(65536)), Sequence: uint16(rng.Intn(65536)),
				IA: ia, Interface: rng.Uint64()}
		case "scmp-dest-unreachable":
			s.TypeCode = slayers.CreateSCMPTypeCode(slayers.SCMPTypeDestinationUnreachable, code)
			msg = &slayers.SCMPDestinationUnreachable{}
		case "scmp-packet-too-big":
			s.TypeCode = slayers.CreateSCMPTypeCode(slayers.SCMPTypePacketTooBig, 0)
			msg = &slayers.SCMPPacketTooBig{MTU: uint16(rng.Intn(65536))}
		case "scmp-parameter-problem":
			s.TypeCode = slayers.CreateSCMPTypeCode(slayers.SCMPTypeParameterProblem, code)
			msg = &slayers.SCMPParameterProblem{Pointer: uint16(rng.Intn(65536))}
		case "scmp-ext-if-down":
			s.TypeCode = slayers.CreateSCMPTypeCode(slayers.SCMPTypeExternalInterfaceDown, 0)
			msg = &slayers.SCMPExternalInterfaceDown{IA: ia, IfID: rng.Uint64()}
		case "scmp-int-conn-down":
			s.TypeCode = slayers.CreateSCMPTypeCode(slayers.SCMPTypeInternalConnectivityDown, 0)
			msg = &slayers.SCMPInternalConnectivityDown{IA: ia, Ingress: rng.Uint64(), Egress: rng.Uint64()}
		}
		layers = append(layers, s, msg)
	}
	layers = append(layers, gopacket.Payload(payload))
	if err := gopacket.SerializeLayers(buf, opts, layers...); err != nil {
		return nil, err
	}
	return append([]byte(nil), buf.Bytes()...), nil
}

// reserialize hands the (modified) upper-layer bytes and address header to the real code again
// (ComputeChecksums, lengths untouched) and returns the checksum the real code writes; -1: error.
func reserialize(c *csumCase, scn *slayers.SCION, upper []byte) (ck int) {
	defer func() {
		if e := recover(); e != nil {
			ck = -2
		}
	}()
	buf := dirtyBuffer(len(upper) + 64)
	opts := gopacket.SerializeOptions{ComputeChecksums: true}
	var err error
	if c.proto == int(slayers.L4UDP) {
		u := &slayers.UDP{SrcPort: binary.BigEndian.Uint16(upper[0:]), DstPort: binary.BigEndian.Uint16(upper[2:]),
			Length: binary.BigEndian.Uint16(upper[4:])}
		u.SetNetworkLayerForChecksum(scn)
		err = gopacket.SerializeLayers(buf, opts, u, gopacket.Payload(upper[8:]))
	} else {
		s := &slayers.SCMP{TypeCode: slayers.CreateSCMPTypeCode(slayers.SCMPType(upper[0]), slayers.SCMPCode(upper[1]))}
		s.SetNetworkLayerForChecksum(scn)
		err = gopacket.SerializeLayers(buf, opts, s, gopacket.Payload(upper[4:]))
	}
	if err != nil {
		return -1
	}
	return int(binary.BigEndian.Uint16(buf.Bytes()[c.ckoff:]))
}

func iaBytes(ia addr.IA) []byte {
	var b [8]byte
	binary.BigEndian.PutUint64(b[:], uint64(ia))
	return b[:]
}

func flipped(b []byte, off, bit int) []byte {
	o := append([]byte(nil), b...)
	o[off] ^= 1 << uint(bit)
	return o
}

func runCsum(n int) {
	rng := vt.Rand(20)
	lens := []int{}
	for i := 0; i <= 64; i++ {
		lens = append(lens, i)
	}
	lens = append(lens, 255, 256, 257, 1231, 1232, 8999, 9000)
	for len(lens) < n {
		switch rng.Intn(3) {
		case 0:
			lens = append(lens, rng.Intn(9001))
		case 1:
			lens = append(lens, rng.Intn(300))
		default:
			lens = append(lens, 1000+rng.Intn(600))
		}
	}
	alens := []int{4, 16, 8, 12}
	perm := rng.Perm(len(lens))
	type spec struct {
		plen, sl, dl, kind int  // kind 0: udp, 1..9: scmpKinds
		svc                bool // 4-byte addresses are service addresses
	}
	var specs []spec
	for i, plen := range lens {
		// all 16 address-length combinations and all 10 upper-layer kinds rotate against the lengths
		j := perm[i]
		k := j % 10
		if i%3 == 0 {
			k = 0
		}
		specs = append(specs, spec{plen, alens[j%4], alens[(j/4)%4], k, rng.Intn(2) == 0})
	}
	// directed: service and 16-byte addresses x odd upper-layer lengths (odd payload for UDP's 8-byte and the
	// SCMP headers alike), UDP and SCMP
	odd := []int{1, 3, 5, 33, 255, 257, 1231, 8999}
	if !vt.Thorough() {
		odd = []int{1, 33, 257, 8999}
	}
	for ai, a := range [][2]int{{4, 16}, {16, 4}, {16, 16}, {4, 4}} {
		for oi, plen := range odd {
			specs = append(specs, spec{plen, a[0], a[1], (ai + oi) % 2 * (1 + (ai+oi)%9), true})
		}
	}
	for i, sp := range specs {
		c := &csumCase{}
		plen, sl, dl := sp.plen, sp.sl, sp.dl
		if sp.kind == 0 {
			c.kind, c.proto, c.ckoff = "udp", int(slayers.L4UDP), 6
		} else {
			c.kind, c.proto, c.ckoff = scmpKinds[sp.kind-1], int(slayers.L4SCMP), 2
		}
		c.src, c.dst = make([]byte, sl), make([]byte, dl)
		rng.Read(c.src)
		rng.Read(c.dst)
		c.srcT, c.dstT = addrTypeFor(sl, sp.svc), addrTypeFor(dl, sp.svc)
		if sp.svc && sl == 4 {
			copy(c.src, []byte{0, byte(1 + rng.Intn(2)), 0, 0}) // DS / CS in the upper 16 bits, zero padding
		}
		if sp.svc && dl == 4 {
			copy(c.dst, []byte{0x80, byte(1 + rng.Intn(2)), 0, 0}) // multicast flag set
		}
		c.srcIA, c.dstIA = addr.IA(rng.Uint64()), addr.IA(rng.Uint64())
		switch rng.Intn(8) {
		case 0:
			c.srcIA, c.dstIA = 0, 0
		case 1:
			c.srcIA, c.dstIA = ^addr.IA(0), ^addr.IA(0)
			for k := range c.src {
				c.src[k] = 0xff
			}
		}
		payload := make([]byte, plen)
		rng.Read(payload)
		switch i % 5 {
		case 1: // zero tail: the length can shrink without touching non-zero data
			for k := plen / 3; k < plen; k++ {
				payload[k] = 0
			}
		case 2:
			for k := range payload {
				payload[k] = 0xff
			}
		}
		upper, err := serializeBase(c, rng, payload)
		if err != nil {
			w.Emit(vt.M{"ev": "error", "kind": c.kind, "len": plen, "err": err.Error()})
			continue
		}
		c.upper = upper
		scn := scionHdr(c)

		type flip struct{ reg, off, bit int }
		var fl []flip
		regions := [][]byte{iaBytes(c.dstIA), iaBytes(c.srcIA), c.dst, c.src, upper}
		full := i%4 == 0
		for reg := 0; reg < 4; reg++ {
			nbits := len(regions[reg]) * 8
			if full {
				for k := 0; k < nbits; k++ {
					fl = append(fl, flip{reg, k / 8, k % 8})
				}
			} else {
				for k := 0; k < 6; k++ {
					b := rng.Intn(nbits)
					fl = append(fl, flip{reg, b / 8, b % 8})
				}
			}
		}
		ul := len(upper)
		if ul <= 80 && (full || ul <= 24) {
			for k := 0; k < ul*8; k++ {
				fl = append(fl, flip{4, k / 8, k % 8})
			}
		} else {
			edge := 16
			if !full {
				edge = 2
			}
			for k := 0; k < edge*8 && k < ul*8; k++ {
				fl = append(fl, flip{4, k / 8, k % 8})
				fl = append(fl, flip{4, ul - 1 - k/8, k % 8})
			}
			nr := 24
			if full {
				nr = 128
			}
			if vt.Thorough() {
				nr *= 2
			}
			for k := 0; k < nr; k++ {
				b := rng.Intn(ul * 8)
				fl = append(fl, flip{4, b / 8, b % 8})
			}
		}
		flips := make([][]int, 0, len(fl))
		for _, f := range fl {
			if f.reg == 4 && (f.off == c.ckoff || f.off == c.ckoff+1) {
				continue
			}
			s2 := scionHdr(c)
			up2 := upper
			switch f.reg {
			case 0:
				s2.DstIA = addr.IA(binary.BigEndian.Uint64(flipped(regions[0], f.off, f.bit)))
			case 1:
				s2.SrcIA = addr.IA(binary.BigEndian.Uint64(flipped(regions[1], f.off, f.bit)))
			case 2:
				s2.RawDstAddr = flipped(c.dst, f.off, f.bit)
			case 3:
				s2.RawSrcAddr = flipped(c.src, f.off, f.bit)
			case 4:
				up2 = flipped(upper, f.off, f.bit)
			}
			flips = append(flips, []int{f.reg, f.off, f.bit, reserialize(c, s2, up2)})
		}
		// the upper-layer length alone: extend with / cut off zero bytes
		lensOut := [][]int{}
		for k := 0; k < 14; k++ {
			nl := ul ^ (1 << uint(k))
			if nl < c.ckoff+2 || nl > 16500 {
				continue
			}
			var up2 []byte
			if nl > ul {
				up2 = append(append([]byte(nil), upper...), make([]byte, nl-ul)...)
			} else {
				up2 = append([]byte(nil), upper[:nl]...)
			}
			// the checksum field of the input is overwritten by the real code
			lensOut = append(lensOut, []int{nl, reserialize(c, scn, up2)})
		}
		w.Emit(vt.M{"ev": "csum", "kind": c.kind, "proto": c.proto, "ckoff": c.ckoff,
			"dstIA": vt.Ints(regions[0]), "srcIA": vt.Ints(regions[1]), "dst": vt.Ints(c.dst), "src": vt.Ints(c.src),
			"dstT": int(c.dstT), "srcT": int(c.srcT), "upper": vt.Ints(upper), "flips": flips, "lens": lensOut})
	}
}
