package main

import (
	"bytes"
	"encoding/binary"
	"fmt"
	"math/rand"

	"github.com/scionproto/scion/pkg/addr"
	"github.com/scionproto/scion/pkg/slayers"
	"github.com/scionproto/scion/pkg/slayers/path"
	"github.com/scionproto/scion/pkg/slayers/path/empty"
	"github.com/scionproto/scion/pkg/slayers/path/epic"
	"github.com/scionproto/scion/pkg/slayers/path/onehop"
	"github.com/scionproto/scion/pkg/slayers/path/scion"
	"github.com/scionproto/scion/pkg/spao"

	"verifharness/internal/vt"
)

// ---- C21: authenticated fields -------------------------------------------------------------------

// authPkt holds every input of the MAC as plain values, so that one bit of one field can be flipped.
type authPkt struct {
	version, tc    uint8
	flowID         uint32
	nextHdr        uint8
	hdrLen         uint8
	payloadLen     uint16
	pathType       uint8
	dt, dl, st, sl uint8 // 2 bits each
	dstIA, srcIA   [8]byte
	dst, src       []byte
	pk             string // empty | onehop | scion | epic
	rep            string // raw | decoded
	rawPath        []byte
	l4             uint8
	pld            []byte
	alg            uint8
	ts             uint64
	spi            uint32
	key            []byte
}

func (p *authPkt) clone() *authPkt {
	q := *p
	q.dst = append([]byte(nil), p.dst...)
	q.src = append([]byte(nil), p.src...)
	q.rawPath = append([]byte(nil), p.rawPath...)
	q.pld = append([]byte(nil), p.pld...)
	return &q
}

func buildPath(pk, rep string, raw []byte) (path.Path, error) {
	switch pk {
	case "empty":
		return empty.Path{}, nil
	case "onehop":
		p := &onehop.Path{}
		return p, p.DecodeFromBytes(raw)
	case "scion":
		if rep == "decoded" {
			p := &scion.Decoded{}
			return p, p.DecodeFromBytes(raw)
		}
		p := &scion.Raw{}
		return p, p.DecodeFromBytes(raw)
	case "epic":
		p := &epic.Path{}
		return p, p.DecodeFromBytes(raw)
	}
	return nil, fmt.Errorf("unknown path kind %s", pk)
}

// mac runs the real spao.ComputeAuthCMAC on the packet; nil: the packet could not be built.
func (p *authPkt) mac() (m []byte, built bool, err error) {
	defer func() {
		if e := recover(); e != nil {
			m, built, err = nil, true, fmt.Errorf("panic: %v", e)
		}
	}()
	pth, perr := buildPath(p.pk, p.rep, p.rawPath)
	if perr != nil {
		return nil, false, nil
	}
	opt, oerr := slayers.NewPacketAuthOption(slayers.PacketAuthOptionParams{SPI: slayers.PacketAuthSPI(p.spi),
		Algorithm: slayers.PacketAuthAlg(p.alg), TimestampSN: p.ts, Auth: make([]byte, 16)})
	if oerr != nil {
		return nil, false, nil
	}
	s := &slayers.SCION{Version: p.version, TrafficClass: p.tc, FlowID: p.flowID, NextHdr: slayers.L4ProtocolType(p.nextHdr),
		HdrLen: p.hdrLen, PayloadLen: p.payloadLen, PathType: path.Type(p.pathType),
		DstAddrType: slayers.AddrType(p.dt<<2 | p.dl), SrcAddrType: slayers.AddrType(p.st<<2 | p.sl),
		DstIA: addr.IA(binary.BigEndian.Uint64(p.dstIA[:])), SrcIA: addr.IA(binary.BigEndian.Uint64(p.srcIA[:])),
		RawDstAddr: p.dst, RawSrcAddr: p.src, Path: pth}
	out, err := spao.ComputeAuthCMAC(spao.MACInput{Key: p.key, Header: opt, ScionLayer: s,
		PldType: slayers.L4ProtocolType(p.l4), Pld: p.pld}, make([]byte, spao.MACBufferSize), make([]byte, 16))
	if err != nil {
		return nil, true, err
	}
	return append([]byte(nil), out...), true, nil
}

func resize(b []byte, n int) []byte {
	o := make([]byte, n)
	copy(o, b)
	return o
}

type scalarField struct {
	name string
	bits int
}

var scalarFields = []scalarField{{"version", 4}, {"tc", 8}, {"flowid", 20}, {"nexthdr", 8}, {"hdrlen", 8}, {"payloadlen", 16},
	{"pathtype", 8}, {"dt", 2}, {"dl", 2}, {"st", 2}, {"sl", 2}, {"l4type", 8}, {"alg", 8}, {"ts", 48}, {"spi", 16}}

func (p *authPkt) flipScalar(name string, k int) {
	m := uint64(1) << uint(k)
	switch name {
	case "version":
		p.version ^= uint8(m)
	case "tc":
		p.tc ^= uint8(m)
	case "flowid":
		p.flowID ^= uint32(m)
	case "nexthdr":
		p.nextHdr ^= uint8(m)
	case "hdrlen":
		p.hdrLen ^= uint8(m)
	case "payloadlen":
		p.payloadLen ^= uint16(m)
	case "pathtype":
		p.pathType ^= uint8(m)
	case "dt":
		p.dt ^= uint8(m)
	case "st":
		p.st ^= uint8(m)
	case "dl": // the length code: the raw address follows its declared length
		p.dl ^= uint8(m)
		p.dst = resize(p.dst, 4*(1+int(p.dl)))
	case "sl":
		p.sl ^= uint8(m)
		p.src = resize(p.src, 4*(1+int(p.sl)))
	case "l4type":
		p.l4 ^= uint8(m)
	case "alg":
		p.alg ^= uint8(m)
	case "ts":
		p.ts ^= m
	case "spi": // the protocol identifier bits of a DRKey SPI / low bits of a non-DRKey SPI: the kind stays
		p.spi ^= uint32(m)
	}
}

var spiKinds = []string{"nodrkey", "ashost-sender", "ashost-receiver", "hosthost-sender", "hosthost-receiver"}

func spiValue(kind string, rng *rand.Rand) uint32 {
	proto := uint16(1 + rng.Intn(65535))
	var v slayers.PacketAuthSPI
	switch kind {
	case "nodrkey":
		return uint32(1<<21) + uint32(rng.Intn(1<<30))
	case "ashost-sender":
		v, _ = slayers.MakePacketAuthSPIDRKey(proto, slayers.PacketAuthASHost, slayers.PacketAuthSenderSide)
	case "ashost-receiver":
		v, _ = slayers.MakePacketAuthSPIDRKey(proto, slayers.PacketAuthASHost, slayers.PacketAuthReceiverSide)
	case "hosthost-sender":
		v, _ = slayers.MakePacketAuthSPIDRKey(proto, slayers.PacketAuthHostHost, slayers.PacketAuthSenderSide)
	case "hosthost-receiver":
		v, _ = slayers.MakePacketAuthSPIDRKey(proto, slayers.PacketAuthHostHost, slayers.PacketAuthReceiverSide)
	}
	return uint32(v)
}

func scionRaw(rng *rand.Rand, segs [3]int) []byte {
	ninf, nh := 0, 0
	for i, s := range segs {
		if s > 0 {
			ninf = i + 1
		}
		nh += s
	}
	raw := make([]byte, 4+8*ninf+12*nh)
	rng.Read(raw)
	curHF := rng.Intn(nh)
	curINF := 0
	for acc := segs[0]; curINF < 2 && curHF >= acc; curINF++ {
		acc += segs[curINF+1]
	}
	meta := uint32(curINF)<<30 | uint32(curHF)<<24 | uint32(rng.Intn(64))<<18 | uint32(segs[0])<<12 | uint32(segs[1])<<6 | uint32(segs[2])
	binary.BigEndian.PutUint32(raw, meta)
	return raw
}

type pathVariant struct {
	pk, rep string
	segs    [3]int
}

func runAuth(n int) {
	rng := vt.Rand(21)
	variants := []pathVariant{{"empty", "raw", [3]int{}}, {"onehop", "raw", [3]int{}},
		{"scion", "raw", [3]int{2, 0, 0}}, {"epic", "raw", [3]int{2, 2, 0}}, {"scion", "decoded", [3]int{1, 2, 0}},
		{"scion", "raw", [3]int{2, 3, 2}}, {"scion", "decoded", [3]int{1, 1, 1}}, {"epic", "raw", [3]int{1, 2, 2}},
		{"scion", "decoded", [3]int{3, 0, 0}}, {"scion", "raw", [3]int{2, 2, 0}}, {"epic", "raw", [3]int{2, 0, 0}}}
	if n < len(variants) {
		variants = variants[:n]
	}
	for len(variants) < n {
		segs := [3]int{1 + rng.Intn(5), rng.Intn(5), 0}
		if segs[1] > 0 {
			segs[2] = rng.Intn(4)
		}
		variants = append(variants, pathVariant{[]string{"scion", "scion", "epic"}[rng.Intn(3)],
			[]string{"raw", "decoded"}[rng.Intn(2)], segs})
	}
	alens := []int{4, 8, 12, 16}
	for vi, v := range variants {
		if v.pk == "epic" {
			v.rep = "raw"
		}
		for si, kind := range spiKinds {
			p := &authPkt{version: uint8(rng.Intn(16)), tc: uint8(rng.Intn(256)), flowID: uint32(rng.Intn(1 << 20)),
				nextHdr: uint8(rng.Intn(256)), payloadLen: uint16(rng.Intn(65536)), pk: v.pk, rep: v.rep,
				l4: []uint8{17, 202, 6, uint8(rng.Intn(256))}[rng.Intn(4)], alg: 0, ts: uint64(rng.Int63n(1 << 48)),
				spi: spiValue(kind, rng), key: make([]byte, 16)}
			rng.Read(p.key)
			rng.Read(p.dstIA[:])
			rng.Read(p.srcIA[:])
			p.dl, p.sl = uint8((vi+si)%4), uint8((vi/4+si)%4)
			p.dt, p.st = uint8(rng.Intn(4)), uint8(rng.Intn(4))
			p.dst, p.src = make([]byte, alens[p.dl]), make([]byte, alens[p.sl])
			rng.Read(p.dst)
			rng.Read(p.src)
			p.pld = make([]byte, []int{0, 1, 7, 16, 33, 200}[rng.Intn(6)])
			rng.Read(p.pld)
			switch v.pk {
			case "empty":
				p.pathType = 0
			case "scion":
				p.pathType, p.rawPath = 1, scionRaw(rng, v.segs)
			case "onehop":
				p.pathType, p.rawPath = 2, make([]byte, 32)
				rng.Read(p.rawPath)
			case "epic":
				p.pathType = 3
				p.rawPath = make([]byte, 16)
				rng.Read(p.rawPath)
				p.rawPath = append(p.rawPath, scionRaw(rng, v.segs)...)
			}
			p.hdrLen = uint8((12 + 16 + len(p.dst) + len(p.src) + len(p.rawPath)) / 4)
			observeFlips(p, v, kind, rng, false)
		}
	}
	// address sweep: every SPI kind x every combination of address lengths x IP / service address types
	// (the "covered addresses" clause per DRKey type), on an empty and on a 3-segment path with peering flags
	for si, kind := range spiKinds {
		for dl := 0; dl < 4; dl++ {
			for sl := 0; sl < 4; sl++ {
				v := pathVariant{"empty", "raw", [3]int{}}
				if (dl+sl+si)%2 == 1 {
					v = pathVariant{"scion", []string{"raw", "decoded"}[(dl+si)%2], [3]int{2, 2, 1}}
				}
				p := &authPkt{version: 0, tc: uint8(rng.Intn(256)), flowID: uint32(rng.Intn(1 << 20)), nextHdr: 201,
					payloadLen: uint16(rng.Intn(65536)), pk: v.pk, rep: v.rep, l4: 17, ts: uint64(rng.Int63n(1 << 48)),
					spi: spiValue(kind, rng), key: make([]byte, 16), dl: uint8(dl), sl: uint8(sl)}
				rng.Read(p.key)
				rng.Read(p.dstIA[:])
				rng.Read(p.srcIA[:])
				p.dst, p.src = make([]byte, 4*(dl+1)), make([]byte, 4*(sl+1))
				rng.Read(p.dst)
				rng.Read(p.src)
				if dl == 0 && (sl+si)%2 == 0 {
					p.dt = 1 // service address
					copy(p.dst, []byte{0, 2, 0, 0})
				}
				if sl == 0 && (dl+si)%2 == 0 {
					p.st = 1
					copy(p.src, []byte{0x80, 1, 0, 0})
				}
				p.pld = make([]byte, 9)
				rng.Read(p.pld)
				if v.pk == "scion" {
					p.pathType, p.rawPath = 1, scionRaw(rng, v.segs)
					for i := 0; i < 3; i++ { // peering flag on the middle segment, construction direction mixed
						p.rawPath[4+8*i] = byte(i%2)<<1 | byte((i+si)%2)
					}
				}
				p.hdrLen = uint8((12 + 16 + len(p.dst) + len(p.src) + len(p.rawPath)) / 4)
				observeFlips(p, v, kind, rng, true)
			}
		}
	}
}

// observeFlips computes the base authenticator of p with the real code, then the authenticator after every
// single-bit flip of every field (addrOnly: only the address-related fields and the traffic class), and logs
// one record.
func observeFlips(p *authPkt, v pathVariant, kind string, rng *rand.Rand, addrOnly bool) {
	base, built, err := p.mac()
	if err != nil || !built {
		w.Emit(vt.M{"ev": "error", "pk": v.pk, "spi": kind, "err": fmt.Sprint(err), "path": vt.Ints(p.rawPath)})
		return
	}
	flips := [][]any{}
	observe := func(field string, off, bit int, q *authPkt) {
		m, built, err := q.mac()
		switch {
		case !built:
			flips = append(flips, []any{field, off, bit, 0, 0})
		case err != nil: // the real code refuses the flipped packet: no authenticator at all
			flips = append(flips, []any{field, off, bit, 1, 1})
		case bytes.Equal(m, base):
			flips = append(flips, []any{field, off, bit, 0, 1})
		default:
			flips = append(flips, []any{field, off, bit, 1, 1})
		}
	}
	for _, f := range scalarFields {
		if addrOnly && f.name != "dt" && f.name != "dl" && f.name != "st" && f.name != "sl" && f.name != "tc" {
			continue
		}
		for k := 0; k < f.bits; k++ {
			q := p.clone()
			q.flipScalar(f.name, k)
			observe(f.name, 0, k, q)
		}
	}
	byteFields := []struct {
		name string
		get  func(*authPkt) []byte
	}{{"dstia", func(q *authPkt) []byte { return q.dstIA[:] }}, {"srcia", func(q *authPkt) []byte { return q.srcIA[:] }},
		{"dsthost", func(q *authPkt) []byte { return q.dst }}, {"srchost", func(q *authPkt) []byte { return q.src }},
		{"path", func(q *authPkt) []byte { return q.rawPath }}, {"payload", func(q *authPkt) []byte { return q.pld }}}
	for _, f := range byteFields {
		nb := len(f.get(p))
		if addrOnly && (f.name == "path" || f.name == "payload") {
			continue
		}
		for off := 0; off < nb; off++ {
			if addrOnly && !vt.Thorough() && off != 0 && off != nb-1 && rng.Intn(4) != 0 {
				continue
			}
			if f.name == "payload" && off >= 8 && off < nb-8 && rng.Intn(8) != 0 {
				continue
			}
			for k := 0; k < 8; k++ {
				q := p.clone()
				f.get(q)[off] ^= 1 << uint(k)
				observe(f.name, off, k, q)
			}
		}
	}
	if addrOnly {
		w.Emit(vt.M{"ev": "auth", "pk": v.pk, "rep": v.rep, "segs": []int{v.segs[0], v.segs[1], v.segs[2]}, "spi": kind,
			"dl": len(p.dst), "sl": len(p.src), "pathlen": len(p.rawPath), "flips": flips})
		return
	}
	q := p.clone()
	q.pld = append(q.pld, 0)
	observe("payloadsize", 0, 0, q)
	if len(p.pld) > 0 {
		q = p.clone()
		q.pld = q.pld[:len(q.pld)-1]
		observe("payloadsize", 1, 0, q)
	}
	w.Emit(vt.M{"ev": "auth", "pk": v.pk, "rep": v.rep, "segs": []int{v.segs[0], v.segs[1], v.segs[2]}, "spi": kind,
		"dl": len(p.dst), "sl": len(p.src), "pathlen": len(p.rawPath), "flips": flips})
}
