package main

import (
	"encoding/binary"
	"fmt"
	"math/rand"

	"github.com/gopacket/gopacket"

	"github.com/scionproto/scion/pkg/addr"
	"github.com/scionproto/scion/pkg/slayers"
	"github.com/scionproto/scion/pkg/slayers/path"
	"github.com/scionproto/scion/pkg/slayers/path/empty"
	"github.com/scionproto/scion/pkg/slayers/path/epic"
	"github.com/scionproto/scion/pkg/slayers/path/onehop"
	"github.com/scionproto/scion/pkg/slayers/path/scion"

	"verifharness/internal/vt"
)

// ---- C18: header round trip ----------------------------------------------------------------------
//
// Values are logged in the shape of spec/WireOps.tla (Items): integers for fields up to 24 bits, byte
// lists for wider ones.

type feedback struct{ truncated bool }

type decoder interface {
	DecodeFromBytes([]byte, gopacket.DecodeFeedback) error
}
type contentser interface{ LayerContents() []byte }

func (f *feedback) SetTruncated() { f.truncated = true }

func u64b(v uint64) []int {
	var b [8]byte
	binary.BigEndian.PutUint64(b[:], v)
	return vt.Ints(b[:])
}
func u32b(v uint32) []int {
	var b [4]byte
	binary.BigEndian.PutUint32(b[:], v)
	return vt.Ints(b[:])
}
func b2i(b bool) int {
	if b {
		return 1
	}
	return 0
}

func infoVal(f path.InfoField) vt.M {
	return vt.M{"peer": b2i(f.Peer), "consdir": b2i(f.ConsDir), "segid": int(f.SegID), "ts": u32b(f.Timestamp)}
}
func hopVal(h path.HopField) vt.M {
	return vt.M{"ialert": b2i(h.IngressRouterAlert), "ealert": b2i(h.EgressRouterAlert), "exptime": int(h.ExpTime),
		"ingress": int(h.ConsIngress), "egress": int(h.ConsEgress), "mac": vt.Ints(h.Mac[:])}
}

func decodedVal(kind string, d *scion.Decoded) vt.M {
	infos, hops := []vt.M{}, []vt.M{}
	for _, f := range d.InfoFields {
		infos = append(infos, infoVal(f))
	}
	for _, h := range d.HopFields {
		hops = append(hops, hopVal(h))
	}
	return vt.M{"kind": kind, "currinf": int(d.PathMeta.CurrINF), "currhf": int(d.PathMeta.CurrHF),
		"seglen": []int{int(d.PathMeta.SegLen[0]), int(d.PathMeta.SegLen[1]), int(d.PathMeta.SegLen[2])},
		"infos":  infos, "hops": hops}
}

// pathVal extracts the field values of a path object of the real code.
func pathVal(p path.Path) (vt.M, error) {
	switch q := p.(type) {
	case empty.Path:
		return vt.M{"kind": "empty"}, nil
	case *scion.Decoded:
		return decodedVal("scion", q), nil
	case *scion.Raw:
		d, err := q.ToDecoded()
		if err != nil {
			return nil, err
		}
		return decodedVal("scion", d), nil
	case *epic.Path:
		if q.ScionPath == nil {
			return nil, fmt.Errorf("epic without scion path")
		}
		d, err := q.ScionPath.ToDecoded()
		if err != nil {
			return nil, err
		}
		m := decodedVal("epic", d)
		m["pktid"] = append(u32b(q.PktID.Timestamp), u32b(q.PktID.Counter)...)
		m["phvf"], m["lhvf"] = vt.Ints(q.PHVF), vt.Ints(q.LHVF)
		return m, nil
	case *onehop.Path:
		return vt.M{"kind": "onehop", "infos": []vt.M{infoVal(q.Info)}, "hops": []vt.M{hopVal(q.FirstHop), hopVal(q.SecondHop)}}, nil
	}
	return nil, fmt.Errorf("unknown path %T", p)
}

func scionVal(s *slayers.SCION) (vt.M, error) {
	pv, err := pathVal(s.Path)
	if err != nil {
		return nil, err
	}
	return vt.M{"version": int(s.Version), "tc": int(s.TrafficClass), "flowid": int(s.FlowID), "nexthdr": int(s.NextHdr),
		"hdrlen": int(s.HdrLen), "payloadlen": int(s.PayloadLen), "pathtype": int(s.PathType),
		"dt": int(s.DstAddrType>>2) & 3, "dl": int(s.DstAddrType) & 3, "st": int(s.SrcAddrType>>2) & 3, "sl": int(s.SrcAddrType) & 3,
		"dstia": u64b(uint64(s.DstIA)), "srcia": u64b(uint64(s.SrcIA)), "dst": vt.Ints(s.RawDstAddr), "src": vt.Ints(s.RawSrcAddr),
		"path": pv}, nil
}

type optLike struct {
	t    uint8
	data []byte
}

func extVal(nh slayers.L4ProtocolType, extLen uint8, opts []optLike) vt.M {
	os := []vt.M{}
	for _, o := range opts {
		os = append(os, vt.M{"type": int(o.t), "data": vt.Ints(o.data)})
	}
	return vt.M{"nexthdr": int(nh), "extlen": int(extLen), "opts": os}
}
func hbhOpts(h *slayers.HopByHopExtn) []optLike {
	var r []optLike
	for _, o := range h.Options {
		r = append(r, optLike{uint8(o.OptType), o.OptData})
	}
	return r
}
func e2eOpts(h *slayers.EndToEndExtn) []optLike {
	var r []optLike
	for _, o := range h.Options {
		r = append(r, optLike{uint8(o.OptType), o.OptData})
	}
	return r
}

func udpVal(u *slayers.UDP) vt.M {
	return vt.M{"sport": int(u.SrcPort), "dport": int(u.DstPort), "len": int(u.Length), "cksum": int(u.Checksum)}
}

// scmpMsg returns a fresh message layer for an SCMP type (nil: none known).
func scmpMsg(t slayers.SCMPType) gopacket.SerializableLayer {
	switch t {
	case slayers.SCMPTypeDestinationUnreachable:
		return &slayers.SCMPDestinationUnreachable{}
	case slayers.SCMPTypePacketTooBig:
		return &slayers.SCMPPacketTooBig{}
	case slayers.SCMPTypeParameterProblem:
		return &slayers.SCMPParameterProblem{}
	case slayers.SCMPTypeExternalInterfaceDown:
		return &slayers.SCMPExternalInterfaceDown{}
	case slayers.SCMPTypeInternalConnectivityDown:
		return &slayers.SCMPInternalConnectivityDown{}
	case slayers.SCMPTypeEchoRequest, slayers.SCMPTypeEchoReply:
		return &slayers.SCMPEcho{}
	case slayers.SCMPTypeTracerouteRequest, slayers.SCMPTypeTracerouteReply:
		return &slayers.SCMPTraceroute{}
	}
	return nil
}

func scmpVal(s *slayers.SCMP, msg gopacket.SerializableLayer) vt.M {
	m := vt.M{"type": int(s.TypeCode.Type()), "code": int(s.TypeCode.Code()), "cksum": int(s.Checksum)}
	switch q := msg.(type) {
	case *slayers.SCMPPacketTooBig:
		m["mtu"] = int(q.MTU)
	case *slayers.SCMPParameterProblem:
		m["pointer"] = int(q.Pointer)
	case *slayers.SCMPExternalInterfaceDown:
		m["ia"], m["ifid"] = u64b(uint64(q.IA)), u64b(q.IfID)
	case *slayers.SCMPInternalConnectivityDown:
		m["ia"], m["ingress"], m["egress"] = u64b(uint64(q.IA)), u64b(q.Ingress), u64b(q.Egress)
	case *slayers.SCMPEcho:
		m["id"], m["seq"] = int(q.Identifier), int(q.SeqNumber)
	case *slayers.SCMPTraceroute:
		m["id"], m["seq"], m["ia"], m["ifid"] = int(q.Identifier), int(q.Sequence), u64b(uint64(q.IA)), u64b(q.Interface)
	}
	return m
}

// ---- decoding with the real code, layer by layer --------------------------------------------------

type decLayer struct {
	name     string
	in       []byte
	acc      bool
	trunc    bool
	panicked bool
	d        vt.M
	contents int // bytes consumed by this layer's header
	reser    []byte
	reserOK  bool
}

func serializeOnly(ls ...gopacket.SerializableLayer) (b []byte, ok bool) {
	defer func() {
		if e := recover(); e != nil {
			b, ok = nil, false
		}
	}()
	buf := gopacket.NewSerializeBuffer()
	if err := gopacket.SerializeLayers(buf, gopacket.SerializeOptions{}, ls...); err != nil {
		return nil, false
	}
	return append([]byte(nil), buf.Bytes()...), true
}

// decodeOne runs f (a DecodeFromBytes of the real code) and records panics.
func decodeOne(l *decLayer, f func(df gopacket.DecodeFeedback) error) {
	df := &feedback{}
	defer func() {
		if e := recover(); e != nil {
			l.panicked, l.acc = true, false
		}
		l.trunc = df.truncated
	}()
	l.acc = f(df) == nil
}

// decodeChain decodes a whole packet the way gopacket would chain the layers (NextHdr driven).
func decodeChain(b []byte) []decLayer {
	var out []decLayer
	s := &slayers.SCION{}
	l := decLayer{name: "scion", in: b, d: vt.M{}}
	decodeOne(&l, func(df gopacket.DecodeFeedback) error { return s.DecodeFromBytes(b, df) })
	if l.acc {
		v, err := scionVal(s)
		if err != nil {
			l.acc = false
		} else {
			l.d, l.contents = v, len(s.Contents)
			l.reser, l.reserOK = serializeOnly(s)
		}
	}
	out = append(out, l)
	if !l.acc {
		return out
	}
	next, rest := s.NextHdr, s.Payload
	seenHBH, seenE2E := false, false
	for {
		switch next {
		case slayers.HopByHopClass:
			if seenHBH || seenE2E {
				return out
			}
			seenHBH = true
			h := &slayers.HopByHopExtn{}
			l := decLayer{name: "hbh", in: rest, d: vt.M{}}
			decodeOne(&l, func(df gopacket.DecodeFeedback) error { return h.DecodeFromBytes(rest, df) })
			if l.acc {
				l.d, l.contents = extVal(h.NextHdr, h.ExtLen, hbhOpts(h)), len(h.Contents)
				l.reser, l.reserOK = serializeOnly(h)
			}
			out = append(out, l)
			if !l.acc {
				return out
			}
			next, rest = h.NextHdr, h.Payload
		case slayers.End2EndClass:
			if seenE2E {
				return out
			}
			seenE2E = true
			h := &slayers.EndToEndExtn{}
			l := decLayer{name: "e2e", in: rest, d: vt.M{}}
			decodeOne(&l, func(df gopacket.DecodeFeedback) error { return h.DecodeFromBytes(rest, df) })
			if l.acc {
				l.d, l.contents = extVal(h.NextHdr, h.ExtLen, e2eOpts(h)), len(h.Contents)
				l.reser, l.reserOK = serializeOnly(h)
			}
			out = append(out, l)
			if !l.acc {
				return out
			}
			next, rest = h.NextHdr, h.Payload
		case slayers.L4UDP:
			u := &slayers.UDP{}
			l := decLayer{name: "udp", in: rest, d: vt.M{}}
			decodeOne(&l, func(df gopacket.DecodeFeedback) error { return u.DecodeFromBytes(rest, df) })
			if l.acc {
				l.d, l.contents = udpVal(u), len(u.Contents)
				l.reser, l.reserOK = serializeOnly(u)
			}
			return append(out, l)
		case slayers.L4SCMP:
			sc := &slayers.SCMP{}
			l := decLayer{name: "scmp", in: rest, d: vt.M{}}
			var msg gopacket.SerializableLayer
			decodeOne(&l, func(df gopacket.DecodeFeedback) error {
				if err := sc.DecodeFromBytes(rest, df); err != nil {
					return err
				}
				msg = scmpMsg(sc.TypeCode.Type())
				if msg == nil {
					return nil
				}
				return msg.(decoder).DecodeFromBytes(sc.Payload, df)
			})
			if l.acc {
				l.d = scmpVal(sc, msg)
				l.contents = len(sc.Contents)
				if msg != nil {
					l.contents += len(msg.(contentser).LayerContents())
					l.reser, l.reserOK = serializeOnly(sc, msg)
				} else {
					l.reser, l.reserOK = serializeOnly(sc)
				}
			}
			return append(out, l)
		default:
			return out
		}
	}
}

// ---- generation -----------------------------------------------------------------------------------

// pick returns a boundary or seeded value of a field of the given width.
func pick(rng *rand.Rand, bits uint) uint64 {
	max := uint64(1)<<bits - 1
	switch rng.Intn(6) {
	case 0:
		return 0
	case 1:
		return 1 & max
	case 2:
		return max - 1
	case 3:
		return max
	}
	return rng.Uint64() & max
}

func genInfo(rng *rand.Rand) path.InfoField {
	return path.InfoField{Peer: rng.Intn(2) == 0, ConsDir: rng.Intn(2) == 0, SegID: uint16(pick(rng, 16)), Timestamp: uint32(pick(rng, 32))}
}
func genHop(rng *rand.Rand) path.HopField {
	h := path.HopField{IngressRouterAlert: rng.Intn(2) == 0, EgressRouterAlert: rng.Intn(2) == 0, ExpTime: uint8(pick(rng, 8)),
		ConsIngress: uint16(pick(rng, 16)), ConsEgress: uint16(pick(rng, 16))}
	switch rng.Intn(3) {
	case 0:
		rng.Read(h.Mac[:])
	case 1:
		for i := range h.Mac {
			h.Mac[i] = 0xff
		}
	}
	return h
}

var segShapes = [][3]int{{1, 0, 0}, {2, 0, 0}, {3, 0, 0}, {1, 1, 0}, {2, 2, 0}, {1, 2, 0}, {1, 1, 1}, {2, 3, 1}, {6, 0, 0}, {2, 2, 2},
	{63, 0, 0}, {62, 1, 1}, {21, 21, 22}, {63, 1, 0}, {1, 63, 0}}

func genDecoded(rng *rand.Rand) *scion.Decoded {
	segs := segShapes[rng.Intn(len(segShapes))]
	if rng.Intn(4) == 0 {
		segs = [3]int{1 + rng.Intn(8), rng.Intn(8), 0}
		if segs[1] > 0 {
			segs[2] = rng.Intn(8)
		}
	}
	d := &scion.Decoded{}
	nh := 0
	for i, s := range segs {
		d.PathMeta.SegLen[i] = uint8(s)
		if s > 0 {
			d.NumINF = i + 1
		}
		nh += s
	}
	d.NumHops = nh
	d.PathMeta.CurrHF = uint8(pick(rng, 6))
	d.PathMeta.CurrINF = uint8(pick(rng, 2))
	for i := 0; i < d.NumINF; i++ {
		d.InfoFields = append(d.InfoFields, genInfo(rng))
	}
	for i := 0; i < nh; i++ {
		d.HopFields = append(d.HopFields, genHop(rng))
	}
	return d
}

func genPath(rng *rand.Rand) (path.Path, path.Type) {
	switch rng.Intn(8) {
	case 0:
		return empty.Path{}, empty.PathType
	case 1:
		return &onehop.Path{Info: genInfo(rng), FirstHop: genHop(rng), SecondHop: genHop(rng)}, onehop.PathType
	case 2, 3:
		d := genDecoded(rng)
		raw := make([]byte, d.Len())
		if err := d.SerializeTo(raw); err != nil {
			return d, scion.PathType
		}
		r := &scion.Raw{}
		if err := r.DecodeFromBytes(raw); err != nil {
			return d, scion.PathType
		}
		if rng.Intn(2) == 0 {
			return r, scion.PathType // the raw representation
		}
		p := &epic.Path{PktID: epic.PktID{Timestamp: uint32(pick(rng, 32)), Counter: uint32(pick(rng, 32))},
			PHVF: make([]byte, 4), LHVF: make([]byte, 4), ScionPath: r}
		rng.Read(p.PHVF)
		rng.Read(p.LHVF)
		return p, epic.PathType
	}
	return genDecoded(rng), scion.PathType
}

type genOpt struct {
	t      uint8
	data   []byte
	ax, ay uint8
}

var aligns = [][2]uint8{{0, 0}, {4, 2}, {8, 0}, {4, 0}, {2, 1}, {8, 6}, {4, 3}, {1, 0}}

func genOpts(rng *rand.Rand) []genOpt {
	if rng.Intn(10) == 0 {
		// boundary: the largest extensions ExtLen can describe (1024 / 1020 / 1016 bytes incl. the 2-byte base)
		total := []int{1022, 1018, 1014}[rng.Intn(3)]
		var out []genOpt
		for total > 0 {
			dl := 255
			if total < 257 {
				dl = total - 2
			} else if total-257 == 1 { // never leave a single byte (an option needs 2)
				dl = 254
			}
			o := genOpt{t: uint8(2 + rng.Intn(254)), data: make([]byte, dl)}
			rng.Read(o.data)
			out = append(out, o)
			total -= dl + 2
		}
		return out
	}
	n := []int{0, 1, 1, 2, 3, 5}[rng.Intn(6)]
	var out []genOpt
	budget := 900
	for i := 0; i < n; i++ {
		dl := []int{0, 1, 2, 3, 4, 5, 12, 28, 255, rng.Intn(64)}[rng.Intn(10)]
		if dl+10 > budget {
			dl = 0
		}
		budget -= dl + 10
		o := genOpt{t: uint8(2 + rng.Intn(254)), data: make([]byte, dl)}
		rng.Read(o.data)
		a := aligns[rng.Intn(len(aligns))]
		o.ax, o.ay = a[0], a[1]
		out = append(out, o)
	}
	return out
}

func optsVal(nh slayers.L4ProtocolType, opts []genOpt) vt.M {
	os := []vt.M{}
	for _, o := range opts {
		os = append(os, vt.M{"type": int(o.t), "data": vt.Ints(o.data), "ax": int(o.ax), "ay": int(o.ay)})
	}
	return vt.M{"nexthdr": int(nh), "opts": os}
}

type genPkt struct {
	layers []gopacket.SerializableLayer
	names  []string
	vals   []vt.M // generated values of the extension layers (the others are read back from the structs)
	scn    *slayers.SCION
	udp    *slayers.UDP
	scmp   *slayers.SCMP
	msg    gopacket.SerializableLayer
	pld    []byte
}

var scmpTypes = []slayers.SCMPType{1, 2, 4, 5, 6, 128, 129, 130, 131}

func genPacket(rng *rand.Rand) *genPkt {
	g := &genPkt{}
	p, pt := genPath(rng)
	dl, sl := rng.Intn(4), rng.Intn(4)
	s := &slayers.SCION{Version: uint8(pick(rng, 4)), TrafficClass: uint8(pick(rng, 8)), FlowID: uint32(pick(rng, 20)),
		PathType: pt, Path: p, DstAddrType: slayers.AddrType(rng.Intn(4)<<2 | dl), SrcAddrType: slayers.AddrType(rng.Intn(4)<<2 | sl),
		DstIA: addr.IA(pick(rng, 64)), SrcIA: addr.IA(pick(rng, 64)), RawDstAddr: make([]byte, 4*(dl+1)), RawSrcAddr: make([]byte, 4*(sl+1))}
	rng.Read(s.RawDstAddr)
	if rng.Intn(3) > 0 {
		rng.Read(s.RawSrcAddr)
	}
	g.scn = s
	g.layers, g.names, g.vals = append(g.layers, s), append(g.names, "scion"), append(g.vals, nil)
	l4udp := rng.Intn(2) == 0
	l4 := slayers.L4SCMP
	if l4udp {
		l4 = slayers.L4UDP
	}
	hasHBH, hasE2E := rng.Intn(3) == 0, rng.Intn(3) == 0
	first := l4
	if hasE2E {
		first = slayers.End2EndClass
	}
	if hasHBH {
		first = slayers.HopByHopClass
	}
	s.NextHdr = first
	if hasHBH {
		nh := l4
		if hasE2E {
			nh = slayers.End2EndClass
		}
		opts := genOpts(rng)
		h := &slayers.HopByHopExtn{}
		h.NextHdr = nh
		for _, o := range opts {
			h.Options = append(h.Options, &slayers.HopByHopOption{OptType: slayers.OptionType(o.t), OptData: o.data, OptAlign: [2]uint8{o.ax, o.ay}})
		}
		g.layers, g.names, g.vals = append(g.layers, h), append(g.names, "hbh"), append(g.vals, optsVal(nh, opts))
	}
	if hasE2E {
		opts := genOpts(rng)
		h := &slayers.EndToEndExtn{}
		h.NextHdr = l4
		for _, o := range opts {
			h.Options = append(h.Options, &slayers.EndToEndOption{OptType: slayers.OptionType(o.t), OptData: o.data, OptAlign: [2]uint8{o.ax, o.ay}})
		}
		g.layers, g.names, g.vals = append(g.layers, h), append(g.names, "e2e"), append(g.vals, optsVal(l4, opts))
	}
	g.pld = make([]byte, []int{0, 1, 3, 8, 37, 64}[rng.Intn(6)])
	rng.Read(g.pld)
	if l4udp {
		g.udp = &slayers.UDP{SrcPort: uint16(pick(rng, 16)), DstPort: uint16(pick(rng, 16)), Checksum: uint16(pick(rng, 16))}
		g.udp.SetNetworkLayerForChecksum(s)
		g.layers, g.names, g.vals = append(g.layers, g.udp), append(g.names, "udp"), append(g.vals, nil)
	} else {
		t := scmpTypes[rng.Intn(len(scmpTypes))]
		g.scmp = &slayers.SCMP{TypeCode: slayers.CreateSCMPTypeCode(t, slayers.SCMPCode(pick(rng, 8))), Checksum: uint16(pick(rng, 16))}
		g.scmp.SetNetworkLayerForChecksum(s)
		switch m := scmpMsg(t).(type) {
		case *slayers.SCMPPacketTooBig:
			m.MTU = uint16(pick(rng, 16))
			g.msg = m
		case *slayers.SCMPParameterProblem:
			m.Pointer = uint16(pick(rng, 16))
			g.msg = m
		case *slayers.SCMPExternalInterfaceDown:
			m.IA, m.IfID = addr.IA(pick(rng, 64)), pick(rng, 64)
			g.msg = m
		case *slayers.SCMPInternalConnectivityDown:
			m.IA, m.Ingress, m.Egress = addr.IA(pick(rng, 64)), pick(rng, 64), pick(rng, 64)
			g.msg = m
		case *slayers.SCMPEcho:
			m.Identifier, m.SeqNumber = uint16(pick(rng, 16)), uint16(pick(rng, 16))
			g.msg = m
		case *slayers.SCMPTraceroute:
			m.Identifier, m.Sequence, m.IA, m.Interface = uint16(pick(rng, 16)), uint16(pick(rng, 16)), addr.IA(pick(rng, 64)), pick(rng, 64)
			g.msg = m
		default:
			g.msg = m
		}
		g.layers, g.names, g.vals = append(g.layers, g.scmp, g.msg), append(g.names, "scmp", "scmpmsg"), append(g.vals, nil, nil)
	}
	g.layers = append(g.layers, gopacket.Payload(g.pld))
	return g
}

func emitDec(l decLayer, origin string) {
	if l.panicked {
		w.Emit(vt.M{"ev": "panic", "layer": l.name, "origin": origin, "in": vt.Ints(l.in)})
		return
	}
	in := l.in
	if !l.acc && len(in) > 48 {
		in = in[:48] // a rejected input is never judged (rejecting is always allowed): keep a prefix for the reader
	}
	w.Emit(vt.M{"ev": "dec", "layer": l.name, "origin": origin, "in": vt.Ints(in), "inlen": len(l.in), "acc": l.acc, "trunc": l.trunc,
		"d": l.d, "contents": l.contents, "reser": vt.Ints(l.reser), "reserok": l.reserOK})
}

// encodeCase: serialize a generated packet with the real code (FixLengths), decode it again layer by
// layer and log value, bytes and re-decoded value per layer. Returns the packet bytes.
func encodeCase(rng *rand.Rand, id int) []byte {
	g := genPacket(rng)
	var pkt []byte
	var serr error
	func() {
		defer func() {
			if e := recover(); e != nil {
				serr = fmt.Errorf("panic: %v", e)
			}
		}()
		buf := gopacket.NewSerializeBuffer()
		serr = gopacket.SerializeLayers(buf, gopacket.SerializeOptions{FixLengths: true, ComputeChecksums: rng.Intn(2) == 0}, g.layers...)
		pkt = append([]byte(nil), buf.Bytes()...)
	}()
	if serr != nil {
		w.Emit(vt.M{"ev": "encerror", "id": id, "layers": g.names, "err": serr.Error()})
		return nil
	}
	// the values after serialization (FixLengths has filled in the length fields)
	vals := map[string]vt.M{}
	if v, err := scionVal(g.scn); err == nil {
		vals["scion"] = v
	}
	for i, n := range g.names {
		if n == "hbh" || n == "e2e" {
			vals[n] = g.vals[i]
		}
	}
	if g.udp != nil {
		vals["udp"] = udpVal(g.udp)
	}
	if g.scmp != nil {
		vals["scmp"] = scmpVal(g.scmp, g.msg)
	}
	dec := decodeChain(pkt)
	var reser []byte
	allOK := true
	for _, l := range dec {
		if l.panicked || !l.acc {
			emitDec(l, "own-serialization") // the real decoder refuses what the real encoder produced
			allOK = false
			break
		}
		v, ok := vals[l.name]
		if !ok {
			continue
		}
		w.Emit(vt.M{"ev": "enc", "layer": l.name, "id": id, "v": v, "bytes": vt.Ints(l.in[:l.contents]), "redec": l.d,
			"after": len(l.in) - l.contents, "udplen": len(l.in)})
		reser = append(reser, l.reser...)
		allOK = allOK && l.reserOK
	}
	if allOK {
		reser = append(reser, g.pld...)
		w.Emit(vt.M{"ev": "pkt", "id": id, "nlayers": len(dec), "want": len(vals), "bytes": vt.Ints(pkt), "reser": vt.Ints(reser)})
	}
	return pkt
}

// mutate derives decoder inputs from a valid packet: truncations, length / type fields set to boundary
// values, bit flips, random tails.
func mutate(rng *rand.Rand, pkt []byte) [][]byte {
	var out [][]byte
	cp := func() []byte { return append([]byte(nil), pkt...) }
	n := len(pkt)
	for i := 0; i < 6; i++ {
		out = append(out, cp()[:rng.Intn(n+1)])
	}
	hdr := int(pkt[5]) * 4
	for _, cut := range []int{0, 1, 11, 12, 13, 27, 28, 35, hdr - 1, hdr, hdr + 1, hdr + 2, hdr + 3, hdr + 4, hdr + 7, hdr + 8, n - 1} {
		if cut >= 0 && cut <= n {
			out = append(out, cp()[:cut])
		}
	}
	setByte := func(off int, v byte) {
		if off < n {
			b := cp()
			b[off] = v
			out = append(out, b)
		}
	}
	for _, v := range []byte{0, 1, 3, 7, 8, 9, pkt[5] - 1, pkt[5] + 1, 254, 255} {
		setByte(5, v) // HdrLen
	}
	for _, v := range []byte{0, 1, 2, 3, 4, 255, 200, 201, 17, 202} {
		if rng.Intn(2) == 0 {
			setByte(8, v) // PathType
			setByte(4, v) // NextHdr
		}
	}
	for _, v := range []byte{0x00, 0x03, 0x30, 0x33, 0xff, byte(rng.Intn(256))} {
		setByte(9, v) // DT DL ST SL
	}
	po := 12 + 16 + 4*(int(pkt[9]>>4&3)+1) + 4*(int(pkt[9]&3)+1)
	for k := 0; k < 4; k++ { // path meta header (segment lengths, pointers)
		setByte(po+k, byte(pick(rng, 8)))
		setByte(po+16+k, byte(pick(rng, 8))) // the same for EPIC
	}
	for k := 0; k < 8; k++ { // the bytes right after the SCION header: NextHdr/ExtLen, option type/len, UDP/SCMP header
		setByte(hdr+k, byte(pick(rng, 8)))
	}
	for k := 0; k < 10; k++ {
		b := cp()
		b[rng.Intn(n)] ^= 1 << uint(rng.Intn(8))
		out = append(out, b)
	}
	for k := 0; k < 3; k++ {
		b := cp()
		i := rng.Intn(n)
		rng.Read(b[i:])
		out = append(out, b)
	}
	b := make([]byte, rng.Intn(80))
	rng.Read(b)
	out = append(out, b)
	return out
}

// structural derives directed decoder inputs from the layer structure of a valid packet: every declared
// length one below / at / one above what the data holds, and cuts around every structural boundary.
func structural(pkt []byte, dec []decLayer) [][]byte {
	var out [][]byte
	n := len(pkt)
	cp := func() []byte { return append([]byte(nil), pkt...) }
	set := func(off int, v int) {
		if off >= 0 && off < n && v >= 0 && v <= 255 {
			b := cp()
			b[off] = byte(v)
			out = append(out, b)
		}
	}
	cut := func(at int) {
		for _, d := range []int{-1, 0, 1} {
			if at+d >= 0 && at+d <= n {
				out = append(out, cp()[:at+d])
			}
		}
	}
	for _, l := range dec {
		if !l.acc {
			break
		}
		start := n - len(l.in)
		end := start + l.contents
		cut(end)
		switch l.name {
		case "scion":
			al := 16 + 4*(int(pkt[9]>>4&3)+1) + 4*(int(pkt[9]&3)+1)
			cut(12)
			cut(12 + al)
			po := 12 + al
			if pkt[8] == 3 {
				cut(po + 16)
				po += 16
			}
			if pkt[8] == 1 || pkt[8] == 3 {
				cut(po + 4)
				meta := binary.BigEndian.Uint32(pkt[po:])
				for seg := 0; seg < 3; seg++ { // each segment length one up / one down
					sh := uint(12 - 6*seg)
					cur := int(meta >> sh & 0x3f)
					for _, d := range []int{-1, 1} {
						if cur+d >= 0 && cur+d <= 63 {
							b := cp()
							binary.BigEndian.PutUint32(b[po:], meta&^(0x3f<<sh)|uint32(cur+d)<<sh)
							out = append(out, b)
						}
					}
				}
			}
			for _, d := range []int{-1, 1} { // one address length code up / down
				set(9, int(pkt[9])+d)
				set(9, int(pkt[9])+16*d)
			}
		case "hbh", "e2e":
			set(start+1, int(pkt[start+1])-1) // ExtLen
			set(start+1, int(pkt[start+1])+1)
			set(start+1, (n-start)/4)   // just beyond the data
			set(start+1, (n-start)/4-1) // exactly the data
			for off := start + 2; off < end; {
				if pkt[off] == 0 {
					off++
					continue
				}
				cut(off + 1)
				if off+1 >= end {
					break
				}
				fit := end - off - 2 // the data length with which the option ends exactly at the end
				for _, d := range []int{-2, -1, 0, 1, 2} {
					set(off+1, fit+d)
				}
				set(off, 0) // turn the option into Pad1
				off += 2 + int(pkt[off+1])
			}
		case "udp":
			for _, v := range []int{0, 7, 8, 9, n - start - 1, n - start, n - start + 1} {
				if v >= 0 && v < 65536 && start+6 <= n {
					b := cp()
					binary.BigEndian.PutUint16(b[start+4:], uint16(v))
					out = append(out, b)
				}
			}
			cut(start + 8)
		case "scmp":
			cut(start + 4)
			for _, t := range scmpTypes { // another message type over the same bytes
				set(start, int(t))
			}
		}
	}
	return out
}

// chainPanics hands the bytes to gopacket's own decoder chain (the registered slayers decoders with their
// NextHdr glue), with gopacket's panic recovery switched off, and records a panic as an event.
func chainPanics(b []byte) {
	defer func() {
		if e := recover(); e != nil {
			w.Emit(vt.M{"ev": "panic", "layer": "gopacket-chain", "origin": "mutant", "in": vt.Ints(b)})
		}
	}()
	p := gopacket.NewPacket(b, slayers.LayerTypeSCION, gopacket.DecodeOptions{NoCopy: true, SkipDecodeRecovery: true})
	_ = p.Layers()
}

func runCodec(n int) {
	rng := vt.Rand(18)
	for i := 0; i < n; i++ {
		pkt := encodeCase(rng, i)
		if pkt == nil || len(pkt) > 700 && rng.Intn(4) != 0 {
			continue // long paths: mostly the encoder direction only
		}
		if i%3 != 0 {
			continue
		}
		muts := mutate(rng, pkt)
		if i%6 == 0 || len(pkt) < 200 {
			muts = append(muts, structural(pkt, decodeChain(pkt))...)
		}
		for _, m := range muts {
			chainPanics(m)
			for _, l := range decodeChain(m) {
				emitDec(l, "mutant")
			}
		}
	}
}
