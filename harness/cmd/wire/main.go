// Driver of the Wire* specification family (C18 header round trip, C20 checksums, C21 authenticated
// fields). It builds packets with the real pkg/slayers / pkg/spao code, logs the bytes the real code
// produced and never judges: TLC evaluates the layout / checksum / classification operators of
// spec/WireOps.tla on the logged records.
package main

import (
	"flag"
	"fmt"

	"verifharness/internal/vt"
)

var w *vt.Writer

func main() {
	mode := flag.String("mode", "", "csum | auth | codec")
	out := flag.String("out", "trace.ndjson", "output")
	n := flag.Int("n", 100, "size parameter (cases)")
	flag.Parse()
	w = vt.NewWriter(*out)
	switch *mode {
	case "csum":
		runCsum(*n)
	case "auth":
		runAuth(*n)
	case "codec":
		runCodec(*n)
	default:
		vt.Fatal("unknown mode %q", *mode)
	}
	w.Close()
	fmt.Printf("records=%d\n", w.N)
}
