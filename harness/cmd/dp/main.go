// Command dp drives the real border-router data plane for the journey properties (C02, C03, C04,
// C07, C10, C22): real beacons -> real combinator -> real routers.  It concretises scenarios,
// executes and logs; every verdict is TLC's.
package main

import (
	"flag"
	"fmt"
	"net/netip"
	"os"
	"runtime/debug"
	"runtime/pprof"
	"strings"

	"github.com/scionproto/scion/private/path/combinator"

	"verifharness/internal/dp"
	"verifharness/internal/vt"
)

func main() {
	out := flag.String("out", "dp.ndjson", "trace file")
	mode := flag.String("mode", "honest", "honest|line|tamper|fault|alert|topo")
	topos := flag.String("topos", "T1,T2,T3", "topology families")
	maxJ := flag.Int("max", 0, "maximum number of journeys per topology (0 = all)")
	nsFlag := flag.String("ns", "", "line mode: comma separated segment lengths (default: the tier's list)")
	nrand := flag.Int("random", 0, "number of additional seeded random topologies (honest mode)")
	prof := flag.String("cpuprofile", "", "write a CPU profile")
	flag.Parse()
	// every real data plane holds 2 MB of (mostly empty) pointer tables the collector scans per cycle
	debug.SetGCPercent(1000)
	if *prof != "" {
		f, _ := os.Create(*prof)
		_ = pprof.StartCPUProfile(f)
		defer pprof.StopCPUProfile()
	}
	w := vt.NewWriter(*out)
	defer w.Close()
	st := &stats{}
	if *mode == "conc" {
		conc(w, st)
		*topos = ""
	}
	if *mode == "line" {
		line(w, st, *nsFlag)
		*topos = ""
	}
	for _, name := range strings.Split(*topos, ",") {
		if name == "" {
			continue
		}
		t := topoByName(name)
		if t == nil {
			vt.Fatal("unknown topology %q", name)
		}
		switch *mode {
		case "topo":
			w.Emit(map[string]any{"ev": "topo", "t": t.JSON()})
		case "honest":
			honest(w, t, 4, *maxJ, st)
		case "tamper":
			tamper(w, t, *maxJ, st)
		case "fault":
			fault(w, t, st)
		case "alert":
			alert(w, t, st)
		default:
			vt.Fatal("unknown mode %q", *mode)
		}
	}
	rng := vt.Rand(77)
	for i := 0; i < *nrand; i++ {
		switch *mode {
		case "honest":
			honest(w, dp.Random(rng, 5+rng.Intn(8)), 5, 60, st)
		case "tamper":
			tamper(w, dp.Random(rng, 5+rng.Intn(5)), 25, st)
		case "fault":
			fault(w, dp.Random(rng, 5+rng.Intn(5)), st)
		case "alert":
			alert(w, dp.Random(rng, 5+rng.Intn(5)), st)
		}
	}
	fmt.Fprintf(os.Stderr, "dp: journeys=%d events=%d\n", st.journeys, w.N)
}

type stats struct{ journeys int }

func topoByName(n string) *dp.Topo {
	switch n {
	case "T1":
		return dp.T1()
	case "T2":
		return dp.T2()
	case "T3":
		return dp.T3()
	}
	return nil
}

func honest(w *vt.Writer, t *dp.Topo, maxLen, maxJ int, st *stats) {
	rng := vt.Rand(int64(len(t.Name)) + int64(t.Name[1]))
	c := dp.NewControl(t, rng, maxLen)
	c.Beacon()
	n := dp.NewNet(c, dp.NetOpts{})
	// the non-Linux flavour of sibling links (detachedLink sharing the internal connection)
	var nDet *dp.Net
	for _, a := range t.ASes {
		if a.Routers > 1 && vt.Thorough() && nDet == nil {
			nDet = dp.NewNet(c, dp.NetOpts{SiblingDetached: true})
		}
	}
	w.Emit(map[string]any{"ev": "topo", "t": t.JSON()})
	k := 0
	for src := range t.ASes {
		for dst := range t.ASes {
			if src == dst {
				continue
			}
			ups, cores, downs := c.SegsFor(src, dst)
			paths := combinator.Combine(t.ASes[src].IA, t.ASes[dst].IA, ups, cores, downs, true)
			if maxJ > 0 { // sample: a seeded shuffle so that the cap does not favour one pair
				rng.Shuffle(len(paths), func(i, j int) { paths[i], paths[j] = paths[j], paths[i] })
				if len(paths) > 3 {
					paths = paths[:3]
				}
			}
			for _, p := range paths {
				if maxJ > 0 && k >= maxJ {
					return
				}
				k++
				st.journeys++
				rev := "pather"
				if k%2 == 0 {
					rev = "raw"
				}
				n.Run(w, src, dst, p, dp.JourneyOpts{ID: st.journeys, Mode: "honest", PT: "scion",
					L4: "udp", HBH: k%3 == 0, E2E: k%4 == 1, Rev: rev, Rng: rng})
				if nDet != nil {
					st.journeys++
					nDet.Run(w, src, dst, p, dp.JourneyOpts{ID: st.journeys, Mode: "honest",
						PT: "scion", L4: "udp", E2E: k%2 == 0, Rev: rev, Rng: rng})
				}
				// the same path wrapped in EPIC-HP (every 3rd path in quick, all in thorough)
				if p.Metadata.EpicAuths.SupportsEpic() && (vt.Thorough() || k%3 == 0) {
					st.journeys++
					n.Run(w, src, dst, p, dp.JourneyOpts{ID: st.journeys, Mode: "honest", PT: "epic",
						L4: "udp", HBH: k%2 == 0, Rev: "pather", Rng: rng})
				}
			}
		}
	}
	// one-hop paths over every link, in both directions, to a host and to the control service
	for as := range t.ASes {
		for _, e := range t.Ends(as) {
			for _, svc := range []bool{false, true} {
				st.journeys++
				n.RunOHP(w, st.journeys, e, svc, rng)
			}
		}
	}
}

// line: C22 binding.  Line topologies of n ASes (segments of n hop fields), peering links at every
// position for n <= 8 and at first/middle/last otherwise; every path the real combinator returns
// between the ends of the branches and a sample of interior pairs.
func line(w *vt.Writer, st *stats, nsFlag string) {
	// 63 and 64: the limits of the path header (6-bit segment length, 64 hop fields in total)
	ns := []int{2, 3, 4, 5, 8, 16, 63}
	if vt.Thorough() {
		ns = []int{2, 3, 4, 5, 8, 16, 33, 63, 64}
	}
	if nsFlag != "" {
		ns = nil
		for _, f := range strings.Split(nsFlag, ",") {
			var n int
			fmt.Sscanf(f, "%d", &n)
			ns = append(ns, n)
		}
	}
	for _, n := range ns {
		var peers []int
		if n <= 8 {
			for p := 1; p < n; p++ {
				peers = append(peers, p)
			}
		} else {
			peers = []int{1, n / 2, n - 1}
		}
		t := dp.Line(n, peers, n%2 == 1)
		rng := vt.Rand(int64(1000 + n))
		c := dp.NewControl(t, rng, n)
		c.Beacon()
		net := dp.NewNet(c, dp.NetOpts{})
		w.Emit(map[string]any{"ev": "topo", "t": t.JSON()})
		idx := func(name string) int {
			for i, a := range t.ASes {
				if a.Name == name {
					return i
				}
			}
			return -1
		}
		deep := idx(fmt.Sprintf("A%d", n-1))
		var pairs [][2]int
		if n == 2 {
			deep = idx("A1")
		}
		others := []string{"C0", "B1", "B2", "B3", "A1", fmt.Sprintf("A%d", n/2)}
		if !vt.Thorough() && n > 8 {
			others = []string{"C0", "B3", fmt.Sprintf("A%d", n/2)}
		}
		for _, o := range others {
			if x := idx(o); x >= 0 && x != deep {
				pairs = append(pairs, [2]int{deep, x}, [2]int{x, deep})
			}
		}
		if n <= 5 || (n <= 8 && vt.Thorough()) {
			pairs = nil
			for a := range t.ASes {
				for b := range t.ASes {
					if a != b {
						pairs = append(pairs, [2]int{a, b})
					}
				}
			}
		}
		seen := map[[2]int]bool{}
		for _, pr := range pairs {
			if seen[pr] {
				continue
			}
			seen[pr] = true
			ups, cores, downs := c.SegsFor(pr[0], pr[1])
			paths := combinator.Combine(t.ASes[pr[0]].IA, t.ASes[pr[1]].IA, ups, cores, downs, true)
			capn := 6
			if !vt.Thorough() {
				capn = 1
				if n == 8 || (n > 8 && t.ASes[pr[1]].Name == "B3") {
					capn = 2
				}
			}
			if n <= 8 && vt.Thorough() {
				capn = len(paths)
			}
			// evenly spaced sample of the (weight-sorted) list: shortcuts, peerings and full paths
			var pick []int
			for i := 0; i < capn && i < len(paths); i++ {
				pick = append(pick, (i*len(paths)/min(capn, len(paths))+len(seen))%len(paths))
			}
			for k, pi := range pick {
				p := paths[pi]
				st.journeys++
				net.Run(w, pr[0], pr[1], p, dp.JourneyOpts{ID: st.journeys, Mode: "honest",
					PT: "scion", L4: "udp", Rev: []string{"pather", "raw"}[k%2], Rng: rng})
			}
		}
	}
}

// tamper: C04 binding.  Every path of the topology (or a sample), every single-bit alteration of a
// protected value (stride 1) or a seeded sample of the bits.
func tamper(w *vt.Writer, t *dp.Topo, maxJ int, st *stats) {
	rng := vt.Rand(int64(len(t.Name)) + int64(t.Name[1]) + 500)
	c := dp.NewControl(t, rng, 4)
	c.Beacon()
	n := dp.NewNet(c, dp.NetOpts{})
	w.Emit(map[string]any{"ev": "topo", "t": t.JSON()})
	stride := 1
	if !vt.Thorough() {
		stride = 5
		if t.Name != "T1" {
			stride = 16
		}
	} else if t.Name[0] == 'R' {
		stride = 7
	}
	k := 0
	for src := range t.ASes {
		for dst := range t.ASes {
			if src == dst {
				continue
			}
			ups, cores, downs := c.SegsFor(src, dst)
			for _, p := range combinator.Combine(t.ASes[src].IA, t.ASes[dst].IA, ups, cores, downs, true) {
				if maxJ > 0 && k >= maxJ {
					return
				}
				k++
				st.journeys++
				n.Tamper(w, st.journeys, src, dst, p, rng, stride)
			}
		}
	}
}

type pathRec struct {
	src, dst int
	p        combinator.Path
}

func allPaths(t *dp.Topo, c *dp.Control) []pathRec {
	var out []pathRec
	for src := range t.ASes {
		for dst := range t.ASes {
			if src == dst {
				continue
			}
			ups, cores, downs := c.SegsFor(src, dst)
			for _, p := range combinator.Combine(t.ASes[src].IA, t.ASes[dst].IA, ups, cores, downs, false) {
				out = append(out, pathRec{src, dst, p})
			}
		}
	}
	return out
}

func sameIfs(a, b combinator.Path) bool {
	x, y := a.Metadata.Interfaces, b.Metadata.Interfaces
	if len(x) != len(y) {
		return false
	}
	for i := range x {
		if x[i] != y[i] {
			return false
		}
	}
	return true
}

// hopOffset returns the byte offset of hop field j in raw.
func hopOffset(raw []byte, j int) int {
	p := dp.Parse(raw)
	return p.MetaOff + 4 + 8*p.Dec.NumINF + 12*j
}

// fault: C10 binding, SCMP errors.  Every path x every AS position x fault kind: egress interface
// down (BFD), sibling link down, egress interface not configured, the AS's hop fields expired,
// a later hop field with an invalid MAC.  The answer of the real slow path is walked back.
func fault(w *vt.Writer, t *dp.Topo, st *stats) {
	rng := vt.Rand(int64(len(t.Name)) + int64(t.Name[1]) + 900)
	c := dp.NewControl(t, rng, 4)
	c.Beacon()
	// SCMP authentication (SPAO) switched on for T2: the answers carry an E2E extension header
	auth := t.Name == "T2"
	base := dp.NewNet(c, dp.NetOpts{SCMPAuth: auth})
	w.Emit(map[string]any{"ev": "topo", "t": t.JSON()})
	paths := allPaths(t, c)
	nets := map[string]*dp.Net{}
	netFor := func(kind string, as int, ifid uint16) *dp.Net {
		key := fmt.Sprintf("%s/%d/%d", kind, as, ifid)
		if n, ok := nets[key]; ok {
			return n
		}
		var n *dp.Net
		switch kind {
		case "ifdown":
			n = base.WithAS(as, dp.NetOpts{SCMPAuth: auth, BFD: map[[2]int]bool{{as, int(ifid)}: true}})
		case "noif":
			n = base.WithAS(as, dp.NetOpts{SCMPAuth: auth, Without: map[[2]int]bool{{as, int(ifid)}: true}})
		case "sibdown":
			n = base.WithAS(as, dp.NetOpts{SCMPAuth: auth, SiblingBFD: map[int]bool{as: true}})
		case "expired":
			c2 := dp.NewControl(t, vt.Rand(int64(len(t.Name))+int64(t.Name[1])+900), 4)
			c2.ExpOf[as] = 0
			c2.Beacon()
			n = base.WithControl(c2)
		}
		nets[key] = n
		return n
	}
	stride := 1
	if !vt.Thorough() {
		stride = 9
		if t.Name == "T1" {
			stride = 4
		}
	} else if t.Name[0] == 'R' {
		stride = 5
	}
	k := 0
	run := func(n *dp.Net, pr pathRec, desc map[string]any, mut func([]byte) []byte) {
		k++
		if k%stride != 0 {
			return
		}
		st.journeys++
		n.Run(w, pr.src, pr.dst, pr.p, dp.JourneyOpts{ID: st.journeys, Mode: "fault", PT: "scion",
			L4: "udp", HBH: k%3 == 0, E2E: k%5 == 0, Rev: "none", Rng: rng, Desc: desc, Mutate: mut})
	}
	for _, pr := range paths {
		ifs := pr.p.Metadata.Interfaces
		for x := 0; x < len(ifs); x += 2 { // egress interfaces
			as := t.ASByIA(ifs[x].IA)
			ifid := uint16(ifs[x].ID)
			d := func(kind string) map[string]any {
				return map[string]any{"kind": kind, "pos": x / 2, "bit": 0, "side": "",
					"as": t.ASes[as].Name, "if": int(ifid)}
			}
			run(netFor("ifdown", as, ifid), pr, d("ifdown"), nil)
			run(netFor("noif", as, ifid), pr, d("noif"), nil)
			if t.ASes[as].Routers > 1 {
				run(netFor("sibdown", as, 0), pr, d("sibdown"), nil)
			}
		}
		// expired hop fields of one AS on the path
		seen := map[int]bool{}
		for x := range ifs {
			as := t.ASByIA(ifs[x].IA)
			if seen[as] {
				continue
			}
			seen[as] = true
			n := netFor("expired", as, 0)
			ups, cores, downs := n.C.SegsFor(pr.src, pr.dst)
			for _, q := range combinator.Combine(t.ASes[pr.src].IA, t.ASes[pr.dst].IA, ups, cores,
				downs, false) {
				if sameIfs(q, pr.p) {
					run(n, pathRec{pr.src, pr.dst, q}, map[string]any{"kind": "expired", "pos": 0,
						"bit": 0, "side": "", "as": t.ASes[as].Name, "if": 0}, nil)
					break
				}
			}
		}
		// a later hop field with an invalid MAC
		nh := dp.Parse(mustRaw(pr)).Dec.NumHops
		for j := 1; j < nh; j++ {
			jj := j
			bit := rng.Intn(48)
			run(base, pr, map[string]any{"kind": "badmac", "pos": jj, "bit": bit, "side": "",
				"as": "", "if": 0}, func(raw []byte) []byte {
				raw[hopOffset(raw, jj)+6+bit/8] ^= 0x80 >> (bit % 8)
				return raw
			})
		}
	}
}

func mustRaw(pr pathRec) []byte {
	// only the path header matters here
	raw, err := dp.Build(dp.PktSpec{Path: pr.p.SCIONPath, L4: "udp", SrcHost: netipAddr("10.0.0.1"),
		DstHost: netipAddr("10.0.0.2"), Rng: vt.Rand(1)})
	if err != nil {
		vt.Fatal("build: %v", err)
	}
	return raw
}

// alert: C10 binding, traceroute.  Every path x every on-path interface: an SCMP traceroute
// request whose hop field carries the router-alert flag of that interface.
func alert(w *vt.Writer, t *dp.Topo, st *stats) {
	rng := vt.Rand(int64(len(t.Name)) + int64(t.Name[1]) + 1300)
	c := dp.NewControl(t, rng, 4)
	c.Beacon()
	n := dp.NewNet(c, dp.NetOpts{})
	w.Emit(map[string]any{"ev": "topo", "t": t.JSON()})
	stride := 1
	if !vt.Thorough() {
		stride = 7
		if t.Name == "T1" {
			stride = 3
		}
	} else if t.Name[0] == 'R' {
		stride = 4
	}
	k := 0
	for _, pr := range allPaths(t, c) {
		d := dp.Parse(mustRaw(pr)).Dec
		for _, pi := range pr.p.Metadata.Interfaces {
			ifid := uint16(pi.ID)
			// the hop field(s) that name the interface
			for j, h := range d.HopFields {
				side := ""
				if h.ConsIngress == ifid {
					side = "in"
				} else if h.ConsEgress == ifid {
					side = "eg"
				}
				if side == "" {
					continue
				}
				k++
				if k%stride != 0 {
					continue
				}
				jj, sd := j, side
				st.journeys++
				n.Run(w, pr.src, pr.dst, pr.p, dp.JourneyOpts{ID: st.journeys, Mode: "alert",
					PT: "scion", L4: "trreq", HBH: k%4 == 0, Rev: "none", Rng: rng,
					Desc: map[string]any{"kind": "alert", "pos": jj, "bit": 0, "side": sd,
						"as": n.T.ASes[n.T.ASByIA(pi.IA)].Name, "if": int(ifid)},
					Mutate: func(raw []byte) []byte {
						bit := byte(1) // ConsEgress router alert
						if sd == "in" {
							bit = 2 // ConsIngress router alert
						}
						raw[hopOffset(raw, jj)] |= bit
						return raw
					}})
			}
		}
	}
}

func netipAddr(s string) netip.Addr { return netip.MustParseAddr(s) }

// conc: C02 binding for "any segments produced by beacon origination, propagation and
// registration": the beacons of a wide fan-out topology are extended concurrently through the one
// extender of each AS, as the control service's per-interface goroutines do, for several beaconing
// intervals; every registered segment is then used in both directions, and peering combinations
// are walked as well.
func conc(w *vt.Writer, st *stats) {
	fw, fp := 12, 1
	if v := os.Getenv("DP_FAN"); v != "" {
		fmt.Sscanf(v, "%d,%d", &fw, &fp)
	}
	t := dp.FanP(fw, fp)
	rng := vt.Rand(4242)
	c := dp.NewControl(t, rng, 2)
	n := dp.NewNet(c, dp.NetOpts{})
	w.Emit(map[string]any{"ev": "topo", "t": t.JSON()})
	rounds, intervals := 1, 2
	if vt.Thorough() {
		rounds, intervals = 4, 4
	}
	if v := os.Getenv("DP_CONC"); v != "" {
		fmt.Sscanf(v, "%d,%d", &rounds, &intervals)
	}
	for r := 0; r < rounds; r++ {
		c.ResetSegs()
		c.BeaconConcurrent(intervals)
		for _, p := range c.Panics {
			w.Emit(map[string]any{"ev": "panic", "where": "DefaultExtender.Extend", "what": p})
		}
		c.Panics = nil
		k := 0
		for src := range t.ASes {
			for dst := range t.ASes {
				if src == dst {
					continue
				}
				// single-segment and peering combinations exercise every hop and peer entry
				cs, cd := t.ASes[src].Core, t.ASes[dst].Core
				if !cs && !cd && dst != src+1 && !(src == len(t.ASes)-1 && dst == 2) {
					continue
				}
				ups, cores, downs := c.SegsFor(src, dst)
				for _, p := range combinator.Combine(t.ASes[src].IA, t.ASes[dst].IA, ups, cores, downs, true) {
					nseg := 0
					peer := false
					for _, i := range dp.Parse(mustRaw(pathRec{src, dst, p})).Dec.InfoFields {
						nseg++
						peer = peer || i.Peer
					}
					if nseg > 1 && !peer {
						continue
					}
					k++
					st.journeys++
					n.Run(w, src, dst, p, dp.JourneyOpts{ID: st.journeys, Mode: "honest", PT: "scion",
						L4: "udp", Rev: "none", Rng: rng})
				}
			}
		}
	}
}
