// Command dp drives the real border-router data plane for the journey properties (C02, C03, C04,
// C07, C10, C22): real beacons -> real combinator -> real routers.  It concretises scenarios,
// executes and logs; every verdict is TLC's.
package main

import (
	"flag"
	"fmt"
	"os"
	"strings"

	"github.com/scionproto/scion/private/path/combinator"

	"verifharness/internal/dp"
	"verifharness/internal/vt"
)

func main() {
	out := flag.String("out", "dp.ndjson", "trace file")
	mode := flag.String("mode", "honest", "honest|line|tamper|fault|alert|topo")
	topos := flag.String("topos", "T1,T2,T3", "topology families")
	maxJ := flag.Int("max", 0, "maximum number of journeys per topology (0 = all)")
	flag.Parse()
	w := vt.NewWriter(*out)
	defer w.Close()
	st := &stats{}
	for _, name := range strings.Split(*topos, ",") {
		t := topoByName(name)
		if t == nil {
			vt.Fatal("unknown topology %q", name)
		}
		switch *mode {
		case "topo":
			w.Emit(map[string]any{"ev": "topo", "t": t.JSON()})
		case "honest":
			honest(w, t, *maxJ, st)
		default:
			vt.Fatal("unknown mode %q", *mode)
		}
	}
	fmt.Fprintf(os.Stderr, "dp: journeys=%d events=%d\n", st.journeys, w.N)
}

type stats struct{ journeys int }

func topoByName(n string) *dp.Topo {
	switch n {
	case "T1":
		return dp.T1()
	case "T2":
		return dp.T2()
	case "T3":
		return dp.T3()
	}
	return nil
}

func honest(w *vt.Writer, t *dp.Topo, maxJ int, st *stats) {
	rng := vt.Rand(int64(len(t.Name)) + int64(t.Name[1]))
	c := dp.NewControl(t, rng, 4)
	c.Beacon()
	n := dp.NewNet(c, dp.NetOpts{})
	w.Emit(map[string]any{"ev": "topo", "t": t.JSON()})
	k := 0
	for src := range t.ASes {
		for dst := range t.ASes {
			if src == dst {
				continue
			}
			ups, cores, downs := c.SegsFor(src, dst)
			paths := combinator.Combine(t.ASes[src].IA, t.ASes[dst].IA, ups, cores, downs, true)
			for _, p := range paths {
				if maxJ > 0 && k >= maxJ {
					return
				}
				k++
				st.journeys++
				rev := "pather"
				if k%2 == 0 {
					rev = "raw"
				}
				n.Run(w, src, dst, p, dp.JourneyOpts{ID: st.journeys, Mode: "honest", PT: "scion",
					L4: "udp", HBH: k%3 == 0, E2E: k%4 == 1, Rev: rev, Rng: rng})
			}
		}
	}
}
