// Command dp drives the real border-router data plane for the journey properties (C02, C03, C04,
// C07, C10, C22): real beacons -> real combinator -> real routers.  It concretises scenarios,
// executes and logs; every verdict is TLC's.
package main

import (
	"flag"
	"fmt"
	"os"
	"runtime/pprof"
	"strings"

	"github.com/scionproto/scion/private/path/combinator"

	"verifharness/internal/dp"
	"verifharness/internal/vt"
)

func main() {
	out := flag.String("out", "dp.ndjson", "trace file")
	mode := flag.String("mode", "honest", "honest|line|tamper|fault|alert|topo")
	topos := flag.String("topos", "T1,T2,T3", "topology families")
	maxJ := flag.Int("max", 0, "maximum number of journeys per topology (0 = all)")
	nrand := flag.Int("random", 0, "number of additional seeded random topologies (honest mode)")
	prof := flag.String("cpuprofile", "", "write a CPU profile")
	flag.Parse()
	if *prof != "" {
		f, _ := os.Create(*prof)
		_ = pprof.StartCPUProfile(f)
		defer pprof.StopCPUProfile()
	}
	w := vt.NewWriter(*out)
	defer w.Close()
	st := &stats{}
	for _, name := range strings.Split(*topos, ",") {
		t := topoByName(name)
		if t == nil {
			vt.Fatal("unknown topology %q", name)
		}
		switch *mode {
		case "topo":
			w.Emit(map[string]any{"ev": "topo", "t": t.JSON()})
		case "honest":
			honest(w, t, 4, *maxJ, st)
		case "line":
			line(w, st)
		default:
			vt.Fatal("unknown mode %q", *mode)
		}
	}
	if *mode == "honest" {
		rng := vt.Rand(77)
		for i := 0; i < *nrand; i++ {
			honest(w, dp.Random(rng, 5+rng.Intn(8)), 5, 60, st)
		}
	}
	fmt.Fprintf(os.Stderr, "dp: journeys=%d events=%d\n", st.journeys, w.N)
}

type stats struct{ journeys int }

func topoByName(n string) *dp.Topo {
	switch n {
	case "T1":
		return dp.T1()
	case "T2":
		return dp.T2()
	case "T3":
		return dp.T3()
	}
	return nil
}

func honest(w *vt.Writer, t *dp.Topo, maxLen, maxJ int, st *stats) {
	rng := vt.Rand(int64(len(t.Name)) + int64(t.Name[1]))
	c := dp.NewControl(t, rng, maxLen)
	c.Beacon()
	n := dp.NewNet(c, dp.NetOpts{})
	w.Emit(map[string]any{"ev": "topo", "t": t.JSON()})
	k := 0
	for src := range t.ASes {
		for dst := range t.ASes {
			if src == dst {
				continue
			}
			ups, cores, downs := c.SegsFor(src, dst)
			paths := combinator.Combine(t.ASes[src].IA, t.ASes[dst].IA, ups, cores, downs, true)
			if maxJ > 0 { // sample: a seeded shuffle so that the cap does not favour one pair
				rng.Shuffle(len(paths), func(i, j int) { paths[i], paths[j] = paths[j], paths[i] })
				if len(paths) > 3 {
					paths = paths[:3]
				}
			}
			for _, p := range paths {
				if maxJ > 0 && k >= maxJ {
					return
				}
				k++
				st.journeys++
				rev := "pather"
				if k%2 == 0 {
					rev = "raw"
				}
				n.Run(w, src, dst, p, dp.JourneyOpts{ID: st.journeys, Mode: "honest", PT: "scion",
					L4: "udp", HBH: k%3 == 0, E2E: k%4 == 1, Rev: rev, Rng: rng})
			}
		}
	}
}

// line: C22 binding.  Line topologies of n ASes (segments of n hop fields), peering links at every
// position for n <= 8 and at first/middle/last otherwise; every path the real combinator returns
// between the ends of the branches and a sample of interior pairs.
func line(w *vt.Writer, st *stats) {
	ns := []int{2, 3, 4, 5, 8, 16, 63}
	if vt.Thorough() {
		ns = []int{2, 3, 4, 5, 8, 16, 33, 63}
	}
	for _, n := range ns {
		var peers []int
		if n <= 8 {
			for p := 1; p < n; p++ {
				peers = append(peers, p)
			}
		} else {
			peers = []int{1, n / 2, n - 1}
		}
		t := dp.Line(n, peers, n%2 == 1)
		rng := vt.Rand(int64(1000 + n))
		c := dp.NewControl(t, rng, n)
		c.Beacon()
		net := dp.NewNet(c, dp.NetOpts{})
		w.Emit(map[string]any{"ev": "topo", "t": t.JSON()})
		idx := func(name string) int {
			for i, a := range t.ASes {
				if a.Name == name {
					return i
				}
			}
			return -1
		}
		deep := idx(fmt.Sprintf("A%d", n-1))
		var pairs [][2]int
		if n == 2 {
			deep = idx("A1")
		}
		others := []string{"C0", "B1", "B2", "B3", "A1", fmt.Sprintf("A%d", n/2)}
		if !vt.Thorough() && n > 8 {
			others = []string{"C0", "B3", fmt.Sprintf("A%d", n/2)}
		}
		for _, o := range others {
			if x := idx(o); x >= 0 && x != deep {
				pairs = append(pairs, [2]int{deep, x}, [2]int{x, deep})
			}
		}
		if n <= 5 || (n <= 8 && vt.Thorough()) {
			pairs = nil
			for a := range t.ASes {
				for b := range t.ASes {
					if a != b {
						pairs = append(pairs, [2]int{a, b})
					}
				}
			}
		}
		seen := map[[2]int]bool{}
		for _, pr := range pairs {
			if seen[pr] {
				continue
			}
			seen[pr] = true
			ups, cores, downs := c.SegsFor(pr[0], pr[1])
			paths := combinator.Combine(t.ASes[pr[0]].IA, t.ASes[pr[1]].IA, ups, cores, downs, true)
			capn := 6
			if !vt.Thorough() {
				capn = 1
				if n == 8 || (n > 8 && t.ASes[pr[1]].Name == "B3") {
					capn = 2
				}
			}
			if n <= 8 && vt.Thorough() {
				capn = len(paths)
			}
			// evenly spaced sample of the (weight-sorted) list: shortcuts, peerings and full paths
			var pick []int
			for i := 0; i < capn && i < len(paths); i++ {
				pick = append(pick, (i*len(paths)/min(capn, len(paths))+len(seen))%len(paths))
			}
			for k, pi := range pick {
				p := paths[pi]
				if len(p.SCIONPath.Raw) == 0 {
					continue
				}
				st.journeys++
				net.Run(w, pr[0], pr[1], p, dp.JourneyOpts{ID: st.journeys, Mode: "honest",
					PT: "scion", L4: "udp", Rev: []string{"pather", "raw"}[k%2], Rng: rng})
			}
		}
	}
}
