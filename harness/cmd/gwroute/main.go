// Driver for C42: concretises TLC-generated routing tables and routing policies.
//
// Tables: real dataplane.NewRoutingTable / SetSession, packets pushed through the real
// IPForwarder.Run (fake reader, recording sessions).  Policies: rendered to the documented text
// format, parsed by the real routing.Policy.UnmarshalText, queried with Match / AdvertiseList,
// serialised with MarshalText, parsed again, queried again.  Observations only; judged by
// GatewayRoutingTrace.tla.
package main

import (
	"bufio"
	"context"
	"encoding/json"
	"flag"
	"fmt"
	"io"
	"math/rand"
	"net"
	"net/netip"
	"os"
	"runtime"
	"strings"
	"sync"
	"sync/atomic"
	"time"

	"github.com/gopacket/gopacket"
	"github.com/gopacket/gopacket/layers"

	"github.com/scionproto/scion/gateway/control"
	"github.com/scionproto/scion/gateway/dataplane"
	"github.com/scionproto/scion/gateway/pktcls"
	"github.com/scionproto/scion/gateway/routing"
	"github.com/scionproto/scion/pkg/addr"

	"verifharness/internal/vt"
)

type prefix struct {
	Fam int `json:"fam"`
	V   int `json:"v"`
	Len int `json:"len"`
}

type class struct {
	M    string `json:"m"`
	Sess int    `json:"sess"`
}

type entry struct {
	P   prefix  `json:"p"`
	Cls []class `json:"cls"`
}

type packet struct {
	Fam  int `json:"fam"`
	Dst  int `json:"dst"`
	TOS  int `json:"tos"`
	Frag int `json:"frag"`
}

type iam struct {
	ISD int `json:"isd"`
	AS  int `json:"as"`
	Neg int `json:"neg"`
}

type ia struct {
	ISD int `json:"isd"`
	AS  int `json:"as"`
}

type rule struct {
	Act  string   `json:"act"`
	From iam      `json:"from"`
	To   iam      `json:"to"`
	Nets []prefix `json:"nets"`
	Neg  int      `json:"neg"`
}

type policy struct {
	Rules []rule `json:"rules"`
	Def   int    `json:"def"`
}

type rec struct {
	Tables  [][]entry `json:"tables,omitempty"`
	Ops     [][]any   `json:"ops,omitempty"`
	Ev      string    `json:"ev"`
	Kind    string    `json:"kind,omitempty"`
	W       int       `json:"W,omitempty"`
	Pkts    []packet  `json:"pkts"`
	Pairs   [][]ia    `json:"pairs"`
	Queries []prefix  `json:"queries"`
	Table   []entry   `json:"table,omitempty"`
	Pol     *policy   `json:"pol,omitempty"`
}

var w int // address bits of the current reset

// abstract address v >= 0: inside the embedded space; v < 0: an address outside of it
func v4(v int) net.IP {
	if v < 0 {
		return net.IPv4(11, 1, 1, byte(-v)).To4()
	}
	return net.IPv4(10, 0, 0, byte(v)).To4()
}
func v6(v int) net.IP {
	if v < 0 {
		ip := net.ParseIP("2001:db9::")
		ip[15] = byte(-v)
		return ip
	}
	ip := net.ParseIP("2001:db8::")
	ip[15] = byte(v)
	return ip
}

func (p prefix) netip() netip.Prefix {
	if p.Fam == 4 {
		a, _ := netip.AddrFromSlice(v4(p.V))
		return netip.PrefixFrom(a, 32-w+p.Len)
	}
	a, _ := netip.AddrFromSlice(v6(p.V))
	return netip.PrefixFrom(a, 128-w+p.Len)
}

func (p prefix) ipnet() *net.IPNet {
	_, n, err := net.ParseCIDR(p.netip().String())
	if err != nil {
		vt.Fatal("cidr: %v", err)
	}
	return n
}

func abstractPrefix(p netip.Prefix) prefix {
	b := p.Addr().AsSlice()
	if p.Addr().Is4() {
		return prefix{Fam: 4, V: int(b[3]), Len: p.Bits() - (32 - w)}
	}
	return prefix{Fam: 6, V: int(b[15]), Len: p.Bits() - (128 - w)}
}

// ---------------------------------------------------------------------------- tables

type session struct {
	id  int
	out *[]int
	cur *int
}

func (s *session) Write(gopacket.Packet) { (*s.out)[*s.cur] = s.id }
func (s *session) String() string        { return fmt.Sprintf("s%d", s.id) }

type feeder struct {
	pkts [][]byte
	next int
	cur  *int
}

func (f *feeder) Read(b []byte) (int, error) {
	if f.next >= len(f.pkts) {
		return 0, io.EOF
	}
	*f.cur = f.next
	n := copy(b, f.pkts[f.next])
	f.next++
	return n, nil
}

func serialize(p packet) []byte {
	buf := gopacket.NewSerializeBuffer()
	opts := gopacket.SerializeOptions{FixLengths: true, ComputeChecksums: true}
	udp := &layers.UDP{SrcPort: 40000, DstPort: 40001}
	pay := gopacket.Payload([]byte("0123456789abcdef"))
	var err error
	if p.Fam == 4 {
		ip := &layers.IPv4{Version: 4, IHL: 5, TTL: 64, TOS: uint8(p.TOS), Protocol: layers.IPProtocolUDP,
			SrcIP: net.IPv4(192, 168, 0, 1).To4(), DstIP: v4(p.Dst)}
		switch p.Frag {
		case 1:
			ip.Flags = layers.IPv4MoreFragments
		case 2:
			ip.FragOffset = 64
		}
		_ = udp.SetNetworkLayerForChecksum(ip)
		err = gopacket.SerializeLayers(buf, opts, ip, udp, pay)
	} else {
		ip := &layers.IPv6{Version: 6, TrafficClass: uint8(p.TOS), HopLimit: 64, NextHeader: layers.IPProtocolUDP,
			SrcIP: net.ParseIP("2001:db8:1::1"), DstIP: v6(p.Dst)}
		_ = udp.SetNetworkLayerForChecksum(ip)
		switch p.Frag {
		case 3: // fragment extension header (first fragment, more to come) in front of the UDP header
			ip.NextHeader = layers.IPProtocolIPv6Fragment
			fh := gopacket.Payload([]byte{byte(layers.IPProtocolUDP), 0, 0, 1, 0, 0, 0, 42})
			err = gopacket.SerializeLayers(buf, opts, ip, fh, udp, pay)
		case 4: // hop-by-hop options (PadN) and destination options (PadN) in front of the UDP header
			ip.NextHeader = layers.IPProtocolIPv6HopByHop
			hbh := gopacket.Payload([]byte{byte(layers.IPProtocolIPv6Destination), 0, 1, 4, 0, 0, 0, 0})
			dst := gopacket.Payload([]byte{byte(layers.IPProtocolUDP), 0, 1, 4, 0, 0, 0, 0})
			err = gopacket.SerializeLayers(buf, opts, ip, hbh, dst, udp, pay)
		default:
			err = gopacket.SerializeLayers(buf, opts, ip, udp, pay)
		}
	}
	if err != nil {
		vt.Fatal("serialize: %v", err)
	}
	return append([]byte(nil), buf.Bytes()...)
}

func matcher(m string) pktcls.Cond {
	text := map[string]string{"true": "BOOL=true", "false": "BOOL=false", "tos": "tos=0xb8"}[m]
	c, err := pktcls.BuildClassTree(text)
	if err != nil {
		vt.Fatal("class %q: %v", m, err)
	}
	return c
}

func sameCls(a, b []class) bool {
	if len(a) != len(b) {
		return false
	}
	for i := range a {
		if a[i] != b[i] {
			return false
		}
	}
	return true
}

func runTable(tbl []entry, raw [][]byte, r *rand.Rand) (out []int, lead []int) {
	// entries with the same class list may share one routing chain (and so their sessions)
	group := r.Intn(2) == 0
	lead = make([]int, len(tbl))
	for i := range tbl {
		lead[i] = i + 1
		if group {
			for k := 0; k < i; k++ {
				if sameCls(tbl[k].Cls, tbl[i].Cls) {
					lead[i] = lead[k]
					break
				}
			}
		}
	}
	// chains in table order: a chain is emitted at the position of its first entry; the prefixes of a
	// shared chain follow in entry order
	var chains []*control.RoutingChain
	byLead := map[int]*control.RoutingChain{}
	for i, e := range tbl {
		ch, ok := byLead[lead[i]]
		if !ok {
			ch = &control.RoutingChain{}
			for j, c := range e.Cls {
				ch.TrafficMatchers = append(ch.TrafficMatchers,
					control.TrafficMatcher{ID: 10*lead[i] + j + 1, Matcher: matcher(c.M)})
			}
			byLead[lead[i]] = ch
			chains = append(chains, ch)
		}
		ch.Prefixes = append(ch.Prefixes, e.P.ipnet())
	}
	rt := dataplane.NewRoutingTable(chains)
	out = make([]int, len(raw))
	cur := 0
	for i, e := range tbl {
		if lead[i] != i+1 {
			continue
		}
		for j, c := range e.Cls {
			if c.Sess == 1 {
				if err := rt.SetSession(10*(i+1)+j+1, &session{id: 10*(i+1) + j + 1, out: &out, cur: &cur}); err != nil {
					vt.Fatal("SetSession: %v", err)
				}
			}
		}
	}
	fw := &dataplane.IPForwarder{Reader: &feeder{pkts: raw, cur: &cur}, RoutingTable: rt}
	_ = fw.Run(context.Background()) // ends with the reader's EOF
	return out, lead
}

// ---------------------------------------------------------------------------- policies

var asText = map[int]string{0: "0", 1: "ff00:0:110", 2: "ff00:0:111"}

func (m iam) text() string {
	s := fmt.Sprintf("%d-%s", m.ISD, asText[m.AS])
	if m.Neg == 1 {
		s = "!" + s
	}
	return s
}

func (a ia) real() addr.IA { return addr.MustParseIA(fmt.Sprintf("%d-%s", a.ISD, asText[a.AS])) }

func renderPolicy(p *policy, r *rand.Rand) string {
	var sb strings.Builder
	sep := func() string { return []string{" ", "   ", "\t", " \t "}[r.Intn(4)] }
	for _, ru := range p.Rules {
		nets := make([]string, len(ru.Nets))
		for i, n := range ru.Nets {
			nets[i] = n.netip().String()
		}
		nt := strings.Join(nets, ",")
		if ru.Neg == 1 {
			nt = "!" + nt
		}
		if r.Intn(4) == 0 {
			sb.WriteString(sep())
		}
		sb.WriteString(ru.Act + sep() + ru.From.text() + sep() + ru.To.text() + sep() + nt)
		if ru.Act == "advertise" && r.Intn(2) == 0 {
			sb.WriteString(sep() + []string{"10.0.0.1", "2001:db8::1"}[r.Intn(2)])
		}
		switch r.Intn(4) {
		case 0:
			sb.WriteString(sep() + "# rule for " + ru.From.text())
		case 1:
			sb.WriteString(" #accept reject # 10.0.0.0/8")
		}
		sb.WriteString("\n")
	}
	return sb.String()
}

var outsideProbes = []string{"10.0.1.0", "10.0.0.255", "11.0.0.1", "9.255.255.255", "2001:db8::1:0", "2001:db9::"}

func query(pol *routing.Policy, pairs [][]ia, queries []prefix) (m [][]int, adv [][]prefix, outside int, err error) {
	for _, pr := range pairs {
		from, to := pr[0].real(), pr[1].real()
		for _, q := range queries {
			set, e := pol.Match(from, to, q.netip())
			if e != nil {
				return nil, nil, 0, e
			}
			acc := []int{}
			for a := 0; a < 1<<w; a++ {
				var ip net.IP
				if q.Fam == 4 {
					ip = v4(a)
				} else {
					ip = v6(a)
				}
				na, _ := netip.AddrFromSlice(ip)
				if set.Contains(na) {
					acc = append(acc, a)
				}
			}
			for _, s := range outsideProbes {
				if set.Contains(netip.MustParseAddr(s)) {
					outside++
				}
			}
			m = append(m, acc)
		}
		list, e := routing.AdvertiseList(pol, from, to)
		if e != nil {
			return nil, nil, 0, e
		}
		al := []prefix{}
		for _, p := range list {
			al = append(al, abstractPrefix(p))
		}
		adv = append(adv, al)
	}
	return m, adv, outside, nil
}

// ---------------------------------------------------------------------------- concurrent updates

type nopPublisher struct{}

func (nopPublisher) AddRoute(control.Route)    {}
func (nopPublisher) DeleteRoute(control.Route) {}
func (nopPublisher) Close()                    {}

type idSession struct{ id int }

func (s *idSession) Write(gopacket.Packet) {}
func (s *idSession) String() string        { return fmt.Sprintf("s%d", s.id) }

// runConc runs one writer (the scenario's update sequence) against concurrent readers on a real
// AtomicRoutingTable -> publishing routing table -> data-plane routing table stack.  Every operation is
// bracketed by two readings of one global atomic clock.
func runConc(wr *vt.Writer, rc *rec, r *rand.Rand) {
	wr.Emit(vt.M{"ev": "reset", "W": 6, "tables": rc.Tables, "pkts": rc.Pkts})
	var clk atomic.Int64
	art := &dataplane.AtomicRoutingTable{}
	mkTable := func(t int) control.RoutingTable {
		var chains []*control.RoutingChain
		for i, e := range rc.Tables[t-1] {
			ch := &control.RoutingChain{Prefixes: []*net.IPNet{e.P.ipnet()}}
			for j, c := range e.Cls {
				ch.TrafficMatchers = append(ch.TrafficMatchers,
					control.TrafficMatcher{ID: 10*(i+1) + j + 1, Matcher: matcher(c.M)})
			}
			chains = append(chains, ch)
		}
		return control.NewPublishingRoutingTable(chains, dataplane.NewRoutingTable(chains), nopPublisher{},
			net.IPv4(10, 9, 9, 9), net.IPv4(10, 9, 9, 1), net.ParseIP("2001:db8:9::1"))
	}
	type pktv struct {
		v4 *layers.IPv4
		v6 *layers.IPv6
	}
	var pk []pktv
	for _, p := range rc.Pkts {
		gp := gopacket.NewPacket(serialize(p), map[int]gopacket.LayerType{4: layers.LayerTypeIPv4, 6: layers.LayerTypeIPv6}[p.Fam],
			gopacket.DecodeOptions{NoCopy: true})
		var v pktv
		if l, ok := gp.NetworkLayer().(*layers.IPv4); ok {
			v.v4 = l
		} else if l, ok := gp.NetworkLayer().(*layers.IPv6); ok {
			v.v6 = l
		}
		pk = append(pk, v)
	}
	type rdRec struct{ pkt, inv, res, out, panic int }
	nReaders := 3
	reads := make([][]rdRec, nReaders)
	var done atomic.Bool
	var wg sync.WaitGroup
	seeds := make([]int64, nReaders)
	for k := range seeds {
		seeds[k] = r.Int63()
	}
	for k := 0; k < nReaders; k++ {
		wg.Add(1)
		go func(k int) {
			defer wg.Done()
			rr := rand.New(rand.NewSource(seeds[k]))
			for n := 0; n < 20 || !done.Load(); n++ {
				if n >= 100 {
					break
				}
				pi := rr.Intn(len(pk))
				rec := rdRec{pkt: pi + 1}
				func() {
					defer func() {
						if e := recover(); e != nil {
							rec.panic = 1
						}
					}()
					rec.inv = int(clk.Add(1))
					var s control.PktWriter
					if pk[pi].v4 != nil {
						s = art.RouteIPv4(*pk[pi].v4)
					} else {
						s = art.RouteIPv6(*pk[pi].v6)
					}
					rec.res = int(clk.Add(1))
					if is, ok := s.(*idSession); ok && is != nil {
						rec.out = is.id
					}
				}()
				reads[k] = append(reads[k], rec)
				if rr.Intn(3) == 0 {
					runtime.Gosched()
				}
			}
		}(k)
	}
	cur := 0
	var curTable control.RoutingTable
	for _, op := range rc.Ops {
		name := op[0].(string)
		t, i, j := int(op[1].(float64)), int(op[2].(float64)), int(op[3].(float64))
		ev := vt.M{"ev": "w", "op": name, "t": t, "i": i, "j": j, "err": 0}
		for k := r.Intn(4); k > 0; k-- {
			runtime.Gosched()
		}
		switch name {
		case "swap":
			nt := mkTable(t)
			ev["inv"] = int(clk.Add(1))
			old := art.SetRoutingTable(nt)
			ev["res"] = int(clk.Add(1))
			if old != nil && curTable != nil {
				_ = old.Close()
			}
			cur, curTable = t, nt
		case "set":
			ev["inv"] = int(clk.Add(1))
			err := curTable.SetSession(10*i+j, &idSession{id: 100*cur + 10*i + j})
			ev["res"] = int(clk.Add(1))
			if err != nil {
				ev["err"] = 1
			}
		case "clear":
			ev["inv"] = int(clk.Add(1))
			err := curTable.ClearSession(10*i + j)
			ev["res"] = int(clk.Add(1))
			if err != nil {
				ev["err"] = 1
			}
		}
		wr.Emit(ev)
		time.Sleep(time.Duration(r.Intn(300)) * time.Microsecond)
	}
	done.Store(true)
	wg.Wait()
	for k := range reads {
		for _, rd := range reads[k] {
			wr.Emit(vt.M{"ev": "r", "reader": k, "pkt": rd.pkt, "inv": rd.inv, "res": rd.res, "out": rd.out, "panic": rd.panic})
		}
	}
}

func main() {
	in := flag.String("in", "", "scenario ndjson")
	outp := flag.String("out", "", "trace ndjson")
	flag.Parse()
	f, err := os.Open(*in)
	if err != nil {
		vt.Fatal("open: %v", err)
	}
	defer f.Close()
	wr := vt.NewWriter(*outp)
	defer wr.Close()
	r := vt.Rand(42)
	sc := bufio.NewScanner(f)
	sc.Buffer(make([]byte, 1<<20), 1<<28)
	var cfg rec
	var raw [][]byte
	for sc.Scan() {
		var rc rec
		if err := json.Unmarshal(sc.Bytes(), &rc); err != nil {
			vt.Fatal("scenario line: %v", err)
		}
		switch rc.Ev {
		case "reset":
			cfg = rc
			w = rc.W
			raw = raw[:0]
			for _, p := range rc.Pkts {
				raw = append(raw, serialize(p))
			}
			if rc.Pkts == nil {
				rc.Pkts = []packet{}
			}
			if rc.Pairs == nil {
				rc.Pairs = [][]ia{}
			}
			if rc.Queries == nil {
				rc.Queries = []prefix{}
			}
			wr.Emit(vt.M{"ev": "reset", "kind": rc.Kind, "W": rc.W, "pkts": rc.Pkts, "pairs": rc.Pairs,
				"queries": rc.Queries})
		case "table":
			out := vt.M{"ev": "table", "table": rc.Table, "out": []int{}, "lead": []int{}, "panic": 0}
			func() {
				defer func() {
					if e := recover(); e != nil {
						out["panic"] = 1
					}
				}()
				o, lead := runTable(rc.Table, raw, r)
				out["out"], out["lead"] = o, lead
			}()
			wr.Emit(out)
		case "pol":
			out := vt.M{"ev": "pol", "pol": rc.Pol, "text": "", "err0": 0, "m0": [][]int{}, "adv0": [][]prefix{},
				"x0": 0, "text1": "", "err1": 0, "m1": [][]int{}, "adv1": [][]prefix{}, "x1": 0, "panic": 0}
			func() {
				defer func() {
					if e := recover(); e != nil {
						out["panic"] = 1
					}
				}()
				def := routing.Reject
				if rc.Pol.Def == 1 {
					def = routing.Accept
				} else if r.Intn(2) == 0 {
					def = routing.UnknownAction
				}
				text := renderPolicy(rc.Pol, r)
				out["text"] = text
				p0 := &routing.Policy{DefaultAction: def}
				if err := p0.UnmarshalText([]byte(text)); err != nil {
					out["err0"] = 1
					return
				}
				m0, adv0, x0, err := query(p0, cfg.Pairs, cfg.Queries)
				if err != nil {
					out["err0"] = 1
					return
				}
				out["m0"], out["adv0"], out["x0"] = m0, adv0, x0
				t1, err := p0.MarshalText()
				if err != nil {
					out["err1"] = 1
					return
				}
				out["text1"] = string(t1)
				p1 := &routing.Policy{DefaultAction: def}
				if err := p1.UnmarshalText(t1); err != nil {
					out["err1"] = 1
					return
				}
				m1, adv1, x1, err := query(p1, cfg.Pairs, cfg.Queries)
				if err != nil {
					out["err1"] = 1
					return
				}
				out["m1"], out["adv1"], out["x1"] = m1, adv1, x1
			}()
			wr.Emit(out)
		case "conc":
			w = 6
			runConc(wr, &rc, r)
		default:
			vt.Fatal("unknown scenario record %q", rc.Ev)
		}
	}
	if err := sc.Err(); err != nil {
		vt.Fatal("read: %v", err)
	}
}
