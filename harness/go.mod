module verifharness

go 1.26.4

require github.com/scionproto/scion v0.0.0

require (
	github.com/beorn7/perks v1.0.1 // indirect
	github.com/cespare/xxhash/v2 v2.3.0 // indirect
	github.com/munnerz/goautoneg v0.0.0-20191010083416-a7dc8b61c822 // indirect
	github.com/prometheus/client_golang v1.22.0 // indirect
	github.com/prometheus/client_model v0.6.1 // indirect
	github.com/prometheus/common v0.63.0 // indirect
	github.com/prometheus/procfs v0.16.0 // indirect
	golang.org/x/sys v0.45.0 // indirect
	google.golang.org/protobuf v1.36.11 // indirect
)

replace github.com/scionproto/scion => /repo
