module verifharness

go 1.26.4

require (
	connectrpc.com/connect v1.19.1
	github.com/gopacket/gopacket v1.6.1
	github.com/patrickmn/go-cache v2.1.1-0.20180815053127-5633e0862627+incompatible
	github.com/quic-go/quic-go v0.59.1
	github.com/scionproto/scion v0.0.0
	google.golang.org/grpc v1.82.1
	google.golang.org/protobuf v1.36.11
)

require (
	github.com/antlr4-go/antlr/v4 v4.13.1 // indirect
	github.com/apapsch/go-jsonmerge/v2 v2.0.0 // indirect
	github.com/beorn7/perks v1.0.1 // indirect
	github.com/cespare/xxhash/v2 v2.3.0 // indirect
	github.com/dchest/cmac v1.0.0 // indirect
	github.com/fatih/color v1.18.0 // indirect
	github.com/go-viper/mapstructure/v2 v2.4.0 // indirect
	github.com/google/uuid v1.6.0 // indirect
	github.com/grpc-ecosystem/go-grpc-middleware v1.4.0 // indirect
	github.com/grpc-ecosystem/go-grpc-prometheus v1.2.0 // indirect
	github.com/grpc-ecosystem/grpc-opentracing v0.0.0-20180507213350-8e809c8a8645 // indirect
	github.com/hashicorp/golang-lru/arc/v2 v2.0.7 // indirect
	github.com/hashicorp/golang-lru/v2 v2.0.7 // indirect
	github.com/iancoleman/strcase v0.3.0 // indirect
	github.com/lestrrat-go/blackmagic v1.0.2 // indirect
	github.com/lestrrat-go/httpcc v1.0.1 // indirect
	github.com/lestrrat-go/httprc/v3 v3.0.0-beta1 // indirect
	github.com/lestrrat-go/jwx/v3 v3.0.0 // indirect
	github.com/lestrrat-go/option v1.0.1 // indirect
	github.com/mattn/go-colorable v0.1.14 // indirect
	github.com/mattn/go-isatty v0.0.20 // indirect
	github.com/mattn/go-runewidth v0.0.16 // indirect
	github.com/mattn/go-sqlite3 v1.14.37 // indirect
	github.com/munnerz/goautoneg v0.0.0-20191010083416-a7dc8b61c822 // indirect
	github.com/oapi-codegen/runtime v1.6.0 // indirect
	github.com/olekukonko/errors v0.0.0-20250405072817-4e6d85265da6 // indirect
	github.com/olekukonko/ll v0.0.8 // indirect
	github.com/olekukonko/tablewriter v1.0.7 // indirect
	github.com/opentracing/opentracing-go v1.2.0 // indirect
	github.com/pelletier/go-toml/v2 v2.2.4 // indirect
	github.com/pkg/errors v0.9.1 // indirect
	github.com/prometheus/client_golang v1.22.0 // indirect
	github.com/prometheus/client_model v0.6.1 // indirect
	github.com/prometheus/common v0.63.0 // indirect
	github.com/prometheus/procfs v0.16.0 // indirect
	github.com/quic-go/qpack v0.6.0 // indirect
	github.com/rivo/uniseg v0.4.7 // indirect
	github.com/uber/jaeger-client-go v2.30.0+incompatible // indirect
	github.com/uber/jaeger-lib v2.4.1+incompatible // indirect
	go.uber.org/atomic v1.11.0 // indirect
	go.uber.org/multierr v1.11.0 // indirect
	go.uber.org/zap v1.27.0 // indirect
	go4.org/netipx v0.0.0-20231129151722-fdeea329fbba // indirect
	golang.org/x/crypto v0.52.0 // indirect
	golang.org/x/exp v0.0.0-20250620022241-b7579e27df2b // indirect
	golang.org/x/net v0.55.0 // indirect
	golang.org/x/sync v0.20.0 // indirect
	golang.org/x/sys v0.45.0 // indirect
	golang.org/x/text v0.37.0 // indirect
	google.golang.org/genproto/googleapis/rpc v0.0.0-20260414002931-afd174a4e478 // indirect
	gopkg.in/yaml.v3 v3.0.1 // indirect
	zgo.at/zcache/v2 v2.1.0 // indirect
)

replace github.com/scionproto/scion => /repo
