// Package vt holds the small trace-writing helpers shared by all drivers. Drivers never judge:
// they concretise scenarios, run the real code and log observations as ndjson for TLC.
package vt

import (
	"bufio"
	"encoding/json"
	"fmt"
	"math/rand"
	"os"
	"strconv"
	"sync"
)

// Seed returns VERIF_SEED (default 1).
func Seed() int64 {
	if s := os.Getenv("VERIF_SEED"); s != "" {
		if v, err := strconv.ParseInt(s, 10, 64); err == nil {
			return v
		}
	}
	return 1
}

// Thorough reports whether VERIF_TIER=thorough.
func Thorough() bool { return os.Getenv("VERIF_TIER") == "thorough" }

// Rand returns a PRNG derived from the seed and a stream id.
func Rand(stream int64) *rand.Rand { return rand.New(rand.NewSource(Seed()*1000003 + stream)) }

// M is a JSON object.
type M = map[string]any

// Writer writes one JSON object per line.
type Writer struct {
	mu sync.Mutex
	f  *os.File
	w  *bufio.Writer
	N  int
}

func NewWriter(path string) *Writer {
	f, err := os.Create(path)
	if err != nil {
		Fatal("create %s: %v", path, err)
	}
	return &Writer{f: f, w: bufio.NewWriterSize(f, 1<<20)}
}

func (w *Writer) Emit(ev any) {
	b, err := json.Marshal(ev)
	if err != nil {
		Fatal("marshal: %v", err)
	}
	w.mu.Lock()
	w.w.Write(b)
	w.w.WriteByte('\n')
	w.N++
	w.mu.Unlock()
}

func (w *Writer) Close() {
	w.mu.Lock()
	defer w.mu.Unlock()
	w.w.Flush()
	w.f.Close()
}

// Fatal reports a harness (infrastructure) failure: exit status 3, never a verdict.
func Fatal(format string, args ...any) {
	fmt.Fprintf(os.Stderr, "HARNESS-ERROR: "+format+"\n", args...)
	os.Exit(3)
}

// Ints converts to a JSON friendly []int (never null).
func Ints[T ~int | ~uint8 | ~uint16 | ~uint32 | ~uint64 | ~int64 | ~int32](xs []T) []int {
	out := make([]int, len(xs))
	for i, x := range xs {
		out[i] = int(x)
	}
	return out
}
