package dpadv

import (
	"encoding/binary"
	"errors"
	"time"
)

// ---- a small, independent reader of the SCION wire format (doc/protocols/scion-header.rst) ----

type WInfo struct {
	Cons, Peer bool
	SegID      uint16
	TS         uint32
	Off        int
}

type WHop struct {
	In, Eg uint16
	Exp    uint8
	IA, EA bool
	Mac    [6]byte
	Off    int
}

// Wire is the decoded header geometry of one packet.
type Wire struct {
	Raw                    []byte
	NextHdr, HdrLen        uint8
	PayloadLen             uint16
	PathType               uint8
	DT, DL, ST, SL         uint8
	DstIA, SrcIA           uint64
	DstHost, SrcHost       []byte
	AddrLen, PathOff       int
	CurrINF, CurrHF        int
	SegLen                 []int // non-zero prefix of the three segment lengths
	Infos                  []WInfo
	Hops                   []WHop
	PktID                  [8]byte
	PHVF, LHVF             [4]byte
	HasHBH, HasE2E         bool
	L4                     uint8 // protocol number after the extension headers
	L4Off                  int
	E2EOff                 int
	TrafficClass           uint8
	FlowID                 uint32
	PathMetaOK, TruncatedP bool
}

const (
	ptEmpty = 0
	ptSCION = 1
	ptOHP   = 2
	ptEPIC  = 3
)

func rdInfo(b []byte, off int) WInfo {
	return WInfo{Cons: b[off]&1 != 0, Peer: b[off]&2 != 0, SegID: binary.BigEndian.Uint16(b[off+2:]),
		TS: binary.BigEndian.Uint32(b[off+4:]), Off: off}
}

func rdHop(b []byte, off int) WHop {
	h := WHop{EA: b[off]&1 != 0, IA: b[off]&2 != 0, Exp: b[off+1], In: binary.BigEndian.Uint16(b[off+2:]),
		Eg: binary.BigEndian.Uint16(b[off+4:]), Off: off}
	copy(h.Mac[:], b[off+6:off+12])
	return h
}

// ParseWire decodes the common, address and path headers and walks the extension headers.
func ParseWire(raw []byte) (*Wire, error) {
	if len(raw) < 12+16+8 {
		return nil, errors.New("short")
	}
	w := &Wire{Raw: raw}
	first := binary.BigEndian.Uint32(raw)
	w.TrafficClass = uint8(first >> 20)
	w.FlowID = first & 0xfffff
	w.NextHdr, w.HdrLen = raw[4], raw[5]
	w.PayloadLen = binary.BigEndian.Uint16(raw[6:])
	w.PathType = raw[8]
	w.DT, w.DL, w.ST, w.SL = raw[9]>>6, raw[9]>>4&3, raw[9]>>2&3, raw[9]&3
	w.DstIA = binary.BigEndian.Uint64(raw[12:])
	w.SrcIA = binary.BigEndian.Uint64(raw[20:])
	dl, sl := 4*(int(w.DL)+1), 4*(int(w.SL)+1)
	w.AddrLen = 16 + dl + sl
	w.PathOff = 12 + w.AddrLen
	hdr := int(w.HdrLen) * 4
	if len(raw) < hdr || hdr < w.PathOff {
		return nil, errors.New("header length")
	}
	w.DstHost = raw[28 : 28+dl]
	w.SrcHost = raw[28+dl : 28+dl+sl]
	po := w.PathOff
	switch w.PathType {
	case ptSCION, ptEPIC:
		if w.PathType == ptEPIC {
			if hdr < po+16+4 {
				return nil, errors.New("epic header")
			}
			copy(w.PktID[:], raw[po:po+8])
			copy(w.PHVF[:], raw[po+8:po+12])
			copy(w.LHVF[:], raw[po+12:po+16])
			po += 16
		}
		if hdr < po+4 {
			return nil, errors.New("path meta")
		}
		m := binary.BigEndian.Uint32(raw[po:])
		w.CurrINF, w.CurrHF = int(m>>30), int(m>>24&0x3f)
		sl := []int{int(m >> 12 & 0x3f), int(m >> 6 & 0x3f), int(m & 0x3f)}
		n := 0
		for n < 3 && sl[n] > 0 {
			n++
		}
		for i := n; i < 3; i++ {
			if sl[i] != 0 {
				return nil, errors.New("segment length gap")
			}
		}
		w.SegLen = sl[:n]
		nh := 0
		for _, x := range w.SegLen {
			nh += x
		}
		if hdr < po+4+8*n+12*nh {
			return nil, errors.New("path truncated")
		}
		for i := 0; i < n; i++ {
			w.Infos = append(w.Infos, rdInfo(raw, po+4+8*i))
		}
		for k := 0; k < nh; k++ {
			w.Hops = append(w.Hops, rdHop(raw, po+4+8*n+12*k))
		}
	case ptOHP:
		if hdr < po+32 {
			return nil, errors.New("ohp truncated")
		}
		w.SegLen = []int{2}
		w.Infos = []WInfo{rdInfo(raw, po)}
		w.Hops = []WHop{rdHop(raw, po+8), rdHop(raw, po+20)}
	}
	// extension headers
	nh, off := w.NextHdr, hdr
	for (nh == 200 || nh == 201) && off+2 <= len(raw) {
		if nh == 200 {
			w.HasHBH = true
		} else {
			w.HasE2E = true
			w.E2EOff = off
		}
		l := (int(raw[off+1]) + 1) * 4
		nh = raw[off]
		off += l
	}
	w.L4, w.L4Off = nh, off
	return w, nil
}

func (w *Wire) NumHops() int { return len(w.Hops) }

// InfOf is the index of the segment hop field k belongs to (scion.Base.infIndexForHF).
func (w *Wire) InfOf(k int) int {
	if k < w.SegLen[0] {
		return 0
	}
	if len(w.SegLen) >= 2 && k < w.SegLen[0]+w.SegLen[1] {
		return 1
	}
	return 2
}

// ---- abstract packet (the vocabulary of spec/RouterStepOps.tla) ----

type AInfo struct {
	Cons bool `json:"cons"`
	Peer bool `json:"peer"`
}

type AHop struct {
	In  int  `json:"in"`
	Eg  int  `json:"eg"`
	Exp bool `json:"exp"`
	Vp  bool `json:"vp"`
	Vu  bool `json:"vu"`
	Ia  bool `json:"ia"`
	Ea  bool `json:"ea"`
}

type AEp struct {
	Fresh bool `json:"fresh"`
	Phvf  bool `json:"phvf"`
	Lhvf  bool `json:"lhvf"`
}

type APkt struct {
	Kind  string  `json:"kind"`
	Via   int     `json:"via"`
	Src   string  `json:"src"`
	Dst   string  `json:"dst"`
	Fault string  `json:"fault"`
	L4    string  `json:"l4"`
	Seg   []int   `json:"seg"`
	Inf   int     `json:"inf"`
	Hf    int     `json:"hf"`
	Infos []AInfo `json:"infos"`
	Hops  []AHop  `json:"hops"`
	Ep    AEp     `json:"ep"`
}

// HopLifetime is the hop-field lifetime of scion-header.rst: (ExpTime+1) * 24h/256.
func HopLifetime(exp uint8) time.Duration {
	return time.Duration(int(exp)+1) * (24 * time.Hour / 256)
}

// peering reports whether the current hop field is one of the two peering hop fields
// (scion-header.rst "Peering links": Peer flag set, two segments, last of first / first of second).
func peering(w *Wire) bool {
	if w.CurrINF >= len(w.Infos) || !w.Infos[w.CurrINF].Peer || len(w.SegLen) != 2 {
		return false
	}
	return w.CurrHF == w.SegLen[0]-1 || w.CurrHF == w.SegLen[0]
}

// sigma is the full authenticator of hop field k under the accumulator in force when THIS router
// (ingress scope viaExt) verifies it: against construction direction an ingress border router
// first folds the MAC prefix of the current hop into SegID (not on peering hops); every other
// hop field is verified with the SegID found in its info field.
func (e *Env) sigma(w *Wire, k int, viaExt bool) [16]byte {
	h := w.Hops[k]
	inf := w.Infos[w.InfOf(k)]
	seg := inf.SegID
	if w.PathType != ptOHP && k == w.CurrHF && !inf.Cons && viaExt && !peering(w) {
		seg ^= binary.BigEndian.Uint16(h.Mac[:2])
	}
	return FullHopMAC(e.Key, seg, inf.TS, h.Exp, h.In, h.Eg)
}

// Abstract maps the bytes of a packet that is about to enter the router over link `via` at time
// now to the abstract packet of the specification.  ok=false: not in the modelled space
// (pointers out of range, unknown path type); such packets are not logged as "pkt" events.
func (e *Env) Abstract(raw []byte, via int, now time.Time) (*APkt, *Wire, bool) {
	w, err := ParseWire(raw)
	if err != nil {
		return nil, nil, false
	}
	a := &APkt{Via: via, Src: e.ClassOf(w.SrcIA), Dst: e.ClassOf(w.DstIA), Fault: "none", Seg: w.SegLen,
		Inf: w.CurrINF, Hf: w.CurrHF, Ep: AEp{true, true, true}}
	switch w.PathType {
	case ptSCION:
		a.Kind = "scion"
	case ptEPIC:
		a.Kind = "epic"
	case ptOHP:
		a.Kind = "ohp"
	default:
		return nil, w, false
	}
	if len(w.SegLen) == 0 || w.CurrHF >= len(w.Hops) || w.CurrINF >= len(w.Infos) {
		return nil, w, false
	}
	if int(w.PayloadLen) != len(raw)-int(w.HdrLen)*4 {
		a.Fault = "len"
	} else if !srcHostOK(w) {
		a.Fault = "srchost"
	}
	a.L4 = l4Class(w)
	for _, i := range w.Infos {
		a.Infos = append(a.Infos, AInfo{i.Cons, i.Peer})
	}
	for k, h := range w.Hops {
		inf := w.Infos[w.InfOf(k)]
		exp := time.Unix(int64(inf.TS), 0).Add(HopLifetime(h.Exp))
		mp := FullHopMAC(e.Key, inf.SegID, inf.TS, h.Exp, h.In, h.Eg)
		mu := FullHopMAC(e.Key, inf.SegID^binary.BigEndian.Uint16(h.Mac[:2]), inf.TS, h.Exp, h.In, h.Eg)
		a.Hops = append(a.Hops, AHop{In: int(h.In), Eg: int(h.Eg), Exp: exp.Before(now),
			Vp: [6]byte(mp[:6]) == h.Mac, Vu: [6]byte(mu[:6]) == h.Mac, Ia: h.IA, Ea: h.EA})
	}
	if w.PathType == ptEPIC {
		n := len(w.Hops)
		viaExt := e.Scope(via) == "ext"
		ts0 := w.Infos[0].TS
		epicTS := binary.BigEndian.Uint32(w.PktID[:4])
		sender := time.Unix(int64(ts0), 0).Add(time.Duration(int64(epicTS)+1) * 21 * time.Microsecond)
		a.Ep.Fresh = !sender.After(now.Add(time.Second)) && !now.After(sender.Add(3*time.Second))
		hvf := func(k int) [4]byte {
			return EpicHVF(e.sigma(w, k, viaExt), w.SL, ts0, w.PktID, w.SrcIA, w.SrcHost, w.PayloadLen)
		}
		a.Ep.Lhvf = hvf(n-1) == w.LHVF
		a.Ep.Phvf = n >= 2 && hvf(n-2) == w.PHVF
	}
	return a, w, true
}

func srcHostOK(w *Wire) bool {
	switch {
	case w.ST == 0 && w.SL == 0: // IPv4
		return true
	case w.ST == 1 && w.SL == 0: // service
		return true
	case w.ST == 0 && w.SL == 3: // IPv6, but not an IPv4-mapped one
		z := true
		for _, b := range w.SrcHost[:10] {
			z = z && b == 0
		}
		return !(z && w.SrcHost[10] == 0xff && w.SrcHost[11] == 0xff)
	}
	return false
}

func l4Class(w *Wire) string {
	switch w.L4 {
	case 17:
		return "udp"
	case 6:
		return "tcp"
	case 203:
		return "bfd"
	case 202:
		if w.L4Off+4 > len(w.Raw) {
			return "other"
		}
		t, c := w.Raw[w.L4Off], w.Raw[w.L4Off+1]
		switch {
		case t == 130 && c == 0:
			return "trreq"
		case t < 128:
			return "scmperr"
		default:
			return "scmpinfo"
		}
	}
	return "other"
}
