package dpadv

import (
	"math/rand"

	"verifharness/internal/vt"
)

func OhpJourneys(e *Env, r *rand.Rand, n int, out *vt.Writer) {}

func BfdHistories(cfg Cfg, r *rand.Rand, n int, out *vt.Writer) {}
