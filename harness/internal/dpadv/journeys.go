package dpadv

import (
	"context"
	"math/rand"
	"sync"
	"time"

	"github.com/gopacket/gopacket"
	"github.com/gopacket/gopacket/layers"

	"github.com/scionproto/scion/pkg/addr"
	"github.com/scionproto/scion/pkg/slayers"
	"github.com/scionproto/scion/pkg/slayers/path/onehop"
	"github.com/scionproto/scion/router/bfd"

	"verifharness/internal/vt"
)

type emitFn func(e *Env, res *Result)

// OhpJourneys sends one-hop-path packets from a host of the local AS through this router to the
// neighbour behind every usable own interface, lets a REAL router of the neighbour AS (own key)
// complete the path, reverses it (onehop.Path.Reverse, as a beacon service answering would) and
// sends the reply back through both routers.  Every router step is an ordinary "pkt" event; the
// "ohprev" record summarises the journey for the C12 clause about the completed second hop.
func OhpJourneys(e *Env, r *rand.Rand, n int, out *vt.Writer, emit emitFn) {
	for j := 0; j < n; j++ {
		var own []IfCfg
		for _, i := range e.Cfg.Ifs {
			if i.Sc == "ext" && i.Up {
				own = append(own, i)
			}
		}
		if len(own) == 0 {
			return
		}
		k := own[j%len(own)]
		const far = 7 // the neighbour's interface towards us
		ncfg := Cfg{Ifs: []IfCfg{{ID: far, Sc: "ext", Own: "-", Lt: "parent", Up: true, Nbr: "N7"},
			{ID: 8, Sc: "ext", Own: "-", Lt: "child", Up: true, Nbr: "N8"}}, Fix: e.Cfg.Fix}
		ne, err := NewEnvFor(ncfg, e.IA(k.Nbr), "verif-master-key-of-neighbour-"+k.Nbr,
			map[string]addr.IA{"N7": e.Local}, false, false)
		if err != nil {
			vt.Fatal("neighbour router: %v", err)
		}
		now := time.Now()
		a := &APkt{Kind: "ohp", Via: 0, Src: "L", Dst: k.Nbr, Fault: "none", L4: "udp", Seg: []int{2},
			Infos: []AInfo{{Cons: true}}, Hops: []AHop{{Eg: k.ID, Vp: true}, {}}}
		if j%3 != 0 { // the sender may leave anything in the second hop field
			a.Hops[1] = AHop{In: r.Intn(3) * 9, Eg: 1 + r.Intn(8), Ia: r.Intn(2) == 0, Ea: r.Intn(2) == 0}
		}
		raw, err := e.Build(a, BuildOpts{Payload: 24, Rng: r}, now)
		if err != nil {
			vt.Fatal("build: %v", err)
		}
		ev := vt.M{"ev": "ohprev", "ok": false, "second": false, "rev1": "none", "rev2": "none", "if": k.ID}
		out.Emit(vt.M{"ev": "reset", "c": e.Cfg, "auth": false})
		s1, ok := e.Run(raw, 0, now)
		if !ok {
			continue
		}
		emit(e, s1)
		if s1.O.Disp == "forward" && s1.O.Eg == k.ID {
			out.Emit(vt.M{"ev": "reset", "c": ncfg, "auth": false})
			s2, ok := ne.Run(s1.Out, far, now)
			if ok {
				emit(ne, s2)
			}
			if ok && s2.O.Disp == "deliver" {
				ev["ok"] = true
				w, _ := ParseWire(s2.Out)
				h2, inf := w.Hops[1], w.Infos[0]
				m := FullHopMAC(ne.Key, inf.SegID, inf.TS, h2.Exp, h2.In, h2.Eg)
				ev["second"] = [6]byte(m[:6]) == h2.Mac && int(h2.In) == far && h2.Eg == 0 && !h2.IA && !h2.EA
				// the reply over the reversed path
				if rraw := reverseOhp(s2.Out); rraw != nil {
					r1, ok := ne.Run(rraw, 0, now)
					if ok {
						emit(ne, r1)
						ev["rev1"] = r1.O.Disp
						if r1.O.Disp == "forward" {
							out.Emit(vt.M{"ev": "reset", "c": e.Cfg, "auth": false})
							if r2, ok := e.Run(r1.Out, k.ID, now); ok {
								emit(e, r2)
								ev["rev2"] = r2.O.Disp
							}
						}
					}
				}
			}
		}
		out.Emit(ev)
	}
}

// reverseOhp builds the reply to a completed one-hop-path packet: addresses swapped, path reversed.
func reverseOhp(raw []byte) []byte {
	var s slayers.SCION
	s.RecyclePaths()
	if err := s.DecodeFromBytes(raw, gopacket.NilDecodeFeedback); err != nil {
		return nil
	}
	ohp, ok := s.Path.(*onehop.Path)
	if !ok {
		return nil
	}
	rev, err := ohp.Reverse()
	if err != nil {
		return nil
	}
	t := &slayers.SCION{FlowID: s.FlowID, TrafficClass: s.TrafficClass, NextHdr: slayers.L4UDP,
		SrcIA: s.DstIA, DstIA: s.SrcIA, SrcAddrType: s.DstAddrType, RawSrcAddr: s.RawDstAddr,
		DstAddrType: s.SrcAddrType, RawDstAddr: s.RawSrcAddr, PathType: rev.Type(), Path: rev}
	// the reply comes from a host of the neighbour AS whose address is a local one there
	udp := []byte{0x9c, 0x41, 0x9c, 0x40, 0, 12, 0, 0, 1, 2, 3, 4}
	buf := gopacket.NewSerializeBuffer()
	if err := gopacket.SerializeLayers(buf, gopacket.SerializeOptions{FixLengths: true}, t, gopacket.Payload(udp)); err != nil {
		return nil
	}
	return append([]byte(nil), buf.Bytes()...)
}

// ---- BFD histories (C15) ----

type bfdEv struct {
	s  *bfd.Session
	ev bfd.VerifEvent
}

var (
	bfdMu   sync.Mutex
	bfdChan chan bfdEv
)

// BfdHistories builds a router whose links all carry a real bfd.Session, starts the sessions and
// drives their state through received control messages only (the detection time is hours, so no
// timer takes part).  After every message the hook of router/bfd (VerifTracer, called by
// Session.Run after the step was applied) is awaited and the session state it reports is logged
// as a "bfd" record; between messages, probe packets that would leave through the link are run.
func BfdHistories(cfg Cfg, r *rand.Rand, n int, out *vt.Writer, emit emitFn) {
	down := Cfg{Fix: cfg.Fix}
	for _, i := range cfg.Ifs {
		i.Up = false
		down.Ifs = append(down.Ifs, i)
	}
	bfdMu.Lock()
	defer bfdMu.Unlock()
	bfdChan = make(chan bfdEv, 1024)
	bfd.VerifTracer = func(s *bfd.Session, ev bfd.VerifEvent) {
		if ev.Kind == "recv" || ev.Kind == "timer" {
			bfdChan <- bfdEv{s, ev}
		}
	}
	for h := 0; h < n; h++ {
		// every second history on a router whose sibling links are detached links (non-Linux flavour)
		e, err := newEnv(down, LocalIA, "verif-master-key-0-of-the-local-as", nil, false, true, h%2 == 1)
		if err != nil {
			vt.Fatal("router: %v", err)
		}
		ctx, cancel := context.WithCancel(context.Background())
		stop := e.V.StartBFD(ctx)
		out.Emit(vt.M{"ev": "reset", "c": down, "auth": false})
		probes := probePackets(e)
		runProbes := func() {
			for _, a := range probes {
				now := time.Now()
				raw, err := e.Build(a, BuildOpts{Payload: 16, Rng: r}, now)
				if err != nil {
					vt.Fatal("build: %v", err)
				}
				if res, ok := e.Run(raw, a.Via, now); ok {
					emit(e, res)
				}
			}
		}
		runProbes()
		steps := 3 + r.Intn(6)
		for st := 0; st < steps; st++ {
			i := down.Ifs[r.Intn(len(down.Ifs))]
			sess := e.V.Link(uint16(i.ID)).BFDSession()
			if sess == nil {
				continue
			}
			remote := []layers.BFDState{layers.BFDStateDown, layers.BFDStateInit, layers.BFDStateUp,
				layers.BFDStateInit, layers.BFDStateUp}[r.Intn(5)]
			msg := &layers.BFD{Version: 1, State: remote, DetectMultiplier: 3, MyDiscriminator: 4711,
				YourDiscriminator: sess.LocalDiscriminator, DesiredMinTxInterval: 1000000,
				RequiredMinRxInterval: 1000000}
			if remote == layers.BFDStateDown {
				msg.YourDiscriminator = 0
			}
			if bfd.VerifShouldDiscard(msg) {
				continue // would not reach the state machine
			}
			drain()
			sess.ReceiveMessage(msg)
			got, ok := await(sess, 300*time.Second)
			if !ok {
				// the session never reported the step: the logged state would be stale
				vt.Fatal("BFD session did not process a control message within 300 s")
			}
			for _, j := range down.Ifs { // all interfaces behind the same link share the session
				if e.V.Link(uint16(j.ID)) == e.V.Link(uint16(i.ID)) {
					out.Emit(vt.M{"ev": "bfd", "ifid": j.ID, "up": got.ev.Local == 3, "remote": int(remote)})
				}
			}
			runProbes()
		}
		stop()
		cancel()
	}
	bfd.VerifTracer = nil
}

func drain() {
	for {
		select {
		case <-bfdChan:
		default:
			return
		}
	}
}

func await(s *bfd.Session, d time.Duration) (bfdEv, bool) {
	t := time.After(d)
	for {
		select {
		case ev := <-bfdChan:
			if ev.s == s && ev.ev.Kind == "recv" {
				return ev, true
			}
		case <-t:
			return bfdEv{}, false
		}
	}
}

// probePackets: for every interface one packet that is forwarded through it when it is usable.
func probePackets(e *Env) []*APkt {
	var out []*APkt
	okv := AHop{Vp: true, Vu: true}
	sib := 0 // an interface owned by a sibling router (traffic handed over by that sibling claims it)
	for _, i := range e.Cfg.Ifs {
		if i.Sc == "sib" && sib == 0 {
			sib = i.ID
		}
	}
	for _, i := range e.Cfg.Ifs {
		if i.Sc == "ext" && sib != 0 { // AS transit out: handed over by the sibling, out of an own interface
			h := okv
			h.In, h.Eg = sib, i.ID
			out = append(out, &APkt{Kind: "scion", Via: sib, Src: "F", Dst: "F", Fault: "none", L4: "udp",
				Seg: []int{3}, Hf: 1, Infos: []AInfo{{Cons: true}},
				Hops: []AHop{{In: 999, Eg: 999}, h, {In: 999, Eg: 999}}, Ep: AEp{true, true, true}})
		}
		if i.Sc == "ext" { // from a local host straight out
			h := okv
			h.Eg = i.ID
			out = append(out, &APkt{Kind: "scion", Via: 0, Src: "L", Dst: "F", Fault: "none", L4: "udp",
				Seg: []int{2}, Infos: []AInfo{{Cons: true}}, Hops: []AHop{h, {In: 999, Eg: 999}}, Ep: AEp{true, true, true}})
			continue
		}
		// towards a sibling's interface: in through an own external interface with a fitting link type
		for _, in := range e.Cfg.Ifs {
			if in.Sc != "ext" {
				continue
			}
			pair := in.Lt + "-" + i.Lt
			if pair == "core-core" || pair == "child-parent" || pair == "parent-child" {
				h := okv
				h.In, h.Eg = in.ID, i.ID
				out = append(out, &APkt{Kind: "scion", Via: in.ID, Src: "F", Dst: "F", Fault: "none", L4: "udp",
					Seg: []int{3}, Hf: 1, Infos: []AInfo{{Cons: true}},
					Hops: []AHop{{In: 999, Eg: 999}, h, {In: 999, Eg: 999}}, Ep: AEp{true, true, true}})
				break
			}
		}
	}
	return out
}
