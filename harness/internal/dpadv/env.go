package dpadv

import (
	"fmt"
	"math/rand"
	"net"
	"net/netip"
	"strconv"
	"strings"
	"time"

	"github.com/scionproto/scion/pkg/addr"
	"github.com/scionproto/scion/private/topology"
	"github.com/scionproto/scion/router"
	"github.com/scionproto/scion/router/control"
	_ "github.com/scionproto/scion/router/underlayproviders/udpip"
)

// IfCfg / Cfg mirror the configuration record c of spec/RouterStepOps.tla.
type IfCfg struct {
	ID  int    `json:"id"`
	Sc  string `json:"sc"`  // "ext": owned by this router, "sib": owned by a sibling router
	Own string `json:"own"` // "-" or the sibling's name ("A", "B", ...)
	Lt  string `json:"lt"`  // core parent child peer unset
	Up  bool   `json:"up"`  // false: a real BFD session that never came up sits on the link
	Nbr string `json:"nbr"` // IA class of the far end
}

type Cfg struct {
	Ifs []IfCfg         `json:"ifs"`
	Fix map[string]bool `json:"fix"`
}

// Env is one real border router plus the harness in the role of the AS's control service.
type Env struct {
	Cfg      Cfg
	V        *router.VerifDP
	Key      []byte
	Local    addr.IA
	Far      addr.IA
	RouterIP netip.Addr
	HostSrc  *net.UDPAddr // underlay address of the (malicious) local host
	SCMPAuth bool
	T0       time.Time // an instant after the router's processor has handled its first packet
	Detached bool      // sibling links as detachedLink (the non-Linux flavour) instead of connectedLink
	ifs      map[int]IfCfg
	ias      map[string]addr.IA // overrides of the class -> IA mapping (neighbour routers)
}

var (
	LocalIA = addr.MustParseIA("1-ff00:0:110")
	FarIA   = addr.MustParseIA("2-ff00:0:999")
)

// NbrIA is the IA behind interface k.
func NbrIA(k int) addr.IA { return addr.MustParseIA(fmt.Sprintf("1-ff00:0:%x", 0x1000+k)) }

// IAOf maps an IA class to the concrete ISD-AS.
func IAOf(class string) addr.IA {
	switch {
	case class == "L":
		return LocalIA
	case class == "F":
		return FarIA
	case strings.HasPrefix(class, "N"):
		k, _ := strconv.Atoi(class[1:])
		return NbrIA(k)
	}
	return addr.MustParseIA("3-ff00:0:777")
}

// IA maps an IA class to the concrete ISD-AS as seen from this router's AS.
func (e *Env) IA(class string) addr.IA {
	if ia, ok := e.ias[class]; ok {
		return ia
	}
	if class == "L" {
		return e.Local
	}
	return IAOf(class)
}

// ClassOf is the inverse of IA.
func (e *Env) ClassOf(ia uint64) string {
	for c, x := range e.ias {
		if x == addr.IA(ia) {
			return c
		}
	}
	switch addr.IA(ia) {
	case e.Local:
		return "L"
	case e.Far:
		return "F"
	}
	for _, i := range e.Cfg.Ifs {
		if e.IA(i.Nbr) == addr.IA(ia) {
			return i.Nbr
		}
	}
	return "X"
}

func (e *Env) Scope(id int) string {
	if id == 0 {
		return "int"
	}
	if i, ok := e.ifs[id]; ok {
		return i.Sc
	}
	return "none"
}

func linkType(s string) topology.LinkType {
	switch s {
	case "core":
		return topology.Core
	case "parent":
		return topology.Parent
	case "child":
		return topology.Child
	case "peer":
		return topology.Peer
	}
	return topology.Unset
}

// SiblingAddr is the internal address of sibling router `name`.
func SiblingAddr(name string) string {
	return fmt.Sprintf("10.0.1.%d:30042", int(name[0]-'A')+2)
}

// NewEnv builds the real router for cfg.  Interfaces with up=false get a real bfd.Session that is
// never started, so Link.IsUp() is false; the others run without BFD (always usable).
// bfdAll: give every interface a session (C15 histories).
func NewEnv(cfg Cfg, scmpAuth, bfdAll bool) (*Env, error) {
	return NewEnvFor(cfg, LocalIA, "verif-master-key-0-of-the-local-as", nil, scmpAuth, bfdAll)
}

// NewEnvFor builds a router of AS local (forwarding key derived from master); ias overrides the
// class -> IA mapping (a neighbour's router sees the first router's AS as one of its neighbours).
func NewEnvFor(cfg Cfg, local addr.IA, master string, ias map[string]addr.IA, scmpAuth, bfdAll bool) (*Env, error) {
	return newEnv(cfg, local, master, ias, scmpAuth, bfdAll, false)
}

func newEnv(cfg Cfg, local addr.IA, master string, ias map[string]addr.IA, scmpAuth, bfdAll, detached bool) (*Env, error) {
	e := &Env{Cfg: cfg, Key: control.DeriveHFMacKey([]byte(master)), Local: local, Far: FarIA, ias: ias,
		RouterIP: netip.MustParseAddr("10.0.0.1"),
		HostSrc:  &net.UDPAddr{IP: net.ParseIP("10.0.0.77").To4(), Port: 40077},
		SCMPAuth: scmpAuth, Detached: detached, ifs: map[int]IfCfg{}}
	vc := router.VerifConfig{IA: e.Local, Key: e.Key, InternalAddr: "10.0.0.1:30042",
		PortStart: 1024, PortEnd: 65535, SCMPAuth: scmpAuth, SiblingDetached: detached,
		BFDConfig: control.BFD{DetectMult: 3, DesiredMinTxInterval: time.Hour,
			RequiredMinRxInterval: time.Hour}}
	for _, i := range cfg.Ifs {
		e.ifs[i.ID] = i
		vi := router.VerifIface{IfID: uint16(i.ID), LinkTo: linkType(i.Lt), Neighbor: e.IA(i.Nbr),
			Owned: i.Sc == "ext", BFD: !i.Up || bfdAll}
		if vi.Owned {
			vi.Local = fmt.Sprintf("192.168.%d.1:50000", i.ID)
			vi.Remote = fmt.Sprintf("192.168.%d.2:50000", i.ID)
		} else {
			vi.Remote = SiblingAddr(i.Own)
		}
		vc.Ifaces = append(vc.Ifaces, vi)
	}
	v, err := router.VerifNewDP(vc)
	if err != nil {
		return nil, err
	}
	e.V = v
	// The processors are long-lived (one per goroutine in production): let this one handle a first
	// packet, so that anything it wrongly keeps from packet to packet (cached clock readings, hop
	// fields, flags) is in place before the scenarios start.
	warm := &APkt{Kind: "scion", Via: 0, Src: "L", Dst: "F", Fault: "none", L4: "udp", Seg: []int{2},
		Infos: []AInfo{{Cons: true}}, Hops: []AHop{{In: 0, Eg: 999, Vp: true}, {In: 999, Eg: 999}}, Ep: AEp{true, true, true}}
	if raw, err := e.Build(warm, BuildOpts{Payload: 8, Rng: rand.New(rand.NewSource(1))}, time.Now()); err == nil {
		e.V.Process(e.V.NewPacket(raw, 0, e.HostSrc))
	}
	e.T0 = time.Now()
	return e, nil
}
