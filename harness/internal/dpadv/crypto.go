// Package dpadv is the library of the adversarial single-router driver (cmd/dpadv): it concretises
// abstract packets (TLC-generated or seeded random assemblies) into bytes, runs them through ONE
// real border router built with router.VerifNewDP, and abstracts the bytes that went in and came
// out back into the vocabulary of spec/RouterStepOps.tla.  It never judges.
package dpadv

import (
	"crypto/aes"
	"encoding/binary"
)

// FullHopMAC is an independent re-computation of the 16-byte hop-field authenticator, written
// from doc/protocols/scion-header.rst ("Hop Field MAC - Calculation": AES-CMAC over the 16-byte
// block 0|SegID|Timestamp|0|ExpTime|ConsIngress|ConsEgress|0) and RFC 4493 for a message of
// exactly one complete block.  It shares no code with pkg/slayers/path or pkg/scrypto and is used
// (a) by the harness in its role of control service, to issue hop fields under the AS key, and
// (b) as the abstraction function "MAC valid under accumulator x" logged for the specification.
func FullHopMAC(key []byte, segID uint16, ts uint32, exp uint8, in, eg uint16) [16]byte {
	c, err := aes.NewCipher(key)
	if err != nil {
		panic(err)
	}
	var m, l, k1 [16]byte
	binary.BigEndian.PutUint16(m[2:], segID)
	binary.BigEndian.PutUint32(m[4:], ts)
	m[9] = exp
	binary.BigEndian.PutUint16(m[10:], in)
	binary.BigEndian.PutUint16(m[12:], eg)
	c.Encrypt(l[:], l[:])     // L = AES(K, 0)
	for i := 0; i < 16; i++ { // K1 = L << 1, xor Rb when msb(L) = 1
		k1[i] = l[i] << 1
		if i < 15 {
			k1[i] |= l[i+1] >> 7
		}
	}
	if l[0]&0x80 != 0 {
		k1[15] ^= 0x87
	}
	for i := range m {
		m[i] ^= k1[i]
	}
	c.Encrypt(m[:], m[:])
	return m
}

// EpicHVF is an independent re-computation of the EPIC hop validation field, written from
// doc/protocols/scion-header.rst ("EPIC Procedures"): the first 4 bytes of the CBC-MAC (zero IV),
// keyed with the full hop authenticator sigma, over
// flags(SL) | Timestamp(first info field) | PktID | SrcIA | SrcHostAddr | PayloadLen | zero padding.
func EpicHVF(sigma [16]byte, sl uint8, ts uint32, pktID [8]byte, srcIA uint64, srcHost []byte,
	payloadLen uint16) [4]byte {

	c, err := aes.NewCipher(sigma[:])
	if err != nil {
		panic(err)
	}
	in := make([]byte, 0, 48)
	in = append(in, sl&0x3)
	in = binary.BigEndian.AppendUint32(in, ts)
	in = append(in, pktID[:]...)
	in = binary.BigEndian.AppendUint64(in, srcIA)
	in = append(in, srcHost...)
	in = binary.BigEndian.AppendUint16(in, payloadLen)
	for len(in)%16 != 0 {
		in = append(in, 0)
	}
	var x [16]byte
	for off := 0; off < len(in); off += 16 {
		for i := 0; i < 16; i++ {
			x[i] ^= in[off+i]
		}
		c.Encrypt(x[:], x[:])
	}
	var out [4]byte
	copy(out[:], x[:4])
	return out
}

// InetChecksumOK is not used for judging; see abstract.go (the SCMP checksum words are handed to TLC).
