package dpadv

import (
	"bytes"
	"encoding/binary"
	"fmt"
	"net"
	"time"

	"github.com/scionproto/scion/pkg/addr"
	"github.com/scionproto/scion/pkg/drkey"
	"github.com/scionproto/scion/pkg/slayers"
	"github.com/scionproto/scion/pkg/spao"
	"github.com/scionproto/scion/private/drkey/drkeyutil"
	"github.com/scionproto/scion/router"
)

// Geo is the header geometry the specification needs to turn SCMP pointers into field names.
type Geo struct {
	Alen int `json:"alen"` // address header length
	Len  int `json:"len"`  // packet length
}

// Obs is what the fast path did with the packet.
type Obs struct {
	Disp  string `json:"disp"`  // forward | deliver | slow | discard | done | panic
	Eg    int    `json:"eg"`    // Packet.egress
	Osc   string `json:"osc"`   // scope of the link the packet was handed to: ext | sib | int | none
	Phf   int    `json:"phf"`   // CurrHF of the outgoing packet (-1: no packet)
	Pinf  int    `json:"pinf"`  // CurrINF of the outgoing packet
	St    int    `json:"st"`    // slow-path request type
	Code  int    `json:"code"`  //
	Ptr   int    `json:"ptr"`   //
	UDst  string `json:"udst"`  // underlay destination class: dsthost | sender | remote | none | other
	SegOK bool   `json:"segok"` // forward: SegID of the segment in use is what the next AS needs (drift only)
}

// SlowObs is what the slow path did with it (when the fast path asked for the slow path).
type SlowObs struct {
	Ran    bool   `json:"ran"`
	Err    bool   `json:"err"`    // processPacket returned an error: the packet is dropped
	Kind   string `json:"kind"`   // none | scmp (a message of this router) | orig (the offending packet itself) | other
	Same   bool   `json:"same"`   // handed to the link the packet came in on
	Osc    string `json:"osc"`    //
	Phf    int    `json:"phf"`    // kind orig: CurrHF of what goes out
	Typ    int    `json:"typ"`    // SCMP type / code / pointer
	Code   int    `json:"code"`   //
	Ptr    int    `json:"ptr"`    //
	DstSrc bool   `json:"dstsrc"` // addressed to the offender's source IA and host
	SrcRtr bool   `json:"srcrtr"` // from (local IA, router address)
	Len    int    `json:"len"`    // length of the whole SCMP packet
	Qlen   int    `json:"qlen"`   // length of the quote
	Qdiff  []int  `json:"qdiff"`  // offsets (<= 16) at which the quote differs from the received packet
	Qover  bool   `json:"qover"`  // the quote is longer than the received packet
	IA     string `json:"ia"`     // interface-down messages: IA class, interface ids
	IfA    int    `json:"ifa"`    //
	IfB    int    `json:"ifb"`    //
	Auth   string `json:"auth"`   // none | ok | bad
	Ck     int    `json:"ck"`     // one's complement sum over pseudo header and message (0xffff = valid)
	PathOK bool   `json:"pathok"` // reply path = reversed path of the offender (same hop fields, reverse order)
	Hdr    bool   `json:"hdr"`    // reply parses, PayloadLen and HdrLen consistent
}

func scopeName(l router.Link) string {
	if l == nil {
		return "none"
	}
	switch l.Scope() {
	case router.External:
		return "ext"
	case router.Sibling:
		return "sib"
	}
	return "int"
}

// Result of one packet run.
type Result struct {
	A    *APkt
	G    Geo
	O    Obs
	S    SlowObs
	In   []byte
	Out  []byte // fast path output (forward)
	SOut []byte // slow path output
}

func (e *Env) udst(p *router.Packet, out router.Link, d *net.UDPAddr, w *Wire, src *net.UDPAddr) string {
	if out == nil || d == nil {
		return "none"
	}
	if out.Scope() != router.Internal {
		return "remote"
	}
	if src != nil && d.IP.Equal(src.IP) && d.Port == src.Port {
		return "sender"
	}
	if (len(w.DstHost) == 4 || len(w.DstHost) == 16) && w.DT == 0 && d.IP.Equal(net.IP(w.DstHost)) {
		return "dsthost"
	}
	return "other"
}

// Run processes raw as if it had arrived over link `via` (0: from e.HostSrc on the internal
// network) and records what the router did.  abstract=false packets are run but not abstracted.
func (e *Env) Run(raw []byte, via int, now time.Time) (res *Result, ok bool) {
	a, w, ok := e.Abstract(raw, via, now)
	if !ok {
		return nil, false
	}
	res = &Result{A: a, G: Geo{Alen: w.AddrLen, Len: len(raw)}, In: raw}
	res.O = Obs{Phf: -1, Pinf: -1, Osc: "none", UDst: "none"}
	res.S = SlowObs{Kind: "none", Osc: "none", Phf: -1, Qdiff: []int{}, IA: "-", Auth: "none"}
	var src *net.UDPAddr
	if via == 0 {
		src = e.HostSrc
	}
	p := e.V.NewPacket(raw, uint16(via), src)
	defer func() {
		if r := recover(); r != nil {
			res.O.Disp = "panic"
			fmt.Println("panic:", r)
		}
	}()
	r := e.V.Process(p)
	o := &res.O
	o.Eg, o.St, o.Code, o.Ptr = int(r.Egress), int(r.SlowType), int(r.SlowCode), int(r.SlowPtr)
	switch r.Disp {
	case router.VerifForward:
		o.Disp = "forward"
		o.Osc = scopeName(r.OutLink)
		res.Out = bytes.Clone(r.Raw)
		o.UDst = e.udst(p, r.OutLink, r.Dst, w, src)
		if r.OutLink == nil {
			o.Disp = "discard" // runProcessor: "egress is invalid"
		} else if o.Osc == "int" && o.UDst == "dsthost" {
			o.Disp = "deliver"
		}
		if ow, err := ParseWire(res.Out); err == nil {
			o.Phf, o.Pinf = ow.CurrHF, ow.CurrINF
		}
	case router.VerifSlowPath:
		o.Disp = "slow"
		e.runSlow(p, res, w, src)
	case router.VerifDiscard:
		o.Disp = "discard"
	case router.VerifDone:
		o.Disp = "done"
	}
	return res, true
}

func (e *Env) runSlow(p *router.Packet, res *Result, w *Wire, src *net.UDPAddr) {
	s := &res.S
	s.Ran = true
	inLink := p.Link
	r, err := e.V.ProcessSlow(p)
	if err != nil {
		s.Err = true
		return
	}
	s.Same = r.OutLink == inLink
	s.Osc = scopeName(r.OutLink)
	out := bytes.Clone(r.Raw)
	res.SOut = out
	s.Len = len(out)
	ow, perr := ParseWire(out)
	if perr != nil {
		s.Kind = "other"
		return
	}
	s.Hdr = int(ow.PayloadLen) == len(out)-int(ow.HdrLen)*4
	s.SrcRtr = addr.IA(ow.SrcIA) == e.Local && ow.ST == 0 && ow.SL == 0 &&
		bytes.Equal(ow.SrcHost, e.RouterIP.AsSlice())
	s.DstSrc = ow.DstIA == w.SrcIA && ow.DT == w.ST && ow.DL == w.SL && bytes.Equal(ow.DstHost, w.SrcHost)
	// the offending packet itself: same addresses and same bytes after the path header
	if ow.SrcIA == w.SrcIA && ow.DstIA == w.DstIA && bytes.Equal(ow.SrcHost, w.SrcHost) &&
		bytes.Equal(out[int(ow.HdrLen)*4:], res.In[int(w.HdrLen)*4:]) {
		s.Kind = "orig"
		s.Phf = ow.CurrHF
		return
	}
	if ow.L4 != 202 || ow.L4Off+4 > len(out) {
		s.Kind = "other"
		return
	}
	s.Kind = "scmp"
	m := out[ow.L4Off:]
	s.Typ, s.Code = int(m[0]), int(m[1])
	hdr := 8
	switch s.Typ {
	case 4:
		s.Ptr = int(binary.BigEndian.Uint16(m[6:]))
	case 5:
		hdr = 20
		s.IA = e.ClassOf(binary.BigEndian.Uint64(m[4:]))
		s.IfA = int(binary.BigEndian.Uint64(m[12:]))
	case 6:
		hdr = 28
		s.IA = e.ClassOf(binary.BigEndian.Uint64(m[4:]))
		s.IfA = int(binary.BigEndian.Uint64(m[12:]))
		s.IfB = int(binary.BigEndian.Uint64(m[20:]))
	case 131:
		hdr = 24
		s.IA = e.ClassOf(binary.BigEndian.Uint64(m[8:]))
		s.IfA = int(binary.BigEndian.Uint64(m[16:]))
	}
	if len(m) >= hdr && s.Typ < 128 {
		q := m[hdr:]
		s.Qlen = len(q)
		s.Qover = len(q) > len(res.In)
		for i := 0; i < len(q) && i < len(res.In) && len(s.Qdiff) < 16; i++ {
			if q[i] != res.In[i] {
				s.Qdiff = append(s.Qdiff, i)
			}
		}
	}
	s.Ck = checksumSum(ow, m)
	// reply path: the offender's hop fields in reverse order
	s.PathOK = len(ow.Hops) == len(w.Hops)
	for k := range ow.Hops {
		if s.PathOK {
			a, b := ow.Hops[k], w.Hops[len(w.Hops)-1-k]
			s.PathOK = a.In == b.In && a.Eg == b.Eg && a.Mac == b.Mac && a.Exp == b.Exp
		}
	}
	if ow.HasE2E {
		s.Auth = e.checkAuth(out, ow)
	}
}

// checksumSum folds the SCION pseudo header (scion-header.rst "Pseudo Header for Upper-Layer
// Checksum": DstIA, SrcIA, DstHost, SrcHost, upper-layer length (4 bytes), 3 zero bytes, next
// header) and the upper-layer message into a 16-bit one's complement sum.  A message with a
// correct checksum field sums to 0xffff; the specification judges that value.
func checksumSum(w *Wire, msg []byte) int {
	var b []byte
	b = append(b, w.Raw[12:12+w.AddrLen]...)
	b = binary.BigEndian.AppendUint32(b, uint32(len(msg)))
	b = append(b, 0, 0, 0, 202)
	b = append(b, msg...)
	if len(b)%2 == 1 {
		b = append(b, 0)
	}
	sum := uint32(0)
	for i := 0; i < len(b); i += 2 {
		sum += uint32(b[i])<<8 | uint32(b[i+1])
	}
	for sum > 0xffff {
		sum = sum>>16 + sum&0xffff
	}
	return int(sum)
}

// checkAuth recomputes the SPAO authenticator of an authenticated SCMP message with the key of
// the router's (fake) DRKey provider, as DESIGN.md C09 prescribes; logged, not compared here
// beyond equality of the tag.
func (e *Env) checkAuth(out []byte, ow *Wire) string {
	var scn slayers.SCION
	scn.RecyclePaths()
	if err := scn.DecodeFromBytes(out, nilFeedback{}); err != nil {
		return "bad"
	}
	var e2e slayers.EndToEndExtn
	if err := e2e.DecodeFromBytes(scn.Payload, nilFeedback{}); err != nil {
		return "bad"
	}
	opt, err := e2e.FindOption(slayers.OptTypeAuthenticator)
	if err != nil {
		return "none"
	}
	ao, err := slayers.ParsePacketAuthOption(opt)
	if err != nil {
		return "bad"
	}
	prov := &drkeyutil.FakeProvider{EpochDuration: drkeyutil.LoadEpochDuration(),
		AcceptanceWindow: drkeyutil.LoadAcceptanceWindow()}
	dst, err := scn.DstAddr()
	if err != nil {
		return "bad"
	}
	key, err := prov.GetASHostKey(time.Now(), scn.DstIA, dst)
	if err != nil {
		return "bad"
	}
	_ = drkey.SCMP
	tag := make([]byte, 16)
	_, err = spao.ComputeAuthCMAC(spao.MACInput{Key: key.Key[:], Header: ao, ScionLayer: &scn,
		PldType: slayers.L4SCMP, Pld: e2e.Payload}, make([]byte, spao.MACBufferSize), tag)
	if err != nil || !bytes.Equal(tag, ao.Authenticator()) {
		return "bad"
	}
	return "ok"
}

type nilFeedback struct{}

func (nilFeedback) SetTruncated() {}
