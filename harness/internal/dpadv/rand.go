package dpadv

import (
	"math/rand"
)

// ScionTwin turns an EPIC packet into the SCION packet with the embedded path: the 16-byte EPIC
// header is removed, path type and header length adjusted.
func ScionTwin(raw []byte) []byte {
	w, err := ParseWire(raw)
	if err != nil || w.PathType != ptEPIC {
		return raw
	}
	out := append([]byte(nil), raw[:w.PathOff]...)
	out = append(out, raw[w.PathOff+16:]...)
	out[8] = ptSCION
	out[5] -= 4
	return out
}

var shapesRand = [][]int{{1}, {2}, {3}, {4}, {1, 1}, {1, 2}, {2, 1}, {2, 2}, {1, 3}, {3, 1}, {1, 1, 1}, {1, 1, 2},
	{1, 2, 1}, {2, 1, 1}, {2, 2, 2}, {2, 3}, {3, 2}, {2, 2, 3}, {3, 2, 2}}

func pick[T any](r *rand.Rand, xs []T) T { return xs[r.Intn(len(xs))] }

// RandomPacket draws a seeded random assembly: any shape up to maxHops hop fields and three
// segments, any in-range pointer pair, any ingress link, every hop field (not only the relevant
// ones) with random interfaces / validity / expiry / alerts, biased towards packets that get deep
// into the check sequence.
func RandomPacket(e *Env, r *rand.Rand, maxHops int, kinds []string) *APkt {
	if maxHops == 0 {
		maxHops = 4
	}
	if len(kinds) == 0 {
		kinds = []string{"scion"}
	}
	ids := []int{0, 999}
	vias := []int{0}
	for _, i := range e.Cfg.Ifs {
		ids = append(ids, i.ID, i.ID) // known interfaces twice as likely
		vias = append(vias, i.ID)
	}
	classes := []string{"L", "F", "F"}
	for _, i := range e.Cfg.Ifs {
		classes = append(classes, i.Nbr)
	}
	a := &APkt{Kind: pick(r, kinds), Via: pick(r, vias), Src: pick(r, classes), Dst: pick(r, classes),
		Fault: "none", L4: "udp", Ep: AEp{true, true, true}}
	if r.Intn(12) == 0 {
		a.Fault = pick(r, []string{"len", "srchost"})
	}
	if r.Intn(8) == 0 {
		a.L4 = pick(r, []string{"trreq", "scmperr", "scmpinfo", "tcp"})
	}
	if a.Kind == "ohp" {
		a.Seg = []int{2}
		a.Infos = []AInfo{{Cons: r.Intn(6) != 0}}
		a.Hops = []AHop{{In: 0, Eg: pick(r, ids), Vp: r.Intn(4) != 0}, {}}
		if r.Intn(4) == 0 {
			a.Hops[0].In = pick(r, ids)
		}
		if r.Intn(3) == 0 {
			a.Hops[1] = AHop{In: pick(r, ids), Eg: pick(r, ids), Ia: r.Intn(2) == 0, Ea: r.Intn(2) == 0}
		}
		return a
	}
	for {
		a.Seg = pick(r, shapesRand)
		n := 0
		for _, x := range a.Seg {
			n += x
		}
		if n <= maxHops || (maxHops >= 4 && n == 6 && r.Intn(3) == 0) {
			break
		}
	}
	n := 0
	for _, x := range a.Seg {
		n += x
	}
	a.Hf = r.Intn(n)
	a.Inf = 0
	for s, acc := 0, 0; s < len(a.Seg); s++ { // mostly the matching info field
		acc += a.Seg[s]
		if a.Hf < acc {
			a.Inf = s
			break
		}
	}
	if r.Intn(10) == 0 {
		a.Inf = r.Intn(len(a.Seg))
	}
	for range a.Seg {
		a.Infos = append(a.Infos, AInfo{Cons: r.Intn(2) == 0, Peer: r.Intn(5) == 0})
	}
	viaExt := e.Scope(a.Via) == "ext"
	for k := 0; k < n; k++ {
		h := AHop{In: pick(r, ids), Eg: pick(r, ids), Exp: r.Intn(8) == 0, Ia: r.Intn(16) == 0, Ea: r.Intn(16) == 0}
		cons := a.Infos[segOf(a.Seg, k)].Cons
		if k == a.Hf && viaExt && r.Intn(4) != 0 { // entered where the hop field says
			if cons {
				h.In = a.Via
			} else {
				h.Eg = a.Via
			}
		}
		switch x := r.Intn(10); {
		case x < 6: // valid the way this router will look at it
			if k == a.Hf && !cons && viaExt {
				h.Vu = true
			} else {
				h.Vp = true
			}
		case x < 7:
			h.Vp = true
		case x < 8:
			h.Vu = true
		}
		a.Hops = append(a.Hops, h)
	}
	if a.Kind == "epic" {
		a.Ep = AEp{Fresh: r.Intn(4) != 0, Phvf: r.Intn(4) != 0, Lhvf: r.Intn(4) != 0}
	}
	return a
}

func segOf(seg []int, k int) int {
	acc := 0
	for s, x := range seg {
		acc += x
		if k < acc {
			return s
		}
	}
	return len(seg) - 1
}

// Extend appends junk hop fields to the last segment until the path has total hop fields (long
// reply paths force the slow path to build the SCMP message at the end of the buffer instead of in
// the headroom).
func Extend(a *APkt, total int) *APkt {
	b := *a
	b.Seg = append([]int(nil), a.Seg...)
	b.Hops = append([]AHop(nil), a.Hops...)
	n := len(b.Hops)
	for n < total && b.Seg[len(b.Seg)-1] < 63 {
		b.Hops = append(b.Hops, AHop{In: 999, Eg: 999})
		b.Seg[len(b.Seg)-1]++
		n++
	}
	return &b
}
