package dpadv

import (
	"encoding/binary"
	"math/rand"
	"net/netip"
	"time"

	"github.com/gopacket/gopacket"

	"github.com/scionproto/scion/pkg/addr"
	libepic "github.com/scionproto/scion/pkg/experimental/epic"
	"github.com/scionproto/scion/pkg/slayers"
	"github.com/scionproto/scion/pkg/slayers/path"
	"github.com/scionproto/scion/pkg/slayers/path/epic"
	"github.com/scionproto/scion/pkg/slayers/path/onehop"
	"github.com/scionproto/scion/pkg/slayers/path/scion"
)

// BuildOpts are the concrete degrees of freedom the abstract packet leaves open.
type BuildOpts struct {
	Payload  int  // bytes of L4 payload
	HBH, E2E bool // extension headers in front of the L4 header
	Stale    int  // EPIC, when not fresh: 0 = 4 s old, 1 = 15 s ahead, 2 = 60 s old, 3 = 60 s ahead
	Rng      *rand.Rand
}

const (
	liveExp    = 63 // 6 h
	expiredExp = 0  // 5.6 min, with segment timestamps one hour in the past
)

func (e *Env) mac6(seg uint16, ts uint32, exp uint8, in, eg uint16) [6]byte {
	m := FullHopMAC(e.Key, seg, ts, exp, in, eg)
	return [6]byte(m[:6])
}

// badMAC makes a MAC that is wrong under both accumulators, in one of several realistic ways:
// another AS's key, a single flipped bit, the MAC of a different accumulator / interface pair /
// expiry / timestamp, or noise.
func (e *Env) badMAC(r *rand.Rand, seg uint16, ts uint32, exp uint8, in, eg uint16) [6]byte {
	for {
		var m [6]byte
		f := r.Intn(7)
		if (in != 0 || eg != 0) && r.Intn(3) == 0 {
			f = 7 + r.Intn(2) // valid for the hop field with one of its interface fields left out (zero)
		}
		switch f {
		case 7:
			if in != 0 {
				m = e.mac6(seg, ts, exp, 0, eg)
			} else {
				m = e.mac6(seg, ts, exp, in, 0)
			}
		case 8:
			if eg != 0 {
				m = e.mac6(seg, ts, exp, in, 0)
			} else {
				m = e.mac6(seg, ts, exp, 0, eg)
			}
		case 0:
			other := FullHopMAC([]byte("key-of-another-as"[:16]), seg, ts, exp, in, eg)
			copy(m[:], other[:6])
		case 1:
			m = e.mac6(seg, ts, exp, in, eg)
			b := r.Intn(48)
			m[b/8] ^= 1 << (b % 8)
		case 2:
			m = e.mac6(seg^uint16(1+r.Intn(0xffff)), ts, exp, in, eg)
		case 3:
			m = e.mac6(seg, ts, exp, eg, in+1)
		case 4:
			m = e.mac6(seg, ts, exp+1, in, eg)
		case 5:
			m = e.mac6(seg, ts+1, exp, in, eg)
		default:
			r.Read(m[:])
		}
		if m != e.mac6(seg, ts, exp, in, eg) &&
			m != e.mac6(seg^binary.BigEndian.Uint16(m[:2]), ts, exp, in, eg) {
			return m
		}
	}
}

// issue fills the MACs of one segment so that every hop field gets the requested validity
// (vp: under the SegID in the info field, vu: under SegID xor own MAC prefix) where that is
// possible; it returns the SegID to put into the info field.
//
// A wish for both at once (which needs a MAC whose first two bytes are zero) is read as "valid under
// the accumulator that will be in force": upd[k] says whether this router folds hop k's MAC prefix
// into SegID before verifying it.
//
// prev: the info field of the previous segment (nil for the first): an invalid first hop field of a
// segment is, one time in three, one that would be valid under the PREVIOUS segment's SegID and
// timestamp (a router that keeps a stale info field after a cross-over accepts it).
func (e *Env) issue(r *rand.Rand, ts uint32, hops []path.HopField, wish []AHop, upd []bool,
	prev *path.InfoField) uint16 {
	want := append([]AHop(nil), wish...)
	for k := range want {
		if want[k].Vp && want[k].Vu {
			want[k].Vp, want[k].Vu = !upd[k], upd[k]
		}
	}
	seg := uint16(r.Intn(0x10000))
	anchor := -1
	for k, w := range want {
		if w.Vu {
			anchor = k
			break
		}
	}
	if anchor >= 0 {
		h := &hops[anchor]
		{
			beta := uint16(r.Intn(0x10000))
			h.Mac = e.mac6(beta, ts, h.ExpTime, h.ConsIngress, h.ConsEgress)
			seg = beta ^ binary.BigEndian.Uint16(h.Mac[:2])
		}
	}
	for k, w := range want {
		h := &hops[k]
		switch {
		case k == anchor:
		case w.Vp:
			h.Mac = e.mac6(seg, ts, h.ExpTime, h.ConsIngress, h.ConsEgress)
		case w.Vu: // a second one in the same segment: look for a fixed point
			h.Mac = e.badMAC(r, seg, ts, h.ExpTime, h.ConsIngress, h.ConsEgress)
			for x := 0; x < 0x10000; x++ {
				m := e.mac6(seg^uint16(x), ts, h.ExpTime, h.ConsIngress, h.ConsEgress)
				if binary.BigEndian.Uint16(m[:2]) == uint16(x) && x != 0 {
					h.Mac = m
					break
				}
			}
		default:
			h.Mac = e.badMAC(r, seg, ts, h.ExpTime, h.ConsIngress, h.ConsEgress)
			if k == 0 && prev != nil && r.Intn(3) == 0 {
				m := e.mac6(prev.SegID, prev.Timestamp, h.ExpTime, h.ConsIngress, h.ConsEgress)
				if m != e.mac6(seg, ts, h.ExpTime, h.ConsIngress, h.ConsEgress) &&
					m != e.mac6(seg^binary.BigEndian.Uint16(m[:2]), ts, h.ExpTime, h.ConsIngress, h.ConsEgress) {
					h.Mac = m
				}
			}
		}
	}
	return seg
}

func hostFor(class string, dst bool) netip.Addr {
	switch {
	case class == "L" && dst:
		return netip.MustParseAddr("10.0.0.99")
	case class == "L":
		return netip.MustParseAddr("10.0.0.77")
	case dst:
		return netip.MustParseAddr("172.16.9.99")
	}
	return netip.MustParseAddr("172.16.0.77")
}

func l4Bytes(kind string, n int, r *rand.Rand) (slayers.L4ProtocolType, []byte) {
	pld := make([]byte, n)
	r.Read(pld)
	switch kind {
	case "trreq": // SCMP traceroute request: type 130 code 0, id, seq, IA 0, interface 0
		b := make([]byte, 24)
		b[0] = 130
		binary.BigEndian.PutUint16(b[4:], 0x1234)
		binary.BigEndian.PutUint16(b[6:], 7)
		return slayers.L4SCMP, b
	case "scmperr": // an SCMP error message (destination unreachable) quoting something
		b := append([]byte{1, 0, 0, 0, 0, 0, 0, 0}, pld...)
		return slayers.L4SCMP, b
	case "scmpinfo": // echo request
		b := append([]byte{128, 0, 0, 0, 0, 1, 0, 2}, pld...)
		return slayers.L4SCMP, b
	case "tcp":
		b := make([]byte, 20)
		binary.BigEndian.PutUint16(b[0:], 40000)
		binary.BigEndian.PutUint16(b[2:], 40001)
		b[12] = 5 << 4
		return slayers.L4TCP, append(b, pld...)
	}
	b := make([]byte, 8)
	binary.BigEndian.PutUint16(b[0:], 40000)
	binary.BigEndian.PutUint16(b[2:], 40001)
	binary.BigEndian.PutUint16(b[4:], uint16(8+n))
	return slayers.L4UDP, append(b, pld...)
}

// Build concretises an abstract packet into bytes at time now.  The result is re-abstracted from
// the bytes by Env.Abstract before it is logged; Build's input is only a wish.
func (e *Env) Build(a *APkt, o BuildOpts, now time.Time) ([]byte, error) {
	r := o.Rng
	s := &slayers.SCION{Version: 0, TrafficClass: uint8(r.Intn(256)), FlowID: uint32(1 + r.Intn(0xfffff)),
		SrcIA: e.IA(a.Src), DstIA: e.IA(a.Dst)}
	// destination host: mostly IPv4, sometimes IPv6, for foreign destinations also a service address
	// (source and destination address types differ in a good part of the packets)
	dstHost := addr.HostIP(hostFor(a.Dst, true))
	switch x := r.Intn(8); {
	case x == 0:
		dstHost = addr.HostIP(netip.MustParseAddr("2001:db8:" + map[bool]string{true: "a", false: "f"}[a.Dst == "L"] + "::99:1"))
	case x == 1 && a.Dst != "L":
		dstHost = addr.HostSVC(addr.SvcCS)
	}
	if err := s.SetDstAddr(dstHost); err != nil {
		return nil, err
	}
	if a.Fault == "srchost" {
		m := netip.AddrFrom16(netip.MustParseAddr("::ffff:10.0.0.77").As16())
		s.SrcAddrType, s.RawSrcAddr = slayers.T16Ip, m.AsSlice()
	} else {
		src := hostFor(a.Src, false)
		if r.Intn(3) == 0 { // every third packet comes from an IPv6 host
			src = netip.MustParseAddr("2001:db8:" + map[bool]string{true: "a", false: "f"}[a.Src == "L"] + "::77:4d2e")
		}
		if err := s.SetSrcAddr(addr.HostIP(src)); err != nil {
			return nil, err
		}
	}
	l4t, l4 := l4Bytes(a.L4, o.Payload, r)
	// extension headers are written by hand: NextHdr, ExtLen = 1 (8 bytes), one PadN option
	next := l4t
	var ext []byte
	if o.E2E {
		ext = append([]byte{uint8(next), 1, 1, 4, 0, 0, 0, 0}, ext...)
		next = slayers.End2EndClass
	}
	if o.HBH {
		ext = append([]byte{uint8(next), 1, 1, 4, 0, 0, 0, 0}, ext...)
		next = slayers.HopByHopClass
	}
	s.NextHdr = next
	l4 = append(ext, l4...)
	payloadLen := len(l4)

	base := uint32(now.Unix() - 3600)
	viaExt := e.Scope(a.Via) == "ext"
	if a.Kind == "ohp" {
		ts := uint32(now.Unix() - 20)
		h := path.HopField{ConsIngress: uint16(a.Hops[0].In), ConsEgress: uint16(a.Hops[0].Eg), ExpTime: liveExp}
		seg := uint16(r.Intn(0x10000))
		if a.Hops[0].Vp {
			h.Mac = e.mac6(seg, ts, h.ExpTime, h.ConsIngress, h.ConsEgress)
		} else {
			h.Mac = e.badMAC(r, seg, ts, h.ExpTime, h.ConsIngress, h.ConsEgress)
		}
		s.PathType = onehop.PathType
		op := &onehop.Path{Info: path.InfoField{ConsDir: a.Infos[0].Cons, SegID: seg, Timestamp: ts}, FirstHop: h}
		if len(a.Hops) > 1 && (a.Hops[1].In != 0 || a.Hops[1].Eg != 0 || a.Hops[1].Ia || a.Hops[1].Ea) {
			// what the sender leaves in the second hop field is under its control
			w2 := a.Hops[1]
			op.SecondHop = path.HopField{ConsIngress: uint16(w2.In), ConsEgress: uint16(w2.Eg), ExpTime: uint8(r.Intn(256)),
				IngressRouterAlert: w2.Ia, EgressRouterAlert: w2.Ea}
			r.Read(op.SecondHop.Mac[:])
		}
		s.Path = op
	} else {
		d := &scion.Decoded{}
		segDelta := []int64{0, 3, -16, 59, -61}[r.Intn(5)]
		d.PathMeta.CurrINF, d.PathMeta.CurrHF = uint8(a.Inf), uint8(a.Hf)
		d.NumINF = len(a.Seg)
		k := 0
		for i, n := range a.Seg {
			d.PathMeta.SegLen[i] = uint8(n)
			d.NumHops += n
			// Later segments are 7 s older, or differ from the first one by the amounts that would make one
			// of the stale EPIC sender times (4 s / 60 s old, 15 s / 60 s ahead) look 1 s old if it were
			// judged against this segment's timestamp instead of the first one's.
			ts := base - uint32(7*i)
			if i > 0 && segDelta != 0 {
				ts = uint32(int64(base) + segDelta)
			}
			// A segment with hop fields that are to be expired: half of the time (once the router has
			// been running for 3 s) they expired only AFTER the router handled its first packet
			// (0.5 .. 1.5 s after e.T0, i.e. at least 1.5 s ago; a stall can only make them older),
			// otherwise 54 minutes ago.
			recent := false
			for j := 0; j < n; j++ {
				recent = recent || a.Hops[k+j].Exp
			}
			coin := r.Intn(2) == 0 // drawn unconditionally: the random stream must not depend on timing
			recent = recent && coin && !e.T0.IsZero() && now.Sub(e.T0) >= 3*time.Second &&
				!(a.Kind == "epic" && i == 0)
			if recent {
				ts = uint32(e.T0.Unix() + 1 - 337) // lifetime of ExpTime 0 is 337.5 s
			}
			// ... or (a third of the rest) a long lifetime (ExpTime 200: 18 h 50 min) that ended 3 s or 20 s
			// ago; the live hop fields of such a segment get the full 24 h. A stall can only age them.
			long := false
			for j := 0; j < n; j++ {
				long = long || a.Hops[k+j].Exp
			}
			coin3 := r.Intn(3) == 0
			long = long && !recent && coin3 && !(a.Kind == "epic" && i == 0)
			if long {
				ts = uint32(now.Unix() - int64([]int{3, 20}[r.Intn(2)]) - 67838) // 201 * 337.5 s = 67837.5 s
			}
			hops := make([]path.HopField, n)
			for j := range hops {
				w := a.Hops[k+j]
				hops[j] = path.HopField{ConsIngress: uint16(w.In), ConsEgress: uint16(w.Eg), ExpTime: liveExp,
					IngressRouterAlert: w.Ia, EgressRouterAlert: w.Ea}
				if w.Exp {
					hops[j].ExpTime = expiredExp
				}
				if long {
					hops[j].ExpTime = 255
					if w.Exp {
						hops[j].ExpTime = 200
					}
				}
			}
			upd := make([]bool, n)
			for j := range upd {
				upd[j] = k+j == a.Hf && !a.Infos[i].Cons && viaExt && !(a.Infos[a.Inf].Peer && len(a.Seg) == 2 &&
					(a.Hf == a.Seg[0]-1 || a.Hf == a.Seg[0]))
			}
			var prev *path.InfoField
			if i > 0 {
				prev = &d.InfoFields[i-1]
			}
			seg := e.issue(r, ts, hops, a.Hops[k:k+n], upd, prev)
			d.InfoFields = append(d.InfoFields, path.InfoField{ConsDir: a.Infos[i].Cons, Peer: a.Infos[i].Peer,
				SegID: seg, Timestamp: ts})
			d.HopFields = append(d.HopFields, hops...)
			k += n
		}
		s.PathType, s.Path = scion.PathType, d
		if a.Kind == "epic" {
			raw := make([]byte, d.Len())
			if err := d.SerializeTo(raw); err != nil {
				return nil, err
			}
			rp := &scion.Raw{}
			if err := rp.DecodeFromBytes(raw); err != nil {
				return nil, err
			}
			sender := now.Add(-time.Second)
			if !a.Ep.Fresh {
				// too old: a stall between building and processing only makes it older, so the
				// margin to the 3 s bound can be small; in the future: keep a wide margin
				sender = now.Add([]time.Duration{-4, 15, -60, 60}[o.Stale%4] * time.Second)
			}
			ts0 := d.InfoFields[0].Timestamp
			ets := uint32(sender.Sub(time.Unix(int64(ts0), 0))/(21*time.Microsecond)) - 1
			// Extreme packet timestamps (the offset field is 32 bits of 21 us): a first segment created
			// two seconds ago, and either a small offset (fresh) or the largest one (about 25 h ahead).
			// Only when no hop field of the first segment is to be expired (its timestamp moves).
			seg0Live := true
			for j := 0; j < a.Seg[0]; j++ {
				seg0Live = seg0Live && !a.Hops[j].Exp
			}
			if seg0Live && ((a.Ep.Fresh && r.Intn(4) == 0) || (!a.Ep.Fresh && o.Stale >= 4)) {
				ts0 = uint32(now.Unix() - 2)
				ets = uint32((now.Add(-time.Second).Sub(time.Unix(int64(ts0), 0)))/(21*time.Microsecond)) - 1
				if !a.Ep.Fresh {
					ets = 0xffffffff
				}
				// re-issue the first segment under the new timestamp
				d.InfoFields[0].Timestamp = ts0
				upd := make([]bool, a.Seg[0])
				upd[0] = false
				for j := range upd {
					upd[j] = j == a.Hf && !a.Infos[0].Cons && viaExt && !(a.Infos[a.Inf].Peer && len(a.Seg) == 2 &&
						(a.Hf == a.Seg[0]-1 || a.Hf == a.Seg[0]))
				}
				d.InfoFields[0].SegID = e.issue(r, ts0, d.HopFields[:a.Seg[0]], a.Hops[:a.Seg[0]], upd, nil)
				raw = make([]byte, d.Len())
				if err := d.SerializeTo(raw); err != nil {
					return nil, err
				}
				if err := rp.DecodeFromBytes(raw); err != nil {
					return nil, err
				}
			}
			ep := &epic.Path{PktID: epic.PktID{Timestamp: ets, Counter: r.Uint32()}, ScionPath: rp}
			var id [8]byte
			ep.PktID.SerializeTo(id[:])
			// the authenticators of the last two hop fields as this router will compute them
			w := &Wire{PathType: ptEPIC, CurrINF: a.Inf, CurrHF: a.Hf, SegLen: a.Seg}
			for _, i := range d.InfoFields {
				w.Infos = append(w.Infos, WInfo{Cons: i.ConsDir, Peer: i.Peer, SegID: i.SegID, TS: i.Timestamp})
			}
			for _, h := range d.HopFields {
				w.Hops = append(w.Hops, WHop{In: h.ConsIngress, Eg: h.ConsEgress, Exp: h.ExpTime, Mac: h.Mac})
			}
			n := len(w.Hops)
			// HVFs are computed the way a sender does: with the library (libepic.CalcMac) from the
			// hop authenticator; whether they are valid is decided independently by Abstract (EpicHVF).
			// A wrong HVF is, in equal parts: a flipped bit; the sender's value for the other of the two
			// last hop fields; the sender's value for a packet that differs in ONE input of the HVF
			// (payload length, a byte of the source host address - the last one included -, source
			// ISD-AS, packet id): what an on-path party produces by altering the packet.
			hvf := func(k int, good bool) []byte {
				hdr := slayers.SCION{SrcAddrType: s.SrcAddrType, RawSrcAddr: append([]byte(nil), s.RawSrcAddr...),
					SrcIA: s.SrcIA, PayloadLen: uint16(payloadLen)}
				pid := ep.PktID
				flavour := 0
				if !good {
					flavour = 1 + r.Intn(3)
				}
				switch {
				case flavour == 2 && n >= 2:
					k = 2*n - 3 - k
				case flavour == 3:
					switch r.Intn(6) {
					case 0:
						hdr.PayloadLen += uint16(1 + r.Intn(40))
					case 1:
						hdr.PayloadLen -= uint16(1 + r.Intn(8))
					case 2:
						hdr.RawSrcAddr[len(hdr.RawSrcAddr)-1] ^= 1 << r.Intn(8)
					case 3:
						hdr.RawSrcAddr[r.Intn(len(hdr.RawSrcAddr))] ^= 0x10
					case 4:
						hdr.SrcIA ^= 1 << r.Intn(48)
					default:
						pid.Counter ^= 1 << r.Intn(32)
					}
				}
				sigma := e.sigma(w, k, viaExt)
				m, err := libepic.CalcMac(sigma[:], pid, &hdr, ts0, nil)
				if err != nil {
					m = []byte{0, 0, 0, 0}
				}
				v := append([]byte(nil), m...)
				if flavour == 1 || (flavour == 2 && n < 2) {
					b := r.Intn(32)
					v[b/8] ^= 1 << (b % 8)
				}
				return v
			}
			ep.LHVF = hvf(n-1, a.Ep.Lhvf)
			if n >= 2 {
				ep.PHVF = hvf(n-2, a.Ep.Phvf)
			} else {
				ep.PHVF = []byte{1, 2, 3, 4}
			}
			s.PathType, s.Path = epic.PathType, ep
		}
	}
	buf := gopacket.NewSerializeBuffer()
	if err := gopacket.SerializeLayers(buf, gopacket.SerializeOptions{FixLengths: true}, s, gopacket.Payload(l4)); err != nil {
		return nil, err
	}
	raw := append([]byte(nil), buf.Bytes()...)
	if a.Fault == "len" {
		raw = append(raw, 0xee)
	}
	return raw, nil
}
