// Package pki generates control-plane PKI material (keys, x509 certificates of every SCION class,
// correct and mis-issued; TRC payloads; CMS signer infos) for the drivers of C32..C37.
// Everything is cached inside one run: the same abstract certificate always maps to the same DER.
// The package never judges: it only builds what the scenario describes.
package pki

import (
	"crypto/ecdsa"
	"crypto/elliptic"
	"crypto/rand"
	"crypto/x509"
	"crypto/x509/pkix"
	"encoding/asn1"
	"fmt"
	"math/big"
	"sync"
	"time"

	"github.com/scionproto/scion/pkg/scrypto/cms/protocol"
	"github.com/scionproto/scion/pkg/scrypto/cppki"

	"verifharness/internal/vt"
)

// Clock maps abstract integer times to wall-clock instants: T(k) = Base + k*Unit. Base is the
// (second-truncated) start time of the run, so abstract time 0 is "now" and every integer k != 0 is
// at least Unit minus the run time away from the wall clock.
type Clock struct {
	Base time.Time
	Unit time.Duration
}

func NewClock(unit time.Duration) Clock {
	return Clock{Base: time.Now().UTC().Truncate(time.Second), Unit: unit}
}

func (c Clock) T(k int) time.Time { return c.Base.Add(time.Duration(k) * c.Unit) }

// Abs is the inverse of T; ok is false if t is not on the grid.
func (c Clock) Abs(t time.Time) (int, bool) {
	d := t.Sub(c.Base)
	if d%c.Unit != 0 {
		return 0, false
	}
	return int(d / c.Unit), true
}

// Cert is a certificate with the private key of its subject.
type Cert struct {
	X   *x509.Certificate
	Key *ecdsa.PrivateKey
}

// Spec describes one certificate.
type Spec struct {
	Kind     string // sens | reg | root | ca | as   (template family)
	CN       string // common name
	IA       string // ISD-AS attribute of the subject ("" = none)
	SN       int64  // serial number
	NB, NA   time.Time
	KeyName  string // identity of the subject key ("" = derived from Kind/CN/Ver)
	Ver      int    // version tag: a different Ver gives a different key and DER
	Parent   *Cert  // issuer; nil = self-signed
	IssuerCN string // for parentless certificates: issuer name differs from the subject (signed by a throw-away key)
	IssuerIA string
	ModName  string                  // name of the template tweak (part of the cache key)
	Mod      func(*x509.Certificate) // template tweak for mis-issued certificates
}

type PKI struct {
	mu    sync.Mutex
	keys  map[string]*ecdsa.PrivateKey
	certs map[string]*Cert
}

func New() *PKI {
	return &PKI{keys: map[string]*ecdsa.PrivateKey{}, certs: map[string]*Cert{}}
}

// Key returns the (cached) P-256 key with the given name.
func (p *PKI) Key(name string) *ecdsa.PrivateKey {
	p.mu.Lock()
	defer p.mu.Unlock()
	if k, ok := p.keys[name]; ok {
		return k
	}
	k, err := ecdsa.GenerateKey(elliptic.P256(), rand.Reader)
	if err != nil {
		vt.Fatal("keygen: %v", err)
	}
	p.keys[name] = k
	return k
}

// Name builds a distinguished name with an optional ISD-AS attribute.
func Name(cn, ia string) pkix.Name {
	n := pkix.Name{CommonName: cn}
	if ia != "" {
		n.ExtraNames = []pkix.AttributeTypeAndValue{{Type: cppki.OIDNameIA, Value: ia}}
	}
	return n
}

func template(kind string) x509.Certificate {
	switch kind {
	case "as":
		return x509.Certificate{KeyUsage: x509.KeyUsageDigitalSignature,
			ExtKeyUsage: []x509.ExtKeyUsage{x509.ExtKeyUsageServerAuth, x509.ExtKeyUsageClientAuth,
				x509.ExtKeyUsageTimeStamping}}
	case "ca":
		return x509.Certificate{KeyUsage: x509.KeyUsageCertSign, BasicConstraintsValid: true,
			IsCA: true, MaxPathLen: 0, MaxPathLenZero: true}
	case "root":
		return x509.Certificate{KeyUsage: x509.KeyUsageCertSign,
			ExtKeyUsage:           []x509.ExtKeyUsage{x509.ExtKeyUsageTimeStamping},
			UnknownExtKeyUsage:    []asn1.ObjectIdentifier{cppki.OIDExtKeyUsageRoot},
			BasicConstraintsValid: true, IsCA: true, MaxPathLen: 1}
	case "reg":
		return x509.Certificate{ExtKeyUsage: []x509.ExtKeyUsage{x509.ExtKeyUsageTimeStamping},
			UnknownExtKeyUsage: []asn1.ObjectIdentifier{cppki.OIDExtKeyUsageRegular}}
	case "sens":
		return x509.Certificate{ExtKeyUsage: []x509.ExtKeyUsage{x509.ExtKeyUsageTimeStamping},
			UnknownExtKeyUsage: []asn1.ObjectIdentifier{cppki.OIDExtKeyUsageSensitive}}
	}
	vt.Fatal("unknown certificate kind %q", kind)
	return x509.Certificate{}
}

func (s Spec) cacheKey() string {
	parent := ""
	if s.Parent != nil {
		parent = fmt.Sprintf("%x", s.Parent.X.Raw[len(s.Parent.X.Raw)-12:])
	}
	return fmt.Sprintf("%s|%s|%s|%d|%d|%d|%s|%d|%s|%s|%s|%s", s.Kind, s.CN, s.IA, s.SN, s.NB.Unix(),
		s.NA.Unix(), s.KeyName, s.Ver, parent, s.IssuerCN, s.IssuerIA, s.ModName)
}

// Cert returns the (cached) certificate described by s.
func (p *PKI) Cert(s Spec) *Cert {
	ck := s.cacheKey()
	p.mu.Lock()
	if c, ok := p.certs[ck]; ok {
		p.mu.Unlock()
		return c
	}
	p.mu.Unlock()
	kn := s.KeyName
	if kn == "" {
		kn = fmt.Sprintf("%s/%s/%s/%d", s.Kind, s.CN, s.IA, s.Ver)
	}
	key := p.Key(kn)
	tmpl := template(s.Kind)
	tmpl.SerialNumber = big.NewInt(s.SN)
	tmpl.Subject = Name(s.CN, s.IA)
	tmpl.NotBefore, tmpl.NotAfter = s.NB, s.NA
	skid, err := cppki.SubjectKeyID(&key.PublicKey)
	if err != nil {
		vt.Fatal("skid: %v", err)
	}
	tmpl.SubjectKeyId = skid
	var parent *x509.Certificate
	var signer *ecdsa.PrivateKey
	switch {
	case s.Parent != nil:
		parent, signer = s.Parent.X, s.Parent.Key
		tmpl.AuthorityKeyId = s.Parent.X.SubjectKeyId
	case s.IssuerCN != "":
		parent = &x509.Certificate{Subject: Name(s.IssuerCN, s.IssuerIA)}
		signer = p.Key("throwaway/" + s.IssuerCN)
	default:
		parent, signer = &tmpl, key
	}
	if s.Mod != nil {
		s.Mod(&tmpl)
	}
	raw, err := x509.CreateCertificate(rand.Reader, &tmpl, parent, &key.PublicKey, signer)
	if err != nil {
		vt.Fatal("create certificate %s: %v", ck, err)
	}
	x, err := x509.ParseCertificate(raw)
	if err != nil {
		vt.Fatal("parse certificate %s: %v", ck, err)
	}
	c := &Cert{X: x, Key: key}
	p.mu.Lock()
	p.certs[ck] = c
	p.mu.Unlock()
	return c
}

// SignerInfo produces a CMS SignerInfo over payload whose signer identifier names cert and whose
// signature is made with key (key may differ from the certificate's key: a forged signer info).
func SignerInfo(payload []byte, cert *x509.Certificate, key *ecdsa.PrivateKey) protocol.SignerInfo {
	eci, err := protocol.NewDataEncapsulatedContentInfo(payload)
	if err != nil {
		vt.Fatal("eci: %v", err)
	}
	sd, err := protocol.NewSignedData(eci)
	if err != nil {
		vt.Fatal("signed data: %v", err)
	}
	c := cert
	if !key.PublicKey.Equal(cert.PublicKey) {
		cp := *cert
		cp.PublicKey = &key.PublicKey
		c = &cp
	}
	if err := sd.AddSignerInfo([]*x509.Certificate{c}, key); err != nil {
		vt.Fatal("add signer info: %v", err)
	}
	return sd.SignerInfos[0]
}

// SignedCMS produces a CMS SignedData (DER ContentInfo) over payload with the given certificates
// attached and one signer info per (cert, key) pair.
func SignedCMS(payload []byte, attach []*x509.Certificate, signers []*Cert) []byte {
	eci, err := protocol.NewDataEncapsulatedContentInfo(payload)
	if err != nil {
		vt.Fatal("eci: %v", err)
	}
	sd, err := protocol.NewSignedData(eci)
	if err != nil {
		vt.Fatal("signed data: %v", err)
	}
	for _, s := range signers {
		sd.SignerInfos = append(sd.SignerInfos, SignerInfo(payload, s.X, s.Key))
		sd.AddDigestAlgorithm(sd.SignerInfos[len(sd.SignerInfos)-1].DigestAlgorithm)
	}
	for _, c := range attach {
		if err := sd.AddCertificate(c); err != nil {
			vt.Fatal("add certificate: %v", err)
		}
	}
	der, err := sd.ContentInfoDER()
	if err != nil {
		vt.Fatal("content info: %v", err)
	}
	return der
}
