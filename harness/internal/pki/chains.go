package pki

import (
	"crypto/x509"
	"fmt"

	"github.com/scionproto/scion/pkg/addr"
	"github.com/scionproto/scion/pkg/scrypto/cppki"

	"verifharness/internal/vt"
)

// AChainCert is the abstract certificate of spec/TrustStoreOps.tla (C34/C36/C37).
type AChainCert struct {
	ID     int    `json:"id"`
	Kind   string `json:"kind"`
	Signer int    `json:"signer"`
	NB     int    `json:"nb"`
	NA     int    `json:"na"`
	IA     int    `json:"ia"`
	Key    int    `json:"key"` // 0: a key of its own; k > 0: the k-th key of the key ring
}

// ChainIA is the concrete ISD-AS of abstract subject a (0 = no ISD-AS attribute).
func ChainIA(a int) addr.IA {
	return addr.MustIAFrom(1, addr.AS(0xff0000000110+uint64(a)-1))
}

// ChainWorld concretises chain certificates (and the TRCs that carry their roots) on a clock.
type ChainWorld struct {
	P     *PKI
	Clk   Clock
	Certs map[int]AChainCert
	Tag   string // distinguishes worlds that share one PKI cache
	built map[int]*Cert
}

func NewChainWorld(p *PKI, clk Clock, pool []AChainCert, tag string) *ChainWorld {
	cw := &ChainWorld{P: p, Clk: clk, Certs: map[int]AChainCert{}, Tag: tag, built: map[int]*Cert{}}
	for _, c := range pool {
		cw.Certs[c.ID] = c
	}
	return cw
}

// RingKeyName names the k-th key of the key ring in the PKI key cache.
func (cw *ChainWorld) RingKeyName(k int) string { return fmt.Sprintf("%s/ring/%d", cw.Tag, k) }

// Cert returns the concrete certificate with abstract id.
func (cw *ChainWorld) Cert(id int) *Cert {
	if c, ok := cw.built[id]; ok {
		return c
	}
	a, ok := cw.Certs[id]
	if !ok {
		vt.Fatal("chain certificate %d not in pool", id)
	}
	ia := ""
	if a.IA != 0 {
		ia = ChainIA(a.IA).String()
	}
	s := Spec{IA: ia, SN: int64(1000 + id), NB: cw.Clk.T(a.NB), NA: cw.Clk.T(a.NA), Ver: id,
		KeyName: fmt.Sprintf("%s/chain/%d", cw.Tag, id)}
	if a.Key != 0 {
		s.KeyName = cw.RingKeyName(a.Key)
	}
	// subject names: roots are named by id, CAs share one name, AS certificates are named by their ISD-AS
	switch a.Kind {
	case "root":
		s.Kind, s.CN = "root", fmt.Sprintf("root%d", id)
	case "ca":
		s.Kind, s.CN = "ca", "ca"
	case "ca-ds":
		s.Kind, s.CN, s.ModName = "ca", "ca", "ds"
		s.Mod = func(t *x509.Certificate) { t.KeyUsage |= x509.KeyUsageDigitalSignature }
	case "ca-noia":
		s.Kind, s.CN = "ca", "ca"
	case "ca-nobc":
		s.Kind, s.CN, s.ModName = "ca", "ca", "nobc"
		s.Mod = func(t *x509.Certificate) { t.BasicConstraintsValid, t.IsCA, t.MaxPathLenZero = false, false, false }
	case "ca-serverauth":
		s.Kind, s.CN, s.ModName = "ca", "ca", "serverauth"
		s.Mod = func(t *x509.Certificate) { t.ExtKeyUsage = []x509.ExtKeyUsage{x509.ExtKeyUsageServerAuth} }
	case "as":
		s.Kind, s.CN = "as", "as"
	case "as-certsign":
		s.Kind, s.CN, s.ModName = "as", "as", "certsign"
		s.Mod = func(t *x509.Certificate) { t.KeyUsage |= x509.KeyUsageCertSign }
	case "as-nods":
		s.Kind, s.CN, s.ModName = "as", "as", "nods"
		s.Mod = func(t *x509.Certificate) { t.KeyUsage = 0 }
	case "as-nots":
		s.Kind, s.CN, s.ModName = "as", "as", "nots"
		s.Mod = func(t *x509.Certificate) {
			t.ExtKeyUsage = []x509.ExtKeyUsage{x509.ExtKeyUsageServerAuth, x509.ExtKeyUsageClientAuth}
		}
	case "as-isca":
		s.Kind, s.CN, s.ModName = "as", "as", "isca"
		s.Mod = func(t *x509.Certificate) { t.BasicConstraintsValid, t.IsCA = true, true }
	case "as-noia":
		s.Kind, s.CN = "as", "as"
	default:
		vt.Fatal("unknown chain certificate kind %q", a.Kind)
	}
	if a.Signer != id {
		s.Parent = cw.Cert(a.Signer)
	}
	c := cw.P.Cert(s)
	cw.built[id] = c
	return c
}

// Chain concretises a sequence of ids.
func (cw *ChainWorld) Chain(ids []int) []*x509.Certificate {
	out := make([]*x509.Certificate, 0, len(ids))
	for _, id := range ids {
		out = append(out, cw.Cert(id).X)
	}
	return out
}

// Ident maps a concrete chain back to abstract ids (-1 for unknown certificates).
func (cw *ChainWorld) Ident(chain []*x509.Certificate) []int {
	out := []int{}
	for _, c := range chain {
		id := -1
		for k, b := range cw.built {
			if b.X.Equal(c) {
				id = k
			}
		}
		out = append(out, id)
	}
	return out
}

// ATRC is the abstract TRC of C34/C36/C37.
type ATRC struct {
	Serial int   `json:"serial"`
	Base   int   `json:"base"`
	NB     int   `json:"nb"`
	NA     int   `json:"na"`
	Grace  int   `json:"grace"`
	Roots  []int `json:"roots"`
}

// TRC builds a signed TRC of ISD 1 with the given roots and four fixed voting certificates. A
// non-base TRC carries votes of both sensitive voters of its predecessor (certificate order is
// sensitive, sensitive, regular, regular, roots...), signed by them.
func (cw *ChainWorld) TRC(a ATRC) cppki.SignedTRC {
	far := 20000
	// (voting certificates without ISD-AS attribute: independent of the seed-dependent ISD table)
	voters := []ACert{
		{Cls: "sens", Subj: 1, Iss: 1, SN: 1, ISD: 0, NB: -far, NA: far, Ver: 1},
		{Cls: "sens", Subj: 2, Iss: 2, SN: 2, ISD: 0, NB: -far, NA: far, Ver: 1},
		{Cls: "reg", Subj: 3, Iss: 3, SN: 3, ISD: 0, NB: -far, NA: far, Ver: 1},
		{Cls: "reg", Subj: 4, Iss: 4, SN: 4, ISD: 0, NB: -far, NA: far, Ver: 1},
	}
	vw := NewWorld(cw.P, cw.Clk, voters)
	t := cppki.TRC{Version: 1,
		ID:       cppki.TRCID{ISD: 1, Base: 1, Serial: 1},
		Validity: cppki.Validity{NotBefore: cw.Clk.T(a.NB), NotAfter: cw.Clk.T(a.NA)}, NoTrustReset: true, Quorum: 2,
		CoreASes: []addr.AS{0xff0000000110}, AuthoritativeASes: []addr.AS{0xff0000000110},
		Description: fmt.Sprintf("%s serial %d", cw.Tag, a.Serial)}
	t.ID.Base, t.ID.Serial = uint64v(a.Base), uint64v(a.Serial)
	for i := 1; i <= 4; i++ {
		t.Certificates = append(t.Certificates, vw.Cert(i).X)
	}
	for _, r := range a.Roots {
		t.Certificates = append(t.Certificates, cw.Cert(r).X)
	}
	signers := []int{1, 2, 3, 4}
	if a.Serial != a.Base {
		t.Votes = []int{0, 1}
		t.GracePeriod = cw.Clk.Unit * durationOf(a.Grace)
		signers = []int{1, 2}
	}
	raw, err := t.Encode()
	if err != nil {
		vt.Fatal("TRC %+v does not encode: %v", a, err)
	}
	sis := signerInfos(raw, vw, signers)
	dec, err := cppki.DecodeSignedTRC(CMS(raw, sis))
	if err != nil {
		vt.Fatal("TRC %+v does not decode: %v", a, err)
	}
	return dec
}
