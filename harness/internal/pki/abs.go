package pki

import (
	"bytes"
	"crypto/x509"
	"encoding/asn1"
	"fmt"
	"time"

	"github.com/scionproto/scion/pkg/addr"
	"github.com/scionproto/scion/pkg/scrypto"
	"github.com/scionproto/scion/pkg/scrypto/cms/protocol"
	"github.com/scionproto/scion/pkg/scrypto/cppki"

	"verifharness/internal/vt"
)

// ACert is the abstract certificate of spec/TRCOps.tla.
type ACert struct {
	Cls  string `json:"cls"`
	Subj int    `json:"subj"`
	Iss  int    `json:"iss"`
	SN   int    `json:"sn"`
	ISD  int    `json:"isd"`
	NB   int    `json:"nb"`
	NA   int    `json:"na"`
	Ver  int    `json:"ver"`
}

// APayload is the abstract TRC payload of spec/TRCOps.tla (certificates as 1-based pool indices).
type APayload struct {
	Ver    int   `json:"ver"`
	ISD    int   `json:"isd"`
	Base   int   `json:"base"`
	Serial int   `json:"serial"`
	NB     int   `json:"nb"`
	NA     int   `json:"na"`
	Grace  int   `json:"grace"`
	Reset  bool  `json:"reset"`
	Votes  []int `json:"votes"`
	Quorum int   `json:"quorum"`
	Core   []int `json:"core"`
	Auth   []int `json:"auth"`
	Desc   int   `json:"desc"`
	Certs  []int `json:"certs"`
}

// Concretisation tables (abstract value -> concrete value). All are injective.
var (
	isdTable  = []addr.ISD{0, 1, 2, 65535}
	asTable   = []addr.AS{0, 0xff0000000110, 0xff0000000111, 65000, addr.MaxAS, 1}
	descTable = []string{"", "ISD one", "Beschreibung üñï ☃ 説明"}
)

// With VERIF_SEED != 1 the middle entries of the tables are drawn from the seed (the extreme values
// -- wildcard, maximum, 1 -- stay): the abstract cases are the same, their concrete images differ.
func init() {
	if vt.Seed() == 1 {
		return
	}
	r := vt.Rand(3233)
	a, b := 1+r.Intn(65533), 1+r.Intn(65533)
	for b == a {
		b = 1 + r.Intn(65533)
	}
	isdTable[1], isdTable[2] = addr.ISD(a), addr.ISD(b)
	x, y := addr.AS(2+r.Int63n(int64(addr.MaxAS)-3)), addr.AS(2+r.Int63n(int64(addr.MaxAS)-3))
	for y == x {
		y = addr.AS(2 + r.Int63n(int64(addr.MaxAS)-3))
	}
	asTable[1], asTable[2] = x, y
	asTable[3] = addr.AS(2 + r.Int63n(1<<32-3)) // a BGP-style AS number
	for asTable[3] == x || asTable[3] == y {
		asTable[3]++
	}
}

func ISD(a int) addr.ISD {
	if a < 0 || a >= len(isdTable) {
		vt.Fatal("abstract ISD %d out of table", a)
	}
	return isdTable[a]
}

func AS(a int) addr.AS {
	if a < 0 || a >= len(asTable) {
		vt.Fatal("abstract AS %d out of table", a)
	}
	return asTable[a]
}

// IAString is the ISD-AS attribute used in certificate names for abstract ISD a ("" for 0).
func IAString(a int) string {
	if a == 0 {
		return ""
	}
	return addr.MustIAFrom(ISD(a), asTable[1]).String()
}

// World concretises abstract certificates and payloads on a clock.
type World struct {
	P    *PKI
	Clk  Clock
	Pool []ACert // abstract pool (index 1 = Pool[0])
	conc []*Cert
}

func NewWorld(p *PKI, clk Clock, pool []ACert) *World {
	w := &World{P: p, Clk: clk, Pool: pool, conc: make([]*Cert, len(pool))}
	for i := range pool {
		w.conc[i] = w.build(i, map[int]bool{})
	}
	return w
}

// Cert returns the concrete certificate of 1-based pool index i.
func (w *World) Cert(i int) *Cert {
	if i < 1 || i > len(w.conc) {
		vt.Fatal("pool index %d out of range", i)
	}
	return w.conc[i-1]
}

func (w *World) build(i int, busy map[int]bool) *Cert {
	if w.conc[i] != nil {
		return w.conc[i]
	}
	a := w.Pool[i]
	ia := IAString(a.ISD)
	s := Spec{CN: fmt.Sprintf("subj%d", a.Subj), IA: ia, SN: int64(a.SN), NB: w.Clk.T(a.NB),
		NA: w.Clk.T(a.NA), Ver: a.Ver}
	switch a.Cls {
	case "sens", "reg", "root", "ca", "as":
		s.Kind = a.Cls
	case "both":
		s.Kind, s.ModName = "sens", "both"
		s.Mod = func(t *x509.Certificate) {
			t.UnknownExtKeyUsage = append(t.UnknownExtKeyUsage, cppki.OIDExtKeyUsageRegular)
		}
	case "sensds":
		s.Kind, s.ModName = "sens", "ds"
		s.Mod = func(t *x509.Certificate) { t.KeyUsage |= x509.KeyUsageDigitalSignature }
	case "rootnoca":
		s.Kind, s.ModName = "root", "noca"
		s.Mod = func(t *x509.Certificate) { t.BasicConstraintsValid, t.IsCA, t.MaxPathLen = false, false, 0 }
	case "regca":
		s.Kind, s.ModName = "reg", "ca"
		s.Mod = func(t *x509.Certificate) { t.BasicConstraintsValid, t.IsCA = true, true }
	default:
		vt.Fatal("unknown abstract certificate class %q", a.Cls)
	}
	if a.Iss != a.Subj {
		// issued by another name: by the pool certificate with that subject if it can sign
		// certificates, otherwise under that name with a throw-away key
		busy[i] = true
		for j, b := range w.Pool {
			if b.Subj == a.Iss && b.ISD == a.ISD && (b.Cls == "root" || b.Cls == "ca") && !busy[j] &&
				(a.Cls == "ca" || a.Cls == "as") {
				s.Parent = w.build(j, busy)
				break
			}
		}
		if s.Parent == nil {
			s.IssuerCN, s.IssuerIA = fmt.Sprintf("subj%d", a.Iss), ia
		}
	}
	c := w.P.Cert(s)
	w.conc[i] = c
	return c
}

// TRC concretises an abstract payload (without validating anything).
func (w *World) TRC(a APayload) cppki.TRC {
	t := cppki.TRC{
		Version:      a.Ver,
		ID:           cppki.TRCID{ISD: ISD(a.ISD), Base: scrypto.Version(a.Base), Serial: scrypto.Version(a.Serial)},
		Validity:     cppki.Validity{NotBefore: w.Clk.T(a.NB), NotAfter: w.Clk.T(a.NA)},
		GracePeriod:  time.Duration(a.Grace) * w.Clk.Unit,
		NoTrustReset: a.Reset,
		Votes:        append([]int{}, a.Votes...),
		Quorum:       a.Quorum,
		Description:  descTable[a.Desc],
	}
	for _, x := range a.Core {
		t.CoreASes = append(t.CoreASes, AS(x))
	}
	for _, x := range a.Auth {
		t.AuthoritativeASes = append(t.AuthoritativeASes, AS(x))
	}
	for _, i := range a.Certs {
		t.Certificates = append(t.Certificates, w.Cert(i).X)
	}
	return t
}

const offGrid = -99999

// AbstractSub is Abstract for TRCs whose validity may lie off the abstract time grid (sub-second
// parts): validity instants are rounded down to the grid and sub reports whether anything was cut.
func (w *World) AbstractSub(t cppki.TRC) (APayload, int) {
	a := w.Abstract(t)
	sub := 0
	floor := func(x time.Time) int {
		d := x.Sub(w.Clk.Base)
		k := int(d / w.Clk.Unit)
		if d%w.Clk.Unit != 0 {
			sub = 1
			if d < 0 {
				k--
			}
		}
		return k
	}
	a.NB, a.NA = floor(t.Validity.NotBefore), floor(t.Validity.NotAfter)
	return a, sub
}

// Abstract is the abstraction function for decoded TRCs (inverse of TRC on its image; values
// outside the tables map to sentinels that equal no generated value).
func (w *World) Abstract(t cppki.TRC) APayload {
	a := APayload{Ver: t.Version, ISD: -1, Base: int(t.ID.Base), Serial: int(t.ID.Serial),
		Reset: t.NoTrustReset, Votes: append([]int{}, t.Votes...), Quorum: t.Quorum, Desc: -1,
		Core: []int{}, Auth: []int{}, Certs: []int{}}
	for i, x := range isdTable {
		if x == t.ID.ISD {
			a.ISD = i
		}
	}
	a.NB, a.NA, a.Grace = offGrid, offGrid, offGrid
	if k, ok := w.Clk.Abs(t.Validity.NotBefore); ok {
		a.NB = k
	}
	if k, ok := w.Clk.Abs(t.Validity.NotAfter); ok {
		a.NA = k
	}
	if t.GracePeriod%w.Clk.Unit == 0 {
		a.Grace = int(t.GracePeriod / w.Clk.Unit)
	}
	for i, d := range descTable {
		if d == t.Description {
			a.Desc = i
		}
	}
	absAS := func(xs []addr.AS) []int {
		out := []int{}
		for _, x := range xs {
			k := -1
			for i, y := range asTable {
				if x == y {
					k = i
				}
			}
			out = append(out, k)
		}
		return out
	}
	a.Core, a.Auth = absAS(t.CoreASes), absAS(t.AuthoritativeASes)
	for _, c := range t.Certificates {
		k := 0
		for i, pc := range w.conc {
			if bytes.Equal(pc.X.Raw, c.Raw) {
				k = i + 1
				break
			}
		}
		a.Certs = append(a.Certs, k)
	}
	return a
}

// The driver's own ASN.1 form of the TRC payload (doc/cryptography/trc.rst), used to put payloads
// on the wire that TRC.Encode refuses to produce.
type asn1ID struct {
	ISD    int64
	Serial int64
	Base   int64
}
type asn1Validity struct {
	NotBefore time.Time `asn1:"generalized"`
	NotAfter  time.Time `asn1:"generalized"`
}
type asn1Payload struct {
	Version      int64
	ID           asn1ID
	Validity     asn1Validity
	GracePeriod  int64
	NoTrustReset bool
	Votes        []int64
	Quorum       int64
	CoreASes     []string
	AuthASes     []string
	Description  string `asn1:"utf8"`
	Certificates []asn1.RawValue
}

// WirePayload marshals the abstract payload directly (no validation). ok=false if ASN.1 cannot
// represent it.
func (w *World) WirePayload(a APayload) ([]byte, bool) {
	t := w.TRC(a)
	p := asn1Payload{Version: int64(t.Version - 1),
		ID:          asn1ID{ISD: int64(t.ID.ISD), Serial: int64(t.ID.Serial), Base: int64(t.ID.Base)},
		Validity:    asn1Validity{NotBefore: t.Validity.NotBefore.UTC(), NotAfter: t.Validity.NotAfter.UTC()},
		GracePeriod: int64(t.GracePeriod / time.Second), NoTrustReset: t.NoTrustReset,
		Votes: []int64{}, Quorum: int64(t.Quorum), CoreASes: []string{}, AuthASes: []string{},
		Description: t.Description, Certificates: []asn1.RawValue{}}
	for _, v := range t.Votes {
		p.Votes = append(p.Votes, int64(v))
	}
	for _, x := range t.CoreASes {
		p.CoreASes = append(p.CoreASes, x.String())
	}
	for _, x := range t.AuthoritativeASes {
		p.AuthASes = append(p.AuthASes, x.String())
	}
	for _, c := range t.Certificates {
		var rv asn1.RawValue
		if _, err := asn1.Unmarshal(c.Raw, &rv); err != nil {
			return nil, false
		}
		p.Certificates = append(p.Certificates, rv)
	}
	raw, err := asn1.Marshal(p)
	if err != nil {
		return nil, false
	}
	return raw, true
}

// CMS assembles the CMS SignedData (DER ContentInfo, no certificates attached) around raw with the
// given signer infos. Nothing is validated.
func CMS(raw []byte, sis []protocol.SignerInfo) []byte {
	eci, err := protocol.NewDataEncapsulatedContentInfo(raw)
	if err != nil {
		vt.Fatal("eci: %v", err)
	}
	sd := protocol.SignedData{Version: 1, EncapContentInfo: eci, SignerInfos: sis}
	if sis == nil {
		sd.SignerInfos = []protocol.SignerInfo{}
	}
	for _, si := range sis {
		sd.AddDigestAlgorithm(si.DigestAlgorithm)
	}
	der, err := sd.ContentInfoDER()
	if err != nil {
		vt.Fatal("content info: %v", err)
	}
	return der
}

// SignedTRC builds the signed TRC for payload a with genuine signer infos of the listed pool
// certificates, as a remote would serve it (encoded and decoded again). It does not verify it.
func (w *World) SignedTRC(a APayload, signers []int) cppki.SignedTRC {
	t := w.TRC(a)
	raw, err := t.Encode()
	if err != nil {
		vt.Fatal("payload %+v does not encode: %v", a, err)
	}
	var sis []protocol.SignerInfo
	for _, i := range signers {
		c := w.Cert(i)
		sis = append(sis, SignerInfo(raw, c.X, c.Key))
	}
	dec, err := cppki.DecodeSignedTRC(CMS(raw, sis))
	if err != nil {
		vt.Fatal("signed TRC %+v does not decode: %v", a, err)
	}
	return dec
}

func uint64v(x int) scrypto.Version { return scrypto.Version(x) }

func durationOf(x int) time.Duration { return time.Duration(x) }

func signerInfos(raw []byte, w *World, signers []int) []protocol.SignerInfo {
	var sis []protocol.SignerInfo
	for _, i := range signers {
		c := w.Cert(i)
		sis = append(sis, SignerInfo(raw, c.X, c.Key))
	}
	return sis
}
