// Package segpool concretises abstract segment descriptors (as used by SegDB*.tla, BeaconStore*.tla,
// HiddenPath*.tla) into real, signed path segments, and abstracts real segments returned by the code
// under test back to pool indices. It never judges.
package segpool

import (
	"context"
	"crypto/ecdsa"
	"crypto/elliptic"
	"crypto/sha256"
	"encoding/hex"
	"time"

	"github.com/scionproto/scion/pkg/addr"
	cryptopb "github.com/scionproto/scion/pkg/proto/crypto"
	"github.com/scionproto/scion/pkg/scrypto/signed"
	seg "github.com/scionproto/scion/pkg/segment"
	"github.com/scionproto/scion/pkg/slayers/path"

	"verifharness/internal/vt"
)

// Base is abstract time 0 (whole seconds).
var Base = time.Unix(1_700_000_000, 0)

// Unit is the number of seconds of one hop-field expiry step pair (ExpTime 2k-1 <-> k*Unit seconds).
const Unit = 675

// Hop is one AS entry of a descriptor: ia = isd*10 + as.
type Hop struct {
	IA int `json:"ia"`
	In int `json:"in"`
	Eg int `json:"eg"`
}

// Desc is the abstract description of one concrete segment version.
type Desc struct {
	TS    int      `json:"ts"`    // info timestamp, seconds after Base
	SV    int      `json:"sv"`    // signing time of the LAST AS entry, milliseconds after Base
	TTL   int      `json:"ttl"`   // max hop-field lifetime in Units (1..128)
	Hops  []Hop    `json:"hops"`  // AS entries
	Peers [][2]int `json:"peers"` // (1-based AS entry index, peer ingress ifid)
	Next  int      `json:"next"`  // Next IA of the last AS entry (0 for terminated segments)
	Bad   []int    `json:"bad"`   // 1-based indices of AS entries signed with the WRONG key
	// PeerIA is the peer ISD-AS of all peer entries (default 99).
	PeerIA int `json:"peerIA"`
	// filled by Build
	ID  []int `json:"id"`  // hex digits of Segment.ID()
	Exp int   `json:"exp"` // TS + TTL*Unit  (seconds after Base)
}

// IA maps the abstract ISD-AS n = isd*10+as to a real one (as part 0 / isd part 0 stay wildcards).
func IA(n int) addr.IA {
	isd, as := n/10, n%10
	var a addr.AS
	if as != 0 {
		a = addr.AS(0xff00_0000_0000 + uint64(as))
	}
	return addr.MustIAFrom(addr.ISD(isd), a)
}

// AbsIA is the inverse of IA (-1 if the value is not in the image).
func AbsIA(ia addr.IA) int {
	as := 0
	if ia.AS() != 0 {
		d := uint64(ia.AS()) - 0xff00_0000_0000
		if d < 1 || d > 9 {
			return -1
		}
		as = int(d)
	}
	if ia.ISD() > 9 {
		return -1
	}
	return int(ia.ISD())*10 + as
}

// Key is the fixed signing key (deterministic so that runs are reproducible).
var Key = mkKey("verif-segpool-key")

// BadKey signs the AS entries whose signature must not verify.
var BadKey = mkKey("verif-segpool-wrong-key")

func mkKey(seed string) *ecdsa.PrivateKey {
	h := sha256.Sum256([]byte(seed))
	k, err := ecdsa.ParseRawPrivateKey(elliptic.P256(), h[:])
	if err != nil {
		panic(err)
	}
	return k
}

// Signer signs with Key and a fixed header timestamp.
type Signer struct {
	Timestamp time.Time
	Wrong     bool // sign with BadKey
}

func (s Signer) Sign(ctx context.Context, msg []byte, ad ...[]byte) (*cryptopb.SignedMessage, error) {
	l := 0
	for _, d := range ad {
		l += len(d)
	}
	hdr := signed.Header{
		SignatureAlgorithm:   signed.ECDSAWithSHA256,
		AssociatedDataLength: l,
		Timestamp:            s.Timestamp,
	}
	if s.Wrong {
		return signed.Sign(hdr, msg, BadKey, ad...)
	}
	return signed.Sign(hdr, msg, Key, ad...)
}

// Verifier verifies with Key's public key (a corrupted signature fails).
type Verifier struct{}

func (Verifier) Verify(ctx context.Context, m *cryptopb.SignedMessage, ad ...[]byte) (*signed.Message, error) {
	return signed.Verify(m, Key.Public(), ad...)
}

// Build creates the real segment for d and fills d.ID / d.Exp.
func Build(d *Desc) *seg.PathSegment {
	ps, err := seg.CreateSegment(Base.Add(time.Duration(d.TS)*time.Second), uint16(1000+d.TS%977))
	if err != nil {
		vt.Fatal("CreateSegment: %v", err)
	}
	n := len(d.Hops)
	peerHoldsMax := len(d.Peers) > 0 && d.SV%2 == 1
	peerIA := peerIAOf(*d)
	first := true
	for i, h := range d.Hops {
		exp := uint8(1)
		if i == (d.TS/Unit+d.SV)%n && !peerHoldsMax {
			exp = uint8(2*d.TTL - 1)
		}
		if d.TTL == 1 {
			exp = 1
		}
		e := seg.ASEntry{
			Local: IA(h.IA),
			MTU:   1400,
			HopEntry: seg.HopEntry{
				IngressMTU: 1400,
				HopField: seg.HopField{ConsIngress: uint16(h.In), ConsEgress: uint16(h.Eg), ExpTime: exp,
					MAC: [path.MacLen]byte{byte(i), byte(d.SV), byte(d.TS), 4, 5, 6}},
			},
		}
		if i+1 < n {
			e.Next = IA(d.Hops[i+1].IA)
		} else if d.Next != 0 {
			e.Next = IA(d.Next)
		}
		for _, p := range d.Peers {
			if p[0] == i+1 {
				pexp := uint8(1)
				if peerHoldsMax && first {
					pexp = uint8(2*d.TTL - 1)
					first = false
				}
				e.PeerEntries = append(e.PeerEntries, seg.PeerEntry{
					Peer: IA(peerIA), PeerInterface: 77, PeerMTU: 1400,
					HopField: seg.HopField{ConsIngress: uint16(p[1]), ConsEgress: uint16(h.Eg), ExpTime: pexp,
						MAC: [path.MacLen]byte{9, 9, 9, byte(p[1]), 5, 6}},
				})
			}
		}
		// only the LAST entry carries the descriptor's version; the others are anti-correlated
		st := Base.Add(time.Duration(1000-d.SV) * time.Millisecond)
		if i == n-1 {
			st = Base.Add(time.Duration(d.SV) * time.Millisecond)
		}
		wrong := false
		for _, b := range d.Bad {
			wrong = wrong || b == i+1
		}
		if err := ps.AddASEntry(context.Background(), e, Signer{Timestamp: st, Wrong: wrong}); err != nil {
			vt.Fatal("AddASEntry: %v", err)
		}
	}
	if peerHoldsMax && first {
		vt.Fatal("descriptor peers do not reference an AS entry: %+v", d)
	}
	d.ID = Nibbles(ps.ID())
	d.Exp = d.TS + d.TTL*Unit
	return ps
}

// Nibbles returns the hex digits of b.
func Nibbles(b []byte) []int {
	out := make([]int, 0, 2*len(b))
	for _, x := range b {
		out = append(out, int(x>>4), int(x&15))
	}
	return out
}

// HexOf is the upper-case hex string of hex digits (possibly an odd number of them).
func HexOf(nib []int) string {
	const digits = "0123456789ABCDEF"
	s := make([]byte, len(nib))
	for i, n := range nib {
		s[i] = digits[n&15]
	}
	return string(s)
}

// Pool is a set of descriptors with their real segments.
type Pool struct {
	Descs []Desc
	Segs  []*seg.PathSegment
	byRaw map[string]int
}

func fingerprint(ps *seg.PathSegment) string {
	h := sha256.New()
	h.Write(ps.Info.Raw)
	for _, e := range ps.ASEntries {
		h.Write(e.Signed.HeaderAndBody)
		h.Write([]byte{0xfe})
		h.Write(e.Signed.Signature)
	}
	return hex.EncodeToString(h.Sum(nil))
}

// NewPool builds all segments.
func NewPool(descs []Desc) *Pool {
	p := &Pool{Descs: descs, byRaw: map[string]int{}}
	for i := range p.Descs {
		s := Build(&p.Descs[i])
		p.Segs = append(p.Segs, s)
		p.byRaw[fingerprint(s)] = i
	}
	return p
}

// Index returns the 1-based pool index of a segment returned by the code under test; 0 if the
// segment is none of the pool's (wrong / corrupted payload).
func (p *Pool) Index(ps *seg.PathSegment) int {
	if ps == nil {
		return 0
	}
	if i, ok := p.byRaw[fingerprint(ps)]; ok {
		return i + 1
	}
	return 0
}

func peerIAOf(d Desc) int {
	if d.PeerIA != 0 {
		return d.PeerIA
	}
	return 99
}

// JSON is the pool as logged in reset records (the trace specification's constants).
func (p *Pool) JSON() []vt.M {
	out := []vt.M{}
	for _, d := range p.Descs {
		hops := []vt.M{}
		for _, h := range d.Hops {
			hops = append(hops, vt.M{"ia": h.IA, "in": h.In, "eg": h.Eg})
		}
		peers := [][]int{}
		for _, q := range d.Peers {
			peers = append(peers, []int{q[0], q[1]})
		}
		bad := []int{}
		bad = append(bad, d.Bad...)
		out = append(out, vt.M{"id": d.ID, "ts": d.TS, "sv": d.SV, "exp": d.Exp, "hops": hops,
			"peers": peers, "bad": bad, "pia": peerIAOf(d)})
	}
	return out
}
