package segs

import (
	"encoding/binary"
	"encoding/hex"
	"time"

	"github.com/scionproto/scion/pkg/addr"
	seg "github.com/scionproto/scion/pkg/segment"

	"verifharness/internal/vt"
)

// IAStr renders an ISD-AS for the trace (TLC integers are 32 bit, so ISD-ASes are strings).
func IAStr(ia addr.IA) string {
	if ia == 0 {
		return ""
	}
	return ia.String()
}

// SegJSON is the abstract projection of a path segment: times are seconds relative to base,
// MACs are hex strings, `sig` is the 16 bit value that enters the SegID accumulator.
func SegJSON(ps *seg.PathSegment, base time.Time) vt.M {
	ents := make([]vt.M, 0, len(ps.ASEntries))
	for _, e := range ps.ASEntries {
		peers := make([]vt.M, 0, len(e.PeerEntries))
		for _, p := range e.PeerEntries {
			peers = append(peers, vt.M{
				"ia":  IAStr(p.Peer),
				"rif": int(p.PeerInterface),
				"mtu": p.PeerMTU,
				"in":  int(p.HopField.ConsIngress),
				"eg":  int(p.HopField.ConsEgress),
				"exp": int(p.HopField.ExpTime),
				"mac": hex.EncodeToString(p.HopField.MAC[:]),
			})
		}
		h := e.HopEntry.HopField
		ents = append(ents, vt.M{
			"ia":    IAStr(e.Local),
			"next":  IAStr(e.Next),
			"mtu":   e.MTU,
			"inmtu": e.HopEntry.IngressMTU,
			"in":    int(h.ConsIngress),
			"eg":    int(h.ConsEgress),
			"exp":   int(h.ExpTime),
			"mac":   hex.EncodeToString(h.MAC[:]),
			"sig":   int(binary.BigEndian.Uint16(h.MAC[:2])),
			"peers": peers,
		})
	}
	return vt.M{
		"ts":    int(ps.Info.Timestamp.Unix() - base.Unix()),
		"segid": int(ps.Info.SegmentID),
		"ents":  ents,
	}
}

// SegsJSON projects a list of segments (never null).
func SegsJSON(l []*seg.PathSegment, base time.Time) []vt.M {
	out := make([]vt.M, 0, len(l))
	for _, s := range l {
		out = append(out, SegJSON(s, base))
	}
	return out
}
