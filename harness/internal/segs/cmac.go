package segs

import (
	"crypto/aes"
	"encoding/binary"
)

// HopMAC is an INDEPENDENT re-computation of the SCION hop-field MAC (doc/protocols/scion-header:
// AES-CMAC (RFC 4493) under the AS key over 0|SegID|Timestamp|0|ExpTime|ConsIngress|ConsEgress|0,
// truncated to 6 bytes). It is used as abstraction function ("this MAC is valid for these
// inputs") by drivers; it shares no code with pkg/slayers/path or pkg/scrypto.
func HopMAC(key []byte, beta uint16, ts uint32, exp uint8, in, eg uint16) [6]byte {
	var m [16]byte
	binary.BigEndian.PutUint16(m[2:4], beta)
	binary.BigEndian.PutUint32(m[4:8], ts)
	m[9] = exp
	binary.BigEndian.PutUint16(m[10:12], in)
	binary.BigEndian.PutUint16(m[12:14], eg)
	full := cmac16(key, m)
	var out [6]byte
	copy(out[:], full[:6])
	return out
}

// cmac16 is AES-CMAC of exactly one complete 16-byte block (RFC 4493, section 2.4 with n = 1 and
// a complete last block: M_last = M_1 xor K1; T = AES-K(M_last)).
func cmac16(key []byte, msg [16]byte) [16]byte {
	c, err := aes.NewCipher(key)
	if err != nil {
		panic(err)
	}
	var l, k1 [16]byte
	c.Encrypt(l[:], make([]byte, 16))
	// K1 = L << 1, xor Rb if msb(L) = 1
	var carry byte
	for i := 15; i >= 0; i-- {
		k1[i] = l[i]<<1 | carry
		carry = l[i] >> 7
	}
	if l[0]&0x80 != 0 {
		k1[15] ^= 0x87
	}
	var x, t [16]byte
	for i := range x {
		x[i] = msg[i] ^ k1[i]
	}
	c.Encrypt(t[:], x[:])
	return t
}
