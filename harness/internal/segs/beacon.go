package segs

import (
	"context"
	"crypto"
	"crypto/ecdsa"
	"crypto/elliptic"
	crand "crypto/rand"
	"crypto/sha256"
	"hash"
	"math/rand"
	"time"

	"github.com/scionproto/scion/control/beaconing"
	"github.com/scionproto/scion/control/ifstate"
	"github.com/scionproto/scion/pkg/addr"
	cryptopb "github.com/scionproto/scion/pkg/proto/crypto"
	"github.com/scionproto/scion/pkg/scrypto"
	"github.com/scionproto/scion/pkg/scrypto/cppki"
	"github.com/scionproto/scion/pkg/scrypto/signed"
	seg "github.com/scionproto/scion/pkg/segment"
	"github.com/scionproto/scion/pkg/segment/extensions/discovery"
	"github.com/scionproto/scion/private/topology"
)

// FakeSigner satisfies beaconing.Signer without any PKI: the "signature" is a digest of the signed
// input. Used where signatures are irrelevant (combinator, lookup).
type FakeSigner struct{ V cppki.Validity }

func (f FakeSigner) Sign(_ context.Context, msg []byte, ad ...[]byte) (*cryptopb.SignedMessage, error) {
	h := sha256.New()
	h.Write(msg)
	for _, a := range ad {
		h.Write(a)
	}
	return &cryptopb.SignedMessage{HeaderAndBody: append([]byte{}, msg...), Signature: h.Sum(nil)[:8]}, nil
}

func (f FakeSigner) Validity() cppki.Validity { return f.V }

// AlwaysValid is a validity window that covers every timestamp the drivers use.
func AlwaysValid() cppki.Validity {
	return cppki.Validity{NotBefore: time.Unix(1, 0), NotAfter: time.Now().Add(20 * 365 * 24 * time.Hour)}
}

// SignerGen is a fixed list of signers.
type SignerGen []beaconing.Signer

func (s SignerGen) Generate(context.Context) ([]beaconing.Signer, error) { return s, nil }

// Interfaces builds the real ifstate.Interfaces of an AS.
func (a *AS) Interfaces() *ifstate.Interfaces {
	m := map[uint16]ifstate.InterfaceInfo{}
	for id, i := range a.Ifs {
		m[id] = ifstate.InterfaceInfo{ID: id, IA: i.Remote, LinkType: i.Type, RemoteID: i.RemoteID, MTU: i.MTU}
	}
	return ifstate.NewInterfaces(m, ifstate.Config{})
}

// MACFactory returns the hop-field MAC factory of the AS (AES-CMAC under the AS key).
func (a *AS) MACFactory() func() hash.Hash {
	key := a.Key
	return func() hash.Hash {
		m, err := scrypto.InitMac(key)
		if err != nil {
			panic(err)
		}
		return m
	}
}

// Extender builds the REAL beaconing.DefaultExtender of an AS from its current settings.
func (a *AS) Extender(signers beaconing.SignerGen) *beaconing.DefaultExtender {
	maxExp := a.MaxExp
	return &beaconing.DefaultExtender{
		IA:                   a.IA,
		SignerGen:            signers,
		MAC:                  a.MACFactory(),
		Intfs:                a.Interfaces(),
		MTU:                  a.MTU,
		MaxExpTime:           func() uint8 { return maxExp },
		StaticInfo:           func() *beaconing.StaticInfoCfg { return nil },
		DiscoveryInformation: func() *discovery.Extension { return nil },
		Task:                 "verif",
	}
}

// SegSet is the result of one beaconing run.
type SegSet struct {
	// Down[ia] are the segments terminated at non-core AS ia (usable as its up- and down-segments).
	Down map[addr.IA][]*seg.PathSegment
	// Core are the terminated core segments (first entry = originator, last = terminating core AS).
	Core []*seg.PathSegment
}

// Run performs one complete (loop-free, length-bounded) beaconing run over the topology with the
// REAL extender of every AS, all beacons carrying timestamp ts. signers == nil uses FakeSigner.
func (t *Topo) Run(ts time.Time, rng *rand.Rand, maxLen int,
	signers func(addr.IA) beaconing.SignerGen) (*SegSet, error) {

	if signers == nil {
		signers = func(addr.IA) beaconing.SignerGen { return SignerGen{FakeSigner{V: AlwaysValid()}} }
	}
	ext := map[addr.IA]*beaconing.DefaultExtender{}
	for _, ia := range t.Order {
		ext[ia] = t.ASes[ia].Extender(signers(ia))
	}
	out := &SegSet{Down: map[addr.IA][]*seg.PathSegment{}}
	ctx := context.Background()
	var err error
	fail := func(e error) {
		if err == nil && e != nil {
			err = e
		}
	}
	contains := func(ps *seg.PathSegment, ia addr.IA) bool {
		for _, e := range ps.ASEntries {
			if e.Local == ia {
				return true
			}
		}
		return false
	}
	var deliver func(b *seg.PathSegment, at addr.IA, ingress uint16, typ topology.LinkType)
	deliver = func(b *seg.PathSegment, at addr.IA, ingress uint16, typ topology.LinkType) {
		a := t.ASes[at]
		peers := t.ActivePeers(at)
		term := b.ShallowCopy()
		if e := ext[at].Extend(ctx, term, ingress, 0, peers); e != nil {
			fail(e)
			return
		}
		if typ == topology.Core {
			out.Core = append(out.Core, term)
		} else {
			out.Down[at] = append(out.Down[at], term)
		}
		if len(b.ASEntries)+1 >= maxLen {
			return
		}
		for _, eg := range a.SortedIfs(typ) {
			i := a.Ifs[eg]
			if contains(b, i.Remote) || i.Remote == at {
				continue
			}
			cp := b.ShallowCopy()
			if e := ext[at].Extend(ctx, cp, ingress, eg, peers); e != nil {
				fail(e)
				continue
			}
			deliver(cp, i.Remote, i.RemoteID, typ)
		}
	}
	for _, c := range t.Cores() {
		a := t.ASes[c]
		peers := t.ActivePeers(c)
		for _, typ := range []topology.LinkType{topology.Child, topology.Core} {
			for _, eg := range a.SortedIfs(typ) {
				b, e := seg.CreateSegment(ts, uint16(rng.Intn(1<<16)))
				if e != nil {
					fail(e)
					continue
				}
				if e := ext[c].Extend(ctx, b, 0, eg, peers); e != nil {
					fail(e)
					continue
				}
				i := a.Ifs[eg]
				deliver(b, i.Remote, i.RemoteID, typ)
			}
		}
	}
	return out, err
}

// KeySigner signs with one throw-away P-256 key and produces well-formed signed messages (so that
// segments survive a protobuf / path-DB round trip). Nothing verifies these signatures.
type KeySigner struct {
	Key crypto.Signer
	V   cppki.Validity
}

// NewKeySigner creates a KeySigner with a fresh key.
func NewKeySigner() KeySigner {
	k, err := ecdsa.GenerateKey(elliptic.P256(), crand.Reader)
	if err != nil {
		panic(err)
	}
	return KeySigner{Key: k, V: AlwaysValid()}
}

func (s KeySigner) Sign(_ context.Context, msg []byte, ad ...[]byte) (*cryptopb.SignedMessage, error) {
	n := 0
	for _, a := range ad {
		n += len(a)
	}
	return signed.Sign(signed.Header{SignatureAlgorithm: signed.ECDSAWithSHA256, Timestamp: time.Now(),
		AssociatedDataLength: n}, msg, s.Key, ad...)
}

func (s KeySigner) Validity() cppki.Validity { return s.V }
