package segs

import (
	"context"
	"crypto/x509"
	"fmt"
	"net"
	"os"
	"sync/atomic"
	"time"

	"github.com/scionproto/scion/pkg/addr"
	"github.com/scionproto/scion/pkg/scrypto/cms/protocol"
	"github.com/scionproto/scion/pkg/scrypto/cppki"
	"github.com/scionproto/scion/pkg/scrypto/signed"
	"github.com/scionproto/scion/private/storage/db"
	"github.com/scionproto/scion/private/storage/trust/sqlite"
	"github.com/scionproto/scion/private/trust"

	"verifharness/internal/pki"
	"verifharness/internal/vt"
)

// World is a one-ISD control-plane PKI for the beacon-extension and segment-verification drivers:
// a root and a CA certificate (valid for years), a base TRC carrying the root, AS certificates
// with scenario-chosen validity windows, a REAL in-memory sqlite trust database holding TRC and
// chains, and REAL trust.Signer / trust.Verifier values built from them.
// Abstract times are seconds relative to Base; abstract ASes are 1..n (pki.ChainIA).
type World struct {
	Base  time.Time
	P     *pki.PKI
	Root  *pki.Cert
	CA    *pki.Cert
	tag   string
	built map[int]*pki.Cert
	DB    sqlite.DB
	TRCID cppki.TRCID
	ids   map[string]int
	next  int
}

var worldSeq int64

type noFetcher struct{}

func (noFetcher) Chains(context.Context, trust.ChainQuery, net.Addr) ([][]*x509.Certificate, error) {
	return nil, nil
}

func (noFetcher) TRC(context.Context, cppki.TRCID, net.Addr) (cppki.SignedTRC, error) {
	return cppki.SignedTRC{}, fmt.Errorf("no TRCs served")
}

type fixedRouter struct{}

func (fixedRouter) ChooseServer(context.Context, addr.ISD) (net.Addr, error) {
	return &net.UDPAddr{IP: net.IPv4(127, 0, 0, 1), Port: 30252}, nil
}

const far = 400 * 24 * 3600 // seconds

// asIA is the ISD-AS of abstract AS a (ISD 1; independent of the seed).
func asIA(a int) addr.IA { return addr.MustIAFrom(1, addr.AS(0xff0000000110+uint64(a)-1)) }

// NewWorld creates the PKI; base is abstract time 0.
func NewWorld(base time.Time) *World {
	w := &World{Base: base.UTC().Truncate(time.Second), P: pki.New(), ids: map[string]int{}, next: 10,
		built: map[int]*pki.Cert{}, tag: fmt.Sprintf("segs%d", atomic.AddInt64(&worldSeq, 1))}
	core := asIA(1).String()
	w.Root = w.P.Cert(pki.Spec{Kind: "root", CN: "root", IA: core, SN: 1001, NB: w.T(-far), NA: w.T(far),
		KeyName: w.tag + "/root"})
	w.CA = w.P.Cert(pki.Spec{Kind: "ca", CN: "ca", IA: core, SN: 1002, NB: w.T(-far + 10), NA: w.T(far - 10),
		KeyName: w.tag + "/ca", Parent: w.Root})
	name := fmt.Sprintf("file:verifsegs%d_%d", os.Getpid(), atomic.AddInt64(&worldSeq, 1))
	d, err := sqlite.New(name, &db.SqliteConfig{InMemory: true})
	if err != nil {
		vt.Fatal("sqlite: %v", err)
	}
	w.DB = d
	t := w.baseTRC()
	if err := t.Verify(nil); err != nil {
		vt.Fatal("generated base TRC does not verify: %v", err)
	}
	if _, err := d.InsertTRC(context.Background(), t); err != nil {
		vt.Fatal("insert TRC: %v", err)
	}
	w.TRCID = t.TRC.ID
	return w
}

// baseTRC builds and signs the base TRC of ISD 1: two sensitive and two regular voting
// certificates, the root certificate, quorum 2, valid for the same (long) period as the voters.
func (w *World) baseTRC() cppki.SignedTRC {
	core := asIA(1).String()
	var voters []*pki.Cert
	for i, kind := range []string{"sens", "sens", "reg", "reg"} {
		voters = append(voters, w.P.Cert(pki.Spec{Kind: kind, CN: fmt.Sprintf("voter%d", i+1), IA: core,
			SN: int64(i + 1), NB: w.T(-far), NA: w.T(far), KeyName: fmt.Sprintf("%s/voter/%d", w.tag, i+1)}))
	}
	t := cppki.TRC{Version: 1, ID: cppki.TRCID{ISD: 1, Base: 1, Serial: 1},
		Validity:     cppki.Validity{NotBefore: w.T(-far + 100), NotAfter: w.T(far - 100)},
		NoTrustReset: true, Quorum: 2, CoreASes: []addr.AS{asIA(1).AS()},
		AuthoritativeASes: []addr.AS{asIA(1).AS()}, Description: "segs world"}
	for _, v := range voters {
		t.Certificates = append(t.Certificates, v.X)
	}
	t.Certificates = append(t.Certificates, w.Root.X)
	raw, err := t.Encode()
	if err != nil {
		vt.Fatal("TRC does not encode: %v", err)
	}
	var sis []protocol.SignerInfo
	for _, v := range voters {
		sis = append(sis, pki.SignerInfo(raw, v.X, v.Key))
	}
	dec, err := cppki.DecodeSignedTRC(pki.CMS(raw, sis))
	if err != nil {
		vt.Fatal("TRC does not decode: %v", err)
	}
	return dec
}

// IA is the concrete ISD-AS of abstract AS a.
func (w *World) IA(a int) addr.IA { return asIA(a) }

// T is the wall-clock instant of abstract second s.
func (w *World) T(s int) time.Time { return w.Base.Add(time.Duration(s) * time.Second) }

// ASCert returns (creating and storing its chain in the trust DB on first use) the AS certificate
// of abstract AS a valid [nb, na] (seconds), with key number k (distinct k = distinct key).
func (w *World) ASCert(a, nb, na, k int) *pki.Cert {
	key := fmt.Sprintf("%d/%d/%d/%d", a, nb, na, k)
	id, ok := w.ids[key]
	if !ok {
		id = w.next
		w.next++
		w.ids[key] = id
		c := w.P.Cert(pki.Spec{Kind: "as", CN: "as", IA: asIA(a).String(), SN: int64(1000 + id), NB: w.T(nb),
			NA: w.T(na), KeyName: fmt.Sprintf("%s/as/%d", w.tag, id), Ver: id, Parent: w.CA})
		w.built[id] = c
		chain := []*x509.Certificate{c.X, w.CA.X}
		if _, err := w.DB.InsertChain(context.Background(), chain); err != nil {
			vt.Fatal("insert chain: %v", err)
		}
	}
	return w.built[id]
}

// SignerIA is like Signer for an arbitrary ISD-AS of ISD 1 (topologies of the generator).
func (w *World) SignerIA(ia addr.IA, nb, na int) trust.Signer {
	key := fmt.Sprintf("ia/%s/%d/%d", ia, nb, na)
	id, ok := w.ids[key]
	if !ok {
		id = w.next
		w.next++
		w.ids[key] = id
		c := w.P.Cert(pki.Spec{Kind: "as", CN: "as", IA: ia.String(), SN: int64(1000 + id), NB: w.T(nb),
			NA: w.T(na), KeyName: fmt.Sprintf("%s/as/%d", w.tag, id), Ver: id, Parent: w.CA})
		w.built[id] = c
		if _, err := w.DB.InsertChain(context.Background(), []*x509.Certificate{c.X, w.CA.X}); err != nil {
			vt.Fatal("insert chain: %v", err)
		}
	}
	return w.SignerFor(ia, w.built[id])
}

// Signer builds the REAL trust.Signer for the certificate (as trust.SignerGen would).
func (w *World) Signer(a, nb, na, k int) trust.Signer {
	c := w.ASCert(a, nb, na, k)
	return w.SignerFor(w.IA(a), c)
}

// SignerFor builds a trust.Signer that claims ISD-AS ia but signs with certificate c's key.
func (w *World) SignerFor(ia addr.IA, c *pki.Cert) trust.Signer {
	return trust.Signer{
		PrivateKey:    c.Key,
		Algorithm:     signed.ECDSAWithSHA256,
		IA:            ia,
		TRCID:         w.TRCID,
		Subject:       c.X.Subject,
		Chain:         []*x509.Certificate{c.X, w.CA.X},
		SubjectKeyID:  c.X.SubjectKeyId,
		Expiration:    c.X.NotAfter,
		ChainValidity: cppki.Validity{NotBefore: c.X.NotBefore, NotAfter: c.X.NotAfter},
	}
}

// Provider is the REAL trust engine over the in-memory DB (no network).
func (w *World) Provider() trust.FetchingProvider {
	return trust.FetchingProvider{DB: w.DB, Recurser: trust.LocalOnlyRecurser{}, Fetcher: noFetcher{},
		Router: fixedRouter{}}
}

// Verifier is the REAL trust.Verifier (unbound; segverifier binds IA and validity per entry).
func (w *World) Verifier() trust.Verifier {
	return trust.Verifier{Engine: w.Provider()}
}

// Close releases the database.
func (w *World) Close() { w.DB.Close() }
