// Package segs generates small SCION topologies and builds REAL path segments over them with the
// real beaconing.DefaultExtender (real hop-field MACs, real AS entries). It is the segment source of
// the combinator / lookup / extender / segment-verification drivers (C28, C29, C30, C23, C24).
//
// Nothing in this package judges anything: it only concretises scenarios.
package segs

import (
	"fmt"
	"math/rand"
	"sort"

	"github.com/scionproto/scion/pkg/addr"
	"github.com/scionproto/scion/private/topology"
)

// Intf is one end of an inter-AS link as seen from its owner.
type Intf struct {
	ID       uint16
	Remote   addr.IA
	RemoteID uint16
	Type     topology.LinkType // Core, Parent (remote is parent), Child (remote is child), Peer
	MTU      uint16
}

// AS is one autonomous system of a generated topology.
type AS struct {
	IA     addr.IA
	Core   bool
	Level  int // 0 for core ASes, distance from the core otherwise
	MTU    uint16
	MaxExp uint8
	Key    []byte
	Ifs    map[uint16]*Intf
}

// Link is an inter-AS link. For Type "child" A is the parent of B.
type Link struct {
	A    addr.IA
	AIf  uint16
	B    addr.IA
	BIf  uint16
	Type string // "core", "child", "peer"
	MTU  uint16
}

// Topo is a generated topology.
type Topo struct {
	ASes  map[addr.IA]*AS
	Order []addr.IA // deterministic iteration order
	Links []Link
	// PeerOff lists peering links (index into Links) that are down during the next beaconing run:
	// neither end announces them. The same hop sequence can thus be registered once with and once
	// without a peer entry.
	PeerOff map[int]bool
}

// ActivePeers returns the peering interfaces of ia that are up (sorted, as the beaconing code passes them).
func (t *Topo) ActivePeers(ia addr.IA) []uint16 {
	off := map[uint16]bool{}
	for i, l := range t.Links {
		if t.PeerOff[i] && l.Type == "peer" {
			if l.A == ia {
				off[l.AIf] = true
			}
			if l.B == ia {
				off[l.BIf] = true
			}
		}
	}
	var out []uint16
	for _, id := range t.ASes[ia].SortedIfs(topology.Peer) {
		if !off[id] {
			out = append(out, id)
		}
	}
	return out
}

// GenOpts bounds the generated topologies.
type GenOpts struct {
	MaxISD      int // 1..2
	MaxCore     int // cores per ISD
	MaxNonCore  int // non-core ASes per ISD
	MaxLevel    int // depth of the non-core hierarchy
	MaxPeerings int
	Parallel    bool // allow parallel links between the same pair of ASes
	// SameASNumbers numbers the ASes of every ISD alike (1-ff00:0:1, 2-ff00:0:1, ...): the identity of
	// an AS is the ISD-AS pair, AS numbers may repeat across ISDs.
	SameASNumbers bool
}

// DefaultOpts are the bounds used by the quick tiers.
func DefaultOpts() GenOpts {
	return GenOpts{MaxISD: 2, MaxCore: 2, MaxNonCore: 4, MaxLevel: 2, MaxPeerings: 3, Parallel: true}
}

var mtus = []uint16{1200, 1280, 1350, 1400, 1472, 1500}

// IAOf builds the ISD-AS used for AS number k of ISD isd.
func IAOf(isd, k int) addr.IA {
	return addr.MustIAFrom(addr.ISD(isd), addr.AS(0xff00_0000_0000+uint64(isd)*0x100+uint64(k)))
}

// IAOfShared is like IAOf but the AS number does not depend on the ISD.
func IAOfShared(isd, k int) addr.IA {
	return addr.MustIAFrom(addr.ISD(isd), addr.AS(0xff00_0000_0000+uint64(k)))
}

// Gen generates a random small topology: 1..MaxISD ISDs, each with 1..MaxCore core ASes and a
// hierarchy of non-core ASes (every non-core AS has 1..2 parents on the level above), a connected
// core network, and a few peering links between ASes that are not both core.
func Gen(rng *rand.Rand, o GenOpts) *Topo {
	t := &Topo{ASes: map[addr.IA]*AS{}}
	nISD := 1 + rng.Intn(o.MaxISD)
	iaOf := IAOf
	if o.SameASNumbers {
		iaOf = IAOfShared
	}
	used := map[addr.IA]map[uint16]bool{}
	newAS := func(ia addr.IA, core bool, level int) *AS {
		key := make([]byte, 16)
		rng.Read(key)
		a := &AS{IA: ia, Core: core, Level: level, MTU: mtus[rng.Intn(len(mtus))],
			MaxExp: uint8(rng.Intn(256)), Key: key, Ifs: map[uint16]*Intf{}}
		if rng.Intn(3) > 0 {
			a.MaxExp = uint8(10 + rng.Intn(60))
		}
		t.ASes[ia] = a
		t.Order = append(t.Order, ia)
		used[ia] = map[uint16]bool{}
		return a
	}
	freeIf := func(ia addr.IA) uint16 {
		for {
			id := uint16(1 + rng.Intn(12))
			if rng.Intn(8) == 0 {
				id = uint16(1 + rng.Intn(65535))
			}
			if !used[ia][id] {
				used[ia][id] = true
				return id
			}
		}
	}
	link := func(a, b addr.IA, typ string) {
		l := Link{A: a, AIf: freeIf(a), B: b, BIf: freeIf(b), Type: typ, MTU: mtus[rng.Intn(len(mtus))]}
		t.Links = append(t.Links, l)
		var ta, tb topology.LinkType
		switch typ {
		case "core":
			ta, tb = topology.Core, topology.Core
		case "child":
			ta, tb = topology.Child, topology.Parent
		case "peer":
			ta, tb = topology.Peer, topology.Peer
		}
		t.ASes[a].Ifs[l.AIf] = &Intf{ID: l.AIf, Remote: b, RemoteID: l.BIf, Type: ta, MTU: l.MTU}
		t.ASes[b].Ifs[l.BIf] = &Intf{ID: l.BIf, Remote: a, RemoteID: l.AIf, Type: tb, MTU: l.MTU}
	}
	var cores []addr.IA
	var all []addr.IA
	for isd := 1; isd <= nISD; isd++ {
		nCore := 1 + rng.Intn(o.MaxCore)
		var levels [][]addr.IA
		var lv0 []addr.IA
		k := 1
		for c := 0; c < nCore; c++ {
			ia := iaOf(isd, k)
			k++
			newAS(ia, true, 0)
			lv0 = append(lv0, ia)
			cores = append(cores, ia)
			all = append(all, ia)
		}
		levels = append(levels, lv0)
		nNon := rng.Intn(o.MaxNonCore + 1)
		if isd == 1 && nNon == 0 {
			nNon = 1
		}
		for n := 0; n < nNon; n++ {
			lvl := 1 + rng.Intn(min(o.MaxLevel, len(levels)))
			ia := iaOf(isd, k)
			k++
			newAS(ia, false, lvl)
			all = append(all, ia)
			if lvl == len(levels) {
				levels = append(levels, nil)
			}
			levels[lvl] = append(levels[lvl], ia)
			above := levels[lvl-1]
			nPar := 1
			if rng.Intn(2) == 0 {
				nPar = 2
			}
			perm := rng.Perm(len(above))
			for p := 0; p < nPar; p++ {
				var par addr.IA
				if p < len(perm) {
					par = above[perm[p]]
				} else if o.Parallel {
					par = above[perm[0]] // parallel link to the same parent
				} else {
					break
				}
				link(par, ia, "child")
			}
		}
	}
	// connected core network: chain + random extra links
	for i := 1; i < len(cores); i++ {
		link(cores[rng.Intn(i)], cores[i], "core")
	}
	if len(cores) > 1 {
		for x := rng.Intn(3); x > 0; x-- {
			a, b := cores[rng.Intn(len(cores))], cores[rng.Intn(len(cores))]
			if a != b && (o.Parallel || !t.linked(a, b)) {
				link(a, b, "core")
			}
		}
	}
	// peering links
	nPeer := rng.Intn(o.MaxPeerings + 1)
	for x := 0; x < nPeer*3 && nPeer > 0; x++ {
		a, b := all[rng.Intn(len(all))], all[rng.Intn(len(all))]
		if a == b || (t.ASes[a].Core && t.ASes[b].Core) || t.parentChild(a, b) {
			continue
		}
		if !o.Parallel && t.linked(a, b) {
			continue
		}
		link(a, b, "peer")
		nPeer--
	}
	return t
}

// LinkSpec describes one link of a directed (hand-shaped) topology: indices into the AS list.
type LinkSpec struct {
	A, B int
	Type string // "core", "child" (A parent of B), "peer"
}

// FromSpec builds a topology of one ISD per entry of isdOf (AS i lives in ISD isdOf[i]); the first
// nCore ASes are core. Interface ids, MTUs, keys and expiry settings are drawn from rng.
func FromSpec(rng *rand.Rand, isdOf []int, nCore int, links []LinkSpec) *Topo {
	t := &Topo{ASes: map[addr.IA]*AS{}}
	used := map[addr.IA]map[uint16]bool{}
	var ias []addr.IA
	perISD := map[int]int{}
	shared := rng.Intn(2) == 0 // number the ASes of every ISD from 1: AS numbers repeat across ISDs
	for i, isd := range isdOf {
		perISD[isd]++
		ia := IAOf(isd, i+1)
		if shared {
			ia = IAOfShared(isd, perISD[isd])
		}
		key := make([]byte, 16)
		rng.Read(key)
		lvl := 1
		if i < nCore {
			lvl = 0
		}
		t.ASes[ia] = &AS{IA: ia, Core: i < nCore, Level: lvl, MTU: mtus[rng.Intn(len(mtus))],
			MaxExp: uint8(10 + rng.Intn(200)), Key: key, Ifs: map[uint16]*Intf{}}
		t.Order = append(t.Order, ia)
		used[ia] = map[uint16]bool{}
		ias = append(ias, ia)
	}
	freeIf := func(ia addr.IA) uint16 {
		for {
			id := uint16(1 + rng.Intn(12))
			if !used[ia][id] {
				used[ia][id] = true
				return id
			}
		}
	}
	for _, ls := range links {
		a, b := ias[ls.A], ias[ls.B]
		l := Link{A: a, AIf: freeIf(a), B: b, BIf: freeIf(b), Type: ls.Type, MTU: mtus[rng.Intn(len(mtus))]}
		t.Links = append(t.Links, l)
		var ta, tb topology.LinkType
		switch ls.Type {
		case "core":
			ta, tb = topology.Core, topology.Core
		case "child":
			ta, tb = topology.Child, topology.Parent
		case "peer":
			ta, tb = topology.Peer, topology.Peer
		}
		t.ASes[a].Ifs[l.AIf] = &Intf{ID: l.AIf, Remote: b, RemoteID: l.BIf, Type: ta, MTU: l.MTU}
		t.ASes[b].Ifs[l.BIf] = &Intf{ID: l.BIf, Remote: a, RemoteID: l.AIf, Type: tb, MTU: l.MTU}
	}
	return t
}

// Directed returns hand-shaped topologies that random generation rarely produces.
//
//	0 "ladder": AS 3 sits three levels below core 0 (0-2-3... chain 0>2>4>3) and directly below
//	  core 1; cores 0-1 are linked: a one-segment path can be heavier than a two-segment path.
//	1 "diamond with peering": two leaves below different parents of the same core, parents peer,
//	  leaves peer, and a leaf peers with the other leaf's parent.
//	2 "two ISDs, three cores": core triangle, leaves with parents in both ... (same ISD only),
//	  cross-ISD peering between leaves.
func Directed(rng *rand.Rand, k int) *Topo {
	switch k % 3 {
	case 0:
		return FromSpec(rng, []int{1, 1, 1, 1, 1, 1}, 2, []LinkSpec{
			{0, 1, "core"}, {0, 2, "child"}, {2, 4, "child"}, {4, 3, "child"}, {1, 3, "child"},
			{1, 5, "child"}, {4, 5, "peer"}})
	case 1:
		return FromSpec(rng, []int{1, 1, 1, 1, 1}, 1, []LinkSpec{
			{0, 1, "child"}, {0, 2, "child"}, {1, 3, "child"}, {2, 4, "child"}, {1, 4, "child"},
			{1, 2, "peer"}, {3, 4, "peer"}, {3, 2, "peer"}})
	default:
		return FromSpec(rng, []int{1, 1, 2, 1, 2, 2}, 3, []LinkSpec{
			{0, 1, "core"}, {1, 2, "core"}, {0, 2, "core"}, {0, 3, "child"}, {1, 3, "child"},
			{2, 4, "child"}, {2, 5, "child"}, {5, 4, "child"}, {3, 4, "peer"}, {3, 5, "peer"}})
	}
}

// Lines builds a topology of nCore core ASes in a line (core links) with two chains of non-core ASes:
// chain A of length la hangs below the first core AS, chain B of length lb below the last one.
// It returns the topology, the last AS of chain A and the last AS of chain B (the core AS itself
// if the chain is empty). Used for path segments close to the SCION limits (64 hop fields per
// path, 63 per segment).
func Lines(rng *rand.Rand, nCore, la, lb int) (*Topo, addr.IA, addr.IA) {
	n := nCore + la + lb
	isd := make([]int, n)
	for i := range isd {
		isd[i] = 1
	}
	var links []LinkSpec
	for i := 1; i < nCore; i++ {
		links = append(links, LinkSpec{i - 1, i, "core"})
	}
	endA, endB := 0, nCore-1
	prev := 0
	for i := 0; i < la; i++ {
		links = append(links, LinkSpec{prev, nCore + i, "child"})
		prev = nCore + i
		endA = prev
	}
	prev = nCore - 1
	for i := 0; i < lb; i++ {
		links = append(links, LinkSpec{prev, nCore + la + i, "child"})
		prev = nCore + la + i
		endB = prev
	}
	t := FromSpec(rng, isd, nCore, links)
	return t, t.Order[endA], t.Order[endB]
}

func (t *Topo) linked(a, b addr.IA) bool {
	for _, l := range t.Links {
		if (l.A == a && l.B == b) || (l.A == b && l.B == a) {
			return true
		}
	}
	return false
}

func (t *Topo) parentChild(a, b addr.IA) bool {
	for _, l := range t.Links {
		if l.Type == "child" && ((l.A == a && l.B == b) || (l.A == b && l.B == a)) {
			return true
		}
	}
	return false
}

// SortedIfs returns the interface ids of the given type in ascending order (as the beaconing code
// does with sortedIntfs).
func (a *AS) SortedIfs(typ topology.LinkType) []uint16 {
	var out []uint16
	for id, i := range a.Ifs {
		if i.Type == typ {
			out = append(out, id)
		}
	}
	sort.Slice(out, func(i, j int) bool { return out[i] < out[j] })
	return out
}

// Cores returns the core ASes in deterministic order.
func (t *Topo) Cores() []addr.IA {
	var out []addr.IA
	for _, ia := range t.Order {
		if t.ASes[ia].Core {
			out = append(out, ia)
		}
	}
	return out
}

// NonCores returns the non-core ASes in deterministic order.
func (t *Topo) NonCores() []addr.IA {
	var out []addr.IA
	for _, ia := range t.Order {
		if !t.ASes[ia].Core {
			out = append(out, ia)
		}
	}
	return out
}

// Describe renders the topology as abstract JSON-friendly data (for replay / debugging).
func (t *Topo) Describe() map[string]any {
	var ases []map[string]any
	for _, ia := range t.Order {
		a := t.ASes[ia]
		ases = append(ases, map[string]any{"ia": ia.String(), "core": a.Core, "mtu": int(a.MTU),
			"maxexp": int(a.MaxExp)})
	}
	var links []map[string]any
	for _, l := range t.Links {
		links = append(links, map[string]any{"a": l.A.String(), "aif": int(l.AIf), "b": l.B.String(),
			"bif": int(l.BIf), "t": l.Type, "mtu": int(l.MTU)})
	}
	if links == nil {
		links = []map[string]any{}
	}
	return map[string]any{"ases": ases, "links": links}
}

func (l Link) String() string {
	return fmt.Sprintf("%s#%d-%s-%s#%d", l.A, l.AIf, l.Type, l.B, l.BIf)
}
