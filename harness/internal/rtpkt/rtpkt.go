// Package rtpkt builds one real router (through the verif-tagged router export) and a small corpus
// of SCION packets with valid hop-field MACs for it. It is used by the drivers of C14 (pool) and
// C08 (wire fuzz). It concretises scenarios only; it never judges.
package rtpkt

import (
	"encoding/binary"
	"fmt"
	"net"
	"net/netip"
	"time"

	"github.com/gopacket/gopacket"
	"github.com/gopacket/gopacket/layers"

	"github.com/scionproto/scion/pkg/addr"
	"github.com/scionproto/scion/pkg/scrypto"
	"github.com/scionproto/scion/pkg/slayers"
	"github.com/scionproto/scion/pkg/slayers/path"
	"github.com/scionproto/scion/pkg/slayers/path/empty"
	"github.com/scionproto/scion/pkg/slayers/path/epic"
	"github.com/scionproto/scion/pkg/slayers/path/onehop"
	"github.com/scionproto/scion/pkg/slayers/path/scion"
	"github.com/scionproto/scion/pkg/stun"
	"github.com/scionproto/scion/private/topology"
	"github.com/scionproto/scion/router"
	"github.com/scionproto/scion/router/control"
	_ "github.com/scionproto/scion/router/underlayproviders/udpip"
)

// The fixed single-router topology: local AS 1-ff00:0:110, interface 1 to the parent 1-ff00:0:1,
// interface 2 to the child 1-ff00:0:111 (both owned), interface 3 to the child 1-ff00:0:112 owned
// by a sibling router.
var (
	LocalIA  = addr.MustParseIA("1-ff00:0:110")
	ParentIA = addr.MustParseIA("1-ff00:0:1")
	ChildIA  = addr.MustParseIA("1-ff00:0:111")
	Child2IA = addr.MustParseIA("1-ff00:0:112")
	FarIA    = addr.MustParseIA("2-ff00:0:222")

	InternalAddr = "10.0.0.1:30042"
	SiblingAddr  = "10.0.0.2:30042"
	If1Local     = "192.168.1.1:50000"
	If1Remote    = "192.168.1.2:50000"
	If2Local     = "192.168.2.1:50000"
	If2Remote    = "192.168.2.2:50000"
	HostAddr     = netip.MustParseAddr("10.0.0.77")
	FarHost      = netip.MustParseAddr("172.16.4.4")
	master       = []byte("verif-master-key-0")
)

// Key is the hop-field MAC key of the local AS.
func Key() []byte { return derivedKey }

var derivedKey = control.DeriveHFMacKey(master)

// Config returns the router configuration. withSibling adds interface 3 (sibling owned).
func Config(opener any, batch int, withSibling, detached, scmpAuth bool) router.VerifConfig {
	ifs := []router.VerifIface{
		{IfID: 1, LinkTo: topology.Parent, Neighbor: ParentIA, Owned: true, Local: If1Local, Remote: If1Remote},
		{IfID: 2, LinkTo: topology.Child, Neighbor: ChildIA, Owned: true, Local: If2Local, Remote: If2Remote},
	}
	if withSibling {
		ifs = append(ifs, router.VerifIface{IfID: 3, LinkTo: topology.Child, Neighbor: Child2IA,
			Owned: false, Remote: SiblingAddr})
	}
	return router.VerifConfig{
		IA: LocalIA, Key: Key(), InternalAddr: InternalAddr, Ifaces: ifs,
		Svc:       []router.VerifSvc{{SVC: addr.SvcCS, Addr: netip.MustParseAddrPort("10.0.0.9:30252")}},
		PortStart: 1024, PortEnd: 65535, SCMPAuth: scmpAuth, ConnOpener: opener, BatchSize: batch,
		SiblingDetached: detached,
	}
}

// Spec describes one packet of the corpus.
type Spec struct {
	// Via is the ingress: 0 internal, 1, 2 external, 3 from the sibling router.
	Via uint16
	// In / Eg are the interfaces of the local hop field in construction direction.
	In, Eg  uint16
	ConsDir bool
	// Pos: position of the local hop in a 3-hop segment (0 first, 1 middle, 2 last).
	Pos      int
	SrcIA    addr.IA
	DstIA    addr.IA
	SrcHost  netip.Addr
	DstHost  netip.Addr
	DstPort  uint16
	BadMAC   bool
	Expired  bool
	Alert    bool   // router alert on the local hop (ingress side)
	L4       string // "udp" | "trreq" | "echo" | "bfd"
	HBH, E2E bool
	Epic     bool
	Payload  []byte
	// SegLens, if set, gives the segment lengths (up to 63 hops each, total up to 64 in practice);
	// Pos is then the index of the local hop over the whole path. Default {3, 0, 0}.
	SegLens [3]int
}

func mac(info path.InfoField, hf path.HopField) [path.MacLen]byte {
	m, err := scrypto.InitMac(Key())
	if err != nil {
		panic(err)
	}
	return path.MAC(m, info, hf, nil)
}

// Build serializes the packet of spec s. Only the local hop field carries a valid MAC.
func Build(s Spec) []byte {
	now := time.Now()
	ts := uint32(now.Add(-60 * time.Second).Unix())
	if s.Expired {
		ts = uint32(now.Add(-48 * time.Hour).Unix())
	}
	beta := uint16(0x1234)
	info := path.InfoField{ConsDir: s.ConsDir, SegID: beta, Timestamp: ts}
	segLens := s.SegLens
	if segLens[0] == 0 {
		segLens = [3]int{3, 0, 0}
	}
	nHops := segLens[0] + segLens[1] + segLens[2]
	hops := make([]path.HopField, nHops)
	for i := range hops {
		hops[i] = path.HopField{ConsIngress: uint16(40 + 2*i), ConsEgress: uint16(41 + 2*i), ExpTime: 63,
			Mac: [6]byte{byte(i + 1), 2, 3, 4, 5, 6}}
	}
	hops[0].ConsIngress = 0
	hops[nHops-1].ConsEgress = 0
	cur := s.Pos
	idx := cur // hop fields are stored in traversal order whatever the construction direction
	local := path.HopField{ConsIngress: s.In, ConsEgress: s.Eg, ExpTime: 63}
	if s.Alert {
		if s.ConsDir {
			local.IngressRouterAlert = true
		} else {
			local.EgressRouterAlert = true
		}
	}
	local.Mac = mac(info, local)
	if s.BadMAC {
		local.Mac[0] ^= 0xff
	}
	if !s.ConsDir && (s.Via == 1 || s.Via == 2) {
		// against construction direction the ingress router folds the MAC into SegID first
		info.SegID = beta ^ binary.BigEndian.Uint16(local.Mac[:2])
		if s.BadMAC {
			info.SegID = beta ^ binary.BigEndian.Uint16([]byte{local.Mac[0] ^ 0xff, local.Mac[1]})
		}
	}
	hops[idx] = local
	var infos []path.InfoField
	curINF, first := 0, 0
	for i, l := range segLens {
		if l == 0 {
			break
		}
		if cur >= first && cur < first+l {
			curINF = i
			infos = append(infos, info)
		} else {
			infos = append(infos, path.InfoField{ConsDir: s.ConsDir, SegID: uint16(0x100 + i), Timestamp: ts})
		}
		first += l
	}
	dec := &scion.Decoded{
		Base: scion.Base{
			PathMeta: scion.MetaHdr{CurrINF: uint8(curINF), CurrHF: uint8(cur),
				SegLen: [3]uint8{uint8(segLens[0]), uint8(segLens[1]), uint8(segLens[2])}},
			NumINF: len(infos), NumHops: nHops,
		},
		InfoFields: infos,
		HopFields:  hops,
	}
	sc := &slayers.SCION{Version: 0, TrafficClass: 0, FlowID: 0x12345,
		SrcIA: s.SrcIA, DstIA: s.DstIA, PathType: scion.PathType, Path: dec}
	if s.Epic {
		sc.PathType = epic.PathType
		raw, _ := rawOf(dec)
		sc.Path = &epic.Path{PktID: epic.PktID{Timestamp: 1, Counter: 2},
			PHVF: []byte{1, 2, 3, 4}, LHVF: []byte{5, 6, 7, 8}, ScionPath: raw}
	}
	must(sc.SetSrcAddr(addr.HostIP(s.SrcHost)))
	must(sc.SetDstAddr(addr.HostIP(s.DstHost)))
	return serialize(sc, s.L4, s.HBH, s.E2E, s.DstPort, s.Payload)
}

func rawOf(d *scion.Decoded) (*scion.Raw, error) {
	b := make([]byte, d.Len())
	if err := d.SerializeTo(b); err != nil {
		return nil, err
	}
	r := &scion.Raw{}
	return r, r.DecodeFromBytes(b)
}

func must(err error) {
	if err != nil {
		panic(err)
	}
}

func serialize(sc *slayers.SCION, l4 string, hbh, e2e bool, dport uint16, payload []byte) []byte {
	var ls []gopacket.SerializableLayer
	ls = append(ls, sc)
	next := &sc.NextHdr
	if hbh {
		h := &slayers.HopByHopExtn{}
		h.Options = []*slayers.HopByHopOption{{OptType: 0xfd, OptData: []byte{1, 2, 3}}}
		*next = slayers.HopByHopClass
		next = &h.NextHdr
		ls = append(ls, h)
	}
	if e2e {
		e := &slayers.EndToEndExtn{}
		e.Options = []*slayers.EndToEndOption{{OptType: 0xfe, OptData: []byte{4, 5, 6, 7, 8}}}
		*next = slayers.End2EndClass
		next = &e.NextHdr
		ls = append(ls, e)
	}
	switch l4 {
	case "trreq":
		*next = slayers.L4SCMP
		m := &slayers.SCMP{TypeCode: slayers.CreateSCMPTypeCode(slayers.SCMPTypeTracerouteRequest, 0)}
		m.SetNetworkLayerForChecksum(sc)
		ls = append(ls, m, &slayers.SCMPTraceroute{Identifier: 9, Sequence: 7})
	case "echo":
		*next = slayers.L4SCMP
		m := &slayers.SCMP{TypeCode: slayers.CreateSCMPTypeCode(slayers.SCMPTypeEchoRequest, 0)}
		m.SetNetworkLayerForChecksum(sc)
		ls = append(ls, m, &slayers.SCMPEcho{Identifier: 9, SeqNumber: 7}, gopacket.Payload(payload))
	case "echoreply":
		*next = slayers.L4SCMP
		m := &slayers.SCMP{TypeCode: slayers.CreateSCMPTypeCode(slayers.SCMPTypeEchoReply, 0)}
		m.SetNetworkLayerForChecksum(sc)
		ls = append(ls, m, &slayers.SCMPEcho{Identifier: 40001, SeqNumber: 7}, gopacket.Payload(payload))
	case "trreply":
		*next = slayers.L4SCMP
		m := &slayers.SCMP{TypeCode: slayers.CreateSCMPTypeCode(slayers.SCMPTypeTracerouteReply, 0)}
		m.SetNetworkLayerForChecksum(sc)
		ls = append(ls, m, &slayers.SCMPTraceroute{Identifier: 40001, Sequence: 7, IA: FarIA, Interface: 5})
	case "tcp":
		*next = slayers.L4TCP
		hdr := make([]byte, 20)
		binary.BigEndian.PutUint16(hdr[0:], 40000)
		binary.BigEndian.PutUint16(hdr[2:], dport)
		hdr[12] = 5 << 4
		ls = append(ls, gopacket.Payload(append(hdr, payload...)))
	case "scmpext":
		*next = slayers.L4SCMP
		m := &slayers.SCMP{TypeCode: slayers.CreateSCMPTypeCode(slayers.SCMPTypeExternalInterfaceDown, 0)}
		m.SetNetworkLayerForChecksum(sc)
		ls = append(ls, m, &slayers.SCMPExternalInterfaceDown{IA: FarIA, IfID: 5}, gopacket.Payload(payload))
	case "scmpparam":
		*next = slayers.L4SCMP
		m := &slayers.SCMP{TypeCode: slayers.CreateSCMPTypeCode(slayers.SCMPTypeParameterProblem, slayers.SCMPCodeInvalidHopFieldMAC)}
		m.SetNetworkLayerForChecksum(sc)
		ls = append(ls, m, &slayers.SCMPParameterProblem{Pointer: 40}, gopacket.Payload(payload))
	case "scmperr":
		*next = slayers.L4SCMP
		m := &slayers.SCMP{TypeCode: slayers.CreateSCMPTypeCode(slayers.SCMPTypeDestinationUnreachable, 1)}
		m.SetNetworkLayerForChecksum(sc)
		ls = append(ls, m, &slayers.SCMPDestinationUnreachable{}, gopacket.Payload(payload))
	case "bfd":
		*next = slayers.L4BFD
		ls = append(ls, &layers.BFD{Version: 1, State: layers.BFDStateDown, DetectMultiplier: 3,
			MyDiscriminator: 7, YourDiscriminator: 0, DesiredMinTxInterval: 1000000,
			RequiredMinRxInterval: 1000000})
	default:
		*next = slayers.L4UDP
		u := &slayers.UDP{SrcPort: 40000, DstPort: dport}
		u.SetNetworkLayerForChecksum(sc)
		ls = append(ls, u, gopacket.Payload(payload))
	}
	buf := gopacket.NewSerializeBuffer()
	must(gopacket.SerializeLayers(buf, gopacket.SerializeOptions{FixLengths: true, ComputeChecksums: true}, ls...))
	return append([]byte(nil), buf.Bytes()...)
}

// Xover builds a two-segment packet whose segment change happens at the local AS: it arrives on
// interface 2 at the last hop of an up segment (against construction direction) and leaves through
// interface eg (1 or 3) on the first hop of a down segment. Both local hop fields carry valid MACs.
func Xover(eg uint16, l4 string, badSecond bool, payload []byte) []byte {
	ts := uint32(time.Now().Add(-60 * time.Second).Unix())
	beta0, beta1 := uint16(0x4321), uint16(0x2222)
	info0 := path.InfoField{ConsDir: false, SegID: beta0, Timestamp: ts}
	info1 := path.InfoField{ConsDir: true, SegID: beta1, Timestamp: ts}
	a := path.HopField{ConsIngress: 0, ConsEgress: 2, ExpTime: 63}
	a.Mac = mac(info0, a)
	info0.SegID = beta0 ^ binary.BigEndian.Uint16(a.Mac[:2])
	b := path.HopField{ConsIngress: 0, ConsEgress: eg, ExpTime: 63}
	b.Mac = mac(info1, b)
	if badSecond {
		b.Mac[3] ^= 0x55
	}
	dec := &scion.Decoded{
		Base: scion.Base{
			PathMeta: scion.MetaHdr{CurrINF: 0, CurrHF: 1, SegLen: [3]uint8{2, 2, 0}},
			NumINF:   2, NumHops: 4,
		},
		InfoFields: []path.InfoField{info0, info1},
		HopFields: []path.HopField{
			{ConsIngress: 7, ConsEgress: 0, ExpTime: 63, Mac: [6]byte{1, 1, 1, 1, 1, 1}}, a, b,
			{ConsIngress: 8, ConsEgress: 0, ExpTime: 63, Mac: [6]byte{2, 2, 2, 2, 2, 2}}},
	}
	dst := Child2IA
	if eg == 1 {
		dst = FarIA
	}
	sc := &slayers.SCION{FlowID: 0x54321, SrcIA: ChildIA, DstIA: dst, PathType: scion.PathType, Path: dec}
	must(sc.SetSrcAddr(addr.HostIP(HostAddr)))
	must(sc.SetDstAddr(addr.HostIP(FarHost)))
	return serialize(sc, l4, false, false, 40001, payload)
}

// ScmpError builds an SCMP error message (destination unreachable) travelling 1 -> 2 whose quote is
// the packet quoted.
func ScmpError(s Spec, quoted []byte) []byte {
	s.L4 = "scmperr"
	s.Payload = quoted
	return Build(s)
}

// OneHop builds a one-hop-path packet (what a beacon or an inter-AS BFD packet uses) arriving on
// external interface via (second hop empty: to be filled by the ingress router) or leaving
// through interface eg from the internal network (first hop with a valid MAC).
func OneHop(via, eg uint16, l4 string, payload []byte) []byte {
	ts := uint32(time.Now().Add(-10 * time.Second).Unix())
	ohp := &onehop.Path{Info: path.InfoField{ConsDir: true, SegID: 0x77, Timestamp: ts}}
	sc := &slayers.SCION{FlowID: 0xdead, PathType: onehop.PathType, Path: ohp}
	if via == 0 {
		ohp.FirstHop = path.HopField{ConsEgress: eg, ExpTime: 63}
		ohp.FirstHop.Mac = mac(ohp.Info, ohp.FirstHop)
		sc.SrcIA, sc.DstIA = LocalIA, ChildIA
		must(sc.SetSrcAddr(addr.HostIP(HostAddr)))
		must(sc.SetDstAddr(addr.HostSVC(addr.SvcCS)))
	} else {
		ohp.FirstHop = path.HopField{ConsEgress: 41, ExpTime: 63, Mac: [6]byte{9, 9, 9, 9, 9, 9}}
		sc.SrcIA, sc.DstIA = ParentIA, LocalIA
		if via == 2 {
			sc.SrcIA = ChildIA
		}
		must(sc.SetSrcAddr(addr.HostIP(FarHost)))
		must(sc.SetDstAddr(addr.HostSVC(addr.SvcCS)))
	}
	return serialize(sc, l4, false, false, 30252, payload)
}

// EmptyPath builds an intra-AS packet with the empty path (sibling BFD).
func EmptyPath(l4 string, payload []byte) []byte {
	sc := &slayers.SCION{FlowID: 0xdead, PathType: empty.PathType, Path: &empty.Path{},
		SrcIA: LocalIA, DstIA: LocalIA}
	must(sc.SetSrcAddr(addr.HostIP(netip.MustParseAddr("10.0.0.2"))))
	must(sc.SetDstAddr(addr.HostIP(netip.MustParseAddr("10.0.0.1"))))
	return serialize(sc, l4, false, false, 0, payload)
}

// Stun returns a valid STUN binding request.
func Stun() []byte { return stun.Request(stun.NewTxID()) }

// SrcOf returns the underlay source address packets on the given ingress carry.
func SrcOf(via uint16) *net.UDPAddr {
	switch via {
	case 0:
		return &net.UDPAddr{IP: HostAddr.AsSlice(), Port: 40000}
	case 1:
		return net.UDPAddrFromAddrPort(netip.MustParseAddrPort(If1Remote))
	case 2:
		return net.UDPAddrFromAddrPort(netip.MustParseAddrPort(If2Remote))
	default:
		return net.UDPAddrFromAddrPort(netip.MustParseAddrPort(SiblingAddr))
	}
}

// V6Host / V6Far are IPv6 host addresses (a longer address header moves every length boundary).
var (
	V6Host = netip.MustParseAddr("fd00::77")
	V6Far  = netip.MustParseAddr("2001:db8::4")
)

// LongPaths returns packets with paths of nHops hop fields (4..64) split into 1, 2 and 3 segments,
// with the local hop near the start, in the middle and near the end, for the outcomes that make the
// router build an SCMP reply (bad MAC, expired, wrong ingress, unknown egress, traceroute) and for
// plain transit, with IPv4 and IPv6 host addresses.
func LongPaths(nHops int, payload []byte, full bool) []Named {
	var out []Named
	splits := [][3]int{{nHops, 0, 0}}
	if nHops >= 4 {
		splits = append(splits, [3]int{nHops / 2, nHops - nHops/2, 0})
	}
	if nHops >= 6 {
		splits = append(splits, [3]int{nHops / 3, nHops / 3, nHops - 2*(nHops/3)})
	}
	for si, sl := range splits {
		if sl[0] > 63 || sl[1] > 63 || sl[2] > 63 || (!full && si == 1) {
			continue
		}
		for pi, pos := range []int{1, nHops / 2, nHops - 2} {
			if pos < 1 || pos > nHops-2 || (!full && pi == 1) {
				continue
			}
			for _, v6 := range []bool{false, true} {
				src, dst := FarHost, HostAddr
				if v6 {
					src, dst = V6Far, V6Host
				}
				base := Spec{Via: 1, In: 1, Eg: 2, ConsDir: true, Pos: pos, SrcIA: FarIA, DstIA: ChildIA,
					SrcHost: src, DstHost: dst, SegLens: sl, L4: "udp", DstPort: 40001, Payload: payload}
				name := func(k string) string {
					return fmt.Sprintf("long-%s-h%d-s%d-p%d-v6%v", k, nHops, si, pos, v6)
				}
				add := func(k string, m func(*Spec)) {
					x := base
					m(&x)
					out = append(out, Named{name(k), x.Via, Build(x)})
				}
				add("transit", func(x *Spec) {})
				add("badmac", func(x *Spec) { x.BadMAC = true })
				add("expired", func(x *Spec) { x.Expired = true })
				add("wrongin", func(x *Spec) { x.Via = 2 })
				add("noegress", func(x *Spec) { x.Eg = 9 })
				add("trreq", func(x *Spec) { x.Alert = true; x.L4 = "trreq" })
				add("badmac-rev", func(x *Spec) { x.ConsDir = false; x.Via = 2; x.BadMAC = true })
			}
		}
	}
	return out
}

// Named is a corpus entry.
type Named struct {
	Name string
	Via  uint16
	Raw  []byte
}

// Corpus returns the valid-packet corpus: one packet per processing outcome class, for each
// ingress that can produce it. payload is appended as L4 payload where the kind has one.
func Corpus(payload []byte, withSibling bool) []Named {
	udp := func(name string, s Spec) Named {
		if s.L4 == "" {
			s.L4 = "udp"
		}
		if s.DstPort == 0 {
			s.DstPort = 40001
		}
		s.Payload = payload
		return Named{name, s.Via, Build(s)}
	}
	// SCMP error messages whose quote is corpus entry qi (built first, without quotes)
	var base []Named
	quote := func(name string, s Spec, qi int) Named {
		q := []byte{}
		if qi < len(base) {
			q = base[qi].Raw
		}
		s.Payload = q
		return Named{name, s.Via, Build(s)}
	}
	for pass := 0; pass < 2; pass++ {
		base = corpusOnce(udp, quote, payload, withSibling)
	}
	return base
}

func corpusOnce(udp func(string, Spec) Named, quote func(string, Spec, int) Named, payload []byte,
	withSibling bool) []Named {
	c := []Named{
		udp("transit-1-2", Spec{Via: 1, In: 1, Eg: 2, ConsDir: true, Pos: 1, SrcIA: FarIA, DstIA: ChildIA, SrcHost: FarHost, DstHost: HostAddr}),
		udp("transit-2-1", Spec{Via: 2, In: 1, Eg: 2, ConsDir: false, Pos: 1, SrcIA: ChildIA, DstIA: FarIA, SrcHost: HostAddr, DstHost: FarHost}),
		udp("inbound-1", Spec{Via: 1, In: 1, Eg: 0, ConsDir: true, Pos: 2, SrcIA: FarIA, DstIA: LocalIA, SrcHost: FarHost, DstHost: HostAddr}),
		udp("inbound-2", Spec{Via: 2, In: 0, Eg: 2, ConsDir: false, Pos: 2, SrcIA: ChildIA, DstIA: LocalIA, SrcHost: FarHost, DstHost: HostAddr}),
		udp("outbound-1", Spec{Via: 0, In: 1, Eg: 0, ConsDir: false, Pos: 0, SrcIA: LocalIA, DstIA: FarIA, SrcHost: HostAddr, DstHost: FarHost}),
		udp("outbound-2", Spec{Via: 0, In: 0, Eg: 2, ConsDir: true, Pos: 0, SrcIA: LocalIA, DstIA: ChildIA, SrcHost: HostAddr, DstHost: FarHost}),
		udp("badmac-1", Spec{Via: 1, In: 1, Eg: 2, ConsDir: true, Pos: 1, SrcIA: FarIA, DstIA: ChildIA, SrcHost: FarHost, DstHost: HostAddr, BadMAC: true}),
		udp("badmac-0", Spec{Via: 0, In: 0, Eg: 2, ConsDir: true, Pos: 0, SrcIA: LocalIA, DstIA: ChildIA, SrcHost: HostAddr, DstHost: FarHost, BadMAC: true}),
		udp("expired-2", Spec{Via: 2, In: 1, Eg: 2, ConsDir: false, Pos: 1, SrcIA: ChildIA, DstIA: FarIA, SrcHost: HostAddr, DstHost: FarHost, Expired: true}),
		udp("hbh-e2e-1-2", Spec{Via: 1, In: 1, Eg: 2, ConsDir: true, Pos: 1, SrcIA: FarIA, DstIA: ChildIA, SrcHost: FarHost, DstHost: HostAddr, HBH: true, E2E: true}),
		udp("traceroute-1", Spec{Via: 1, In: 1, Eg: 2, ConsDir: true, Pos: 1, SrcIA: FarIA, DstIA: ChildIA, SrcHost: FarHost, DstHost: HostAddr, Alert: true, L4: "trreq"}),
		udp("alert-udp-1", Spec{Via: 1, In: 1, Eg: 2, ConsDir: true, Pos: 1, SrcIA: FarIA, DstIA: ChildIA, SrcHost: FarHost, DstHost: HostAddr, Alert: true}),
		udp("echo-inbound-1", Spec{Via: 1, In: 1, Eg: 0, ConsDir: true, Pos: 2, SrcIA: FarIA, DstIA: LocalIA, SrcHost: FarHost, DstHost: HostAddr, L4: "echo"}),
		udp("wrong-ingress-2", Spec{Via: 2, In: 1, Eg: 2, ConsDir: true, Pos: 1, SrcIA: FarIA, DstIA: ChildIA, SrcHost: FarHost, DstHost: HostAddr}),
		udp("unknown-egress-1", Spec{Via: 1, In: 1, Eg: 9, ConsDir: true, Pos: 1, SrcIA: FarIA, DstIA: ChildIA, SrcHost: FarHost, DstHost: HostAddr}),
		udp("epic-1-2", Spec{Via: 1, In: 1, Eg: 2, ConsDir: true, Pos: 1, SrcIA: FarIA, DstIA: ChildIA, SrcHost: FarHost, DstHost: HostAddr, Epic: true}),
		udp("svc-inbound-1", Spec{Via: 1, In: 1, Eg: 0, ConsDir: true, Pos: 2, SrcIA: FarIA, DstIA: LocalIA, SrcHost: FarHost, DstHost: HostAddr, DstPort: 80}),
		udp("echoreply-inbound-1", Spec{Via: 1, In: 1, Eg: 0, ConsDir: true, Pos: 2, SrcIA: FarIA, DstIA: LocalIA, SrcHost: FarHost, DstHost: HostAddr, L4: "echoreply"}),
		udp("trreply-inbound-1", Spec{Via: 1, In: 1, Eg: 0, ConsDir: true, Pos: 2, SrcIA: FarIA, DstIA: LocalIA, SrcHost: FarHost, DstHost: HostAddr, L4: "trreply"}),
		udp("tcp-inbound-1", Spec{Via: 1, In: 1, Eg: 0, ConsDir: true, Pos: 2, SrcIA: FarIA, DstIA: LocalIA, SrcHost: FarHost, DstHost: HostAddr, L4: "tcp"}),
		quote("scmperr-udp-inbound-1", Spec{Via: 1, In: 1, Eg: 0, ConsDir: true, Pos: 2, SrcIA: FarIA, DstIA: LocalIA, SrcHost: FarHost, DstHost: HostAddr, L4: "scmperr"}, 0),
		quote("scmperr-echo-inbound-1", Spec{Via: 1, In: 1, Eg: 0, ConsDir: true, Pos: 2, SrcIA: FarIA, DstIA: LocalIA, SrcHost: FarHost, DstHost: HostAddr, L4: "scmpparam"}, 12),
		quote("scmperr-scmperr-inbound-1", Spec{Via: 1, In: 1, Eg: 0, ConsDir: true, Pos: 2, SrcIA: FarIA, DstIA: LocalIA, SrcHost: FarHost, DstHost: HostAddr, L4: "scmpext"}, 20),
		quote("scmperr-tr-inbound-1", Spec{Via: 1, In: 1, Eg: 0, ConsDir: true, Pos: 2, SrcIA: FarIA, DstIA: LocalIA, SrcHost: FarHost, DstHost: HostAddr, L4: "scmperr"}, 10),
		{"xover-2-1", 2, Xover(1, "udp", false, payload)},
		{"xover-2-1-bad", 2, Xover(1, "udp", true, payload)},
		{"xover-2-1-tr", 2, Xover(1, "trreq", false, payload)},
		{"scmperr-1-2", 1, ScmpError(Spec{Via: 1, In: 1, Eg: 2, ConsDir: true, Pos: 1, SrcIA: FarIA, DstIA: ChildIA, SrcHost: FarHost, DstHost: HostAddr}, payload)},
		{"scmperr-badmac-1", 1, ScmpError(Spec{Via: 1, In: 1, Eg: 2, ConsDir: true, Pos: 1, SrcIA: FarIA, DstIA: ChildIA, SrcHost: FarHost, DstHost: HostAddr, BadMAC: true}, payload)},
		{"ohp-in-1", 1, OneHop(1, 0, "udp", payload)},
		{"ohp-out-2", 0, OneHop(0, 2, "udp", payload)},
		{"bfd-ohp-1", 1, OneHop(1, 0, "bfd", nil)},
		{"stun-0", 0, Stun()},
		{"stun-badfp-0", 0, func() []byte { b := Stun(); b[len(b)-1] ^= 0xff; return b }()},
	}
	if withSibling {
		c = append(c,
			udp("to-sibling-1-3", Spec{Via: 1, In: 1, Eg: 3, ConsDir: true, Pos: 1, SrcIA: FarIA, DstIA: Child2IA, SrcHost: FarHost, DstHost: HostAddr}),
			udp("from-sibling-3-1", Spec{Via: 3, In: 1, Eg: 3, ConsDir: false, Pos: 1, SrcIA: Child2IA, DstIA: FarIA, SrcHost: HostAddr, DstHost: FarHost}),
			Named{"bfd-empty-3", 3, EmptyPath("bfd", nil)},
			Named{"xover-2-3", 2, Xover(3, "udp", false, payload)},
		)
	}
	return c
}
