package dp

import (
	"crypto/aes"
	"encoding/binary"
)

// HopMAC is an independent re-computation of the hop-field MAC, written from
// doc/protocols/scion-header.rst (hop field MAC computation) and RFC 4493 (AES-CMAC of exactly one
// complete 16-byte block).  It shares no code with pkg/slayers/path or pkg/scrypto.  It is the
// abstraction function "macValid" of the specification (logged as an observation, never compared
// in Go).  key is the AS forwarding key (PBKDF2-derived 16 bytes).
func HopMAC(key []byte, segID uint16, ts uint32, exp uint8, in, eg uint16) [6]byte {
	c, err := aes.NewCipher(key)
	if err != nil {
		panic(err)
	}
	var m, l, k1 [16]byte
	binary.BigEndian.PutUint16(m[2:], segID)
	binary.BigEndian.PutUint32(m[4:], ts)
	m[9] = exp
	binary.BigEndian.PutUint16(m[10:], in)
	binary.BigEndian.PutUint16(m[12:], eg)
	c.Encrypt(l[:], l[:])     // L = AES(K, 0^128)
	for i := 0; i < 16; i++ { // K1 = L << 1 (xor Rb if msb(L))
		k1[i] = l[i] << 1
		if i < 15 {
			k1[i] |= l[i+1] >> 7
		}
	}
	if l[0]&0x80 != 0 {
		k1[15] ^= 0x87
	}
	for i := range m {
		m[i] ^= k1[i]
	}
	c.Encrypt(m[:], m[:])
	var out [6]byte
	copy(out[:], m[:6])
	return out
}
