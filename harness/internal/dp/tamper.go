package dp

import (
	"bytes"
	"net"
	"net/netip"

	"github.com/scionproto/scion/private/path/combinator"

	"verifharness/internal/vt"
)

// quietWalk walks a packet without logging hop events; it returns, per router visit, the
// CurrHF the packet arrived with, the index of the visit at which the packet died (-1 if it
// reached a host), and whether it was handed to the host (as, addr).
type walkSummary struct {
	Visits    []int  // pre CurrHF of every visit
	DiedVisit int    // visit at which the packet was dropped or answered by the slow path; -1
	Disp      string // disposition at the last visit
	Code      int    // SCMP code if slow
	Type      int
	HostAS    int // AS of the host the packet was delivered to, -1
	HostAddr  string
}

func (n *Net) quietWalk(a Arrival) walkSummary {
	s := walkSummary{DiedVisit: -1, HostAS: -1}
	for step := 0; step < maxSteps; step++ {
		v := n.DP[a.AS][a.R]
		var via uint16
		if a.Scope != "int" {
			via = a.If
		}
		in := bytes.Clone(a.Raw)
		ch := -1
		if p := Parse(in); p.Dec != nil {
			ch = int(p.Dec.PathMeta.CurrHF)
		}
		s.Visits = append(s.Visits, ch)
		pk := v.NewPacket(in, via, a.Src)
		res := v.Process(pk)
		s.Disp = res.Disp.String()
		if s.Disp != "forward" {
			s.DiedVisit = step
			s.Type, s.Code = int(res.SlowType), int(res.SlowCode)
			return s
		}
		o := n.send(a.AS, a.R, res.OutLink, res.Egress, res.Dst, bytes.Clone(res.Raw), a, false)
		switch o.Kind {
		case "host":
			s.HostAS, s.HostAddr = o.HostAS, udpStr(o.HostAddr)
			return s
		case "end":
			s.DiedVisit, s.Disp = step, "nolink"
			return s
		}
		a = o.Next
	}
	s.DiedVisit, s.Disp = maxSteps, "loop"
	return s
}

// Protected values of a path: per hop field ConsIngress(16) ConsEgress(16) ExpTime(8) MAC(48),
// per info field SegID(16) Timestamp(32).  Offsets relative to the field start.
type protField struct {
	Kind     string // hop.in hop.eg hop.exp hop.mac info.segid info.ts
	Off, Len int    // byte offset in the field, length in bytes
}

var hopProt = []protField{{"hop.exp", 1, 1}, {"hop.in", 2, 2}, {"hop.eg", 4, 2}, {"hop.mac", 6, 6}}
var infoProt = []protField{{"info.segid", 2, 2}, {"info.ts", 4, 4}}

// Tamper runs, for one combined path, the honest reference walk and then one walk per single-bit
// alteration of a protected value (every bit when stride = 1), logging one compact event each.
func (n *Net) Tamper(w *vt.Writer, id, src, dst int, p combinator.Path, rng interface {
	Intn(int) int
	Read([]byte) (int, error)
}, stride int) int {
	sh, dh := n.T.HostAddr(src, 1), n.T.HostAddr(dst, 2)
	pay := make([]byte, 8)
	rng.Read(pay)
	raw, err := Build(PktSpec{SrcIA: n.T.ASes[src].IA, DstIA: n.T.ASes[dst].IA, SrcHost: sh,
		DstHost: dh, SrcPort: 40001, DstPort: 40002, Path: p.SCIONPath, L4: "udp", Payload: pay})
	if err != nil || len(p.Metadata.Interfaces) == 0 {
		return 0
	}
	first := n.T.End(src, uint16(p.Metadata.Interfaces[0].ID))
	start := func(b []byte) Arrival {
		return Arrival{AS: src, R: first.Router, Scope: "int",
			Src: &net.UDPAddr{IP: sh.AsSlice(), Port: 40001}, Raw: b}
	}
	ref := n.quietWalk(start(raw))
	pp := Parse(raw)
	dhs := netip.AddrPortFrom(dh, 40002).String()
	w.Emit(map[string]any{"ev": "reset", "id": id, "mode": "tamper", "topo": n.T.Name,
		"src": n.T.ASes[src].Name, "dst": n.T.ASes[dst].Name,
		"sh": netip.AddrPortFrom(sh, 40001).String(), "dh": dhs, "ifs": n.IfList(p), "pt": "scion",
		"l4": "udp", "rev": "none", "desc": NoDesc(),
		"pkt": n.C.Proj(raw, "full")})
	// the untampered reference walk: which CurrHF each router visit saw, and where it ended
	w.Emit(map[string]any{"ev": "ref", "visits": vt.Ints(ref.Visits), "died": ref.DiedVisit,
		"delivered": ref.HostAS == dst && ref.HostAddr == dhs})
	ninf, nhops := pp.Dec.NumINF, pp.Dec.NumHops
	cnt := 0
	run := func(kind string, pos, fieldOff int, f protField) {
		for bit := 0; bit < f.Len*8; bit++ {
			cnt++
			if stride > 1 && (cnt+id)%stride != 0 {
				continue
			}
			t := bytes.Clone(raw)
			t[fieldOff+f.Off+bit/8] ^= 0x80 >> (bit % 8)
			s := n.quietWalk(start(t))
			w.Emit(map[string]any{"ev": "tamper", "kind": kind, "pos": pos, "bit": bit,
				"died": s.DiedVisit, "disp": s.Disp, "type": s.Type, "code": s.Code,
				"visits": len(s.Visits), "delivered": s.HostAS == dst && s.HostAddr == dhs,
				"hostas": s.HostAS})
		}
	}
	for i := 0; i < ninf; i++ {
		for _, f := range infoProt {
			run(f.Kind, i, pp.MetaOff+4+8*i, f)
		}
	}
	for h := 0; h < nhops; h++ {
		for _, f := range hopProt {
			run(f.Kind, h, pp.MetaOff+4+8*ninf+12*h, f)
		}
	}
	return cnt
}
