package dp

import (
	"bytes"
	"fmt"
	"net"
	"net/netip"

	"github.com/gopacket/gopacket"

	"github.com/scionproto/scion/pkg/addr"
	"github.com/scionproto/scion/pkg/slayers"
	"github.com/scionproto/scion/router"
	_ "github.com/scionproto/scion/router/underlayproviders/udpip" // registers the real provider
)

// Net is the data plane of a topology: one real router.dataPlane per border router.
type Net struct {
	C  *Control
	T  *Topo
	DP [][]*router.VerifDP
}

// NetOpts selects per-scenario router configuration.
type NetOpts struct {
	// BFD lists interfaces (AS index, ifid) on which a real bfd.Session is configured and never
	// started: the link is down (Link.IsUp() false), a "fault" for C10.
	BFD map[[2]int]bool
	// SiblingBFD marks ASes whose sibling links get a (down) BFD session.
	SiblingBFD map[int]bool
	// Without lists interfaces (AS index, ifid) that no router of the AS has configured.
	Without         map[[2]int]bool
	SiblingDetached bool
	SCMPAuth        bool
}

func NewNet(c *Control, o NetOpts) *Net {
	n := &Net{C: c, T: c.T}
	for i := range c.T.ASes {
		n.DP = append(n.DP, buildAS(c, i, o))
	}
	return n
}

// WithAS returns a network that shares every router with n except those of AS `as`, which are
// built anew with options o (a fault in one AS).
func (n *Net) WithAS(as int, o NetOpts) *Net {
	m := &Net{C: n.C, T: n.T, DP: append([][]*router.VerifDP(nil), n.DP...)}
	m.DP[as] = buildAS(n.C, as, o)
	return m
}

// WithControl returns a network with the same routers and another control plane (other beacons).
func (n *Net) WithControl(c *Control) *Net { return &Net{C: c, T: n.T, DP: n.DP} }

func buildAS(c *Control, i int, o NetOpts) []*router.VerifDP {
	a := c.T.ASes[i]
	var rs []*router.VerifDP
	for r := 0; r < a.Routers; r++ {
		cfg := router.VerifConfig{IA: a.IA, Key: c.Keys[i], InternalAddr: c.T.RouterAddr(i, r),
			PortStart: 1024, PortEnd: 65535, SCMPAuth: o.SCMPAuth,
			SiblingDetached: o.SiblingDetached,
			Svc: []router.VerifSvc{{SVC: addr.SvcCS,
				Addr: netip.MustParseAddrPort(fmt.Sprintf("10.%d.0.100:30252", i+1))}}}
		cfg.BFDConfig.DetectMult = 3
		cfg.BFDConfig.DesiredMinTxInterval = 200e6
		cfg.BFDConfig.RequiredMinRxInterval = 200e6
		for _, e := range c.T.Ends(i) {
			if o.Without[[2]int{i, int(e.If)}] {
				continue // the interface is not configured on any router of the AS
			}
			vi := router.VerifIface{IfID: e.If, LinkTo: e.LinkTo, Neighbor: c.T.ASes[e.PeerAS].IA,
				Owned: e.Router == r, Local: e.Local, Remote: e.Remote}
			if !vi.Owned {
				vi.Remote = c.T.RouterAddr(i, e.Router)
				vi.BFD = o.SiblingBFD[i]
			} else {
				vi.BFD = o.BFD[[2]int{i, int(e.If)}]
			}
			cfg.Ifaces = append(cfg.Ifaces, vi)
		}
		v, err := router.VerifNewDP(cfg)
		if err != nil {
			panic(fmt.Sprintf("router %s/%d: %v", a.Name, r, err))
		}
		rs = append(rs, v)
	}
	return rs
}

// Arrival is a packet arriving at a router.
type Arrival struct {
	AS, R int
	Scope string       // "ext" | "sib" | "int"
	If    uint16       // ext: the ingress interface; sib: an interface owned by the sending sibling
	From  int          // sib: index of the sending router
	Src   *net.UDPAddr // int: underlay source (the host)
	Raw   []byte
}

// Outcome of processing one arrival.
type Outcome struct {
	Kind     string // "next" | "host" | "end"
	Next     Arrival
	HostAS   int
	HostAddr *net.UDPAddr
	Raw      []byte
	ByAS     int // router that handed the packet to the host
	ByR      int
	Disp     string
	Slow     bool // the packet that goes on is a reply built by the slow path
}

func scopeName(l router.Link) string {
	if l == nil {
		return "none"
	}
	switch l.Scope() {
	case router.Internal:
		return "int"
	case router.Sibling:
		return "sib"
	}
	return "ext"
}

func udpStr(a *net.UDPAddr) string {
	if a == nil {
		return ""
	}
	return a.String()
}

// send computes where a packet leaving router (as, r) on link out (scope) with underlay
// destination dst arrives.
func (n *Net) send(as, r int, out router.Link, egress uint16, dst *net.UDPAddr, raw []byte,
	inAS Arrival, back bool) Outcome {
	switch scopeName(out) {
	case "ext":
		ifid := out.IfID()
		e := n.T.End(as, ifid)
		if e == nil {
			return Outcome{Kind: "end"}
		}
		return Outcome{Kind: "next", Next: Arrival{AS: e.PeerAS, R: e.PeerR, Scope: "ext",
			If: e.PeerIf, Raw: raw}}
	case "sib":
		sr := n.T.RouterByAddr(as, udpStr(dst))
		if sr < 0 {
			return Outcome{Kind: "end"}
		}
		// the receiver sees the packet on its sibling link towards the sender: identified by any
		// interface the sender owns
		var via uint16
		for _, e := range n.T.Ends(as) {
			if e.Router == r {
				via = e.If
				break
			}
		}
		return Outcome{Kind: "next", Next: Arrival{AS: as, R: sr, Scope: "sib", If: via, From: r,
			Raw: raw}}
	case "int":
		return Outcome{Kind: "host", HostAS: as, HostAddr: dst, Raw: raw, ByAS: as, ByR: r}
	}
	return Outcome{Kind: "end"}
}

// Step processes one arrival with the real router and returns the events to log plus what
// happens next.  j tags the journey ("req", "rep", "scmp").
func (n *Net) Step(a Arrival, j string) ([]map[string]any, Outcome) {
	v := n.DP[a.AS][a.R]
	var via uint16
	if a.Scope != "int" {
		via = a.If
	}
	in := bytes.Clone(a.Raw)
	p := v.NewPacket(in, via, a.Src)
	pre := n.C.Proj(in, "win")
	inif := 0
	if a.Scope == "ext" {
		inif = int(a.If)
	}
	ev := map[string]any{"ev": "hop", "j": j, "as": n.T.ASes[a.AS].Name, "r": a.R,
		"scope": a.Scope, "inif": inif, "from": udpStr(a.Src), "sibfrom": a.From, "pre": pre}
	res := v.Process(p)
	out := bytes.Clone(res.Raw)
	ev["disp"] = res.Disp.String()
	ev["egress"] = int(res.Egress)
	ev["out"] = scopeName(res.OutLink)
	ev["dst"] = udpStr(res.Dst)
	ev["post"] = n.C.Proj(out, "none")
	ev["diff"] = Diff(in, out)
	ev["lenout"] = len(out)
	ev["slow"] = map[string]any{"type": int(res.SlowType), "code": int(res.SlowCode),
		"ptr": int(res.SlowPtr)}
	evs := []map[string]any{ev}
	switch res.Disp {
	case router.VerifForward:
		o := n.send(a.AS, a.R, res.OutLink, res.Egress, res.Dst, out, a, false)
		o.Disp = "forward"
		return evs, o
	case router.VerifSlowPath:
		r2, err := v.ProcessSlow(p)
		rep := bytes.Clone(r2.Raw)
		se := map[string]any{"ev": "scmp", "j": j, "as": n.T.ASes[a.AS].Name, "r": a.R,
			"scope": a.Scope, "inif": inif, "err": err != nil, "out": scopeName(r2.OutLink),
			"dst": udpStr(r2.Dst), "len": len(rep), "egress": int(r2.Egress),
			"built": err == nil && !bytes.Equal(rep[:min(len(rep), len(out))], out),
			"m":     ScmpProj(n.C, rep), "pkt": n.C.Proj(rep, "full"), "quoteok": quoteOK(rep, out)}
		evs = append(evs, se)
		if err != nil || r2.OutLink == nil {
			return evs, Outcome{Kind: "end", Disp: "slow"}
		}
		o := n.send(a.AS, a.R, r2.OutLink, 0, r2.Dst, rep, a, true)
		o.Disp = "slow"
		o.Slow = true
		return evs, o
	}
	return evs, Outcome{Kind: "end", Disp: res.Disp.String()}
}

// ScmpProj decodes the SCMP message of a packet (observation only).
func ScmpProj(c *Control, raw []byte) map[string]any {
	m := map[string]any{"is": false, "type": -1, "code": -1, "ptr": -1, "ia": "", "if": -1,
		"if2": -1, "id": -1}
	p := Parse(raw)
	if p.Err != "" || p.L4 != slayers.L4SCMP || p.L4Off+4 > len(raw) {
		return m
	}
	var s slayers.SCMP
	if err := s.DecodeFromBytes(raw[p.L4Off:], gopacket.NilDecodeFeedback); err != nil {
		return m
	}
	m["is"], m["type"], m["code"] = true, int(s.TypeCode.Type()), int(s.TypeCode.Code())
	switch s.TypeCode.Type() {
	case slayers.SCMPTypeParameterProblem:
		var pp slayers.SCMPParameterProblem
		if pp.DecodeFromBytes(s.Payload, gopacket.NilDecodeFeedback) == nil {
			m["ptr"] = int(pp.Pointer)
		}
	case slayers.SCMPTypeTracerouteReply, slayers.SCMPTypeTracerouteRequest:
		var t slayers.SCMPTraceroute
		if t.DecodeFromBytes(s.Payload, gopacket.NilDecodeFeedback) == nil {
			m["ia"], m["if"], m["id"] = c.asName(t.IA), int(t.Interface), int(t.Identifier)
		}
	case slayers.SCMPTypeExternalInterfaceDown:
		var t slayers.SCMPExternalInterfaceDown
		if t.DecodeFromBytes(s.Payload, gopacket.NilDecodeFeedback) == nil {
			m["ia"], m["if"] = c.asName(t.IA), int(t.IfID)
		}
	case slayers.SCMPTypeInternalConnectivityDown:
		var t slayers.SCMPInternalConnectivityDown
		if t.DecodeFromBytes(s.Payload, gopacket.NilDecodeFeedback) == nil {
			m["ia"], m["if"], m["if2"] = c.asName(t.IA), int(t.Ingress), int(t.Egress)
		}
	}
	return m
}

// quoteOK reports whether the SCMP error message in rep ends with a prefix of the offending
// packet (observation for C09/C10; trivially true for informational messages).
func quoteOK(rep, offending []byte) bool {
	p := Parse(rep)
	if p.Err != "" || p.L4 != slayers.L4SCMP || p.L4Off+8 > len(rep) {
		return false
	}
	if rep[p.L4Off] >= 128 { // informational
		return true
	}
	var s slayers.SCMP
	if err := s.DecodeFromBytes(rep[p.L4Off:], gopacket.NilDecodeFeedback); err != nil {
		return false
	}
	hl := 4
	switch s.TypeCode.Type() {
	case slayers.SCMPTypeExternalInterfaceDown:
		hl = 16
	case slayers.SCMPTypeInternalConnectivityDown:
		hl = 24
	}
	q := s.Payload
	if len(q) < hl {
		return false
	}
	q = q[hl:]
	return len(q) <= len(offending) && bytes.Equal(q, offending[:len(q)])
}
