// Package dp is the shared machinery of the data-plane properties (C02, C03, C04, C07, C10, C22):
// topologies, real beaconing (control/beaconing.DefaultExtender), real path combination
// (private/path/combinator), one real router data plane per border router (router export H1), the
// walk of a packet from router to router, and the event log.  It never judges.
package dp

import (
	"fmt"
	"math/rand"
	"net"
	"net/netip"

	"github.com/scionproto/scion/pkg/addr"
	"github.com/scionproto/scion/private/topology"
)

// LinkKind is the relation of A to B.
type LinkKind string

const (
	Core   LinkKind = "core"   // A and B are core ASes
	Parent LinkKind = "parent" // A is the parent of B
	Peer   LinkKind = "peer"
)

type AS struct {
	Name    string // short name used in traces, e.g. "C1"
	IA      addr.IA
	Core    bool
	Routers int // number of border routers (1 or 2 ...)
	Master  []byte
}

type Link struct {
	A, B     int // AS indices
	AIf, BIf uint16
	Kind     LinkKind
	AR, BR   int // owning router index on each side
}

// Topo is a complete inter-AS topology.
type Topo struct {
	Name  string
	ASes  []AS
	Links []Link
	ends  map[int][]End // cache of Ends, dropped when a link is added
}

// End is one end of a link as seen from an AS.
type End struct {
	Link          int
	AS, Router    int
	If            uint16
	PeerAS, PeerR int
	PeerIf        uint16
	LinkTo        topology.LinkType // type as seen from AS
	Local, Remote string            // underlay addresses of the link
}

func (t *Topo) addAS(name string, isd int, asn int, core bool, routers int) int {
	ia := addr.MustParseIA(fmt.Sprintf("%d-ff00:0:%x", isd, asn))
	t.ASes = append(t.ASes, AS{Name: name, IA: ia, Core: core, Routers: routers,
		Master: []byte("master-key-of-" + name + "-" + t.Name)})
	return len(t.ASes) - 1
}

// ifHigh are the high bytes of the interface ids of an AS: the ids cover the 16-bit range (all-zero,
// single low/high bits, ExpTime-like 0x3f, all-one ...), they are not small consecutive numbers.
var ifHigh = []uint16{0x00, 0x01, 0x3f, 0xff, 0x80, 0x40, 0x7e, 0x15}

func (t *Topo) nextIf(as int) uint16 {
	n := uint16(1)
	for _, l := range t.Links {
		if l.A == as || l.B == as {
			n++
		}
	}
	if n > 19 || as/8 > 11 {
		panic("interface id space of the harness exhausted")
	}
	// interface ids are distinct across ASes on purpose (catches confusions)
	return ifHigh[as%8]<<8 | (uint16(as/8)*20 + n)
}

func (t *Topo) link(a, b int, k LinkKind, ar, br int) {
	if a == b {
		panic("self link")
	}
	t.Links = append(t.Links, Link{A: a, B: b, AIf: t.nextIf(a), BIf: t.nextIf(b), Kind: k,
		AR: ar, BR: br})
	t.ends = nil
}

// Ends returns all interface ends of AS i.
func (t *Topo) Ends(as int) []End {
	if e, ok := t.ends[as]; ok {
		return e
	}
	out := t.computeEnds(as)
	if t.ends == nil {
		t.ends = map[int][]End{}
	}
	t.ends[as] = out
	return out
}

func (t *Topo) computeEnds(as int) []End {
	var out []End
	for li, l := range t.Links {
		la := fmt.Sprintf("172.%d.%d.1:50000", 16+li/250, li%250)
		lb := fmt.Sprintf("172.%d.%d.2:50000", 16+li/250, li%250)
		if l.A == as {
			lt := map[LinkKind]topology.LinkType{Core: topology.Core, Parent: topology.Child,
				Peer: topology.Peer}[l.Kind]
			out = append(out, End{Link: li, AS: as, Router: l.AR, If: l.AIf, PeerAS: l.B,
				PeerR: l.BR, PeerIf: l.BIf, LinkTo: lt, Local: la, Remote: lb})
		}
		if l.B == as {
			lt := map[LinkKind]topology.LinkType{Core: topology.Core, Parent: topology.Parent,
				Peer: topology.Peer}[l.Kind]
			out = append(out, End{Link: li, AS: as, Router: l.BR, If: l.BIf, PeerAS: l.A,
				PeerR: l.AR, PeerIf: l.AIf, LinkTo: lt, Local: lb, Remote: la})
		}
	}
	return out
}

// End returns the end for (as, ifid) or nil.
func (t *Topo) End(as int, ifid uint16) *End {
	for _, e := range t.Ends(as) {
		if e.If == ifid {
			return &e
		}
	}
	return nil
}

func (t *Topo) ASByIA(ia addr.IA) int {
	for i, a := range t.ASes {
		if a.IA == ia {
			return i
		}
	}
	return -1
}

// RouterAddr is the internal address of router r of AS as.
func (t *Topo) RouterAddr(as, r int) string { return fmt.Sprintf("10.%d.0.%d:30042", as+1, r+1) }

// HostAddr is the address of end host h (1..) of AS as.
func (t *Topo) HostAddr(as, h int) netip.Addr {
	return netip.MustParseAddr(fmt.Sprintf("10.%d.1.%d", as+1, h))
}

func (t *Topo) HostUDP(as, h, port int) *net.UDPAddr {
	return &net.UDPAddr{IP: t.HostAddr(as, h).AsSlice(), Port: port}
}

// RouterByAddr finds the router of AS as with the given internal address.
func (t *Topo) RouterByAddr(as int, a string) int {
	for r := 0; r < t.ASes[as].Routers; r++ {
		if t.RouterAddr(as, r) == a {
			return r
		}
	}
	return -1
}

// ---------------------------------------------------------------- families

// T1: two core ASes with two parallel core links, a chain of three non-core ASes below one core,
// one AS below the other, two peering links between the branches.
func T1() *Topo { return family("T1", false, false) }

// T2: T1 with A1 (non-core, has parent, child and peer interfaces) and C1 (core) split into two
// border routers joined by sibling links; every interface owned by exactly one of them.
func T2() *Topo { return family("T2", true, false) }

// T3: T1 plus a second ISD (core D1 linked to both cores of ISD 1, child E1, peering E1-B1).
func T3() *Topo { return family("T3", false, true) }

func family(name string, split, isd2 bool) *Topo {
	t := &Topo{Name: name}
	nr := 1
	if split {
		nr = 2
	}
	c1 := t.addAS("C1", 1, 0x110, true, nr)
	c2 := t.addAS("C2", 1, 0x120, true, 1)
	a1 := t.addAS("A1", 1, 0x111, false, nr)
	a2 := t.addAS("A2", 1, 0x112, false, 1)
	a3 := t.addAS("A3", 1, 0x113, false, 1)
	b1 := t.addAS("B1", 1, 0x121, false, 1)
	r1 := nr - 1 // second router where split
	t.link(c1, c2, Core, 0, 0)
	t.link(c1, c2, Core, r1, 0)
	t.link(c1, a1, Parent, r1, 0)
	t.link(a1, a2, Parent, r1, 0)
	t.link(a2, a3, Parent, 0, 0)
	t.link(c2, b1, Parent, 0, 0)
	t.link(a1, b1, Peer, 0, 0)
	t.link(a2, b1, Peer, 0, 0)
	if isd2 {
		d1 := t.addAS("D1", 2, 0x210, true, 1)
		e1 := t.addAS("E1", 2, 0x211, false, 1)
		t.link(c1, d1, Core, 0, 0)
		t.link(c2, d1, Core, 0, 0)
		t.link(d1, e1, Parent, 0, 0)
		t.link(e1, b1, Peer, 0, 0)
	}
	return t
}

// Line builds C0 - A1 - ... - A(n-1): a core AS and a chain of n-1 descendants, plus a second
// branch C0 - B1 - ... - B(m-1) (m = min(n, 4)) with peering links from B1.. to the A chain at the
// given A positions (1-based positions in the A chain).  Used for the SegID chain property (C22):
// segments of n hops, shortcuts at every common AS, peering at the chosen positions.
func Line(n int, peerAt []int, twoRouters bool) *Topo {
	t := &Topo{Name: fmt.Sprintf("L%d", n)}
	nr := 1
	if twoRouters {
		nr = 2
	}
	c := t.addAS("C0", 1, 0x100, true, 1)
	prev := c
	var chain []int
	for i := 1; i < n; i++ {
		r := 1
		if i%3 == 1 {
			r = nr
		}
		a := t.addAS(fmt.Sprintf("A%d", i), 1, 0x1000+i, false, r)
		t.link(prev, a, Parent, t.ASes[prev].Routers-1, 0)
		chain = append(chain, a)
		prev = a
	}
	// second branch below the core
	m := 3
	pb := c
	var bs []int
	for i := 1; i <= m; i++ {
		b := t.addAS(fmt.Sprintf("B%d", i), 1, 0x2000+i, false, 1)
		t.link(pb, b, Parent, 0, 0)
		bs = append(bs, b)
		pb = b
	}
	for k, p := range peerAt {
		if p >= 1 && p <= len(chain) {
			t.link(chain[p-1], bs[k%len(bs)], Peer, 0, 0)
		}
	}
	// peering links attached to the FIRST AS of the segments (the core): a peer entry in the first
	// AS entry, used by peering paths that enter a down segment / leave an up segment at position 1
	if len(chain) >= 2 {
		t.link(c, chain[len(chain)/2], Peer, 0, 0)
	}
	t.link(c, bs[len(bs)-1], Peer, 0, 0)
	return t
}

// Fan builds two linked core ASes that are both parents of w leaf ASes; neighbouring leaves peer.
// Wide fan-out: a core originates on w+1 interfaces at once, a leaf receives two beacons at once
// and has two peering interfaces (three MACs per extension).
func Fan(w int) *Topo { return FanP(w, 1) }

// FanP is Fan with every leaf peering with its np successors on the ring of leaves.
func FanP(w, np int) *Topo {
	t := &Topo{Name: fmt.Sprintf("F%d", w)}
	c0 := t.addAS("C0", 1, 0x100, true, 1)
	c1 := t.addAS("C1", 1, 0x101, true, 1)
	t.link(c0, c1, Core, 0, 0)
	var leaves []int
	for i := 0; i < w; i++ {
		l := t.addAS(fmt.Sprintf("L%d", i), 1, 0x1000+i, false, 1)
		t.link(c0, l, Parent, 0, 0)
		t.link(c1, l, Parent, 0, 0)
		leaves = append(leaves, l)
	}
	for d := 1; d <= np; d++ {
		for i := 0; i < w; i++ {
			if j := (i + d) % w; j != i && (d < w-d || (d == w-d && i < j) || w-d <= 0) {
				t.link(leaves[i], leaves[j], Peer, 0, 0)
			}
		}
	}
	return t
}

// Random builds a random topology: up to nas ASes in up to 3 ISDs, multi-router ASes, parallel
// links, peering links.
func Random(rng *rand.Rand, nas int) *Topo {
	t := &Topo{Name: fmt.Sprintf("R%d", rng.Intn(1000000))}
	nisd := 1 + rng.Intn(3)
	var cores []int
	var all []int
	depth := map[int]int{}
	isdOf := map[int]int{}
	for i := 0; i < nisd; i++ {
		nc := 1 + rng.Intn(2)
		for j := 0; j < nc && len(all) < nas; j++ {
			c := t.addAS(fmt.Sprintf("K%d%d", i+1, j), i+1, 0x100*(i+1)+0x10*(j+1), true,
				1+rng.Intn(2))
			cores = append(cores, c)
			all = append(all, c)
			isdOf[c] = i
		}
	}
	rr := func(as int) int { return rng.Intn(t.ASes[as].Routers) }
	// core mesh: spanning chain + random extra (possibly parallel) links
	for i := 1; i < len(cores); i++ {
		t.link(cores[i-1], cores[i], Core, rr(cores[i-1]), rr(cores[i]))
	}
	for k := 0; k < len(cores); k++ {
		a, b := cores[rng.Intn(len(cores))], cores[rng.Intn(len(cores))]
		if a != b && rng.Intn(2) == 0 {
			t.link(a, b, Core, rr(a), rr(b))
		}
	}
	// non-core ASes: each gets 1-2 parents of smaller depth in the same ISD
	for len(all) < nas {
		p := all[rng.Intn(len(all))]
		if depth[p] >= 3 {
			continue
		}
		n := t.addAS(fmt.Sprintf("N%d", len(all)), isdOf[p]+1, 0x1000+len(all), false,
			1+rng.Intn(2))
		isdOf[n] = isdOf[p]
		depth[n] = depth[p] + 1
		t.link(p, n, Parent, rr(p), rr(n))
		if rng.Intn(3) == 0 { // second parent or parallel link
			q := all[rng.Intn(len(all))]
			if isdOf[q] == isdOf[n] && depth[q] < depth[n] {
				t.link(q, n, Parent, rr(q), rr(n))
			}
		}
		all = append(all, n)
	}
	// peering links between non-core ASes
	for k := 0; k < nas/2; k++ {
		a, b := all[rng.Intn(len(all))], all[rng.Intn(len(all))]
		if a != b && !t.ASes[a].Core && !t.ASes[b].Core {
			t.link(a, b, Peer, rr(a), rr(b))
		}
	}
	return t
}

// JSON is the abstract description shipped to TLC (reset record / MC constants).
func (t *Topo) JSON() map[string]any {
	ases := []any{}
	for _, a := range t.ASes {
		ases = append(ases, map[string]any{"name": a.Name, "core": a.Core, "routers": a.Routers,
			"isd": int(a.IA.ISD())})
	}
	links := []any{}
	for _, l := range t.Links {
		links = append(links, map[string]any{"a": t.ASes[l.A].Name, "aif": int(l.AIf),
			"ar": l.AR, "b": t.ASes[l.B].Name, "bif": int(l.BIf), "br": l.BR,
			"kind": string(l.Kind)})
	}
	return map[string]any{"name": t.Name, "ases": ases, "links": links}
}
