package dp

import (
	"fmt"
	"math/rand"
	"net"
	"net/netip"
	"time"

	"github.com/scionproto/scion/pkg/scrypto"
	"github.com/scionproto/scion/pkg/slayers"
	spath "github.com/scionproto/scion/pkg/slayers/path"
	"github.com/scionproto/scion/pkg/slayers/path/scion"
	"github.com/scionproto/scion/pkg/snet"
	snetpath "github.com/scionproto/scion/pkg/snet/path"
	"github.com/scionproto/scion/private/path/combinator"

	"verifharness/internal/vt"
)

// JourneyOpts describes one scenario on one combined path.
type JourneyOpts struct {
	ID       int
	Mode     string // "honest" | "tamper" | "fault" | "alert"
	PT       string // "scion" | "epic"
	L4       string // "udp" | "trreq" | "echo"
	HBH, E2E bool
	Rev      string // "pather" (snet.DefaultReplyPather) | "raw" (scion.Raw.Reverse in place) | "none"
	// Mutate changes the serialized request before it is sent (tampering, alert flags); Desc is
	// its abstract description for the reset record.
	Mutate func(raw []byte) []byte
	Desc   map[string]any
	Rng    *rand.Rand
}

// NoDesc is the scenario description of an unmodified journey (all reset records carry the same
// fields).
func NoDesc() map[string]any {
	return map[string]any{"kind": "none", "pos": 0, "bit": 0, "side": "", "as": "", "if": 0}
}

// IfList converts path metadata interfaces.
func (n *Net) IfList(p combinator.Path) []any {
	out := []any{}
	for _, i := range p.Metadata.Interfaces {
		out = append(out, map[string]any{"as": n.C.asName(i.IA), "if": int(i.ID)})
	}
	return out
}

const maxSteps = 400

// walk moves a packet from router to router until it reaches a host or dies.
func (n *Net) walk(w *vt.Writer, a Arrival, j string) Outcome {
	slow := false
	for step := 0; step < maxSteps; step++ {
		evs, o := n.Step(a, j)
		for _, e := range evs {
			w.Emit(e)
		}
		if o.Slow && j != "scmp" {
			j = "scmp"
		} else if o.Slow {
			j = "scmp2"
		}
		slow = slow || o.Slow
		if o.Kind != "next" {
			o.Slow = slow // what arrives (if anything) is an answer of a slow path
			return o
		}
		a = o.Next
	}
	w.Emit(map[string]any{"ev": "stuck", "what": "packet still in flight after 400 router hops"})
	return Outcome{Kind: "end"}
}

// hostEvent logs what a host received.
func (n *Net) hostEvent(w *vt.Writer, o Outcome, j string) {
	w.Emit(map[string]any{"ev": "host", "j": j, "as": n.T.ASes[o.HostAS].Name,
		"addr": udpStr(o.HostAddr), "pkt": n.C.Proj(o.Raw, "none"), "m": ScmpProj(n.C, o.Raw)})
}

// Run executes one journey: request from a host in src to a host in dst along p, the reply of
// the destination host along the reversed path, and every SCMP answer back to its addressee.
func (n *Net) Run(w *vt.Writer, src, dst int, p combinator.Path, o JourneyOpts) {
	sh, dh := n.T.HostAddr(src, 1), n.T.HostAddr(dst, 2)
	sport, dport := uint16(40001), uint16(40002)
	var dpath snet.DataplanePath = p.SCIONPath
	if o.PT == "epic" {
		ep, err := snetpath.NewEPICDataplanePath(p.SCIONPath, p.Metadata.EpicAuths)
		if err != nil {
			vt.Fatal("epic path: %v", err)
		}
		dpath = ep
	}
	pay := make([]byte, 1+o.Rng.Intn(40))
	o.Rng.Read(pay)
	raw, err := Build(PktSpec{SrcIA: n.T.ASes[src].IA, DstIA: n.T.ASes[dst].IA, SrcHost: sh,
		DstHost: dh, SrcPort: sport, DstPort: dport, Path: dpath, L4: o.L4, Payload: pay,
		HBH: o.HBH, E2E: o.E2E, TC: uint8(o.Rng.Intn(256)), Flow: uint32(o.Rng.Intn(1 << 20)),
		Rng: o.Rng})
	if err != nil {
		// e.g. more than 64 hop fields: the combinator returned a path no host can put on the wire
		w.Emit(map[string]any{"ev": "skip", "what": "unsendable", "why": err.Error(),
			"src": n.T.ASes[src].Name, "dst": n.T.ASes[dst].Name, "nifs": len(p.Metadata.Interfaces)})
		return
	}
	if o.Mutate != nil {
		raw = o.Mutate(raw)
	}
	desc := o.Desc
	if desc == nil {
		desc = NoDesc()
	}
	shs := netip.AddrPortFrom(sh, sport).String()
	dhs := netip.AddrPortFrom(dh, dport).String()
	if o.L4 != "udp" { // SCMP informational messages go to the end-host port
		dhs = netip.AddrPortFrom(dh, 30041).String()
	}
	w.Emit(map[string]any{"ev": "reset", "id": o.ID, "mode": o.Mode, "topo": n.T.Name,
		"src": n.T.ASes[src].Name, "dst": n.T.ASes[dst].Name, "sh": shs, "dh": dhs,
		"ifs": n.IfList(p), "pt": o.PT, "l4": o.L4, "rev": o.Rev, "desc": desc,
		"pkt": n.C.Proj(raw, "full")})
	if len(p.Metadata.Interfaces) == 0 {
		return // src == dst: no router involved
	}
	first := n.T.End(src, uint16(p.Metadata.Interfaces[0].ID))
	a := Arrival{AS: src, R: first.Router, Scope: "int",
		Src: &net.UDPAddr{IP: sh.AsSlice(), Port: int(sport)}, Raw: raw}
	out := n.walk(w, a, "req")
	for hops := 0; out.Kind == "host" && hops < 4; hops++ {
		j := "req"
		if out.Slow {
			j = "scmp"
		}
		n.hostEvent(w, out, j)
		// the destination host answers a request it received intact
		if out.Slow || o.Rev == "none" || out.HostAS != dst || udpStr(out.HostAddr) != dhs ||
			hops > 0 {
			return
		}
		rep, ok := n.reply(w, out.Raw, o)
		if !ok {
			return
		}
		a = Arrival{AS: out.ByAS, R: out.ByR, Scope: "int",
			Src: &net.UDPAddr{IP: dh.AsSlice(), Port: int(dport)}, Raw: rep}
		out = n.walk(w, a, "rep")
		if out.Kind == "host" {
			n.hostEvent(w, out, "rep")
		}
		return
	}
}

// reply is the destination host: it reverses the path of the delivered packet with the real
// reversal code and answers with a UDP packet (addresses swapped).
func (n *Net) reply(w *vt.Writer, got []byte, o JourneyOpts) ([]byte, bool) {
	p := Parse(got)
	if p.Err != "" {
		w.Emit(map[string]any{"ev": "hosterr", "what": "undecodable delivered packet"})
		return nil, false
	}
	var dpath snet.DataplanePath
	how := o.Rev
	rawPath := got[p.PathOff : int(p.S.HdrLen)*4]
	switch {
	case o.Rev == "raw" && p.PT == "scion":
		var rp scion.Raw
		if err := rp.DecodeFromBytes(append([]byte(nil), rawPath...)); err != nil {
			w.Emit(map[string]any{"ev": "hosterr", "what": "raw decode: " + err.Error()})
			return nil, false
		}
		rev, err := rp.Reverse()
		if err != nil {
			w.Emit(map[string]any{"ev": "hosterr", "what": "raw reverse: " + err.Error()})
			return nil, false
		}
		dpath = snet.RawReplyPath{Path: rev.(spath.Path)}
	default:
		how = "pather"
		rp, err := snet.DefaultReplyPather{}.ReplyPath(snet.RawPath{PathType: p.S.PathType,
			Raw: append([]byte(nil), rawPath...)})
		if err != nil {
			w.Emit(map[string]any{"ev": "hosterr", "what": "reply path: " + err.Error()})
			return nil, false
		}
		dpath = rp
	}
	src, _ := netip.ParseAddr(p.DstHost)
	dst, _ := netip.ParseAddr(p.SrcHost)
	var sport, dport uint16 = 40002, 40001
	if p.L4 == slayers.L4UDP && p.L4Off+4 <= len(got) {
		dport = uint16(got[p.L4Off])<<8 | uint16(got[p.L4Off+1])
		sport = uint16(got[p.L4Off+2])<<8 | uint16(got[p.L4Off+3])
	}
	pay := make([]byte, 1+o.Rng.Intn(40))
	o.Rng.Read(pay)
	raw, err := Build(PktSpec{SrcIA: p.S.DstIA, DstIA: p.S.SrcIA, SrcHost: src, DstHost: dst,
		SrcPort: sport, DstPort: dport, Path: dpath, L4: "udp", Payload: pay,
		HBH: o.E2E, E2E: o.HBH, TC: uint8(o.Rng.Intn(256)), Flow: uint32(o.Rng.Intn(1 << 20)),
		Rng: o.Rng})
	if err != nil {
		w.Emit(map[string]any{"ev": "hosterr", "what": "build reply: " + err.Error()})
		return nil, false
	}
	w.Emit(map[string]any{"ev": "reply", "how": how, "pkt": n.C.Proj(raw, "full")})
	return raw, true
}

// RunOHP executes a one-hop-path journey over one link: the control service host of AS src (the
// harness plays it: it owns the AS key) sends a packet with a one-hop path to a host or service in
// the neighbour AS; the neighbour's router completes the path; the receiver reverses the completed
// path with the real code and answers.
func (n *Net) RunOHP(w *vt.Writer, id int, e End, svc bool, rng *rand.Rand) {
	src, dst := e.AS, e.PeerAS
	mac, err := scrypto.InitMac(n.C.Keys[src])
	if err != nil {
		vt.Fatal("mac: %v", err)
	}
	ohp, err := snetpath.NewOneHop(e.If, time.Now().Add(-time.Minute), 63, mac)
	if err != nil {
		vt.Fatal("ohp: %v", err)
	}
	sh, dh := n.T.HostAddr(src, 1), n.T.HostAddr(dst, 2)
	dhs := netip.AddrPortFrom(dh, 40002).String()
	pay := make([]byte, 1+rng.Intn(40))
	rng.Read(pay)
	spec := PktSpec{SrcIA: n.T.ASes[src].IA, DstIA: n.T.ASes[dst].IA, SrcHost: sh, DstHost: dh,
		SrcPort: 40001, DstPort: 40002, Path: ohp, L4: "udp", Payload: pay, HBH: id%2 == 0,
		TC: uint8(rng.Intn(256)), Flow: uint32(rng.Intn(1 << 20)), Rng: rng}
	if svc {
		spec.DstSVC = true
		dhs = fmt.Sprintf("10.%d.0.100:30252", dst+1)
	}
	raw, err := Build(spec)
	if err != nil {
		vt.Fatal("build ohp: %v", err)
	}
	ifs := []any{map[string]any{"as": n.T.ASes[src].Name, "if": int(e.If)},
		map[string]any{"as": n.T.ASes[dst].Name, "if": int(e.PeerIf)}}
	rev := "pather"
	if svc {
		rev = "none" // the service instance is not one of our hosts
	}
	w.Emit(map[string]any{"ev": "reset", "id": id, "mode": "ohp", "topo": n.T.Name,
		"src": n.T.ASes[src].Name, "dst": n.T.ASes[dst].Name,
		"sh": netip.AddrPortFrom(sh, 40001).String(), "dh": dhs, "ifs": ifs, "pt": "ohp", "l4": "udp",
		"rev": rev, "desc": NoDesc(), "pkt": n.C.Proj(raw, "full")})
	a := Arrival{AS: src, R: e.Router, Scope: "int",
		Src: &net.UDPAddr{IP: sh.AsSlice(), Port: 40001}, Raw: raw}
	out := n.walk(w, a, "req")
	if out.Kind != "host" {
		return
	}
	j := "req"
	if out.Slow {
		j = "scmp"
	}
	n.hostEvent(w, out, j)
	if out.Slow || rev == "none" || out.HostAS != dst || udpStr(out.HostAddr) != dhs {
		return
	}
	rep, ok := n.reply(w, out.Raw, JourneyOpts{Rev: "pather", Rng: rng})
	if !ok {
		return
	}
	out = n.walk(w, Arrival{AS: out.ByAS, R: out.ByR, Scope: "int",
		Src: &net.UDPAddr{IP: dh.AsSlice(), Port: 40002}, Raw: rep}, "rep")
	if out.Kind == "host" {
		n.hostEvent(w, out, "rep")
	}
}
