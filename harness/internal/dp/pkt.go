package dp

import (
	"encoding/binary"
	"fmt"
	"math/rand"
	"net/netip"
	"time"

	"github.com/gopacket/gopacket"

	"github.com/scionproto/scion/pkg/addr"
	"github.com/scionproto/scion/pkg/slayers"
	"github.com/scionproto/scion/pkg/slayers/path"
	"github.com/scionproto/scion/pkg/slayers/path/epic"
	"github.com/scionproto/scion/pkg/slayers/path/onehop"
	"github.com/scionproto/scion/pkg/slayers/path/scion"
	"github.com/scionproto/scion/pkg/snet"
)

// PktSpec is what an end host sends.
type PktSpec struct {
	SrcIA, DstIA     addr.IA
	SrcHost, DstHost netip.Addr
	DstSVC           bool // destination is the control service (SVC address) instead of DstHost
	SrcPort, DstPort uint16
	Path             snet.DataplanePath
	L4               string // "udp" | "trreq" (SCMP traceroute request) | "echo"
	Payload          []byte
	HBH, E2E         bool // add hop-by-hop / end-to-end extension headers with random options
	TC               uint8
	Flow             uint32
	Rng              *rand.Rand
}

func opts(rng *rand.Rand, n int) []byte {
	b := make([]byte, n)
	rng.Read(b)
	return b
}

// Build serializes the packet with slayers (reserved bits zero).
func Build(s PktSpec) ([]byte, error) {
	sc := &slayers.SCION{Version: 0, TrafficClass: s.TC, FlowID: s.Flow & 0xfffff,
		SrcIA: s.SrcIA, DstIA: s.DstIA}
	if err := sc.SetSrcAddr(addr.HostIP(s.SrcHost)); err != nil {
		return nil, err
	}
	dsth := addr.HostIP(s.DstHost)
	if s.DstSVC {
		dsth = addr.HostSVC(addr.SvcCS)
	}
	if err := sc.SetDstAddr(dsth); err != nil {
		return nil, err
	}
	if err := s.Path.SetPath(sc); err != nil {
		return nil, err
	}
	var ls []gopacket.SerializableLayer
	ls = append(ls, sc)
	var l4 slayers.L4ProtocolType
	switch s.L4 {
	case "udp":
		l4 = slayers.L4UDP
	default:
		l4 = slayers.L4SCMP
	}
	next := &sc.NextHdr
	if s.HBH {
		h := &slayers.HopByHopExtn{}
		h.Options = []*slayers.HopByHopOption{{OptType: 0xfd, OptData: opts(s.Rng, 1+s.Rng.Intn(9))}}
		*next = slayers.HopByHopClass
		next = &h.NextHdr
		ls = append(ls, h)
	}
	if s.E2E {
		e := &slayers.EndToEndExtn{}
		e.Options = []*slayers.EndToEndOption{{OptType: 0xfe, OptData: opts(s.Rng, 1+s.Rng.Intn(9))}}
		*next = slayers.End2EndClass
		next = &e.NextHdr
		ls = append(ls, e)
	}
	*next = l4
	switch s.L4 {
	case "udp":
		u := &slayers.UDP{SrcPort: s.SrcPort, DstPort: s.DstPort}
		u.SetNetworkLayerForChecksum(sc)
		ls = append(ls, u, gopacket.Payload(s.Payload))
	case "trreq":
		m := &slayers.SCMP{TypeCode: slayers.CreateSCMPTypeCode(slayers.SCMPTypeTracerouteRequest, 0)}
		m.SetNetworkLayerForChecksum(sc)
		ls = append(ls, m, &slayers.SCMPTraceroute{Identifier: s.SrcPort, Sequence: 7})
	case "echo":
		m := &slayers.SCMP{TypeCode: slayers.CreateSCMPTypeCode(slayers.SCMPTypeEchoRequest, 0)}
		m.SetNetworkLayerForChecksum(sc)
		ls = append(ls, m, &slayers.SCMPEcho{Identifier: s.SrcPort, SeqNumber: 7},
			gopacket.Payload(s.Payload))
	default:
		return nil, fmt.Errorf("unknown l4 %q", s.L4)
	}
	var out []byte
	for pass := 0; pass < 2; pass++ {
		buf := gopacket.NewSerializeBuffer()
		err := gopacket.SerializeLayers(buf, gopacket.SerializeOptions{FixLengths: true,
			ComputeChecksums: true}, ls...)
		if err != nil {
			return nil, err
		}
		out = append([]byte(nil), buf.Bytes()...)
		if _, isEpic := sc.Path.(*epic.Path); !isEpic {
			break
		}
		// EPIC HVFs cover PayloadLen, known only now: set the path again, serialize again
		if err := s.Path.SetPath(sc); err != nil {
			return nil, err
		}
	}
	return out, nil
}

// Parsed is the decoded view of a raw packet used for projections.
type Parsed struct {
	S       slayers.SCION
	PT      string // scion | epic | ohp | empty | other
	Dec     *scion.Decoded
	OHP     *onehop.Path
	MetaOff int // byte offset of the SCION path meta header (after the EPIC header, if any)
	PathOff int // byte offset of the path in the packet
	SrcHost string
	DstHost string
	Err     string
	L4      slayers.L4ProtocolType
	L4Off   int // offset of the L4 header
	RawLen  int
}

// Parse decodes the SCION header of raw; it uses slayers only as a decoder of observed bytes.
func Parse(raw []byte) *Parsed {
	p := &Parsed{RawLen: len(raw), PT: "other"}
	if err := p.S.DecodeFromBytes(raw, gopacket.NilDecodeFeedback); err != nil {
		p.Err = err.Error()
		return p
	}
	if a, err := p.S.SrcAddr(); err == nil {
		p.SrcHost = a.String()
	}
	if a, err := p.S.DstAddr(); err == nil {
		p.DstHost = a.String()
	}
	p.PathOff = slayers.CmnHdrLen + p.S.AddrHdrLen()
	p.MetaOff = p.PathOff
	var rawp *scion.Raw
	switch pp := p.S.Path.(type) {
	case *scion.Raw:
		p.PT = "scion"
		rawp = pp
	case *epic.Path:
		p.PT = "epic"
		rawp = pp.ScionPath
		p.MetaOff += epic.MetadataLen
	case *onehop.Path:
		p.PT = "ohp"
		p.OHP = pp
	default:
		if p.S.PathType == 0 {
			p.PT = "empty"
		}
	}
	if rawp != nil {
		d, err := rawp.ToDecoded()
		if err != nil {
			p.Err = err.Error()
			return p
		}
		p.Dec = d
	}
	// walk extension headers to find the L4 protocol
	off := int(p.S.HdrLen) * 4
	nh := p.S.NextHdr
	for (nh == slayers.HopByHopClass || nh == slayers.End2EndClass) && off+2 <= len(raw) {
		n := (int(raw[off+1]) + 1) * 4
		nh = slayers.L4ProtocolType(raw[off])
		off += n
	}
	p.L4, p.L4Off = nh, off
	return p
}

// Proj is the abstract projection of a packet shipped to TLC.
// Hop fields: mode "full" all of them, "win" only the window [ch-1, ch+2] the router can look at
// (hw = index of the first one), "none" none.
func (c *Control) Proj(raw []byte, mode string) map[string]any {
	p := Parse(raw)
	m := map[string]any{"src": c.asName(p.S.SrcIA), "dst": c.asName(p.S.DstIA), "sh": p.SrcHost,
		"dh": p.DstHost, "pt": p.PT, "len": len(raw), "mo": p.MetaOff, "l4": int(p.L4),
		"ci": 0, "ch": 0, "sl": []int{0, 0, 0}, "infos": []any{}, "hops": []any{}, "hw": 0}
	var infos []path.InfoField
	var hops []path.HopField
	switch {
	case p.Dec != nil:
		m["ci"], m["ch"] = int(p.Dec.PathMeta.CurrINF), int(p.Dec.PathMeta.CurrHF)
		m["sl"] = []int{int(p.Dec.PathMeta.SegLen[0]), int(p.Dec.PathMeta.SegLen[1]),
			int(p.Dec.PathMeta.SegLen[2])}
		infos, hops = p.Dec.InfoFields, p.Dec.HopFields
	case p.OHP != nil:
		infos = []path.InfoField{p.OHP.Info}
		hops = []path.HopField{p.OHP.FirstHop, p.OHP.SecondHop}
	}
	is := []any{}
	for _, i := range infos {
		is = append(is, map[string]any{"c": i.ConsDir, "p": i.Peer, "sid": int(i.SegID),
			"ts": int(i.Timestamp)})
	}
	m["infos"] = is
	if mode == "none" {
		return m
	}
	lo, hi := 0, len(hops)-1
	if mode == "win" && p.Dec != nil {
		lo, hi = max(0, int(p.Dec.PathMeta.CurrHF)-1), min(len(hops)-1, int(p.Dec.PathMeta.CurrHF)+2)
	}
	m["hw"] = lo
	hs := []any{}
	now := time.Now()
	seg := 0
	acc := 0
	for k, h := range hops {
		// info field of hop k
		if p.Dec != nil {
			for seg < 2 && k >= acc+int(p.Dec.PathMeta.SegLen[seg]) {
				acc += int(p.Dec.PathMeta.SegLen[seg])
				seg++
			}
		}
		var ts uint32
		if seg < len(infos) {
			ts = infos[seg].Timestamp
		}
		e := map[string]any{"in": int(h.ConsIngress), "eg": int(h.ConsEgress),
			"exp": int(h.ExpTime), "ia": h.IngressRouterAlert, "ea": h.EgressRouterAlert,
			"sig": int(binary.BigEndian.Uint16(h.Mac[:2])), "id": "?", "as": "?", "bc": -1,
			"ok": false,
			// abstraction of time: hop expired (scenarios keep >= 5 min distance from the boundary)
			"x": time.Unix(int64(ts), 0).Add(path.ExpTimeToDuration(h.ExpTime)).Before(now)}
		if id, ok := c.Lookup(h.ConsIngress, h.ConsEgress, h.ExpTime, h.Mac, ts); ok {
			e["id"], e["as"], e["bc"] = id.String(), c.T.ASes[id.AS].Name, int(id.BetaC)
			// abstraction function macValid: independent CMAC with the issuer's key over the
			// construction-time accumulator and the fields as they are in the packet now
			e["ok"] = HopMAC(c.Keys[id.AS], id.BetaC, ts, h.ExpTime, h.ConsIngress,
				h.ConsEgress) == h.Mac
		}
		if k >= lo && k <= hi {
			hs = append(hs, e)
		}
	}
	m["hops"] = hs
	return m
}

func (c *Control) asName(ia addr.IA) string {
	if i := c.T.ASByIA(ia); i >= 0 {
		return c.T.ASes[i].Name
	}
	return ia.String()
}

// Diff lists [offset, old, new] for every byte in which b differs from a (over the common
// prefix; a length difference is visible in the logged lengths).
func Diff(a, b []byte) []any {
	out := []any{}
	n := min(len(a), len(b))
	for i := 0; i < n; i++ {
		if a[i] != b[i] {
			out = append(out, []int{i, int(a[i]), int(b[i])})
		}
	}
	return out
}
