package dp

import (
	"context"
	"crypto"
	"crypto/ecdsa"
	"crypto/elliptic"
	crand "crypto/rand"
	"encoding/binary"
	"fmt"
	"hash"
	"io"
	"math/rand"
	"time"

	"github.com/scionproto/scion/control/beaconing"
	"github.com/scionproto/scion/control/ifstate"
	cryptopb "github.com/scionproto/scion/pkg/proto/crypto"
	"github.com/scionproto/scion/pkg/scrypto"
	"github.com/scionproto/scion/pkg/scrypto/cppki"
	"github.com/scionproto/scion/pkg/scrypto/signed"
	seg "github.com/scionproto/scion/pkg/segment"
	"github.com/scionproto/scion/pkg/segment/extensions/discovery"
	"github.com/scionproto/scion/router/control"
)

// fakeKey is a crypto.Signer that does not sign (signatures are C23/C24's business).
type fakeKey struct{ pub *ecdsa.PublicKey }

func (k fakeKey) Public() crypto.PublicKey { return k.pub }
func (k fakeKey) Sign(io.Reader, []byte, crypto.SignerOpts) ([]byte, error) {
	return []byte("not-a-signature"), nil
}

type fakeSigner struct{ key fakeKey }

func (s fakeSigner) Sign(_ context.Context, msg []byte, ad ...[]byte) (*cryptopb.SignedMessage,
	error) {
	n := 0
	for _, d := range ad {
		n += len(d)
	}
	return signed.Sign(signed.Header{SignatureAlgorithm: signed.ECDSAWithSHA256,
		AssociatedDataLength: n}, msg, s.key, ad...)
}
func (s fakeSigner) Validity() cppki.Validity {
	return cppki.Validity{NotBefore: time.Unix(0, 0), NotAfter: time.Now().Add(1000 * time.Hour)}
}

// SegRec is one terminated (registered) segment.
type SegRec struct {
	Idx  int
	Seg  *seg.PathSegment
	Core bool
	ASes []int // AS index of every entry
}

// HopID identifies a hop field the control plane has issued.
type HopID struct {
	Seg   int    // SegRec index
	K     int    // 1-based entry position in the segment
	Peer  uint16 // 0: the regular hop entry; else the peering interface of the peer entry
	AS    int    // issuing AS
	BetaC uint16 // accumulator value the issuing AS used to create the MAC (construction time)
	TS    uint32
}

func (h HopID) String() string {
	if h.Peer != 0 {
		return fmt.Sprintf("s%d.%dp%d", h.Seg, h.K, h.Peer)
	}
	return fmt.Sprintf("s%d.%d", h.Seg, h.K)
}

type hopKey struct {
	in, eg uint16
	exp    uint8
	mac    [6]byte
	ts     uint32
}

// Control is the control plane of a topology: per-AS keys, extenders, the registered segments.
type Control struct {
	T      *Topo
	Keys   [][]byte // derived forwarding keys (what router and extender get)
	Ext    []*beaconing.DefaultExtender
	Segs   []*SegRec
	hops   map[hopKey]HopID
	MaxLen int
	rng    *rand.Rand
	now    time.Time
	nbeac  int
	// ExpOf lets a scenario shorten the expiry of the hop fields of one AS (index -> ExpTime).
	ExpOf map[int]uint8
	// TsAge is how far in the past segment timestamps are.
	TsAge time.Duration
}

func NewControl(t *Topo, rng *rand.Rand, maxLen int) *Control {
	c := &Control{T: t, hops: map[hopKey]HopID{}, MaxLen: maxLen, rng: rng, now: time.Now(),
		ExpOf: map[int]uint8{}, TsAge: 10 * time.Minute}
	priv, err := ecdsa.GenerateKey(elliptic.P256(), crand.Reader)
	if err != nil {
		panic(err)
	}
	signer := fakeSigner{key: fakeKey{pub: &priv.PublicKey}}
	for i, a := range t.ASes {
		key := control.DeriveHFMacKey(a.Master)
		c.Keys = append(c.Keys, key)
		infos := map[uint16]ifstate.InterfaceInfo{}
		for _, e := range t.Ends(i) {
			infos[e.If] = ifstate.InterfaceInfo{ID: e.If, IA: t.ASes[e.PeerAS].IA,
				LinkType: e.LinkTo, RemoteID: e.PeerIf, MTU: 1472}
		}
		as := i
		c.Ext = append(c.Ext, &beaconing.DefaultExtender{
			IA: a.IA,
			SignerGen: beaconing.SignerGenFunc(func(context.Context) ([]beaconing.Signer, error) {
				return []beaconing.Signer{signer}, nil
			}),
			MAC: func() hash.Hash {
				m, err := scrypto.InitMac(key)
				if err != nil {
					panic(err)
				}
				return m
			},
			Intfs: ifstate.NewInterfaces(infos, ifstate.Config{}),
			MTU:   1472,
			MaxExpTime: func() uint8 {
				if e, ok := c.ExpOf[as]; ok {
					return e
				}
				return 63
			},
			StaticInfo:           func() *beaconing.StaticInfoCfg { return nil },
			DiscoveryInformation: func() *discovery.Extension { return nil },
			EPIC:                 true,
		})
	}
	return c
}

func cloneBeacon(b *seg.PathSegment) *seg.PathSegment {
	c, err := seg.BeaconFromPB(seg.PathSegmentToPB(b))
	if err != nil {
		panic(err)
	}
	return c
}

func (c *Control) peers(as int) []uint16 {
	var p []uint16
	for _, e := range c.T.Ends(as) {
		if e.LinkTo.String() == "peer" {
			p = append(p, e.If)
		}
	}
	return p
}

// Beacon runs origination, propagation and termination exhaustively (every loop-free beacon of at
// most MaxLen AS entries), with the real extender of every AS.
func (c *Control) Beacon() {
	ctx := context.Background()
	for o, a := range c.T.ASes {
		if !a.Core {
			continue
		}
		for _, e := range c.T.Ends(o) {
			lt := e.LinkTo.String()
			if lt != "core" && lt != "child" {
				continue
			}
			c.nbeac++
			ts := c.now.Add(-c.TsAge - time.Duration(c.nbeac)*time.Second)
			b, err := seg.CreateSegment(ts, uint16(c.rng.Intn(1<<16)))
			if err != nil {
				panic(err)
			}
			if err := c.Ext[o].Extend(ctx, b, 0, e.If, c.peers(o)); err != nil {
				panic(fmt.Sprintf("originate %s: %v", a.Name, err))
			}
			c.receive(ctx, b, []int{o}, e, lt == "core")
		}
	}
}

func (c *Control) receive(ctx context.Context, b *seg.PathSegment, visited []int, via End,
	core bool) {
	as := via.PeerAS
	for _, v := range visited {
		if v == as {
			return
		}
	}
	visited = append(append([]int(nil), visited...), as)
	// terminate and register
	t := cloneBeacon(b)
	if err := c.Ext[as].Extend(ctx, t, via.PeerIf, 0, c.peers(as)); err != nil {
		panic(fmt.Sprintf("terminate %s: %v", c.T.ASes[as].Name, err))
	}
	c.register(t, visited, core)
	if len(visited) >= c.MaxLen {
		return
	}
	want := "child"
	if core {
		want = "core"
	}
	for _, e := range c.T.Ends(as) {
		if e.LinkTo.String() != want {
			continue
		}
		p := cloneBeacon(b)
		if err := c.Ext[as].Extend(ctx, p, via.PeerIf, e.If, c.peers(as)); err != nil {
			panic(fmt.Sprintf("propagate %s: %v", c.T.ASes[as].Name, err))
		}
		c.receive(ctx, p, visited, e, core)
	}
}

func (c *Control) register(s *seg.PathSegment, ases []int, core bool) {
	r := &SegRec{Idx: len(c.Segs), Seg: s, Core: core, ASes: ases}
	c.Segs = append(c.Segs, r)
	// construction-time accumulators: a three-line fold over the extender's output
	beta := s.Info.SegmentID
	ts := uint32(s.Info.Timestamp.Unix())
	for k, e := range s.ASEntries {
		h := e.HopEntry.HopField
		c.hops[hopKey{h.ConsIngress, h.ConsEgress, h.ExpTime, h.MAC, ts}] =
			HopID{Seg: r.Idx, K: k + 1, AS: ases[k], BetaC: beta, TS: ts}
		beta ^= binary.BigEndian.Uint16(h.MAC[:2])
		for _, p := range e.PeerEntries {
			ph := p.HopField
			c.hops[hopKey{ph.ConsIngress, ph.ConsEgress, ph.ExpTime, ph.MAC, ts}] =
				HopID{Seg: r.Idx, K: k + 1, Peer: ph.ConsIngress, AS: ases[k], BetaC: beta, TS: ts}
		}
	}
}

// Lookup identifies a hop field (as it appears in a packet, with its info field's timestamp) among
// the hop fields the control plane has issued (interface ids are unique across the topology).
func (c *Control) Lookup(in, eg uint16, exp uint8, mac [6]byte, ts uint32) (HopID, bool) {
	h, ok := c.hops[hopKey{in, eg, exp, mac, ts}]
	return h, ok
}

// SegsFor returns (ups ending at src, all cores, downs ending at dst) as the path servers would.
func (c *Control) SegsFor(src, dst int) (ups, cores, downs []*seg.PathSegment) {
	for _, r := range c.Segs {
		last := r.ASes[len(r.ASes)-1]
		switch {
		case r.Core:
			cores = append(cores, r.Seg)
		default:
			if last == src {
				ups = append(ups, r.Seg)
			}
			if last == dst {
				downs = append(downs, r.Seg)
			}
		}
	}
	return
}
