package dp

import (
	"context"
	"crypto"
	"crypto/ecdsa"
	"crypto/elliptic"
	crand "crypto/rand"
	"encoding/binary"
	"fmt"
	"hash"
	"io"
	"math/rand"
	"runtime"
	"sync"
	"sync/atomic"
	"time"

	"google.golang.org/protobuf/proto"

	"github.com/scionproto/scion/control/beaconing"
	"github.com/scionproto/scion/control/ifstate"
	cryptopb "github.com/scionproto/scion/pkg/proto/crypto"
	"github.com/scionproto/scion/pkg/scrypto"
	"github.com/scionproto/scion/pkg/scrypto/cppki"
	seg "github.com/scionproto/scion/pkg/segment"
	"github.com/scionproto/scion/pkg/segment/extensions/discovery"
	"github.com/scionproto/scion/router/control"
)

// fakeKey is a crypto.Signer that does not sign (signatures are C23/C24's business).
type fakeKey struct{ pub *ecdsa.PublicKey }

func (k fakeKey) Public() crypto.PublicKey { return k.pub }
func (k fakeKey) Sign(io.Reader, []byte, crypto.SignerOpts) ([]byte, error) {
	return []byte("not-a-signature"), nil
}

type fakeSigner struct{ key fakeKey }

func (s fakeSigner) Sign(_ context.Context, msg []byte, _ ...[]byte) (*cryptopb.SignedMessage,
	error) {
	// the body must be extractable (beacons are cloned through protobuf); nothing is signed
	hb, err := proto.Marshal(&cryptopb.HeaderAndBody{Body: msg})
	if err != nil {
		return nil, err
	}
	return &cryptopb.SignedMessage{HeaderAndBody: hb, Signature: []byte("not-a-signature")}, nil
}

func (s fakeSigner) Validity() cppki.Validity {
	return cppki.Validity{NotBefore: time.Unix(0, 0), NotAfter: time.Now().Add(1000 * time.Hour)}
}

// yieldHash wraps the hash instances the harness hands to the extender (the MAC factory is an input
// of DefaultExtender): every operation yields the processor first.  For code that uses a hash
// instance from one goroutine at a time this changes nothing; it widens the window in which
// goroutines sharing an instance (or any other state around the MAC computation) interleave —
// schedule perturbation at a boundary the harness owns, not a change of the code under test.
type yieldHash struct {
	hash.Hash
	on *atomic.Bool
}

func (y yieldHash) pause() {
	if y.on.Load() {
		runtime.Gosched()
		time.Sleep(5 * time.Microsecond)
	}
}
func (y yieldHash) Write(b []byte) (int, error) { y.pause(); return y.Hash.Write(b) }
func (y yieldHash) Sum(b []byte) []byte         { y.pause(); return y.Hash.Sum(b) }
func (y yieldHash) Reset()                      { y.Hash.Reset(); y.pause() }

// SegRec is one terminated (registered) segment.
type SegRec struct {
	Idx  int
	Seg  *seg.PathSegment
	Core bool
	ASes []int // AS index of every entry
}

// HopID identifies a hop field the control plane has issued.
type HopID struct {
	Seg   int    // SegRec index
	K     int    // 1-based entry position in the segment
	Peer  uint16 // 0: the regular hop entry; else the peering interface of the peer entry
	AS    int    // issuing AS
	BetaC uint16 // accumulator value the issuing AS used to create the MAC (construction time)
	TS    uint32
}

func (h HopID) String() string {
	if h.Peer != 0 {
		return fmt.Sprintf("s%d.%dp%d", h.Seg, h.K, h.Peer)
	}
	return fmt.Sprintf("s%d.%d", h.Seg, h.K)
}

type hopKey struct {
	in, eg uint16
	exp    uint8
	mac    [6]byte
	ts     uint32
}

// Control is the control plane of a topology: per-AS keys, extenders, the registered segments.
type Control struct {
	T       *Topo
	Keys    [][]byte // derived forwarding keys (what router and extender get)
	Ext     []*beaconing.DefaultExtender
	Segs    []*SegRec
	hops    map[hopKey]HopID
	MaxLen  int
	rng     *rand.Rand
	peerIfs [][]uint16
	perturb atomic.Bool // concurrent beaconing: yield inside MAC computations
	Panics  []string    // panics of Extend during concurrent beaconing
	now     time.Time
	nbeac   int
	// ExpOf lets a scenario shorten the expiry of the hop fields of one AS (index -> ExpTime).
	ExpOf map[int]uint8
	// TsAge is how far in the past segment timestamps are.
	TsAge time.Duration
}

func NewControl(t *Topo, rng *rand.Rand, maxLen int) *Control {
	c := &Control{T: t, hops: map[hopKey]HopID{}, MaxLen: maxLen, rng: rng, now: time.Now(),
		ExpOf: map[int]uint8{}, TsAge: 10 * time.Minute}
	priv, err := ecdsa.GenerateKey(elliptic.P256(), crand.Reader)
	if err != nil {
		panic(err)
	}
	signer := fakeSigner{key: fakeKey{pub: &priv.PublicKey}}
	for i, a := range t.ASes {
		key := control.DeriveHFMacKey(a.Master)
		c.Keys = append(c.Keys, key)
		infos := map[uint16]ifstate.InterfaceInfo{}
		for _, e := range t.Ends(i) {
			infos[e.If] = ifstate.InterfaceInfo{ID: e.If, IA: t.ASes[e.PeerAS].IA,
				LinkType: e.LinkTo, RemoteID: e.PeerIf, MTU: 1472}
		}
		as := i
		c.Ext = append(c.Ext, &beaconing.DefaultExtender{
			IA: a.IA,
			SignerGen: beaconing.SignerGenFunc(func(context.Context) ([]beaconing.Signer, error) {
				return []beaconing.Signer{signer}, nil
			}),
			MAC: func() hash.Hash {
				m, err := scrypto.InitMac(key)
				if err != nil {
					panic(err)
				}
				return yieldHash{Hash: m, on: &c.perturb}
			},
			Intfs: ifstate.NewInterfaces(infos, ifstate.Config{}),
			MTU:   1472,
			MaxExpTime: func() uint8 {
				if e, ok := c.ExpOf[as]; ok {
					return e
				}
				return 63
			},
			StaticInfo:           func() *beaconing.StaticInfoCfg { return nil },
			DiscoveryInformation: func() *discovery.Extension { return nil },
			EPIC:                 true,
		})
	}
	return c
}

func cloneBeacon(b *seg.PathSegment) *seg.PathSegment {
	c, err := seg.BeaconFromPB(seg.PathSegmentToPB(b))
	if err != nil {
		panic(err)
	}
	return c
}

func (c *Control) peers(as int) []uint16 {
	if c.peerIfs == nil {
		c.peerIfs = make([][]uint16, len(c.T.ASes))
		for i := range c.T.ASes {
			c.peerIfs[i] = c.peersOf(i)
		}
	}
	return c.peerIfs[as]
}

func (c *Control) peersOf(as int) []uint16 {
	var p []uint16
	for _, e := range c.T.Ends(as) {
		if e.LinkTo.String() == "peer" {
			p = append(p, e.If)
		}
	}
	return p
}

// Beacon runs origination, propagation and termination exhaustively (every loop-free beacon of at
// most MaxLen AS entries), with the real extender of every AS.
func (c *Control) Beacon() {
	ctx := context.Background()
	for o, a := range c.T.ASes {
		if !a.Core {
			continue
		}
		for _, e := range c.T.Ends(o) {
			lt := e.LinkTo.String()
			if lt != "core" && lt != "child" {
				continue
			}
			c.nbeac++
			ts := c.now.Add(-c.TsAge - time.Duration(c.nbeac)*time.Second)
			b, err := seg.CreateSegment(ts, uint16(c.rng.Intn(1<<16)))
			if err != nil {
				panic(err)
			}
			if err := c.Ext[o].Extend(ctx, b, 0, e.If, c.peers(o)); err != nil {
				panic(fmt.Sprintf("originate %s: %v", a.Name, err))
			}
			c.receive(ctx, b, []int{o}, e, lt == "core")
		}
	}
}

func (c *Control) receive(ctx context.Context, b *seg.PathSegment, visited []int, via End,
	core bool) {
	as := via.PeerAS
	for _, v := range visited {
		if v == as {
			return
		}
	}
	visited = append(append([]int(nil), visited...), as)
	// terminate and register
	t := cloneBeacon(b)
	if err := c.Ext[as].Extend(ctx, t, via.PeerIf, 0, c.peers(as)); err != nil {
		panic(fmt.Sprintf("terminate %s: %v", c.T.ASes[as].Name, err))
	}
	c.register(t, visited, core)
	if len(visited) >= c.MaxLen {
		return
	}
	want := "child"
	if core {
		want = "core"
	}
	for _, e := range c.T.Ends(as) {
		if e.LinkTo.String() != want {
			continue
		}
		p := cloneBeacon(b)
		if err := c.Ext[as].Extend(ctx, p, via.PeerIf, e.If, c.peers(as)); err != nil {
			panic(fmt.Sprintf("propagate %s: %v", c.T.ASes[as].Name, err))
		}
		c.receive(ctx, p, visited, e, core)
	}
}

func (c *Control) register(s *seg.PathSegment, ases []int, core bool) {
	r := &SegRec{Idx: len(c.Segs), Seg: s, Core: core, ASes: ases}
	c.Segs = append(c.Segs, r)
	// construction-time accumulators: a three-line fold over the extender's output
	beta := s.Info.SegmentID
	ts := uint32(s.Info.Timestamp.Unix())
	for k, e := range s.ASEntries {
		h := e.HopEntry.HopField
		c.hops[hopKey{h.ConsIngress, h.ConsEgress, h.ExpTime, h.MAC, ts}] =
			HopID{Seg: r.Idx, K: k + 1, AS: ases[k], BetaC: beta, TS: ts}
		beta ^= binary.BigEndian.Uint16(h.MAC[:2])
		for _, p := range e.PeerEntries {
			ph := p.HopField
			c.hops[hopKey{ph.ConsIngress, ph.ConsEgress, ph.ExpTime, ph.MAC, ts}] =
				HopID{Seg: r.Idx, K: k + 1, Peer: ph.ConsIngress, AS: ases[k], BetaC: beta, TS: ts}
		}
	}
}

// Lookup identifies a hop field (as it appears in a packet, with its info field's timestamp) among
// the hop fields the control plane has issued (interface ids are unique across the topology).
func (c *Control) Lookup(in, eg uint16, exp uint8, mac [6]byte, ts uint32) (HopID, bool) {
	h, ok := c.hops[hopKey{in, eg, exp, mac, ts}]
	return h, ok
}

// SegsFor returns (ups ending at src, all cores, downs ending at dst) as the path servers would.
func (c *Control) SegsFor(src, dst int) (ups, cores, downs []*seg.PathSegment) {
	for _, r := range c.Segs {
		last := r.ASes[len(r.ASes)-1]
		switch {
		case r.Core:
			cores = append(cores, r.Seg)
		default:
			if last == src {
				ups = append(ups, r.Seg)
			}
			if last == dst {
				downs = append(downs, r.Seg)
			}
		}
	}
	return
}

// ctask is one Extend call of the concurrent beaconing.
type ctask struct {
	as       int
	b        *seg.PathSegment
	in, eg   uint16
	visited  []int
	next     End // propagation / origination: the link the beacon leaves through
	core     bool
	register bool
	failed   bool
}

// BeaconConcurrent produces the same beacons as Beacon, but the way the control service does:
// the Originator starts one goroutine per egress interface, the Propagator one per beacon and
// egress interface, the Writer registers terminated segments — all of them extend through the one
// DefaultExtender of the AS at the same time.  Every level of the beacon tree is extended
// concurrently (one goroutine per Extend call, released together); results are registered in a
// deterministic order.
//
// intervals > 1 overlaps that many beaconing intervals (Originator, Propagator and Writer are
// independent periodic tasks of the control service; beacons of different origins and ages are in
// the works at the same time).
func (c *Control) BeaconConcurrent(intervals int) {
	ctx := context.Background()
	c.peers(0) // fill the cache before the goroutines start
	c.perturb.Store(true)
	defer c.perturb.Store(false)
	var level []*ctask
	for iv := 0; iv < intervals; iv++ {
		level = append(level, c.originations()...)
	}
	for len(level) > 0 {
		var start atomic.Bool
		var wg sync.WaitGroup
		var pmu sync.Mutex
		for _, t := range level {
			wg.Add(1)
			go func(t *ctask) {
				defer wg.Done()
				defer func() {
					// a crash of the real extender is recorded as an event, never judged here
					if r := recover(); r != nil {
						pmu.Lock()
						c.Panics = append(c.Panics, fmt.Sprint(r))
						t.failed = true
						pmu.Unlock()
					}
				}()
				for !start.Load() {
					runtime.Gosched()
				}
				if err := c.Ext[t.as].Extend(ctx, t.b, t.in, t.eg, c.peers(t.as)); err != nil {
					panic(fmt.Sprintf("extend %s: %v", c.T.ASes[t.as].Name, err))
				}
			}(t)
		}
		start.Store(true)
		wg.Wait()
		level = c.nextLevel(level)
	}
}

func (c *Control) originations() []*ctask {
	var level []*ctask
	for o, a := range c.T.ASes {
		if !a.Core {
			continue
		}
		for _, e := range c.T.Ends(o) {
			lt := e.LinkTo.String()
			if lt != "core" && lt != "child" {
				continue
			}
			c.nbeac++
			ts := c.now.Add(-c.TsAge - time.Duration(c.nbeac)*time.Second)
			b, err := seg.CreateSegment(ts, uint16(c.rng.Intn(1<<16)))
			if err != nil {
				panic(err)
			}
			level = append(level, &ctask{as: o, b: b, in: 0, eg: e.If, visited: []int{o}, next: e,
				core: lt == "core"})
		}
	}
	return level
}

func (c *Control) nextLevel(level []*ctask) []*ctask {
	{
		var next []*ctask
		for _, t := range level {
			if t.failed {
				continue
			}
			if t.register {
				c.register(t.b, t.visited, t.core)
				continue
			}
			// the beacon arrives at the neighbour: terminate (register) and propagate further
			as := t.next.PeerAS
			seen := false
			for _, v := range t.visited {
				seen = seen || v == as
			}
			if seen {
				continue
			}
			visited := append(append([]int(nil), t.visited...), as)
			next = append(next, &ctask{as: as, b: cloneBeacon(t.b), in: t.next.PeerIf, eg: 0,
				visited: visited, core: t.core, register: true})
			if len(visited) >= c.MaxLen {
				continue
			}
			want := "child"
			if t.core {
				want = "core"
			}
			for _, e := range c.T.Ends(as) {
				if e.LinkTo.String() == want {
					next = append(next, &ctask{as: as, b: cloneBeacon(t.b), in: t.next.PeerIf,
						eg: e.If, visited: visited, next: e, core: t.core})
				}
			}
		}
		return next
	}
}

// ResetSegs forgets the registered segments (a new beaconing interval); the hop registry is kept.
func (c *Control) ResetSegs() { c.Segs = nil }
