------------------------------- MODULE BFDGen -------------------------------
(* C16 - scenario generator for the single-session histories of harness/cmd/bfdfsm.

   The alphabet of control packets handed to a real Session is defined HERE (one source for the
   checker and the driver): Alphabet[i] = <<state, your, my, mult, ver, multipoint, poll, expire>>
   with state 0..3 = AdminDown/Down/Init/Up, discriminators abstract (0 zero, 1 the session's own,
   2 its peer's, 3 other), expire = 1: the packet announces a short detection time and nothing is
   sent until it has expired.  A history is a sequence of alphabet indices; the model follows the
   session through it with BFDOps!Rfc so that the generator knows which abstract states a history
   visits (used for the coverage statistics printed at the end of a history).

   BFS (BFDGen.quick/thorough.cfg): prints every history of length MaxLen - a complete enumeration.
   Simulation (-simulate, BFDGen.sim.cfg): prints seeded random histories of length MaxLen.      *)
EXTENDS BFDOps, TLC

CONSTANT MaxLen

Alphabet ==
    << <<0, 1, 2, 3, 1, 0, 0, 0>>, <<0, 0, 2, 3, 1, 0, 0, 0>>, <<0, 1, 2, 1, 1, 0, 0, 1>>,
       <<1, 1, 2, 3, 1, 0, 0, 0>>, <<1, 0, 2, 3, 1, 0, 0, 0>>, <<1, 1, 2, 1, 1, 0, 0, 1>>,
       <<2, 1, 2, 3, 1, 0, 0, 0>>, <<2, 0, 2, 3, 1, 0, 0, 0>>, <<2, 1, 2, 1, 1, 0, 0, 1>>,
       <<3, 1, 2, 3, 1, 0, 0, 0>>, <<3, 0, 2, 3, 1, 0, 0, 0>>, <<3, 1, 2, 1, 1, 0, 0, 1>>,
       <<3, 1, 0, 3, 1, 0, 0, 0>>,      \* My Discriminator zero
       <<1, 1, 2, 0, 1, 0, 0, 0>>,      \* Detect Mult zero
       <<2, 1, 2, 3, 1, 1, 0, 0>>,      \* Multipoint
       <<3, 1, 2, 3, 0, 0, 0, 0>>,      \* version 0
       <<1, 1, 2, 3, 1, 0, 1, 0>>,      \* Poll (unsupported feature)
       <<2, 1, 3, 3, 1, 0, 0, 0>>,      \* a foreign My Discriminator
       <<3, 3, 2, 3, 1, 0, 0, 0>> >>    \* a Your Discriminator that is not the session's
ASSUME PrintT(<<"ALPHA", Alphabet>>)

VARIABLES st, rd, hist, seen
vars == <<st, rd, hist, seen>>

Pkt(a) == [ver |-> a[5], lenok |-> TRUE, mult |-> a[4], multipoint |-> a[6] = 1, my |-> a[3],
           your |-> a[2], state |-> StateName(a[1])]
Accepted(a) == ~RfcDiscard(Pkt(a)) /\ a[7] = 0

Init == st = "Down" /\ rd = 0 /\ hist = <<>> /\ seen = {}
Step(i) == LET a == Alphabet[i] IN
    /\ Len(hist) < MaxLen
    /\ hist' = Append(hist, i)
    /\ IF Accepted(a)
         THEN LET s1 == Rfc(st, StateName(a[1])) IN
              /\ st' = IF a[8] = 1 THEN Rfc(s1, "Timer") ELSE s1
              /\ rd' = IF a[8] = 1 THEN 0 ELSE a[3]
              /\ seen' = seen \cup {<<st, StateName(a[1])>>} \cup (IF a[8] = 1 THEN {<<s1, "Timer">>} ELSE {})
         ELSE UNCHANGED <<st, rd, seen>>
Next == \E i \in 1..Len(Alphabet) : Step(i)
Spec == Init /\ [][Next]_vars

\* "invariant" that emits the finished histories (always TRUE)
Emit == Len(hist) = MaxLen => PrintT(<<"SCN", hist>>)
=============================================================================
