INIT Init
NEXT Next
CONSTANTS
  Kinds <- GenKindsThorough
  NP = 2
  Fs = {41, 60, 100}
  MaxDeliver = 5
  Cap = 8
  Lossless = FALSE
CONSTRAINT Emit
CHECK_DEADLOCK FALSE
