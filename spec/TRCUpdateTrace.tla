--------------------------- MODULE TRCUpdateTrace ---------------------------
(* Trace specification for C32.  Every "case" line is an independent observation:
     hp, pred, next, sk   the abstract case (certificates as indices into the pool of the reset line;
                          sk[i] = kind of the signer info attached for pool certificate i)
     wire    1 iff DecodeSignedTRC of the CMS message succeeded and Verify(pred) returned nil
     direct  1 iff SignedTRC.Verify(pred) returned nil on the directly constructed value
             (-2 in wire / direct: the call panicked)
   Monitor (only-if): accepted => AcceptOK (TRCOps, written from the statement).               *)
EXTENDS TRCOps, TLC, Json

Trace == ndJsonDeserialize("trace.ndjson")

VARIABLES l, pool, nsens, nreg, nbase
vars == <<l, pool, nsens, nreg, nbase>>
R == Trace[l]

NoCert(i) == [cls |-> "nocert", subj |-> -i, iss |-> -i, sn |-> -i, isd |-> -1, nb |-> 0, na |-> 0, ver |-> 0]
Expand(p) == [p EXCEPT !.certs = [i \in 1..Len(p.certs) |-> IF p.certs[i] >= 1 /\ p.certs[i] <= Len(pool)
                                                         THEN pool[p.certs[i]] ELSE NoCert(i)]]
Sis(sk) == [i \in 1..Len(sk) |-> IF sk[i] = "none" \/ i > Len(pool) THEN [c |-> NoCert(i), kind |-> "none"]
                                 ELSE [c |-> pool[i], kind |-> sk[i]]]

Init == l = 1 /\ pool = <<>> /\ nsens = 0 /\ nreg = 0 /\ nbase = 0

Bad(key) == PrintT(<<"VERIF-BAD", l, key>>)

Case ==
    LET P == Expand(R.pred)
        N == Expand(R.next)
        S == Sis(R.sk)
        acc == R.wire = 1 \/ R.direct = 1
        rule == AcceptRule(R.hp, P, N, S)
        code == CodeAccept(R.hp, P, N, S, TRUE)
        kind == IF ~R.hp THEN "base" ELSE IF RegularOK(P, N, S) THEN "regular" ELSE "sensitive" IN
    /\ (R.wire = -2 \/ R.direct = -2) => Bad("verification-panics")
    /\ (acc /\ rule # "") => Bad((IF R.hp THEN "update" ELSE "base") \o "-accepted:" \o rule)
    /\ (R.wire = 1 /\ R.direct = 0) => Bad("decoded-accepted-but-direct-refused")
    /\ (acc # code) => PrintT(<<"VERIF-DRIFT", l, IF acc THEN "accepted-but-code-shape-refuses" ELSE "refused-but-code-shape-accepts">>)
    /\ nsens' = nsens + (IF acc /\ rule = "" /\ kind = "sensitive" THEN 1 ELSE 0)
    /\ nreg' = nreg + (IF acc /\ rule = "" /\ kind = "regular" THEN 1 ELSE 0)
    /\ nbase' = nbase + (IF acc /\ rule = "" /\ kind = "base" THEN 1 ELSE 0)
    /\ UNCHANGED pool

Step == /\ l <= Len(Trace)
        /\ l' = l + 1
        /\ CASE R.ev = "reset" -> pool' = R.pool /\ UNCHANGED <<nsens, nreg, nbase>>
             [] R.ev = "case" -> Case
             [] OTHER -> Bad("no-spec-action:" \o R.ev) /\ UNCHANGED <<pool, nsens, nreg, nbase>>

Done == /\ l = Len(Trace) + 1
        /\ PrintT(<<"VERIF-STAT", "accepted_sensitive", nsens>>)
        /\ PrintT(<<"VERIF-STAT", "accepted_regular", nreg>>)
        /\ PrintT(<<"VERIF-STAT", "accepted_base", nbase>>)
        /\ PrintT(<<"VERIF-DONE", Len(Trace)>>)
        /\ UNCHANGED vars

Next == Step \/ Done
Spec == Init /\ [][Next]_vars
=============================================================================
