--------------------------- MODULE RingBufTrace ---------------------------
(* Trace specification for C48: accepts an ndjson trace recorded from the real ring buffer iff it is
   a behaviour of the bounded FIFO described by RingBufOps.  Events are recorded by the verif hook
   while the ring's mutex is held (exact linearization order); `ret`/`vals` are the values the
   *caller* observed, `hret`/`st` what the hook saw inside the critical section.

   The spec is total: the first mismatch inside a reset-delimited trace prints
   <<"VERIF-BAD", line, key>> and the rest of that trace is skipped (failed = TRUE until the next
   reset), so later traces of the batch are still checked.                                      *)
EXTENDS RingBufOps, TLC, Json

Trace == ndJsonDeserialize("trace.ndjson")

VARIABLES q,        \* abstract queue contents
          cap, closed,
          waiting,  \* [caller -> "w" | "r" | "n"]
          failed,   \* a mismatch was reported in the current trace
          l         \* next line of Trace

vars == <<q, cap, closed, waiting, failed, l>>
R == Trace[l]
NCallers == 16
NoWait == [c \in 0..NCallers-1 |-> "n"]

Init == q = <<>> /\ cap = 1 /\ closed = FALSE /\ waiting = NoWait /\ failed = FALSE /\ l = 1

Bad(key) == /\ PrintT(<<"VERIF-BAD", l, key>>)
            /\ failed' = TRUE
            /\ UNCHANGED <<q, cap, closed, waiting>>

Take(s, n) == SubSeq(s, 1, n)
Drop(s, n) == SubSeq(s, n + 1, Len(s))

Reset == /\ q' = <<>> /\ cap' = R.cap /\ closed' = FALSE /\ waiting' = NoWait /\ failed' = FALSE

Wait(kind) ==
    LET o == IF kind = "w" THEN WriteOutcome(Len(q), cap, closed, R.len, TRUE)
                           ELSE ReadOutcome(Len(q), cap, closed, R.len, TRUE) IN
    IF o.kind # "wait" THEN Bad("wait" \o kind \o ":caller-sleeps-although-runnable")
    ELSE /\ waiting' = [waiting EXCEPT ![R.c] = kind]
         /\ UNCHANGED <<q, cap, closed, failed>>

Write ==
    LET o == WriteOutcome(Len(q), cap, closed, R.len, R.block) IN
    IF o.kind = "wait" THEN Bad("write:returned-instead-of-blocking")
    ELSE IF waiting[R.c] = "r" \/ (waiting[R.c] = "w" /\ ~R.block) THEN Bad("write:caller-state")
    ELSE IF R.ret # o.n THEN Bad("write:ret=" \o ToString(R.ret) \o ",want=" \o ToString(o.n) \o
                                 (IF closed THEN ",closed" ELSE ""))
    ELSE IF R.hret # R.ret THEN Bad("write:returned-value-differs-from-committed")
    ELSE LET nq == IF o.n > 0 THEN q \o Take(R.vals, o.n) ELSE q IN
         IF R.st.r # Len(nq) \/ R.st.w # cap - Len(nq) \/ R.st.closed # closed THEN Bad("write:counters")
         ELSE /\ q' = nq
              /\ waiting' = [waiting EXCEPT ![R.c] = "n"]
              /\ UNCHANGED <<cap, closed, failed>>

Read ==
    LET o == ReadOutcome(Len(q), cap, closed, R.len, R.block) IN
    IF o.kind = "wait" THEN Bad("read:returned-instead-of-blocking")
    ELSE IF waiting[R.c] = "w" \/ (waiting[R.c] = "r" /\ ~R.block) THEN Bad("read:caller-state")
    ELSE IF R.ret # o.n THEN Bad("read:ret=" \o ToString(R.ret) \o ",want=" \o ToString(o.n) \o
                                 (IF closed THEN ",closed" ELSE ""))
    ELSE IF R.hret # R.ret THEN Bad("read:returned-value-differs-from-committed")
    ELSE IF o.n > 0 /\ R.vals # Take(q, o.n) THEN Bad("read:values-not-fifo")
    ELSE LET nq == IF o.n > 0 THEN Drop(q, o.n) ELSE q IN
         IF R.st.r # Len(nq) \/ R.st.w # cap - Len(nq) \/ R.st.closed # closed THEN Bad("read:counters")
         ELSE /\ q' = nq
              /\ waiting' = [waiting EXCEPT ![R.c] = "n"]
              /\ UNCHANGED <<cap, closed, failed>>

Close == closed' = TRUE /\ UNCHANGED <<q, cap, waiting, failed>>

\* all callers that are not blocked have finished; the listed ones sleep on a condition variable
Quiescent ==
    IF \E i \in 1..Len(R.blocked) :
          LET c == R.blocked[i] IN
          waiting[c] = "n" \/ ~WaiterMayStayBlocked(waiting[c], Len(q), cap, closed)
      THEN Bad("quiescent:lost-wakeup")
      ELSE UNCHANGED <<q, cap, closed, waiting, failed>>

Step == /\ l <= Len(Trace)
        /\ l' = l + 1
        /\ IF R.ev = "reset" THEN Reset
           ELSE IF failed THEN UNCHANGED <<q, cap, closed, waiting, failed>>
           ELSE CASE R.ev = "write" -> Write
                  [] R.ev = "read" -> Read
                  [] R.ev = "waitw" -> Wait("w")
                  [] R.ev = "waitr" -> Wait("r")
                  [] R.ev = "close" -> Close
                  [] R.ev = "quiescent" -> Quiescent
                  [] OTHER -> Bad("no-spec-action:" \o R.ev)

Done == /\ l = Len(Trace) + 1
        /\ PrintT(<<"VERIF-DONE", Len(Trace)>>)
        /\ UNCHANGED vars

Next == Step \/ Done
Spec == Init /\ [][Next]_vars
=============================================================================
