----------------------- MODULE GatewayRoutingConcGen -----------------------
(* writer histories for the concurrent C42 driver: every update sequence of MaxOps operations *)
EXTENDS GatewayRoutingConc, Json
Emit == (nops = MaxOps) => PrintT(<<"SCN", ToJson([ops |-> wops])>>)
Setup(u) == PrintT(<<"LIST", "conc", ToJson([tables |-> ConcTables, pkts |-> ConcPkts])>>)
GenInit == Init /\ Setup(0)
=============================================================================
