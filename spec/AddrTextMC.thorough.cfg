SPECIFICATION Spec
CONSTANTS
  Fallback = TRUE
  Limbs <- LimbsThorough
  ISDs <- ISDsThorough
  Seps <- SepsAll
  TextSeps <- SepsText
  Alphabet <- AlphaThorough
  MaxLen = 6
INVARIANTS TypeOK RoundTrip Form Canonical Rejects
CHECK_DEADLOCK FALSE
