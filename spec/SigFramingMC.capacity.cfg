INIT Init
NEXT Next
CONSTANTS
  Kinds <- McKinds
  NP = 2
  Fs = {41}
  MaxDeliver = 0
  Cap = 3
  Lossless = TRUE
INVARIANTS NoSplice NoGarbage LosslessPrefix LosslessExact
CHECK_DEADLOCK FALSE
