SPECIFICATION Spec
CONSTANTS
  MaxOps = 3
  Cascade = TRUE
INVARIANTS Represents QueriesAgree
CHECK_DEADLOCK FALSE
