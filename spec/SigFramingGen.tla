--------------------------- MODULE SigFramingGen ---------------------------
(* C41 scenario generator: the SigFraming state machine with its delivery history; every state that
   used up the delivery budget is printed as one scenario <<"SCN", json>>:
   [F, lens, vers, w (packets written before each Read), sched (delivered frame numbers)].       *)
EXTENDS SigFraming, Json

Emit == (phase = "net" /\ ndel = MaxDeliver) =>
           PrintT(<<"SCN", ToJson([F |-> F, lens |-> lens, vers |-> vers,
                                   w |-> [i \in 1..Len(frames) |-> frames[i].w], sched |-> hist])>>)
GenKinds == {<<45, 4>>, <<90, 6>>}
GenKindsThorough == {<<20, 4>>, <<45, 4>>, <<90, 6>>, <<130, 4>>}
=============================================================================
