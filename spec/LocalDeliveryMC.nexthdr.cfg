SPECIFICATION Spec
CONSTANTS
  Variant = "nexthdr"
  RangeSet = "small"
INVARIANTS DeliveredToAllowedPort ServiceToRegisteredInstance
CHECK_DEADLOCK FALSE
