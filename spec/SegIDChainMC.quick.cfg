SPECIFICATION Spec
CONSTANT MaxN = 63
INVARIANTS InSync TypeOK
CHECK_DEADLOCK FALSE
