SPECIFICATION Spec
CONSTANTS
  Fallback = TRUE
  Limbs <- LimbsQuick
  ISDs <- ISDsQuick
  Seps <- SepsFew
  TextSeps <- SepsText
  Alphabet <- AlphaQuick
  MaxLen = 4
INVARIANTS TypeOK RoundTrip Form Canonical Rejects
CHECK_DEADLOCK FALSE
