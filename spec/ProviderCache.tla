---------------------------- MODULE ProviderCache ----------------------------
(* C34, TRC update during operation: a verifier with its chain cache (trust.Verifier.Cache: entries
   live at most MaxAge ticks) in front of the trust provider (FetchingProvider: no cache, decides on
   the database at every call), while the TRC S2 (root rotated, grace period Grace ticks) arrives.
   State: time, database content, cache content with its age.
     * every chain the provider hands out verifies against the active TRCs at that moment (Sound);
     * what the verifier accepts from its cache may be stale after S2 arrived, but never for longer
       than MaxAge (StaleBounded); NoStale is expected to FAIL and shows that window.              *)
EXTENDS Integers

CONSTANTS MaxAge, Grace, MaxTime

VARIABLES now,        \* ticks since the start
          s2at,       \* time at which S2 became the latest TRC in the database (-1: not yet; S2 valid from then)
          cache,      \* "none" | "old": the chain issued under the root of S1
          age,        \* ticks since the cache entry was made
          lastUse,    \* how the last verification got its chain: "none" | "provider" | "cache"
          lastOK      \* whether that chain verified against the active TRCs at that moment
vars == <<now, s2at, cache, age, lastUse, lastOK>>

\* the old chain verifies against S1; after S2 arrived only during S2's grace period
OldChainActive == s2at = -1 \/ now <= s2at + Grace

Init == now = 0 /\ s2at = -1 /\ cache = "none" /\ age = 0 /\ lastUse = "none" /\ lastOK = TRUE

Verify == /\ IF cache = "old"
               THEN /\ lastUse' = "cache" /\ lastOK' = OldChainActive /\ UNCHANGED <<cache, age>>
               ELSE /\ lastUse' = IF OldChainActive THEN "provider" ELSE "none"      \* provider refuses otherwise
                    /\ lastOK' = TRUE
                    /\ cache' = (IF OldChainActive THEN "old" ELSE "none")
                    /\ age' = 0
          /\ UNCHANGED <<now, s2at>>
Update == s2at = -1 /\ s2at' = now /\ lastUse' = "none" /\ lastOK' = TRUE /\ UNCHANGED <<now, cache, age>>
Tick == /\ now < MaxTime /\ now' = now + 1
        /\ IF cache = "old" /\ age + 1 >= MaxAge THEN cache' = "none" /\ age' = 0
           ELSE cache' = cache /\ age' = IF cache = "old" THEN age + 1 ELSE 0
        /\ lastUse' = "none" /\ lastOK' = TRUE /\ UNCHANGED s2at
Next == Verify \/ Update \/ Tick
Spec == Init /\ [][Next]_vars

Sound == lastUse = "provider" => lastOK
\* a stale acceptance is at most MaxAge after the end of the grace period
StaleBounded == (lastUse = "cache" /\ ~lastOK) => (s2at # -1 /\ now < s2at + Grace + MaxAge)
NoStale == lastUse = "cache" => lastOK
=============================================================================
