---------------------------- MODULE SegDBTrace ----------------------------
(* Trace specification for C27: replays an operation history recorded from the REAL sqlite-backed
   beacon DB / path-segment DB on the abstract store (SegDBOps.tla) and compares every result.
   The property is "behaves like the abstract store", so full conformance is the monitor; the only
   drift-only comparison is the exact hidden-path group list of a group-filtered path query (the
   statement does not fix it; the SQL join legitimately narrows it).

   One ndjson file holds many histories; {"ev":"reset","kind":"p"|"b","pool":[...]} starts a new one
   on an empty database and carries the segment pool (descriptors, see SegDBOps).              *)
EXTENDS SegDBOps, TLC, Json

Trace == ndJsonDeserialize("trace.ndjson")

VARIABLES store, nq,
          snap,     \* <<>> or <<store, nq>> at the begin of the open path-DB transaction
          rl,       \* line of the reset record of the current history (it carries the pool)
          failed, l
vars == <<store, nq, snap, rl, failed, l>>
R == Trace[l]
pool == Trace[rl].pool

Init == store = {} /\ nq = {} /\ snap = <<>> /\ rl = 1 /\ failed = FALSE /\ l = 1

Bad(key) == /\ PrintT(<<"VERIF-BAD", l, key>>)
            /\ failed' = TRUE
            /\ UNCHANGED <<store, nq, snap, rl>>

Keep == UNCHANGED <<store, nq, snap, rl, failed>>

Reset == /\ store' = {} /\ nq' = {} /\ snap' = <<>> /\ rl' = l /\ failed' = FALSE

ToSets(ss) == {Range(ss[i]) : i \in 1..Len(ss)}
ToTuples(ss) == {<<ss[i][1], ss[i][2]>> : i \in 1..Len(ss)}
S(n) == ToString(n)
Stat(ins, upd) == IF ins = 1 /\ upd = 0 THEN "ins" ELSE IF ins = 0 /\ upd = 1 THEN "upd"
                  ELSE IF ins = 0 /\ upd = 0 THEN "ign" ELSE "other"

-----------------------------------------------------------------------------
(* path DB *)
PIns ==
    LET want == InsertOutcome(store, pool, "p", R.p)
        got == Stat(R.ins, R.upd) IN
    IF R.err # 0 THEN
        (IF \E e \in store : FullIDCollision(pool[e.p], pool[R.p])
           THEN Bad("pins:error,full-id-equals-that-of-another-stored-segment")
           ELSE Bad("pins:error,want=" \o want))
    ELSE IF got # want THEN Bad("pins:stats=" \o got \o ",want=" \o want)
    ELSE /\ store' = PInsert(store, pool, R.p, R.type, Range(R.groups))
         /\ UNCHANGED <<nq, snap, rl, failed>>

PFilter == [ids |-> Range(R.f.ids), types |-> Range(R.f.types), groups |-> Range(R.f.groups),
            intfs |-> ToTuples(R.f.intfs), starts |-> Range(R.f.starts), ends |-> Range(R.f.ends)]

FilterShape(f) == (IF f.ids # {} THEN "i" ELSE "") \o (IF f.types # {} THEN "t" ELSE "") \o
                  (IF f.groups # {} THEN "g" ELSE "") \o (IF f.intfs # {} THEN "f" ELSE "") \o
                  (IF f.starts # {} THEN "s" ELSE "") \o (IF f.ends # {} THEN "e" ELSE "")

PGetEv ==
    LET f == PFilter
        want == PGet(store, pool, f)
        got == {<<R.res[i].p, R.res[i].type>> : i \in 1..Len(R.res)}
        entry(p) == CHOOSE e \in store : e.p = p
        sh == FilterShape(f) IN
    IF R.err # 0 THEN Bad("pget:error")
    ELSE IF \E x \in got : x \notin want THEN
        (IF \E x \in got : x[1] = 0 \/ \A e \in store : e.p # x[1]
           THEN Bad("pget[" \o sh \o "]:returns-segment-version-not-stored")
           ELSE Bad("pget[" \o sh \o "]:returns-non-matching-entry"))
    ELSE IF \E x \in want : x \notin got THEN Bad("pget[" \o sh \o "]:misses-matching-entry")
    ELSE IF Len(R.res) # Cardinality(got) THEN Bad("pget[" \o sh \o "]:duplicate-result")
    ELSE IF \E i \in 1..Len(R.res) :
              LET g == Range(R.res[i].groups) sg == entry(R.res[i].p).groups IN
              \/ ~(g \subseteq sg)
              \/ Cardinality(g) # Len(R.res[i].groups)
              \/ (f.groups = {} /\ g # sg)
              \/ (f.groups # {} /\ g \cap f.groups = {})
         THEN Bad("pget[" \o sh \o "]:groups")
    ELSE /\ (\A i \in 1..Len(R.res) :
               (f.groups # {} /\ Range(R.res[i].groups) # entry(R.res[i].p).groups \cap f.groups)
                  => PrintT(<<"VERIF-DRIFT", l, "pget:group-list-not-narrowed-to-filter">>))
         /\ Keep

PDel == IF R.err # 0 THEN Bad(R.ev \o ":error")
        ELSE /\ store' = DeletePrefix(store, pool, R.pre)
             /\ UNCHANGED <<nq, snap, rl, failed>>

ExpEv(tag) ==
    LET ex == Expired(store, pool, R.now) IN
    IF R.err # 0 THEN Bad(tag \o ":error")
    ELSE IF R.ret # Cardinality(ex) THEN
        Bad(tag \o ":deleted=" \o S(R.ret) \o ",expired=" \o S(Cardinality(ex)) \o
            (IF \E e \in store : pool[e.p].exp = R.now THEN ",boundary" ELSE ""))
    ELSE /\ store' = store \ ex
         /\ UNCHANGED <<nq, snap, rl, failed>>

NQIns ==
    LET acc == NQAccepts(nq, R.src, R.dst, R.t) IN
    IF R.err # 0 THEN Bad("nqins:error")
    ELSE IF R.ret # acc THEN
        Bad("nqins:ret=" \o S(R.ret) \o (IF NQStored(nq, R.src, R.dst) = {} THEN ",absent"
              ELSE IF \E x \in NQStored(nq, R.src, R.dst) : x.t = R.t THEN ",equal"
              ELSE IF acc THEN ",newer" ELSE ",older"))
    ELSE /\ nq' = NQInsert(nq, R.src, R.dst, R.t)
         /\ UNCHANGED <<store, snap, rl, failed>>

NQGet ==
    LET st == NQStored(nq, R.src, R.dst) IN
    IF R.err # 0 THEN Bad("nqget:error")
    ELSE IF R.has # (st # {}) THEN Bad("nqget:presence")
    ELSE IF R.has /\ \E x \in st : x.t # R.t THEN
        Bad("nqget:time-" \o (IF \E x \in st : R.t < x.t THEN "decreased" ELSE "not-stored"))
    ELSE Keep

-----------------------------------------------------------------------------
(* path DB transactions: operations between txb and txc/txr go through the transaction and see its own
   writes; a rollback must leave the store (and the next-query times) as they were at txb *)
TxEv ==
    IF R.err # 0 THEN Bad(R.ev \o ":error")
    ELSE CASE R.ev = "txb" -> IF snap # <<>> THEN Bad("txb:harness-nested-transaction")
                              ELSE snap' = <<store, nq>> /\ UNCHANGED <<store, nq, rl, failed>>
           [] R.ev = "txc" -> IF snap = <<>> THEN Bad("txc:harness-no-transaction")
                              ELSE snap' = <<>> /\ UNCHANGED <<store, nq, rl, failed>>
           [] R.ev = "txr" -> IF snap = <<>> THEN Bad("txr:harness-no-transaction")
                              ELSE /\ store' = snap[1] /\ nq' = snap[2] /\ snap' = <<>>
                                   /\ UNCHANGED <<rl, failed>>

-----------------------------------------------------------------------------
(* beacon DB *)
BIns ==
    LET want == InsertOutcome(store, pool, "b", R.p)
        got == Stat(R.ins, R.upd) IN
    IF R.err # 0 THEN
        (IF \E e \in store : FullIDCollision(pool[e.p], pool[R.p])
           THEN Bad("bins:error,full-id-equals-that-of-another-stored-segment")
           ELSE Bad("bins:error,want=" \o want))
    ELSE IF got # want \/ R.flt # 0 THEN Bad("bins:stats=" \o got \o ",want=" \o want)
    ELSE /\ store' = BInsert(store, pool, R.p, R.inIf, Range(R.usage))
         /\ UNCHANGED <<nq, snap, rl, failed>>

AsEntry(x) == [p |-> x.p, types |-> {}, groups |-> {}, inIf |-> x.inIf, usage |-> Range(x.usage)]

BFilter == [ids |-> Range(R.f.ids), starts |-> Range(R.f.starts), inIfs |-> Range(R.f.inIfs),
            usages |-> ToSets(R.f.usages), hasValid |-> R.f.hasValid, valid |-> R.f.valid]

BShape(f) == (IF f.ids # {} THEN "i" ELSE "") \o (IF f.starts # {} THEN "s" ELSE "") \o
             (IF f.inIfs # {} THEN "f" ELSE "") \o (IF f.usages # {} THEN "u" ELSE "") \o
             (IF f.hasValid THEN "v" ELSE "")

BGetEv ==
    LET f == BFilter
        want == BGet(store, pool, f)
        got == {AsEntry(R.res[i]) : i \in 1..Len(R.res)}
        sh == BShape(f) IN
    IF R.err # 0 THEN Bad("bget:error")
    ELSE IF \E x \in got : x \notin store THEN Bad("bget[" \o sh \o "]:returns-entry-not-stored")
    ELSE IF \E x \in got : x \notin want THEN
        Bad("bget[" \o sh \o "]:returns-non-matching-entry" \o
            (IF f.hasValid /\ \E x \in got : pool[x.p].ts = f.valid \/ pool[x.p].exp = f.valid
               THEN ",boundary" ELSE ""))
    ELSE IF \E x \in want : x \notin got THEN
        Bad("bget[" \o sh \o "]:misses-matching-entry" \o
            (IF f.hasValid /\ \E x \in want \ got : pool[x.p].ts = f.valid \/ pool[x.p].exp = f.valid
               THEN ",boundary" ELSE ""))
    ELSE IF Len(R.res) # Cardinality(got) THEN Bad("bget[" \o sh \o "]:duplicate-result")
    ELSE Keep

BCand ==
    LET res == [i \in 1..Len(R.res) |->
                  LET m == {e \in store : e.p = R.res[i].p /\ e.inIf = R.res[i].inIf} IN
                  IF m = {} THEN [p |-> R.res[i].p, types |-> {}, groups |-> {},
                                  inIf |-> R.res[i].inIf, usage |-> {-1}]
                  ELSE CHOOSE e \in m : TRUE]
        c == BCandidates(store, pool, Range(R.usage), R.src) IN
    IF R.err # 0 THEN Bad("bcand:error")
    ELSE IF ~(Range(res) \subseteq store) THEN Bad("bcand:returns-entry-not-stored")
    ELSE IF ~(Range(res) \subseteq c) THEN
        Bad("bcand:returns-non-candidate" \o (IF R.src # 0 THEN ",src" ELSE ""))
    ELSE IF Cardinality(Range(res)) # Len(res) THEN Bad("bcand:duplicate-result")
    ELSE IF Len(res) # MinI(R.n, Cardinality(c)) THEN
        Bad("bcand:count=" \o (IF Len(res) < MinI(R.n, Cardinality(c)) THEN "too-few" ELSE "too-many"))
    ELSE IF ~CandidatesOK(res, store, pool, R.n, Range(R.usage), R.src) THEN Bad("bcand:not-shortest-first")
    ELSE Keep

BSrc ==
    IF R.err # 0 THEN Bad("bsrc:error")
    ELSE IF Range(R.res) # Sources(store, pool) THEN Bad("bsrc:set-differs")
    ELSE IF Cardinality(Range(R.res)) # Len(R.res) THEN Bad("bsrc:duplicate-result")
    ELSE Keep

-----------------------------------------------------------------------------
Step == /\ l <= Len(Trace)
        /\ l' = l + 1
        /\ IF R.ev = "reset" THEN Reset
           ELSE IF failed THEN Keep
           ELSE CASE R.ev = "pins" -> PIns
                  [] R.ev = "pget" -> PGetEv
                  [] R.ev = "pdel" -> PDel
                  [] R.ev = "pexp" -> ExpEv("pexp")
                  [] R.ev = "nqins" -> NQIns
                  [] R.ev = "nqget" -> NQGet
                  [] R.ev \in {"txb", "txc", "txr"} -> TxEv
                  [] R.ev = "bins" -> BIns
                  [] R.ev = "bget" -> BGetEv
                  [] R.ev = "bcand" -> BCand
                  [] R.ev = "bsrc" -> BSrc
                  [] R.ev = "bdel" -> PDel
                  [] R.ev = "bexp" -> ExpEv("bexp")
                  [] OTHER -> Bad("no-spec-action:" \o R.ev)

Done == /\ l = Len(Trace) + 1
        /\ PrintT(<<"VERIF-DONE", Len(Trace)>>)
        /\ UNCHANGED vars

Next == Step \/ Done
Spec == Init /\ [][Next]_vars
=============================================================================
