----------------------------- MODULE RouterConfig -----------------------------
(* How configuration values travel through the router while it is being configured, in every order
   of the configuration calls (router/connector.go, router/dataplane.go,
   router/underlayproviders/udpip, router/control/conf.go).

   Buffer sizes (C17): router config -> Connector/RunConfig -> arguments of the provider factory
   (called at construction for "udpip", and lazily by AddExternalInterface / AddNextHop for a
   provider named by a link and not yet instantiated) -> provider fields -> conn.Config of every
   Open (internal, external, sibling link).  SwapSites is the set of factory call sites that pass
   (send, receive) where the factory takes (receive, send): {} is the intended design,
   {"construct","external","nexthop"} the code before the repair.

   Dispatched port range (C11): topology value, optionally overridden by the router configuration
   in Connector.SetPortRange -> dataPlane -> provider (SetDispatchPorts) -> internal link, which
   takes a copy when it is created.  Propagate selects the design:
     "full"      SetPortRange reaches the provider and an already existing internal link
     "provider"  SetPortRange reaches the provider only (a link created earlier keeps old values)
     "none"      SetPortRange stops in the data plane (the code before the repair)
   Invariant at Run: the range in force at the internal link is the configured one, and the
   redirect port is 30041 — whatever the order.

   With Emit the complete configuration orders are printed ("ORD|step,step,...") for the driver. *)
EXTENDS RouterConfigOps, FiniteSets, TLC

CONSTANTS Steps,       \* configuration steps besides "ia", e.g. {"key","internal","ext","hop","svc","range"}
          OtherProv,   \* subset of {"ext","hop"}: links that name a second provider
          SwapSites, Propagate, Emit

Cfg == [rcv |-> "R", snd |-> "S"]                   \* symbolic, distinct
TopoR == <<"lo", "hi">>                              \* symbolic configured range
Unset == <<"0", "0">>
NoRedirect == "0"
NoLink == [range |-> <<"-", "-">>, redirect |-> "-"]   \* no internal link yet

VARIABLES done,      \* set of steps performed
          hist,      \* sequence of steps (only when Emit)
          prov,      \* provider name -> [rcv, snd] fields   (domain = instantiated providers)
          opens,     \* set of [kind, rcv, snd]
          dpRange,   \* range stored in the data plane
          pvRange,   \* [range, redirect] of the udpip provider
          ilRange,   \* [range, redirect] of the internal link, or NoLink
          running
vars == <<done, hist, prov, opens, dpRange, pvRange, ilRange, running>>

Factory(site) == IF site \in SwapSites THEN [rcv |-> Cfg.snd, snd |-> Cfg.rcv] ELSE [rcv |-> Cfg.rcv, snd |-> Cfg.snd]

Init == /\ done = {} /\ hist = <<>> /\ running = FALSE
        /\ prov = [p \in {"udpip"} |-> Factory("construct")]     \* makeDataPlane
        /\ opens = {}
        /\ dpRange = Unset /\ pvRange = [range |-> Unset, redirect |-> NoRedirect] /\ ilRange = NoLink

Open(kind, p, pr) == opens' = opens \cup {[kind |-> kind, rcv |-> pr[p].rcv, snd |-> pr[p].snd]}

\* a link step on provider p, instantiating it through `site` if needed
LinkStep(kind, p, site) ==
    LET pr == IF p \in DOMAIN prov THEN prov ELSE [q \in DOMAIN prov \cup {p} |-> IF q = p THEN Factory(site) ELSE prov[q]]
    IN prov' = pr /\ Open(kind, p, pr)

Do(s) ==
    /\ ~running /\ s \notin done /\ ("ia" \in done \/ s = "ia")
    /\ done' = done \cup {s}
    /\ hist' = IF Emit THEN Append(hist, s) ELSE hist
    /\ UNCHANGED running
    /\ CASE s = "internal" -> /\ LinkStep("internal", "udpip", "construct")
                              /\ ilRange' = pvRange                         \* NewInternalLink copies
                              /\ UNCHANGED <<dpRange, pvRange>>
         [] s = "ext" -> /\ LinkStep("external", IF "ext" \in OtherProv THEN "other" ELSE "udpip", "external")
                         /\ UNCHANGED <<dpRange, pvRange, ilRange>>
         [] s = "hop" -> /\ LinkStep("sibling", IF "hop" \in OtherProv THEN "other" ELSE "udpip", "nexthop")
                         /\ UNCHANGED <<dpRange, pvRange, ilRange>>
         [] s = "range" -> /\ dpRange' = TopoR
                           /\ LET v == [range |-> TopoR, redirect |-> "30041"] IN
                              /\ pvRange' = IF Propagate \in {"full", "provider"} THEN v ELSE pvRange
                              /\ ilRange' = IF Propagate = "full" /\ ilRange # NoLink THEN v ELSE ilRange
                           /\ UNCHANGED <<prov, opens>>
         [] OTHER -> UNCHANGED <<prov, opens, dpRange, pvRange, ilRange>>

Run == /\ ~running /\ done = Steps \cup {"ia"}
       /\ running' = TRUE
       /\ Emit => PrintT("ORD|" \o hist[1] \o "," \o hist[2] \o "," \o hist[3] \o "," \o hist[4] \o "," \o
                         hist[5] \o "," \o hist[6] \o "," \o hist[7])
       /\ UNCHANGED <<done, hist, prov, opens, dpRange, pvRange, ilRange>>

Next == (\E s \in Steps \cup {"ia"} : Do(s)) \/ Run
Spec == Init /\ [][Next]_vars

-----------------------------------------------------------------------------
\* C17: every socket is opened with (receive, send) as configured
BufferSizesReach == \A o \in opens : ConnOK(Cfg, o)
\* C11 (ordering): once configured, the internal link applies the configured range and port 30041
RangeInForce == (running /\ "range" \in Steps /\ ilRange # NoLink) =>
                    ilRange = [range |-> TopoR, redirect |-> "30041"]
\* every link kind was opened by the time the router runs (vacuity guard)
AllOpened == running => {o.kind : o \in opens} =
                            {k \in {"internal", "external", "sibling"} :
                               (k = "internal" /\ "internal" \in Steps) \/ (k = "external" /\ "ext" \in Steps)
                               \/ (k = "sibling" /\ "hop" \in Steps)}
=============================================================================
