INIT Init
NEXT Next
CONSTANTS
  Kinds <- McKinds
  NP = 3
  Fs = {41, 60, 100}
  MaxDeliver = 6
  Cap = 8
  Lossless = FALSE
INVARIANTS NoSplice NoGarbage FramesTile ListShape
VIEW McView
CHECK_DEADLOCK FALSE
