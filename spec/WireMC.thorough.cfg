SPECIFICATION Spec
CONSTANTS
  Thorough = TRUE
INVARIANTS TypeOK Injective LengthOK TruncationsRejected
CHECK_DEADLOCK FALSE
