SPECIFICATION Spec
CONSTANTS
  CoreCfg = "two"
  MaxStore = 5
  MaxDead = 1
  MaxRev = 1
INVARIANTS Sound LocalEmpty Sufficient
CHECK_DEADLOCK FALSE
