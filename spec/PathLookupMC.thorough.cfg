SPECIFICATION Spec
CONSTANTS
  CoreCfg = "two"
  MaxStore = 4
  MaxDead = 1
  MaxRev = 1
INVARIANTS Sound LocalEmpty Sufficient
CHECK_DEADLOCK FALSE
