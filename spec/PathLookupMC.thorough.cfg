SPECIFICATION Spec
CONSTANTS
  CoreCfg = "two"
  MaxStore = 4
  MaxDead = 1
  MaxRev = 1
  Contract = TRUE
  MaxBad = 0
  MaxExtra = 0
INVARIANTS Sound LocalEmpty Sufficient OnlyVerified
CHECK_DEADLOCK FALSE
