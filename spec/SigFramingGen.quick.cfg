INIT Init
NEXT Next
CONSTANTS
  Kinds <- GenKinds
  NP = 2
  Fs = {41, 60}
  MaxDeliver = 4
  Cap = 8
  Lossless = FALSE
CONSTRAINT Emit
CHECK_DEADLOCK FALSE
