SPECIFICATION Spec
CONSTANTS
  TcCode = FALSE
  Fills = {0, 90, 165, 255}
INVARIANTS TypeOK Exact
CHECK_DEADLOCK FALSE
