SPECIFICATION Spec
CONSTANTS
  TcCode = FALSE
  PathKinds = {"empty", "onehop", "scion1", "scion2", "scion3", "epic2"}
  Fills = {0, 90, 165, 255}
INVARIANTS TypeOK Exact
CHECK_DEADLOCK FALSE
