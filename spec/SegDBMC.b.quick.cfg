SPECIFICATION Spec
CONSTANTS
  Kind = "b"
  MaxOps = 3
  Gen = FALSE
  Tx = FALSE
  Alphabet = "large"
VIEW AbstractView
INVARIANTS IsMap QuerySound CandidatesSound NQUnique
PROPERTIES StepProps
CHECK_DEADLOCK FALSE
