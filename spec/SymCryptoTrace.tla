-------------------------- MODULE SymCryptoTrace --------------------------
(* Trace specification for C38.  The driver signs with the real signed.Sign, presents untouched and
   touched variants to the real signed.Verify, and logs identities (small integers; equal id <=> equal
   bytes, computed by hashing) instead of bytes:

     reset                                   new trace: forget all signatures and messages
     sign   ok key raw ad hdr body sig       Sign(hdr, body, key, ad...) returned message `raw` with
                                             signature `sig`; `ad` identifies the concatenation
     forge  how key raw ad sig               the driver itself produced `sig` with the private key of
                                             `key` over message `raw` and data `ad` (bypassing Sign)
     verify mut raw sig ad key keyKind algo accepted retHdr retBody
                                             Verify(<raw, sig>, pub(key), ad...) and what it returned;
                                             algo is the algorithm the presented header claims

   Monitor: accepted <=> MayVerify(term of sig, key, raw, ad, algo, keyKind); accepted => the returned
   header and body are the ones given to Sign for `raw`.  Verification attempts are independent
   cases (no latch): each bad one prints its own key ("msg" = encoded header and body).          *)
EXTENDS SymCryptoOps, TLC, Json

Trace == ndJsonDeserialize("trace.ndjson")

VARIABLES sigs,     \* signature id -> [key, msg, ad]   (signing operations of the current trace)
          msgs,     \* message id -> [hdr, body]        (what Sign was given)
          failed, l, nacc, drifted
vars == <<sigs, msgs, failed, l, nacc, drifted>>
R == Trace[l]

Init == sigs = <<>> /\ msgs = <<>> /\ failed = FALSE /\ l = 1 /\ nacc = 0 /\ drifted = {}

Bad(key) == PrintT(<<"VERIF-BAD", l, key>>)
Drift(key) == /\ drifted' = drifted \cup {key}
              /\ key \notin drifted => PrintT(<<"VERIF-DRIFT", l, key>>)

Put(f, k, v) == [x \in DOMAIN f \cup {k} |-> IF x = k THEN v ELSE f[x]]

Reset == sigs' = <<>> /\ msgs' = <<>> /\ failed' = FALSE /\ UNCHANGED <<nacc, drifted>>

Sign ==
    IF ~R.ok THEN UNCHANGED <<sigs, msgs, failed, nacc, drifted>>
    ELSE IF R.raw \in DOMAIN msgs /\ msgs[R.raw] # [hdr |-> R.hdr, body |-> R.body]
      THEN /\ Bad("sign:one-encoding-for-two-messages")
           /\ failed' = TRUE /\ UNCHANGED <<sigs, msgs, nacc, drifted>>
    ELSE /\ sigs' = Put(sigs, R.sig, [key |-> R.key, msg |-> R.raw, ad |-> R.ad])
         /\ msgs' = Put(msgs, R.raw, [hdr |-> R.hdr, body |-> R.body])
         /\ UNCHANGED <<failed, nacc>>
         /\ IF ~AlgoConsistent(R.algo, R.keyKind) THEN Drift("sign-accepts-algo-vs-key")
            ELSE UNCHANGED drifted

\* a signature made with the private key outside Sign: it is a signature over (raw, ad) by that key
Forge == /\ sigs' = Put(sigs, R.sig, [key |-> R.key, msg |-> R.raw, ad |-> R.ad])
         /\ UNCHANGED <<msgs, failed, nacc, drifted>>

Verify ==
    LET term == IF R.sig \in DOMAIN sigs THEN sigs[R.sig] ELSE NoSig
        may  == MayVerify(term, R.key, R.raw, R.ad, R.algo, R.keyKind)
    IN
    /\ UNCHANGED <<sigs, msgs, failed>>
    /\ nacc' = nacc + (IF R.accepted THEN 1 ELSE 0)
    /\ IF R.accepted /\ ~may
         THEN /\ Bad("accepts:" \o WhyNot(term, R.key, R.raw, R.ad, R.algo, R.keyKind) \o ":" \o R.mut)
              /\ UNCHANGED drifted
       ELSE IF ~R.accepted /\ may THEN Bad("rejects-untouched:" \o R.mut) /\ UNCHANGED drifted
       ELSE IF R.accepted /\ R.raw \in DOMAIN msgs /\
               (R.retHdr # msgs[R.raw].hdr \/ R.retBody # msgs[R.raw].body)
         THEN /\ Bad("returns-other-" \o (IF R.retHdr # msgs[R.raw].hdr THEN "header" ELSE "body") \o ":" \o R.mut)
              /\ UNCHANGED drifted
       ELSE IF R.accepted /\ ~AlgoPaired(R.algo, R.keyKind) THEN Drift("accepts-unpaired-hash-and-curve")
       ELSE UNCHANGED drifted

Step == /\ l <= Len(Trace)
        /\ l' = l + 1
        /\ IF R.ev = "reset" THEN Reset
           ELSE IF failed THEN UNCHANGED <<sigs, msgs, failed, nacc, drifted>>
           ELSE CASE R.ev = "sign" -> Sign
                  [] R.ev = "forge" -> Forge
                  [] R.ev = "verify" -> Verify
                  [] OTHER -> /\ Bad("no-spec-action:" \o R.ev)
                              /\ failed' = TRUE /\ UNCHANGED <<sigs, msgs, nacc, drifted>>

Done == /\ l = Len(Trace) + 1
        /\ PrintT(<<"VERIF-STAT", "accepted", nacc>>)
        /\ PrintT(<<"VERIF-DONE", Len(Trace)>>)
        /\ UNCHANGED vars

Next == Step \/ Done
Spec == Init /\ [][Next]_vars
=============================================================================
