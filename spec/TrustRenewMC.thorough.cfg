SPECIFICATION Spec
CONSTANTS
  TimelineIds = {1, 2, 3, 4, 5, 6, 7, 8}
INVARIANTS Sound Emit
CHECK_DEADLOCK FALSE
