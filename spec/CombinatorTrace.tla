-------------------------- MODULE CombinatorTrace --------------------------
(* Trace specification for C28 and C29.  Every "combine" line is one independent case: the segment
   lists handed to the REAL combinator.Combine (abstract projection) and everything it returned
   (decoded forwarding path + metadata per path).  The specification recomputes, BY DEFINITION
   (CombinatorOps!PathChoices / PathOf), the set of admissible paths and compares.

   Keys starting "C28:" are failures of well-formedness / metadata / dedup / order (property C28),
   keys starting "C29:" are missing combinations (property C29).  Unspecified details print
   VERIF-DRIFT.                                                                                 *)
EXTENDS CombinatorOps, TLC, Json

Trace == ndJsonDeserialize("trace.ndjson")

(* A "combine" line is consumed in two TLC steps: Eval stores the admissible paths (computed once, by
   definition) in the state variable `cur`; Judge compares them with what the real code returned.
   (TLC does not cache LET definitions inside actions: everything referenced more than once must be
   a state variable to be evaluated once.)                                                       *)
VARIABLES l, st, cur, phase
vars == <<l, st, cur, phase>>
R == Trace[l]

Init == l = 1 /\ cur = {} /\ phase = 0
        /\ st = [cases |-> 0, paths |-> 0, choices |-> 0, loopy |-> 0, dups |-> 0, nontrivial |-> 0, toolong |-> 0]

Eval == /\ cur' = {[ch |-> ch, q |-> PathOf(ch, R.ups, R.cores, R.downs), sh |-> ChoiceShape(ch, R.ups, R.cores, R.downs)] :
                      ch \in PathChoices(R.src, R.dst, R.ups, R.cores, R.downs)}
        /\ phase' = 1 /\ UNCHANGED <<l, st>>

HopsProj(hs) == Strict([j \in 1..Len(hs) |-> [in |-> hs[j].in, eg |-> hs[j].eg, exp |-> hs[j].exp, mac |-> hs[j].mac]])
InfoNoSegID(is) == Strict([j \in 1..Len(is) |-> [cd |-> is[j].cd, peer |-> is[j].peer, ts |-> is[j].ts]])
W(p) == Len(p.intfs) \div 2

Judge ==
    LET Q == cur
        Rep(q) == Representable(q, MaxPathHops, MaxSegHops)
        \* admissible AND existing as a SCION path (C29 does not demand paths that cannot exist)
        Good == {x \in Q : ~Loopy(x.q.intfs) /\ Rep(x.q)}
        P == R.paths
        np == Len(P)
        PathKeys(j) ==
            LET p == P[j]
                ph == HopsProj(p.hops)
                m == {x \in Q : x.q.seglen = p.seglen /\ x.q.infos = p.infos /\ x.q.hops = ph}
                mh == {x \in Q : x.q.hops = ph} IN
            IF \E x \in Q : x.q.intfs = p.intfs /\ ~Rep(x.q) /\ (p.decode # "ok" \/ x.q.hops # ph \/ x.q.seglen # p.seglen)
              THEN {"C28:path:does-not-fit-path-header(" \o
                    (IF \E x \in Q : x.q.intfs = p.intfs /\ Len(x.q.hops) > MaxPathHops THEN "hops>64)" ELSE "seglen>63)")}
            ELSE IF p.decode # "ok" THEN {"C28:path:raw-path-undecodable"}
            ELSE IF mh = {} THEN {"C28:path:hops-not-from-input-segments"}
            ELSE IF \A x \in mh : x.q.seglen # p.seglen THEN {"C28:path:segment-lengths"}
            ELSE IF m = {} THEN
                (IF \A x \in mh : InfoNoSegID(x.q.infos) # InfoNoSegID(p.infos)
                   THEN {"C28:path:info-field-flags-or-timestamp"} ELSE {"C28:path:info-field-segid"})
            ELSE (IF \A x \in m : x.q.intfs # p.intfs THEN {"C28:meta:interfaces"} ELSE {})
            \cup (IF \A x \in m : x.q.mtu # p.mtu THEN
                     {"C28:meta:mtu:" \o (IF \A x \in m : x.q.mtu < p.mtu THEN "too-large" ELSE "too-small")} ELSE {})
            \cup (IF \A x \in m : x.q.exp # p.exp THEN
                     {"C28:meta:expiry:" \o (IF \A x \in m : x.q.exp < p.exp THEN "too-late" ELSE "too-early")} ELSE {})
            \cup (IF Loopy(p.intfs) THEN {"C28:loop:as-passed-more-than-twice"} ELSE {})
        cross ==
             (IF ~R.all /\ \E i \in 1..np : \E j \in (i + 1)..np : P[i].intfs = P[j].intfs
                THEN {"C28:dup:interface-sequence-returned-twice"} ELSE {})
        \cup (IF ~R.all /\ \E j \in 1..np : \E x \in Good : x.q.intfs = P[j].intfs /\ x.q.exp > P[j].exp
                THEN {"C28:dup:kept-path-is-not-the-latest-expiring"} ELSE {})
        \cup (IF \E j \in 1..(np - 1) : W(P[j]) > W(P[j + 1]) THEN {"C28:order:weight-decreases"} ELSE {})
        missing == {x \in Good : \A j \in 1..np : P[j].intfs # x.q.intfs}
        keys == UNION {PathKeys(j) : j \in 1..np} \cup cross
                \cup {"C29:missing:" \o x.sh : x \in missing}
        drift == (IF \E j \in 1..np : P[j].w # W(P[j]) THEN {"weight-field-is-not-the-number-of-links"} ELSE {})
            \cup (IF \E j \in 1..np : P[j].expfrac # 0 \/ P[j].curr # <<0, 0>> THEN {"expiry-fraction-or-pointers"} ELSE {})
            \cup (IF \E j \in 1..np : \E h \in 1..Len(P[j].hops) : P[j].hops[h].alert THEN {"router-alert-set"} ELSE {})
            \cup (IF R.all /\ np # Cardinality(Good) THEN {"all-identical:number-of-paths"} ELSE {})
            \cup (IF ~R.all /\ np # Cardinality({x.q.intfs : x \in Good}) THEN {"number-of-paths"} ELSE {})
        ndup == Cardinality(Good) - Cardinality({x.q.intfs : x \in Good})
    IN  /\ \A k \in keys : PrintT(<<"VERIF-BAD", l, k>>)
        /\ \A k \in drift : PrintT(<<"VERIF-DRIFT", l, k>>)
        /\ st' = [cases |-> st.cases + 1, paths |-> st.paths + np, choices |-> st.choices + Cardinality(Q),
                  loopy |-> st.loopy + Cardinality({x \in Q : Loopy(x.q.intfs)}), dups |-> st.dups + ndup,
                  toolong |-> st.toolong + Cardinality({x \in Q : ~Rep(x.q)}),
                  nontrivial |-> st.nontrivial + (IF Cardinality(Q) > 0 THEN 1 ELSE 0)]

Step == /\ l <= Len(Trace)
        /\ IF R.ev = "combine" /\ phase = 0 THEN Eval
           ELSE /\ l' = l + 1
                /\ cur' = {} /\ phase' = 0
                /\ CASE R.ev = "reset" -> UNCHANGED st
                     [] R.ev = "combine" -> Judge
                     [] R.ev = "panic" -> PrintT(<<"VERIF-BAD", l, "C28:panic">>) /\ UNCHANGED st
                     [] OTHER -> PrintT(<<"VERIF-BAD", l, "C28:no-spec-action:" \o R.ev>>) /\ UNCHANGED st

Done == /\ l = Len(Trace) + 1
        /\ PrintT(<<"VERIF-STAT", "cases", st.cases>>)
        /\ PrintT(<<"VERIF-STAT", "paths", st.paths>>)
        /\ PrintT(<<"VERIF-STAT", "choices", st.choices>>)
        /\ PrintT(<<"VERIF-STAT", "loopy", st.loopy>>)
        /\ PrintT(<<"VERIF-STAT", "dups", st.dups>>)
        /\ PrintT(<<"VERIF-STAT", "toolong", st.toolong>>)
        /\ PrintT(<<"VERIF-STAT", "nontrivial", st.nontrivial>>)
        /\ PrintT(<<"VERIF-DONE", Len(Trace)>>)
        /\ UNCHANGED vars

Next == Step \/ Done
Spec == Init /\ [][Next]_vars
=============================================================================
