----------------------------- MODULE SymCrypto -----------------------------
(* C38 — signed control-plane messages (pkg/scrypto/signed) against a tampering attacker, with
   symbolic cryptography and symbolic byte strings.

   A byte string is a sequence of tokens.  A token is either a piece that parses as a field of the
   HeaderAndBody protobuf message ("h": an encoded header, "b": a body) or opaque bytes ("x") that
   do not parse.  Decoding follows protobuf: fields may repeat and the last one wins; opaque bytes
   make decoding fail.  A signature is a symbolic term over the *signature input*; the constant
   Framing selects how the input is formed from the encoded message and the associated data:

     "framed"   input = <<message, data>>   — the statement: "over the same header, body and
                concatenated associated data" (message and data are separate things)
     "concat"   input = message \o data     — as computeSignatureInput does (plain concatenation,
                the header only carries the *length* of the data)

   The signer signs one message; the attacker applies up to MaxAttack tampering steps to what is
   presented to the verifier (message bytes, signature, associated data, their boundary, the chunking
   of the data, the key); Verify proceeds as the code: decode, compare the data length with the
   header, check the algorithm against the key, check the signature over the recomputed input.

   Invariants (C38): Sound — what verifies is exactly what was signed, under the signing key;
   Complete — what was signed verifies, however the associated data is chunked; ReturnsSigned — a
   successful verification returns the signed header and body.
   With Framing = "framed" all hold.  With Framing = "concat" TLC finds the boundary attack (data
   that begins with an encoded header is moved into the message) — run by checks/C38.py as a
   model-only demonstration; the verdict comes from the real code's behaviour.                  *)
EXTENDS SymCryptoOps, FiniteSets, TLC

CONSTANTS Framing, MaxAttack

SignerKey == 1
OtherKey  == 2
KeyKind(k) == "p256"

Hdrs   == [algo : {"ecdsa-sha256", "unknown"}, adlen : 0..2, meta : {"m1", "m2"}]
Bodies == {"b1", "b2"}
H(h) == [t |-> "h", h |-> h, b |-> "-"]
B(b) == [t |-> "b", h |-> [algo |-> "-", adlen |-> 0, meta |-> "-"], b |-> b]
X(c) == [t |-> "x", h |-> [algo |-> "-", adlen |-> 0, meta |-> "-"], b |-> c]
\* tokens that may occur in associated data / be written by the attacker
Toks == {X("x"), X("y"), B("b2")} \cup {H(h) : h \in {g \in Hdrs : g.algo = "ecdsa-sha256"}}
Strs(n) == UNION {[1..k -> Toks] : k \in 0..n}

DefaultHdr == [algo |-> "unknown", adlen |-> 0, meta |-> "-"]
Encode(hdr, body) == <<H(hdr), B(body)>>

Flat(chunks) == IF Len(chunks) = 0 THEN <<>>
                ELSE IF Len(chunks) = 1 THEN chunks[1] ELSE chunks[1] \o chunks[2]

Input(msg, data) == IF Framing = "concat" THEN msg \o data ELSE <<msg, data>>
SigOf(k, msg, data) == [key |-> k, in |-> Input(msg, data)]
Garbage == [key |-> 0, in |-> <<>>]

\* protobuf decoding of HeaderAndBody: last field wins, opaque bytes are an error
Decodes(msg) == \A i \in 1..Len(msg) : msg[i].t # "x"
LastOf(msg, t, dflt) ==
    LET idx == {i \in 1..Len(msg) : msg[i].t = t} IN
    IF idx = {} THEN dflt ELSE msg[CHOOSE i \in idx : \A j \in idx : j <= i]
DecHdr(msg) == LastOf(msg, "h", H(DefaultHdr)).h
DecBody(msg) == LastOf(msg, "b", B("empty")).b

VARIABLES pc,       \* "sign" | "attack" | "done"
          signed,   \* what the signer signed: [key, hdr, body, ad, msg, sig]
          wire,     \* what is presented: [msg, sig, ad (chunks), pk]
          n,        \* attacker steps used
          result,   \* "-" | "accepted" | "rejected"
          ret       \* returned [hdr, body]
vars == <<pc, signed, wire, n, result, ret>>

NoRet == [hdr |-> DefaultHdr, body |-> "-"]
Nothing == [key |-> 0, hdr |-> DefaultHdr, body |-> "-", ad |-> <<>>, msg |-> <<>>, sig |-> Garbage]

Init == /\ pc = "sign" /\ signed = Nothing /\ n = 0 /\ result = "-" /\ ret = NoRet
        /\ wire = [msg |-> <<>>, sig |-> Garbage, ad |-> <<>>, pk |-> 0]

\* signed.Sign: refuses a header whose data length is wrong or whose algorithm does not fit the key
Sign == /\ pc = "sign"
        /\ \E hdr \in Hdrs, body \in Bodies, ad \in Strs(2) :
             /\ hdr.adlen = Len(ad)
             /\ AlgoConsistent(hdr.algo, KeyKind(SignerKey))
             /\ LET msg == Encode(hdr, body)
                    sig == SigOf(SignerKey, msg, ad) IN
                /\ signed' = [key |-> SignerKey, hdr |-> hdr, body |-> body, ad |-> ad, msg |-> msg, sig |-> sig]
                /\ wire' = [msg |-> msg, sig |-> sig, ad |-> <<ad>>, pk |-> SignerKey]
        /\ pc' = "attack"
        /\ UNCHANGED <<n, result, ret>>

Tamper(w) == /\ pc = "attack" /\ n < MaxAttack
             /\ wire' = w /\ w # wire
             /\ n' = n + 1
             /\ UNCHANGED <<pc, signed, result, ret>>

ReplaceMsgTok == \E i \in 1..Len(wire.msg), t \in Toks : Tamper([wire EXCEPT !.msg[i] = t])
TruncateMsg   == Len(wire.msg) > 0 /\ Tamper([wire EXCEPT !.msg = SubSeq(wire.msg, 1, Len(wire.msg) - 1)])
ExtendMsg     == \E t \in Toks : Len(wire.msg) < 4 /\ Tamper([wire EXCEPT !.msg = Append(wire.msg, t)])
GarbleSig     == Tamper([wire EXCEPT !.sig = Garbage])
\* the attacker signs the presented content with its own key (but cannot use the signer's)
OwnSig        == Tamper([wire EXCEPT !.sig = SigOf(OtherKey, wire.msg, Flat(wire.ad))])
SwapKey       == Tamper([wire EXCEPT !.pk = OtherKey])
ReplaceAdTok  == LET f == Flat(wire.ad) IN
                 \E i \in 1..Len(f), t \in Toks : Tamper([wire EXCEPT !.ad = <<[f EXCEPT ![i] = t]>>])
DropAd        == LET f == Flat(wire.ad) IN
                 Len(f) > 0 /\ (Tamper([wire EXCEPT !.ad = <<Tail(f)>>]) \/
                                Tamper([wire EXCEPT !.ad = <<SubSeq(f, 1, Len(f) - 1)>>]))
AppendAd      == LET f == Flat(wire.ad) IN
                 \E t \in Toks : Len(f) < 3 /\ Tamper([wire EXCEPT !.ad = <<Append(f, t)>>])
\* same concatenation, other chunking: not a change of the associated data
Resplit       == LET f == Flat(wire.ad) IN
                 \E k \in 0..Len(f) : Tamper([wire EXCEPT !.ad = <<SubSeq(f, 1, k), SubSeq(f, k + 1, Len(f))>>])
\* the boundary between message and associated data is moved
ShiftIn       == LET f == Flat(wire.ad) IN
                 Len(f) > 0 /\ Tamper([wire EXCEPT !.msg = Append(wire.msg, Head(f)), !.ad = <<Tail(f)>>])
ShiftOut      == LET m == wire.msg IN
                 Len(m) > 0 /\ Tamper([wire EXCEPT !.msg = SubSeq(m, 1, Len(m) - 1),
                                                   !.ad = <<(<<m[Len(m)]>> \o Flat(wire.ad))>>])

Attack == ReplaceMsgTok \/ TruncateMsg \/ ExtendMsg \/ GarbleSig \/ OwnSig \/ SwapKey \/ ReplaceAdTok
          \/ DropAd \/ AppendAd \/ Resplit \/ ShiftIn \/ ShiftOut

\* signed.Verify, in the order of the code
Verify == /\ pc = "attack"
          /\ pc' = "done"
          /\ LET data == Flat(wire.ad)
                 hdr  == DecHdr(wire.msg)
                 ok   == /\ Decodes(wire.msg)                                  \* extractHeaderAndBody
                         /\ hdr.adlen = Len(data)                              \* associated data length
                         /\ AlgoConsistent(hdr.algo, KeyKind(wire.pk))         \* checkPubKeyAlgo
                         /\ wire.sig = SigOf(wire.pk, wire.msg, data)          \* ecdsa.VerifyASN1
             IN /\ result' = IF ok THEN "accepted" ELSE "rejected"
                /\ ret' = IF ok THEN [hdr |-> hdr, body |-> DecBody(wire.msg)] ELSE NoRet
          /\ UNCHANGED <<signed, wire, n>>

Next == Sign \/ Attack \/ Verify
Spec == Init /\ [][Next]_vars

-----------------------------------------------------------------------------
Untouched == /\ wire.msg = signed.msg /\ Flat(wire.ad) = signed.ad
             /\ wire.pk = signed.key /\ wire.sig = signed.sig

\* verifies only if produced by the matching private key over the same header, body and data
\* (the attacker's own signatures are signatures of OtherKey over what it presents)
Sound == result = "accepted" =>
            \/ Untouched
            \/ /\ wire.pk = OtherKey /\ wire.sig = SigOf(OtherKey, wire.msg, Flat(wire.ad))
\* ... and if: the untouched message verifies whatever the chunking
Complete == (result # "-" /\ Untouched) => result = "accepted"
\* a successful verification under the signer's key returns exactly the signed header and body
ReturnsSigned == (result = "accepted" /\ wire.pk = signed.key) =>
                    ret = [hdr |-> signed.hdr, body |-> signed.body]
TypeOK == pc \in {"sign", "attack", "done"} /\ n \in 0..MaxAttack /\ result \in {"-", "accepted", "rejected"}
=============================================================================
