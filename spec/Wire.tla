------------------------------- MODULE Wire -------------------------------
(* C18 -- exhaustive consistency of the documented header layouts (WireOps!Items / Pack / MaskOf) on
   a boundary lattice, shaped like the codec: pick a layer and a shape (address lengths, path kind and
   segment lengths, option layout, SCMP type), build the well-formed header value, then set ONE field
   (layout item) to each of its boundary values 0, 1, max-1, max (byte strings: all-zero, all-ones,
   first / last byte changed).

     Injective            the packed bytes differ from the base iff the field value differs, and only
                          inside the field's own bit range (so a decoder -- the inverse -- is well
                          defined and field-local); a reserved item never shows through the mask;
     LengthOK             the packed length is the length the header declares for itself (HdrLen,
                          ExtLen, fixed UDP/SCMP sizes) and a multiple of 4 for SCION/extension headers;
     TruncationsRejected  the independent length arithmetic WireOps!LenExceeds (what "declared lengths
                          exceed the data" means) is true for EVERY proper prefix of the packed header
                          and false for the whole header.                                          *)
EXTENDS WireOps, TLC

CONSTANT Thorough

VARIABLE st
vars == <<st>>

MkInfo(f) == [peer |-> f % 2, consdir |-> (f + 1) % 2, segid |-> 4660 + f, ts |-> <<96, 0, f, 255>>]
MkHop(f) == [ialert |-> f % 2, ealert |-> 1, exptime |-> 63, ingress |-> f, egress |-> 65535 - f, mac |-> <<1, 2, 3, 4, 5, f>>]
MkSegs(kind, segs) == [kind |-> kind, currinf |-> 0, currhf |-> 0, seglen |-> segs,
                       infos |-> [i \in 1..NumInf(segs) |-> MkInfo(i)], hops |-> [i \in 1..NumHops(segs) |-> MkHop(i)]]
MkPath(kind, segs) ==
    CASE kind = "empty" -> [kind |-> "empty"]
      [] kind = "onehop" -> [kind |-> "onehop", infos |-> <<MkInfo(1)>>, hops |-> <<MkHop(1), MkHop(2)>>]
      [] kind = "scion" -> MkSegs("scion", segs)
      [] kind = "epic" -> MkSegs("epic", segs) @@ [pktid |-> <<1, 2, 3, 4, 5, 6, 7, 8>>, phvf |-> <<9, 9, 9, 9>>, lhvf |-> <<7, 7, 7, 7>>]
\* the path length, computed without the layout
PathLen(kind, segs) == CASE kind = "empty" -> 0 [] kind = "onehop" -> 32
                         [] kind = "scion" -> 4 + 8 * NumInf(segs) + 12 * NumHops(segs)
                         [] kind = "epic" -> 20 + 8 * NumInf(segs) + 12 * NumHops(segs)
MkScion(kind, segs, dl, sl) ==
    [version |-> 0, tc |-> 184, flowid |-> 74565, nexthdr |-> 17,
     hdrlen |-> (12 + 16 + 4 * (dl + 1) + 4 * (sl + 1) + PathLen(kind, segs)) \div 4, payloadlen |-> 1200,
     pathtype |-> PathTypeOf(kind), dt |-> 0, dl |-> dl, st |-> 1, sl |-> sl,
     dstia |-> <<0, 1, 255, 0, 0, 0, 1, 16>>, srcia |-> <<0, 2, 255, 0, 0, 0, 2, 17>>,
     dst |-> [i \in 1..(4 * (dl + 1)) |-> 10 + i], src |-> [i \in 1..(4 * (sl + 1)) |-> 200 - i],
     path |-> MkPath(kind, segs)]

PathShapes == {<<"empty", <<0, 0, 0>>>>, <<"onehop", <<0, 0, 0>>>>, <<"scion", <<1, 0, 0>>>>, <<"scion", <<2, 1, 0>>>>,
               <<"scion", <<1, 1, 1>>>>, <<"epic", <<1, 1, 0>>>>} \cup
              (IF Thorough THEN {<<"scion", <<3, 2, 2>>>>, <<"scion", <<0, 0, 0>>>>, <<"epic", <<2, 0, 0>>>>, <<"epic", <<1, 2, 1>>>>}
               ELSE {})
AddrShapes == IF Thorough THEN {<<a, b>> : a \in 0..3, b \in 0..3} ELSE {<<0, 0>>, <<3, 1>>, <<1, 2>>}

Data(n, f) == [i \in 1..n |-> (f + 11 * i) % 256]
ExtShapes == {<<[type |-> 1, data |-> <<>>]>>,
              <<[type |-> 2, data |-> Data(28, 3)]>>,
              <<[type |-> 0, data |-> <<>>], [type |-> 0, data |-> <<>>], [type |-> 5, data |-> Data(4, 9)], [type |-> 1, data |-> <<>>]>>,
              <<[type |-> 1, data |-> Data(2, 0)], [type |-> 255, data |-> Data(6, 1)], [type |-> 7, data |-> <<>>]>>}
ExtLenOf(opts) == 2 + FoldLeft(LAMBDA acc, o : acc + OptLen(o), 0, opts)
MkExt(opts) == [nexthdr |-> 17, extlen |-> (ExtLenOf(opts) \div 4) - 1, opts |-> opts]

ScmpTypes == {1, 2, 4, 5, 6, 128, 129, 130, 131, 100}
MkScmp(t) == [type |-> t, code |-> 3, cksum |-> 43981, mtu |-> 1472, pointer |-> 77, id |-> 4242, seq |-> 65535,
              ia |-> <<0, 1, 255, 0, 0, 0, 1, 16>>, ifid |-> <<0, 0, 0, 0, 0, 0, 1, 44>>,
              ingress |-> <<0, 0, 0, 0, 0, 0, 0, 5>>, egress |-> <<255, 255, 255, 255, 255, 255, 255, 254>>]

Cases == {[layer |-> "scion", v |-> MkScion(p[1], p[2], a[1], a[2])] : p \in PathShapes, a \in AddrShapes}
         \cup {[layer |-> l, v |-> MkExt(o)] : l \in {"hbh", "e2e"}, o \in ExtShapes}
         \cup {[layer |-> "udp", v |-> [sport |-> 1, dport |-> 65535, len |-> 8, cksum |-> 4660]]}
         \cup {[layer |-> "scmp", v |-> MkScmp(t)] : t \in ScmpTypes}

Init == \E c \in Cases : st = [ph |-> "base", layer |-> c.layer, v |-> c.v, items |-> Items(c.layer, c.v)]

Variants(it) ==
    IF it[1] = 0
      THEN LET n == Len(it[2]) IN
           IF n = 0 THEN {}
           ELSE {Zeros(n), [i \in 1..n |-> 255], [it[2] EXCEPT ![1] = (@ + 1) % 256], [it[2] EXCEPT ![n] = (@ + 128) % 256]}
    ELSE {0, 1, 2 ^ it[1] - 2, 2 ^ it[1] - 1} \cap 0..(2 ^ it[1] - 1)

PickItem == /\ st.ph = "base"
            /\ \E k \in 1..Len(st.items) : st' = [st EXCEPT !.ph = "item"] @@ [k |-> k]
Vary == /\ st.ph = "item"
        /\ \E x \in Variants(st.items[st.k]) :
              st' = [st EXCEPT !.ph = "varied"] @@ [x |-> x]
Next == PickItem \/ Vary
Spec == Init /\ [][Next]_vars

-----------------------------------------------------------------------------
TypeOK == st.ph \in {"base", "item", "varied"}

\* bit range of item k: (first, last), 1-based
Before(items, k) == ItemsWidth(SubSeq(items, 1, k - 1))
Width(it) == IF it[1] = 0 THEN 8 * Len(it[2]) ELSE it[1]

Injective ==
    st.ph = "varied" =>
      LET it == st.items[st.k]
          items2 == [st.items EXCEPT ![st.k] = <<it[1], st.x, it[3]>>]
          b1 == Pack(st.items)
          b2 == Pack(items2)
          lo == Before(st.items, st.k)                     \* bits before the item
          hi == lo + Width(it) IN                         \* last bit of the item
      /\ Len(b1) = Len(b2)
      /\ (b1 = b2) <=> (st.x = it[2])
      /\ \A i \in 1..Len(b1) : (8 * i <= lo \/ 8 * (i - 1) >= hi) => b1[i] = b2[i]
      /\ it[3] => Masked(b2, MaskOf(st.items)) = Masked(b1, MaskOf(st.items))

LengthOK ==
    st.ph = "base" =>
      LET b == Pack(st.items) IN
      /\ Len(b) = DeclaredLen(st.layer, st.v)
      /\ 8 * Len(b) = ItemsWidth(st.items)
      /\ st.layer \in {"scion", "hbh", "e2e"} => Len(b) % 4 = 0
      /\ st.layer = "scion" => ScionConsistent(st.v)
      /\ ItemsFit(st.items)
      /\ Len(MaskOf(st.items)) = Len(b)

TruncationsRejected ==
    st.ph = "base" =>
      LET b == Pack(st.items) IN
      /\ ~LenExceeds(st.layer, b)
      /\ \A n \in 0..(Len(b) - 1) : LenExceeds(st.layer, SubSeq(b, 1, n))
=============================================================================
