------------------------------ MODULE RevCache ------------------------------
(* C31 - the revocation cache as built (memRevCache over an expiring key/value store) against its
   abstract specification.

   Implementation-shaped part: `items` is the underlying store; entries stay physically present after
   they expired until DeleteExpired runs; the store's own Get hides expired entries.  Insert =
   { ttl := expiration - now; if ttl <= 0 reject; cur := store.Get(key); if none: set, accept;
     if rev.ts After cur.ts: set, accept; else reject }.
   Abstract part: `acc[k]` = the last accepted revocation; RevCacheOps!InsertOK / Lookup.
   TLC checks over all histories that the two agree on every outcome.                           *)
EXTENDS RevCacheOps, TLC

CONSTANTS Keys, MaxTs, MaxTtl, MaxNow

VARIABLES items,    \* [Keys -> revocation or None]  physical store
          acc,      \* [Keys -> revocation or None]  last accepted revocation (specification state)
          now,
          outImpl, outSpec       \* outcome of the last call as computed by the two sides
vars == <<items, acc, now, outImpl, outSpec>>

Revs == [ts : 0..MaxTs, ttl : 0..MaxTtl]

Init == /\ items = [k \in Keys |-> None] /\ acc = [k \in Keys |-> None] /\ now = 0
        /\ outImpl = None /\ outSpec = None

StoreGet(k) == IF items[k] # None /\ items[k].ts + items[k].ttl > now THEN items[k] ELSE None

Insert(k, r) ==
    LET ttl == (r.ts + r.ttl) - now
        cur == StoreGet(k)
        okI == IF ttl <= 0 THEN FALSE ELSE IF cur = None THEN TRUE ELSE r.ts > cur.ts
        okS == InsertOK(acc[k], r, now)
    IN /\ items' = IF okI THEN [items EXCEPT ![k] = r] ELSE items
       /\ acc' = IF okS THEN [acc EXCEPT ![k] = r] ELSE acc
       /\ outImpl' = [ts |-> IF okI THEN 1 ELSE 0, ttl |-> -1]
       /\ outSpec' = [ts |-> IF okS THEN 1 ELSE 0, ttl |-> -1]
       /\ UNCHANGED now

Get(k) == /\ outImpl' = StoreGet(k) /\ outSpec' = Lookup(acc[k], now)
          /\ UNCHANGED <<items, acc, now>>

DeleteExpired == /\ items' = [k \in Keys |-> StoreGet(k)]
                 /\ outImpl' = None /\ outSpec' = None
                 /\ UNCHANGED <<acc, now>>

Tick == /\ now < MaxNow /\ now' = now + 1
        /\ outImpl' = None /\ outSpec' = None
        /\ UNCHANGED <<items, acc>>

Next == \/ \E k \in Keys, r \in Revs : Insert(k, r)
        \/ \E k \in Keys : Get(k)
        \/ DeleteExpired \/ Tick
Spec == Init /\ [][Next]_vars

-----------------------------------------------------------------------------
\* every outcome (insert accepted?, lookup result) is the specified one
SameOutcome == outImpl = outSpec
\* the visible content of the store is the specification state
Refines == \A k \in Keys : StoreGet(k) = Lookup(acc[k], now)
\* expired revocations are never returned
NeverExpired == \A k \in Keys : StoreGet(k) # None => Live(StoreGet(k), now)
\* an older revocation never replaces a newer live one
NewestKept == [][\A k \in Keys :
                   LET a == StoreGet(k)
                       b == IF items'[k] # None /\ items'[k].ts + items'[k].ttl > now' THEN items'[k] ELSE None
                   IN (a # None /\ b # None) => (b = a \/ b.ts > a.ts)]_vars
=============================================================================
