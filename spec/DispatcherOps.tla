---------------------------- MODULE DispatcherOps ----------------------------
(* Pure operators for C44 (dispatcher/dispatcher.go: Server.processMsgNextHop).

   Abstract datagram (one record, all fields always present):
     mal     "no" | "trunc" | "garbage"         malformed SCION header
     dt      "ip" | "svc" | "bad"               SCION destination address type
     dh      ip: host id ("A","B"); svc: "CS" (registered) | "DS" (not registered)
     outer   host id of the outer IP destination of the datagram ("A","B","C","V"; "V" is the IP
             address whose bytes equal the raw bytes of the SVC address CS)
     ext     "none" | "hbh" | "e2e" | "both"
     l4      "udp" | "scmp" | "tcp" | "none"
     port    UDP destination port
     st      SCMP type: "echoreq","echorep","trreq","trrep","err" (known error type), "unkerr","unkinfo"
     id      identifier of echo / traceroute messages
     q       what an SCMP error quotes: "udp","udp0","echoreq","trreq","echorep","trrep","err","tcp",
             "truncl4","truncscion","empty"
     qp      quoted source port / identifier
     path    "empty" | "seg1" | "seg2"
   Service map: CS of the local IA is registered at host "A", port SvcPort.

   Out(d, on) = [k |-> "drop"] | [k |-> "fwd", host, port] | [k |-> "reply"]                  *)
EXTENDS Integers, Sequences

SvcPort == 30252
Drop == [k |-> "drop", host |-> "-", port |-> 0]
Fwd(h, p) == [k |-> "fwd", host |-> h, port |-> p]
Reply == [k |-> "reply", host |-> "-", port |-> 0]

IsRequest(d) == d.l4 = "scmp" /\ d.st \in {"echoreq", "trreq"}

\* port an SCMP message is delivered to (0: none -> drop)
ScmpPort(d) ==
    CASE d.st \in {"echorep", "trrep"} -> d.id
      [] d.st = "err" -> (CASE d.q = "udp" -> d.qp
                            [] d.q \in {"echoreq", "trreq"} -> d.qp
                            [] OTHER -> 0)
      [] OTHER -> 0

\* the destination the statement derives from the packet's own SCION destination (drop if none)
Derived(d) ==
    IF d.l4 = "udp" THEN
        (CASE d.dt = "ip" -> Fwd(d.dh, d.port)
           [] d.dt = "svc" -> (IF d.dh = "CS" THEN Fwd("A", SvcPort) ELSE Drop)
           [] OTHER -> Drop)
    ELSE IF d.l4 = "scmp" /\ ~IsRequest(d) THEN
        (IF d.dt = "ip" /\ ScmpPort(d) # 0 THEN Fwd(d.dh, ScmpPort(d)) ELSE Drop)
    ELSE Drop

Out(d, on) ==
    IF d.mal # "no" THEN Drop
    ELSE IF d.l4 \in {"tcp", "none"} THEN Drop
    ELSE IF IsRequest(d) THEN (IF d.dt = "bad" THEN Drop ELSE Reply)
    ELSE IF ~on THEN Drop
    ELSE LET t == Derived(d) IN
         IF t.k = "fwd" /\ t.host = d.outer THEN t ELSE Drop

\* what the reply to a request must look like: reversed path
\* the driver's paths: seg1 = one segment in construction direction, hop fields (ConsIngress, ConsEgress)
\* (0,11) (22,0), current hop = last; seg2 = two segments (2+2), the first in, the second against
\* construction direction, hop fields (0,11) (22,0) (0,33) (44,0), current hop = last.  Reversal reverses the
\* order of segments and hop fields, flips every ConsDir flag and points to the first hop.
RevPath(p) == CASE p = "empty" -> [t |-> "empty", inf |-> 0, hf |-> 0, segs |-> <<>>, cons |-> <<>>, hops |-> <<>>]
                [] p = "seg1" -> [t |-> "scion", inf |-> 0, hf |-> 0, segs |-> <<2>>, cons |-> <<0>>,
                                  hops |-> <<<<22, 0>>, <<0, 11>>>>]
                [] p = "seg2" -> [t |-> "scion", inf |-> 0, hf |-> 0, segs |-> <<2, 2>>, cons |-> <<1, 0>>,
                                  hops |-> <<<<44, 0>>, <<0, 33>>, <<22, 0>>, <<0, 11>>>>]
=============================================================================
