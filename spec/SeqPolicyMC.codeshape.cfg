INIT Init
NEXT Next
CONSTANTS
  MaxSize = 3
  MaxLen = 2
  Leaves <- McLeavesD8
  Hops <- McHops
  Directed <- DirectedMC
INVARIANTS SizeBound SemanticsAgree TextualNeverWider CodeShapeAgrees
CHECK_DEADLOCK FALSE
