SPECIFICATION FairSpec
CONSTANTS
  NBuf = 4
  NC = 2
  Batch = 1
  NP = 1
  NS = 1
  QProc = 1
  QSlow = 1
  QInt = 1
  QEg = 1
  MaxPkts = 2
  MaxBfd = 1
  StopMode = "none"
  BfdSerErr = FALSE
INVARIANTS OwnerUnique
PROPERTIES EventuallyHome
CHECK_DEADLOCK FALSE
