--------------------------- MODULE PacketPoolTrace ---------------------------
(* Trace specification for C14: accepts an ndjson trace recorded from the real dataPlane.Run iff the
   packet buffers follow the ownership discipline of PacketPoolOps:

     get / put    every PacketPool.Get / Put, reported by the verif hook (router/pool_verif.go) in an
                  order that linearizes the operations on each buffer (Put is logged before the buffer
                  enters the channel, Get after it left), with the calling function
     deliver      the in-memory socket's ReadBatch copied a packet into buffer b
     write        the in-memory socket's WriteBatch was handed the buffers bs (and what it returned)
     quiescent    all input consumed and nothing left to do (or: no event for 10 s, timeout = TRUE)
     final        after dataPlane.Shutdown returned; poollen = len(PacketPool.pool)
     race         a data race reported by the Go race detector (appended by checks/C14.py)
     crash        a router goroutine panicked (log.HandlePanic ended the process; appended by
                  checks/C14.py from the driver's log): no specification action
     stuck        the router did not finish the traffic phase / Shutdown within 20-30 s (goroutines
                  blocked in Get / Put): no specification action

   Get only of a free buffer (the pool never hands out a buffer in use), Put only of an owned one
   (exactly one return), sockets only ever see buffers owned by the stage that uses them, and at
   quiescence every buffer is in the pool or an unused pre-fetch of a receiver (no leak).

   Total: the first mismatch inside a reset-delimited trace prints <<"VERIF-BAD", line, key>> and
   the rest of that trace is skipped.                                                           *)
EXTENDS PacketPoolOps, TLC, Json, FiniteSets

Trace == ndJsonDeserialize("trace.ndjson")

VARIABLES st,       \* [buffer -> "none" | "free" | "held"]
          who,      \* [buffer -> function that did the last Get]
          lastput,  \* [buffer -> function that did the last Put]
          filled,   \* [buffer -> it carries a packet (delivered by a socket or built by a BFD sender)]
          cfg,      \* the reset record of the current trace
          failed, l

vars == <<st, who, lastput, filled, cfg, failed, l>>
R == Trace[l]

InitFn == "router.(*dataPlane).initPacketPool"
RecvFn == "udpip.(*udpConnection).receive"
BfdFn == "router.(*bfdSend).Send"

NoCfg == [nbuf |-> 0, batch |-> 1, np |-> 1, ns |-> 1, nconn |-> 1, nif |-> 1]
Init == /\ st = <<>> /\ who = <<>> /\ lastput = <<>> /\ filled = <<>> /\ cfg = NoCfg
        /\ failed = FALSE /\ l = 1

Bad(key) == /\ PrintT(<<"VERIF-BAD", l, key>>)
            /\ failed' = TRUE
            /\ UNCHANGED <<st, who, lastput, filled, cfg>>

Bufs == DOMAIN st
Held == {b \in Bufs : st[b] = "held"}

Reset == /\ st' = [b \in 0..(R.nbuf - 1) |-> "none"]
         /\ who' = [b \in 0..(R.nbuf - 1) |-> ""]
         /\ lastput' = [b \in 0..(R.nbuf - 1) |-> ""]
         /\ filled' = [b \in 0..(R.nbuf - 1) |-> FALSE]
         /\ cfg' = R /\ failed' = FALSE
         /\ IF R.nbuf # 0 /\ R.nbuf # PoolSize(R.nif, R.nif, R.batch, R.np, R.ns)   \* NumConnections() counts links
              THEN PrintT(<<"VERIF-DRIFT", l, "pool-size-differs-from-formula">>) ELSE TRUE

Put ==
    IF R.b \notin Bufs THEN Bad("put-of-unknown-buffer:" \o R.fn)
    ELSE LET v == PutVerdict(st, R.b, R.fn = InitFn) IN
         IF v # "ok" THEN Bad(v \o ":" \o R.fn \o ":previous-put-by=" \o lastput[R.b])
         ELSE /\ st' = AfterPut(st, R.b)
              /\ lastput' = [lastput EXCEPT ![R.b] = R.fn]
              /\ filled' = [filled EXCEPT ![R.b] = FALSE]
              /\ UNCHANGED <<who, cfg, failed>>

Get ==
    IF R.b \notin Bufs THEN Bad("get-of-unknown-buffer:" \o R.fn)
    ELSE LET v == GetVerdict(st, R.b) IN
         IF v # "ok" THEN Bad(v \o ":" \o R.fn \o ":held-by=" \o who[R.b])
         ELSE /\ st' = AfterGet(st, R.b)
              /\ who' = [who EXCEPT ![R.b] = R.fn]
              /\ filled' = [filled EXCEPT ![R.b] = (R.fn = BfdFn)]
              /\ UNCHANGED <<lastput, cfg, failed>>

(* ReadBatch wrote a packet into buffer b: it must be a pre-fetched buffer of a receiver, still
   unused.  Anything else means a receiver reads into memory it does not own. *)
Deliver ==
    IF R.b \notin Bufs THEN Bad("deliver:socket-buffer-is-no-pool-buffer")
    ELSE IF st[R.b] # "held" THEN Bad("deliver:receiver-reads-into-a-buffer-that-is-" \o st[R.b])
    ELSE IF who[R.b] # RecvFn \/ filled[R.b] THEN Bad("deliver:receiver-reads-into-a-buffer-in-use")
    ELSE /\ filled' = [filled EXCEPT ![R.b] = TRUE]
         /\ UNCHANGED <<st, who, lastput, cfg, failed>>

(* WriteBatch was handed these buffers: the sender must own each of them (held, carrying a packet,
   not returned to the pool = not poisoned), and a batch never contains a buffer twice. *)
Write ==
    LET bs == R.bs
        idx == DOMAIN bs IN
    IF \E i \in idx : bs[i] \notin Bufs THEN Bad("write:packet-without-pool-buffer")
    ELSE IF \E i \in idx : st[bs[i]] # "held" THEN Bad("write:sender-uses-a-buffer-that-was-returned-to-the-pool")
    ELSE IF \E i \in idx : ~filled[bs[i]] THEN Bad("write:sender-uses-a-buffer-owned-by-a-receiver")
    ELSE IF \E i, j \in idx : i # j /\ bs[i] = bs[j] THEN Bad("write:same-buffer-twice-in-a-batch")
    ELSE IF R.poisoned # 0 THEN Bad("write:poisoned-packet")
    ELSE UNCHANGED <<st, who, lastput, filled, cfg, failed>>

(* Nothing is in flight any more: what is not in the pool is an unused pre-fetch of a receiver. *)
Quiescent ==
    LET leaked == {b \in Held : filled[b] \/ who[b] # RecvFn} IN
    IF leaked # {}
      THEN LET b == CHOOSE x \in leaked : \A y \in leaked : x <= y IN
           Bad("leak:buffer-taken-by=" \o who[b] \o ":not-returned-at-quiescence")
    ELSE IF Cardinality(Held) > cfg.nconn * cfg.batch THEN Bad("leak:more-prefetched-buffers-than-receivers-hold")
    ELSE /\ (R.timeout => PrintT(<<"VERIF-DRIFT", l, "quiescence-by-timeout">>))
         /\ UNCHANGED <<st, who, lastput, filled, cfg, failed>>

(* After Shutdown (from a quiescent state): the receivers returned their pre-fetch; everything is
   in the pool. *)
Final ==
    IF Held # {}
      THEN LET b == CHOOSE x \in Held : \A y \in Held : x <= y IN
           Bad("leak:buffer-taken-by=" \o who[b] \o ":not-returned-at-shutdown")
    ELSE IF R.poollen # Cardinality(Bufs) THEN Bad("final:pool-length-differs-from-number-of-buffers")
    ELSE UNCHANGED <<st, who, lastput, filled, cfg, failed>>

Skip == UNCHANGED <<st, who, lastput, filled, cfg, failed>>

Step == /\ l <= Len(Trace)
        /\ l' = l + 1
        /\ IF R.ev = "reset" THEN Reset
           ELSE IF failed THEN UNCHANGED <<st, who, lastput, filled, cfg, failed>>
           ELSE CASE R.ev = "put" -> Put
                  [] R.ev = "get" -> Get
                  [] R.ev = "deliver" -> Deliver
                  [] R.ev = "write" -> Write
                  [] R.ev = "rerr" -> Skip
                  [] R.ev = "quiescent" -> Quiescent
                  [] R.ev = "final" -> Final
                  [] R.ev = "race" -> Bad("race:" \o R.a \o "|" \o R.b)
                  [] R.ev = "crash" -> Bad("crash:router-goroutine-panicked-in=" \o R.where)
                  [] R.ev = "stuck" -> Bad("stuck:router-goroutines-blocked-during-" \o R.phase)
                  [] OTHER -> Bad("no-spec-action:" \o R.ev)

Done == /\ l = Len(Trace) + 1
        /\ PrintT(<<"VERIF-DONE", Len(Trace)>>)
        /\ UNCHANGED vars

Next == Step \/ Done
Spec == Init /\ [][Next]_vars
=============================================================================
