------------------------- MODULE GatewayRoutingConc -------------------------
(* C42, run-time updates: the routing table is changed (SetSession / ClearSession on the current table,
   swap to a fresh table through AtomicRoutingTable.SetRoutingTable) while lookups run concurrently.

   Shape of the code: a lookup first reads the table pointer (AtomicRoutingTable.getPointer, RLock), then
   routes on that table object (publishingRoutingTable.RouteIPv4 under its own RLock, so atomically with
   respect to session updates of that object).  Writers update the current object or install a new one.
   Every table object is installed at most once (objects are identities).

   Property (Linearizable): the answer of every lookup is the answer Route() gives on one of the global
   states that existed between its invocation and its return: the table before or after an update, never
   a mix.                                                                                      *)
EXTENDS GatewayRoutingOps, TLC

CONSTANTS W, Tables,     \* sequence of tables (class `sess` fields are ignored: sessions are set at run time)
          Readers, MaxOps, Pkts

VARIABLES cur,      \* installed table object (0: none)
          sessOn,   \* [table id -> set of <<entry, class>> that have a session]
          used,     \* table objects installed so far
          nops, hist, wops,
          rd        \* [reader -> [pc, ptr, b, e, pkt, res]]
vars == <<cur, sessOn, used, nops, hist, wops, rd>>

Ids == 1..Len(Tables)
Classes(t) == {<<i, j>> : i \in 1..Len(Tables[t]), j \in 1..2} \cap
              {<<i, j>> \in (1..3) \X (1..2) : i <= Len(Tables[t]) /\ j <= Len(Tables[t][i].cls)}

WithSess(t, on) == [i \in 1..Len(Tables[t]) |->
                      [Tables[t][i] EXCEPT !.cls = [j \in 1..Len(Tables[t][i].cls) |->
                          [Tables[t][i].cls[j] EXCEPT !.sess = IF <<i, j>> \in on THEN 1 ELSE 0]]]]

RouteObj(t, on, pkt) == IF t = 0 THEN 0
                        ELSE LET r == Route(WithSess(t, on), pkt, W) IN IF r = 0 THEN 0 ELSE 100 * t + r
RouteAt(st, pkt) == RouteObj(st.cur, IF st.cur = 0 THEN {} ELSE st.sessOn[st.cur], pkt)

Idle == [pc |-> "idle", ptr |-> 0, b |-> 0, e |-> 0, pkt |-> 0, res |-> 0]
Init == /\ cur = 0 /\ sessOn = [t \in Ids |-> {}] /\ used = {} /\ nops = 0
        /\ hist = <<[cur |-> 0, sessOn |-> [t \in Ids |-> {}]]>> /\ wops = <<>>
        /\ rd = [r \in Readers |-> Idle]

Commit(c, s, op) == /\ cur' = c /\ sessOn' = s /\ nops' = nops + 1
                    /\ hist' = Append(hist, [cur |-> c, sessOn |-> s]) /\ wops' = Append(wops, op)
                    /\ UNCHANGED rd

SetSession == /\ nops < MaxOps /\ cur # 0
              /\ \E c \in Classes(cur) : c \notin sessOn[cur] /\
                    Commit(cur, [sessOn EXCEPT ![cur] = @ \cup {c}], <<"set", cur, c[1], c[2]>>)
              /\ UNCHANGED used
ClearSession == /\ nops < MaxOps /\ cur # 0
                /\ \E c \in sessOn[cur] : Commit(cur, [sessOn EXCEPT ![cur] = @ \ {c}], <<"clear", cur, c[1], c[2]>>)
                /\ UNCHANGED used
Swap == /\ nops < MaxOps
        /\ \E t \in Ids \ used : Commit(t, sessOn, <<"swap", t, 0, 0>>) /\ used' = used \cup {t}

Begin(r) == /\ rd[r].pc = "idle"
            /\ \E p \in 1..Len(Pkts) : rd' = [rd EXCEPT ![r] = [Idle EXCEPT !.pc = "begun", !.b = Len(hist), !.pkt = p]]
            /\ UNCHANGED <<cur, sessOn, used, nops, hist, wops>>
GetPointer(r) == /\ rd[r].pc = "begun"
                 /\ rd' = [rd EXCEPT ![r].pc = "ptr", ![r].ptr = cur]
                 /\ UNCHANGED <<cur, sessOn, used, nops, hist, wops>>
Lookup(r) == /\ rd[r].pc = "ptr"
             /\ rd' = [rd EXCEPT ![r].pc = "done", ![r].e = Len(hist),
                                 ![r].res = RouteObj(rd[r].ptr, IF rd[r].ptr = 0 THEN {} ELSE sessOn[rd[r].ptr], Pkts[rd[r].pkt])]
             /\ UNCHANGED <<cur, sessOn, used, nops, hist, wops>>
Return(r) == /\ rd[r].pc = "done" /\ rd' = [rd EXCEPT ![r] = Idle]
             /\ UNCHANGED <<cur, sessOn, used, nops, hist, wops>>

Next == SetSession \/ ClearSession \/ Swap \/ \E r \in Readers : Begin(r) \/ GetPointer(r) \/ Lookup(r) \/ Return(r)
Spec == Init /\ [][Next]_vars

Linearizable == \A r \in Readers : rd[r].pc = "done" =>
                   \E k \in rd[r].b..rd[r].e : rd[r].res = RouteAt(hist[k], Pkts[rd[r].pkt])
\* a lookup never returns a session of a table object that was not installed during the lookup
NoStaleObject == \A r \in Readers : (rd[r].pc = "done" /\ rd[r].res # 0) =>
                   \E k \in rd[r].b..rd[r].e : hist[k].cur = rd[r].res \div 100

McView == <<cur, sessOn, used, nops, rd, IF Len(hist) > 3 THEN SubSeq(hist, Len(hist) - 3, Len(hist)) ELSE hist>>

Pfx(fam, v, len) == [fam |-> fam, v |-> v, len |-> len]
Cl(m, s) == [m |-> m, sess |-> s]
P(fam, dst, tos, frag) == [fam |-> fam, dst |-> dst, tos |-> tos, frag |-> frag]
T1 == <<[p |-> Pfx(4, 0, 1), cls |-> <<Cl("tos", 0), Cl("true", 0)>>], [p |-> Pfx(4, 20, 4), cls |-> <<Cl("true", 0)>>]>>
T2 == <<[p |-> Pfx(4, 16, 2), cls |-> <<Cl("true", 0)>>], [p |-> Pfx(4, 0, 0 - 26), cls |-> <<Cl("tos", 0)>>]>>
T3 == <<[p |-> Pfx(4, 20, 4), cls |-> <<Cl("tos", 0), Cl("true", 0)>>]>>
ConcTables == <<T1, T2, T3>>
ConcPkts == <<P(4, 21, 0, 0), P(4, 21, 184, 0), P(4, 3, 0, 0), P(4, 40, 184, 0)>>
=============================================================================
