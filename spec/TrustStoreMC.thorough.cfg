SPECIFICATION Spec
CONSTANTS
  Procs = {1, 2, 3}
  MaxSerial = 4
  InitLatest = 1
  MaxNotify = 3
INVARIANTS TypeOK Succession VerifiedChain
PROPERTIES NoRegress
CHECK_DEADLOCK FALSE
