SPECIFICATION Spec
CONSTANTS
  Keys = {1, 2}
  MaxTs = 5
  MaxTtl = 4
  MaxNow = 8
INVARIANTS SameOutcome Refines NeverExpired
PROPERTIES NewestKept
CHECK_DEADLOCK FALSE
