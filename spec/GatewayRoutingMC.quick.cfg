INIT Init
NEXT Next
CONSTANTS
  W = 4
  PrefixAlphabet <- McPrefixes
  ClassLists <- McClassListsQuick
  MaxEntries = 3
  Pkts <- McPkts
  Rules <- McRules
  MaxRules = 2
  IAs <- McIAs
  Queries <- McQueries
INVARIANTS LoopIsRoute NeverLessSpecific BackwardIsFirstMatch TextRoundTrip
CHECK_DEADLOCK FALSE
