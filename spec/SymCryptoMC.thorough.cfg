SPECIFICATION Spec
CONSTANTS
  Framing = "framed"
  MaxAttack = 2
INVARIANTS TypeOK Sound Complete ReturnsSigned
CHECK_DEADLOCK FALSE
