------------------------- MODULE TrafficClassTrace -------------------------
(* Trace specification for C43.  After a reset (packet grid) every line is an independent case: an
   expression (AST) that the driver rendered to the documented syntax, parsed with the real
   BuildClassTree, evaluated on real layers.IPv4 packets (true1 = indices of the packets on which the
   real Cond is true), printed with String(), parsed again and evaluated again (true2).

   VERIF-BAD keys:
     eval:true-on-false<kinds> | eval:false-on-true<kinds> | eval:both<kinds>   value differs from Eval
     roundtrip:value-changed<kinds> | roundtrip:printed-text-rejected<kinds>
     config:json-form-rejected<kinds> | config:json-value-changed<kinds>   the class loaded from its ClassMap
            JSON form (true3) must have the same value
     parse:valid-expression-rejected<kinds> | panic<kinds>                                    *)
EXTENDS TrafficClassOps, TLC, Json

Trace == ndJsonDeserialize("trace.ndjson")

VARIABLES l, pkts, nbad
vars == <<l, pkts, nbad>>
R == Trace[l]

Init == l = 1 /\ pkts = <<>> /\ nbad = 0

Bad(key) == PrintT(<<"VERIF-BAD", l, key>>) /\ nbad' = nbad + 1 /\ UNCHANGED pkts
Ok == UNCHANGED <<pkts, nbad>>
SetOf(s) == {s[i] : i \in 1..Len(s)}

Cls ==
    IF R.panic = 1 THEN Bad("panic" \o KindsKey(R.ast))
    ELSE IF R.err1 = 1 THEN Bad("parse:valid-expression-rejected" \o KindsKey(R.ast))
    ELSE \E want \in {{i \in 1..Len(pkts) : Eval(R.ast, pkts[i])}} :
         \E got \in {SetOf(R.true1)} :
           IF got # want THEN
              Bad((IF want \subseteq got THEN "eval:true-on-false"
                   ELSE IF got \subseteq want THEN "eval:false-on-true" ELSE "eval:both") \o KindsKey(R.ast))
           ELSE IF R.err2 = 1 THEN Bad("roundtrip:printed-text-rejected" \o KindsKey(R.ast))
           ELSE IF SetOf(R.true2) # want THEN Bad("roundtrip:value-changed" \o KindsKey(R.ast))
           ELSE IF R.err3 = 1 THEN Bad("config:json-form-rejected" \o KindsKey(R.ast))
           ELSE IF SetOf(R.true3) # want THEN Bad("config:json-value-changed" \o KindsKey(R.ast))
           ELSE Ok

Step == /\ l <= Len(Trace)
        /\ l' = l + 1
        /\ CASE R.ev = "reset" -> pkts' = R.pkts /\ UNCHANGED nbad
             [] R.ev = "cls" -> Cls
             [] OTHER -> Bad("no-spec-action:" \o R.ev)

Done == /\ l = Len(Trace) + 1
        /\ PrintT(<<"VERIF-STAT", "bad", nbad>>)
        /\ PrintT(<<"VERIF-DONE", Len(Trace)>>)
        /\ UNCHANGED vars

Next == Step \/ Done
Spec == Init /\ [][Next]_vars
=============================================================================
