--------------------------- MODULE DispatcherTrace ---------------------------
(* Trace specification for C44.  reset(on) starts a fresh server; every dg line is one datagram handed
   to the real Server.processMsgNextHop: the abstract datagram d and what the server did:
   k = "drop" | "fwd" (the received bytes, to host:port) | "reply" (a rebuilt packet, to host:port, decoded
   in `reply`).  The decision must be Out(d, on) whatever the server processed before.

   VERIF-BAD keys:
     reflect:forward-to-non-outer-destination:<class>   forwarded although host # outer destination
     fwd:should-be-dropped:<class> | fwd:wrong-destination:<class> | fwd:request-forwarded
     reply:to-non-request:<class> | reply:not-to-previous-hop | reply:malformed | reply:wrong-type |
     reply:addresses-not-swapped | reply:path-not-reversed | off:handled-non-request:<class> | panic | error
   VERIF-DRIFT: dropped although the statement allows delivery (the statement is an only-if);
                the reply to a request with an E2E extension (kept, while NextHdr says SCMP: DESIGN.md 8);
                an SCMP message whose destination is a service / unknown address type delivered because
                the raw address bytes equal the outer IP destination; identifier of the reply.     *)
EXTENDS DispatcherOps, TLC, Json

Trace == ndJsonDeserialize("trace.ndjson")

VARIABLES l, on, nbad
vars == <<l, on, nbad>>
R == Trace[l]

Init == l = 1 /\ on = TRUE /\ nbad = 0

Bad(key) == PrintT(<<"VERIF-BAD", l, key>>) /\ nbad' = nbad + 1 /\ UNCHANGED on
Drift(key) == PrintT(<<"VERIF-DRIFT", l, key>>) /\ UNCHANGED <<on, nbad>>
Ok == UNCHANGED <<on, nbad>>

Class(d) == IF d.mal # "no" THEN "malformed"
            ELSE IF d.l4 = "scmp" THEN "scmp-" \o d.st \o (IF d.st = "err" THEN "-quote-" \o d.q ELSE "")
                                       \o (IF d.dt # "ip" THEN "-dst-" \o d.dt ELSE "")
            ELSE d.l4 \o (IF d.dt # "ip" THEN "-dst-" \o d.dt ELSE "")

RawBytesRead(d) == d.l4 = "scmp" /\ d.dt \in {"svc", "bad"}

Dg ==
    LET d == R.d
        w == Out(d, on) IN
    IF R.panic = 1 THEN Bad("panic:" \o Class(d))
    ELSE IF R.err = 1 THEN Bad("error:" \o Class(d))
    ELSE IF R.pv = 1 THEN Bad("reflect:decision-depends-on-previous-hop:" \o Class(d))
    ELSE IF R.k = "fwd" THEN
        IF IsRequest(d) THEN Bad("fwd:request-forwarded")
        ELSE IF w.k = "fwd" /\ w.host = R.host /\ w.port = R.port THEN Ok
        ELSE IF R.host # d.outer THEN Bad("reflect:forward-to-non-outer-destination:" \o Class(d))
        ELSE IF ~on THEN Bad("off:handled-non-request:" \o Class(d))
        ELSE IF w.k = "fwd" THEN Bad("fwd:wrong-destination:" \o Class(d))
        ELSE IF RawBytesRead(d) THEN Drift("fwd:raw-destination-bytes-read-as-ip")
        ELSE Bad("fwd:should-be-dropped:" \o Class(d))
    ELSE IF R.k = "reply" THEN
        IF ~IsRequest(d) \/ d.mal # "no" THEN Bad("reply:to-non-request:" \o Class(d))
        ELSE IF R.host # "P" \/ R.port # 30042 THEN Bad("reply:not-to-previous-hop")
        ELSE IF R.reply.ok # 1 THEN Bad("reply:malformed")
        ELSE IF R.reply.type # (IF d.st = "echoreq" THEN "echorep" ELSE "trrep") THEN
             (IF d.ext \in {"e2e", "both"} THEN Drift("reply:e2e-extension-kept-but-next-header-scmp")
              ELSE Bad("reply:wrong-type"))
        ELSE IF R.reply.ia # 1 \/ R.reply.hosts # 1 THEN Bad("reply:addresses-not-swapped")
        ELSE IF R.reply.path # RevPath(d.path) THEN Bad("reply:path-not-reversed")
        ELSE IF R.reply.rid # d.id THEN Drift("reply:identifier-changed")
        ELSE Ok
    ELSE \* dropped
        IF w.k # "drop" THEN Drift("drop:" \o w.k \o "-allowed:" \o Class(d)) ELSE Ok

\* a structure-aware byte-level mutant of a datagram: its class is unknown.  Whatever it is: a forwarded
\* datagram goes to the outer destination, and that is the host written in the mutant's own SCION address
\* header (sdst: its raw destination bytes read as an IP address) or, for a service destination, the registered
\* host A (the raw-bytes reading of a service address is drift, as for the enumerated classes); nothing is forwarded with the dispatcher
\* function off; a rebuilt packet goes to the previous hop; no panic.
Mut == IF R.panic = 1 THEN Bad("mutant:panic:" \o R.op)
       ELSE IF R.k = "fwd" /\ R.host # R.outer THEN Bad("reflect:mutant-forwarded-to-non-outer-destination")
       ELSE IF R.k = "fwd" /\ ~on THEN Bad("off:mutant-forwarded")
       ELSE IF R.k = "fwd" /\ R.dsvc = 1 /\ R.host # "A" /\ R.host # R.sdst THEN Bad("fwd:mutant-not-to-its-scion-destination")
       ELSE IF R.k = "fwd" /\ R.dsvc = 0 /\ R.host # R.sdst THEN Bad("fwd:mutant-not-to-its-scion-destination")
       ELSE IF R.k = "fwd" /\ R.dsvc = 1 /\ R.host # "A" THEN Drift("fwd:raw-destination-bytes-read-as-ip")
       ELSE IF R.k = "reply" /\ (R.host # "P" \/ R.port # 30042) THEN Bad("reply:mutant-answered-not-to-previous-hop")
       ELSE Ok

Step == /\ l <= Len(Trace)
        /\ l' = l + 1
        /\ CASE R.ev = "reset" -> on' = (R.on = 1) /\ UNCHANGED nbad
             [] R.ev = "dg" -> Dg
             [] R.ev = "mut" -> Mut
             [] OTHER -> Bad("no-spec-action:" \o R.ev)

Done == /\ l = Len(Trace) + 1
        /\ PrintT(<<"VERIF-STAT", "bad", nbad>>)
        /\ PrintT(<<"VERIF-DONE", Len(Trace)>>)
        /\ UNCHANGED vars

Next == Step \/ Done
Spec == Init /\ [][Next]_vars
=============================================================================
