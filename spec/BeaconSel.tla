------------------------------ MODULE BeaconSel ------------------------------
(* C26 - exhaustive sanity of the selection over all small candidate lists: TLC builds every list of
   up to MaxN candidates (each up to MaxLen links over Links, ordered by length) and every k, and
   checks that the statement-level Select is well defined and has the structural properties the
   statement promises.  With Shape = "asfound" the relation found in the code before the repair is
   used instead: TLC then exhibits the k = 1 < n case that has no reference beacon (DESIGN.md D5). *)
EXTENDS BeaconSelOps, TLC

CONSTANTS Links, MaxLen, MaxN, MaxK, Shape     \* Shape: "stmt" | "asfound"

VARIABLES c, k, done
vars == <<c, k, done>>

Beacons == UNION {[1..n -> Links] : n \in 1..MaxLen}

Init == c = <<>> /\ k = 0 /\ done = FALSE
\* candidates are appended in order of length
Add == /\ ~done /\ Len(c) < MaxN
       /\ \E b \in Beacons : (IF Len(c) = 0 THEN TRUE ELSE Len(c[Len(c)]) <= Len(b)) /\ c' = Append(c, b)
       /\ UNCHANGED <<k, done>>
Pick == /\ ~done /\ Len(c) > 0 /\ \E kk \in 1..MaxK : k' = kk
        /\ done' = TRUE /\ UNCHANGED c
Next == Add \/ Pick
Spec == Init /\ [][Next]_vars

Res == IF Shape = "stmt" THEN Select(c, k) ELSE {SelectAsFound(c, k)}

NoPanic == done => Panic \notin Res
WellFormed == (done /\ Panic \notin Res) =>
    /\ Res # {}
    /\ \A r \in Res :
         /\ Len(r) = (IF Len(c) <= k THEN Len(c) ELSE k)                  \* exactly min(n, k)
         /\ \A i \in 1..Len(r) : r[i] \in 1..Len(c)                       \* candidates only
         /\ \A i, j \in 1..Len(r) : i # j => r[i] # r[j]                  \* no duplicates
         /\ \A i \in 1..(Len(r) - 1) : r[i] = i                           \* the k-1 first ones
         /\ Len(c) > k => r[k] >= k                                       \* one further candidate
    /\ SelectFirst(c, k) \in Select(c, k)
\* the last one is the first remaining candidate unless a strictly more diverse one exists
LastChoice == (done /\ Shape = "stmt" /\ Len(c) > k) =>
    \A r \in Res : r[k] # k => /\ Div(c[1], c[r[k]]) > BestServed(c, k)
                               /\ \A j \in k..Len(c) : Div(c[1], c[j]) <= Div(c[1], c[r[k]])
=============================================================================
