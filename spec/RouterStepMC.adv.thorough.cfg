SPECIFICATION Spec
CONSTANTS
  Cfg <- CfgA
  Kinds = {"scion"}
  Shapes <- ShapesT
  Vias = {0, 1, 2, 3, 4}
  SrcDom = {"L", "F"}
  DstDom = {"L", "F"}
  Faults = {"none"}
  L4Dom = {"udp"}
  InSideDom = {0, 1, 2, 3, 4, 6, 999}
  EgSideDom = {0, 1, 2, 3, 4, 5, 999}
  PeerDom = {FALSE, TRUE}
  ExpDom = {FALSE, TRUE}
  AuthDom <- AuthAll
  AlertDom <- NoAlert
  EpicDom <- EpicOK
INVARIANTS TypeOK InvC01 InvC05 InvC06 InvC12 InvC13 InvC15 InvC15Answer InvPtr
CONSTRAINT Emit
CHECK_DEADLOCK FALSE
