INIT TInit
NEXT TNext
CHECK_DEADLOCK FALSE
