---------------------------- MODULE DRKeyAdmit ----------------------------
(* C40 — admission control of the DRKey control service (control/drkey/grpc.Server), shaped like the
   code: a request arrives, the handler of its RPC runs its checks one after the other in the order
   of the source, the first failing check rejects, and only after the last one the engine is asked
   for a key.  TLC enumerates the complete abstract request lattice (DRKeyOps!Requests) and checks,
   for every request, that being served implies the statement's Admit predicate and that the engine
   is asked for the key of the authenticated / named entity.

   The same run is the scenario generator of the check: every terminal state prints one
   <<"SCN", ...>> line (abstract request + the model's outcome), which checks/C40.py hands to the Go
   driver; the driver calls the real handlers and DRKeyAdmitTrace.tla judges what they did.

   Variant (constant) selects a deliberately broken design used only to show that the invariant is
   not vacuous (the check runs it with c.tlc() and expects the violation):
     "code"      the design as implemented
     "anyhost"   validateHostHostReq with the IA tests dropped (served to any named host)          *)
EXTENDS DRKeyOps, TLC

CONSTANTS Variant,   \* "code" | "anyhost"
          Emit,      \* print one SCN line per lattice point
          OnlyRpc    \* "all", or one RPC name to restrict the lattice (used by the broken variant)

VARIABLES pc,     \* "idle" | "checking" | "served" | "rejected" | "done"
          req,    \* the abstract request being handled
          step,   \* index of the next check of the handler's pipeline
          why,    \* name of the check that rejected ("-" if none)
          asked   \* the key term the engine was asked for ("-" record if none)

vars == <<pc, req, step, why, asked>>

NoReq == [rpc |-> "-", proto |-> "-", src |-> "-", dst |-> "-", srcHost |-> "-", dstHost |-> "-",
          peer |-> "-", allow |-> "-", cert |-> "-"]
NoTerm == [m |-> "-", proto |-> "-", src |-> "-", dst |-> "-", srcHost |-> "-", dstHost |-> "-"]

(* The checks of each handler, in source order (control/drkey/grpc/drkey_service.go). *)
Pipeline(rpc) ==
    CASE rpc = "lvl1"     -> <<"peerinfo", "authinfo", "tlsinfo", "chain", "verify", "predefined">>
      [] rpc = "intra"    -> <<"peerinfo", "localendpoint", "tcpaddr", "allowlist">>
      [] rpc = "ashost"   -> <<"peerinfo", "notgeneric", "tcpaddr", "dstlocal", "dsthostpeer">>
      [] rpc = "hostas"   -> <<"peerinfo", "notgeneric", "tcpaddr", "srclocal", "srchostpeer">>
      [] rpc = "hosthost" -> <<"peerinfo", "notgeneric", "tcpaddr", "localside">>
      [] rpc = "sv"       -> <<"peerinfo", "tcpaddr", "allowlist">>

Pass(check, q) ==
    CASE check = "peerinfo"      -> q.peer # "none"
      [] check = "authinfo"      -> q.cert # "noauth"
      [] check = "tlsinfo"       -> q.cert # "nontls"
      [] check = "chain"         -> q.cert # "nochain"
      [] check = "verify"        -> q.cert # "invalid"
      [] check = "predefined"    -> q.proto # "niche"
      [] check = "localendpoint" -> q.src = "local" \/ q.dst = "local"
      [] check = "tcpaddr"       -> q.peer = "tcp"
      [] check = "allowlist"     -> q.allow = "hp"
      [] check = "notgeneric"    -> q.proto # "generic"
      [] check = "dstlocal"      -> q.dst = "local"
      [] check = "srclocal"      -> q.src = "local"
      [] check = "dsthostpeer"   -> q.dstHost = "peer"
      [] check = "srchostpeer"   -> q.srcHost = "peer"
      [] check = "localside"     ->
            IF Variant = "anyhost"
              THEN q.srcHost = "peer" \/ q.dstHost = "peer"
              ELSE (q.src = "local" /\ q.srcHost = "peer") \/ (q.dst = "local" /\ q.dstHost = "peer")

Init == pc = "idle" /\ req = NoReq /\ step = 0 /\ why = "-" /\ asked = NoTerm

\* a request arrives (the big nondeterministic choice is an action, not Init: workers parallelise)
Recv == /\ pc = "idle"
        /\ \E q \in Requests : (OnlyRpc = "all" \/ q.rpc = OnlyRpc) /\ req' = q
        /\ pc' = "checking" /\ step' = 1
        /\ UNCHANGED <<why, asked>>

\* the handler evaluates its next check
Check == /\ pc = "checking" /\ step <= Len(Pipeline(req.rpc))
         /\ LET c == Pipeline(req.rpc)[step] IN
            IF Pass(c, req)
              THEN /\ step' = step + 1 /\ UNCHANGED <<pc, why>>
              ELSE /\ pc' = "rejected" /\ why' = c /\ UNCHANGED step
         /\ UNCHANGED <<req, asked>>

\* all checks passed: the engine is asked for the key and the answer is returned
Serve == /\ pc = "checking" /\ step = Len(Pipeline(req.rpc)) + 1
         /\ asked' = KeyTerm(req)
         /\ pc' = "served"
         /\ UNCHANGED <<req, step, why>>

\* terminal: print the scenario for the driver
Finish == /\ pc \in {"served", "rejected"}
          /\ Emit => PrintT("SCN|" \o req.rpc \o "|" \o req.proto \o "|" \o req.src \o "|" \o req.dst \o "|" \o
                            req.srcHost \o "|" \o req.dstHost \o "|" \o req.peer \o "|" \o req.allow \o "|" \o
                            req.cert \o "|" \o pc \o "|" \o why)
          /\ pc' = "done"
          /\ UNCHANGED <<req, step, why, asked>>

Next == Recv \/ Check \/ Serve \/ Finish
Spec == Init /\ [][Next]_vars

-----------------------------------------------------------------------------
TypeOK == /\ pc \in {"idle", "checking", "served", "rejected", "done"}
          /\ req \in Requests \cup {NoReq}
          /\ step \in 0..7

(* C40: a key is handed out only if the statement admits the request ... *)
ServedOnlyIfAdmitted == pc = "served" => Admit(req)

(* ... and it is the key of the authenticated / named entity: for the level-1 RPC the destination AS
   is the certificate's AS and the source the local AS. *)
KeyForBoundEntity ==
    pc = "served" =>
        /\ asked = KeyTerm(req)
        /\ req.rpc = "lvl1" => asked.dst = CertIA(req) /\ asked.src = "local" /\ asked.dst # "none"
        /\ req.rpc = "ashost" => asked.dstHost = "peer" /\ asked.dst = "local"
        /\ req.rpc = "hostas" => asked.srcHost = "peer" /\ asked.src = "local"

\* nothing is asked of the engine for a rejected request
RejectedAsksNothing == pc = "rejected" => asked = NoTerm

\* reachability of every action (Recv, Check, Serve, Finish) was confirmed with -coverage 1; the check
\* additionally requires every RPC to have served at least one request on the implementation side.
=============================================================================
