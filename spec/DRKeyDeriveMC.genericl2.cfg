SPECIFICATION Spec
CONSTANTS
  AllowGenericL2 = TRUE
  Cells = {0, 3}
  D = 10
  W = 6
  G = 2
INVARIANTS Separated HostHostSeparated SelectedIsValid SelectedIfAny
CHECK_DEADLOCK FALSE
