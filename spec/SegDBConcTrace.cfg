SPECIFICATION Spec
CHECK_DEADLOCK FALSE
