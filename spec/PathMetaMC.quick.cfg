SPECIFICATION Spec
CONSTANTS
  Totals = {0,1,2,3,4,5,6,7,8,9,10,11,12,13,14,64,65,128,189}
INVARIANTS TypeOK AcceptExact Consistent InfAgree CellAgree Boundaries RevAgree IncUntilLast
PROPERTIES IncStep
CHECK_DEADLOCK FALSE
