--------------------------- MODULE RouterStepOps ---------------------------
(* Pure operators for the single-router adversarial / table properties of the border-router data
   plane (C01 C05 C06 C12 C13 C15; C09 uses the header-offset operators).

   RouterStep(c, p) transcribes, check by check and in the code's order,
   scionPacketProcessor.process / processEPIC / processOHP (router/dataplane.go) over an ABSTRACT
   packet p arriving at ONE router with configuration c.  The property predicates at the end of the
   module are phrased over (c, p, result) only - they never look at how the result was computed -
   so the same predicates judge the model (TLC invariants, RouterStep.tla) and the real router's
   recorded behaviour (RouterStepTrace.tla).

   Router configuration c:
     c.ifs  sequence of [id, sc ("ext" owned by this router | "sib" owned by a sibling router),
                        own ("-" | name of the owning sibling router), lt (link type as seen from
                        the local AS: "core" "parent" "child" "peer" "unset"), up (BFD: usable),
                        nbr (IA class of the far end)]
            interface 0 is the internal link.
     c.fix  [d3, d9, d12, d13 : BOOLEAN]   TRUE = the check sequence as the properties need it
            (and as /repo is after the fix: commits); FALSE = the sequence as originally found.

   Abstract packet p:
     kind "scion" | "epic" | "ohp";  via: interface id of the link the packet arrived on (0: a host
     on the internal network; an owned id: that external link; a sibling-owned id: the sibling link
     to the owner);  src, dst: IA classes ("L" local, "F" far, "N<k>" neighbour behind k);
     fault "none" | "len" (PayloadLen # actual) | "srchost" (undecodable / v4-in-v6 source host);
     seg: segment lengths (1..3 entries);  inf, hf: CurrINF, CurrHF (0-based);
     infos[i] = [cons, peer];
     hops[k]  = [in, eg (ConsIngress, ConsEgress), exp (expired now), vp (MAC valid under the SegID
                 found in the info field), vu (MAC valid under that SegID XOR the hop's own MAC
                 prefix, i.e. after the against-construction-direction ingress update), ia, ea
                 (router alert flags)];
     ep = [fresh, phvf, lhvf] (EPIC: packet timestamp fresh, PHVF / LHVF equal the EPIC MAC derived
                 from the full MAC of the last hop field this router verified).               *)
EXTENDS Integers, Sequences, TLC

\* ---------------------------------------------------------------- constants of the wire format
PP == 4            \* SCMP ParameterProblem
DU == 1            \* DestinationUnreachable
EXTDOWN == 5       \* ExternalInterfaceDown
INTDOWN == 6       \* InternalConnectivityDown
ALERTIN == -1      \* slow-path request: ingress router alert
ALERTEG == -2
CInvalidPacketSize == 19
CInvalidSrc == 33
CInvalidDst == 34
CInvalidPath == 48
CUnknownHFIngress == 49
CUnknownHFEgress == 50
CInvalidMAC == 51
CPathExpired == 52
CInvalidSegChange == 53

\* ---------------------------------------------------------------- configuration lookups
Known(c, id) == \E i \in 1..Len(c.ifs) : c.ifs[i].id = id
IfRec(c, id) == c.ifs[CHOOSE i \in 1..Len(c.ifs) : c.ifs[i].id = id]
Scope(c, id) == IF id = 0 THEN "int" ELSE IF Known(c, id) THEN IfRec(c, id).sc ELSE "none"
LinkT(c, id) == IF id # 0 /\ Known(c, id) THEN IfRec(c, id).lt ELSE "unset"
IsUp(c, id) == IF id # 0 /\ Known(c, id) THEN IfRec(c, id).up ELSE TRUE
Nbr(c, id) == IF id # 0 /\ Known(c, id) THEN IfRec(c, id).nbr ELSE "-"
\* identity of the link object d.interfaces[id]: all interfaces of one sibling share one link
LinkOf(c, id) == CASE id = 0 -> "int"
                   [] ~Known(c, id) -> "none"
                   [] IfRec(c, id).sc = "ext" -> "ext" \o ToString(id)
                   [] OTHER -> "sib" \o IfRec(c, id).own
\* Packet.Link.IfID(): the interface id only for external links
IngressFromLink(c, via) == IF Scope(c, via) = "ext" THEN via ELSE 0

\* ---------------------------------------------------------------- path meta arithmetic (scion.Base)
NumInf(p) == Len(p.seg)
NumHops(p) == p.seg[1] + (IF Len(p.seg) >= 2 THEN p.seg[2] ELSE 0) + (IF Len(p.seg) >= 3 THEN p.seg[3] ELSE 0)
InfOf(p, h) == IF h < p.seg[1] THEN 0
               ELSE IF Len(p.seg) >= 2 /\ h < p.seg[1] + p.seg[2] THEN 1 ELSE 2
IsXoverAt(p, h, i) == h + 1 < NumHops(p) /\ i # InfOf(p, h + 1)
IsFirstAfterXover(p, h, i) == i > 0 /\ h > 0 /\ i - 1 = InfOf(p, h - 1)
Singleton(p) == \E k \in 1..Len(p.seg) : p.seg[k] = 1
Hop(p, h) == p.hops[h + 1]
Info(p, i) == p.infos[i + 1]

\* ---------------------------------------------------------------- results
\* pk/pi: what the SCMP pointer designates ("hop"/"info" + index, "src", "dst", "zero", "none")
Res(disp, eg, xover, st, code, pk, pi, why) ==
    [disp |-> disp, eg |-> eg, xover |-> xover, st |-> st, code |-> code, pk |-> pk, pi |-> pi,
     why |-> why]
Discard(why) == Res("discard", 0, FALSE, 0, 0, "none", 0, why)
SlowR(st, code, pk, pi, eg, xover, why) == Res("slow", eg, xover, st, code, pk, pi, why)
Forward(eg, xover) == Res("forward", eg, xover, 0, 0, "none", 0, "ok")
Deliver == Res("deliver", 0, FALSE, 0, 0, "none", 0, "ok")

SegAllowed == {<<"core", "core">>, <<"child", "parent">>, <<"parent", "child">>,
               <<"child", "peer">>, <<"peer", "child">>}
XoverAllowed == {<<"core", "child">>, <<"child", "core">>, <<"child", "child">>}

\* ---------------------------------------------------------------- process()
\* `skip` is a set of check names left out (empty for the real sequence); used by the scenario
\* generator to find the near misses of every single check.
ProcessSk(c, p, skip) ==
  LET ing == IngressFromLink(c, p.via)
      h0 == p.hf
      i0 == p.inf
      hop0 == Hop(p, h0)
      inf0 == Info(p, i0)
      peering == inf0.peer /\ (h0 = p.seg[1] - 1 \/ h0 = p.seg[1])
      hdrIn == IF inf0.cons THEN hop0.in ELSE hop0.eg
      \* ingressInterface(): where the packet is supposed to have entered the AS
      firstAfter == ~peering /\ IsFirstAfterXover(p, h0, i0)
      claimed == IF firstAfter
                 THEN (IF Info(p, i0 - 1).cons THEN Hop(p, h0 - 1).in ELSE Hop(p, h0 - 1).eg)
                 ELSE hdrIn
      upd == ~inf0.cons /\ ing # 0 /\ ~peering
      mac0 == IF upd THEN hop0.vu ELSE hop0.vp
      alertIn == IF inf0.cons THEN hop0.ia ELSE hop0.ea
      xo == IsXoverAt(p, h0, i0) /\ ~peering
      h1 == IF xo THEN h0 + 1 ELSE h0
      i1 == IF xo THEN InfOf(p, h0 + 1) ELSE i0
      hop1 == Hop(p, h1)
      inf1 == Info(p, i1)
      eg == IF inf1.cons THEN hop1.eg ELSE hop1.in
      egScope == Scope(c, eg)
      inLT == LinkT(c, ing)
      egLT == LinkT(c, eg)
      alertEg == IF inf1.cons THEN hop1.ea ELSE hop1.ia
      hfCode(consCode, nonCode, cons) == IF cons THEN consCode ELSE nonCode
  IN
  \* parsePath
  IF "parse" \notin skip /\ ~inf0.peer /\ Singleton(p) THEN Discard("parse")
  ELSE IF "parse" \notin skip /\ i0 # InfOf(p, h0) THEN Discard("parse")
  \* determinePeer
  ELSE IF "peer" \notin skip /\ inf0.peer /\ Len(p.seg) # 2 THEN Discard("peer")
  \* validateHopExpiry
  ELSE IF "expiry" \notin skip /\ hop0.exp THEN SlowR(PP, CPathExpired, "hop", h0, 0, FALSE, "expiry")
  \* validateIngressID
  ELSE IF "ingressid" \notin skip /\ ing # 0 /\ ing # hdrIn
       THEN SlowR(PP, hfCode(CUnknownHFIngress, CUnknownHFEgress, inf0.cons), "hop", h0, 0, FALSE, "ingressid")
  \* validatePktLen
  ELSE IF "len" \notin skip /\ p.fault = "len" THEN SlowR(PP, CInvalidPacketSize, "zero", 0, 0, FALSE, "len")
  \* validateTransitUnderlaySrc
  ELSE IF "transit" \notin skip /\ h0 # 0 /\ ing = 0
          /\ (LinkOf(c, claimed) # LinkOf(c, p.via) \/ (c.fix.d9 /\ claimed = 0))
       THEN Discard("transit")
  \* validateSrcDstIA
  ELSE IF "srcia" \notin skip /\ ing = 0 /\ h0 = 0 /\ p.src # "L"
       THEN SlowR(PP, CInvalidSrc, "src", 0, 0, FALSE, "srcia")
  ELSE IF "dstia" \notin skip /\ ing = 0 /\ p.dst = "L" THEN SlowR(PP, CInvalidDst, "dst", 0, 0, FALSE, "dstia")
  ELSE IF "srcia" \notin skip /\ ing # 0 /\ p.src = "L" THEN SlowR(PP, CInvalidSrc, "src", 0, 0, FALSE, "srcia")
  ELSE IF "dstia" \notin skip /\ ing # 0 /\ ((h0 = NumHops(p) - 1) # (p.dst = "L"))
       THEN SlowR(PP, CInvalidDst, "dst", 0, 0, FALSE, "dstia")
  \* validateSrcHost
  ELSE IF "srchost" \notin skip /\ p.src = "L" /\ p.fault = "srchost"
       THEN SlowR(PP, CInvalidSrc, "zero", 0, 0, FALSE, "srchost")
  \* updateNonConsDirIngressSegID + verifyCurrentMAC
  ELSE IF "mac" \notin skip /\ ~mac0 THEN SlowR(PP, CInvalidMAC, "hop", h0, 0, FALSE, "mac")
  \* handleIngressRouterAlert
  ELSE IF "alertin" \notin skip /\ ing # 0 /\ alertIn THEN SlowR(ALERTIN, 0, "none", 0, 0, FALSE, "alertin")
  \* inbound
  ELSE IF p.dst = "L" THEN Deliver
  \* cross-over: second expiry and MAC check
  ELSE IF "expiry2" \notin skip /\ xo /\ hop1.exp THEN SlowR(PP, CPathExpired, "hop", h1, 0, TRUE, "expiry2")
  ELSE IF "mac2" \notin skip /\ xo /\ ~hop1.vp THEN SlowR(PP, CInvalidMAC, "hop", h1, 0, TRUE, "mac2")
  \* validateEgressID
  ELSE IF "egressid" \notin skip
          /\ (egScope = "none" \/ (ing = 0 /\ egScope = "sib") \/ (c.fix.d3 /\ ing = 0 /\ egScope # "ext"))
       THEN SlowR(PP, hfCode(CUnknownHFEgress, CUnknownHFIngress, inf1.cons), "hop", h1, eg, xo, "egressid")
  ELSE IF "linktype" \notin skip /\ ~xo /\ ing # 0 /\ <<inLT, egLT>> \notin SegAllowed
       THEN SlowR(PP, CInvalidPath, "hop", h1, eg, xo, "linktype")
  ELSE IF "linktype" \notin skip /\ xo /\ <<inLT, egLT>> \notin XoverAllowed
       THEN SlowR(PP, CInvalidSegChange, "info", i1, eg, xo, "linktype")
  \* handleEgressRouterAlert
  ELSE IF "alerteg" \notin skip /\ alertEg /\ egScope = "ext" THEN SlowR(ALERTEG, 0, "none", 0, eg, xo, "alerteg")
  \* validateEgressUp
  ELSE IF "up" \notin skip /\ ~IsUp(c, eg)
       THEN SlowR(IF egScope = "ext" THEN EXTDOWN ELSE INTDOWN, 0, "none", 0, eg, xo, "up")
  \* processEgress: IncPath fails at the end of the path
  ELSE IF egScope = "ext" /\ h1 >= NumHops(p) - 1 THEN Discard("pathend")
  ELSE Forward(eg, xo)

Process(c, p) == ProcessSk(c, p, {})

\* ---------------------------------------------------------------- processEPIC()
EpicSk(c, p, skip) ==
  LET r == ProcessSk(c, p, skip)
      n == NumHops(p)
      \* as found (D12): evaluated on the pointer before process(); fixed: on the hop field that was
      \* actually verified last (the one reached by this router's own cross-over)
      hv == IF c.fix.d12 /\ r.xover THEN p.hf + 1 ELSE p.hf
      isPen == hv = n - 2
      isLast == IF c.fix.d12 THEN hv = n - 1 ELSE p.hf = n - 1
  IN IF r.disp \notin {"forward", "deliver"} THEN r
     ELSE IF ~(isPen \/ isLast) THEN r
     ELSE IF "fresh" \notin skip /\ ~p.ep.fresh THEN Discard("fresh")
     ELSE IF "hvf" \notin skip /\ ~(IF isLast THEN p.ep.lhvf ELSE p.ep.phvf) THEN Discard("hvf")
     ELSE r

\* ---------------------------------------------------------------- processOHP()
\* OHP packet: seg = <<2>>, infos[1].cons, hops[1] = first hop (vp: MAC valid under the SegID found)
OhpSk(c, p, skip) ==
  LET ing == IngressFromLink(c, p.via)
      eg == Hop(p, 0).eg
  IN IF "cons" \notin skip /\ ~Info(p, 0).cons THEN Discard("cons")
     ELSE IF "len" \notin skip /\ p.fault = "len" THEN Discard("len")
     ELSE IF ing = 0 THEN
          IF "src" \notin skip /\ p.src # "L" THEN Discard("src")
          ELSE IF "nbr" \notin skip /\ (~Known(c, eg) \/ eg = 0) THEN Discard("nbr")
          ELSE IF "dst" \notin skip /\ Nbr(c, eg) # p.dst THEN Discard("dst")
          ELSE IF "mac" \notin skip /\ ~Hop(p, 0).vp THEN Discard("mac")
          ELSE Forward(eg, FALSE)
     ELSE IF "dst" \notin skip /\ p.dst # "L" THEN Discard("dst")
          ELSE IF "src" \notin skip /\ Nbr(c, ing) # p.src THEN Discard("src")
          ELSE Deliver

StepSk(c, p, skip) == CASE p.kind = "scion" -> ProcessSk(c, p, skip)
                        [] p.kind = "epic" -> EpicSk(c, p, skip)
                        [] p.kind = "ohp" -> OhpSk(c, p, skip)
RouterStep(c, p) == StepSk(c, p, {})

\* Slow path for router alerts (handleSCMPTraceRouteRequest): a traceroute request is answered; as
\* found (D13) every other packet is handed back, unchanged, to the link it came from; fixed: dropped.
SlowAlert(c, p) == IF p.l4 = "trreq" THEN "reply" ELSE IF c.fix.d13 THEN "drop" ELSE "reflect"

CheckNames == {"parse", "peer", "expiry", "ingressid", "len", "transit", "srcia", "dstia", "srchost",
               "mac", "alertin", "expiry2", "mac2", "egressid", "linktype", "alerteg", "up",
               "fresh", "hvf", "cons", "src", "nbr", "dst"}

\* ================================================================ property predicates
\* All of them are over (c, p, r) where r has at least: disp ("forward" "deliver" "slow" "discard"),
\* eg (egress interface id when disp = "forward"), xover (this router used two hop fields),
\* and for "slow": st, code, pk, pi.  They return "" when the property holds, otherwise the key of
\* the failure class.

Passed(r) == r.disp \in {"forward", "deliver"}
ViaClass(c, p) == CASE Scope(c, p.via) = "ext" -> "ext" [] Scope(c, p.via) = "sib" -> "sib" [] OTHER -> "host"
Peering(p) == Info(p, p.inf).peer /\ Len(p.seg) = 2 /\ (p.hf = p.seg[1] - 1 \/ p.hf = p.seg[1])
\* MAC validity of the current hop under the accumulator in force (scion-header.rst: against
\* construction direction the ingress border router first folds the hop's own MAC into SegID,
\* except on a peering hop).
CurMacOK(c, p) == IF ~Info(p, p.inf).cons /\ Scope(c, p.via) = "ext" /\ ~Peering(p)
                  THEN Hop(p, p.hf).vu ELSE Hop(p, p.hf).vp
PosClass(p) == (IF p.hf = 0 THEN "first" ELSE IF p.hf = NumHops(p) - 1 THEN "last" ELSE "mid")
Dir(p, i) == IF Info(p, i).cons THEN "cons" ELSE "noncons"

\* ---- C01
C01Key(c, p, r) ==
  IF p.kind = "ohp" THEN ""
  ELSE IF Passed(r) THEN
       IF Hop(p, p.hf).exp THEN "C01:passed-expired-current-hop:" \o ViaClass(c, p) \o "," \o Dir(p, p.inf)
       ELSE IF ~CurMacOK(c, p)
            THEN "C01:passed-invalid-mac-current-hop:" \o ViaClass(c, p) \o "," \o Dir(p, p.inf)
                 \o (IF Peering(p) THEN ",peering" ELSE "")
       ELSE IF r.xover /\ p.hf + 1 >= NumHops(p) THEN "C01:xover-beyond-path"
       ELSE IF r.xover /\ Hop(p, p.hf + 1).exp THEN "C01:passed-expired-hop-after-xover"
       ELSE IF r.xover /\ ~Hop(p, p.hf + 1).vp THEN "C01:passed-invalid-mac-hop-after-xover"
       ELSE ""
  ELSE IF r.disp = "slow" /\ r.st = PP /\ r.code \in {CInvalidMAC, CPathExpired} THEN
       \* the pointer designates a hop field this router had to check, and that one is offending
       IF r.pk # "hop" THEN "C01:pointer-not-a-hop-field:" \o p.kind \o "," \o r.pk
       ELSE IF r.pi \notin {p.hf, p.hf + 1} \/ r.pi >= NumHops(p) THEN "C01:pointer-wrong-hop"
       ELSE IF r.pi = p.hf /\ r.code = CInvalidMAC /\ CurMacOK(c, p) THEN "C01:mac-error-for-valid-hop"
       ELSE IF r.pi = p.hf /\ r.code = CPathExpired /\ ~Hop(p, p.hf).exp THEN "C01:expired-error-for-live-hop"
       ELSE IF r.pi = p.hf + 1 /\ r.code = CInvalidMAC /\ Hop(p, p.hf + 1).vp THEN "C01:mac-error-for-valid-hop"
       ELSE IF r.pi = p.hf + 1 /\ r.code = CPathExpired /\ ~Hop(p, p.hf + 1).exp THEN "C01:expired-error-for-live-hop"
       ELSE ""
  ELSE ""

\* ---- C05
\* the interface through which the packet claims to have entered the AS (statement: "the hop's
\* ingress interface"): that of the previous hop field when the current one is the first after a
\* regular segment change, else that of the current hop field.
ClaimedIngress(p) ==
  IF ~Peering(p) /\ IsFirstAfterXover(p, p.hf, p.inf)
  THEN (IF Info(p, p.inf - 1).cons THEN Hop(p, p.hf - 1).in ELSE Hop(p, p.hf - 1).eg)
  ELSE (IF Info(p, p.inf).cons THEN Hop(p, p.hf).in ELSE Hop(p, p.hf).eg)
ClaimClass(c, p) == LET x == ClaimedIngress(p) IN
  CASE x = 0 -> "internal" [] Scope(c, x) = "ext" -> "own-external"
    [] Scope(c, x) = "none" -> "unknown"
    [] LinkOf(c, x) = LinkOf(c, p.via) -> "sibling-same" [] OTHER -> "sibling-other"
C05Key(c, p, r) ==
  IF p.kind = "ohp" THEN ""
  ELSE IF ViaClass(c, p) = "ext" THEN
       IF Passed(r) /\ p.src = "L" THEN "C05:external-with-local-source-" \o r.disp
       ELSE IF r.disp = "deliver" /\ ~(p.hf = NumHops(p) - 1 /\ p.dst = "L")
            THEN "C05:delivered:" \o PosClass(p) \o ",dst=" \o p.dst
       ELSE IF r.disp = "forward" /\ p.hf = NumHops(p) - 1 /\ p.dst = "L" THEN "C05:last-hop-local-dst-forwarded-on"
       ELSE ""
  ELSE \* from inside the AS (host or sibling router)
       IF r.disp = "deliver" THEN "C05:internal-delivered-by-router:" \o ViaClass(c, p)
       ELSE IF r.disp = "forward" /\ p.hf = 0 /\ p.src # "L" THEN "C05:first-hop-foreign-source-forwarded:" \o ViaClass(c, p)
       ELSE IF r.disp = "forward" /\ p.dst = "L" THEN "C05:internal-local-dst-forwarded:" \o ViaClass(c, p)
       ELSE IF r.disp = "forward" /\ p.hf # 0
               /\ ~(Scope(c, ClaimedIngress(p)) = "sib" /\ LinkOf(c, ClaimedIngress(p)) = LinkOf(c, p.via))
            THEN "C05:transit-accepted:via=" \o ViaClass(c, p) \o ",claimed-ingress=" \o ClaimClass(c, p)
       ELSE ""

\* ---- C06
\* r.disp = "forward" means: handed to link r.eg by the fast path.  A packet that the slow path
\* hands back to the ingress link without having built an SCMP message is judged through C06Reflect.
C06Key(c, p, r) ==
  IF p.kind = "ohp" \/ r.disp # "forward" THEN ""
  ELSE LET ing == IngressFromLink(c, p.via)
           pair == <<LinkT(c, ing), LinkT(c, r.eg)>>
           ps == pair[1] \o "-" \o pair[2]
           \* a packet handed over inside the AS on which THIS router performs the segment change: the pair
           \* is (interface through which the packet entered the AS, egress)
           cp == <<LinkT(c, ClaimedIngress(p)), LinkT(c, r.eg)>>
       IN IF ing = 0 THEN
             (IF Scope(c, r.eg) # "ext"
              THEN "C06:from-inside-not-out-of-own-external:via=" \o ViaClass(c, p) \o ",egress-scope=" \o Scope(c, r.eg)
              ELSE IF r.xover /\ cp \notin XoverAllowed
              THEN "C06:segment-change-from-inside:" \o cp[1] \o "-" \o cp[2]
              ELSE "")
          ELSE IF Scope(c, r.eg) \notin {"ext", "sib"} THEN "C06:egress-not-an-interface:" \o Scope(c, r.eg)
          ELSE IF r.xover /\ pair \notin XoverAllowed THEN "C06:segment-change:" \o ps
          ELSE IF ~r.xover /\ pair \notin SegAllowed THEN "C06:in-segment:" \o ps \o (IF Peering(p) THEN ",peering" ELSE "")
          ELSE ""
\* the original packet was sent back out of the link it came in on (interface pair (X, X))
C06Reflect(c, p, xover) ==
  LET ing == IngressFromLink(c, p.via)
      lt == LinkT(c, ing)
  IN IF ing = 0 THEN "C06:reflected-to-inside:via=" \o ViaClass(c, p)
     ELSE IF (xover /\ <<lt, lt>> \notin XoverAllowed) \/ (~xover /\ <<lt, lt>> \notin SegAllowed)
          THEN "C06:reflected:" \o lt \o "-" \o lt ELSE ""
\* rejected link-type combinations are answered with a parameter problem
C06RejectKey(c, p, r, m) ==
  IF r.disp = "slow" /\ m.why \in {"linktype", "egressid"}
     /\ ~(r.st = PP /\ r.code \in {CInvalidPath, CInvalidSegChange, CUnknownHFIngress, CUnknownHFEgress})
  THEN "C06:reject-code:" \o ToString(r.st) \o "/" \o ToString(r.code) ELSE ""

\* ---- C12 (one-hop paths)
C12Key(c, p, r) ==
  IF p.kind # "ohp" THEN ""
  ELSE IF ViaClass(c, p) # "ext" THEN
       IF r.disp = "deliver" THEN "C12:ohp-from-inside-delivered"
       ELSE IF r.disp # "forward" THEN ""
       ELSE IF p.src # "L" THEN "C12:sent-out-with-foreign-source"
       ELSE IF ~Hop(p, 0).vp THEN "C12:sent-out-with-invalid-mac"
       ELSE IF ~Info(p, 0).cons THEN "C12:sent-out-against-construction-direction"
       ELSE IF r.eg # Hop(p, 0).eg \/ Scope(c, r.eg) \notin {"ext", "sib"} THEN "C12:sent-out-of-wrong-interface"
       ELSE IF Nbr(c, r.eg) # p.dst THEN "C12:sent-out-to-wrong-neighbour"
       ELSE ""
  ELSE IF r.disp = "forward" THEN "C12:incoming-ohp-forwarded-on"
       ELSE IF r.disp # "deliver" THEN ""
       ELSE IF p.dst # "L" THEN "C12:accepted-for-foreign-destination"
       ELSE IF p.src # Nbr(c, p.via) THEN "C12:accepted-from-wrong-neighbour"
       ELSE ""

\* ---- C13 (EPIC)
\* the hop field this router validated last: the current one, or the one reached by its own cross-over
C13Key(c, p, r) ==
  IF p.kind # "epic" \/ ~Passed(r) THEN ""
  ELSE LET hv == IF r.xover THEN p.hf + 1 ELSE p.hf
           n == NumHops(p)
       IN IF hv = n - 2 /\ ~p.ep.fresh THEN "C13:stale-accepted-at-penultimate" \o (IF r.xover THEN "-after-xover" ELSE "")
          ELSE IF hv = n - 2 /\ ~p.ep.phvf THEN "C13:bad-phvf-accepted" \o (IF r.xover THEN "-after-xover" ELSE "")
          ELSE IF hv = n - 1 /\ ~p.ep.fresh THEN "C13:stale-accepted-at-last"
          ELSE IF hv = n - 1 /\ ~p.ep.lhvf THEN "C13:bad-lhvf-accepted"
          ELSE ""
\* "at every other hop exactly like the embedded SCION path": r is the EPIC result, rs the result of
\* the same router for the twin packet of kind "scion"
C13TwinKey(c, p, r, rs) ==
  LET hv == IF rs.xover THEN p.hf + 1 ELSE p.hf
      n == NumHops(p)
  IN IF p.kind # "epic" \/ (Passed(rs) /\ hv >= n - 2) THEN ""
     ELSE IF r.disp # rs.disp \/ (r.disp = "forward" /\ r.eg # rs.eg)
             \/ (r.disp = "slow" /\ (r.st # rs.st \/ r.code # rs.code))
          THEN "C13:differs-from-scion-twin:" \o rs.disp \o "-vs-" \o r.disp ELSE ""

\* ---- C15 (BFD): r.eg is the link used when forwarding; m.egscope its scope
C15Key(c, p, r) ==
  IF p.kind = "ohp" THEN ""
  ELSE IF r.disp = "forward" /\ ~IsUp(c, r.eg) THEN "C15:forwarded-over-down-link:" \o Scope(c, r.eg)
  ELSE IF r.disp = "slow" /\ r.st \in {EXTDOWN, INTDOWN} THEN
       IF IsUp(c, r.eg) THEN "C15:down-reported-for-usable-link:" \o Scope(c, r.eg)
       ELSE IF (r.st = EXTDOWN) # (Scope(c, r.eg) = "ext") THEN "C15:wrong-scmp-type-for-scope:" \o Scope(c, r.eg)
       ELSE ""
  ELSE ""

\* ---------------------------------------------------------------- header offsets (C01/C09 pointer)
\* byte offset of info field i / hop field h in the RECEIVED packet
PathOff(addrLen, kind) == 12 + addrLen + (IF kind = "epic" THEN 16 ELSE 0)
InfoOff(p, addrLen, i) == PathOff(addrLen, p.kind) + 4 + 8 * i
HopOff(p, addrLen, h) == PathOff(addrLen, p.kind) + 4 + 8 * NumInf(p) + 12 * h
=============================================================================
