SPECIFICATION Spec
CONSTANTS
  NBuf = 6
  NC = 1
  Batch = 3
  NP = 2
  NS = 1
  QProc = 2
  QSlow = 2
  QInt = 2
  QEg = 2
  MaxPkts = 6
  MaxBfd = 0
  StopMode = "quiet"
  BfdSerErr = FALSE
VIEW View
INVARIANTS TypeOK OwnerUnique NoDoublePut Conservation NoSendOnClosed QuiescentHome StoppedHome
CHECK_DEADLOCK FALSE
