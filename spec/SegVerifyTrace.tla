--------------------------- MODULE SegVerifyTrace ---------------------------
(* Trace specification for C24.  Every "verify" line is one independent case: provenance tags of a
   (manipulated) real segment and the verdict of the REAL decoder + segverifier.VerifySegment.
   The verdict must be SegVerifyOps!SegmentVerifies of the tags - in both directions (iff).
   `accepted` is the verdict of signature verification alone (entries parsed one by one, no
   structural validation), `wire` the verdict of the full pipeline (SegmentFromPB/BeaconFromPB, then
   verification).  Keys carry the manipulation class.                                           *)
EXTENDS SegVerifyOps, TLC, Json

Trace == ndJsonDeserialize("trace.ndjson")
VARIABLES l, st
vars == <<l, st>>
R == Trace[l]

Init == l = 1 /\ st = [cases |-> 0, accepted |-> 0, rejected |-> 0, entries |-> 0]

Judge ==
    LET want == SegmentVerifies(R.ents, R.info, R.ts)
        keys == (IF R.accepted /\ ~want THEN {"accepted:" \o R.mut} ELSE {})
           \cup (IF R.wire /\ ~want THEN {"accepted(wire):" \o R.mut} ELSE {})
           \* a request whose context was cancelled may fail for that reason: only "accepted => verifies"
           \cup (IF R.ctx = "live" /\ want /\ ~R.accepted THEN {"rejected:" \o R.mut} ELSE {})
           \cup (IF R.ctx = "live" /\ want /\ ~R.wire THEN {"rejected(wire):" \o R.mut} ELSE {})
    IN  /\ \A k \in keys : PrintT(<<"VERIF-BAD", l, k>>)
        /\ st' = [cases |-> st.cases + 1, accepted |-> st.accepted + (IF R.accepted THEN 1 ELSE 0),
                  rejected |-> st.rejected + (IF R.accepted THEN 0 ELSE 1), entries |-> st.entries + Len(R.ents)]

Step == /\ l <= Len(Trace)
        /\ l' = l + 1
        /\ CASE R.ev = "reset" -> UNCHANGED st
             [] R.ev = "verify" -> Judge
             [] OTHER -> PrintT(<<"VERIF-BAD", l, "no-spec-action:" \o R.ev>>) /\ UNCHANGED st

Done == /\ l = Len(Trace) + 1
        /\ PrintT(<<"VERIF-STAT", "cases", st.cases>>)
        /\ PrintT(<<"VERIF-STAT", "accepted", st.accepted>>)
        /\ PrintT(<<"VERIF-STAT", "rejected", st.rejected>>)
        /\ PrintT(<<"VERIF-STAT", "entries", st.entries>>)
        /\ PrintT(<<"VERIF-DONE", Len(Trace)>>)
        /\ UNCHANGED vars

Next == Step \/ Done
Spec == Init /\ [][Next]_vars
=============================================================================
