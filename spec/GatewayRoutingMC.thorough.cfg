INIT Init
NEXT Next
CONSTANTS
  W = 4
  PrefixAlphabet <- McPrefixes
  ClassLists <- McClassLists
  MaxEntries = 3
  Pkts <- McPkts
  Rules <- McRules
  MaxRules = 3
  IAs <- McIAs
  Queries <- McQueries
INVARIANTS LoopIsRoute NeverLessSpecific BackwardIsFirstMatch TextRoundTrip
CHECK_DEADLOCK FALSE
