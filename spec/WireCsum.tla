----------------------------- MODULE WireCsum -----------------------------
(* C20 -- exhaustive model of the checksum computation, shaped like pkg/slayers/scion.go:
   computeChecksum = pseudoHeaderChecksum (ISD-AS words, address words, (len>>16)+(len&0xffff),
   protocol) ; upperLayerChecksum (pairs up to the "safe boundary", odd tail shifted left) ;
   foldChecksum (fold carries, complement).  One action per function, a 32-bit accumulator.

   Properties (C20), stated with the *documented layout* (WireOps!PseudoHeader / WordSum), not with
   the code's loops:
     SumIsFFFF      with the written checksum the sum over pseudo header and upper layer is 0xFFFF;
     FlipsDetected  flipping any single bit of the covered data (pseudo-header fields incl. length and
                    protocol, upper layer incl. an odd last byte and the checksum field) makes the sum
                    differ from 0xFFFF;
     OnlyTwinVerifies  besides the written checksum only its +-0 twin (0x0000 <-> 0xFFFF) verifies.
   Constant OddTail = FALSE is the "safeBoundary off by one" variant (the odd last byte is dropped):
   TLC then finds FlipsDetected violated (WireCsumMC.oddtail.cfg, demonstration only).            *)
EXTENDS WireOps, TLC

CONSTANTS ByteVals,    \* alphabet of the payload bytes
          MaxPayload,  \* payload lengths 0..MaxPayload
          AddrVecs,    \* set of <<dstIA, srcIA, dst, src>> tuples of byte strings
          OddTail      \* TRUE: as the code (odd tail byte added as high byte)

VARIABLES pc, in, csum, out
vars == <<pc, in, csum, out>>

\* upper-layer header with a zeroed checksum field: UDP (ports 1 / 65535, length) resp. SCMP (type 128, code 0)
Header(proto, plen) == IF proto = 17 THEN <<0, 1, 255, 255>> \o U16Bytes(8 + plen) \o <<0, 0>> ELSE <<128, 0, 0, 0>>
CkOff(proto) == IF proto = 17 THEN 6 ELSE 2

Init == /\ pc = "pick" /\ csum = 0 /\ out = <<>>
        /\ \E a \in AddrVecs, proto \in {17, 202} : in = [a |-> a, proto |-> proto, payload |-> <<>>]

Payloads == UNION {[1..n -> ByteVals] : n \in 0..MaxPayload}
Pick == /\ pc = "pick"
        /\ \E p \in Payloads : in' = [in EXCEPT !.payload = p]
        /\ pc' = "pseudo" /\ UNCHANGED <<csum, out>>

Upper0 == Header(in.proto, Len(in.payload)) \o in.payload

\* pseudoHeaderChecksum
Pseudo == /\ pc = "pseudo"
          /\ csum' = WordSum(in.a[2]) + WordSum(in.a[1]) + WordSum(in.a[4]) + WordSum(in.a[3])
                       + LenWords(Len(Upper0)) + in.proto
          /\ pc' = "upper" /\ UNCHANGED <<in, out>>

\* upperLayerChecksum: pairs below the safe boundary, then the odd tail
PairSum(b) == LET n == Len(b) \div 2 IN WordSum(SubSeq(b, 1, 2 * n))
Upper == /\ pc = "upper"
         /\ csum' = csum + PairSum(Upper0)
                      + (IF Len(Upper0) % 2 = 1 /\ OddTail THEN 256 * Upper0[Len(Upper0)] ELSE 0)
         /\ pc' = "fold" /\ UNCHANGED <<in, out>>

\* foldChecksum and the store into the checksum field
Fold == /\ pc = "fold"
        /\ LET ck == 65535 - Fold16(csum)
               o == CkOff(in.proto) IN
           out' = [Upper0 EXCEPT ![o + 1] = ck \div 256, ![o + 2] = ck % 256]
        /\ pc' = "done" /\ UNCHANGED <<in, csum>>

Next == Pick \/ Pseudo \/ Upper \/ Fold
Spec == Init /\ [][Next]_vars

-----------------------------------------------------------------------------
TypeOK == pc \in {"pick", "pseudo", "upper", "fold", "done"} /\ csum >= 0

SumIsFFFF == pc = "done" => Verifies(in.a[1], in.a[2], in.a[3], in.a[4], in.proto, out)

\* every single-bit flip of the covered data: the four address-header fields, the length and protocol
\* fields of the pseudo header, the upper layer (header, payload and the checksum field itself)
FlipsDetected ==
    pc = "done" =>
      LET ph == PseudoHeader(in.a[1], in.a[2], in.a[3], in.a[4], Len(out), in.proto)
          sph == WordSum(ph)
          sout == WordSum(out) IN
      /\ \A i \in 1..Len(ph), k \in 0..7 :
            Fold16(WordSum(FlipAt(ph, i, k)) + sout) # 65535
      /\ \A i \in 1..Len(out), k \in 0..7 :
            Fold16(sph + WordSum(FlipAt(out, i, k))) # 65535

\* The only other checksum value that verifies is the documented +-0 twin of one's-complement arithmetic
\* (0x0000 <-> 0xFFFF: all 16 bits differ, so no single-bit flip reaches it): checked for every value one
\* bit or one unit away from the written checksum and for the boundary values.
OnlyTwinVerifies ==
    pc = "done" =>
      LET o == CkOff(in.proto)
          ck == U16At(out, o + 1)
          s0 == CsumTotal(in.a[1], in.a[2], in.a[3], in.a[4], in.proto, out) - ck
          cands == {0, 1, 32767, 32768, 65534, 65535, (ck + 1) % 65536, (ck + 65535) % 65536}
                     \cup {IF (ck \div 2 ^ k) % 2 = 1 THEN ck - 2 ^ k ELSE ck + 2 ^ k : k \in 0..15} IN
      \A c \in cands : (Fold16(s0 + c) = 65535) <=> (c = ck \/ {c, ck} = {0, 65535})
=============================================================================
