SPECIFICATION Spec
CONSTANTS
  Rel = "code"
  Budget = 1
  Foreign = TRUE
INVARIANTS TypeOK
PROPERTIES Recovers
CHECK_DEADLOCK FALSE
