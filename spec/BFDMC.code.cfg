SPECIFICATION Spec
CONSTANTS
  Rel = "code"
  Budget = 1
INVARIANTS TypeOK
PROPERTIES Recovers
CHECK_DEADLOCK FALSE
