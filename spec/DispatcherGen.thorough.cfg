INIT Init
NEXT Next
CONSTANTS
  Datagrams <- WideSet
  MaxLen = 2
  Modes = {TRUE, FALSE}
CONSTRAINT Emit
CHECK_DEADLOCK FALSE
