------------------------------ MODULE TrustChain ------------------------------
(* C34: the case space for chain verification and for the trust provider.
   Part A (kind "verify"): a chain (1-3 certificates from a pool of correct and mis-issued ones),
     a TRC (root R1 / rotated root R2 / both) and a verification time around every boundary.
   Part B (kind "provider"): a TRC history S1 -> S2 (root rotated, grace period) placed on the time
     line so that "now" (= 0) falls into each region, chains in the database and at the remote.
   In-model: procedures shaped like cppki.VerifyChain and activeTRCs + filterVerifiableChains hand
   out only what the statement allows.  Every case is emitted as a scenario.                    *)
EXTENDS TrustStoreOps, TLC, Json

CONSTANTS FullTimes,    \* TRUE: every boundary +-1; FALSE: a subset
          PairsOnly     \* TRUE: only AS/CA pairs (no length / order variations) -- smaller quick space

Cert(id, kind, signer, nb, na, ia) == [id |-> id, kind |-> kind, signer |-> signer, nb |-> nb, na |-> na, ia |-> ia]

Times == IF FullTimes THEN {-1, 0, 1, 9, 10, 11, 19, 20, 21, 49, 50, 51, 59, 60, 61, 79, 80, 81, 89, 90, 91, 99, 100, 101, 180, 181, 190, 191, 200, 201}
         ELSE {-1, 0, 19, 20, 49, 50, 80, 81, 90, 91, 100, 101}

\* ---------------- part A pool (times in seconds around an arbitrary origin) ----------------
PoolA == <<
    Cert(1, "root", 1, 0, 100, 1),        \* R1
    Cert(2, "root", 2, 50, 200, 1),       \* R2: rotated root (same subject name)
    Cert(3, "root", 3, 0, 200, 1),        \* R9: a root no TRC contains
    Cert(4, "ca", 1, 10, 90, 1),          \* CA1 under R1
    Cert(5, "ca", 2, 60, 190, 1),         \* CA2 under R2
    Cert(6, "ca", 3, 10, 190, 1),         \* CA under the unknown root
    Cert(7, "ca", 1, 10, 90, 1),          \* CA1': same name as CA1, other key
    Cert(8, "ca-ds", 1, 10, 90, 1),       \* digitalSignature set
    Cert(9, "ca-noia", 1, 10, 90, 0),     \* no ISD-AS in the subject
    Cert(10, "ca-nobc", 1, 10, 90, 1),    \* no basic constraints
    Cert(11, "ca-serverauth", 1, 10, 90, 1),
    Cert(12, "as", 4, 20, 80, 2),         \* AS under CA1
    Cert(13, "as", 4, 10, 90, 2),         \* exactly the CA's validity
    Cert(14, "as", 4, 9, 80, 2),          \* starts before the CA
    Cert(15, "as", 4, 20, 91, 2),         \* ends after the CA
    Cert(16, "as", 5, 70, 180, 2),        \* AS under CA2
    Cert(17, "as", 6, 20, 80, 2),         \* AS under the CA of the unknown root
    Cert(18, "as", 1, 20, 80, 2),         \* AS certificate signed by the root directly
    Cert(19, "as-certsign", 4, 20, 80, 2),
    Cert(20, "as-nods", 4, 20, 80, 2),
    Cert(21, "as-nots", 4, 20, 80, 2),    \* no timeStamping usage
    Cert(22, "as-isca", 4, 20, 80, 2),
    Cert(23, "as-noia", 4, 20, 80, 0),
    Cert(24, "as", 8, 20, 80, 2), Cert(25, "as", 9, 20, 80, 2), Cert(26, "as", 10, 20, 80, 2),
    Cert(27, "as", 11, 20, 80, 2)         \* AS certificates under the malformed CAs
>>
CertsA == [i \in 1..Len(PoolA) |-> PoolA[i]]
TRCsA == << [serial |-> 1, base |-> 1, nb |-> 0, na |-> 100, grace |-> 0, roots |-> {1}],
            [serial |-> 2, base |-> 1, nb |-> 50, na |-> 200, grace |-> 10, roots |-> {2}],
            [serial |-> 2, base |-> 1, nb |-> 50, na |-> 100, grace |-> 10, roots |-> {1, 2}] >>
ASIds == {i \in 1..Len(PoolA) : PoolA[i].kind \notin {"root", "ca", "ca-ds", "ca-noia", "ca-nobc", "ca-serverauth"}}
CAIds == {i \in 1..Len(PoolA) : PoolA[i].kind \in {"ca", "ca-ds", "ca-noia", "ca-nobc", "ca-serverauth"}}
ChainsA == {<<a, c>> : a \in ASIds, c \in CAIds} \cup
           (IF PairsOnly THEN {} ELSE
              {<<c, a>> : a \in {12, 16}, c \in {4, 5}} \cup {<<12>>, <<4>>, <<12, 4, 1>>, <<12, 1>>, <<18, 1>>,
               <<12, 12>>, <<4, 4>>, <<16, 2>>})

\* ---------------- part B pool (times in days, now = 0) ----------------
\* timelines: [nb1, na1, nb2, na2, grace, two] ; two = FALSE: only S1 exists (base TRC)
Timelines == <<
    [nb1 |-> -100, na1 |-> 100, nb2 |-> 5, na2 |-> 200, grace |-> 10, two |-> TRUE],     \* latest not yet valid
    [nb1 |-> -100, na1 |-> 100, nb2 |-> -5, na2 |-> 200, grace |-> 10, two |-> TRUE],    \* in grace
    [nb1 |-> -100, na1 |-> -2, nb2 |-> -5, na2 |-> 200, grace |-> 10, two |-> TRUE],     \* in grace, S1 expired
    [nb1 |-> -100, na1 |-> 100, nb2 |-> -5, na2 |-> 200, grace |-> 3, two |-> TRUE],     \* grace over
    [nb1 |-> -100, na1 |-> 100, nb2 |-> -5, na2 |-> 200, grace |-> 0, two |-> TRUE],     \* no grace
    [nb1 |-> -100, na1 |-> 100, nb2 |-> -50, na2 |-> -3, grace |-> 100, two |-> TRUE],   \* latest expired (grace still running)
    [nb1 |-> -100, na1 |-> 100, nb2 |-> 0, na2 |-> 0, grace |-> 0, two |-> FALSE],       \* base TRC only, valid
    [nb1 |-> -100, na1 |-> -4, nb2 |-> 0, na2 |-> 0, grace |-> 0, two |-> FALSE],        \* base TRC only, expired
    [nb1 |-> 3, na1 |-> 100, nb2 |-> 0, na2 |-> 0, grace |-> 0, two |-> FALSE]           \* base TRC only, not yet valid
>>
PoolB == <<
    Cert(1, "root", 1, -300, 300, 1), Cert(2, "root", 2, -300, 300, 1), Cert(3, "root", 3, -300, 300, 1),
    Cert(4, "ca", 1, -200, 250, 1), Cert(5, "ca", 2, -200, 250, 1), Cert(6, "ca", 3, -200, 250, 1),
    Cert(7, "as", 4, -20, 20, 2),          \* via R1
    Cert(8, "as", 5, -20, 20, 2),          \* via R2
    Cert(9, "as", 6, -20, 20, 2),          \* via the unknown root
    Cert(10, "as", 4, -20, -3, 2),         \* via R1, expired
    Cert(11, "as", 5, 4, 20, 2),           \* via R2, not yet valid
    Cert(12, "ca", 2, -200, -6, 1), Cert(13, "as", 12, -20, -7, 2)   \* via R2 with an expired CA
>>
CertsB == [i \in 1..Len(PoolB) |-> PoolB[i]]
ChainsB == {<<7, 4>>, <<8, 5>>, <<9, 6>>, <<10, 4>>, <<11, 5>>, <<13, 12>>, <<7, 5>>}
ChainSetsB == {S \in SUBSET ChainsB : Cardinality(S) <= 2}
LatestT(tl) == IF tl.two THEN [serial |-> 2, base |-> 1, nb |-> tl.nb2, na |-> tl.na2, grace |-> tl.grace, roots |-> {2}]
              ELSE [serial |-> 1, base |-> 1, nb |-> tl.nb1, na |-> tl.na1, grace |-> 0, roots |-> {1}]
PredT(tl) == [serial |-> 1, base |-> 1, nb |-> tl.nb1, na |-> tl.na1, grace |-> 0, roots |-> {1}]

\* ---------------- cases ----------------
VARIABLES cs
vars == <<cs>>
Init == cs = [kind |-> "init"]
PickA == \E ch \in ChainsA, k \in 1..Len(TRCsA), t \in Times :
            cs' = [kind |-> "verify", chain |-> ch, trc |-> k, t |-> t]
\* qv: the validity instant of the chain query (0 = no validity in the query); whatever is asked for, a
\* chain is handed out only if it verifies NOW
PickB == \E i \in 1..Len(Timelines), D \in ChainSetsB, F \in ChainSetsB, qv \in {0, -10, 10} :
            /\ Cardinality(D) + Cardinality(F) <= 2
            /\ qv # 0 => Cardinality(D) + Cardinality(F) = 1
            /\ cs' = [kind |-> "provider", tl |-> i, db |-> D, remote |-> F, qv |-> qv]
\* TRC update during operation: the store holds S1 and the chains D; chains are requested, then S2
\* (time line tl) arrives through NotifyTRC, then chains are requested again
PickH == \E i \in {k \in 1..Len(Timelines) : Timelines[k].two}, D \in ChainSetsB :
            cs' = [kind |-> "history", tl |-> i, db |-> D, remote |-> {}, qv |-> 0]
Next == cs.kind = "init" /\ (PickA \/ PickB \/ PickH)
Spec == Init /\ [][Next]_vars

-----------------------------------------------------------------------------
\* shape of cppki.VerifyChain(chain, {trc}, t): ValidateChain, then x509 path building AS -> CA -> root
CodeVerify(Certs, chain, trc, t) ==
    /\ Len(chain) = 2
    /\ Certs[chain[1]].kind = "as" /\ Certs[chain[2]].kind = "ca"
    /\ Certs[chain[2]].nb <= Certs[chain[1]].nb /\ Certs[chain[1]].na <= Certs[chain[2]].na
    /\ Certs[chain[1]].signer = chain[2]
    /\ Certs[chain[2]].signer \in trc.roots
    /\ \A i \in {chain[1], chain[2], Certs[chain[2]].signer} : ValidAt(Certs[i], t)
\* shape of activeTRCs + filterVerifiableChains at now = 0
CodeActive(tl) == LET L == LatestT(tl) IN
                  IF ~(L.nb <= 0 /\ 0 <= L.na) THEN {}
                  ELSE IF ~InGrace(L, 0) THEN {L} ELSE {L, PredT(tl)}
CodeProvides(tl, ch) == \E T \in CodeActive(tl) : CodeVerify(CertsB, ch, T, 0)

SoundA == cs.kind = "verify" => (CodeVerify(CertsA, cs.chain, TRCsA[cs.trc], cs.t) => ChainOK(CertsA, cs.chain, TRCsA[cs.trc], cs.t))
SoundH == cs.kind = "history" =>
            LET S1 == PredT(Timelines[cs.tl])
                onlyS1 == [Timelines[cs.tl] EXCEPT !.two = FALSE] IN
            \A ch \in cs.db :
               /\ CodeProvides(onlyS1, ch) => ProviderOK(CertsB, ch, S1, S1, FALSE, 0)
               /\ CodeProvides(Timelines[cs.tl], ch) =>
                     ProviderOK(CertsB, ch, LatestT(Timelines[cs.tl]), S1, TRUE, 0)
SoundB == cs.kind = "provider" =>
            \A ch \in cs.db \cup cs.remote :
               CodeProvides(Timelines[cs.tl], ch) =>
                  ProviderOK(CertsB, ch, LatestT(Timelines[cs.tl]), PredT(Timelines[cs.tl]), Timelines[cs.tl].two, 0)

SetSeq(S) == IF S = {} THEN <<>> ELSE
             LET RECURSIVE f(_)
                 f(T) == IF T = {} THEN <<>> ELSE LET x == CHOOSE y \in T : TRUE IN <<x>> \o f(T \ {x})
             IN f(S)
Emit == cs.kind # "init" =>
          PrintT(<<"SCN", ToJson(IF cs.kind = "verify" THEN cs
                                  ELSE [kind |-> cs.kind, tl |-> Timelines[cs.tl], db |-> SetSeq(cs.db), remote |-> SetSeq(cs.remote), qv |-> cs.qv])>>)
ASSUME PrintT(<<"POOLA", ToJson(PoolA)>>) /\ PrintT(<<"POOLB", ToJson(PoolB)>>)
          /\ PrintT(<<"TRCSA", ToJson([i \in 1..Len(TRCsA) |-> [TRCsA[i] EXCEPT !.roots = SetSeq(@)]])>>)
=============================================================================
