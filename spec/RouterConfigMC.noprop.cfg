SPECIFICATION Spec
CONSTANTS
  Steps = {"key", "internal", "ext", "hop", "svc", "range"}
  OtherProv = {}
  SwapSites = {}
  Propagate = "none"
  Emit = FALSE
INVARIANTS BufferSizesReach RangeInForce AllOpened
CHECK_DEADLOCK FALSE
