--------------------------- MODULE GatewayRouting ---------------------------
(* C42: exhaustive model for the gateway routing table and routing policies.

   Routing table.  The model is shaped like RoutingTable.route (gateway/dataplane/routingtable.go): a
   loop over the table entries in table order keeping `highestMask` and `ret`, preceded by the
   fragment test of IPForwarder.Run.  For every table (distinct prefixes, in every order) and every
   packet the loop ends with the session the declarative Route() demands (LoopIsRoute) and never with
   a session of a less specific prefix (NeverLessSpecific).

   Policies.  `pol` is built rule by rule; for every policy, IA pair and query prefix the backward
   add/remove construction of the code computes the same set as the first-match definition
   (BackwardIsFirstMatch), and the model's own text form survives Marshal o Unmarshal
   (TextRoundTrip).                                                                          *)
EXTENDS GatewayRoutingOps, TLC

CONSTANTS W,           \* address bits
          PrefixAlphabet,    \* prefix alphabet of the tables
          ClassLists,  \* alphabet of class lists
          MaxEntries,
          Pkts,        \* packets
          Rules,       \* rule alphabet
          MaxRules,
          IAs,         \* ISD-AS values for from / to
          Queries      \* query prefixes

VARIABLES phase,   \* "pick" | "loop" | "done" | "pol"
          table, pkt, i, highestMask, ret,   \* route loop
          pol
vars == <<phase, table, pkt, i, highestMask, ret, pol>>

NoPkt == [fam |-> 4, dst |-> 0, tos |-> 0, frag |-> 0]
EmptyPol == [rules |-> <<>>, def |-> 1]

Init == /\ phase = "pick" /\ table = <<>> /\ pkt = NoPkt /\ i = 0 /\ highestMask = 0 /\ ret = 0
        /\ pol = EmptyPol

\* grow the table by one entry with a new prefix (every order of every set is reached)
AddEntry == /\ phase = "pick" /\ Len(table) < MaxEntries /\ Len(pol.rules) = 0
            /\ \E p \in PrefixAlphabet, cl \in ClassLists :
                 /\ DistinctPrefixes(Append(table, [p |-> p, cls |-> cl]), W)
                 /\ table' = Append(table, [p |-> p, cls |-> cl])
            /\ UNCHANGED <<phase, pkt, i, highestMask, ret, pol>>

\* IPForwarder.Run: a packet arrives; fragments are dropped before routing
Receive == /\ phase = "pick" /\ Len(table) >= 1
           /\ \E p \in Pkts :
                /\ pkt' = p
                /\ IF p.fam = 4 /\ p.frag # 0 THEN phase' = "done" /\ ret' = 0
                   ELSE phase' = "loop" /\ ret' = 0
           /\ i' = 1 /\ highestMask' = 0 /\ UNCHANGED <<table, pol>>

\* one iteration of `for _, e := range rt.table`
LoopStep == /\ phase = "loop"
            /\ IF i > Len(table) THEN phase' = "done" /\ UNCHANGED <<i, highestMask, ret>>
               ELSE /\ i' = i + 1 /\ phase' = "loop"
                    /\ IF ~PContains(table[i].p, pkt.fam, pkt.dst, W) THEN UNCHANGED <<highestMask, ret>>
                       ELSE IF MaskBits(table[i].p, W) < highestMask THEN UNCHANGED <<highestMask, ret>>
                       ELSE highestMask' = MaskBits(table[i].p, W) /\ ret' = EntryRoute(table, i, pkt)
            /\ UNCHANGED <<table, pkt, pol>>

AddRule == /\ phase \in {"pick", "pol"} /\ Len(table) = 0 /\ Len(pol.rules) < MaxRules
           /\ \E r \in Rules, d \in {0, 1} :
                pol' = [rules |-> Append(pol.rules, r), def |-> IF Len(pol.rules) = 0 THEN d ELSE pol.def]
           /\ phase' = "pol" /\ UNCHANGED <<table, pkt, i, highestMask, ret>>

Next == AddEntry \/ Receive \/ LoopStep \/ AddRule
Spec == Init /\ [][Next]_vars

-----------------------------------------------------------------------------
LoopIsRoute == phase = "done" => ret = Route(table, pkt, W)
NeverLessSpecific ==
    (phase = "done" /\ ret # 0) =>
        LET e == ret \div 10 IN
        /\ PContains(table[e].p, pkt.fam, pkt.dst, W)
        /\ \A k \in 1..Len(table) : PContains(table[k].p, pkt.fam, pkt.dst, W) => table[k].p.len <= table[e].p.len
        /\ table[e].cls[ret % 10].sess = 1 /\ ClassEval(table[e].cls[ret % 10].m, pkt)
        /\ \A j \in 1..((ret % 10) - 1) : ~ClassEval(table[e].cls[j].m, pkt)
        /\ (pkt.fam = 4 => pkt.frag = 0)

BackwardIsFirstMatch ==
    phase = "pol" =>
      \A f \in IAs, t \in IAs, q \in Queries :
         CodeShapedMatch(pol, f, t, q, W) = MatchSet(pol, f, t, q, W)

(* the model's own text form of a policy: one line per rule, columns action / from / to / network *)
IAText(m) == <<m.neg, m.isd, m.as>>
RuleText(r) == <<r.act, IAText(r.from), IAText(r.to), <<r.neg, r.nets>>>>
Marshal(p) == [k \in 1..Len(p.rules) |-> RuleText(p.rules[k])]
UnIA(t) == [isd |-> t[2], as |-> t[3], neg |-> t[1]]
Unmarshal(txt, def) ==
    [rules |-> [k \in 1..Len(txt) |-> [act |-> txt[k][1], from |-> UnIA(txt[k][2]), to |-> UnIA(txt[k][3]),
                                       nets |-> txt[k][4][2], neg |-> txt[k][4][1]]],
     def |-> def]
TextRoundTrip ==
    phase = "pol" =>
      LET p2 == Unmarshal(Marshal(pol), pol.def) IN
      \A f \in IAs, t \in IAs :
         /\ Advertise(p2, f, t) = Advertise(pol, f, t)
         /\ \A q \in Queries : MatchSet(p2, f, t, q, W) = MatchSet(pol, f, t, q, W)

-----------------------------------------------------------------------------
(* MC alphabets *)
Pfx(fam, v, len) == [fam |-> fam, v |-> v, len |-> len]
Cl(m, s) == [m |-> m, sess |-> s]
IAM(isd, as, neg) == [isd |-> isd, as |-> as, neg |-> neg]
IA(isd, as) == [isd |-> isd, as |-> as]
Rule(act, f, t, nets, neg) == [act |-> act, from |-> f, to |-> t, nets |-> nets, neg |-> neg]
P(fam, dst, tos, frag) == [fam |-> fam, dst |-> dst, tos |-> tos, frag |-> frag]

McPrefixes == {Pfx(4, 0, 0), Pfx(4, 0, 1), Pfx(4, 4, 2), Pfx(4, 5, 4), Pfx(6, 0, 1), Pfx(4, 0, 0 - 28)}
McClassLists == {<<Cl("true", 1)>>, <<Cl("tos", 0), Cl("true", 1)>>, <<Cl("tos", 1)>>}
McClassListsQuick == {<<Cl("tos", 0), Cl("true", 1)>>, <<Cl("tos", 1)>>}
McPkts == {P(4, d, t, f) : d \in {0, 4, 5, 7, 9, 15}, t \in {0, 184}, f \in {0}} \cup
          {P(4, 5, 0, 1), P(4, 5, 184, 2), P(6, 5, 0, 0), P(6, 9, 184, 0), P(4, 0 - 1, 0, 0), P(6, 0 - 1, 184, 0), P(6, 5, 0, 3), P(6, 9, 0, 4)}
AnyIA == IAM(0, 0, 0)
McRules == {Rule(a, f, AnyIA, n[1], n[2]) : a \in {"accept", "reject", "advertise"},
                                             f \in {AnyIA, IAM(1, 1, 1)},
                                             n \in {<<<<Pfx(4, 0, 1)>>, 0>>, <<<<Pfx(4, 4, 2), Pfx(4, 12, 3)>>, 0>>,
                                                    <<<<Pfx(4, 4, 2)>>, 1>>}}
McIAs == {IA(1, 1), IA(2, 1)}
McQueries == {Pfx(4, 0, 0), Pfx(4, 4, 1)}
=============================================================================
