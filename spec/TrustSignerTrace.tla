--------------------------- MODULE TrustSignerTrace ---------------------------
(* Trace specification for C36.
     pool      {pool}: certificate pool (id = position), once
     reset     {tl, keys, chains}: one scenario: TRC time line, key ring, chains in the store (now = 0)
     generate  {n, errnil}: SignerGen.Generate returned n signers
     signer    {key, chain, ingrace, exp, trcserial, signok, verifyok, verifyother, subjectok, vlate}: one of them:
               which ring key it uses, its chain, InGrace, Expiration (abstract time), and what happened when
               it signed a message and verifiers bound to its ISD-AS / to another ISD-AS checked it
     direct    {exp, signok}: a signer value with the given Expiration asked to sign
   Monitor: every generated signer satisfies SignerRule (TrustStoreOps, from the statement); a signer
   whose expiry has passed does not sign; what it signs verifies with a verifier bound to its ISD-AS. *)
EXTENDS TrustStoreOps, TLC, Json

Trace == ndJsonDeserialize("trace.ndjson")

VARIABLES l, pool, sc, nsig, ngrace, nexpired
vars == <<l, pool, sc, nsig, ngrace, nexpired>>
R == Trace[l]
RangeOf(s) == {s[i] : i \in 1..Len(s)}
Certs == [i \in 1..Len(pool) |-> pool[i]]

Init == l = 1 /\ pool = <<>> /\ sc = [tl |-> 0] /\ nsig = 0 /\ ngrace = 0 /\ nexpired = 0
Bad(key) == PrintT(<<"VERIF-BAD", l, key>>)

Signer ==
    LET tl == sc.tl
        latest == IF tl.two THEN [serial |-> 2, base |-> 1, nb |-> tl.nb2, na |-> tl.na2, grace |-> tl.grace,
                               roots |-> IF tl.keep THEN {1} ELSE {2}]
                  ELSE [serial |-> 1, base |-> 1, nb |-> tl.nb1, na |-> tl.na1, grace |-> 0, roots |-> {1}]
        pred == [serial |-> 1, base |-> 1, nb |-> tl.nb1, na |-> tl.na1, grace |-> 0, roots |-> {1}]
        known == \A i \in 1..Len(R.chain) : R.chain[i] >= 1 /\ R.chain[i] <= Len(pool)
        s == [key |-> R.key, chain |-> R.chain, ingrace |-> R.ingrace, exp |-> R.exp]
        rule == IF ~known \/ Len(R.chain) # 2 THEN "unknown-chain"
                ELSE SignerRule(Certs, RangeOf(sc.chains), RangeOf(sc.keys), latest, pred, tl.two, 0, s) IN
    /\ rule # "" => Bad("signer:" \o rule)
    /\ R.subjectok = 0 => Bad("signer:other-isd-as")
    /\ (R.signok = 1 /\ R.exp < 0) => Bad("signer:signs-after-expiry")
    /\ (R.signok = 1 /\ R.verifyok = 0) => Bad("signer:signed-message-does-not-verify" \o (IF R.ingrace THEN "-in-grace" ELSE ""))
    \* vlate: a verifier with its cache first saw a message of this signer while its trust engine had no chain
    \* for it (refused), then the chain became available: 1 verified, 0 still refused, 2 verified without chain
    /\ R.vlate = 0 => Bad("signer:signed-message-does-not-verify-once-chain-is-available")
    /\ R.vlate = 2 => Bad("signer:message-verifies-without-chain")
    /\ (R.signok = 0 /\ R.exp > 0) => PrintT(<<"VERIF-DRIFT", l, "unexpired-signer-refuses">>)
    /\ R.verifyother = 1 => PrintT(<<"VERIF-DRIFT", l, "verifier-bound-to-other-ia-accepts">>)
    /\ nsig' = nsig + (IF rule = "" THEN 1 ELSE 0)
    /\ ngrace' = ngrace + (IF rule = "" /\ R.ingrace THEN 1 ELSE 0)
    /\ nexpired' = nexpired + (IF R.exp < 0 /\ R.signok = 0 THEN 1 ELSE 0)

Direct == /\ (R.signok = 1 /\ R.exp < 0) => Bad("direct:signs-after-expiry")
          /\ (R.signok = 0 /\ R.exp > 0) => PrintT(<<"VERIF-DRIFT", l, "unexpired-signer-refuses">>)
          /\ nexpired' = nexpired + (IF R.exp < 0 /\ R.signok = 0 THEN 1 ELSE 0)
          /\ UNCHANGED <<nsig, ngrace>>

Step == /\ l <= Len(Trace)
        /\ l' = l + 1
        /\ CASE R.ev = "pool" -> pool' = R.pool /\ UNCHANGED <<sc, nsig, ngrace, nexpired>>
             [] R.ev = "reset" -> sc' = R /\ UNCHANGED <<pool, nsig, ngrace, nexpired>>
             [] R.ev = "generate" -> UNCHANGED <<pool, sc, nsig, ngrace, nexpired>>
             [] R.ev = "signer" -> Signer /\ UNCHANGED <<pool, sc>>
             [] R.ev = "direct" -> Direct /\ UNCHANGED <<pool, sc>>
             [] OTHER -> Bad("no-spec-action:" \o R.ev) /\ UNCHANGED <<pool, sc, nsig, ngrace, nexpired>>

Done == /\ l = Len(Trace) + 1
        /\ PrintT(<<"VERIF-STAT", "signers", nsig>>)
        /\ PrintT(<<"VERIF-STAT", "signers_in_grace", ngrace>>)
        /\ PrintT(<<"VERIF-STAT", "expired_refused", nexpired>>)
        /\ PrintT(<<"VERIF-DONE", Len(Trace)>>)
        /\ UNCHANGED vars

Next == Step \/ Done
Spec == Init /\ [][Next]_vars
=============================================================================
