------------------------------ MODULE SegVerify ------------------------------
(* Exhaustive design model for C24: a segment of N entries is signed entry by entry
   (PathSegment.AddASEntry: every signature covers the entry, the segment information and all
   earlier entries with their signatures), then manipulated by up to MaxMut adversarial steps
   (alter info / a body / a signature, swap, remove, insert a replayed or foreign entry, duplicate,
   drop the tail, re-sign with a key certified for another AS / with another AS's key under the
   right name / with a certificate that does not cover the hop lifetime).
   Verify is shaped like segverifier.VerifySegment: entry by entry, verifier bound to the entry's
   ISD-AS and hop lifetime.

   Invariant (the statement of C24): the segment verifies  <=>  it is a non-empty prefix of the
   segment as signed, with the original information and nothing altered (and then every
   certificate is for the entry's AS and covers the hop lifetime).                              *)
EXTENDS SegVerifyOps, TLC

CONSTANTS N, MaxMut

Ts == 0
Good(a) == [ia |-> a, nb |-> -1000, na |-> Dur(63) + 1000]
AsName(i) == <<"a", "b", "c", "d", "e">>[i]

\* the segment as built by honest ASes 1..N (exp 63 everywhere), ids 1..N
Orig == [i \in 1..N |-> [id |-> i, hb |-> 0, sg |-> 0, ctxinfo |-> 0, ctx |-> [j \in 1..(i - 1) |-> j] \o <<>>,
                         local |-> AsName(i), claimed |-> AsName(i), exp |-> 63, cert |-> Good(AsName(i))]] \o <<>>
\* a second segment (other info, ids 11..) whose entries can be replayed into the first
Foreign(i) == [id |-> 10 + i, hb |-> 0, sg |-> 0, ctxinfo |-> 2, ctx |-> [j \in 1..(i - 1) |-> 10 + j] \o <<>>,
               local |-> AsName(i), claimed |-> AsName(i), exp |-> 63, cert |-> Good(AsName(i))]

VARIABLES ents, info, nmut
vars == <<ents, info, nmut>>

Init == ents = Orig /\ info = 0 /\ nmut = 0

Set(i, e) == [ents EXCEPT ![i] = e]
RemoveAt(s, i) == SubSeq(s, 1, i - 1) \o SubSeq(s, i + 1, Len(s))
InsertAt(s, i, e) == SubSeq(s, 1, i - 1) \o <<e>> \o SubSeq(s, i, Len(s))

\* re-signing entry i in place: a fresh signing act over the CURRENT context
Resign(i, claimed, cert) ==
    [ents[i] EXCEPT !.id = 100 + nmut * 10 + i, !.hb = 0, !.sg = 0, !.ctxinfo = info,
                    !.ctx = [j \in 1..(i - 1) |-> ents[j].id] \o <<>>, !.claimed = claimed, !.cert = cert]

Mutate ==
    /\ nmut < MaxMut /\ nmut' = nmut + 1
    /\ \/ info' = 1 /\ UNCHANGED ents
       \/ \E i \in 1..Len(ents) :
            \/ ents' = Set(i, [ents[i] EXCEPT !.hb = 1]) /\ UNCHANGED info
            \/ ents' = Set(i, [ents[i] EXCEPT !.sg = 1]) /\ UNCHANGED info
            \/ Len(ents) > 1 /\ ents' = RemoveAt(ents, i) /\ UNCHANGED info
            \/ \E j \in 1..Len(ents) : i < j /\ ents' = [ents EXCEPT ![i] = ents[j], ![j] = ents[i]] /\ UNCHANGED info
            \/ \E k \in 1..N : ents' = InsertAt(ents, i, Foreign(k)) /\ UNCHANGED info          \* replay from another segment
            \/ \E k \in 1..N : ents' = InsertAt(ents, i, Orig[k]) /\ UNCHANGED info             \* duplicate / re-insert
            \/ i < Len(ents) /\ ents' = SubSeq(ents, 1, i) /\ UNCHANGED info                    \* drop the tail
            \* another valid signature over the same input (ECDSA: (r, n-s), or the signer signing twice):
            \* a different signing act with the same content and context
            \/ ents' = Set(i, [ents[i] EXCEPT !.id = 300 + nmut * 10 + i]) /\ UNCHANGED info
            \* a key certified for ANOTHER AS, honestly named in the key id
            \/ ents' = Set(i, Resign(i, "z", Good("z"))) /\ UNCHANGED info
            \* another AS's key, but the key id names the entry's AS (no such chain exists)
            \/ ents' = Set(i, Resign(i, ents[i].local, [ia |-> "", nb |-> 0, na |-> 0])) /\ UNCHANGED info
            \* the right AS, certificate starts after the timestamp / ends before the hop expires
            \/ ents' = Set(i, Resign(i, ents[i].local, [Good(ents[i].local) EXCEPT !.nb = 1])) /\ UNCHANGED info
            \/ ents' = Set(i, Resign(i, ents[i].local, [Good(ents[i].local) EXCEPT !.na = Dur(63) - 1])) /\ UNCHANGED info

Next == Mutate
Spec == Init /\ [][Next]_vars

-----------------------------------------------------------------------------
(* VerifySegment as in the code: loop over the entries, stop at the first failure. *)
RECURSIVE VerifyFrom(_)
VerifyFrom(i) == IF i > Len(ents) THEN TRUE
                 ELSE IF ~EntryOK(ents, i, info, Ts) THEN FALSE ELSE VerifyFrom(i + 1)
Accepted == Len(ents) >= 1 /\ VerifyFrom(1)

\* signed content: what each entry and the information are, irrespective of who signed when
Content(e) == [local |-> e.local, exp |-> e.exp, hb |-> e.hb]
SameContentPrefix == /\ info = 0 /\ Len(ents) >= 1 /\ Len(ents) <= N
                     /\ \A i \in 1..Len(ents) : Content(ents[i]) = Content(Orig[i])

\* C24, "only if": whatever verifies is a prefix of the signed content, unaltered, every signature
\* made over exactly that prefix by a properly certified key of the entry's AS
OnlyPrefixesVerify == Accepted => /\ SameContentPrefix
                                  /\ \A i \in 1..Len(ents) : CertOK(ents[i], Ts) /\ ents[i].sg = 0
\* C24, "if": the untouched segment and each of its prefixes verify
PrefixesVerify == (info = 0 /\ Len(ents) >= 1 /\ Len(ents) <= N /\ ents = SubSeq(Orig, 1, Len(ents))) => Accepted
=============================================================================
