--------------------------- MODULE SymCryptoOps ---------------------------
(* Pure operators for signed control-plane messages (pkg/scrypto/signed), C38:

     "A signed message verifies under a public key if and only if it was produced by the matching
      private key over the same header, body and concatenated associated data; any change to
      header, body, signature or associated data, a different key or an algorithm inconsistent with
      the key makes verification fail, and a successful verification returns exactly the signed
      header and body."

   Cryptography is symbolic: a signature is the term [key, msg, ad] of what was signed (the encoded
   header-and-body and the concatenation of the associated data) by which key pair; it cannot be
   produced without the private key and every bit-level change yields a term that is not a signature.
   The operators are shared by the exhaustive model (SymCrypto.tla) and the trace specification
   (SymCryptoTrace.tla), where byte strings are represented by identities (equal id = equal bytes). *)
EXTENDS Integers, Sequences

EcdsaAlgos == {"ecdsa-sha256", "ecdsa-sha384", "ecdsa-sha512"}
EcdsaKeys  == {"p256", "p384", "p521"}

(* An algorithm is consistent with a key if it belongs to the key's public-key algorithm.  (Weaker
   reading: any ECDSA hash goes with any ECDSA curve, as checkPubKeyAlgo decides; the pairing
   P-256/SHA-256 ... of SelectSignatureAlgorithm is not required by the statement.)             *)
AlgoConsistent(algo, keyKind) == algo \in EcdsaAlgos /\ keyKind \in EcdsaKeys
\* the stronger reading (drift only)
AlgoPaired(algo, keyKind) == <<algo, keyKind>> \in {<<"ecdsa-sha256", "p256">>, <<"ecdsa-sha384", "p384">>,
                                                   <<"ecdsa-sha512", "p521">>}

(* sigterm: [key, msg, ad] — what the presented signature was produced over and by which key pair
   (NoSig if the presented signature bytes are not the output of any signing operation).
   The presented message verifies iff the signature was produced by the key pair of the presented
   public key over exactly the presented message and associated data, with a consistent algorithm. *)
NoSig == [key |-> 0, msg |-> 0, ad |-> 0]

MayVerify(sigterm, key, msg, ad, algo, keyKind) ==
    /\ sigterm # NoSig
    /\ sigterm.key = key /\ sigterm.msg = msg /\ sigterm.ad = ad
    /\ AlgoConsistent(algo, keyKind)

(* Which clause of the statement forbids acceptance (for failure keys). *)
WhyNot(sigterm, key, msg, ad, algo, keyKind) ==
    IF sigterm = NoSig THEN "not-a-signature"
    ELSE IF sigterm.key # key THEN "other-key"
    ELSE IF sigterm.msg # msg /\ sigterm.ad # ad THEN "msg+ad-changed"
    ELSE IF sigterm.msg # msg THEN "msg-changed"
    ELSE IF sigterm.ad # ad THEN "ad-changed"
    ELSE IF ~AlgoConsistent(algo, keyKind) THEN "algo-vs-key"
    ELSE "-"
=============================================================================
