SPECIFICATION Spec
CONSTANTS
  Cfg <- CfgAdown
  Kinds = {"scion", "epic"}
  Shapes <- ShapesAlert
  Vias = {0, 1, 2, 3}
  SrcDom = {"L", "F"}
  DstDom = {"F"}
  Faults = {"none"}
  L4Dom = {"udp"}
  InSideDom = {0, 1, 2, 3, 999}
  EgSideDom = {0, 1, 2, 3, 5, 6, 999}
  PeerDom = {FALSE}
  ExpDom = {FALSE}
  AuthDom <- AuthOK
  AlertDom <- NoAlert
  EpicDom <- EpicOK
INVARIANTS TypeOK InvC01 InvC05 InvC06 InvC12 InvC13 InvC15 InvC15Answer InvPtr
CONSTRAINT Emit
CHECK_DEADLOCK FALSE
