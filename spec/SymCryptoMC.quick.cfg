SPECIFICATION Spec
CONSTANTS
  Framing = "framed"
  MaxAttack = 1
INVARIANTS TypeOK Sound Complete ReturnsSigned
CHECK_DEADLOCK FALSE
