---------------------------- MODULE TrafficClass ----------------------------
(* C43: exhaustive model and scenario generator for traffic-class expressions.

   The state machine is shaped like classListener in gateway/pktcls/parse.go: a condition stack and a
   stack of child counters; Enter (all/any/not) opens a level (incCondDep), a leaf is pushed
   (pushCond), Exit pops the children of the innermost level (popConds / popCond) and pushes the new
   node.  `toks` is the text consumed so far (history).  Every state in which only the root level
   is open and holds one condition is a complete expression.

   MC   (TrafficClassMC.*.cfg): the listener-shaped construction yields exactly the tree an
        independent recursive-descent parser reads from the same text (ListenerBuildsTree), printing
        and re-parsing is the identity (PrintParse), hence the value on every packet is preserved
        (RoundTripValue), and not/all/any have their boolean meaning (BoolLaws).
   Gen  (TrafficClassGen.*.cfg, module TrafficClassGen): every complete expression is printed as
        <<"SCN", json>> for the driver.                                                        *)
EXTENDS TrafficClassOps, TLC, Json

CONSTANTS Leaves,     \* leaf alphabet (set of leaf asts)
          MaxNodes,   \* max number of nodes of an expression over Leaves
          WideLeaves, \* additional leaves, allowed in expressions of at most WideNodes nodes
          WideNodes,
          MaxDepth,   \* max nesting depth (a leaf has depth 1)
          MaxKids,    \* max children of all/any
          Pkts        \* packets on which the MC invariants evaluate

VARIABLES conds,   \* condStack
          counts,  \* countStack: children so far of each open level (counts[1] = root level)
          ops,     \* operator of each open level above the root
          toks,    \* history: tokens consumed
          nodes    \* nodes created or opened so far
vars == <<conds, counts, ops, toks, nodes>>

Init == conds = <<>> /\ counts = <<0>> /\ ops = <<>> /\ toks = <<>> /\ nodes = 0

Top == Len(counts)
UsesWide == \E i \in 1..Len(toks) : toks[i].k = "leaf" /\ toks[i].leaf \notin Leaves
Limit == IF UsesWide THEN WideNodes ELSE MaxNodes
CanAddChild == IF Top = 1 THEN counts[1] = 0
               ELSE IF ops[Top - 1] = "not" THEN counts[Top] = 0 ELSE counts[Top] < MaxKids
Sep == IF counts[Top] > 0 THEN <<Tok(",")>> ELSE <<>>
Bump(c) == [c EXCEPT ![Len(c)] = @ + 1]

\* EnterCondAll / EnterCondAny / EnterCondNot: incCondDep
Enter(op) == /\ CanAddChild /\ nodes + 2 <= Limit /\ Top + 1 <= MaxDepth
             /\ counts' = Append(counts, 0) /\ ops' = Append(ops, op)
             /\ toks' = toks \o Sep \o <<Tok(op \o "(")>>
             /\ nodes' = nodes + 1 /\ UNCHANGED conds

\* Enter<leaf>: pushCond
Leaf(c) == /\ CanAddChild /\ nodes + 1 <= (IF c \in Leaves THEN Limit ELSE WideNodes)
           /\ conds' = Append(conds, c) /\ counts' = Bump(counts)
           /\ toks' = toks \o Sep \o <<LeafTok(c)>>
           /\ nodes' = nodes + 1 /\ UNCHANGED ops

\* ExitCondAll / ExitCondAny (popConds) / ExitCondNot (popCond), then pushCond of the new node
Exit == /\ Top > 1 /\ counts[Top] >= 1
        /\ LET n == counts[Top]
               kids == SubSeq(conds, Len(conds) - n + 1, Len(conds))
               node == [t |-> ops[Top - 1], ch |-> kids] IN
           /\ conds' = Append(SubSeq(conds, 1, Len(conds) - n), node)
           /\ counts' = Bump(SubSeq(counts, 1, Top - 1))
        /\ ops' = SubSeq(ops, 1, Top - 2)
        /\ toks' = Append(toks, Tok(")"))
        /\ UNCHANGED nodes

Next == (\E op \in {"all", "any", "not"} : Enter(op)) \/ (\E c \in Leaves \cup WideLeaves : Leaf(c)) \/ Exit
Spec == Init /\ [][Next]_vars

Complete == Top = 1 /\ counts[1] = 1
Tree == conds[1]

-----------------------------------------------------------------------------
TypeOK == /\ Len(ops) = Top - 1 /\ nodes <= MaxNodes /\ Top <= MaxDepth
          /\ Len(conds) >= counts[Top]
ListenerBuildsTree == Complete => Len(conds) = 1 /\ Parse(toks) = Tree
PrintParse == Complete => Print(Tree) = toks /\ Parse(Print(Tree)) = Tree
RoundTripValue == Complete => \A p \in Pkts : Eval(Parse(Print(Tree)), p) = Eval(Tree, p)
BoolLaws == Complete =>
    \A p \in Pkts :
      /\ Tree.t = "not" => Eval(Tree, p) = ~Eval(Tree.ch[1], p)
      /\ Tree.t = "all" => Eval(Tree, p) = ({i \in 1..Len(Tree.ch) : ~Eval(Tree.ch[i], p)} = {})
      /\ Tree.t = "any" => Eval(Tree, p) = ({i \in 1..Len(Tree.ch) : Eval(Tree.ch[i], p)} # {})
      /\ Eval([t |-> "not", ch |-> <<[t |-> "not", ch |-> <<Tree>>]>>], p) = Eval(Tree, p)

-----------------------------------------------------------------------------
(* Alphabets *)
Net(t, a, len) == [t |-> t, a |-> a, len |-> len]
Num(t, v) == [t |-> t, v |-> v]
Port(t, lo, hi) == [t |-> t, lo |-> lo, hi |-> hi]
Pkt(s, d, tos, proto, ports, sp, dp) ==
    [src |-> s, dst |-> d, tos |-> tos, proto |-> proto, ports |-> ports, sport |-> sp, dport |-> dp]

TCP == 6
UDP == 17
ICMP == 1
SCTP == 132

McLeaves == {Num("bool", 1), Net("src", <<10, 0, 0, 0>>, 24), Num("dscp", 46), Port("dport", 80, 100)}
McPkts == {Pkt(<<10, 0, 0, 7>>, <<10, 0, 1, 7>>, 184, TCP, 1, 1000, 80),
           Pkt(<<10, 0, 1, 7>>, <<10, 0, 0, 7>>, 0, UDP, 1, 80, 101),
           Pkt(<<10, 0, 0, 255>>, <<10, 0, 0, 1>>, 185, ICMP, 0, 0, 0)}
=============================================================================
