--------------------------- MODULE RevCacheTrace ---------------------------
(* Trace specification for C31: reset-delimited histories of Insert / Get / DeleteExpired recorded by
   harness/cmd/revcache from real memrevcache instances.  Time: whole abstract seconds; every call
   carries the window lo..hi of seconds it may have observed (normally lo = hi; a call made within
   250 ms of a whole second has a two-second window and either outcome is accepted).

   Monitor (the cache behaves like the abstract store): an insertion is accepted iff
   RevCacheOps!InsertOK, a lookup returns RevCacheOps!Lookup.  The number returned by DeleteExpired
   is not part of the property (VERIF-DRIFT).                                                  *)
EXTENDS RevCacheOps, TLC, Json, Sequences, FiniteSets

Trace == ndJsonDeserialize("trace.ndjson")
Keys == 0..8

VARIABLES acc,      \* [Keys -> last accepted revocation or None]
          phys,     \* [Keys -> revocation physically in the store or None]   (drift only)
          fuzzy,    \* a clean-up had a two-second window: phys is no longer exact   (drift only)
          failed, l
vars == <<acc, phys, fuzzy, failed, l>>
R == Trace[l]
Empty == [k \in Keys |-> None]

Init == acc = Empty /\ phys = Empty /\ fuzzy = FALSE /\ failed = FALSE /\ l = 1
Bad(key) == /\ PrintT(<<"VERIF-BAD", l, key>>) /\ failed' = TRUE /\ UNCHANGED <<acc, phys, fuzzy>>
Drift(ok, key) == IF ok THEN TRUE ELSE PrintT(<<"VERIF-DRIFT", l, key>>)
Reset == acc' = Empty /\ phys' = Empty /\ fuzzy' = FALSE /\ failed' = FALSE

Win == R.lo..R.hi
Age(r, now) == IF r = None THEN "none" ELSE IF Live(r, now) THEN "live" ELSE "expired"
Rel(r, s) == IF s = None THEN "" ELSE IF r.ts > s.ts THEN ",newer" ELSE IF r.ts = s.ts THEN ",same-ts" ELSE ",older"

Ins == LET r == [ts |-> R.ts, ttl |-> R.ttl]
           s == acc[R.k] IN
       IF R.err THEN Bad("insert:error")
       ELSE IF \A now \in Win : R.ok # InsertOK(s, r, now)
         THEN Bad("insert:" \o (IF R.ok THEN "accepted" ELSE "rejected") \o ":rev=" \o Age(r, R.lo) \o
                  ",stored=" \o Age(s, R.lo) \o Rel(r, s))
       ELSE /\ acc' = IF R.ok THEN [acc EXCEPT ![R.k] = r] ELSE acc
            /\ phys' = IF R.ok THEN [phys EXCEPT ![R.k] = r] ELSE phys
            /\ UNCHANGED <<fuzzy, failed>>

Get == LET obs == IF R.found THEN [ts |-> R.ts, ttl |-> R.ttl] ELSE None
           s == acc[R.k] IN
       IF R.err THEN Bad("get:error")
       ELSE IF ~R.samekey THEN Bad("get:revocation-of-another-interface")
       ELSE IF \A now \in Win : obs # Lookup(s, now)
         THEN Bad(IF ~R.found THEN "get:live-revocation-not-returned"
                  ELSE IF obs = s THEN "get:returned-expired"
                  ELSE "get:returned-not-the-accepted-one:returned=" \o Age(obs, R.lo) \o Rel(obs, s) \o
                       ",accepted=" \o Age(s, R.lo))
       ELSE UNCHANGED <<acc, phys, fuzzy, failed>>

Del == IF R.err THEN Bad("delete-expired:error")
       ELSE /\ phys' = [k \in Keys |-> IF Live(phys[k], R.hi) THEN phys[k] ELSE None]
            /\ fuzzy' = (fuzzy \/ R.lo # R.hi)
            /\ Drift(fuzzy \/ R.lo # R.hi \/ R.n = Cardinality({k \in Keys : phys[k] # None /\ ~Live(phys[k], R.lo)}),
                     "delete-expired:count")
            /\ UNCHANGED <<acc, failed>>

Step == /\ l <= Len(Trace)
        /\ l' = l + 1
        /\ IF R.ev = "reset" THEN Reset
           ELSE IF failed THEN UNCHANGED <<acc, phys, fuzzy, failed>>
           ELSE CASE R.ev = "ins" -> Ins
                  [] R.ev = "get" -> Get
                  [] R.ev = "del" -> Del
                  [] OTHER -> Bad("no-spec-action:" \o R.ev)
Done == /\ l = Len(Trace) + 1
        /\ PrintT(<<"VERIF-DONE", Len(Trace)>>)
        /\ UNCHANGED vars
Next == Step \/ Done
Spec == Init /\ [][Next]_vars
=============================================================================
