--------------------------- MODULE RevCacheTrace ---------------------------
(* Trace specification for C31: reset-delimited histories of Insert / Get / DeleteExpired recorded by
   harness/cmd/revcache from real memrevcache instances.  Time: whole abstract seconds; every call
   carries the window lo..hi of seconds it may have observed (normally lo = hi; a call made within
   250 ms of a whole second has a two-second window and either outcome is accepted).

   Monitor (the cache behaves like the abstract store): an insertion is accepted iff
   RevCacheOps!InsertOK, a lookup returns RevCacheOps!Lookup, GetAll returns exactly the live accepted
   revocations, and a burst of concurrent callers has a linearization (see Burst).  The number returned by DeleteExpired
   is not part of the property (VERIF-DRIFT).                                                  *)
EXTENDS RevCacheOps, TLC, Json, Sequences, FiniteSets

Trace == ndJsonDeserialize("trace.ndjson")
Keys == 0..8

VARIABLES acc,      \* [Keys -> last accepted revocation or None]
          phys,     \* [Keys -> revocation physically in the store or None]   (drift only)
          fuzzy,    \* a clean-up had a two-second window: phys is no longer exact   (drift only)
          failed, l
vars == <<acc, phys, fuzzy, failed, l>>
R == Trace[l]
Empty == [k \in Keys |-> None]

Init == acc = Empty /\ phys = Empty /\ fuzzy = FALSE /\ failed = FALSE /\ l = 1
Bad(key) == /\ PrintT(<<"VERIF-BAD", l, key>>) /\ failed' = TRUE /\ UNCHANGED <<acc, phys, fuzzy>>
Drift(ok, key) == IF ok THEN TRUE ELSE PrintT(<<"VERIF-DRIFT", l, key>>)
Reset == acc' = Empty /\ phys' = Empty /\ fuzzy' = FALSE /\ failed' = FALSE

Win == R.lo..R.hi
Age(r, now) == IF r = None THEN "none" ELSE IF Live(r, now) THEN "live" ELSE "expired"
Rel(r, s) == IF s = None THEN "" ELSE IF r.ts > s.ts THEN ",newer" ELSE IF r.ts = s.ts THEN ",same-ts" ELSE ",older"

Ins == LET r == [ts |-> R.ts, ttl |-> R.ttl]
           s == acc[R.k] IN
       IF R.err THEN Bad("insert:error")
       ELSE IF \A now \in Win : R.ok # InsertOK(s, r, now)
         THEN Bad("insert:" \o (IF R.ok THEN "accepted" ELSE "rejected") \o ":rev=" \o Age(r, R.lo) \o
                  ",stored=" \o Age(s, R.lo) \o Rel(r, s))
       ELSE /\ acc' = IF R.ok THEN [acc EXCEPT ![R.k] = r] ELSE acc
            /\ phys' = IF R.ok THEN [phys EXCEPT ![R.k] = r] ELSE phys
            /\ UNCHANGED <<fuzzy, failed>>

Get == LET obs == IF R.found THEN [ts |-> R.ts, ttl |-> R.ttl] ELSE None
           s == acc[R.k] IN
       IF R.err THEN Bad("get:error")
       ELSE IF ~R.samekey THEN Bad("get:revocation-of-another-interface")
       ELSE IF \A now \in Win : obs # Lookup(s, now)
         THEN Bad(IF ~R.found THEN "get:live-revocation-not-returned"
                  ELSE IF obs = s THEN "get:returned-expired"
                  ELSE "get:returned-not-the-accepted-one:returned=" \o Age(obs, R.lo) \o Rel(obs, s) \o
                       ",accepted=" \o Age(s, R.lo))
       ELSE UNCHANGED <<acc, phys, fuzzy, failed>>

\* GetAll = every accepted revocation that is still live, nothing else
LiveItems(a, now) == {<<k, a[k].ts, a[k].ttl>> : k \in {x \in Keys : Live(a[x], now)}}
ItemSet(items) == {<<items[i][1], items[i][2], items[i][3]>> : i \in 1..Len(items)}
All == IF R.err THEN Bad("getall:error")
       ELSE IF \A now \in Win : ItemSet(R.items) # LiveItems(acc, now)
         THEN Bad(IF \E now \in Win : ItemSet(R.items) \subseteq LiveItems(acc, now) THEN "getall:live-revocation-missing"
                  ELSE IF \E now \in Win : LiveItems(acc, now) \subseteq ItemSet(R.items) THEN "getall:returned-expired-or-foreign"
                  ELSE "getall:wrong-set")
       ELSE UNCHANGED <<acc, phys, fuzzy, failed>>

(* A burst of concurrent callers (ops[i] = [c, kind, k, ts, ttl, ok, found, rts, rttl, items, inv, res]): the
   cache is linearizable iff the calls can be put in an order that respects real time (a before b whenever
   a.res < b.inv) in which every call returns what the abstract store prescribes at that point.  The calls
   the driver makes after the burst (one lookup per key, GetAll) are part of ops, so the final content is
   judged as well.  Each call may see any second of the burst's window.                            *)
OpMatch(o, a) ==
    CASE o.kind = "ins" -> ~o.err /\ \E now \in Win : o.ok = InsertOK(a[o.k], [ts |-> o.ts, ttl |-> o.ttl], now)
      [] o.kind = "get" -> ~o.err /\ \E now \in Win :
                              (IF o.found THEN [ts |-> o.rts, ttl |-> o.rttl] ELSE None) = Lookup(a[o.k], now)
      [] o.kind = "all" -> ~o.err /\ \E now \in Win : ItemSet(o.items) = LiveItems(a, now)
      [] o.kind = "del" -> ~o.err
OpApply(o, a) == IF o.kind = "ins" /\ o.ok THEN [a EXCEPT ![o.k] = [ts |-> o.ts, ttl |-> o.ttl]] ELSE a
RECURSIVE Lin(_, _, _)
Lin(ops, rem, a) ==
    IF rem = {} THEN TRUE
    ELSE \E i \in rem :
           /\ \A j \in rem : j = i \/ ~(ops[j].res < ops[i].inv)
           /\ OpMatch(ops[i], a)
           /\ Lin(ops, rem \ {i}, OpApply(ops[i], a))
Burst == IF ~Lin(R.ops, 1..Len(R.ops), acc)
           THEN Bad("burst:no-linearization:callers=" \o ToString(Cardinality({R.ops[i].c : i \in 1..Len(R.ops)}) - 1))
         ELSE UNCHANGED <<acc, phys, fuzzy, failed>>       \* a burst is the last event of its history

Del == IF R.err THEN Bad("delete-expired:error")
       ELSE /\ phys' = [k \in Keys |-> IF Live(phys[k], R.hi) THEN phys[k] ELSE None]
            /\ fuzzy' = (fuzzy \/ R.lo # R.hi)
            /\ Drift(fuzzy \/ R.lo # R.hi \/ R.n = Cardinality({k \in Keys : phys[k] # None /\ ~Live(phys[k], R.lo)}),
                     "delete-expired:count")
            /\ UNCHANGED <<acc, failed>>

Step == /\ l <= Len(Trace)
        /\ l' = l + 1
        /\ IF R.ev = "reset" THEN Reset
           ELSE IF failed THEN UNCHANGED <<acc, phys, fuzzy, failed>>
           ELSE CASE R.ev = "ins" -> Ins
                  [] R.ev = "get" -> Get
                  [] R.ev = "del" -> Del
                  [] R.ev = "all" -> All
                  [] R.ev = "burst" -> Burst
                  [] OTHER -> Bad("no-spec-action:" \o R.ev)
Done == /\ l = Len(Trace) + 1
        /\ PrintT(<<"VERIF-DONE", Len(Trace)>>)
        /\ UNCHANGED vars
Next == Step \/ Done
Spec == Init /\ [][Next]_vars
=============================================================================
